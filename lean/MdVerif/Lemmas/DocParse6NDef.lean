/-
Helper definitions for C01 with inline links, inline images AND hard breaks in one paragraph (`Props/C01i.lean`, last
part): the text `C₀ U₁ C₁ … Uₘ Cₘ` of a paragraph where every `Uᵢ` is an inline link `[T](d)`, an inline image
`![alt](d)` or a hard break (two spaces and a line feed), at every stage of the inline pattern loop — `Lemmas/
DocParse6MDef.lean` with a third kind of use.  The link pattern (3) runs first, then the image pattern (4), then the
line-break pattern (10): the stash holds the `<a>` elements of all links (each after the emphases of its text), then
the `<img>` elements, then the `<br>` elements; the placeholders in the text are in document order.  Core Lean only.
-/
import MdVerif.Lemmas.DocParse6MDef

namespace MdVerif.DocMixB
open Py Inline Escape DocSpec CodeLaw DocParse Block DocParse2 RefText DocLink DocImg

/-- a link, an image or a hard break, with the content after it -/
inductive BUse where
  | lk (u : IUse)
  | im (u : DocImg.MUse)
  | br (C : Chunk)

def BUse.C : BUse → Chunk
  | .lk u => u.C
  | .im u => u.C
  | .br C => C

/-- escapes in the text part -/
def BUse.tEscs (esc : List Char) : BUse → Nat
  | .lk u => u.T.escs esc
  | _ => 0

/-- items of class `k` in the text part -/
def BUse.tCnt (k : Nat) : BUse → Nat
  | .lk u => u.T.cnt k
  | _ => 0

structure BUseOK (esc : List Char) (g : BUse) : Prop where
  lk : ∀ u, g = .lk u → IUseOK esc u
  im : ∀ u, g = .im u → DocImg.MUseOK esc u
  br : ∀ C, g = .br C → ChunkOK esc C ∧ (C.t0 ≠ [] → startsVisible C.t0 = true)

/-- `[text](dest)` / `![alt](dest)` / two spaces and a line feed, at level `lv` -/
def BUse.head (esc : List Char) (lv : Nat) (pe : Bool) (m n0 : Nat) : BUse → Str
  | .lk u => '[' :: (u.T.stage esc lv pe m n0 0 0 ++ closerI u)
  | .im u => openerM u
  | .br _ => brS

/-- the uses with the content after each, after the classes below `lv` have been taken out -/
def bStage (esc : List Char) (lv : Nat) (pe : Bool) : Nat → Nat → List BUse → Str
  | _, _, [] => []
  | m, n0, g :: r =>
    g.head esc lv pe m n0 ++ (g.C.stage esc lv pe (m + g.tEscs esc) (n0 + g.tCnt 0) 0 0 ++
      bStage esc lv pe (m + g.tEscs esc + g.C.escs esc) (n0 + g.tCnt 0 + g.C.cnt 0) r)

/-- the text of the paragraph (its lines joined by line feeds) -/
def bRaw (esc : List Char) (C0 : Chunk) (gs : List BUse) : Str := C0.raw esc ++ bStage esc 0 false 0 0 gs

def bCnt0 : List BUse → Nat
  | [] => 0
  | g :: r => g.tCnt 0 + g.C.cnt 0 + bCnt0 r

def bNodes0 : List BUse → List StashItem
  | [] => []
  | .lk u :: r => nodesOf 0 u.T.segs ++ (nodesOf 0 u.C.segs ++ bNodes0 r)
  | .im u :: r => nodesOf 0 u.C.segs ++ bNodes0 r
  | .br C :: r => nodesOf 0 C.segs ++ bNodes0 r

def bEscs (esc : List Char) : List BUse → Nat
  | [] => 0
  | g :: r => g.tEscs esc + g.C.escs esc + bEscs esc r

def bEscStash (esc : List Char) : List BUse → List StashItem
  | [] => []
  | .lk u :: r => u.T.escStash esc ++ (u.C.escStash esc ++ bEscStash esc r)
  | .im u :: r => u.C.escStash esc ++ bEscStash esc r
  | .br C :: r => C.escStash esc ++ bEscStash esc r

def bOutCnt (k : Nat) : List BUse → Nat
  | [] => 0
  | g :: r => g.C.cnt k + bOutCnt k r

/-- after the link pattern: the links are placeholders (`s`: the size of the stash before the link), the images and the
    hard breaks are still source -/
def bStageL (esc : List Char) : Nat → Nat → Nat → List BUse → Str
  | _, _, _, [] => []
  | m, n0, s, .lk u :: r =>
    placeholder (s + u.T.cnt 1 + u.T.cnt 2) ++ (u.C.stage esc 1 true (m + u.T.escs esc) (n0 + u.T.cnt 0) 0 0 ++
      bStageL esc (m + u.T.escs esc + u.C.escs esc) (n0 + u.T.cnt 0 + u.C.cnt 0) (s + u.T.cnt 1 + u.T.cnt 2 + 1) r)
  | m, n0, s, .im u :: r =>
    openerM u ++ (u.C.stage esc 1 true m n0 0 0 ++ bStageL esc (m + u.C.escs esc) (n0 + u.C.cnt 0) s r)
  | m, n0, s, .br C :: r =>
    brS ++ (C.stage esc 1 true m n0 0 0 ++ bStageL esc (m + C.escs esc) (n0 + C.cnt 0) s r)

/-- after the image pattern: links and images are placeholders (`t`: the running number of the image), the hard breaks
    are still source -/
def bStageI (esc : List Char) : Nat → Nat → Nat → Nat → List BUse → Str
  | _, _, _, _, [] => []
  | m, n0, s, t, .lk u :: r =>
    placeholder (s + u.T.cnt 1 + u.T.cnt 2) ++ (u.C.stage esc 1 true (m + u.T.escs esc) (n0 + u.T.cnt 0) 0 0 ++
      bStageI esc (m + u.T.escs esc + u.C.escs esc) (n0 + u.T.cnt 0 + u.C.cnt 0) (s + u.T.cnt 1 + u.T.cnt 2 + 1) t r)
  | m, n0, s, t, .im u :: r =>
    placeholder t ++ (u.C.stage esc 1 true m n0 0 0 ++ bStageI esc (m + u.C.escs esc) (n0 + u.C.cnt 0) s (t + 1) r)
  | m, n0, s, t, .br C :: r =>
    brS ++ (C.stage esc 1 true m n0 0 0 ++ bStageI esc (m + C.escs esc) (n0 + C.cnt 0) s t r)

/-- what the link pattern adds to the stash -/
def bLinkStash (esc : List Char) : Nat → Nat → Nat → List BUse → List StashItem
  | _, _, _, [] => []
  | m, n0, s, .lk u :: r =>
    nodesOf 1 u.T.segs ++ (nodesOf 2 u.T.segs ++
      (.node (InlineRef.linkEl u.url (titleOf u.dtitle) (u.T.stage esc 3 true m n0 s (s + u.T.cnt 1))) ::
        bLinkStash esc (m + u.T.escs esc + u.C.escs esc) (n0 + u.T.cnt 0 + u.C.cnt 0) (s + u.T.cnt 1 + u.T.cnt 2 + 1) r))
  | m, n0, s, .im u :: r => bLinkStash esc (m + u.C.escs esc) (n0 + u.C.cnt 0) s r
  | m, n0, s, .br C :: r => bLinkStash esc (m + C.escs esc) (n0 + C.cnt 0) s r

def bLinkLen : List BUse → Nat
  | [] => 0
  | .lk u :: r => u.T.cnt 1 + u.T.cnt 2 + 1 + bLinkLen r
  | _ :: r => bLinkLen r

/-- the `<img>` elements, left to right -/
def bImgs : List BUse → List StashItem
  | [] => []
  | .im u :: r => .node (imgNode u) :: bImgs r
  | _ :: r => bImgs r

def bImgLen : List BUse → Nat
  | [] => 0
  | .im _ :: r => bImgLen r + 1
  | _ :: r => bImgLen r

/-- the number of hard breaks -/
def bBrLen : List BUse → Nat
  | [] => 0
  | .br _ :: r => bBrLen r + 1
  | _ :: r => bBrLen r

/-- what is left of the uses once patterns 3, 4 and 10 have run: the placeholder of the `<a>` element (`s`: running size
    of the stash during the link pass), of the `<img>` element (`t`: running number during the image pass) or of the
    `<br>` element (`b`: running number during the line-break pass), then the content after the use -/
def bOuter (esc : List Char) : Nat → Nat → Nat → Nat → Nat → List BUse → List OItem
  | _, _, _, _, _, [] => []
  | m, n0, s, t, b, .lk u :: r =>
    ⟨s + u.T.cnt 1 + u.T.cnt 2, u.C, m + u.T.escs esc, n0 + u.T.cnt 0⟩ ::
      bOuter esc (m + u.T.escs esc + u.C.escs esc) (n0 + u.T.cnt 0 + u.C.cnt 0) (s + u.T.cnt 1 + u.T.cnt 2 + 1) t b r
  | m, n0, s, t, b, .im u :: r =>
    ⟨t, u.C, m, n0⟩ :: bOuter esc (m + u.C.escs esc) (n0 + u.C.cnt 0) s (t + 1) b r
  | m, n0, s, t, b, .br C :: r =>
    ⟨b, C, m, n0⟩ :: bOuter esc (m + C.escs esc) (n0 + C.cnt 0) s t (b + 1) r

/-- first escape, first entry of the link pass, first image, first hard break, first `*` emphasis, first `_` emphasis -/
def mStartB (s0 : Nat) (C0 : Chunk) (gs : List BUse) : Nat := s0 + C0.cnt 0 + bCnt0 gs
def lStartB (esc : List Char) (s0 : Nat) (C0 : Chunk) (gs : List BUse) : Nat :=
  mStartB s0 C0 gs + C0.escs esc + bEscs esc gs
def iStartB (esc : List Char) (s0 : Nat) (C0 : Chunk) (gs : List BUse) : Nat := lStartB esc s0 C0 gs + bLinkLen gs
def rStartB (esc : List Char) (s0 : Nat) (C0 : Chunk) (gs : List BUse) : Nat := iStartB esc s0 C0 gs + bImgLen gs
def o1StartB (esc : List Char) (s0 : Nat) (C0 : Chunk) (gs : List BUse) : Nat := rStartB esc s0 C0 gs + bBrLen gs
def o2StartB (esc : List Char) (s0 : Nat) (C0 : Chunk) (gs : List BUse) : Nat :=
  o1StartB esc s0 C0 gs + C0.cnt 1 + bOutCnt 1 gs

def lineOuterB (esc : List Char) (s0 : Nat) (C0 : Chunk) (gs : List BUse) : List OItem :=
  bOuter esc (mStartB s0 C0 gs + C0.escs esc) (s0 + C0.cnt 0) (lStartB esc s0 C0 gs) (iStartB esc s0 C0 gs)
    (rStartB esc s0 C0 gs) gs

def lineLinksB (esc : List Char) (s0 : Nat) (C0 : Chunk) (gs : List BUse) : List StashItem :=
  bLinkStash esc (mStartB s0 C0 gs + C0.escs esc) (s0 + C0.cnt 0) (lStartB esc s0 C0 gs) gs

/-- what `__handleInline` returns for the text: every item and every use a placeholder -/
def bRes (esc : List Char) (s0 : Nat) (C0 : Chunk) (gs : List BUse) : Str :=
  C0.stage esc 3 true (mStartB s0 C0 gs) s0 (o1StartB esc s0 C0 gs) (o2StartB esc s0 C0 gs) ++
    outStage esc 3 (o1StartB esc s0 C0 gs + C0.cnt 1) (o2StartB esc s0 C0 gs + C0.cnt 2) (lineOuterB esc s0 C0 gs)

/-- what it adds to the stash: the code spans, the escapes, the entries of the link pass, the `<img>` elements, the
    `<br>` elements, the `*` emphases, the `_` emphases of the contents -/
def bStash (esc : List Char) (s0 : Nat) (C0 : Chunk) (gs : List BUse) : List StashItem :=
  (nodesOf 0 C0.segs ++ bNodes0 gs) ++ ((C0.escStash esc ++ bEscStash esc gs) ++ (lineLinksB esc s0 C0 gs ++
    (bImgs gs ++ (brItems (bBrLen gs) ++ ((nodesOf 1 C0.segs ++ outNodes 1 (lineOuterB esc s0 C0 gs)) ++
      (nodesOf 2 C0.segs ++ outNodes 2 (lineOuterB esc s0 C0 gs)))))))

/-- **what the pattern loop does on the text** (proved in `Lemmas/DocParse6NLoop.lean`; the stages after the loop take
    it as a hypothesis) -/
def LoopOKB (cfg : Inline.Cfg) (C0 : Chunk) (gs : List BUse) : Prop :=
  ∀ st : St, handleInlineTop cfg (bRaw cfg.esc C0 gs) st =
    some (bRes cfg.esc st.stash.length C0 gs,
      { st with stash := st.stash ++ bStash cfg.esc st.stash.length C0 gs })

/-- the children the uses give: each `<a>` / `<img>` / `<br>` element with the text after it as tail, then the items of
    that content -/
def bKids (esc : List Char) : List BUse → List Node
  | [] => []
  | .lk u :: r => { aNode esc u.url (titleOf u.dtitle) u.T with tail := optStr (coded esc u.C.t0) } ::
      (u.C.segs.map (tailedM esc) ++ bKids esc r)
  | .im u :: r => { imgNode u with tail := optStr (coded esc u.C.t0) } :: (u.C.segs.map (tailedM esc) ++ bKids esc r)
  | .br C :: r => brT esc C.t0 :: (C.segs.map (tailedM esc) ++ bKids esc r)

/-- the `<p>` element (tag `tg`) after the inline processor -/
def bMid (tg : Str) (esc : List Char) (C0 : Chunk) (gs : List BUse) : Node :=
  { tag := .name tg, text := optStr (coded esc C0.t0), children := C0.segs.map (tailedM esc) ++ bKids esc gs }

def bOutU : BUse → Str
  | .lk u => aOpen u.url (titleOf u.dtitle) ++ (u.T.out ++ (aClose ++ u.C.out))
  | .im u => imgHtml u ++ u.C.out
  | .br C => brOutS ++ C.out

def bOutS : List BUse → Str
  | [] => []
  | g :: r => bOutU g ++ bOutS r

theorem bOutS_cons (g : BUse) (r : List BUse) : bOutS (g :: r) = bOutU g ++ bOutS r := rfl
theorem bOutS_nil : bOutS [] = [] := rfl

/-- the output of the element -/
def bOut (tg : Str) (C0 : Chunk) (gs : List BUse) : Str :=
  '<' :: tg ++ ['>'] ++ (C0.out ++ bOutS gs) ++ ('<' :: '/' :: tg ++ ['>'])

end MdVerif.DocMixB
