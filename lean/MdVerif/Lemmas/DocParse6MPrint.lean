/-
Helper lemmas for C01 with inline links AND inline images in one line (`Props/C01i.lean`, last part): the printer and
the specification side of a line of words, escapes, code spans, emphasised words, inline links `[text](dest "title")`
and inline images `![alt](dest "title")` in any order — the merge of `Lemmas/DocParse5.lean` (sections 1, 2, 6, 9, 11,
12), `Lemmas/DocParse6H.lean` (section 3) and `Lemmas/DocParse6Print.lean`.  The definitions of the stages are in
`Lemmas/DocParse6MDef.lean`.  Core Lean only.
-/
import MdVerif.Lemmas.DocParse6MDef
import MdVerif.Lemmas.DocParse6Print
import MdVerif.Lemmas.DocParse6H
import MdVerif.Spec.DocFlat3

namespace MdVerif.DocMix
open Py Inline Escape DocSpec CodeLaw DocParse Block DocParse2 RefText DocLink DocImg

/-! ### 1. content with links and images: the content before the first use, and per use what follows it -/

inductive GIt where
  | lk (l : LinkIt)
  | im (l : ImgIt)

def GIt.after : GIt → List DocSpec.Inline
  | .lk l => l.after
  | .im l => l.after

def GIt.toInline : GIt → DocSpec.Inline
  | .lk l => .link l.text l.dest l.title
  | .im l => .image l.alt l.dest l.title

/-- a link or an image -/
def isUseI : DocSpec.Inline → Bool
  | .link _ _ _ => true
  | .image _ _ _ => true
  | _ => false

def gSplit : List DocSpec.Inline → List DocSpec.Inline × List GIt
  | [] => ([], [])
  | x :: r =>
    match x with
    | .link c d t => ([], .lk ⟨c, d, t, (gSplit r).1⟩ :: (gSplit r).2)
    | .image a d t => ([], .im ⟨a, d, t, (gSplit r).1⟩ :: (gSplit r).2)
    | _ => (x :: (gSplit r).1, (gSplit r).2)

def joinG (A : List DocSpec.Inline) : List GIt → List DocSpec.Inline
  | [] => A
  | l :: r => A ++ l.toInline :: joinG l.after r

theorem joinG_nil (A : List DocSpec.Inline) : joinG A [] = A := rfl

theorem joinG_lk (A : List DocSpec.Inline) (l : LinkIt) (r : List GIt) :
    joinG A (.lk l :: r) = A ++ .link l.text l.dest l.title :: joinG l.after r := rfl

theorem joinG_im (A : List DocSpec.Inline) (l : ImgIt) (r : List GIt) :
    joinG A (.im l :: r) = A ++ .image l.alt l.dest l.title :: joinG l.after r := rfl

theorem gSplit_link (c : List DocSpec.Inline) (d : Str) (t : Option Str) (r : List DocSpec.Inline) :
    gSplit (.link c d t :: r) = ([], .lk ⟨c, d, t, (gSplit r).1⟩ :: (gSplit r).2) := by rw [gSplit]

theorem gSplit_image (a : Str) (d : Str) (t : Option Str) (r : List DocSpec.Inline) :
    gSplit (.image a d t :: r) = ([], .im ⟨a, d, t, (gSplit r).1⟩ :: (gSplit r).2) := by rw [gSplit]

theorem gSplit_other (x : DocSpec.Inline) (r : List DocSpec.Inline) (hx : isUseI x = false) :
    gSplit (x :: r) = (x :: (gSplit r).1, (gSplit r).2) := by
  cases x <;> simp_all [isUseI, gSplit]

theorem isUseI_cases (x : DocSpec.Inline) (hx : isUseI x = true) :
    (∃ c d t, x = .link c d t) ∨ ∃ a d t, x = .image a d t := by
  cases x <;> simp_all [isUseI]

theorem joinG_split (c : List DocSpec.Inline) : joinG (gSplit c).1 (gSplit c).2 = c := by
  induction c with
  | nil => rfl
  | cons x r ih =>
    by_cases hx : isUseI x = true
    · rcases isUseI_cases x hx with ⟨c', d, t, rfl⟩ | ⟨a, d, t, rfl⟩
      · rw [gSplit_link]; simp [joinG, GIt.toInline, GIt.after, ih]
      · rw [gSplit_image]; simp [joinG, GIt.toInline, GIt.after, ih]
    · have hx' : isUseI x = false := by simpa using hx
      rw [gSplit_other x r hx']
      cases h2 : (gSplit r).2 with
      | nil => rw [h2] at ih; simpa [joinG] using ih
      | cons l ls => rw [h2] at ih; simp only [joinG] at ih ⊢; rw [List.cons_append, ih]

theorem gSplit_prefix (c : List DocSpec.Inline) : ∃ T, c = (gSplit c).1 ++ T := by
  induction c with
  | nil => exact ⟨[], rfl⟩
  | cons x r ih =>
    by_cases hx : isUseI x = true
    · rcases isUseI_cases x hx with ⟨c', d, t, rfl⟩ | ⟨a, d, t, rfl⟩
      · rw [gSplit_link]; exact ⟨_, rfl⟩
      · rw [gSplit_image]; exact ⟨_, rfl⟩
    · have hx' : isUseI x = false := by simpa using hx
      obtain ⟨T, hT⟩ := ih
      rw [gSplit_other x r hx']
      exact ⟨T, by simp only [List.cons_append]; rw [← hT]⟩

theorem noUses_of_split (c : List DocSpec.Inline) (h : (gSplit c).2 = []) : ∀ x ∈ c, isUseI x = false := by
  induction c with
  | nil => intro x hx; cases hx
  | cons a r ih =>
    by_cases ha : isUseI a = true
    · rcases isUseI_cases a ha with ⟨c', d, t, rfl⟩ | ⟨al, d, t, rfl⟩
      · rw [gSplit_link] at h; simp at h
      · rw [gSplit_image] at h; simp at h
    · have ha' : isUseI a = false := by simpa using ha
      rw [gSplit_other a r ha'] at h
      intro x hx
      rcases List.mem_cons.1 hx with rfl | hx
      · exact ha'
      · exact ih h x hx

/-! ### 2. `printInlines` on content followed by a link or an image -/

/-- the parts of the printed form: the content, `[`, the link text, `]`, the tail, the rest -/
theorem printInlines_joinG_lk (A : List DocSpec.Inline) (hA : mixItemsOK A = true) (l : LinkIt)
    (r : List GIt) (pB : Bool) (st : PSt) (sa : Str) (st1 : PSt)
    (ha : printInlines none pB true A st = (sa, st1)) (sT : Str) (st2 : PSt)
    (hT : printInlines none true true l.text st1 = (sT, st2)) (tl : Str) (st3 : PSt)
    (htl : linkTail (plainLabel l.text) (safeAfterRef (joinG l.after r)) l.dest l.title st2 = (tl, st3))
    (sr : Str) (st4 : PSt)
    (hr : printInlines none (afterBoundary (afterBoundary pB sa) ('[' :: sT ++ [']'] ++ tl)) true
      (joinG l.after r) st3 = (sr, st4)) :
    printInlines none pB true (joinG A (.lk l :: r)) st = (sa ++ (('[' :: sT ++ [']'] ++ tl) ++ sr), st4) := by
  have hnb : nextBoundary true (DocSpec.Inline.link l.text l.dest l.title :: joinG l.after r) = true := rfl
  rw [joinG_lk, printInlines_append_plain none _ A (plain_of_mix A hA), hnb, ha]
  simp only [printInlines_cons', printInline_link, hT, htl, hr]

/-- the parts of the printed form: the content, `![`, the alt text, `]`, the tail, the rest -/
theorem printInlines_joinG_im (A : List DocSpec.Inline) (hA : mixItemsOK A = true) (l : ImgIt)
    (r : List GIt) (pB : Bool) (st : PSt) (sa : Str) (st1 : PSt)
    (ha : printInlines none pB true A st = (sa, st1)) (tl : Str) (st3 : PSt)
    (htl : linkTail (some l.alt) (safeAfterRef (joinG l.after r)) l.dest l.title st1 = (tl, st3))
    (sr : Str) (st4 : PSt)
    (hr : printInlines none (afterBoundary (afterBoundary pB sa) ('!' :: '[' :: l.alt ++ [']'] ++ tl)) true
      (joinG l.after r) st3 = (sr, st4)) :
    printInlines none pB true (joinG A (.im l :: r)) st = (sa ++ (('!' :: '[' :: l.alt ++ [']'] ++ tl) ++ sr), st4) := by
  have hnb : nextBoundary true (DocSpec.Inline.image l.alt l.dest l.title :: joinG l.after r) = true := rfl
  rw [joinG_im, printInlines_append_plain none _ A (plain_of_mix A hA), hnb, ha]
  simp only [printInlines_cons', printInline_image, htl, hr]

/-- what the domain says of a use and the content after it -/
def GItOK : GIt → Prop
  | .lk l => LinkOK l
  | .im l => ImgOK l

theorem GItOK.after {l : GIt} (h : GItOK l) : mixOK l.after = true := by
  cases l with
  | lk l => exact LinkOK.after h
  | im l => exact ImgOK.after h

/-- the definitions only grow, whatever the styles -/
theorem printG_defs : ∀ (ls : List GIt) (A : List DocSpec.Inline) (pB : Bool) (st : PSt),
    mixItemsOK A = true → (∀ l ∈ ls, GItOK l) →
    ∃ e, (printInlines none pB true (joinG A ls) st).2.defs = st.defs ++ e := by
  intro ls
  induction ls with
  | nil =>
    intro A pB st hA _
    obtain ⟨segs, st', hp, hd, _⟩ := printInlines_mix A hA pB true st
    exact ⟨[], by simp [joinG, hp, hd]⟩
  | cons g r ih =>
    intro A pB st hA hls
    have hg := hls g List.mem_cons_self
    cases g with
    | lk l =>
      have hl : LinkOK l := hg
      have hTi : mixItemsOK l.text = true := by
        have := hl.text; simp only [mixOK, Bool.and_eq_true] at this; exact this.1.1
      have hCi : mixItemsOK l.after = true := by
        have := hl.after; simp only [mixOK, Bool.and_eq_true] at this; exact this.1.1
      obtain ⟨segs, st1, hp, hd, _⟩ := printInlines_mix A hA pB true st
      obtain ⟨segsT, st2, hpT, hdT, _⟩ := printInlines_mix l.text hTi true true st1
      obtain ⟨e1, he1⟩ := linkTail_defs (plainLabel l.text) (safeAfterRef (joinG l.after r)) l.dest l.title st2
      generalize htl : linkTail (plainLabel l.text) (safeAfterRef (joinG l.after r)) l.dest l.title st2 = tlp at he1
      obtain ⟨tl, st3⟩ := tlp
      obtain ⟨e2, he2⟩ := ih l.after
        (afterBoundary (afterBoundary pB (escAll ESC (splitMix A).1 ++ rawM ESC segs))
          ('[' :: (escAll ESC (splitMix l.text).1 ++ rawM ESC segsT) ++ [']'] ++ tl)) st3 hCi
        (fun x hx => hls x (List.mem_cons_of_mem _ hx))
      generalize hr : printInlines none (afterBoundary (afterBoundary pB (escAll ESC (splitMix A).1 ++ rawM ESC segs))
          ('[' :: (escAll ESC (splitMix l.text).1 ++ rawM ESC segsT) ++ [']'] ++ tl)) true (joinG l.after r) st3 =
        rp at he2
      obtain ⟨sr, st4⟩ := rp
      rw [printInlines_joinG_lk A hA l r pB st _ _ hp _ _ hpT _ _ htl _ _ hr]
      simp only at he1 he2 ⊢
      exact ⟨e1 ++ e2, by rw [he2, he1, hdT, hd, List.append_assoc]⟩
    | im l =>
      have hl : ImgOK l := hg
      have hCi : mixItemsOK l.after = true := by
        have := hl.after; simp only [mixOK, Bool.and_eq_true] at this; exact this.1.1
      obtain ⟨segs, st1, hp, hd, _⟩ := printInlines_mix A hA pB true st
      obtain ⟨e1, he1⟩ := linkTail_defs (some l.alt) (safeAfterRef (joinG l.after r)) l.dest l.title st1
      generalize htl : linkTail (some l.alt) (safeAfterRef (joinG l.after r)) l.dest l.title st1 = tlp at he1
      obtain ⟨tl, st3⟩ := tlp
      obtain ⟨e2, he2⟩ := ih l.after
        (afterBoundary (afterBoundary pB (escAll ESC (splitMix A).1 ++ rawM ESC segs))
          ('!' :: '[' :: l.alt ++ [']'] ++ tl)) st3 hCi
        (fun x hx => hls x (List.mem_cons_of_mem _ hx))
      generalize hr : printInlines none (afterBoundary (afterBoundary pB (escAll ESC (splitMix A).1 ++ rawM ESC segs))
          ('!' :: '[' :: l.alt ++ [']'] ++ tl)) true (joinG l.after r) st3 =
        rp at he2
      obtain ⟨sr, st4⟩ := rp
      rw [printInlines_joinG_im A hA l r pB st _ _ hp _ _ htl _ _ hr]
      simp only at he1 he2 ⊢
      exact ⟨e1 ++ e2, by rw [he2, he1, hd, List.append_assoc]⟩

/-! ### 3. the printed form of content with links and images -/

/-- a use as printed in the inline style, with the content after it -/
def GW : GIt → GUse → Prop
  | .lk l, .lk u => LinkW l u
  | .im l, .im u => ImgW l u
  | _, _ => False

def GsW : List GIt → List GUse → Prop
  | [], [] => True
  | l :: ls, u :: us => GW l u ∧ GsW ls us
  | _, _ => False

theorem gsW_cons {l : GIt} {ls : List GIt} {u : GUse} {us : List GUse} :
    GsW (l :: ls) (u :: us) = (GW l u ∧ GsW ls us) := rfl

theorem gsW_length : ∀ (ls : List GIt) (gs : List GUse), GsW ls gs → gs.length = ls.length := by
  intro ls
  induction ls with
  | nil => intro gs h; cases gs with
    | nil => rfl
    | cons _ _ => exact absurd h (by simp [GsW])
  | cons l r ih => intro gs h; cases gs with
    | nil => exact absurd h (by simp [GsW])
    | cons u us => rw [gsW_cons] at h; simp [ih us h.2]

theorem gsW_mem : ∀ (ls : List GIt) (gs : List GUse), GsW ls gs → ∀ u ∈ gs, ∃ l ∈ ls, GW l u := by
  intro ls
  induction ls with
  | nil => intro gs h u hu; cases gs with
    | nil => cases hu
    | cons _ _ => exact absurd h (by simp [GsW])
  | cons l r ih => intro gs h u hu; cases gs with
    | nil => cases hu
    | cons a us =>
      rw [gsW_cons] at h
      rcases List.mem_cons.1 hu with rfl | hu
      · exact ⟨l, List.mem_cons_self, h.1⟩
      · obtain ⟨l', hl', hw⟩ := ih us h.2 u hu
        exact ⟨l', List.mem_cons_of_mem _ hl', hw⟩

/-- the pieces of a link with what follows -/
theorem gStage0_lk (m n0 : Nat) (u : IUse) (us : List GUse) :
    gStage ESC 0 false m n0 (.lk u :: us) =
      ['['] ++ (u.T.raw ESC ++ ([']', '('] ++ (destSrc u.url u.dtitle ++ ([')'] ++ (u.C.raw ESC ++
        gStage ESC 0 false (m + u.T.escs ESC + u.C.escs ESC) (n0 + u.T.cnt 0 + u.C.cnt 0) us))))) := by
  simp [gStage, GUse.head, GUse.C, GUse.tEscs, GUse.tCnt, closerI, Chunk.stage_raw]

/-- the pieces of an image with what follows -/
theorem gStage0_im (m n0 : Nat) (u : DocImg.MUse) (us : List GUse) :
    gStage ESC 0 false m n0 (.im u :: us) =
      ['!', '['] ++ (u.alt ++ ([']', '('] ++ (destSrc u.url u.dtitle ++ ([')'] ++ (u.C.raw ESC ++
        gStage ESC 0 false (m + u.C.escs ESC) (n0 + u.C.cnt 0) us))))) := by
  simp [gStage, GUse.head, GUse.C, GUse.tEscs, GUse.tCnt, openerM, closerM, Chunk.stage_raw]

/-- **the printed form of content with links and images.**  The definitions grow by `extra`; when they do not grow
    and no `<` is printed, every use is printed in the inline style: the line is a chunk followed by the uses
    `[text](dest "title")content` / `![alt](dest "title")content`. -/
theorem printG_rel : ∀ (ls : List GIt) (A : List DocSpec.Inline) (st : PSt), mixOK A = true →
    (∀ l ∈ ls, GItOK l) →
    ∃ (s : Str) (st' : PSt) (extra : List Str), printInlines none true true (joinG A ls) st = (s, st') ∧
      st'.defs = st.defs ++ extra ∧
      (extra = [] → '<' ∉ s → ∃ (C0 : Chunk) (gs : List GUse),
        (∀ m n0, s = C0.raw ESC ++ gStage ESC 0 false m n0 gs) ∧ ChunkW A C0 ∧ GsW ls gs) := by
  intro ls
  induction ls with
  | nil =>
    intro A st hA _
    obtain ⟨C0, st', hp, hd, hW⟩ := chunkW_of A hA st
    exact ⟨C0.raw ESC, st', [], by simpa [joinG] using hp, by simp [hd],
      fun _ _ => ⟨C0, [], fun _ _ => by simp [gStage], hW, trivial⟩⟩
  | cons g r ih =>
    intro A st hA hls
    have hg := hls g List.mem_cons_self
    have hAi : mixItemsOK A = true := by
      have := hA; simp only [mixOK, Bool.and_eq_true] at this; exact this.1.1
    obtain ⟨C0, st1, hp, hd, hW⟩ := chunkW_of A hA st
    cases g with
    | lk l =>
      have hl : LinkOK l := hg
      have hCi : mixItemsOK l.after = true := by
        have := hl.after; simp only [mixOK, Bool.and_eq_true] at this; exact this.1.1
      obtain ⟨T, st2, hpT, hdT, hWT⟩ := chunkW_of l.text hl.text st1
      generalize htl : linkTail (plainLabel l.text) (safeAfterRef (joinG l.after r)) l.dest l.title st2 = tlp
      obtain ⟨tl, st3⟩ := tlp
      have hcases := linkTail_cases (plainLabel l.text) (safeAfterRef (joinG l.after r)) l.dest l.title st2
      rw [htl] at hcases
      simp only at hcases
      rcases hcases with ⟨htail, hd3⟩ | ⟨hlt, _⟩ | ⟨x, hx⟩
      · -- the inline style
        have hab : afterBoundary (afterBoundary true (C0.raw ESC)) ('[' :: T.raw ESC ++ [']'] ++ tl) = true := by
          rw [htail, inlineTail_eq]
          have : '[' :: T.raw ESC ++ [']'] ++ '(' :: (destSrc l.dest (dtitleOf (draw (draw st2).2).1 l.title) ++ [')']) =
              ('[' :: T.raw ESC ++ [']'] ++ '(' :: destSrc l.dest (dtitleOf (draw (draw st2).2).1 l.title)) ++ [')'] := by
            simp [List.append_assoc]
          rw [this, afterBoundary_paren]
        obtain ⟨sr, st4, extra, hpr, hdr, hrest⟩ :=
          ih l.after st3 hl.after (fun x hx => hls x (List.mem_cons_of_mem _ hx))
        refine ⟨C0.raw ESC ++ (('[' :: T.raw ESC ++ [']'] ++ tl) ++ sr), st4, extra,
          printInlines_joinG_lk A hAi l r true st _ _ hp _ _ hpT _ _ htl _ _ (by rw [hab]; exact hpr),
          by rw [hdr, hd3, hdT, hd], ?_⟩
        intro hex hlts
        have hltr : '<' ∉ sr := fun hm => hlts (by simp [hm])
        obtain ⟨Cr, isr, hsr, hWr, hLr⟩ := hrest hex hltr
        refine ⟨C0, .lk ⟨T, l.dest, dtitleOf (draw (draw st2).2).1 l.title, Cr⟩ :: isr, ?_, hW,
          ⟨⟨hWT, hWr, hl.starts, rfl, ⟨_, rfl⟩, hl.dest _, hl.plainD, hl.plainT⟩, hLr⟩⟩
        intro m n0
        rw [htail, inlineTail_eq, hsr (m + T.escs ESC + Cr.escs ESC) (n0 + T.cnt 0 + Cr.cnt 0), gStage0_lk]
        simp [List.append_assoc]
      · -- angle brackets
        obtain ⟨e1, he1⟩ := linkTail_defs (plainLabel l.text) (safeAfterRef (joinG l.after r)) l.dest l.title st2
        rw [htl] at he1
        obtain ⟨e2, he2⟩ := printG_defs r l.after
          (afterBoundary (afterBoundary true (C0.raw ESC)) ('[' :: T.raw ESC ++ [']'] ++ tl)) st3 hCi
          (fun x hx => hls x (List.mem_cons_of_mem _ hx))
        refine ⟨_, _, e1 ++ e2,
          printInlines_joinG_lk A hAi l r true st _ _ hp _ _ hpT _ _ htl _ _ rfl,
          by rw [he2, he1, hdT, hd, List.append_assoc], ?_⟩
        intro _ hlts
        exact absurd (by simp [hlt]) hlts
      · -- a reference style
        obtain ⟨e2, he2⟩ := printG_defs r l.after
          (afterBoundary (afterBoundary true (C0.raw ESC)) ('[' :: T.raw ESC ++ [']'] ++ tl)) st3 hCi
          (fun x hx => hls x (List.mem_cons_of_mem _ hx))
        refine ⟨_, _, [x] ++ e2,
          printInlines_joinG_lk A hAi l r true st _ _ hp _ _ hpT _ _ htl _ _ rfl,
          by rw [he2, hx, hdT, hd, List.append_assoc], ?_⟩
        intro hex _
        simp at hex
    | im l =>
      have hl : ImgOK l := hg
      have hCi : mixItemsOK l.after = true := by
        have := hl.after; simp only [mixOK, Bool.and_eq_true] at this; exact this.1.1
      generalize htl : linkTail (some l.alt) (safeAfterRef (joinG l.after r)) l.dest l.title st1 = tlp
      obtain ⟨tl, st3⟩ := tlp
      have hcases := linkTail_cases (some l.alt) (safeAfterRef (joinG l.after r)) l.dest l.title st1
      rw [htl] at hcases
      simp only at hcases
      rcases hcases with ⟨htail, hd3⟩ | ⟨hlt, _⟩ | ⟨x, hx⟩
      · -- the inline style
        have hab : afterBoundary (afterBoundary true (C0.raw ESC)) ('!' :: '[' :: l.alt ++ [']'] ++ tl) = true := by
          rw [htail, inlineTail_eq]
          have : '!' :: '[' :: l.alt ++ [']'] ++ '(' :: (destSrc l.dest (dtitleOf (draw (draw st1).2).1 l.title) ++ [')']) =
              ('!' :: '[' :: l.alt ++ [']'] ++ '(' :: destSrc l.dest (dtitleOf (draw (draw st1).2).1 l.title)) ++ [')'] := by
            simp [List.append_assoc]
          rw [this, afterBoundary_paren]
        obtain ⟨sr, st4, extra, hpr, hdr, hrest⟩ :=
          ih l.after st3 hl.after (fun x hx => hls x (List.mem_cons_of_mem _ hx))
        refine ⟨C0.raw ESC ++ (('!' :: '[' :: l.alt ++ [']'] ++ tl) ++ sr), st4, extra,
          printInlines_joinG_im A hAi l r true st _ _ hp _ _ htl _ _ (by rw [hab]; exact hpr),
          by rw [hdr, hd3, hd], ?_⟩
        intro hex hlts
        have hltr : '<' ∉ sr := fun hm => hlts (by simp [hm])
        obtain ⟨Cr, isr, hsr, hWr, hLr⟩ := hrest hex hltr
        refine ⟨C0, .im ⟨l.alt, l.dest, dtitleOf (draw (draw st1).2).1 l.title, Cr⟩ :: isr, ?_, hW,
          ⟨⟨rfl, hl.alt, hWr, rfl, ⟨_, rfl⟩, hl.dest _, hl.plainD, hl.plainT⟩, hLr⟩⟩
        intro m n0
        rw [htail, inlineTail_eq, hsr (m + Cr.escs ESC) (n0 + Cr.cnt 0), gStage0_im]
        simp [List.append_assoc]
      · -- angle brackets
        obtain ⟨e1, he1⟩ := linkTail_defs (some l.alt) (safeAfterRef (joinG l.after r)) l.dest l.title st1
        rw [htl] at he1
        obtain ⟨e2, he2⟩ := printG_defs r l.after
          (afterBoundary (afterBoundary true (C0.raw ESC)) ('!' :: '[' :: l.alt ++ [']'] ++ tl)) st3 hCi
          (fun x hx => hls x (List.mem_cons_of_mem _ hx))
        refine ⟨_, _, e1 ++ e2,
          printInlines_joinG_im A hAi l r true st _ _ hp _ _ htl _ _ rfl,
          by rw [he2, he1, hd, List.append_assoc], ?_⟩
        intro _ hlts
        exact absurd (by simp [hlt]) hlts
      · -- a reference style
        obtain ⟨e2, he2⟩ := printG_defs r l.after
          (afterBoundary (afterBoundary true (C0.raw ESC)) ('!' :: '[' :: l.alt ++ [']'] ++ tl)) st3 hCi
          (fun x hx => hls x (List.mem_cons_of_mem _ hx))
        refine ⟨_, _, [x] ++ e2,
          printInlines_joinG_im A hAi l r true st _ _ hp _ _ htl _ _ rfl,
          by rw [he2, hx, hd, List.append_assoc], ?_⟩
        intro hex _
        simp at hex

/-! ### 4. the printed line: characters, references, start -/

theorem gW_cases {l : GIt} {u : GUse} (h : GW l u) :
    (∃ l' u', l = .lk l' ∧ u = .lk u' ∧ LinkW l' u') ∨ (∃ l' u', l = .im l' ∧ u = .im u' ∧ ImgW l' u') := by
  cases l with
  | lk l' =>
    cases u with
    | lk u' => exact Or.inl ⟨l', u', rfl, rfl, h⟩
    | im u' => exact False.elim h
  | im l' =>
    cases u with
    | lk u' => exact False.elim h
    | im u' => exact Or.inr ⟨l', u', rfl, rfl, h⟩

theorem gW_C {l : GIt} {u : GUse} (h : GW l u) : ChunkW l.after u.C := by
  rcases gW_cases h with ⟨l', u', rfl, rfl, hu⟩ | ⟨l', u', rfl, rfl, hu⟩
  · exact hu.C
  · exact hu.C

theorem gUseOK_of {l : GIt} {u : GUse} (h : GW l u) : GUseOK ESC u := by
  rcases gW_cases h with ⟨l', u', rfl, rfl, hu⟩ | ⟨l', u', rfl, rfl, hu⟩
  · exact ⟨fun v e => (by cases e; exact (iuseOK_of hu).1), fun v e => (by cases e)⟩
  · exact ⟨fun v e => (by cases e), fun v e => (by cases e; exact museOK_of hu)⟩

theorem gVis_of {ls : List GIt} {gs : List GUse} (h : GsW ls gs) : ∀ u, GUse.lk u ∈ gs → u.T.Vis := by
  intro u hu
  obtain ⟨l, _, hw⟩ := gsW_mem ls gs h _ hu
  rcases gW_cases hw with ⟨l', u', rfl, e, hu'⟩ | ⟨l', u', rfl, e, hu'⟩
  · cases e; exact (iuseOK_of hu').2
  · cases e

/-- the characters of the uses, and their numeric references -/
theorem g_chars : ∀ (ls : List GIt) (gs : List GUse), GsW ls gs → ∀ (m n0 : Nat),
    ('<' ∉ gStage ESC 0 false m n0 gs → ∀ ch ∈ gStage ESC 0 false m n0 gs, DocParse2.okCh ch) ∧
      refsClosed (gStage ESC 0 false m n0 gs) = true := by
  intro ls
  induction ls with
  | nil =>
    intro gs h m n0
    cases gs with
    | nil => exact ⟨fun _ ch hch => by simp [gStage] at hch, rfl⟩
    | cons _ _ => exact absurd h (by simp [GsW])
  | cons l r ih =>
    intro gs h m n0
    cases gs with
    | nil => exact absurd h (by simp [GsW])
    | cons u us =>
      rw [gsW_cons] at h
      obtain ⟨hg, hr⟩ := h
      rcases gW_cases hg with ⟨l', u', rfl, rfl, hu⟩ | ⟨l', u', rfl, rfl, hu⟩
      · obtain ⟨i1, i2⟩ := ih us hr (m + u'.T.escs ESC + u'.C.escs ESC) (n0 + u'.T.cnt 0 + u'.C.cnt 0)
        rw [gStage0_lk]
        constructor
        · intro hlt ch hch
          simp only [List.mem_append, List.mem_cons, List.not_mem_nil, or_false] at hch hlt
          rcases hch with rfl | hch | (rfl | rfl) | hch | rfl | hch | hch
          · exact okCh_lit _ (Or.inl rfl)
          · exact hu.T.chars ch hch
          · exact okCh_lit _ (Or.inr (Or.inl rfl))
          · exact okCh_lit _ (Or.inr (Or.inr (Or.inl rfl)))
          · exact destSrc_chars hu.dest ch hch (fun e => hlt (by subst e; simp [hch]))
          · exact okCh_lit _ (Or.inr (Or.inr (Or.inr rfl)))
          · exact hu.C.chars ch hch
          · exact i1 (fun hm => hlt (by simp [hm])) ch hch
        · apply refsClosed_noamp_append _ _ (by decide)
          apply hu.T.refs
          apply refsClosed_noamp_append _ _ (by decide)
          apply refsClosed_noamp_append _ _ hu.amp
          apply refsClosed_noamp_append _ _ (by decide)
          exact hu.C.refs _ i2
      · obtain ⟨i1, i2⟩ := ih us hr (m + u'.C.escs ESC) (n0 + u'.C.cnt 0)
        rw [gStage0_im]
        constructor
        · intro hlt ch hch
          simp only [List.mem_append, List.mem_cons, List.not_mem_nil, or_false] at hch hlt
          rcases hch with (rfl | rfl) | hch | (rfl | rfl) | hch | rfl | hch | hch
          · exact okCh_bang
          · exact okCh_lit _ (Or.inl rfl)
          · exact okCh_alnumSp (hu.altCh ch (by rw [← hu.alt]; exact hch))
          · exact okCh_lit _ (Or.inr (Or.inl rfl))
          · exact okCh_lit _ (Or.inr (Or.inr (Or.inl rfl)))
          · exact destSrc_chars hu.dest ch hch (fun e => hlt (by subst e; simp [hch]))
          · exact okCh_lit _ (Or.inr (Or.inr (Or.inr rfl)))
          · exact hu.C.chars ch hch
          · exact i1 (fun hm => hlt (by simp [hm])) ch hch
        · apply refsClosed_noamp_append _ _ (by decide)
          apply refsClosed_noamp_append _ _ hu.altAmp
          apply refsClosed_noamp_append _ _ (by decide)
          apply refsClosed_noamp_append _ _ hu.amp
          apply refsClosed_noamp_append _ _ (by decide)
          exact hu.C.refs _ i2

theorem startsOk_cons_append (a : DocSpec.Inline) (A B : List DocSpec.Inline) :
    startsOk (a :: (A ++ B)) = startsOk (a :: A) := by
  cases a <;> rfl

theorem gStage0_head (m n0 : Nat) (u : GUse) (us : List GUse) :
    ∀ ch, (gStage ESC 0 false m n0 (u :: us)).head? = some ch → isDecimal ch = false ∧ ch ≠ '.' := by
  intro ch hch
  cases u with
  | lk u' =>
    rw [gStage0_lk] at hch
    simp at hch
    subst hch; exact ⟨by decide, by decide⟩
  | im u' =>
    rw [gStage0_im] at hch
    simp at hch
    subst hch; exact ⟨by decide, by decide⟩

/-- everything the block stage and the preprocessors need of the printed line -/
theorem g_line_facts (A : List DocSpec.Inline) (ls : List GIt) (C0 : Chunk) (gs : List GUse) (hW : ChunkW A C0)
    (hL : GsW ls gs) (hne : ls ≠ []) (hst : startsOk (joinG A ls) = true)
    (hfirst : firstLinkOK (joinG A ls) = true) (hlt : '<' ∉ gRaw ESC C0 gs) :
    (∀ ch ∈ gRaw ESC C0 gs, DocParse2.okCh ch) ∧ refsClosed (gRaw ESC C0 gs) = true ∧
      LinkLineStart (gRaw ESC C0 gs) ∧ olMarker (gRaw ESC C0 gs) = none := by
  obtain ⟨u1, u2⟩ := g_chars ls gs hL 0 0
  have hltu : '<' ∉ gStage ESC 0 false 0 0 gs := fun hm => hlt (by simp [gRaw, hm])
  obtain ⟨l, r, rfl⟩ : ∃ l r, ls = l :: r := by
    cases ls with
    | nil => exact absurd rfl hne
    | cons l r => exact ⟨l, r, rfl⟩
  obtain ⟨u, us, rfl⟩ : ∃ u us, gs = u :: us := by
    cases gs with
    | nil => exact absurd hL (by simp [GsW])
    | cons u us => exact ⟨u, us, rfl⟩
  rw [gsW_cons] at hL
  have hhead := gStage0_head 0 0 u us
  refine ⟨?_, ?_, ?_, ?_⟩
  · intro ch hch
    rcases List.mem_append.1 hch with hch | hch
    · exact hW.chars ch hch
    · exact u1 hltu ch hch
  · exact hW.refs _ u2
  · cases A with
    | nil =>
      have hr := chunkW_nil hW
      rcases gW_cases hL.1 with ⟨l', u', rfl, rfl, hu⟩ | ⟨l', u', rfl, rfl, hu⟩
      · right
        have hnb : l'.text.all noBracketItem = true := by simpa [joinG, GIt.toInline, firstLinkOK] using hfirst
        refine ⟨u'.T.raw ESC, destSrc u'.url u'.dtitle ++ (')' :: (u'.C.raw ESC ++
          gStage ESC 0 false (0 + u'.T.escs ESC + u'.C.escs ESC) (0 + u'.T.cnt 0 + u'.C.cnt 0) us)), ?_,
          hu.T.nobr hnb⟩
        rw [gRaw, hr, gStage0_lk]
        simp
      · left
        refine ⟨'!', '[' :: (u'.alt ++ (']' :: '(' :: (destSrc u'.url u'.dtitle ++ (')' ::
          (u'.C.raw ESC ++ gStage ESC 0 false (0 + u'.C.escs ESC) (0 + u'.C.cnt 0) us))))), ?_,
          by decide, by decide, Or.inl (by decide)⟩
        rw [gRaw, hr, gStage0_im]
        simp
    | cons a A' =>
      left
      have hst' : startsOk (a :: A') = true := by
        rw [joinG, List.cons_append, startsOk_cons_append] at hst; exact hst
      exact hW.start hst' _
  · exact hW.ol _ hhead

/-! ### 5. the printed line inside a heading: `hashHeader` walks over it, and it does not end with a space -/

/-- `[text](dest "title")` / `![alt](dest "title")` -/
def gSrc : GUse → Str
  | .lk u => '[' :: (u.T.raw ESC ++ closerI u)
  | .im u => openerM u

theorem gStage0_cons' (m n0 : Nat) (g : GUse) (us : List GUse) :
    gStage ESC 0 false m n0 (g :: us) =
      gSrc g ++ (g.C.raw ESC ++
        gStage ESC 0 false (m + g.tEscs ESC + g.C.escs ESC) (n0 + g.tCnt 0 + g.C.cnt 0) us) := by
  cases g <;> simp [gStage, GUse.head, gSrc, Chunk.stage_raw]

theorem gSrc_last (g : GUse) : (gSrc g).getLast? = some ')' := by
  cases g with
  | lk u =>
    have : gSrc (.lk u) = ('[' :: (u.T.raw ESC ++ ']' :: '(' :: destSrc u.url u.dtitle)) ++ [')'] := by
      simp [gSrc, closerI, List.append_assoc]
    rw [this, List.getLast?_append]; rfl
  | im u => exact imgSrc_last u

theorem walk_gSrc {l : GIt} {u : GUse} (h : GW l u) : DocParse2.Walk (gSrc u) := by
  rcases gW_cases h with ⟨l', u', rfl, rfl, hu⟩ | ⟨l', u', rfl, rfl, hu⟩
  · have hd : '\n' ∉ ']' :: '(' :: destSrc u'.url u'.dtitle := by
      intro hm
      simp only [List.mem_cons] at hm
      rcases hm with hm | hm | hm
      · exact absurd hm (by decide)
      · exact absurd hm (by decide)
      · exact (destSrc_chars hu.dest _ hm (by decide)).1 rfl
    have hb : DocParse2.Walk ['['] := by
      apply hashHeader_walk _ _ (Nat.le_refl _) (by simp) (by decide)
      intro z hz
      simp at hz
      subst hz; exact ⟨by decide, by decide⟩
    have e : gSrc (.lk u') = ['['] ++ (u'.T.raw ESC ++ ((']' :: '(' :: destSrc u'.url u'.dtitle) ++ [')'])) := by
      simp [gSrc, closerI]
    rw [e]
    exact walk_append hb (walk_append (DocImg.chunkW_walk hu.T) (DocLinkH.walk_paren _ hd))
  · exact walk_imgSrc hu

theorem walk_gStage : ∀ (ls : List GIt) (gs : List GUse), GsW ls gs → ∀ (m n0 : Nat),
    DocParse2.Walk (gStage ESC 0 false m n0 gs) := by
  intro ls
  induction ls with
  | nil =>
    intro gs h m n0
    cases gs with
    | nil => exact walk_nil
    | cons _ _ => exact absurd h (by simp [GsW])
  | cons l r ih =>
    intro gs h m n0
    cases gs with
    | nil => exact absurd h (by simp [GsW])
    | cons u us =>
      rw [gsW_cons] at h
      rw [gStage0_cons']
      exact walk_append (walk_gSrc h.1) (walk_append (DocImg.chunkW_walk (gW_C h.1)) (ih us h.2 _ _))

/-- **`hashHeader` walks over the printed line** -/
theorem walk_gRaw (A : List DocSpec.Inline) (ls : List GIt) (C0 : Chunk) (gs : List GUse) (hW : ChunkW A C0)
    (hL : GsW ls gs) : DocParse2.Walk (gRaw ESC C0 gs) :=
  walk_append (DocImg.chunkW_walk hW) (walk_gStage ls gs hL 0 0)

theorem g_last : ∀ (ls : List GIt) (gs : List GUse), GsW ls gs → ∀ (A : List DocSpec.Inline) (C0 : Chunk)
    (m n0 : Nat), ChunkW A C0 → (joinG A ls ≠ [] → endsOk (joinG A ls) = true) →
    ∀ d, (C0.raw ESC ++ gStage ESC 0 false m n0 gs).getLast? = some d → isSpace d = false := by
  intro ls
  induction ls with
  | nil =>
    intro gs h A C0 m n0 hW hen d hd
    cases gs with
    | cons _ _ => exact absurd h (by simp [GsW])
    | nil =>
      simp only [gStage, List.append_nil] at hd
      cases A with
      | nil => rw [chunkW_nil hW] at hd; cases hd
      | cons a A' => exact DocImg.chunkW_last hW (hen (by simp [joinG])) d hd
  | cons l r ih =>
    intro gs h A C0 m n0 hW hen d hd
    cases gs with
    | nil => exact absurd h (by simp [GsW])
    | cons u us =>
      rw [gsW_cons] at h
      have hen' : endsOk (A ++ l.toInline :: joinG l.after r) = true :=
        hen (by simp [joinG])
      have ihr := ih us h.2 l.after u.C (m + u.tEscs ESC + u.C.escs ESC) (n0 + u.tCnt 0 + u.C.cnt 0) (gW_C h.1)
        (fun hne => endsOk_suffix A _ _ hne hen')
      rw [gStage0_cons'] at hd
      generalize u.C.raw ESC ++
        gStage ESC 0 false (m + u.tEscs ESC + u.C.escs ESC) (n0 + u.tCnt 0 + u.C.cnt 0) us = R at ihr hd
      have e : C0.raw ESC ++ (gSrc u ++ R) = (C0.raw ESC ++ gSrc u) ++ R := by rw [List.append_assoc]
      rw [e, List.getLast?_append] at hd
      cases hR : R.getLast? with
      | some z =>
        rw [hR] at hd
        have : z = d := by simpa using hd
        subst this; exact ihr z hR
      | none =>
        rw [hR, List.getLast?_append, gSrc_last] at hd
        have : ')' = d := by simpa using hd
        subst this; decide

/-- **the printed line does not end with a space** -/
theorem gRaw_last (A : List DocSpec.Inline) (ls : List GIt) (C0 : Chunk) (gs : List GUse) (hW : ChunkW A C0)
    (hL : GsW ls gs) (hen : endsOk (joinG A ls) = true) :
    ∀ d, (gRaw ESC C0 gs).getLast? = some d → isSpace d = false :=
  g_last ls gs hL A C0 0 0 hW (fun _ => hen)

/-- everything a heading needs of the printed line -/
theorem g_rawH (A : List DocSpec.Inline) (ls : List GIt) (C0 : Chunk) (gs : List GUse) (hW : ChunkW A C0)
    (hL : GsW ls gs) (hne : ls ≠ []) (hst : startsOk (joinG A ls) = true)
    (hen : endsOk (joinG A ls) = true) (hlt : '<' ∉ gRaw ESC C0 gs) : DocLinkH.RawH (gRaw ESC C0 gs) := by
  obtain ⟨u1, _⟩ := g_chars ls gs hL 0 0
  have hltu : '<' ∉ gStage ESC 0 false 0 0 gs := fun hm => hlt (by simp [gRaw, hm])
  have hch : ∀ ch ∈ gRaw ESC C0 gs, DocParse2.okCh ch := by
    intro ch hch
    rcases List.mem_append.1 hch with hch | hch
    · exact hW.chars ch hch
    · exact u1 hltu ch hch
  obtain ⟨l, r, rfl⟩ : ∃ l r, ls = l :: r := by
    cases ls with
    | nil => exact absurd rfl hne
    | cons l r => exact ⟨l, r, rfl⟩
  obtain ⟨u, us, rfl⟩ : ∃ u us, gs = u :: us := by
    cases gs with
    | nil => exact absurd hL (by simp [GsW])
    | cons u us => exact ⟨u, us, rfl⟩
  refine ⟨?_, fun hm => (hch _ hm).1 rfl, gRaw_last A _ C0 _ hW hL hen, walk_gRaw A _ C0 _ hW hL⟩
  cases A with
  | nil =>
    have hr := chunkW_nil hW
    cases u with
    | lk u' => exact ⟨'[', _, by rw [gRaw, hr, gStage0_lk]; rfl, by decide, by decide⟩
    | im u' => exact ⟨'!', _, by rw [gRaw, hr, gStage0_im]; rfl, by decide, by decide⟩
  | cons a A' =>
    have hst' : startsOk (a :: A') = true := by
      rw [joinG, List.cons_append, startsOk_cons_append] at hst; exact hst
    obtain ⟨c, tail, he, hcs, _, hce⟩ := hW.start hst' (gStage ESC 0 false 0 0 (u :: us))
    refine ⟨c, tail, he, hcs, ?_⟩
    rcases hce with hce | ⟨d, m, x, tl, hx, hd, hm1, _, _⟩
    · exact fun e => hce (by rw [e]; decide)
    · obtain ⟨m', rfl⟩ : ∃ m', m = m' + 1 := ⟨m - 1, by omega⟩
      rw [he] at hx
      simp only [List.replicate_succ, List.cons_append, List.cons.injEq] at hx
      rw [hx.1]; rcases hd with e | e <;> rw [e] <;> decide

/-! ### 6. the specification side -/

theorem gOut_spec : ∀ (ls : List GIt) (gs : List GUse), GsW ls gs → ∀ (A : List DocSpec.Inline) (C0 : Chunk),
    ChunkW A C0 → C0.out ++ gOutS gs = specInlines (joinG A ls) := by
  intro ls
  induction ls with
  | nil =>
    intro gs h A C0 hW
    cases gs with
    | nil => simp [gOutS_nil, joinG, hW.out]
    | cons _ _ => exact absurd h (by simp [GsW])
  | cons l r ih =>
    intro gs h A C0 hW
    cases gs with
    | nil => exact absurd h (by simp [GsW])
    | cons u us =>
      rw [gsW_cons] at h
      have ihr := ih us h.2 l.after u.C (gW_C h.1)
      rcases gW_cases h.1 with ⟨l', u', rfl, rfl, hu⟩ | ⟨l', u', rfl, rfl, hu⟩
      · have hl := link_spec hu
        have ihr' : u'.C.out ++ gOutS us = specInlines (joinG l'.after r) := ihr
        rw [joinG_lk, specInlines_append, specInlines_cons, ← ihr', ← hl, hW.out, gOutS_cons]
        simp [gOutU, List.append_assoc]
      · have hl := img_spec hu
        have ihr' : u'.C.out ++ gOutS us = specInlines (joinG l'.after r) := ihr
        rw [joinG_im, specInlines_append, specInlines_cons, ← ihr', ← hl, hW.out, gOutS_cons]
        simp [gOutU, List.append_assoc]

/-! ### 7. from the grammar and well-formedness to the conditions on the parts -/

/-- the conditions on an item -/
def ItemOKG : DocSpec.Inline → Prop
  | .link t d ti => mixOK t = true ∧ startsOk t = true ∧ (∀ q, DestOK d (dtitleOf q ti)) ∧ (∀ c ∈ d, AttrPlain c) ∧
      ∀ t', ti = some t' → ∀ c ∈ t', AttrPlain c
  | .image al d ti => (∀ c ∈ al, isAlnumSp c = true) ∧ (∀ q, DestOK d (dtitleOf q ti)) ∧ (∀ c ∈ d, AttrPlain c) ∧
      ∀ t', ti = some t' → ∀ c ∈ t', AttrPlain c
  | x => mixItemsOK [x] = true

theorem itemOKG_of_wf (x : DocSpec.Inline) (brOk : Bool) (hp : isLinkImgItem x = true)
    (hw : wfInline false .none brOk x = true) : ItemOKG x := by
  cases x with
  | link t d ti =>
    simp only [isLinkImgItem, Bool.and_eq_true] at hp
    simp only [wfInline, wfRun, Bool.and_eq_true] at hw
    obtain ⟨⟨⟨⟨_, hd⟩, hti⟩, ⟨⟨⟨hst, _⟩, hadj⟩, _⟩⟩, hlist⟩ := hw
    have hitems := mixItemsOK_of_wfL t true brOk hp.1.1 hlist
    obtain ⟨d1, d2, d3⟩ := dest_of_wf d ti hd hti hp.2
    exact ⟨by simp [mixOK, hitems, hadj, hp.1.2], hst, d1, d2, d3⟩
  | image al d ti =>
    simp only [isLinkImgItem] at hp
    simp only [wfInline, Bool.and_eq_true] at hw
    obtain ⟨⟨hal, hd⟩, hti⟩ := hw
    obtain ⟨d1, d2, d3⟩ := dest_of_wf d ti hd hti hp
    simp only [wfLabel, wfWords, Bool.and_eq_true, List.all_eq_true] at hal
    exact ⟨hal.1.1.1.2, d1, d2, d3⟩
  | text w => exact mixItemsOK_of_wfL [.text w] false brOk (by simp [isMixItem]) (by simp [wfInlineList, hw])
  | esc c => exact mixItemsOK_of_wfL [.esc c] false brOk (by simp [isMixItem]) (by simp [wfInlineList, hw])
  | code b =>
    exact mixItemsOK_of_wfL [.code b] false brOk (by simpa [isLinkImgItem] using hp) (by simp [wfInlineList, hw])
  | em l =>
    exact mixItemsOK_of_wfL [.em l] false brOk (by simpa [isLinkImgItem] using hp) (by simp [wfInlineList, hw])
  | strong l =>
    exact mixItemsOK_of_wfL [.strong l] false brOk (by simpa [isLinkImgItem] using hp) (by simp [wfInlineList, hw])
  | autolink _ => simp [isLinkImgItem, isMixItem] at hp
  | br => simp [isLinkImgItem, isMixItem] at hp

/-- the parts of content whose items are fine -/
theorem split_factsG (c : List DocSpec.Inline) :
    (∀ x ∈ c, ItemOKG x) → okAdjacents c = true → noBsBeforeCode c = true →
      mixOK (gSplit c).1 = true ∧ ∀ l ∈ (gSplit c).2, GItOK l := by
  induction c with
  | nil => intro _ _ _; exact ⟨rfl, fun l hl => by cases hl⟩
  | cons x r ih =>
    intro hit hadj hnb
    obtain ⟨i1, i2⟩ := ih (fun y hy => hit y (List.mem_cons_of_mem _ hy)) (okAdjacents_tail hadj) (noBs_tail hnb)
    have hx := hit x List.mem_cons_self
    by_cases hl : isUseI x = true
    · rcases isUseI_cases x hl with ⟨t, d, ti, rfl⟩ | ⟨al, d, ti, rfl⟩
      · rw [gSplit_link]
        obtain ⟨h1, h2, h3, h4, h5⟩ := hx
        refine ⟨rfl, fun l hl' => ?_⟩
        rcases List.mem_cons.1 hl' with rfl | hl'
        · show LinkOK ⟨t, d, ti, (gSplit r).1⟩
          exact ⟨h1, h2, i1, h3, h4, h5⟩
        · exact i2 l hl'
      · rw [gSplit_image]
        obtain ⟨h1, h3, h4, h5⟩ := hx
        refine ⟨rfl, fun l hl' => ?_⟩
        rcases List.mem_cons.1 hl' with rfl | hl'
        · show ImgOK ⟨al, d, ti, (gSplit r).1⟩
          exact ⟨h1, i1, h3, h4, h5⟩
        · exact i2 l hl'
    · have hl' : isUseI x = false := by simpa using hl
      rw [gSplit_other x r hl']
      refine ⟨?_, i2⟩
      obtain ⟨T, hT⟩ := gSplit_prefix r
      have hxi : mixItemsOK [x] = true := by
        cases x <;> first | exact hx | simp [isUseI] at hl'
      have e : x :: r = (x :: (gSplit r).1) ++ T := by rw [List.cons_append, ← hT]
      have ha := okAdjacents_prefix _ _ (e ▸ hadj)
      have hn := noBs_prefix _ _ (e ▸ hnb)
      simp only [mixOK, Bool.and_eq_true] at i1 ⊢
      exact ⟨⟨by rw [mixItemsOK_cons, hxi, i1.1.1]; rfl, ha⟩, hn⟩

theorem brItem_of_gItem (x : DocSpec.Inline) (h : isLinkImgItem x = true) (hl : isUseI x = false) :
    isBrItem x = true := by
  cases x with
  | link _ _ _ => simp [isUseI] at hl
  | image _ _ _ => simp [isUseI] at hl
  | em l =>
    rcases l with _ | ⟨y, _ | ⟨z, l'⟩⟩
    · simp [isLinkImgItem, isMixItem] at h
    · cases y <;> simp_all [isLinkImgItem, isMixItem, isBrItem, isDeep2Item, isDeepItem, noBsBeforeCode]
    · cases y <;> simp [isLinkImgItem, isMixItem] at h
  | strong l =>
    rcases l with _ | ⟨y, _ | ⟨z, l'⟩⟩
    · simp [isLinkImgItem, isMixItem] at h
    · cases y <;> simp_all [isLinkImgItem, isMixItem, isBrItem, isDeep2Item, isDeepItem, noBsBeforeCode]
    · cases y <;> simp [isLinkImgItem, isMixItem] at h
  | _ => simp_all [isLinkImgItem, isMixItem, isBrItem, isDeep2Item]

end MdVerif.DocMix
