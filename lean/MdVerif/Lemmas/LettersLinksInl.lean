/-
Helper lemmas for `Props/C06Links.lean` (inline links), part 5: the statement in the vocabulary of `Spec/Doc.lean` —
a printed line `c₀ [t₁](d₁) c₁ … [tₘ](dₘ) cₘ` with contents and link texts of the `mixRun` kind and simple
destinations, its rendering and its visible part.  Core Lean only.
-/
import MdVerif.Lemmas.RefTextInlDoc

namespace MdVerif.RefText
open Py Inline Escape CodeLaw DocParse DocParse2 Flat DocSpec

/-- decidable form of `DestOK` -/
def destOKb (url : Str) (title : Option (Char × Str)) : Bool :=
  url.all urlCh && !url.isEmpty && url.head? != some '<' &&
    match title with
    | none => true
    | some (q, t) => (q == '"' || q == '\'') && t.all titleCh && !t.isEmpty && t.head? != some ' ' &&
        t.getLast? != some ' '

theorem destOK_of_b {url : Str} {title : Option (Char × Str)} (h : destOKb url title = true) : DestOK url title := by
  simp only [destOKb, Bool.and_eq_true, List.all_eq_true, Bool.not_eq_true', List.isEmpty_eq_false_iff, bne_iff_ne,
    ne_eq] at h
  obtain ⟨⟨⟨h1, h2⟩, h3⟩, h4⟩ := h
  refine ⟨h1, h2, h3, ?_⟩
  cases title with
  | none => trivial
  | some qt =>
    obtain ⟨q, t⟩ := qt
    simp only [Bool.and_eq_true, Bool.or_eq_true, beq_iff_eq, List.all_eq_true, Bool.not_eq_true',
      List.isEmpty_eq_false_iff, bne_iff_ne, ne_eq] at h4
    exact ⟨h4.1.1.1.1, h4.1.1.1.2, h4.1.1.2, h4.1.2, h4.2⟩

/-- an inline link in a line: the link text, the destination, the title with its quote character (or none), and the
    content that follows the link -/
structure MLink where
  text : List DocSpec.Inline
  url : Str
  dtitle : Option (Char × Str)
  after : List DocSpec.Inline

def MLink.ok (u : MLink) : Bool := mixOK u.text && startsOk u.text && mixOK u.after && destOKb u.url u.dtitle

/-- the links printed under a spelling: `[text](dest)content…` -/
def printLinks : List MLink → PSt → Str × PSt
  | [], st => ([], st)
  | u :: r, st =>
    let pT := printInlines none true true u.text st
    let pC := printInlines none true true u.after pT.2
    let pR := printLinks r pC.2
    ('[' :: (pT.1 ++ (']' :: '(' :: (destSrc u.url u.dtitle ++ (')' :: (pC.1 ++ pR.1))))), pR.2)

def printLineI (c0 : List DocSpec.Inline) (ls : List MLink) (st : PSt) : Str :=
  (printInlines none true true c0 st).1 ++ (printLinks ls (printInlines none true true c0 st).2).1

/-- the links without brackets and destinations: link text, then the content after the link -/
def visLinks : List MLink → PSt → Str × PSt
  | [], st => ([], st)
  | u :: r, st =>
    let pT := printInlines none true true u.text st
    let pC := printInlines none true true u.after pT.2
    let pR := visLinks r pC.2
    (pT.1 ++ (pC.1 ++ pR.1), pR.2)

/-- **the visible text of a line with inline links**: the contents and the link texts as printed; `(destination
    "title")` is left out -/
def visibleLineI (c0 : List DocSpec.Inline) (ls : List MLink) (st : PSt) : Str :=
  (printInlines none true true c0 st).1 ++ (visLinks ls (printInlines none true true c0 st).2).1

/-- the rendering of the links -/
def specLinks : List MLink → Str
  | [] => []
  | u :: r => aOpen u.url (titleOf u.dtitle) ++ (specInlines u.text ++ (aClose ++ specInlines u.after)) ++ specLinks r

theorem specLinks_cons (u : MLink) (r : List MLink) :
    specLinks (u :: r) =
      aOpen u.url (titleOf u.dtitle) ++ (specInlines u.text ++ (aClose ++ specInlines u.after)) ++ specLinks r := rfl

theorem links_bridge : ∀ (ls : List MLink) (st : PSt), (∀ u ∈ ls, u.ok = true) →
    ∃ is : List IUse, (∀ m n0, usStageI ESC 0 false m n0 is = (printLinks ls st).1) ∧
      (∀ i ∈ is, IUseOK ESC i ∧ i.T.Vis) ∧ usOut (is.map IUse.toR) = specLinks ls ∧
      visRest ESC (is.map IUse.toR) = (visLinks ls st).1 ∧ is.length = ls.length
  | [], st, _ => ⟨[], fun _ _ => rfl, fun r hr => (by cases hr), (by simp [usOut_nil, specLinks]), rfl, rfl⟩
  | u :: r, st, hok => by
    have hu := hok u List.mem_cons_self
    simp only [MLink.ok, Bool.and_eq_true] at hu
    obtain ⟨⟨⟨hT, hTs⟩, hC⟩, hd⟩ := hu
    obtain ⟨segsT, st1, hpT, hokT, houtT, hmT⟩ := chunk_of_content u.text hT st
    obtain ⟨segsC, st2, hpC, hokC, houtC, _⟩ := chunk_of_content u.after hC st1
    obtain ⟨is, h1, h2, h3, h4, h5⟩ := links_bridge r st2 (fun x hx => hok x (List.mem_cons_of_mem _ hx))
    have hTitems : mixItemsOK u.text = true := by
      simp only [mixOK, Bool.and_eq_true] at hT; exact hT.1.1
    have hvis := vis_of_startsOk u.text hTitems hTs segsT hmT
    refine ⟨⟨⟨(splitMix u.text).1, segsT⟩, u.url, u.dtitle, ⟨(splitMix u.after).1, segsC⟩⟩ :: is, ?_, ?_, ?_, ?_,
      by simp [h5]⟩
    · intro m n0
      simp only [usStageI, printLinks, Chunk.stage_raw, hpT, hpC, h1]
    · intro x hx
      rcases List.mem_cons.1 hx with rfl | hx
      · exact ⟨⟨hokT, vis_ne hvis, hokC, destOK_of_b hd⟩, hvis⟩
      · exact h2 x hx
    · rw [List.map_cons, usOut_cons, specLinks_cons, h3]
      simp only [useOut, IUse.toR, houtT, houtC]
    · simp only [List.map_cons, IUse.toR, visRest, visLinks, hpT, hpC, h4]

/-- what the conversion theorem and the conservation theorem need of a printed line with inline links, from the
    conditions on the contents -/
theorem mixLineI_chunks (c0 : List DocSpec.Inline) (ls : List MLink) (st : PSt) (hne : ls ≠ []) (h0 : mixOK c0 = true)
    (hls : ∀ u ∈ ls, u.ok = true) :
    ∃ (C0 : Chunk) (is : List IUse), is ≠ [] ∧ printLineI c0 ls st = lineRawI ESC C0 is ∧ ChunkOK ESC C0 ∧
      (∀ i ∈ is, IUseOK ESC i ∧ i.T.Vis) ∧ C0.out ++ usOut (is.map IUse.toR) = specInlines c0 ++ specLinks ls ∧
      visibleSrc ESC C0 (is.map IUse.toR) = visibleLineI c0 ls st := by
  obtain ⟨segs0, st1, hp0, hok0, hout0, _⟩ := chunk_of_content c0 h0 st
  obtain ⟨is, h1, h2, h3, h4, h5⟩ := links_bridge ls st1 hls
  refine ⟨⟨(splitMix c0).1, segs0⟩, is, ?_, ?_, hok0, h2, by rw [hout0, h3], ?_⟩
  · intro e; rw [e] at h5
    cases ls with
    | nil => exact hne rfl
    | cons a b => simp at h5
  · simp only [printLineI, lineRawI, hp0, h1]
  · rw [visibleSrc_eq]
    simp only [visibleLineI, hp0, h4]

/-- **From the source to the output**, inline links, vocabulary of `Spec/Doc.lean` -/
theorem convert_mixLineI (cfg : Pipeline.Cfg) (hfmt : cfg.fmt = .xhtml)
    (hbl : cfg.blockLevel = TreeProc.defaultBlockLevel) (htab : 0 < cfg.tab) (hesc : cfg.esc = ESC)
    (before after : List InlineRef.DefSpec) (hb : ∀ d ∈ before, d.ok cfg.tab = true)
    (ha : ∀ d ∈ after, d.ok cfg.tab = true) (c0 : List DocSpec.Inline) (ls : List MLink) (st : PSt)
    (hne : ls ≠ []) (h0 : mixOK c0 = true) (hls : ∀ u ∈ ls, u.ok = true)
    (hstart : startPlain (printLineI c0 ls st) = true) (hchars : (printLineI c0 ls st).all lineCh = true)
    (hnoref : Block.refMatchAt (printLineI c0 ls st) 0 = none) :
    Pipeline.convert cfg (InlineRef.docOf before (printLineI c0 ls st) after) =
      .ok ("<p>".toList ++ (specInlines c0 ++ specLinks ls) ++ "</p>".toList) := by
  obtain ⟨C0, is, hine, hline, hok0, his, hout, _⟩ := mixLineI_chunks c0 ls st hne h0 hls
  rw [hline] at hstart hchars hnoref ⊢
  rw [← hout]
  rw [← hesc] at hstart hchars hnoref ⊢
  exact convert_lineI cfg hfmt hbl htab (hesc ▸ escOK_ESC) (hesc ▸ rbr_ESC) before after hb ha C0 is hine
    (hesc ▸ hok0) (fun u hu => hesc ▸ (his u hu).1) (fun u hu => (his u hu).2) hstart hchars hnoref

/-- **conservation for a printed line with inline links** -/
theorem letters_mixLineI {L : Char → Bool} (hL : LetterClass L) (cfg : Pipeline.Cfg) (hfmt : cfg.fmt = .xhtml)
    (hbl : cfg.blockLevel = TreeProc.defaultBlockLevel) (htab : 0 < cfg.tab) (hesc : cfg.esc = ESC)
    (before after : List InlineRef.DefSpec) (hb : ∀ d ∈ before, d.ok cfg.tab = true)
    (ha : ∀ d ∈ after, d.ok cfg.tab = true) (c0 : List DocSpec.Inline) (ls : List MLink) (st : PSt)
    (hne : ls ≠ []) (h0 : mixOK c0 = true) (hls : ∀ u ∈ ls, u.ok = true)
    (hstart : startPlain (printLineI c0 ls st) = true) (hchars : (printLineI c0 ls st).all lineCh = true)
    (hgt : '>' ∉ printLineI c0 ls st) (hnoref : Block.refMatchAt (printLineI c0 ls st) 0 = none) :
    ∃ out, Pipeline.convert cfg (InlineRef.docOf before (printLineI c0 ls st) after) = .ok out ∧
      (Ser.readForest cfg.fmt out).isSome = true ∧
      C06.visibleLetters L cfg.fmt out = letters L (visibleLineI c0 ls st) := by
  obtain ⟨C0, is, hine, hline, hok0, his, _, hvis⟩ := mixLineI_chunks c0 ls st hne h0 hls
  rw [hline] at hstart hchars hnoref hgt ⊢
  rw [← hvis]
  have hclean : ∀ ch ∈ lineRawI ESC C0 is, ch ≠ '&' ∧ ch ≠ '<' ∧ ch ≠ '>' := by
    intro ch hch
    have := List.all_eq_true.mp hchars ch hch
    simp only [lineCh, InlineRef.docCh, Bool.and_eq_true, bne_iff_ne, ne_eq] at this
    exact ⟨this.1.1.1.1.1.2, this.1.1.1.1.1.1, fun e => hgt (e ▸ hch)⟩
  -- code bodies are parts of the line
  have hc0 : C0.CodeClean := codeClean_of_raw ESC C0 (fun ch hch => hclean ch (by simp [lineRawI, hch]))
  have hmem : ∀ (is' : List IUse) (m n0 : Nat) (u : IUse), u ∈ is' →
      (∀ ch ∈ u.T.raw ESC, ch ∈ usStageI ESC 0 false m n0 is') ∧ (∀ ch ∈ u.C.raw ESC, ch ∈ usStageI ESC 0 false m n0 is') := by
    intro is'
    induction is' with
    | nil => intro _ _ u hu; cases hu
    | cons a r ih =>
      intro m n0 u hu
      rcases List.mem_cons.1 hu with rfl | hu
      · refine ⟨fun ch hch => ?_, fun ch hch => ?_⟩
        · simp only [usStageI, Chunk.stage_raw, List.mem_cons, List.mem_append]
          exact Or.inr (Or.inl hch)
        · simp only [usStageI, Chunk.stage_raw, List.mem_cons, List.mem_append]
          exact Or.inr (Or.inr (Or.inr (Or.inr (Or.inr (Or.inr (Or.inl hch))))))
      · obtain ⟨h1, h2⟩ := ih (m + a.T.escs ESC + a.C.escs ESC) (n0 + a.T.cnt 0 + a.C.cnt 0) u hu
        refine ⟨fun ch hch => ?_, fun ch hch => ?_⟩
        · simp only [usStageI, List.mem_cons, List.mem_append]
          exact Or.inr (Or.inr (Or.inr (Or.inr (Or.inr (Or.inr (Or.inr (h1 ch hch)))))))
        · simp only [usStageI, List.mem_cons, List.mem_append]
          exact Or.inr (Or.inr (Or.inr (Or.inr (Or.inr (Or.inr (Or.inr (h2 ch hch)))))))
  have hcu : ∀ u ∈ is, u.T.CodeClean ∧ u.C.CodeClean := by
    intro u hu
    obtain ⟨h1, h2⟩ := hmem is 0 0 u hu
    exact ⟨codeClean_of_raw ESC u.T (fun ch hch => hclean ch (by
        simp only [lineRawI, List.mem_append]; exact Or.inr (h1 ch hch))),
      codeClean_of_raw ESC u.C (fun ch hch => hclean ch (by
        simp only [lineRawI, List.mem_append]; exact Or.inr (h2 ch hch)))⟩
  rw [← hesc] at hstart hchars hnoref ⊢
  exact letters_line_convI hL cfg hfmt hbl htab (hesc ▸ escOK_ESC) (hesc ▸ rbr_ESC) before after hb ha C0 is hine
    (hesc ▸ hok0) (fun u hu => hesc ▸ (his u hu).1) (fun u hu => (his u hu).2) hc0 hcu hstart hchars hnoref

end MdVerif.RefText
