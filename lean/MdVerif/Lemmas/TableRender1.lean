/-
Helper lemmas for `Props/C16Render.lean`, part 1: `TableProcessor.test` / `run` on a printed table
(`Spec/TableDoc.lean`): the block is accepted, the alignments are those of the delimiter row, the header cells and
the body rows are the printed cells, every row cut or padded to the header's width.  Core Lean only.
-/
import MdVerif.Spec.TableDoc
import MdVerif.Lemmas.Tables
import MdVerif.Lemmas.PyBasic

namespace MdVerif.TableDoc
open Py Tables

/-! ### pieces are padded cells -/

/-- `p` is `c` with spaces around it -/
def Padded (p c : Str) : Prop := ∃ i j, p = spaces i ++ c ++ spaces j

inductive All₂ {α β : Type} (R : α → β → Prop) : List α → List β → Prop
  | nil : All₂ R [] []
  | cons {a b l l'} : R a b → All₂ R l l' → All₂ R (a :: l) (b :: l')

theorem All₂.length_eq {α β : Type} {R : α → β → Prop} {l : List α} {l' : List β} (h : All₂ R l l') :
    l.length = l'.length := by
  induction h with
  | nil => rfl
  | cons _ _ ih => simp [ih]

theorem All₂.map_eq {α β : Type} {R : α → β → Prop} {f : α → β} (hf : ∀ a b, R a b → f a = b) {l : List α}
    {l' : List β} (h : All₂ R l l') : l.map f = l' := by
  induction h with
  | nil => rfl
  | cons h0 _ ih => simp [hf _ _ h0, ih]

theorem All₂.forall_left {α β : Type} {R : α → β → Prop} {P : α → Prop} {Q : β → Prop}
    (hPQ : ∀ a b, R a b → Q b → P a) {l : List α} {l' : List β} (h : All₂ R l l') (hq : ∀ b ∈ l', Q b) :
    ∀ a ∈ l, P a := by
  induction h with
  | nil => intro a ha; simp at ha
  | cons h0 _ ih =>
    intro a ha
    simp only [List.mem_cons] at ha
    rcases ha with rfl | ha
    · exact hPQ _ _ h0 (hq _ (by simp))
    · exact ih (fun b hb => hq b (by simp [hb])) a ha

theorem All₂.get {α β : Type} {R : α → β → Prop} {l : List α} {l' : List β} (h : All₂ R l l') (i : Nat) :
    (∃ a b, l[i]? = some a ∧ l'[i]? = some b ∧ R a b) ∨ (l[i]? = none ∧ l'[i]? = none) := by
  induction h generalizing i with
  | nil => right; simp
  | cons h0 _ ih =>
    cases i with
    | zero => left; exact ⟨_, _, by simp, by simp, h0⟩
    | succ i => simpa using ih i

theorem padded_pad (c : Str) : Padded (pad c) c := ⟨1, 1, by simp [pad, spaces]⟩

theorem padded_piecesRest : ∀ cells : List Str, All₂ Padded (piecesRest cells) cells
  | [] => .nil
  | [c] => .cons ⟨1, 0, by simp [spaces]⟩ .nil
  | c :: d :: r => .cons (padded_pad c) (padded_piecesRest (d :: r))

theorem padded_pieces (border : Bool) (cells : List Str) : All₂ Padded (pieces border cells) cells := by
  cases border
  · match cells with
    | [] => exact .nil
    | [c] => exact .cons ⟨0, 0, by simp [spaces]⟩ .nil
    | c :: d :: r => exact .cons ⟨0, 1, by simp [spaces]⟩ (padded_piecesRest (d :: r))
  · simp only [pieces, if_true]
    induction cells with
    | nil => exact .nil
    | cons c r ih => exact .cons (padded_pad c) ih

/-! ### cells -/

/-- what the line lemmas need of a cell text (also satisfied by the cells of the delimiter row) -/
structure LineCell (c : Str) : Prop where
  plain : c.all plainChar = true
  nonl : '\n' ∉ c
  h1 : c.head? ≠ some ' '
  h2 : c.getLast? ≠ some ' '

theorem cellOK_facts {c : Str} (h : CellOK c = true) :
    c.all cellCh = true ∧ c.head? ≠ some ' ' ∧ c.getLast? ≠ some ' ' := by
  simp only [CellOK, Bool.and_eq_true, bne_iff_ne, ne_eq] at h
  exact ⟨h.1.1, h.1.2, h.2⟩

theorem stripC_spaces (k : Nat) : stripC ' ' (spaces k) = [] := by
  have : (spaces k).all (· = ' ') = true := by simp [spaces]
  exact (stripP_eq_nil_iff _ _).2 this

/-- `strip(' ')` of a padded cell is the cell -/
theorem stripC_padded {p c : Str} (hp : Padded p c) (hc : LineCell c) : stripC ' ' p = c := by
  obtain ⟨i, j, rfl⟩ := hp
  have h1 := hc.h1; have h2 := hc.h2
  cases c with
  | nil =>
    have : (spaces i ++ [] ++ spaces j).all (· = ' ') = true := by simp [spaces]
    exact (stripP_eq_nil_iff _ _).2 this
  | cons a r =>
    exact stripC_pad _ i j (by simp) h1 (by rw [List.head?_reverse]; exact h2)

theorem cellCh_plain {x : Char} (h : cellCh x = true) : plainChar x = true := by
  simp only [plainChar, Bool.and_eq_true, bne_iff_ne, ne_eq]
  refine ⟨⟨?_, ?_⟩, ?_⟩ <;> (intro e; subst e; exact absurd h (by decide))

theorem plain_padded {p c : Str} (hp : Padded p c) (hc : c.all plainChar = true) : Plain p := by
  obtain ⟨i, j, rfl⟩ := hp
  have hs : ∀ k, (spaces k).all plainChar = true := by
    intro k; simp only [spaces, List.all_eq_true]; intro x hx
    rw [(List.mem_replicate.mp hx).2]; decide
  simp only [Plain, List.all_append, hs, hc, Bool.and_self]

theorem cell_plain {c : Str} (hc : CellOK c = true) : c.all plainChar = true := by
  have := (cellOK_facts hc).1
  simp only [List.all_eq_true] at this ⊢
  exact fun x hx => cellCh_plain (this x hx)

theorem lineCell_of_cellOK {c : Str} (hc : CellOK c = true) : LineCell c := by
  obtain ⟨h0, h1, h2⟩ := cellOK_facts hc
  refine ⟨cell_plain hc, ?_, h1, h2⟩
  intro hm
  exact absurd (List.all_eq_true.mp h0 _ hm) (by decide)

theorem lineCell_sepCell (a : Al) : LineCell (sepCell a) := by
  rcases a with _ | _ | _ | _ <;> exact ⟨by decide, by decide, by decide, by decide⟩

theorem pieces_plain (border : Bool) (cells : List Str) (h : ∀ c ∈ cells, c.all plainChar = true) :
    ∀ p ∈ pieces border cells, Plain p :=
  (padded_pieces border cells).forall_left (P := fun p => Plain p) (Q := fun c => c.all plainChar = true)
    (fun _ _ hp hq => plain_padded hp hq) h

theorem pieces_length (border : Bool) (cells : List Str) : (pieces border cells).length = cells.length :=
  (padded_pieces border cells).length_eq

theorem pieces_ne_nil (border : Bool) {cells : List Str} (h : cells ≠ []) : pieces border cells ≠ [] := by
  intro e
  have := pieces_length border cells
  rw [e] at this
  cases cells with
  | nil => exact h rfl
  | cons a b => simp at this

/-- the texts of the cells of a row: `strip(' ')` of the pieces -/
theorem pieces_strip (border : Bool) (cells : List Str) (h : ∀ c ∈ cells, LineCell c) :
    (pieces border cells).map (stripC ' ') = cells := by
  have key : ∀ (ps cs : List Str), All₂ Padded ps cs → (∀ c ∈ cs, LineCell c) → ps.map (stripC ' ') = cs := by
    intro ps cs hpc
    induction hpc with
    | nil => intro _; rfl
    | cons h0 _ ih =>
      intro hc
      simp only [List.map_cons, stripC_padded h0 (hc _ (by simp)), ih (fun c hm => hc c (by simp [hm]))]
  exact key _ _ (padded_pieces border cells) h

/-! ### a line: its split, its border -/

theorem spanLen_isBs_zero (Y : Str) (h : Y.head? ≠ some '\\') : spanLen (fun c => decide (c = '\\')) Y = 0 := by
  cases Y with
  | nil => rfl
  | cons c r =>
    have : c ≠ '\\' := by simpa using h
    simp [spanLen, this]

theorem joinPipe_cons_cons (a b : Str) (r : List Str) : joinPipe (a :: b :: r) = a ++ '|' :: joinPipe (b :: r) := by
  simp [joinPipe, join]

theorem mem_joinPipe {x : Char} : ∀ {ps : List Str}, x ∈ joinPipe ps → x = '|' ∨ ∃ p ∈ ps, x ∈ p
  | [], h => by simp [joinPipe, join] at h
  | [a], h => Or.inr ⟨a, by simp, by simpa [joinPipe, join] using h⟩
  | a :: b :: r, h => by
    rw [joinPipe_cons_cons] at h
    simp only [List.mem_append, List.mem_cons] at h
    rcases h with h | h | h
    · exact Or.inr ⟨a, by simp, h⟩
    · exact Or.inl h
    · rcases mem_joinPipe h with h | ⟨p, hp, hx⟩
      · exact Or.inl h
      · exact Or.inr ⟨p, by simp [hp], hx⟩

/-- a line with outer pipes: `_split_row` gives the pieces -/
theorem splitRow_bordered_line (cells : List Str) (hne : cells ≠ []) (h : ∀ c ∈ cells, c.all plainChar = true)
    (b : Nat) (hb : b ≠ 0) : splitRow b (printRow true cells) = pieces true cells := by
  simp only [printRow, if_true]
  exact splitRow_bordered _ (pieces_ne_nil true hne) (fun p hp => EscCell.of_plain (pieces_plain true cells h p hp)) b hb

/-- a line without outer pipes -/
theorem splitRow_open_line (cells : List Str) (hne : cells ≠ []) (h : ∀ c ∈ cells, c.all plainChar = true) :
    splitRow 0 (printRow false cells) = pieces false cells := by
  simp only [printRow, Bool.false_eq_true, if_false, splitRow, if_true]
  exact C16_split_plain' _ (pieces_ne_nil false hne) (pieces_plain false cells h)
where
  C16_split_plain' (cs : List Str) (hne : cs ≠ []) (h : ∀ c ∈ cs, Plain c) : split (joinPipe cs) = cs :=
    split_join cs hne (fun c hc => EscCell.of_plain (h c hc))


/-! ### a whole line -/

/-- a row as the line lemmas see it -/
structure LineRow (border : Bool) (r : List Str) : Prop where
  ne : r ≠ []
  cells : ∀ c ∈ r, LineCell c
  ends : border = true ∨ (r.headD [] ≠ [] ∧ r.getLastD [] ≠ [])

theorem piecesRest_last : ∀ (cells : List Str) (hne : cells ≠ []),
    ∃ Z, joinPipe (piecesRest cells) = Z ++ cells.getLast hne
  | [], h => absurd rfl h
  | [c], _ => ⟨[' '], by simp [piecesRest, joinPipe]⟩
  | c :: d :: r, _ => by
    obtain ⟨Z, hZ⟩ := piecesRest_last (d :: r) (by simp)
    refine ⟨pad c ++ '|' :: Z, ?_⟩
    have hp : piecesRest (c :: d :: r) = pad c :: piecesRest (d :: r) := rfl
    obtain ⟨x, y, hxy⟩ : ∃ x y, piecesRest (d :: r) = x :: y := by
      cases r <;> simp [piecesRest]
    rw [hp, hxy, joinPipe_cons_cons, ← hxy, hZ]
    simp

/-- a line without outer pipes begins with its first cell and ends with its last -/
theorem open_line_ends (r : List Str) (hne : r ≠ []) :
    (∃ X, printRow false r = r.head hne ++ X) ∧ (∃ Y, printRow false r = Y ++ r.getLast hne) := by
  match r, hne with
  | [c], _ => exact ⟨⟨[], by simp [printRow, pieces, joinPipe]⟩, ⟨[], by simp [printRow, pieces, joinPipe]⟩⟩
  | c :: d :: r, _ =>
    obtain ⟨Z, hZ⟩ := piecesRest_last (d :: r) (by simp)
    obtain ⟨x, y, hxy⟩ : ∃ x y, piecesRest (d :: r) = x :: y := by
      cases r <;> simp [piecesRest]
    have e : printRow false (c :: d :: r) = (c ++ [' ']) ++ '|' :: joinPipe (piecesRest (d :: r)) := by
      simp only [printRow, Bool.false_eq_true, if_false, pieces]
      rw [hxy, joinPipe_cons_cons]
    refine ⟨⟨' ' :: '|' :: joinPipe (piecesRest (d :: r)), by rw [e]; simp⟩,
      ⟨(c ++ [' ']) ++ '|' :: Z, ?_⟩⟩
    rw [e, hZ]; simp

theorem head?_append_of_ne_nil {a : Str} (h : a ≠ []) (b : Str) : (a ++ b).head? = a.head? := by
  cases a with
  | nil => exact absurd rfl h
  | cons x y => rfl

theorem getLast?_append_of_ne_nil {b : Str} (h : b ≠ []) (a : Str) : (a ++ b).getLast? = b.getLast? := by
  rw [List.getLast?_append]
  cases hb : b.getLast? with
  | none => simp [List.getLast?_eq_none_iff] at hb; exact absurd hb h
  | some x => rfl

theorem headD_eq_head {r : List Str} (hne : r ≠ []) : r.headD [] = r.head hne := by
  cases r with
  | nil => exact absurd rfl hne
  | cons a b => rfl

theorem getLastD_eq_getLast {r : List Str} (hne : r ≠ []) : r.getLastD [] = r.getLast hne := by
  cases r with
  | nil => exact absurd rfl hne
  | cons a b =>
    rw [List.getLastD_cons]
    exact (List.getLast_eq_getLastD ..).symm

/-- first and last character of a line -/
theorem line_ends {border : Bool} {r : List Str} (h : LineRow border r) :
    (∃ x, (printRow border r).head? = some x ∧ x ≠ ' ' ∧ (x = '|' ↔ border = true)) ∧
    (∃ y, (printRow border r).getLast? = some y ∧ y ≠ ' ' ∧ y ≠ '\\' ∧ y ≠ '\n' ∧ (y = '|' ↔ border = true)) := by
  cases border with
  | true =>
    simp only [printRow, if_true]
    refine ⟨⟨'|', rfl, by decide, by simp⟩, ⟨'|', ?_, by decide, by decide, by decide, by simp⟩⟩
    rw [show '|' :: (joinPipe (pieces true r) ++ ['|']) = ('|' :: joinPipe (pieces true r)) ++ ['|'] by simp]
    exact getLast?_append_of_ne_nil (by simp) _
  | false =>
    obtain ⟨hh, hl⟩ : r.headD [] ≠ [] ∧ r.getLastD [] ≠ [] := by
      rcases h.ends with e | e
      · cases e
      · exact e
    rw [headD_eq_head h.ne] at hh
    rw [getLastD_eq_getLast h.ne] at hl
    obtain ⟨⟨X, hX⟩, ⟨Y, hY⟩⟩ := open_line_ends r h.ne
    have hc1 := h.cells _ (List.head_mem h.ne)
    have hc2 := h.cells _ (List.getLast_mem h.ne)
    constructor
    · cases hd : (r.head h.ne) with
      | nil => exact absurd hd hh
      | cons x t =>
        have hx : x ∈ r.head h.ne := by rw [hd]; simp
        have hp := List.all_eq_true.mp hc1.plain x hx
        refine ⟨x, by rw [hX, hd]; rfl, ?_, ?_⟩
        · have := hc1.h1; rw [hd] at this; simpa using this
        · constructor
          · intro e; subst e; exact absurd hp (by decide)
          · intro e; cases e
    · have hlast : (printRow false r).getLast? = (r.getLast h.ne).getLast? := by
        rw [hY]; exact getLast?_append_of_ne_nil hl _
      cases hg : (r.getLast h.ne).getLast? with
      | none => simp [List.getLast?_eq_none_iff] at hg; exact absurd hg hl
      | some y =>
        have hy : y ∈ r.getLast h.ne := List.mem_of_getLast? hg
        have hp := List.all_eq_true.mp hc2.plain y hy
        refine ⟨y, by rw [hlast, hg], ?_, ?_, ?_, ?_⟩
        · have := hc2.h2; rw [hg] at this; simpa using this
        · intro e; subst e; exact absurd hp (by decide)
        · intro e; subst e; exact hc2.nonl hy
        · constructor
          · intro e; subst e; exact absurd hp (by decide)
          · intro e; cases e

/-- `strip(' ')` leaves a line alone -/
theorem stripC_line {border : Bool} {r : List Str} (h : LineRow border r) :
    stripC ' ' (printRow border r) = printRow border r := by
  obtain ⟨⟨x, hx, hx1, _⟩, ⟨y, hy, hy1, _⟩⟩ := line_ends h
  apply stripP_eq_self
  · intro c hc; rw [hx] at hc; cases hc; simpa using hx1
  · intro c hc; rw [hy] at hc; cases hc; simpa using hy1

theorem nonl_line {border : Bool} {r : List Str} (h : LineRow border r) : '\n' ∉ printRow border r := by
  have hp : ∀ p ∈ pieces border r, '\n' ∉ p := by
    have : ∀ (ps cs : List Str), All₂ Padded ps cs → (∀ c ∈ cs, '\n' ∉ c) → ∀ p ∈ ps, '\n' ∉ p := by
      intro ps cs hpc
      induction hpc with
      | nil => intro _ p hp; simp at hp
      | cons h0 _ ih =>
        intro hc p hp
        simp only [List.mem_cons] at hp
        rcases hp with rfl | hp
        · obtain ⟨i, j, rfl⟩ := h0
          simp only [List.mem_append, spaces, List.mem_replicate, not_or]
          exact ⟨⟨fun e => absurd e.2 (by decide), hc _ List.mem_cons_self⟩, fun e => absurd e.2 (by decide)⟩
        · exact ih (fun c hm => hc c (by simp [hm])) p hp
    exact this _ _ (padded_pieces border r) (fun c hc => (h.cells c hc).nonl)
  have hj : '\n' ∉ joinPipe (pieces border r) := by
    intro hm
    rcases mem_joinPipe hm with e | ⟨p, hp', hx⟩
    · cases e
    · exact hp p hp' hx
  cases border with
  | true =>
    simp only [printRow, if_true, List.mem_cons, List.mem_append, List.not_mem_nil, or_false, not_or]
    exact ⟨by decide, hj, by decide⟩
  | false => simpa [printRow] using hj

/-- `self.border` as `test` computes it from the header line -/
theorem borderOf_line {border : Bool} {r : List Str} (h : LineRow border r) :
    borderOf (printRow border r) = if border then 3 else 0 := by
  obtain ⟨⟨x, hx, _, hxb⟩, ⟨y, hy, _, hyb, hynl, hyp⟩⟩ := line_ends h
  have hsw : startsWith (printRow border r) ['|'] = border := by
    cases hL : printRow border r with
    | nil => rw [hL] at hx; cases hx
    | cons a t =>
      rw [hL] at hx
      have hax : a = x := by simpa using hx
      subst hax
      cases border
      · have : a ≠ '|' := fun e => by have := hxb.1 e; cases this
        simp [startsWith, this]
      · have : a = '|' := hxb.2 rfl
        simp [startsWith, this]
  have heb : isEndBorder (printRow border r) = border := by
    cases border with
    | true =>
      simp only [printRow, if_true]
      rw [show '|' :: (joinPipe (pieces true r) ++ ['|']) = ('|' :: joinPipe (pieces true r)) ++ ['|'] by simp]
      unfold isEndBorder
      rw [endBorderSub_append_pipe]
      · rfl
      · -- the text before the closing pipe has no backslash
        have hnb : ∀ c ∈ ('|' :: joinPipe (pieces true r)), c ≠ '\\' := by
          intro c hc
          simp only [List.mem_cons] at hc
          rcases hc with rfl | hc
          · decide
          · rcases mem_joinPipe hc with e | ⟨p, hp, hcp⟩
            · rw [e]; decide
            · have := pieces_plain true r (fun c hc => (h.cells c hc).plain) p hp
              intro e; subst e
              exact absurd (List.all_eq_true.mp this _ hcp) (by decide)
        have : trailingBs ('|' :: joinPipe (pieces true r)) = 0 := by
          unfold trailingBs
          apply spanLen_isBs_zero
          intro e
          have hm := List.mem_of_head? e  -- placeholder, replaced below
          exact hnb _ (by simpa using hm) rfl
        rw [this]
    | false =>
      unfold isEndBorder endBorderSub
      have hrev : (printRow false r).reverse.head? = some y := by rw [List.head?_reverse]; exact hy
      have hne1 : y ≠ '|' := fun e => by have := hyp.1 e; cases this
      simp [hrev, hynl, hne1]
  unfold borderOf
  rw [hsw, heb]
  cases border <;> rfl


/-! ### `test` and `run` on a printed table -/

theorem lineRow_of_rowOK {border : Bool} {r : List Str} (h : RowOK border r = true) : LineRow border r := by
  simp only [RowOK, EndsOK, Bool.and_eq_true, Bool.not_eq_true', List.isEmpty_eq_false_iff, List.all_eq_true,
    Bool.or_eq_true] at h
  obtain ⟨⟨hne, hc⟩, he⟩ := h
  refine ⟨hne, fun c hm => lineCell_of_cellOK (hc c hm), ?_⟩
  rcases he with e | e
  · exact Or.inl e
  · exact Or.inr ⟨by simpa using e.1, by simpa using e.2⟩

theorem sepCell_ne_nil (a : Al) : sepCell a ≠ [] := by rcases a with _ | _ | _ | _ <;> decide

theorem lineRow_sep (border : Bool) {aligns : List Al} (hne : aligns ≠ []) : LineRow border (aligns.map sepCell) := by
  refine ⟨by simpa using hne, ?_, Or.inr ⟨?_, ?_⟩⟩
  · intro c hc
    simp only [List.mem_map] at hc
    obtain ⟨a, _, rfl⟩ := hc
    exact lineCell_sepCell a
  · cases aligns with
    | nil => exact absurd rfl hne
    | cons a r => exact sepCell_ne_nil a
  · rw [getLastD_eq_getLast (by simpa using hne)]
    have hm := List.getLast_mem (l := aligns.map sepCell) (by simpa using hne)
    simp only [List.mem_map] at hm
    obtain ⟨a, _, e⟩ := hm
    rw [← e]; exact sepCell_ne_nil a

/-- `_split_row` on a printed line -/
theorem splitRow_line {border : Bool} {r : List Str} (h : LineRow border r) :
    splitRow (if border then 3 else 0) (printRow border r) = pieces border r := by
  cases border with
  | true => exact splitRow_bordered_line r h.ne (fun c hc => (h.cells c hc).plain) 3 (by decide)
  | false => exact splitRow_open_line r h.ne (fun c hc => (h.cells c hc).plain)

/-- the cell texts `_build_row` makes from a printed line: the row cut or padded to `n` cells -/
theorem buildRow_line {border : Bool} {r : List Str} (h : LineRow border r) (n : Nat) :
    buildRow n (printRow border r) (if border then 3 else 0) = fit n r := by
  unfold buildRow fit
  rw [splitRow_line h]
  apply List.map_congr_left
  intro i _
  unfold cellAt
  rcases (padded_pieces border r).get i with ⟨p, c, hp, hc, hpc⟩ | ⟨hp, hc⟩
  · rw [hp]
    simp only [List.getD_eq_getElem?_getD, hc, Option.getD_some]
    exact stripC_padded hpc (h.cells c (List.mem_of_getElem? hc))
  · rw [hp]; simp [List.getD_eq_getElem?_getD, hc]

theorem fit_self (r : List Str) : fit r.length r = r := by
  unfold fit
  apply List.ext_getElem?
  intro i
  by_cases hi : i < r.length
  · simp [hi, List.getD_eq_getElem?_getD]
  · simp [hi]

theorem fit_length (n : Nat) (r : List Str) : (fit n r).length = n := by simp [fit]

theorem sep_chars (border : Bool) (aligns : List Al) :
    (pieces border (aligns.map sepCell)).all (fun c => c.all sepChar) = true := by
  have key : ∀ (ps cs : List Str), All₂ Padded ps cs → (∀ c ∈ cs, c.all sepChar = true) →
      ps.all (fun c => c.all sepChar) = true := by
    intro ps cs hpc
    induction hpc with
    | nil => intro _; rfl
    | cons h0 _ ih =>
      intro hc
      obtain ⟨i, j, rfl⟩ := h0
      have hs : ∀ k, (spaces k).all sepChar = true := by
        intro k; simp only [spaces, List.all_eq_true]; intro x hx
        rw [(List.mem_replicate.mp hx).2]; decide
      simp only [List.all_cons, List.all_append, hs, hc _ List.mem_cons_self, Bool.and_self, Bool.true_and]
      exact ih (fun c hm => hc c (by simp [hm]))
  apply key _ _ (padded_pieces border (aligns.map sepCell))
  intro c hc
  simp only [List.mem_map] at hc
  obtain ⟨a, _, rfl⟩ := hc
  rcases a with _ | _ | _ | _ <;> decide

theorem alignOf_padded {p : Str} {a : Al} (h : Padded p (sepCell a)) : alignOf p = a := by
  obtain ⟨i, j, rfl⟩ := h
  rcases a with _ | _ | _ | _
  · exact alignOf_none i j 2
  · exact alignOf_left i j 2
  · exact alignOf_right i j 2
  · exact alignOf_center i j 3

theorem sep_aligns (border : Bool) (aligns : List Al) :
    (pieces border (aligns.map sepCell)).map alignOf = aligns := by
  have key : ∀ (ps : List Str) (as : List Al), All₂ Padded ps (as.map sepCell) → ps.map alignOf = as := by
    intro ps as
    induction as generalizing ps with
    | nil => intro h; cases h; rfl
    | cons a r ih =>
      intro h
      cases h with
      | cons h0 h1 => simp only [List.map_cons, alignOf_padded h0, ih _ h1]
  exact key _ _ (padded_pieces border (aligns.map sepCell))

theorem tableOK_facts {header : List Str} {aligns : List Al} {rows : List (List Str)} {border : Bool}
    (h : TableOK header aligns rows border = true) :
    header.length = aligns.length ∧ RowOK border header = true ∧ (border = true ∨ 2 ≤ header.length) ∧
      ∀ r ∈ rows, RowOK border r = true := by
  simp only [TableOK, Bool.and_eq_true, beq_iff_eq, Bool.or_eq_true, decide_eq_true_eq, List.all_eq_true] at h
  exact ⟨h.1.1.1, h.1.1.2, h.1.2, h.2⟩

/-- the lines of the printed table, as `test` and `run` see them -/
theorem lines_printTable {header : List Str} {aligns : List Al} {rows : List (List Str)} {border : Bool}
    (h : TableOK header aligns rows border = true) :
    splitC '\n' (printTable header aligns rows border) =
      printRow border header :: printRow border (aligns.map sepCell) :: rows.map (printRow border) := by
  obtain ⟨hlen, hh, _, hr⟩ := tableOK_facts h
  have hhl := lineRow_of_rowOK hh
  have hane : aligns ≠ [] := by
    intro e; have := hhl.ne; rw [e] at hlen; exact this (List.length_eq_zero_iff.mp hlen)
  unfold printTable
  apply joinLines_lines (by simp)
  intro p hp
  simp only [List.mem_cons, List.mem_map] at hp
  rcases hp with rfl | rfl | ⟨r, hrm, rfl⟩
  · exact nonl_line hhl
  · exact nonl_line (lineRow_sep border hane)
  · exact nonl_line (lineRow_of_rowOK (hr r hrm))

/-- **`TableProcessor.test` accepts a printed table** and leaves the border and the pieces of the delimiter row -/
theorem tableTest_print {header : List Str} {aligns : List Al} {rows : List (List Str)} {border : Bool}
    (h : TableOK header aligns rows border = true) :
    tableTest (printTable header aligns rows border) =
      some (if border then 3 else 0, pieces border (aligns.map sepCell)) := by
  obtain ⟨hlen, hh, hcols, hr⟩ := tableOK_facts h
  have hhl := lineRow_of_rowOK hh
  have hane : aligns ≠ [] := by
    intro e; have := hhl.ne; rw [e] at hlen; exact this (List.length_eq_zero_iff.mp hlen)
  have hsl := lineRow_sep border hane
  have hstrip : ((printRow border header :: printRow border (aligns.map sepCell) :: rows.map (printRow border)).map
      (stripC ' ')) = printRow border header :: printRow border (aligns.map sepCell) :: rows.map (printRow border) := by
    simp only [List.map_cons, stripC_line hhl, stripC_line hsl, List.map_map]
    congr 2
    apply List.map_congr_left
    intro r hrm
    exact stripC_line (lineRow_of_rowOK (hr r hrm))
  have hb := borderOf_line hhl
  have hrow0 : (splitRow (if border then 3 else 0) (printRow border header)).length = header.length := by
    rw [splitRow_line hhl, pieces_length]
  have hsep := splitRow_line hsl
  have hseplen : (pieces border (aligns.map sepCell)).length = header.length := by
    rw [pieces_length, List.length_map, hlen]
  have hpos : 0 < header.length := List.length_pos_iff.mpr hhl.ne
  have hbp : ∀ r, LineRow true r → hasBorderPipe (printRow true r) = true := by
    intro r _; simp [hasBorderPipe, printRow]
  unfold tableTest
  rw [lines_printTable h, hstrip]
  simp only [hb, hrow0, hsep, hseplen, sep_chars, beq_self_eq_true, Bool.and_self, if_true]
  rcases hcols with rfl | h2
  · -- with outer pipes: more than one column, or every line has a border pipe
    have hall : (printRow true (aligns.map sepCell) :: rows.map (printRow true)).all hasBorderPipe = true := by
      simp only [List.all_cons, List.all_map, Bool.and_eq_true, List.all_eq_true]
      exact ⟨hbp _ hsl, fun r hrm => hbp r (lineRow_of_rowOK (hr r hrm))⟩
    by_cases h1 : header.length > 1
    · simp [h1]
    · have : header.length = 1 := by omega
      simp [this, hall]
  · have : header.length > 1 := by omega
    simp [this]

/-- the table `run` builds from a printed table -/
def tableOf (header : List Str) (aligns : List Al) (rows : List (List Str)) : Tables.Table :=
  { align := aligns, head := header,
    body := if rows.isEmpty then [List.replicate aligns.length none]
            else rows.map (fun r => (fit aligns.length r).map some) }

theorem table_print {header : List Str} {aligns : List Al} {rows : List (List Str)} {border : Bool}
    (h : TableOK header aligns rows border = true) :
    Tables.table (printTable header aligns rows border) = some (tableOf header aligns rows) := by
  obtain ⟨hlen, hh, _, hr⟩ := tableOK_facts h
  have hhl := lineRow_of_rowOK hh
  unfold Tables.table
  rw [tableTest_print h]
  simp only [Option.map_some, Option.some.injEq]
  unfold tableRun tableOf
  rw [lines_printTable h]
  simp only [List.headD_cons, stripC_line hhl, sep_aligns, List.drop_succ_cons, List.drop_zero, buildRow_line hhl,
    ← hlen, fit_self, List.isEmpty_map, List.map_map]
  congr 1
  split
  · rfl
  · apply List.map_congr_left
    intro r hrm
    have hrl := lineRow_of_rowOK (hr r hrm)
    simp only [Function.comp, stripC_line hrl, buildRow_line hrl]

end MdVerif.TableDoc
