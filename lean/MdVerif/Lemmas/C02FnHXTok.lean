/-
SECOND PORT, STRONGER TOKEN: this file is `Lemmas/C02FnXTok.lean` in the namespace `MdVerif.TokH`, over the string invariant
of `Lemmas/C02FnHStr.lean`, in which a complete escape token `STX d₁…d_k ETX` must have a value below 0x110000 AND
DIFFERENT FROM 2 (`TokH.chrOk`), so that `UnescapeTreeprocessor.unescape` never writes an STX.  The one place where tokens
are created (the escape pattern, `findMatch_S` in `Lemmas/C02FnHPat.lean`) needs that STX is no escapable character:
`RefsS cfg` is the old statement together with `cfg.esc.contains Inline.STX = false`.  Header of the file copied:

PORT for `Props/C02Fn.lean` (footnotes): this file is `Lemmas/C02BigXTok.lean` in the namespace `MdVerif.TokH`, over the
string invariant of `Lemmas/C02FnStr.lean`, in which an STX may be followed by `k`, `w`, **`q`, `z`** (`TokH.gl`: the two
tokens of the footnotes extension, `STX zz…qq ETX` and `STX qq…zz ETX`) or by a complete escape token.  The proofs are
those of the original up to the case splits on the letter.  Original header:

Lemmas for `Props/C02Big.lean`, section 7: the STX-token invariant of `Lemmas/C02BigStr.lean` through the inline tree
processor OVER A PATTERN TABLE (`Model/InlineX.lean`) — transcription of the engine part of `Lemmas/C02BigRun.lean`
(`processPlaceholders` is shared and reused as it is) plus the three extension patterns: the footnote pattern makes a
`sup`/`a` whose strings are the reference id (no STX when the footnote ids have none) and a number; the wikilink
pattern an `a` whose text and `href` are made of word characters, blanks, `-`, `_`, `/` — or the empty string; nl2br a
`br`.  None of them cuts the data behind an STX.  Core Lean only.
-/
import MdVerif.Lemmas.C02FnHTree
import MdVerif.Lemmas.PlaceholdersXFM
import MdVerif.Model.InlineX

namespace MdVerif.TokH
open Py Inline InlineX

/-- the configuration: reference definitions and footnote ids without STX -/
structure XOK (xc : XCfg) : Prop where
  refs : RefsS xc.cfg
  keys : ∀ id ∈ xc.fnKeys, NoCtl.NoCtl id

/-! ### the extension patterns -/

theorem getElem?_at_preX {data pre rest : Str} {si : Nat} (h : data.drop si = pre ++ rest) :
    data[si + pre.length]? = rest.head? := by
  have := List.getElem?_drop (xs := data) (i := si) (j := pre.length)
  rw [h] at this
  rw [← this, List.getElem?_append_right (Nat.le_refl _), Nat.sub_self, List.head?_eq_getElem?]

theorem SOkA_of_noCtl {s : Str} (h : NoCtl.NoCtl s) : SOkA s = true := SOkA_of_noSTX h.1

theorem fnRefNode_S (keys : List Str) {id refId : Str} (hid : NoCtl.NoCtl id) (hr : NoCtl.NoCtl refId) :
    (fnRefNode keys id refId).Forall NodeS := by
  have hdig := natToDec_digits (indexOf keys id + 1)
  have ha : (({ mkEl "a" with text := some (natToDec (indexOf keys id + 1)) } : Node)).Forall NodeS :=
    forallS_setText (nodeS_mkEl "a") (SOk_of_noSTX (digits_noSTX hdig)) _
  have hhref : SOkA ('#' :: Footnotes.footnoteId id) = true := by
    apply SOkA_of_noSTX
    intro hm
    simp only [Footnotes.footnoteId, List.mem_cons] at hm
    rcases hm with hm | hm | hm | hm | hm
    · revert hm; decide
    · revert hm; decide
    · revert hm; decide
    · revert hm; decide
    · exact hid.1 hm
  have ha2 := forallS_setAttr (forallS_setAttr ha "href".toList hhref) "class".toList
    (v := "footnote-ref".toList) (by decide)
  have hsup := forallS_setAttr (nodeS_mkEl "sup") "id".toList (SOkA_of_noCtl hr)
  rw [Node.forall_iff] at hsup ⊢
  refine ⟨hsup.1, ?_⟩
  intro c hc
  simp only [fnRefNode, List.mem_singleton] at hc
  subst hc
  exact ha2

theorem wikiChars_noSTX {g : Str} (h : ∀ c ∈ g, isWikiChar c = true) : STX ∉ g := by
  intro hm
  have := h _ hm
  revert this; decide

theorem cleanLabel_noSTX : ∀ (s : Str) (k : Nat), STX ∉ s → STX ∉ cleanLabel k s := by
  intro s
  induction s with
  | nil => intro k _; cases k <;> simp [cleanLabel]
  | cons c r ih =>
    intro k hs
    have hc : c ≠ STX := fun e => hs (by rw [e]; exact List.mem_cons_self)
    have hr : STX ∉ r := fun hm => hs (List.mem_cons_of_mem _ hm)
    cases k with
    | succ k => simp only [cleanLabel]; exact ih k hr
    | zero =>
      simp only [cleanLabel]
      split
      · split
        · intro hm
          rcases List.mem_cons.1 hm with e | hm
          · revert e; decide
          · exact ih _ hr hm
        · intro hm
          rcases List.mem_cons.1 hm with e | hm
          · revert e; decide
          · exact ih _ hr hm
      · split
        · intro hm
          rcases List.mem_cons.1 hm with e | hm
          · revert e; decide
          · exact ih _ hr hm
        · intro hm
          rcases List.mem_cons.1 hm with e | hm
          · exact hc e.symm
          · exact ih _ hr hm

theorem wikiNode_S {g : Str} (hg : ∀ c ∈ g, isWikiChar c = true) :
    match wikiNode g with
    | .none => True
    | .str s => SOk s = true
    | .el n => n.Forall NodeS := by
  have hno := wikiChars_noSTX hg
  have hlab : STX ∉ strip g := fun hm => hno ((strip_infix g).subset hm)
  by_cases he : (strip g).isEmpty = true
  · simp only [wikiNode, he, if_true]
    rfl
  · simp only [wikiNode, he, Bool.false_eq_true, if_false]
    have ha : (({ mkEl "a" with text := some (strip g) } : Node)).Forall NodeS :=
      forallS_setText (nodeS_mkEl "a") (SOk_of_noSTX hlab) _
    have hhref : SOkA ('/' :: cleanLabel 0 (strip g) ++ ['/']) = true := by
      apply SOkA_of_noSTX
      intro hm
      rcases List.mem_cons.1 hm with e | hm
      · revert e; decide
      · rcases List.mem_append.1 hm with hm | hm
        · exact cleanLabel_noSTX _ 0 hlab hm
        · revert hm; decide
    exact forallS_setAttr (forallS_setAttr ha "href".toList hhref) "class".toList (v := "wikilink".toList) (by decide)

/-- **every entry of a pattern table**: the match starts in front of a character that continues no STX, what is
    returned keeps the invariant, the node stash is not touched -/
theorem findX_S {xc : XCfg} (hx : XOK xc) {k : PatK} {data : Str} (hd : SOk data = true) {si : Nat} {x x' : XSt}
    (hs : StashS x.st.stash) {f : Found} (h : findX xc k data si x = some (some f, x')) :
    FoundS data f ∧ x'.st.stash = x.st.stash := by
  cases k with
  | core i =>
    simp only [findX] at h
    split at h
    · cases h
    · next fo st' hfm =>
      simp only [Option.some.injEq, Prod.mk.injEq] at h
      obtain ⟨rfl, rfl⟩ := h
      exact ⟨findMatch_S hx.refs hd hs hfm, (Vocab2.findMatch_ok _ _ _ _ _ _ _ hfm).1⟩
  | footnote =>
    simp only [findX] at h
    split at h
    · cases h
    · split at h
      · next id s e hsc =>
        simp only [Option.some.injEq, Prod.mk.injEq] at h
        obtain ⟨rfl, rfl⟩ := h
        obtain ⟨pre, post, h1, h2, _, h4⟩ := NoCtlX.fnRefScan_spec _ _ _ _ _ _ _ hsc
        have hid : NoCtl.NoCtl id := hx.keys id (by simpa using h4)
        refine ⟨⟨?_, fnRefNode_S _ hid (NoCtlX.noCtl_footnoteRefId hid x.fn)⟩, rfl⟩
        intro c hc
        simp only at hc
        rw [h2, getElem?_at_preX (rest := (('[' :: '^' :: id) ++ [']']) ++ post) (by rw [h1]; simp)] at hc
        simp only [List.cons_append, List.head?_cons, Option.some.injEq] at hc
        subst hc; decide
      · cases h
  | wikilink =>
    simp only [findX] at h
    split at h
    · cases h
    · split at h
      · next g s e hsc =>
        simp only [Option.some.injEq, Prod.mk.injEq] at h
        obtain ⟨rfl, rfl⟩ := h
        obtain ⟨pre, post, h1, h2, _, _, h5⟩ := NoCtlX.wikiScan_spec _ _ _ _ _ hsc
        refine ⟨⟨?_, wikiNode_S h5⟩, rfl⟩
        intro c hc
        simp only at hc
        rw [h2, getElem?_at_preX (rest := (('[' :: '[' :: g) ++ [']', ']']) ++ post) (by rw [h1]; simp)] at hc
        simp only [List.cons_append, List.head?_cons, Option.some.injEq] at hc
        subst hc; decide
      · cases h
  | nl =>
    simp only [findX] at h
    split at h
    · cases h
    · split at h
      · next off hfind =>
        simp only [Option.some.injEq, Prod.mk.injEq] at h
        obtain ⟨rfl, rfl⟩ := h
        obtain ⟨pre, post, e1, e2, _⟩ := find_some_iff.1 hfind
        refine ⟨⟨?_, nodeS_mkEl "br"⟩, rfl⟩
        intro c hc
        simp only at hc
        rw [← e2, getElem?_at_preX (rest := ['\n'] ++ post) (by rw [e1, List.append_assoc])] at hc
        simp only [List.cons_append, List.head?_cons, Option.some.injEq] at hc
        subst hc; decide
      · cases h

theorem findX_none_stashS {xc : XCfg} {k : PatK} {data : Str} {si : Nat} {x x' : XSt}
    (h : findX xc k data si x = some (none, x')) : x'.st.stash = x.st.stash := by
  cases k with
  | core i =>
    simp only [findX] at h
    split at h
    · cases h
    · next fo st' hfm =>
      simp only [Option.some.injEq, Prod.mk.injEq] at h
      obtain ⟨rfl, rfl⟩ := h
      exact Vocab2.findMatch_none_stash _ _ _ _ _ _ hfm
  | footnote =>
    simp only [findX] at h
    split at h
    · simp only [Option.some.injEq, Prod.mk.injEq] at h; rw [← h.2]
    · split at h
      · cases h
      · simp only [Option.some.injEq, Prod.mk.injEq] at h; rw [← h.2]
  | wikilink =>
    simp only [findX] at h
    split at h
    · simp only [Option.some.injEq, Prod.mk.injEq] at h; rw [← h.2]
    · split at h
      · cases h
      · simp only [Option.some.injEq, Prod.mk.injEq] at h; rw [← h.2]
  | nl =>
    simp only [findX] at h
    split at h
    · simp only [Option.some.injEq, Prod.mk.injEq] at h; rw [← h.2]
    · split at h
      · cases h
      · simp only [Option.some.injEq, Prod.mk.injEq] at h; rw [← h.2]

/-! ### `applyPatternX`, `handleInlineX` -/

def HISX (hi : HIX) : Prop :=
  ∀ d p x d' x', hi d p x = some (d', x') → SOk d = true → StashS x.st.stash →
    SOk d' = true ∧ StashS x'.st.stash

theorem hiOptX_S {hi : HIX} (hhi : HISX hi) {t t' : Option Str} {atomic : Bool} {pi : Nat} {x x' : XSt}
    (h : hiOptX hi t atomic pi x = some (t', x')) (ht : SOk (t.getD []) = true) (hs : StashS x.st.stash) :
    SOk (t'.getD []) = true ∧ StashS x'.st.stash := by
  unfold hiOptX at h
  split at h
  · split at h
    · rename_i d x1 hh
      simp only [Option.some.injEq, Prod.mk.injEq] at h
      obtain ⟨h1, h2⟩ := h; subst h1; subst h2
      exact hhi _ _ _ _ _ hh ht hs
    · cases h
  · simp only [Option.some.injEq, Prod.mk.injEq] at h
    obtain ⟨h1, h2⟩ := h; subst h1; subst h2
    exact ⟨ht, hs⟩

theorem hiNodeX_S {hi : HIX} (hhi : HISX hi) {pi : Nat} {n n' : Node} {x x' : XSt}
    (h : hiNodeX hi pi n x = some (n', x')) (hn : NodeS n) (hs : StashS x.st.stash) :
    NodeS n' ∧ n'.children = n.children ∧ StashS x'.st.stash := by
  unfold hiNodeX at h
  split at h
  · cases h
  · rename_i t x1 h1
    split at h
    · cases h
    · rename_i tl x2 h2
      simp only [Option.some.injEq, Prod.mk.injEq] at h
      obtain ⟨e1, e2⟩ := h; subst e1; subst e2
      obtain ⟨a1, a2⟩ := hiOptX_S hhi h1 hn.1 hs
      obtain ⟨b1, b2⟩ := hiOptX_S hhi h2 hn.2.1 a2
      exact ⟨⟨a1, b1, hn.2.2⟩, rfl, b2⟩

theorem hiNodeX_forall {hi : HIX} (hhi : HISX hi) {pi : Nat} {n n' : Node} {x x' : XSt}
    (h : hiNodeX hi pi n x = some (n', x')) (hn : n.Forall NodeS) (hs : StashS x.st.stash) :
    n'.Forall NodeS ∧ StashS x'.st.stash := by
  rw [Node.forall_iff] at hn ⊢
  obtain ⟨a, b, c⟩ := hiNodeX_S hhi h hn.1 hs
  exact ⟨⟨a, by rw [b]; exact hn.2⟩, c⟩

theorem hiNodesX_S {hi : HIX} (hhi : HISX hi) (pi : Nat) :
    ∀ (ns : List Node) (x : XSt) (ns' : List Node) (x' : XSt), hiNodesX hi pi ns x = some (ns', x') →
      (∀ n ∈ ns, n.Forall NodeS) → StashS x.st.stash → (∀ n ∈ ns', n.Forall NodeS) ∧ StashS x'.st.stash := by
  intro ns
  induction ns with
  | nil =>
    intro x ns' x' h _ hs
    simp only [hiNodesX, Option.some.injEq, Prod.mk.injEq] at h
    obtain ⟨e1, e2⟩ := h; subst e1; subst e2
    exact ⟨by simp, hs⟩
  | cons n r ih =>
    intro x ns' x' h hn hs
    simp only [hiNodesX] at h
    split at h
    · cases h
    · rename_i n1 x1 h1
      split at h
      · cases h
      · rename_i r1 x2 h2
        simp only [Option.some.injEq, Prod.mk.injEq] at h
        obtain ⟨e1, e2⟩ := h; subst e1; subst e2
        obtain ⟨a1, a2⟩ := hiNodeX_forall hhi h1 (hn n List.mem_cons_self) hs
        obtain ⟨b1, b2⟩ := ih _ _ _ h2 (fun m hm => hn m (List.mem_cons_of_mem _ hm)) a2
        refine ⟨?_, b2⟩
        intro m hm
        rcases List.mem_cons.1 hm with rfl | hm
        · exact a1
        · exact b1 m hm


def APSX (ap : Nat → Str → Nat → XSt → Option (Str × Bool × Nat × XSt)) : Prop :=
  ∀ pi d si x d' m si' x', ap pi d si x = some (d', m, si', x') → SOk d = true → StashS x.st.stash →
    SOk d' = true ∧ StashS x'.st.stash

theorem applyPatternX_S {xc : XCfg} (hx : XOK xc) {hi : HIX} (hhi : HISX hi) : APSX (applyPatternX xc hi) := by
  intro pi data si x d' m si' x' h hd hs
  unfold applyPatternX at h
  split at h
  · simp only [Option.some.injEq, Prod.mk.injEq] at h
    obtain ⟨e1, _, _, e⟩ := h; subst e; subst e1; exact ⟨hd, hs⟩
  · next k hk =>
    split at h
    · cases h
    · next x1 hf =>
      simp only [Option.some.injEq, Prod.mk.injEq] at h
      obtain ⟨e1, _, _, e⟩ := h; subst e; subst e1
      rw [findX_none_stashS hf]; exact ⟨hd, hs⟩
    · next f x1 hf =>
      obtain ⟨⟨c1, c2⟩, hfm⟩ := findX_S hx hd hs hf
      have hs1 : StashS x1.st.stash := by rw [hfm]; exact hs
      have hsplice : ∀ i, SOk (data.take f.start ++ placeholder i ++ pyDrop data f.stop) = true := fun i =>
        SOk_append (SOk_append (SOk_take hd _ c1) (placeholder_sok i)) (pyDrop_sok hd _)
      split at h
      · simp only [Option.some.injEq, Prod.mk.injEq] at h
        obtain ⟨e1, _, _, e⟩ := h; subst e; subst e1; exact ⟨hd, hs1⟩
      · next s hnode =>
        rw [hnode] at c2
        simp only [stashX, stashNode, Option.some.injEq, Prod.mk.injEq] at h
        obtain ⟨e1, _, _, e⟩ := h; subst e; subst e1
        exact ⟨hsplice _, stashS_push hs1 c2⟩
      · next n hnode =>
        rw [hnode] at c2
        have c2' : n.Forall NodeS := c2
        by_cases hat : (n.text.isSome && n.textAtomic) = true
        · simp only [hat, if_true, stashX, stashNode, Option.some.injEq, Prod.mk.injEq] at h
          obtain ⟨e1, _, _, e⟩ := h; subst e; subst e1
          exact ⟨hsplice _, stashS_push hs1 c2'⟩
        · simp only [hat, Bool.false_eq_true, if_false] at h
          cases h1 : hiNodeX hi pi { n with children := [] } x1 with
          | none => rw [h1] at h; cases h
          | some p1 =>
            obtain ⟨n1, xa⟩ := p1
            rw [h1] at h
            simp only at h
            cases h2 : hiNodesX hi pi n.children xa with
            | none => rw [h2] at h; cases h
            | some p2 =>
              obtain ⟨kids, xb⟩ := p2
              rw [h2] at h
              simp only [stashX, stashNode, Option.some.injEq, Prod.mk.injEq] at h
              obtain ⟨e1, _, _, e⟩ := h; subst e; subst e1
              rw [Node.forall_iff] at c2'
              obtain ⟨a1, _, a3⟩ := hiNodeX_S hhi h1 (n := { n with children := [] }) c2'.1 hs1
              obtain ⟨b1, b2⟩ := hiNodesX_S hhi _ _ _ _ _ h2 c2'.2 a3
              refine ⟨hsplice _, stashS_push b2 ?_⟩
              show ({ n1 with children := kids } : Node).Forall NodeS
              rw [Node.forall_iff]
              exact ⟨a1, b1⟩

theorem hiLoopX_S {count : Nat} {ap : Nat → Str → Nat → XSt → Option (Str × Bool × Nat × XSt)} (hap : APSX ap) :
    ∀ (g : Nat) (data : Str) (pi si : Nat) (x : XSt) (d' : Str) (x' : XSt),
      hiLoopX count ap g data pi si x = some (d', x') → SOk data = true → StashS x.st.stash →
      SOk d' = true ∧ StashS x'.st.stash := by
  intro g
  induction g with
  | zero => intro data pi si x d' x' h; simp [hiLoopX] at h
  | succ g ih =>
    intro data pi si x d' x' h hd hs
    simp only [hiLoopX] at h
    split at h
    · split at h
      · cases h
      · rename_i d m si1 x1 h1
        obtain ⟨a, b⟩ := hap _ _ _ _ _ _ _ _ h1 hd hs
        exact ih _ _ _ _ _ _ h a b
    · simp only [Option.some.injEq, Prod.mk.injEq] at h
      obtain ⟨e1, e⟩ := h; subst e; subst e1; exact ⟨hd, hs⟩

theorem handleInlineX_S {xc : XCfg} (hx : XOK xc) :
    ∀ (f : Nat), HISX (handleInlineX xc f) := by
  intro f
  induction f with
  | zero => intro d p x d' x' h; simp [handleInlineX] at h
  | succ f ih =>
    intro d p x d' x' h hd hs
    simp only [handleInlineX] at h
    exact hiLoopX_S (applyPatternX_S hx ih) _ _ _ _ _ _ _ h hd hs

theorem handleInlineTopX_S {xc : XCfg} (hx : XOK xc) {data : Str} {x : XSt} {d' : Str}
    {x' : XSt} (h : handleInlineTopX xc data x = some (d', x')) (hd : SOk data = true) (hs : StashS x.st.stash) :
    SOk d' = true ∧ StashS x'.st.stash :=
  handleInlineX_S hx _ _ _ _ _ _ h hd hs


/-! ### `runX` -/

theorem visitChildX_S {xc : XCfg} (hx : XOK xc) {child : Node} {v : VisitX} {c : Node}
    {tr : List Node} {v' : VisitX} (h : visitChildX xc child v = some (c, tr, v')) (hc : child.Forall NodeS)
    (hs : StashS v.x.st.stash) :
    c.Forall NodeS ∧ (∀ t ∈ tr, t.Forall NodeS) ∧ StashS v'.x.st.stash ∧ v'.done = v.done := by
  unfold visitChildX at h
  simp only [] at h
  split at h
  · cases h
  · rename_i c1 lst x1 hr1
    -- the text
    have q1 : StashS x1.st.stash ∧ (∀ t ∈ lst, t.Forall NodeS) ∧ c1.Forall NodeS := by
      split at hr1
      · split at hr1
        · cases hr1
        · rename_i data x2 hh
          obtain ⟨hd2, hs2⟩ := handleInlineTopX_S hx hh (forallS_text hc) hs
          split at hr1
          · cases hr1
          · rename_i l c' hp
            simp only [Option.some.injEq, Prod.mk.injEq] at hr1
            obtain ⟨e1, e2, e3⟩ := hr1; subst e1; subst e2; subst e3
            have q := ppTop_S _ hs2 _ _ _ _ _ _ hp hd2 (forallS_clearText hc)
            exact ⟨hs2, q.1, q.2⟩
      · simp only [Option.some.injEq, Prod.mk.injEq] at hr1
        obtain ⟨e1, e2, e3⟩ := hr1; subst e1; subst e2; subst e3
        exact ⟨hs, by simp, hc⟩
    split at h
    · cases h
    · rename_i c2 tr' x2 hr2
      simp only [Option.some.injEq, Prod.mk.injEq] at h
      obtain ⟨e1, e2, e3⟩ := h; subst e1; subst e2; subst e3
      -- the tail
      have q2 : StashS x2.st.stash ∧ (∀ t ∈ tr', t.Forall NodeS) ∧ c2.Forall NodeS := by
        split at hr2
        · split at hr2
          · cases hr2
          · rename_i data x3 hh
            have hs3 : SOk data = true ∧ StashS x3.st.stash := by
              split at hh
              · simp only [Option.some.injEq, Prod.mk.injEq] at hh
                obtain ⟨e0, e⟩ := hh; subst e; subst e0; exact ⟨forallS_tail q1.2.2, q1.1⟩
              · exact handleInlineTopX_S hx hh (forallS_tail q1.2.2) q1.1
            split at hr2
            · cases hr2
            · rename_i tr2 dumby hp
              simp only [Option.some.injEq, Prod.mk.injEq] at hr2
              obtain ⟨e1, e2, e3⟩ := hr2; subst e1; subst e2; subst e3
              have q := ppTop_S _ hs3.2 _ _ _ _ _ _ hp hs3.1 (nodeS_mkEl "d")
              refine ⟨hs3.2, q.1, ?_⟩
              split
              · rw [Node.forall_iff] at q1 ⊢
                exact ⟨⟨q1.2.2.1.1, forallS_tail (n := dumby) q.2, q1.2.2.1.2.2⟩, q1.2.2.2⟩
              · exact forallS_clearTail q1.2.2
        · simp only [Option.some.injEq, Prod.mk.injEq] at hr2
          obtain ⟨e1, e2, e3⟩ := hr2; subst e1; subst e2; subst e3
          exact ⟨q1.1, by simp, q1.2.2⟩
      refine ⟨?_, q2.2.1, ?_, ?_⟩
      · refine forallS_setChildren q2.2.2 ?_
        intro x hx
        rcases List.mem_append.1 hx with hx | hx
        · exact q1.2.1 x hx
        · exact forallS_children q2.2.2 x hx
      · split <;> exact q2.1
      · split <;> rfl

theorem visitLoopX_S {xc : XCfg} (hx : XOK xc) :
    ∀ (g : Nat) (todo : List (Node × Option Nat)) (v v' : VisitX), visitLoopX xc g todo v = some v' →
      (∀ x ∈ todo, x.1.Forall NodeS) → (∀ n ∈ v.done, n.Forall NodeS) → StashS v.x.st.stash →
      (∀ n ∈ v'.done, n.Forall NodeS) ∧ StashS v'.x.st.stash := by
  intro g
  induction g with
  | zero => intro todo v v' h; simp [visitLoopX] at h
  | succ g ih =>
    intro todo v v' h htodo hdone hs
    cases todo with
    | nil =>
      simp only [visitLoopX, Option.some.injEq] at h; subst h
      exact ⟨hdone, hs⟩
    | cons x todo =>
      obtain ⟨child, orig⟩ := x
      simp only [visitLoopX] at h
      split at h
      · cases h
      · rename_i c tr v1 hv
        have q := visitChildX_S hx hv (htodo (child, orig) List.mem_cons_self) hs
        refine ih _ _ _ h ?_ ?_ q.2.2.1
        · intro y hy
          rcases List.mem_append.1 hy with hy | hy
          · obtain ⟨n, hn, e⟩ := List.mem_map.1 hy
            subst e; exact q.2.1 n hn
          · exact htodo y (List.mem_cons_of_mem _ hy)
        · intro n hn
          rcases List.mem_cons.1 hn with e | hn
          · subst e; exact q.1
          · rw [q.2.2.2] at hn; exact hdone n hn

theorem nodeS_children_irrelX (n : Node) (l : List Node) (h : NodeS n) : NodeS { n with children := l } := h

theorem runLoopX_S {xc : XCfg} (hx : XOK xc) (g2 : Nat) :
    ∀ (g : Nat) (root : Node) (stack : List Path) (x : XSt) (root' : Node) (x' : XSt),
      runLoopX xc g2 g root stack x = some (root', x') → root.Forall NodeS → StashS x.st.stash →
      root'.Forall NodeS := by
  intro g
  induction g with
  | zero => intro root stack x root' x' h; simp [runLoopX] at h
  | succ g ih =>
    intro root stack x root' x' h hd hs
    cases stack with
    | nil =>
      simp only [runLoopX, Option.some.injEq, Prod.mk.injEq] at h
      obtain ⟨e, _⟩ := h; subst e; exact hd
    | cons p stack =>
      simp only [runLoopX] at h
      split at h
      · exact ih _ _ _ _ _ h hd hs
      · rename_i cur hcur
        split at h
        · cases h
        · rename_i v hv
          have hcurS := NoCtl.forall_getAt hd hcur
          have q := visitLoopX_S hx g2 _ { x := x } v hv
            (fun x hx => forallS_children hcurS x.1 (Vocab2.withIdx_fst _ _ _ hx))
            (by intro n hn; cases hn) hs
          refine ih _ _ _ _ _ h ?_ q.2
          refine NoCtl.forall_setAt nodeS_children_irrelX hd ?_ hcur
          exact forallS_setChildren hcurS (fun n hn => q.1 n (List.mem_reverse.1 hn))


end MdVerif.TokH
