/-
Helper lemmas for `Props/C16RenderG.lean`, part 36: ordinary paragraphs, THEN an admonition with several body
paragraphs, then ordinary paragraphs — the block stage.

Core Lean only.
-/
import MdVerif.Lemmas.RenderGAdm4
import MdVerif.Lemmas.RenderGQuote3
import MdVerif.Lemmas.RenderGDef6

namespace MdVerif.RenderG
open Py Block BlockExt MdVerif.RenderX

/-- the source: the paragraphs before, the admonition (header and first body block, further body blocks), the
    paragraphs after; all separated by empty lines -/
def admSrcB (tab : Nat) (pre : List Para) (kl : Str) (title : Option Str) (b : Para) (bs qs : List Para) : Str :=
  DocParse.joinChunks (pre.map pText ++ admSrc tab kl title (pLines b) :: (bs.map (bodyBlock tab) ++ qs.map pText))

/-- a further body block is appended to the admonition, whatever precedes the admonition -/
theorem dispatch_admBodyB (cfg : XCfg) (hadm : cfg.admonition = true) (tab : Nat) (htab : 0 < tab) (f : Nat)
    (refs : Refs) (K : List Node) (kl : Str) (ttl : Option Str) (texts : List Str) (p : Para) (hp : ParaOK p)
    (rest : List Str) :
    dispatchXT false cfg tab (parseBlocksXT false cfg tab (f + 1)) [] refs (rootOf (K ++ [admDivG kl ttl texts]))
        (bodyBlock tab p) rest =
      some (rootOf (K ++ [admDivG kl ttl (texts ++ [pText p])]), refs, rest) := by
  obtain ⟨hbang, h2, h3⟩ := bodyBlock_facts tab htab p hp
  have h1 : admSearch (bodyBlock tab p) = none := admSearch_none (contains_false_of_head _ hbang)
  have hlast : (rootOf (K ++ [admDivG kl ttl texts])).last? = some (admDivG kl ttl texts) := by
    simp [rootOf, Node.last?]
  have htest : admTest tab (rootOf (K ++ [admDivG kl ttl texts])) (bodyBlock tab p) = some (.sib 1 tab) := by
    simp only [admTest, h1, admContent, hlast, isAdmDiv_admDivG, if_true, admSibNode_flat tab _ 0 h2, h3]
    simp
  have hdetab : detab tab (bodyBlock tab p) = (pText p, []) :=
    CodeLaw.detab_indent tab (pLines p) (by simp [pLines]) (fun l hl => (hp l hl).noNl)
  have hnode : nodeAt 1 (rootOf (K ++ [admDivG kl ttl texts])) = admDivG kl ttl texts := by simp [nodeAt, hlast]
  have hli : ((admDivG kl ttl texts).isTag "li" || (admDivG kl ttl texts).isTag "dd") = false := by
    simp only [admDivG, Node.isTag, Node.el]; decide
  have hparse := parseChunkXT_plain cfg tab htab f [] (by decide) refs (admDivG kl ttl texts) p.1 p.2 hp
  simp only [dispatchXT, hadm, if_true, htest, admonitionP, hnode, hdetab, hli, Bool.false_and, Bool.false_eq_true,
    if_false]
  rw [show joinLines (p.1 :: p.2) = pText p from rfl] at hparse
  simp only [hparse, admDivG_append, List.isEmpty_nil, if_true, updPath, hlast]
  simp [rootOf, Node.setLast, Node.el]

theorem parse_admBodiesB (cfg : XCfg) (hadm : cfg.admonition = true) (tab : Nat) (htab : 0 < tab) (K : List Node)
    (kl : Str) (ttl : Option Str) :
    ∀ (bs : List Para) (texts : List Str) (refs : Refs) (f : Nat) (REST : List Str), (∀ p ∈ bs, ParaOK p) →
      parseBlocksXT false cfg tab (f + 2 + bs.length) [] refs (rootOf (K ++ [admDivG kl ttl texts]))
          (bs.map (bodyBlock tab) ++ REST) =
        parseBlocksXT false cfg tab (f + 2) [] refs (rootOf (K ++ [admDivG kl ttl (texts ++ bs.map pText)])) REST := by
  intro bs
  induction bs with
  | nil => intro texts refs f REST _; simp
  | cons p r ih =>
    intro texts refs f REST hp
    have hstep := dispatch_admBodyB cfg hadm tab htab (f + r.length + 1) refs K kl ttl texts p (hp p List.mem_cons_self)
      (r.map (bodyBlock tab) ++ REST)
    rw [show f + 2 + (p :: r).length = (f + r.length + 1 + 1) + 1 by simp; omega]
    simp only [List.map_cons, List.cons_append, parseBlocksXT, hstep]
    rw [show f + r.length + 1 + 1 = f + 2 + r.length by omega, ih _ refs f REST (fun x hx => hp x (List.mem_cons_of_mem _ hx))]
    simp

theorem parseDocumentXT_admB (cfg : XCfg) (hadm : cfg.admonition = true) (tab : Nat) (htab : tab > 0)
    (pre : List Para) (kl : Str)
    (title ttl : Option Str) (b : Para) (bs qs : List Para) (hpre : ∀ p ∈ pre, ParaOK p) (hk : PlainFacts kl)
    (ht : ∀ t, title = some t → ∀ c ∈ t, c ≠ '\n' ∧ c ≠ '"') (hb : ParaOK b) (hbs : ∀ p ∈ bs, ParaOK p)
    (hqs : ∀ p ∈ qs, ParaOK p) (hcl : admClassTitle kl title = (kl, ttl)) :
    parseDocumentXT false cfg tab (admSrcB tab pre kl title b bs qs ++ ['\n', '\n']) =
      some (rootOf (pNodes pre ++ admDivG kl ttl (pText b :: bs.map pText) :: pNodes qs), []) := by
  -- the blocks
  have hnelp : ∀ (ps : List Para), (∀ p ∈ ps, ParaOK p) → ∀ x ∈ ps.map pText, Escape.noEmptyLineFrom true x = true := by
    intro ps hps x hx
    obtain ⟨p, hp, rfl⟩ := List.mem_map.1 hx
    apply nel_block _ (by simp)
    intro l hl
    exact ⟨(hps p hp l hl).ne, (hps p hp l hl).noNl⟩
  have hnel : ∀ x ∈ pre.map pText ++ admSrc tab kl title (pLines b) :: (bs.map (bodyBlock tab) ++ qs.map pText),
      Escape.noEmptyLineFrom true x = true := by
    intro x hx
    rcases List.mem_append.1 hx with hx | hx
    · exact hnelp pre hpre x hx
    rcases List.mem_cons.1 hx with rfl | hx
    · apply nel_block _ (by simp)
      intro l hl
      rcases List.mem_cons.1 hl with rfl | hl
      · exact ⟨by simp [admHeader], nl_not_mem_header kl title hk ht⟩
      · obtain ⟨y, hy, rfl⟩ := List.mem_map.1 hl
        exact indentLine_facts tab y (hb y hy)
    · rcases List.mem_append.1 hx with hx | hx
      · obtain ⟨p, hp, rfl⟩ := List.mem_map.1 hx
        apply nel_block _ (by simp [CodeLaw.indentLines, pLines])
        intro l hl
        obtain ⟨y, hy, rfl⟩ := List.mem_map.1 hl
        exact indentLine_facts tab y (hbs p hp y hy)
      · exact hnelp qs hqs x hx
  have hsplit := DocParse.splitS_chunks _ (by simp) hnel
  have hlen : pre.length + bs.length + qs.length ≤ (admSrcB tab pre kl title b bs qs).length := by
    have h1 := sum_le_joinChunks (pre.map pText ++ admSrc tab kl title (pLines b) :: (bs.map (bodyBlock tab) ++ qs.map pText))
    have h2 := length_le_sum_pText pre hpre
    have h3 := length_le_sum_pText qs hqs
    have h4 : bs.length ≤ ((bs.map (bodyBlock tab)).map List.length).sum := by
      have : ∀ (cs : List Para), (∀ p ∈ cs, ParaOK p) → cs.length ≤ ((cs.map (bodyBlock tab)).map List.length).sum := by
        intro cs
        induction cs with
        | nil => intro _; simp
        | cons p r ih =>
          intro h
          have := ih (fun x hx => h x (List.mem_cons_of_mem _ hx))
          obtain ⟨a, Y, _, hY⟩ := bodyBlock_start tab p (h p List.mem_cons_self)
          have hl : 1 ≤ (bodyBlock tab p).length := by rw [hY]; simp only [List.length_append, List.length_cons]; omega
          simp only [List.map_cons, List.sum_cons, List.length_cons]
          omega
      exact this bs hbs
    simp only [List.map_append, List.map_cons, List.sum_append, List.sum_cons] at h1
    unfold admSrcB
    omega
  obtain ⟨f, hf⟩ : ∃ f, fuelForX (admSrcB tab pre kl title b bs qs ++ ['\n', '\n']).length =
      ((f + qs.length + 2 + bs.length) + 1) + pre.length := by
    refine ⟨fuelForX (admSrcB tab pre kl title b bs qs ++ ['\n', '\n']).length - (qs.length + bs.length + pre.length + 3), ?_⟩
    simp only [fuelForX, List.length_append]
    omega
  have h1 := dispatch_admHeadP cfg hadm tab htab kl title ttl b hk ht hb hcl (f + qs.length + 2 + bs.length - 1) []
    (by decide) [] (rootOf (pNodes pre)) (bs.map (bodyBlock tab) ++ (qs.map pText ++ [[]]))
  rw [show f + qs.length + 2 + bs.length - 1 + 1 = f + qs.length + 2 + bs.length by omega] at h1
  simp only [parseDocumentXT, parseChunk]
  rw [show admSrcB tab pre kl title b bs qs = DocParse.joinChunks (pre.map pText ++ admSrc tab kl title (pLines b) ::
    (bs.map (bodyBlock tab) ++ qs.map pText)) from rfl] at hf ⊢
  rw [hsplit, hf]
  rw [show (Node.el "div" : Node) = rootOf [] from rfl]
  simp only [List.append_assoc]
  rw [parse_paras cfg tab htab pre [] [] _ _ hpre]
  simp only [List.nil_append, List.cons_append, List.append_assoc, parseBlocksXT]
  rw [show pre.map (fun p => mkText "p" (pText p)) = pNodes pre from rfl, h1]
  simp only []
  rw [show (rootOf (pNodes pre)).append (admDivG kl ttl [pText b]) = rootOf (pNodes pre ++ [admDivG kl ttl [pText b]]) from rfl,
    parse_admBodiesB cfg hadm tab htab (pNodes pre) kl ttl bs [pText b] [] (f + qs.length) _ hbs,
    show f + qs.length + 2 = (f + 2) + qs.length by omega,
    parse_paras cfg tab htab qs _ [] (f + 2) _ hqs,
    parse_end cfg tab htab f [] _ (by
      intro c hc
      simp only [rootOf, Node.last?, Node.el] at hc
      rcases List.mem_append.1 (List.mem_of_getLast? hc) with h | h
      · rcases List.mem_append.1 h with h | h
        · obtain ⟨p, _, rfl⟩ := List.mem_map.1 h
          exact preCode_p _
        · simp only [List.mem_singleton] at h
          subst h; exact preCode_admDivG _ _ _
      · obtain ⟨p, _, rfl⟩ := List.mem_map.1 h
        exact preCode_p _)]
  simp [pNodes]

end MdVerif.RenderG
