/-
Helper lemmas for `Props/C02Big.lean`, section 11: `Markdown.convert` does not raise WITH fenced_code (footnotes, abbr,
attr_list, toc off; `tab_length ≥ 1`), and returns a string.

* `dom2_s`, `block_stage_own_s` — a second instance of fc2's block-stage invariant (`Dom2`), with the strings of the tree
  in the class "every STX is followed by `k`, `w` or a complete escape token" (`TokFull.SOk`): a raw-HTML placeholder
  `STX wzxhzdk:n ETX` qualifies, so the tree of the block stage is in the domain of the STX-token invariant;
* `treeXBig_ne_err_fenced`, `convertXBig_ne_err_fenced` — `UnescapeTreeprocessor` meets complete tokens and `STX w…`
  only; the root is the bare `div`;
* `convertXBig_ne_oof_fenced_wiki`, `convertXBig_ok_fenced`.
Core Lean only.
-/
import MdVerif.Lemmas.C02BigFAll
import MdVerif.Lemmas.C02BigShAll

namespace MdVerif.NoCtlXF.XT
variable [MdVerif.NoCtlF.HtmlBound]
set_option linter.unusedSectionVars false
open Py
open MdVerif.NoCtl (STX ETX NoCtl NoPair Blk.AllC)
open MdVerif.NoCtl.BlkB (PL pl_cons pl_one pl_nil)
open MdVerif.NoCtl.BlkX (TX LogC XInv)
open MdVerif.NoCtl.BlkXT
open MdVerif.NoCtlF (HtmlBound nn NlOpt BeforeTok AfterTok OwnBlock TokBlock)

/-- strings of the tree: every STX is followed by `k`, `w` or a complete escape token -/
abbrev Ts : Str → Prop := fun s => TokFull.SOk s = true

theorem ts_of_bq {s : Str} (h : Bq s) : Ts s := TokFull.SOk_of_noCtl (noCtl_of_bq h)

theorem ts_placeholder (n : Nat) : Ts (Fenced.placeholder n) := by
  have hrest : TokFull.STX ∉ "zxhzdk:".toList ++ natToDec n ++ [Char.ofNat 3] := by
    intro hm
    simp only [List.mem_append, List.mem_cons, List.not_mem_nil, or_false] at hm
    rcases hm with (hm | hm) | hm
    · revert hm; decide
    · have := natToDec_digits n _ hm
      revert this; decide
    · revert hm; decide
  have e : Fenced.placeholder n = TokFull.STX :: 'w' :: ("zxhzdk:".toList ++ natToDec n ++ [Char.ofNat 3]) := by
    simp [Fenced.placeholder]; rfl
  rw [e]
  exact TokFull.SOk_stx_letter (.inr rfl) hrest

theorem ts_nlOpt {a : Str} (h : NlOpt a) : Ts a := by
  rcases h with rfl | rfl <;> decide

theorem ts_tokBlock {x : Str} (h : TokBlock HtmlBound.h x) : Ts x := by
  obtain ⟨n, a, b, _, ha, hb, rfl⟩ := h
  exact TokFull.SOk_append (TokFull.SOk_append (ts_nlOpt ha) (ts_placeholder n)) (ts_nlOpt hb)

theorem ts_join {a b : Str} (ha : Ts a) (hb : Ts b) : Ts (a ++ '\n' :: b) :=
  TokFull.SOk_append ha (by show TokFull.SOk ('\n' :: b) = true; rw [TokFull.SOk_cons_ne (by decide)]; exact hb)

theorem ts_lines : ∀ s : Str, Ts s → PL Ts (Py.lines s) := by
  apply MdVerif.Letters.lines_induction
  · intro a ha _ l hl
    rw [MdVerif.Letters.lines_of_no_nl ha] at hl
    simp only [List.mem_cons, List.not_mem_nil, or_false] at hl
    subst hl; assumption
  · intro a r ha ih hs l hl
    rw [MdVerif.Letters.lines_append_nl ha] at hl
    have h1 : TokFull.SOk a = true := TokFull.SOk_left hs (by
      intro c hc
      simp only [List.head?_cons, Option.some.injEq] at hc
      subst hc; decide)
    have h2 : TokFull.SOk r = true := by
      have := TokFull.SOk_right hs
      rwa [TokFull.SOk_cons_ne (by decide)] at this
    rcases List.mem_cons.1 hl with rfl | hl
    · exact h1
    · exact ih h2 l hl

/-- **the string classes of the block stage with raw-HTML placeholders, for the STX-token invariant** -/
theorem dom2_s : Dom2 NoCtl.Blk.okc NoCtl.Blk.okc Bq Ts Rq where
  b := C02BigX.strDomX_okc
  sub := fun _ h => ts_of_bq h
  rOf := fun _ h => .inl h
  rSp := dom2_q.rSp
  join := fun _ _ ha hb => ts_join ha (ts_of_bq hb)
  lstrip := fun _ h => TokFull.SOk_lstrip h
  lines := ts_lines

theorem tok_step_s {tables : Bool} {cfg : BlockExt.XCfg} {tab : Nat} (htab : 0 < tab) {pb : Block.PB}
    (_hpb : PresT NoCtl.Blk.okc NoCtl.Blk.okc Bq Ts Rq pb) {state : List Block.BState} {refs : Block.Refs}
    {parent : Node} {b : Str} {rest : List Str} {r : Node × Block.Refs × List Str}
    (hP : TX NoCtl.Blk.okc NoCtl.Blk.okc Ts parent) (hA : parent.textAtomic = false)
    (hR : LogC NoCtl.Blk.okc Bq refs)
    (hb : TokBlock HtmlBound.h b) (hrest : PL Rq rest)
    (hr : BlockExt.dispatchXT tables cfg tab pb state refs parent b rest = some r) :
    ResT NoCtl.Blk.okc NoCtl.Blk.okc Bq Ts Rq r := by
  have hbT := ts_tokBlock hb
  obtain ⟨n, a, e, hn, ha, he, rfl⟩ := hb
  obtain ⟨w, hw⟩ := placeholder_cons n
  have hch := tokCh_placeholder n
  rw [hw] at hch
  rcases ha with rfl | rfl
  · -- the paragraph
    have e1 : [] ++ Fenced.placeholder n ++ e = STX :: w ++ e := by rw [hw]; rfl
    rw [e1] at hr hbT
    rw [dispatchXT_tokline tables cfg tab htab pb state refs parent STX w e rest hch (by decide) (by decide) he] at hr
    cases hr
    refine paraP_gen dom2_s.tnil hP hA hR (fun a' ha' => ts_join ha' hbT) ?_ hrest
    rw [show STX :: w ++ e = STX :: (w ++ e) from rfl, lstrip_of_head (by decide)]
    exact hbT
  · -- the line feed in front
    have e1 : ['\n'] ++ Fenced.placeholder n ++ e = '\n' :: (STX :: w) ++ e := by rw [hw]; rfl
    rw [e1] at hr
    rw [dispatchXT_nl_tokline tables cfg tab htab pb state refs parent (STX :: w) e rest hch he] at hr
    cases hr
    refine emptyP_t dom2_s hP hA hR ?_ hrest
    refine .inr ⟨n, [], e, hn, .inl rfl, he, ?_⟩
    rw [hw]; rfl

theorem parseBlocksXT_pres_s (tables : Bool) (cfg : BlockExt.XCfg) {tab : Nat} (htab : 0 < tab) (f : Nat) :
    PresT NoCtl.Blk.okc NoCtl.Blk.okc Bq Ts Rq (BlockExt.parseBlocksXT tables cfg tab f) :=
  parseBlocksXT_pres_of tables cfg tab (fun pb hpb state refs parent b rest r hP hA hR hb hrest hd => by
    rcases hb with hb | hb
    · exact dispatchXT_t dom2_s hpb hP hA hR hb hrest hd
    · exact tok_step_s htab hpb hP hA hR hb hrest hd) f

/-- **the block stage with fenced_code keeps the STX-token invariant**: in every tail and non-atomic text of the tree
    every STX is followed by `k`, `w` or a complete escape token; attributes, atomic texts and the log have no STX/ETX -/
theorem block_stage_own_s (tables : Bool) (xc : BlockExt.XCfg) {tab : Nat} (htab : 0 < tab) {text : Str}
    (ho : OwnBlock HtmlBound.h text) {root : Node} {log : Block.Refs}
    (hr : BlockExt.parseDocumentXT tables xc tab text = some (root, log)) :
    root.Forall (XInv NoCtl.Blk.okc NoCtl.Blk.okc Ts) ∧ LogC NoCtl.Blk.okc Bq log := by
  obtain ⟨o1, _, o3⟩ := parseBlocksXT_pres_s tables xc htab _ _ _ _ _ _
    (NoCtl.BlkX.tx_el dom2_s.tnil "div" (by decide)) rfl NoCtl.BlkX.logC_nil (pl_splitS_own_q ho) hr
  exact ⟨o1, o3⟩

end MdVerif.NoCtlXF.XT

namespace MdVerif.C02BigX
open Py Pipeline PipelineX NoCtl C02BigSh

theorem nodeS_of_xinv {n : Node} (h : BlkX.XInv Blk.okc Blk.okc NoCtlXF.XT.Ts n) : TokFull.NodeS n := by
  obtain ⟨hn, _⟩ := h
  refine ⟨?_, hn.tail, fun kv hkv => TokFull.SOkA_of_noSTX (allC_okc (hn.attrs kv hkv).2).1⟩
  have ht := hn.text
  by_cases hat : n.textAtomic = true
  · rw [if_pos hat] at ht
    exact TokFull.SOk_of_noCtl (allC_okc ht)
  · rw [if_neg hat] at ht
    exact ht

/-- the tree and the log of the block stage with fenced_code (no footnotes): in the domain of the STX-token invariant -/
theorem blockStageX_tokF {x : Exts} {cfg : Cfg} {src : Str} (hf : x.fencedCode = true) (hfn : x.footnotes = false)
    (htab : 0 < cfg.tab) {root : Node} {log : Block.Refs} {stash : List Str}
    (h : blockStageX x cfg src = .ok (root, log, stash)) :
    root.Forall TokFull.NodeS ∧ BlkX.LogC Blk.okc (Blk.AllC Blk.okc) log := by
  simp only [blockStageX] at h
  split at h
  · cases h
  · cases h
  · next text stash' hp =>
    obtain ⟨hown, _, _⟩ := prepareX_fenced hf hp
    split at h
    · cases h
    · next root0 log0 hpd =>
      letI : NoCtlF.HtmlBound := ⟨stash'.length, false, false⟩
      obtain ⟨hroot0, hlog0⟩ := NoCtlXF.XT.block_stage_own_s x.tables x.blockCfg htab hown hpd
      simp only [fnStageX, hfn, Bool.false_eq_true, if_false, FootnotesTree.R.ok.injEq, Prod.mk.injEq] at h
      obtain ⟨rfl, rfl, rfl⟩ := h
      exact ⟨Node.Forall.mono (fun _ hn => nodeS_of_xinv hn) root0 hroot0, hlog0⟩

/-- **`UnescapeTreeprocessor` does not raise with fenced_code** (footnotes, abbr, attr_list, toc off;
    `tab_length ≥ 1`) -/
theorem treeXBig_ne_err_fenced {x : Exts} (hf : x.fencedCode = true) (hfn : x.footnotes = false) (hab : x.abbr = false)
    (hal : x.attrList = false) (htoc : x.toc = false) (cfg : Cfg) (src : Str) (htab : 0 < cfg.tab) :
    treeXBig x cfg src ≠ .err := by
  unfold treeXBig
  cases hb : blockStageX x cfg src with
  | oof => intro h; cases h
  | ood => intro h; cases h
  | ok r =>
    obtain ⟨root, log, stash⟩ := r
    obtain ⟨hS0, hlog⟩ := blockStageX_tokF hf hfn htab hb
    simp only
    cases hr : runXBig (inlineCfgX x cfg log) root stash with
    | none => intro h; cases h
    | some ts =>
      obtain ⟨t, xs⟩ := ts
      simp only
      have hS : t.Forall TokFull.NodeS :=
        TokFull.runLoopX_S (xok_inlineCfgX x cfg hlog) _ _ _ _ _ _ _ hr hS0 TokFull.stashS_nil
      have hu := TokFull.unescapeTree_S (TokFull.prettify_S hS cfg.blockLevel)
      rw [lateStageX_simple hfn hab hal htoc]
      cases hun : TreeProc.unescapeTree (TreeProc.prettify t cfg.blockLevel) with
      | none => rw [hun] at hu; cases hu
      | some u => intro h; cases h

/-- `convertXBig = err` comes from `treeXBig = err` or from the strip -/
theorem convertXBig_err_cases {x : Exts} {cfg : Cfg} {src : Str} (h : convertXBig x cfg src = .err) :
    treeXBig x cfg src = .err ∨
      ∃ u html, treeXBig x cfg src = .ok u html ∧ Post.topLevelStrip (Ser.serialize cfg.fmt u) = none := by
  unfold convertXBig at h
  split at h
  · cases h
  · split at h
    · cases h
    · split at h
      · cases h
      · cases ht : treeXBig x cfg src with
        | oof => rw [ht] at h; cases h
        | err => exact .inl rfl
        | ood => rw [ht] at h; cases h
        | ok u html =>
          rw [ht] at h
          simp only [finishX] at h
          refine .inr ⟨u, html, rfl, ?_⟩
          cases hs : Post.topLevelStrip (Ser.serialize cfg.fmt u) with
          | none => rfl
          | some s0 =>
            rw [hs] at h
            simp only at h
            split at h <;> cases h

/-- **`Markdown.convert` does not raise with fenced_code** -/
theorem convertXBig_ne_err_fenced {x : Exts} (hf : x.fencedCode = true) (hfn : x.footnotes = false)
    (hab : x.abbr = false) (hal : x.attrList = false) (htoc : x.toc = false) (cfg : Cfg) (src : Str)
    (htab : 0 < cfg.tab) : convertXBig x cfg src ≠ .err := by
  intro h
  rcases convertXBig_err_cases h with ht | ⟨u, html, ht, hs⟩
  · exact treeXBig_ne_err_fenced hf hfn hab hal htoc cfg src htab ht
  · rw [C14X.topLevelStrip_div _ u (treeXBig_rootDiv hfn hab hal htoc ht)] at hs
    cases hs

/-- **`convertXBig` never answers `oof` with fenced_code, wikilinks on or off** (source without `[` before a blank;
    `tab_length ≥ 1`) -/
theorem convertXBig_ne_oof_fenced_wiki {x : Exts} {cfg : Cfg} (src : Str) (hs : WikiSrc cfg src)
    (hf : x.fencedCode = true) (htab : 0 < cfg.tab) : convertXBig x cfg src ≠ .oof := by
  unfold convertXBig
  split
  · intro h; cases h
  · split
    · intro h; cases h
    · split
      · intro h; cases h
      · unfold treeXBig
        cases hb : blockStageX x cfg src with
        | oof => exact absurd hb (blockStageX_ne_oof x cfg src (fun _ => htab))
        | ood => intro h; cases h
        | ok r =>
          obtain ⟨root, log, stash⟩ := r
          obtain ⟨hdeep, hst⟩ := blockStageX_deepF hf htab hb
          have hw := blockStageX_okw hs hb
          obtain ⟨⟨t, xs⟩, hr⟩ := runXBig_total_wiki (x := x) cfg log stash hdeep hw
          have hent := runXBig_html_lt hst hr
          simp only [hr]
          cases hl : lateStageX x cfg log t xs with
          | oof =>
            exfalso
            obtain ⟨-, t', -, -, s, hs'⟩ := lateStageX_oof hl
            exact rawHtml_ne_noneL hent s hs'
          | err => intro h; cases h
          | ood => intro h; cases h
          | ok u html =>
            have := lateStageX_ok hl
            subst this
            simp only [finishX]
            split
            · intro h; cases h
            · next s0 _ =>
              cases hp : postX x cfg xs.st.html s0 with
              | none => exact absurd hp (postX_ne_noneL x cfg hent s0)
              | some r => intro h; cases h

/-- **C02 with fenced_code: `convertXBig` returns a string** — fenced_code on; tables, admonition, def_list, sane_lists,
    nl2br, wikilinks on or off; footnotes, abbr, attr_list, toc off; `tab_length ≥ 1`; every source without `<`
    of the model's domain in whose normalised text, when wikilinks is on, no `[` is immediately followed by a blank -/
theorem convertXBig_ok_fenced {x : Exts} (hf : x.fencedCode = true) (hfn : x.footnotes = false) (hab : x.abbr = false)
    (hal : x.attrList = false) (htoc : x.toc = false) (cfg : Cfg) (src : Str) (hlt : '<' ∉ src)
    (htab : 0 < cfg.tab)
    (hadm : x.admonition = true → admNonAscii (Normalize.normalize cfg.tab src) = false)
    (hw : x.wikilinks = true → WikiSrc cfg src) : ∃ out, convertXBig x cfg src = .ok out := by
  have h1 : convertXBig x cfg src ≠ .oof := by
    cases hwl : x.wikilinks with
    | true => exact convertXBig_ne_oof_fenced_wiki src (hw hwl) hf htab
    | false => exact convertXBig_ne_oof_fenced src hwl hf htab
  have h2 := convertXBig_ne_err_fenced hf hfn hab hal htoc cfg src htab
  have h3 := convertXBig_ne_ood hfn hab hal htoc hlt hadm
  cases hc : convertXBig x cfg src with
  | ok out => exact ⟨out, rfl⟩
  | oof => exact absurd hc h1
  | err => exact absurd hc h2
  | ood => exact absurd hc h3

end MdVerif.C02BigX
