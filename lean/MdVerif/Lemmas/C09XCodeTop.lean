/-
Helper lemmas for `Props/C09XCode.lean` (C09 on the extension pipeline, trailing blank lines behind a document that
ends in a code block), part 1: what the EXTENDED block parser `BlockExt.parseBlocksXT` leaves at the top level.

`Lemmas/NormalizeDocCode.lean` §1 (core parser) lifted to the extended dispatcher: the tag of the parent is kept
(`parseBlocksXT_tag`), and every `pre` child of the root of a parsed document is a code block
`pre[code(atomic text)]` without text, tail and further children (`parseDocumentXT_top`).  The lemmas about the core
processors (`emptyP`, `codeP`, `hashP`, `setextP`, `hrP`, `listP`, `quoteP`, `indentP`, `paraP`) take the recursive
call as a parameter and are reused; new here: the parameterised list processors `listPX`, `indentPX` (sane lists,
definition-list indent), `defListP`, `admonitionP`, `tableP`, and the walk through `dispatchXT`.
Core Lean only.
-/
import MdVerif.Lemmas.NormalizeDocCode
import MdVerif.Lemmas.C02BigShBlock

namespace MdVerif.C09XCode
open Py Block BlockExt NormDoc
set_option linter.unusedSimpArgs false
set_option linter.unusedVariables false

/-! ### 1a. the extended block loop keeps the tag of the parent -/

theorem listPX_tag {pb : PB} (h : PBTag pb) {lp : ListParams} {tab st refs p b rest tag q r bl}
    (e : listPX lp tab pb st refs p b rest tag = some (q, r, bl)) : q.tag = p.tag := by
  simp only [listPX] at e
  split at e
  · split at e
    · cases e
    · split at e
      · injection e with e; injection e with e _; subst e; rfl
      · cases e
  · split at e
    · split at e
      · rename_i hl
        injection e with e; injection e with e _; subst e
        exact listItems_tag h hl
      · cases e
    · split at e
      · injection e with e; injection e with e _; subst e; rfl
      · cases e

theorem indentPX_tag {pb : PB} (h : PBTag pb) {isL isI : Node → Bool} {itemTag : String} {tab st refs p b rest q r bl}
    (e : indentPX isL isI itemTag tab pb st refs p b rest = some (q, r, bl)) : q.tag = p.tag := by
  simp only [indentPX] at e
  split at e
  · split at e
    · split at e
      · injection e with e; injection e with e _; subst e; rfl
      · cases e
    · split at e
      · rename_i hp
        injection e with e; injection e with e _; subst e
        exact h _ _ _ _ _ _ hp
      · cases e
  · split at e
    · split at e
      · rename_i sub r' hp
        injection e with e; injection e with e _; subst e
        apply updPath_tag'
        intro hk
        have := h _ _ _ _ _ _ hp
        rw [hk, nodeAt_zero] at this
        exact this
      · cases e
    · split at e
      · split at e
        · injection e with e; injection e with e _; subst e
          exact updPath_tag' _ _ _ (fun _ => rfl)
        · cases e
      · split at e
        · injection e with e; injection e with e _; subst e
          exact updPath_tag' _ _ _ (fun _ => rfl)
        · cases e

theorem defListP_tag {pb : PB} {tab st refs p b rest m q r bl}
    (e : defListP tab pb st refs p b rest m = some (some (q, r, bl))) : q.tag = p.tag := by
  obtain ⟨s0, en, g2⟩ := m
  simp only [defListP] at e
  generalize (List.filter (fun t => !List.isEmpty t) (List.map strip (lines (List.take s0 b)))) = terms0 at e
  split at e
  · split at e
    · cases e
    · injection e with e
      split at e
      · injection e with e; injection e with e _; subst e; rfl
      · cases e
  · rename_i sibling hsib
    injection e with e
    generalize hpar : (if (terms0.isEmpty && sibling.isTag "p") = true then dropLastChild p else p) = par at e
    have spar : par.tag = p.tag := by
      rw [← hpar]; split <;> rfl
    split at e
    · split at e
      · injection e with e; injection e with e _; subst e; exact spar
      · cases e
    · split at e
      · injection e with e; injection e with e _; subst e; exact spar
      · cases e

theorem admonitionP_tag {pb : PB} (h : PBTag pb) {tab st refs p b rest hit q r bl}
    (e : admonitionP tab pb st refs p b rest hit = some (q, r, bl)) : q.tag = p.tag := by
  cases hit with
  | re s0 en g1 g2 =>
    simp only [admonitionP, parseChunk] at e
    split at e
    · cases e
    · rename_i p1 refs1 h1
      have s1 : p1.tag = p.tag := by
        split at h1
        · exact h _ _ _ _ _ _ h1
        · injection h1 with h1; injection h1 with h1 _; subst h1; rfl
      split at e
      · injection e with e; injection e with e _; subst e
        exact s1
      · cases e
  | sib steps indent =>
    simp only [admonitionP, parseChunk] at e
    split at e
    · rename_i dv refs1 h1
      injection e with e; injection e with e _; subst e
      apply updPath_tag'
      intro hk
      have := h _ _ _ _ _ _ h1
      rw [hk, nodeAt_zero] at this
      rw [this]
      split <;> rfl
    · cases e

section tails
variable {cfg : XCfg} {tab : Nat} {pb : PB} {st : List BState} {refs : Refs} {p : Node} {b : Str}
  {rest : List Str} {q : Node} {r : Refs} {bl : List Str}

theorem tailRef_tag (e : tailRef st refs p b rest = some (q, r, bl)) : q.tag = p.tag := by
  simp only [tailRef] at e
  split at e
  · rename_i m _; injection e with e; have := referenceP_tag refs p b rest m; rw [e] at this; exact this
  · injection e with e; have := paraP_tag st refs p b rest; rw [e] at this; exact this

theorem tailAbbr_tag (e : tailAbbr cfg st refs p b rest = some (q, r, bl)) : q.tag = p.tag := by
  simp only [tailAbbr] at e
  split at e
  · split at e
    · injection e with e; injection e with e _; subst e; rfl
    · cases e
    · exact tailRef_tag e
  · exact tailRef_tag e

theorem tailFootnote_tag (e : tailFootnote cfg st refs p b rest = some (q, r, bl)) : q.tag = p.tag := by
  simp only [tailFootnote] at e
  split at e
  · split at e
    · injection e with e; injection e with e _; subst e; rfl
    · exact tailAbbr_tag e
  · exact tailAbbr_tag e

theorem tailQuote_tag (h : PBTag pb) (e : tailQuote cfg pb st refs p b rest = some (q, r, bl)) : q.tag = p.tag := by
  simp only [tailQuote] at e
  split at e
  · exact quoteP_tag h e
  · exact tailFootnote_tag e

theorem tailDef_tag (h : PBTag pb) (e : tailDef cfg tab pb st refs p b rest = some (q, r, bl)) : q.tag = p.tag := by
  simp only [tailDef] at e
  split at e
  · split at e
    · split at e
      · rename_i hd; subst e; exact defListP_tag hd
      · exact tailQuote_tag h e
    · exact tailQuote_tag h e
  · exact tailQuote_tag h e

theorem tailList_tag (h : PBTag pb) (e : tailList cfg tab pb st refs p b rest = some (q, r, bl)) : q.tag = p.tag := by
  simp only [tailList] at e
  split at e
  · split at e
    · exact listPX_tag h e
    · exact listP_tag h e
  · split at e
    · split at e
      · exact listPX_tag h e
      · exact listP_tag h e
    · exact tailDef_tag h e

end tails

theorem tailEmptyT_tag {tables : Bool} {cfg : XCfg} {tab : Nat} {pb : PB} (h : PBTag pb) {st refs p b rest q r bl}
    (e : tailEmptyT tables cfg tab pb st refs p b rest = some (q, r, bl)) : q.tag = p.tag := by
  unfold tailEmptyT at e
  cases hl : p.last? <;> rw [hl] at e <;> dsimp only at e
  all_goals
    split at e
    · injection e with e; have := emptyP_tag refs p b rest; rw [e] at this; exact this
    · split at e
      · exact indentP_tag h e
      · split at e
        · exact indentPX_tag h e
        · split at e
          · injection e with e; have := codeP_tag tab refs p b rest; rw [e] at this; exact this
          · split at e
            · injection e with e; injection e with e _; subst e; rfl
            · split at e
              · exact hashP_tag h e
              · split at e
                · injection e with e; have := setextP_tag refs p b rest; rw [e] at this; exact this
                · split at e
                  · exact hrP_tag h e
                  · exact tailList_tag h e

theorem dispatchXT_tag {tables : Bool} {cfg : XCfg} {tab : Nat} {pb : PB} (h : PBTag pb) {st refs p b rest q r bl}
    (e : dispatchXT tables cfg tab pb st refs p b rest = some (q, r, bl)) : q.tag = p.tag := by
  simp only [dispatchXT] at e
  split at e
  · exact admonitionP_tag h e
  · exact tailEmptyT_tag h e

theorem parseBlocksXT_tag (tables : Bool) (cfg : XCfg) (tab : Nat) : ∀ f, PBTag (parseBlocksXT tables cfg tab f)
  | 0 => by
    intro st refs p bs q r e
    cases bs with
    | nil => simp [parseBlocksXT] at e; rw [← e.1]
    | cons b rest => simp [parseBlocksXT] at e
  | f + 1 => by
    have ih := parseBlocksXT_tag tables cfg tab f
    intro st refs p bs
    induction bs generalizing refs p with
    | nil => intro q r e; simp [parseBlocksXT] at e; rw [← e.1]
    | cons b rest _ =>
      intro q r e
      rw [parseBlocksXT] at e
      split at e
      · rename_i p' r' bl hd
        exact (ih _ _ _ _ _ _ e).trans (dispatchXT_tag ih hd)
      · cases e

/-! ### 1b. every `pre` child of the root is a code block -/

theorem ne_pre_of_isSib {lp : ListParams} {n : Node} (h : lp.isSib n = true) : n.tag ≠ preTag := by
  simp only [ListParams.isSib, Bool.or_eq_true, Bool.and_eq_true] at h
  rcases h with h | h <;> rw [isTag_eq h.2] <;> decide

theorem ne_pre_of_isListTagD {n : Node} (h : isListTagD n = true) : n.tag ≠ preTag := by
  simp only [isListTagD, Bool.or_eq_true] at h
  rcases h with (h | h) | h <;> rw [isTag_eq h] <;> decide

theorem ne_pre_of_isItemTagD {n : Node} (h : isItemTagD n = true) : n.tag ≠ preTag := by
  simp only [isItemTagD, Bool.or_eq_true] at h
  rcases h with h | h <;> rw [isTag_eq h] <;> decide

theorem listPX_top {pb : PB} (ht : PBTag pb) {lp : ListParams} {tab st refs p b rest tag q r bl}
    (htag : (Node.el tag).tag ≠ preTag) (hlp : isListTag p = false) (hs : TopShape p)
    (e : listPX lp tab pb st refs p b rest tag = some (q, r, bl)) : TopShape q := by
  simp only [listPX] at e
  split at e
  · rename_i lst hlst
    split at e
    · cases e
    · split at e
      · rename_i lst' r' hl
        injection e with e; injection e with e _; subst e
        refine hs.setLast (PreOK.of_ne ?_)
        have h1 := listItems_tag ht hl
        have hlist : lp.isSib lst = true := by
          split at hlst
          · rename_i sib _
            split at hlst
            · rename_i hh; injection hlst with hlst; subst hlst; exact hh
            · cases hlst
          · cases hlst
        have h2 : lst'.tag = lst.tag := by
          rw [h1, append_tag]
          split <;> rfl
        rw [h2]; exact ne_pre_of_isSib hlist
      · cases e
  · split at e
    · rename_i hp; rw [hlp] at hp; cases hp
    · split at e
      · rename_i lst r' hl
        injection e with e; injection e with e _; subst e
        refine hs.append (PreOK.of_ne ?_)
        rw [listItems_tag ht hl]
        split
        · exact htag
        · exact htag
      · cases e

/-- a positive number of steps of `get_level` starts at a last child that is a list or an item -/
theorem getLevelKidsX_pos (isL isI : Node → Bool) (il : Nat) : ∀ (level : Nat) (kids : List Node),
    0 < (getLevelKidsX isL isI il level kids).2 → ∃ c, kids.getLast? = some c ∧ (isL c || isI c) = true
  | level, [], h => by simp [getLevelKidsX] at h
  | level, [c], h => by
    rw [getLevelKidsX] at h
    split at h
    · rename_i hc
      simp only [Bool.and_eq_true] at hc
      exact ⟨c, rfl, hc.2⟩
    · simp at h
  | level, c :: d :: r, h => by
    rw [getLevelKidsX] at h
    obtain ⟨x, hx, hx'⟩ := getLevelKidsX_pos isL isI il level (d :: r) h
    exact ⟨x, by rw [List.getLast?_cons_cons]; exact hx, hx'⟩

theorem getLevelX_pos {isL isI : Node → Bool} (hL : ∀ n, isL n = true → n.tag ≠ preTag)
    (hI : ∀ n, isI n = true → n.tag ≠ preTag) {tab st p b} (h : 0 < (getLevelX isL isI tab st p b).2) :
    ∃ c, p.last? = some c ∧ c.tag ≠ preTag := by
  unfold getLevelX at h
  cases p with
  | mk tag attrs text ta children tail tla =>
    rw [getLevelNodeX] at h
    obtain ⟨c, hc, hc'⟩ := getLevelKidsX_pos _ _ _ _ _ h
    refine ⟨c, hc, ?_⟩
    simp only [Bool.or_eq_true] at hc'
    rcases hc' with h1 | h1
    · exact hL c h1
    · exact hI c h1

theorem indentPX_top {pb : PB} (h : PBTop pb) (ht : PBTag pb) {isL isI : Node → Bool} {itemTag : String}
    (hL : ∀ n, isL n = true → n.tag ≠ preTag) (hI : ∀ n, isI n = true → n.tag ≠ preTag)
    (hitem : (Node.el itemTag).tag ≠ preTag) {tab st refs p b rest q r bl}
    (hst : isstate st .list = false) (hlp : isListTag p = false) (hs : TopShape p)
    (e : indentPX isL isI itemTag tab pb st refs p b rest = some (q, r, bl)) : TopShape q := by
  have hst2 := isstate_snoc_detabbed_list st
  have _ := hst
  simp only [indentPX] at e
  split at e
  · -- the parent is an item
    split at e
    · rename_i c hc
      split at e
      · rename_i sub r' hp
        injection e with e; injection e with e _; subst e
        refine hs.setLast (PreOK.of_ne ?_)
        rw [ht _ _ _ _ _ _ hp]
        split at hc
        · split at hc
          · rename_i hh; injection hc with hc; subst hc; exact hL _ hh
          · cases hc
        · cases hc
      · cases e
    · split at e
      · rename_i p' r' hp
        injection e with e; injection e with e _; subst e
        exact h _ _ _ _ _ _ hp hst2 hlp hs
      · cases e
  · generalize hgl : getLevelX isL isI tab st p b = gl at e
    obtain ⟨level, steps⟩ := gl
    simp only at e
    have key : ∀ (g : Node → Node), (steps = 0 → TopShape (g p)) →
        (∀ c, p.last? = some c → ∀ k, steps = k + 1 → (updPath g k c).tag = c.tag) →
        TopShape (updPath g steps p) := by
      intro g h0 h1
      cases steps with
      | zero => exact h0 rfl
      | succ k =>
        apply updPath_succ_top hs
        intro c hc
        obtain ⟨c', hc', hne⟩ := getLevelX_pos hL hI (tab := tab) (st := st) (p := p) (b := b) (by rw [hgl]; simp)
        rw [hc] at hc'; injection hc' with hc'; subst hc'
        exact ⟨hne, h1 c hc k rfl⟩
    split at e
    · split at e
      · rename_i sub r' hp
        injection e with e; injection e with e _; subst e
        apply key
        · intro h0
          subst h0
          exact h _ _ _ _ _ _ hp hst2 hlp hs
        · intro c hc k hk
          subst hk
          apply updPath_tag'
          intro hk0
          have := ht _ _ _ _ _ _ hp
          rw [nodeAt_succ_of_last hc, hk0, nodeAt_zero] at this
          exact this
      · cases e
    · split at e
      · rename_i li hli
        split at e
        · rename_i li' r' hq
          injection e with e; injection e with e _; subst e
          apply key
          · intro _
            refine hs.setLast (PreOK.of_ne ?_)
            rw [parseChunk_tag ht hq, textToP_tag']
            split at hli
            · split at hli
              · rename_i hh; injection hli with hli; subst hli; exact hI _ hh
              · cases hli
            · cases hli
          · intro c hc k hk
            exact updPath_tag' _ _ _ (fun _ => rfl)
        · cases e
      · split at e
        · rename_i li r' hq
          injection e with e; injection e with e _; subst e
          apply key
          · intro _
            refine hs.append (PreOK.of_ne ?_)
            rw [ht _ _ _ _ _ _ hq]; exact hitem
          · intro c hc k hk
            exact updPath_tag' _ _ _ (fun _ => rfl)
        · cases e

theorem topShape_dropLastChild {p : Node} (h : TopShape p) : TopShape (dropLastChild p) := by
  intro x hx
  simp only [BlockExt.dropLastChild] at hx
  exact h x (List.dropLast_subset _ hx)

theorem defListP_top {pb : PB} {tab st refs p b rest m q r bl} (hs : TopShape p)
    (e : defListP tab pb st refs p b rest m = some (some (q, r, bl))) : TopShape q := by
  obtain ⟨s0, en, g2⟩ := m
  simp only [defListP] at e
  generalize (List.filter (fun t => !List.isEmpty t) (List.map strip (lines (List.take s0 b)))) = terms0 at e
  split at e
  · split at e
    · cases e
    · injection e with e
      split at e
      · injection e with e; injection e with e _; subst e
        exact hs.append (PreOK.of_ne (show Tag.name "dl".toList ≠ preTag by decide))
      · cases e
  · rename_i sibling hsib
    injection e with e
    generalize hpar : (if (terms0.isEmpty && sibling.isTag "p") = true then dropLastChild p else p) = par at e
    have spar : TopShape par := by
      rw [← hpar]; split
      · exact topShape_dropLastChild hs
      · exact hs
    split at e
    · rename_i dl hdl
      split at e
      · injection e with e; injection e with e _; subst e
        refine spar.setLast (PreOK.of_ne ?_)
        have : dl.isTag "dl" = true := by
          split at hdl
          · split at hdl
            · rename_i hh; injection hdl with hdl; subst hdl; exact hh
            · cases hdl
          · cases hdl
        show dl.tag ≠ preTag
        rw [isTag_eq this]; decide
      · cases e
    · split at e
      · injection e with e; injection e with e _; subst e
        exact spar.append (PreOK.of_ne (show Tag.name "dl".toList ≠ preTag by decide))
      · cases e

/-- `AdmonitionProcessor.test` names a node below the last child, an admonition `div` -/
theorem admTest_sib_last {tab : Nat} {parent : Node} {b : Str} {steps indent : Nat}
    (h : admTest tab parent b = some (.sib steps indent)) :
    ∃ k sib, steps = k + 1 ∧ parent.last? = some sib ∧ isAdmDiv sib = true := by
  simp only [admTest] at h
  split at h
  · cases h
  · split at h
    · rename_i k ind hc
      injection h with h; injection h with h1 h2; subst h1
      simp only [admContent] at hc
      split at hc
      · cases hc
      · rename_i sib hl
        split at hc
        · rename_i hdiv
          split at hc
          · split at hc
            · rename_i k0 bl0 ind0 _ _
              injection hc with hc; injection hc with hc _
              exact ⟨k0, sib, hc.symm, hl, hdiv⟩
            · cases hc
          · cases hc
        · cases hc
    · cases h

theorem ne_pre_of_isAdmDiv {n : Node} (h : isAdmDiv n = true) : n.tag ≠ preTag := by
  simp only [isAdmDiv, Bool.and_eq_true] at h
  rw [isTag_eq h.1]; decide

theorem admonitionP_top {pb : PB} (h : PBTop pb) (ht : PBTag pb) {tab st refs p b rest hit q r bl}
    (hhit : admTest tab p b = some hit)
    (hst : isstate st .list = false) (hlp : isListTag p = false) (hs : TopShape p)
    (e : admonitionP tab pb st refs p b rest hit = some (q, r, bl)) : TopShape q := by
  cases hit with
  | re s0 en g1 g2 =>
    simp only [admonitionP, parseChunk] at e
    split at e
    · cases e
    · rename_i p1 refs1 h1
      have s1 : TopShape p1 := by
        split at h1
        · exact h _ _ _ _ _ _ h1 hst hlp hs
        · injection h1 with h1; injection h1 with h1 _; subst h1; exact hs
      split at e
      · rename_i dv refs2 h2
        injection e with e; injection e with e _; subst e
        refine s1.append (PreOK.of_ne ?_)
        rw [ht _ _ _ _ _ _ h2]
        split <;> (show Tag.name "div".toList ≠ preTag; decide)
      · cases e
  | sib steps indent =>
    obtain ⟨k, sib, rfl, hl, hdiv⟩ := admTest_sib_last hhit
    simp only [admonitionP, parseChunk] at e
    split at e
    · rename_i dv refs1 h1
      injection e with e; injection e with e _; subst e
      apply updPath_succ_top hs
      intro c hc
      rw [hl] at hc; injection hc with hc; subst hc
      refine ⟨ne_pre_of_isAdmDiv hdiv, ?_⟩
      apply updPath_tag'
      intro hk
      have := ht _ _ _ _ _ _ h1
      rw [nodeAt_succ_of_last hl, hk, nodeAt_zero] at this
      rw [this]
      split <;> rfl
    · cases e

section tailsTop
variable {cfg : XCfg} {tab : Nat} {pb : PB} {st : List BState} {refs : Refs} {p : Node} {b : Str}
  {rest : List Str} {q : Node} {r : Refs} {bl : List Str}

theorem tailRef_top (hst : isstate st .list = false) (hs : TopShape p)
    (e : tailRef st refs p b rest = some (q, r, bl)) : TopShape q := by
  simp only [tailRef] at e
  split at e
  · rename_i m _
    injection e with e
    have : (referenceP refs p b rest m).1 = p := by obtain ⟨s, e', i, l, t5, t6⟩ := m; rfl
    rw [e] at this; simp only at this; rw [this]; exact hs
  · injection e with e
    have := paraP_top (refs := refs) (b := b) (rest := rest) hst hs; rw [e] at this; exact this

theorem tailAbbr_top (hst : isstate st .list = false) (hs : TopShape p)
    (e : tailAbbr cfg st refs p b rest = some (q, r, bl)) : TopShape q := by
  simp only [tailAbbr] at e
  split at e
  · split at e
    · injection e with e; injection e with e _; subst e; exact hs
    · cases e
    · exact tailRef_top hst hs e
  · exact tailRef_top hst hs e

theorem tailFootnote_top (hst : isstate st .list = false) (hs : TopShape p)
    (e : tailFootnote cfg st refs p b rest = some (q, r, bl)) : TopShape q := by
  simp only [tailFootnote] at e
  split at e
  · split at e
    · injection e with e; injection e with e _; subst e; exact hs
    · exact tailAbbr_top hst hs e
  · exact tailAbbr_top hst hs e

theorem tailQuote_top (h : PBTop pb) (ht : PBTag pb) (hst : isstate st .list = false) (hlp : isListTag p = false)
    (hs : TopShape p) (e : tailQuote cfg pb st refs p b rest = some (q, r, bl)) : TopShape q := by
  simp only [tailQuote] at e
  split at e
  · exact quoteP_top h ht hst hlp hs e
  · exact tailFootnote_top hst hs e

theorem tailDef_top (h : PBTop pb) (ht : PBTag pb) (hst : isstate st .list = false) (hlp : isListTag p = false)
    (hs : TopShape p) (e : tailDef cfg tab pb st refs p b rest = some (q, r, bl)) : TopShape q := by
  simp only [tailDef] at e
  split at e
  · split at e
    · split at e
      · rename_i hd; subst e; exact defListP_top hs hd
      · exact tailQuote_top h ht hst hlp hs e
    · exact tailQuote_top h ht hst hlp hs e
  · exact tailQuote_top h ht hst hlp hs e

theorem tailList_top (h : PBTop pb) (ht : PBTag pb) (hst : isstate st .list = false) (hlp : isListTag p = false)
    (hs : TopShape p) (e : tailList cfg tab pb st refs p b rest = some (q, r, bl)) : TopShape q := by
  simp only [tailList] at e
  split at e
  · split at e
    · exact listPX_top ht (by decide) hlp hs e
    · exact listP_top ht (by decide) hlp hs e
  · split at e
    · split at e
      · exact listPX_top ht (by decide) hlp hs e
      · exact listP_top ht (by decide) hlp hs e
    · exact tailDef_top h ht hst hlp hs e

end tailsTop

theorem tailEmptyT_top {tables : Bool} {cfg : XCfg} {tab : Nat} {pb : PB} (h : PBTop pb) (ht : PBTag pb)
    {st refs p b rest q r bl} (hst : isstate st .list = false) (hlp : isListTag p = false) (hs : TopShape p)
    (e : tailEmptyT tables cfg tab pb st refs p b rest = some (q, r, bl)) : TopShape q := by
  unfold tailEmptyT at e
  cases hl : p.last? <;> rw [hl] at e <;> dsimp only at e
  all_goals
    split at e
    · injection e with e; have := emptyP_top (refs := refs) (b := b) (rest := rest) hs; rw [e] at this; exact this
    · split at e
      · exact indentP_top h ht hst hlp hs e
      · split at e
        · exact indentPX_top h ht (fun _ => ne_pre_of_isListTagD) (fun _ => ne_pre_of_isItemTagD) (by decide)
            hst hlp hs e
        · split at e
          · injection e with e
            have := codeP_top (tab := tab) (refs := refs) (b := b) (rest := rest) hs; rw [e] at this; exact this
          · split at e
            · injection e with e; injection e with e _; subst e
              exact hs.append (PreOK.of_ne (show Tag.name "table".toList ≠ preTag by decide))
            · split at e
              · exact hashP_top h hst hlp hs e
              · split at e
                · injection e with e
                  have := setextP_top (refs := refs) (b := b) (rest := rest) hs; rw [e] at this; exact this
                · split at e
                  · exact hrP_top h hst hlp hs e
                  · exact tailList_top h ht hst hlp hs e

theorem dispatchXT_top {tables : Bool} {cfg : XCfg} {tab : Nat} {pb : PB} (h : PBTop pb) (ht : PBTag pb)
    {st refs p b rest q r bl} (hst : isstate st .list = false) (hlp : isListTag p = false) (hs : TopShape p)
    (e : dispatchXT tables cfg tab pb st refs p b rest = some (q, r, bl)) : TopShape q := by
  simp only [dispatchXT] at e
  split at e
  · rename_i hit hh
    have hh' : admTest tab p b = some hit := by
      split at hh
      · exact hh
      · cases hh
    exact admonitionP_top h ht hh' hst hlp hs e
  · exact tailEmptyT_top h ht hst hlp hs e

theorem parseBlocksXT_top (tables : Bool) (cfg : XCfg) (tab : Nat) : ∀ f, PBTop (parseBlocksXT tables cfg tab f)
  | 0 => by
    intro st refs p bs q r e _ _ hs
    cases bs with
    | nil => simp [parseBlocksXT] at e; rw [← e.1]; exact hs
    | cons b rest => simp [parseBlocksXT] at e
  | f + 1 => by
    have ih := parseBlocksXT_top tables cfg tab f
    have iht := parseBlocksXT_tag tables cfg tab f
    intro st refs p bs
    induction bs generalizing refs p with
    | nil => intro q r e _ _ hs; simp [parseBlocksXT] at e; rw [← e.1]; exact hs
    | cons b rest _ =>
      intro q r e hst hlp hs
      rw [parseBlocksXT] at e
      split at e
      · rename_i p' r' bl hd
        have h1 := dispatchXT_top ih iht hst hlp hs hd
        have h2 : isListTag p' = false := by rw [isListTag_congr (dispatchXT_tag iht hd)]; exact hlp
        exact ih _ _ _ _ _ _ e hst h2 h1
      · cases e

/-- **every `pre` child of the root of a document parsed by the extended block parser is a code block**, and the
    root is a `div` -/
theorem parseDocumentXT_top {tables : Bool} {cfg : XCfg} {tab : Nat} {text : Str} {root : Node} {log : Refs}
    (h : parseDocumentXT tables cfg tab text = some (root, log)) : TopShape root ∧ root.tag = .name "div".toList := by
  simp only [parseDocumentXT, parseChunk] at h
  refine ⟨parseBlocksXT_top tables cfg tab _ _ _ _ _ _ _ h (by decide) (by decide) ?_,
    parseBlocksXT_tag tables cfg tab _ _ _ _ _ _ _ h⟩
  intro c hc; simp [Node.el] at hc

/-- the same for any run of the extended block loop from a parent of that shape, outside state `list` -/
theorem parseBlocksXT_topShape {tables : Bool} {cfg : XCfg} {tab f : Nat} {st : List BState} {refs : Refs} {p : Node}
    {bs : List Str} {q : Node} {r : Refs} (e : parseBlocksXT tables cfg tab f st refs p bs = some (q, r))
    (hst : isstate st .list = false) (hlp : isListTag p = false) (hs : TopShape p) : TopShape q ∧ q.tag = p.tag :=
  ⟨parseBlocksXT_top tables cfg tab f _ _ _ _ _ _ e hst hlp hs, parseBlocksXT_tag tables cfg tab f _ _ _ _ _ _ e⟩

end MdVerif.C09XCode
