/-
Helper lemmas for `Props/C06Links.lean` (inline links), part 4: the stages after the pattern loop for uses given by
their chunks only (`UseCh`: no label to look up) — restatements of lemmas of `Lemmas/RefTextRun.lean`,
`Lemmas/RefTextBack.lean`, `Lemmas/RefTextConv.lean` that ask for `UseOK` but use its chunk parts only; then
`InlineProcessor.run` and `convert` on a line with inline links.  Core Lean only.
-/
import MdVerif.Lemmas.RefTextInlLoop
import MdVerif.Lemmas.LettersLinksSpec

namespace MdVerif.RefText
open Py Inline Escape CodeLaw DocParse DocParse2

/-- what the stages after the pattern loop need of a use: its chunks -/
structure UseCh (esc : List Char) (u : RUse) : Prop where
  text : ChunkOK esc u.T
  after : ChunkOK esc u.C

theorem usKids_softG {cfg : Inline.Cfg} (hE : EscOK cfg.esc) (us : List RUse) (hus : ∀ u ∈ us, UseCh cfg.esc u) :
    ∀ kid ∈ usKids cfg.esc us, (∀ c ∈ kid.children, SoftNode c ∧ c.children = []) ∧
      kid.children.length ≤ usCnt0 us + usLinkLen us := by
  induction us with
  | nil => intro kid hk; simp [usKids] at hk
  | cons u r ih =>
    intro kid hk
    have hu := hus u List.mem_cons_self
    simp only [usKids, List.mem_cons, List.mem_append, List.mem_map] at hk
    rcases hk with rfl | ⟨s, _, rfl⟩ | hk
    · refine ⟨?_, ?_⟩
      · intro c hc
        have hc' : c ∈ u.T.segs.map (tailedM cfg.esc) := hc
        obtain ⟨s, hs, rfl⟩ := List.mem_map.1 hc'
        exact soft_tailedM hE s (hu.text.ok s hs) (hu.text.clean s hs)
          (fun x hx => hu.text.plain x (Or.inr ⟨s, hs, hx⟩))
      · have := useT_length (u :: r) (fun x hx => (hus x hx).text.ok) u List.mem_cons_self
        simpa [aNode] using this
    · rw [tailedM_childless]
      exact ⟨fun c hc => (by cases hc), by simp⟩
    · have := ih (fun x hx => hus x (List.mem_cons_of_mem _ hx)) kid hk
      refine ⟨this.1, ?_⟩
      have := this.2
      simp only [usCnt0, usLinkLen]; omega

/-- every child of the paragraph: its own children are soft and childless -/
theorem kids_softG {cfg : Inline.Cfg} (hE : EscOK cfg.esc) (C0 : Chunk) (us : List RUse)
    (hus : ∀ u ∈ us, UseCh cfg.esc u) :
    ∀ kid ∈ C0.segs.map (tailedM cfg.esc) ++ usKids cfg.esc us,
      (∀ c ∈ kid.children, SoftNode c ∧ c.children = []) ∧
      kid.children.length ≤ usCnt0 us + usLinkLen us := by
  intro kid hk
  rcases List.mem_append.1 hk with hk | hk
  · obtain ⟨s, _, rfl⟩ := List.mem_map.1 hk
    rw [tailedM_childless]
    exact ⟨fun c hc => (by cases hc), by simp⟩
  · exact usKids_softG hE us hus kid hk


theorem unescapeTree_aKidG {cfg : Inline.Cfg} (u : RUse) (hu : UseCh cfg.esc u) (ha : UseAttrOK u) :
    TreeProc.unescapeTree (aKid cfg.esc u) = some (aFin u) := by
  have hcode : (Tag.name "a".toList == Tag.name "code".toList) = false := by decide
  have h1 := unescOpt_coded cfg.esc u.T.t0 (chunkOK_pp hu.text).1
  have h2 := unescOpt_coded cfg.esc u.C.t0 (chunkOK_pp hu.after).1
  have hk := unescapeKids_tailedM cfg.esc u.T.segs
    (fun s hs => ⟨((chunkOK_pp hu.text).2 s hs).1, fine_of_ok s.k (hu.text.ok s hs) (hu.text.clean s hs)⟩)
  have hattr : TreeProc.unescAttrs (("href".toList, u.url) ::
      (if Node.truthy u.title then [("title".toList, u.title.getD [])] else [])) =
      some (("href".toList, u.url) :: (if Node.truthy u.title then [("title".toList, u.title.getD [])] else [])) := by
    apply InlineRef.unescAttrs_id
    intro kv hkv
    simp only [List.mem_cons] at hkv
    rcases hkv with rfl | hkv
    · exact ha.1
    · split at hkv
      · simp only [List.mem_cons, List.not_mem_nil, or_false] at hkv
        subst hkv
        cases ht : u.title with
        | none => simp [ht, Node.truthy] at *
        | some t =>
          show TreeProc.STX ∉ (some t).getD []
          exact ha.2 t ht
      · cases hkv
  simp only [aKid, aNode, aFin, TreeProc.unescapeTree, hcode, Bool.not_false, Bool.and_true, h1, h2, hk, hattr]
  by_cases ht1 : Node.truthy (optStr (coded cfg.esc u.T.t0)) = true <;>
    by_cases ht2 : Node.truthy (optStr (coded cfg.esc u.C.t0)) = true <;> simp [ht1, ht2]

theorem unescapeKids_usKidsG {cfg : Inline.Cfg} (us : List RUse) (hus : ∀ u ∈ us, UseCh cfg.esc u)
    (ha : ∀ u ∈ us, UseAttrOK u) : TreeProc.unescapeKids (usKids cfg.esc us) = some (usKidsFin us) := by
  induction us with
  | nil => rfl
  | cons u r ih =>
    have hu := hus u List.mem_cons_self
    have hkC := unescapeKids_tailedM cfg.esc u.C.segs
      (fun s hs => ⟨((chunkOK_pp hu.after).2 s hs).1, fine_of_ok s.k (hu.after.ok s hs) (hu.after.clean s hs)⟩)
    have hr := ih (fun x hx => hus x (List.mem_cons_of_mem _ hx)) (fun x hx => ha x (List.mem_cons_of_mem _ hx))
    rw [usKids_cons]
    simp only [TreeProc.unescapeKids, unescapeTree_aKidG u hu (ha u List.mem_cons_self),
      unescapeKids_append _ _ _ _ hkC hr, usKidsFin_cons]


theorem unesc_pPrettyG {cfg : Inline.Cfg} (C0 : Chunk) (us : List RUse) (h0 : ChunkOK cfg.esc C0)
    (hus : ∀ u ∈ us, UseCh cfg.esc u) (ha : ∀ u ∈ us, UseAttrOK u) :
    TreeProc.unescapeTree (pPretty cfg.esc C0 us) = some (pFin C0 us) := by
  have hcode : (Tag.name "p".toList == Tag.name "code".toList) = false := by decide
  have hnl : TreeProc.unescapeText 0 ['\n'] = some ['\n'] := by decide
  have h := unescOpt_coded cfg.esc C0.t0 (chunkOK_pp h0).1
  have hk0 := unescapeKids_tailedM cfg.esc C0.segs
    (fun s hs => ⟨((chunkOK_pp h0).2 s hs).1, fine_of_ok s.k (h0.ok s hs) (h0.clean s hs)⟩)
  have hk := unescapeKids_append _ _ _ _ hk0 (unescapeKids_usKidsG us hus ha)
  have t1 : Node.truthy (some ['\n']) = true := rfl
  simp only [pPretty, pFin, TreeProc.unescapeTree, hcode, Bool.not_false, Bool.and_true, h, hk, TreeProc.unescAttrs, t1,
    if_true, Option.getD_some, hnl, Option.map_some]
  by_cases ht : Node.truthy (optStr (coded cfg.esc C0.t0)) = true <;> simp [ht]


theorem serialize_aFinG {cfg : Inline.Cfg} (u : RUse) (hu : UseCh cfg.esc u) :
    Ser.serialize .xhtml (aFin u) = aOpen u.url u.title ++ (u.T.out ++ (aClose ++ Ser.escCdata u.C.t0)) := by
  have h2a : Ser.isEmptyTag "a".toList = false := by decide
  have h4a : Ser.isRawTextTag "a".toList = false := by decide
  have hkids := serializeList_tailedM u.T.segs
    (fun s hs => fine_of_ok s.k (hu.text.ok s hs) (hu.text.clean s hs))
  unfold aFin
  rw [InlineRef.serialize_name, InlineRef.element_xhtml _ _ _ _ h2a h4a, InlineRef.sortAttrs_link,
    InlineRef.writeAttrs_link, hkids, optEsc_optStr, optEsc_optStr, aOpen_eq, aClose_eq]
  simp only [Chunk.out, List.append_assoc]

theorem serializeList_usKidsFinG {cfg : Inline.Cfg} : ∀ (us : List RUse), (∀ u ∈ us, UseCh cfg.esc u) →
    Ser.serializeList .xhtml (usKidsFin us) = usOut us
  | [], _ => by rw [usKidsFin_nil, InlineRef.serializeList_nil, usOut_nil]
  | u :: r, hus => by
    have hu := hus u List.mem_cons_self
    have hkC := serializeList_tailedM u.C.segs
      (fun s hs => fine_of_ok s.k (hu.after.ok s hs) (hu.after.clean s hs))
    have hr := serializeList_usKidsFinG r (fun x hx => hus x (List.mem_cons_of_mem _ hx))
    rw [usKidsFin_cons, serializeList_cons, serializeList_append, serialize_aFinG u hu, hkC, hr, usOut_cons]
    simp only [useOut, Chunk.out, List.append_assoc]

theorem ser_pFinG {cfg : Inline.Cfg} (C0 : Chunk) (us : List RUse) (h0 : ChunkOK cfg.esc C0)
    (hus : ∀ u ∈ us, UseCh cfg.esc u) :
    Ser.serialize .xhtml (pFin C0 us) = ("<p>".toList ++ (C0.out ++ usOut us) ++ "</p>".toList) ++ ['\n'] := by
  have h2 : Ser.isEmptyTag "p".toList = false := by decide
  have h4 : Ser.isRawTextTag "p".toList = false := by decide
  have e7 : Ser.escCdata ['\n'] = ['\n'] := by decide
  have t1 : Node.truthy (some ['\n']) = true := rfl
  have hk0 := serializeList_tailedM C0.segs (fun s hs => fine_of_ok s.k (h0.ok s hs) (h0.clean s hs))
  simp only [pFin]
  rw [serialize_plain _ _ _ _ _ _ _ h2 h4, serializeList_append, hk0, serializeList_usKidsFinG us hus, optEsc_optStr]
  simp [t1, e7, Chunk.out, List.append_assoc]

theorem stx_not_mem_usOutG {cfg : Inline.Cfg} : ∀ (us : List RUse), (∀ u ∈ us, UseCh cfg.esc u) →
    (∀ u ∈ us, UseAttrOK u) → Post.STX ∉ usOut us
  | [], _, _ => by rw [usOut_nil]; simp
  | u :: r, hus, ha => by
    have hu := hus u List.mem_cons_self
    have hr := stx_not_mem_usOutG r (fun x hx => hus x (List.mem_cons_of_mem _ hx))
      (fun x hx => ha x (List.mem_cons_of_mem _ hx))
    have h1 := stx_not_mem_aOpen u.url u.title (ha u List.mem_cons_self).1 (ha u List.mem_cons_self).2
    have h2 := stx_not_mem_chunkOut u.T hu.text
    have h3 := stx_not_mem_chunkOut u.C hu.after
    have h4 : Post.STX ∉ aClose := by decide
    rw [usOut_cons]
    intro hm
    simp only [useOut, List.mem_append] at hm
    rcases hm with (hm | hm | hm | hm) | hm
    · exact h1 hm
    · exact h2 hm
    · exact h4 hm
    · exact h3 hm
    · exact hr hm


/-! ### the paragraph of a line with inline links -/

theorem useCh_of {esc : List Char} {u : IUse} (h : IUseOK esc u) : UseCh esc (IUse.toR u) := ⟨h.text, h.after⟩

theorem useCh_map {esc : List Char} {is : List IUse} (h : ∀ u ∈ is, IUseOK esc u) :
    ∀ r ∈ is.map IUse.toR, UseCh esc r := by
  intro r hr
  obtain ⟨u, hu, rfl⟩ := List.mem_map.1 hr
  exact useCh_of (h u hu)

theorem lineRawI_ne_nil (esc : List Char) (C0 : Chunk) (is : List IUse) (hne : is ≠ []) : lineRawI esc C0 is ≠ [] := by
  cases is with
  | nil => exact absurd rfl hne
  | cons u r => simp [lineRawI, usStageI]

/-- **the paragraph through `__handleInline` and `__processPlaceholders`** -/
theorem visitChild_lineI (cfg : Inline.Cfg) (hE : EscOK cfg.esc) (hrb : ']' ∈ cfg.esc) (C0 : Chunk) (is : List IUse)
    (h0 : ChunkOK cfg.esc C0) (hus : ∀ u ∈ is, IUseOK cfg.esc u) (hvis : ∀ u ∈ is, u.T.Vis) (hne : is ≠ []) (v : Visit) :
    visitChild cfg (Block.mkText "p" (lineRawI cfg.esc C0 is)) v =
      some (pMid cfg.esc C0 (is.map IUse.toR), [],
        { v with pushes := ((List.range (C0.segs.map (tailedM cfg.esc) ++ usKids cfg.esc (is.map IUse.toR)).length).map
                    (fun k => [v.done.length, k])).reverse ++ v.pushes,
                 st := { v.st with stash := v.st.stash ++ lineStash cfg.esc v.st.stash.length C0 (is.map IUse.toR) } }) := by
  have hrne : is.map IUse.toR ≠ [] := by simpa using hne
  have h1 := handleInlineTop_lineI cfg hE hrb C0 is v.st h0 hus
  obtain ⟨hat0, hatU⟩ := line_at cfg.esc v.st.stash C0 (is.map IUse.toR)
  obtain ⟨f, hf⟩ : ∃ f, (v.st.stash ++ lineStash cfg.esc v.st.stash.length C0 (is.map IUse.toR)).length = f + 1 := by
    have := lineStash_length_pos cfg.esc v.st.stash.length C0 (is.map IUse.toR) hrne
    exact ⟨(v.st.stash ++ lineStash cfg.esc v.st.stash.length C0 (is.map IUse.toR)).length - 1, by
      rw [List.length_append]; omega⟩
  have hpp : ∀ r ∈ is.map IUse.toR, UsePP r := by
    intro r hr
    obtain ⟨u, hu, rfl⟩ := List.mem_map.1 hr
    exact ⟨hvis u hu, (chunkOK_pp (hus u hu).text).1, (chunkOK_pp (hus u hu).text).2,
      (chunkOK_pp (hus u hu).after).1, (chunkOK_pp (hus u hu).after).2⟩
  have h2 := ppTop_line cfg.esc { v.st with stash := v.st.stash ++ lineStash cfg.esc v.st.stash.length C0 (is.map IUse.toR) }
    f hf C0 (is.map IUse.toR) hrne { Block.mkText "p" (lineRawI cfg.esc C0 is) with text := none, textAtomic := false }
    rfl rfl (mStart v.st.stash.length C0 (is.map IUse.toR)) v.st.stash.length
    (lStart cfg.esc v.st.stash.length C0 (is.map IUse.toR))
    (o1Start cfg.esc v.st.stash.length C0 (is.map IUse.toR)) (o2Start cfg.esc v.st.stash.length C0 (is.map IUse.toR))
    hat0 hatU (chunkOK_pp h0).1 (chunkOK_pp h0).2 hpp
  have hres : lineRes cfg.esc v.st.stash.length C0 (is.map IUse.toR) =
      C0.stage cfg.esc 3 true (mStart v.st.stash.length C0 (is.map IUse.toR)) v.st.stash.length
        (o1Start cfg.esc v.st.stash.length C0 (is.map IUse.toR)) (o2Start cfg.esc v.st.stash.length C0 (is.map IUse.toR)) ++
      outStage cfg.esc 3 (o1Start cfg.esc v.st.stash.length C0 (is.map IUse.toR) + C0.cnt 1)
        (o2Start cfg.esc v.st.stash.length C0 (is.map IUse.toR) + C0.cnt 2)
        (usOuter cfg.esc (mStart v.st.stash.length C0 (is.map IUse.toR) + C0.escs cfg.esc) (v.st.stash.length + C0.cnt 0)
          (lStart cfg.esc v.st.stash.length C0 (is.map IUse.toR)) (is.map IUse.toR)) := rfl
  rw [← hres] at h2
  have htr := truthy_some (lineRawI_ne_nil cfg.esc C0 is hne)
  simp only [visitChild, Block.mkText, Node.el, htr, Bool.not_false, Bool.and_self, if_true, Option.getD_some, h1]
    at h2 ⊢
  rw [h2]
  simp [pMid, Node.truthy]

/-- **`InlineProcessor.run`** on `<div><p>line</p></div>` -/
theorem run_lineI (cfg : Inline.Cfg) (hE : EscOK cfg.esc) (hrb : ']' ∈ cfg.esc) (C0 : Chunk) (is : List IUse)
    (h0 : ChunkOK cfg.esc C0) (hus : ∀ u ∈ is, IUseOK cfg.esc u) (hvis : ∀ u ∈ is, u.T.Vis) (hne : is ≠ []) :
    Inline.run cfg ((Node.el "div").append (Block.mkText "p" (lineRawI cfg.esc C0 is))) =
      some ((Node.el "div").append (pMid cfg.esc C0 (is.map IUse.toR)),
        { stash := lineStash cfg.esc 0 C0 (is.map IUse.toR), html := [] }) := by
  generalize hkids : C0.segs.map (tailedM cfg.esc) ++ usKids cfg.esc (is.map IUse.toR) = kids
  have hv := visitChild_lineI cfg hE hrb C0 is h0 hus hvis hne { st := { html := [] } }
  simp only [List.length_nil, List.nil_append, List.append_nil, hkids] at hv
  have hch := useCh_map hus
  -- sizes
  have hlenraw : C0.escs cfg.esc + C0.cnt 0 + C0.cnt 1 + C0.cnt 2 + (usEscs cfg.esc (is.map IUse.toR) +
      usCnt0 (is.map IUse.toR) + usLinkLen (is.map IUse.toR) + usOutCnt 1 (is.map IUse.toR) +
      usOutCnt 2 (is.map IUse.toR)) ≤ (lineRawI cfg.esc C0 is).length := by
    have h1 := chunk_raw_length cfg.esc C0 h0.ok
    have h2 := usRawI_length is hus 0 0
    rw [lineRawI, List.length_append]; omega
  have hklen : kids.length ≤ (lineRawI cfg.esc C0 is).length := by
    have h1 := usKids_length cfg.esc (is.map IUse.toR) (fun u hu => (hch u hu).after.ok)
    have h2 := nodes_length C0.segs h0.ok
    rw [← hkids]
    simp only [List.length_append, List.length_map, Chunk.cnt] at hlenraw ⊢
    omega
  have hsize : Inline.size ((Node.el "div").append (Block.mkText "p" (lineRawI cfg.esc C0 is))) =
      2 + (lineRawI cfg.esc C0 is).length := by
    simp [Node.append, Node.el, Block.mkText, Inline.size, Inline.sizeList]; omega
  obtain ⟨n, hn⟩ : ∃ n, runFuel ((Node.el "div").append (Block.mkText "p" (lineRawI cfg.esc C0 is))) = n + 2 :=
    ⟨runFuel ((Node.el "div").append (Block.mkText "p" (lineRawI cfg.esc C0 is))) - 2, by simp [runFuel]⟩
  have hnval : n + 2 = 16 * (2 + (lineRawI cfg.esc C0 is).length) + 64 := by rw [← hn, runFuel, hsize]
  simp only [Inline.run, hn]
  simp only [runLoop, getAt, Node.append, Node.el, List.nil_append, withIdx, visitLoop]
  rw [hv]
  simp only [List.map_nil, List.nil_append, visitLoop, List.reverse_cons, List.reverse_nil, setAt, List.map_map]
  have := runLoop_soft cfg (n + 2) ((Node.el "div").append (pMid cfg.esc C0 (is.map IUse.toR)))
    { stash := lineStash cfg.esc 0 C0 (is.map IUse.toR), html := [] }
    (((List.range kids.length).map (fun k => [0, k])).reverse) (n + 1)
    (by simp only [List.length_reverse, List.length_map, List.length_range]; omega)
    (by
      intro q hq
      simp only [List.mem_reverse, List.mem_map, List.mem_range] at hq
      obtain ⟨k, hk, rfl⟩ := hq
      obtain ⟨kid, hkid⟩ : ∃ kid, kids[k]? = some kid := by
        cases hx : kids[k]? with
        | none => rw [List.getElem?_eq_none_iff] at hx; omega
        | some kid => exact ⟨kid, rfl⟩
      have hmem : kid ∈ C0.segs.map (tailedM cfg.esc) ++ usKids cfg.esc (is.map IUse.toR) := by
        rw [hkids]; exact List.mem_of_getElem? hkid
      obtain ⟨hs1, hs2⟩ := kids_softG hE C0 (is.map IUse.toR) hch kid hmem
      refine ⟨kid, ?_, ?_, hs1⟩
      · simp [getAt, Node.append, Node.el, pMid, hkids, hkid]
      · omega)
  simpa [Node.append, Node.el, Function.comp_def] using this

theorem useAttrOK_map {esc : List Char} {is : List IUse} (h : ∀ u ∈ is, IUseOK esc u) :
    ∀ r ∈ is.map IUse.toR, UseAttrOK r := by
  intro r hr
  obtain ⟨u, hu, rfl⟩ := List.mem_map.1 hr
  obtain ⟨h1, _, _, h4⟩ := (h u hu).dest
  refine ⟨stx_not_mem_dest (fun c hc => urlCh_dest (h1 c hc)), ?_⟩
  intro t ht
  cases hd : u.dtitle with
  | none => simp [IUse.toR, titleOf, hd] at ht
  | some qt =>
    obtain ⟨q, t'⟩ := qt
    rw [hd] at h4
    simp only [IUse.toR, titleOf, hd, Option.map_some, Option.some.injEq] at ht
    subst ht
    exact stx_not_mem_dest (fun c hc => (titleCh_facts (h4.2.1 c hc)).1)

/-- **From the source to the output**: a paragraph that is a line of mixed content with inline links (any document
    of the one paragraph: `docOf [] line []`, and with reference definitions around it) -/
theorem convert_lineI (cfg : Pipeline.Cfg) (hfmt : cfg.fmt = .xhtml) (hbl : cfg.blockLevel = TreeProc.defaultBlockLevel)
    (htab : 0 < cfg.tab) (hE : EscOK cfg.esc) (hrb : ']' ∈ cfg.esc)
    (before after : List InlineRef.DefSpec) (hb : ∀ d ∈ before, d.ok cfg.tab = true)
    (ha : ∀ d ∈ after, d.ok cfg.tab = true) (C0 : Chunk) (is : List IUse) (hne : is ≠ [])
    (h0 : ChunkOK cfg.esc C0) (hus : ∀ u ∈ is, IUseOK cfg.esc u) (hvis : ∀ u ∈ is, u.T.Vis)
    (hstart : startPlain (lineRawI cfg.esc C0 is) = true) (hchars : (lineRawI cfg.esc C0 is).all lineCh = true)
    (hnoref : Block.refMatchAt (lineRawI cfg.esc C0 is) 0 = none) :
    Pipeline.convert cfg (InlineRef.docOf before (lineRawI cfg.esc C0 is) after) =
      .ok ("<p>".toList ++ (C0.out ++ usOut (is.map IUse.toR)) ++ "</p>".toList) := by
  have hp := paraOK_line _ hstart hchars hnoref
  have hch := useCh_map hus
  have hattr := useAttrOK_map hus
  have hrun := run_lineI { esc := cfg.esc, refs := ((before ++ after).map InlineRef.DefSpec.entry).reverse } hE hrb C0 is
    h0 hus hvis hne
  have hser := ser_pFinG (cfg := { esc := cfg.esc, refs := [] }) C0 (is.map IUse.toR) h0 hch
  rw [← hfmt] at hser
  refine convert_one cfg hbl htab before after hb ha hp (pMid cfg.esc C0 (is.map IUse.toR))
    (pPretty cfg.esc C0 (is.map IUse.toR)) (pFin C0 (is.map IUse.toR)) (C0.out ++ usOut (is.map IUse.toR)) _ hrun rfl
    (by show TreeProc.isBlockLevel TreeProc.defaultBlockLevel (.name "p".toList) = true; decide)
    (pretty_pMid cfg.esc C0 (is.map IUse.toR))
    (unesc_pPrettyG (cfg := { esc := cfg.esc, refs := [] }) C0 (is.map IUse.toR) h0 hch hattr) hser ?_
  intro hm
  rcases List.mem_append.1 hm with hm | hm
  · exact stx_not_mem_chunkOut C0 h0 hm
  · exact stx_not_mem_usOutG (cfg := { esc := cfg.esc, refs := [] }) (is.map IUse.toR) hch hattr hm

/-- **conservation for a line with inline links**: the output is accepted by the strict reader and its visible
    letters are the letters of the visible part of the source line (contents and link texts: `visibleSrc`) -/
theorem letters_line_convI {L : Char → Bool} (hL : Flat.LetterClass L) (cfg : Pipeline.Cfg) (hfmt : cfg.fmt = .xhtml)
    (hbl : cfg.blockLevel = TreeProc.defaultBlockLevel) (htab : 0 < cfg.tab) (hE : EscOK cfg.esc) (hrb : ']' ∈ cfg.esc)
    (before after : List InlineRef.DefSpec) (hb : ∀ d ∈ before, d.ok cfg.tab = true)
    (ha : ∀ d ∈ after, d.ok cfg.tab = true) (C0 : Chunk) (is : List IUse) (hne : is ≠ [])
    (h0 : ChunkOK cfg.esc C0) (hus : ∀ u ∈ is, IUseOK cfg.esc u) (hvis : ∀ u ∈ is, u.T.Vis)
    (hc0 : C0.CodeClean) (hcu : ∀ u ∈ is, u.T.CodeClean ∧ u.C.CodeClean)
    (hstart : startPlain (lineRawI cfg.esc C0 is) = true) (hchars : (lineRawI cfg.esc C0 is).all lineCh = true)
    (hnoref : Block.refMatchAt (lineRawI cfg.esc C0 is) 0 = none) :
    ∃ out, Pipeline.convert cfg (InlineRef.docOf before (lineRawI cfg.esc C0 is) after) = .ok out ∧
      (Ser.readForest cfg.fmt out).isSome = true ∧
      C06.visibleLetters L cfg.fmt out = Flat.letters L (visibleSrc cfg.esc C0 (is.map IUse.toR)) := by
  have hconv := convert_lineI cfg hfmt hbl htab hE hrb before after hb ha C0 is hne h0 hus hvis hstart hchars hnoref
  have hch := useCh_map hus
  have hser := ser_pFinG (cfg := { esc := cfg.esc, refs := [] }) C0 (is.map IUse.toR) h0 hch
  have hinner := inner_line C0 (is.map IUse.toR) (C0.out ++ usOut (is.map IUse.toR)) hser
  have hL0 : ChunkL C0 := chunkL_of h0 hc0
  have hLu : ∀ r ∈ is.map IUse.toR, ChunkL r.T ∧ ChunkL r.C := by
    intro r hr
    obtain ⟨u, hu, rfl⟩ := List.mem_map.1 hr
    exact ⟨chunkL_of (hus u hu).text (hcu u hu).1, chunkL_of (hus u hu).after (hcu u hu).2⟩
  obtain ⟨hr, hv⟩ := C06.visibleLetters_inner hL .xhtml (docOk_line C0 (is.map IUse.toR))
    (ampFree_line C0 (is.map IUse.toR) hL0 hLu)
  rw [hinner] at hr hv
  refine ⟨_, hconv, by rw [hfmt]; exact hr, ?_⟩
  rw [hfmt, hv, docLetters_line hL, letters_visibleSrc hL cfg.esc (is.map IUse.toR) C0 hL0 hLu]

end MdVerif.RefText
