/-
Extensions that add an inline pattern (wikilinks, nl2br; footnotes in `PipelineXInertFn.lean`): when the pattern is
dead, the run with the pattern follows the run without it (`Lemmas/InlineXSim.lean`).  The longer pattern table
gives the inline loops more fuel, so the statements carry the hypothesis that the run without the extension does
not run out of fuel (`convertX x cfg src ≠ .oof`).  Core Lean only.
-/
import MdVerif.Lemmas.PipelineXInertAttr3
import MdVerif.Lemmas.InlineXSim

namespace MdVerif.PipelineX
open Py Pipeline BlockExt InlineX

theorem getElem?_insert {α : Type} (a b : List α) (d : α) (i : Nat) :
    (a ++ d :: b)[sh a.length i]? = (a ++ b)[i]? := by
  unfold sh
  split
  · rename_i h
    rw [List.getElem?_append_left h, List.getElem?_append_left h]
  · rename_i h
    rw [List.getElem?_append_right (by omega), List.getElem?_append_right (by omega)]
    have : i + 1 - a.length = (i - a.length) + 1 := by omega
    rw [this, List.getElem?_cons_succ]

theorem getElem?_dead {α : Type} (a b : List α) (d : α) : (a ++ d :: b)[a.length]? = some d := by
  rw [List.getElem?_append_right (Nat.le_refl _)]
  simp

/-- the tree stages agree when the stages after the block stage agree unless the reference run is out of fuel -/
theorem treeX_of_stages_fuel (x x' : Exts) (cfg : Cfg) (src : Str) (hto : treeX x cfg src ≠ .oof)
    (h1 : prepareX x' cfg src = prepareX x cfg src)
    (h2 : ∀ text stash, prepareX x cfg src = .ok (text, stash) →
      blockStage x'.tables x'.footnotes x'.blockCfg cfg text = blockStage x.tables x.footnotes x.blockCfg cfg text)
    (h3 : ∀ text stash root log, prepareX x cfg src = .ok (text, stash) →
      blockStage x.tables x.footnotes x.blockCfg cfg text = .ok (root, log) →
      lateX x cfg stash root log ≠ .oof → lateX x' cfg stash root log = lateX x cfg stash root log) :
    treeX x' cfg src = treeX x cfg src := by
  rw [treeX_stages] at hto
  rw [treeX_stages, treeX_stages, h1]
  cases hp : prepareX x cfg src with
  | oof => rfl
  | ood => rfl
  | ok q =>
    obtain ⟨text, stash⟩ := q
    rw [hp] at hto
    simp only [] at hto ⊢
    rw [h2 text stash hp]
    cases hbs : blockStage x.tables x.footnotes x.blockCfg cfg text with
    | oof => rfl
    | ood => rfl
    | ok q =>
      obtain ⟨root, log⟩ := q
      rw [hbs] at hto
      simp only [] at hto ⊢
      rw [h3 text stash root log hp hbs hto]

/-- the reference run is not out of fuel in the tree stages when `convertX` gets there and is not out of fuel -/
theorem treeX_ne_oof (x : Exts) (cfg : Cfg) (src : Str) (hne : convertX x cfg src ≠ .oof)
    (hlt : ¬ src.contains '<' = true) (hb : ¬ Normalize.isBlankDoc src = true) : treeX x cfg src ≠ .oof := by
  intro e
  simp only [convertX, Exts.unsupported, Bool.false_eq_true, if_false, if_neg hlt, if_neg hb, e] at hne
  exact hne rfl

/-- `convertX_of_stages` when the stages after the block stage agree unless the reference run is out of fuel -/
theorem convertX_of_stages_fuel (x x' : Exts) (cfg : Cfg) (src : Str) (hne : convertX x cfg src ≠ .oof)
    (h1 : prepareX x' cfg src = prepareX x cfg src)
    (h2 : ∀ text stash, prepareX x cfg src = .ok (text, stash) →
      blockStage x'.tables x'.footnotes x'.blockCfg cfg text = blockStage x.tables x.footnotes x.blockCfg cfg text)
    (h3 : ∀ text stash root log, prepareX x cfg src = .ok (text, stash) →
      blockStage x.tables x.footnotes x.blockCfg cfg text = .ok (root, log) →
      lateX x cfg stash root log ≠ .oof → lateX x' cfg stash root log = lateX x cfg stash root log)
    (h4 : ∀ stash out, finishX x' cfg stash out = finishX x cfg stash out) :
    convertX x' cfg src = convertX x cfg src := by
  by_cases hlt : src.contains '<' = true
  · simp only [convertX, if_pos hlt]
  · by_cases hb : Normalize.isBlankDoc src = true
    · simp only [convertX, Exts.unsupported, Bool.false_eq_true, if_false, if_neg hlt, if_pos hb]
    · have ht := treeX_of_stages_fuel x x' cfg src (treeX_ne_oof x cfg src hne hlt hb) h1 h2 h3
      simp only [convertX, Exts.unsupported, ht, h4]
      rfl

/-- the stages after the block stage, with one more (dead) pattern in the table -/
theorem lateX_sim {G : Prop} {c : Char} (hs : G → SafeC c) (x x' : Exts) (cfg : Cfg) (stash : List Str) (root : Node)
    (log : Block.Refs) (a b : List PatK) (d : PatK)
    (h1 : (xcOf x cfg log).table = a ++ b)
    (h2 : xcOf x' cfg log = { xcOf x cfg log with table := a ++ d :: b })
    (hdead : ∀ data si xs, (G → c ∉ data) → (G → StashC c xs.st.stash) →
      findX (xcOf x' cfg log) d data si xs = some (none, xs))
    (hroot : G → DeepC c root)
    (hafter : ∀ t xs, InlineX.runX (xcOf x cfg log) root stash = some (t, xs) →
      afterInline x' cfg log t xs = afterInline x cfg log t xs)
    (hne : lateX x cfg stash root log ≠ .oof) :
    lateX x' cfg stash root log = lateX x cfg stash root log := by
  rw [lateX_eq] at hne
  rw [lateX_eq, lateX_eq]
  cases hrun : InlineX.runX (xcOf x cfg log) root stash with
  | none => rw [hrun] at hne; exact absurd rfl hne
  | some r =>
    have hsim : InlineX.runX (xcOf x' cfg log) root stash = some r := by
      refine runX_sim (G := G) (c := c) (p := a.length) (dead := d) hs ?_ ?_ ?_ ?_ ?_ hdead root stash hroot hrun
      · intro i
        rw [h2, h1]
        exact getElem?_insert a b d i
      · intro k data si xs
        rw [h2]
        cases k <;> rfl
      · rw [h1]; simp
      · rw [h2, h1]; simp; omega
      · rw [h2]
        exact getElem?_dead a b d
    rw [hsim]
    obtain ⟨t, xs⟩ := r
    exact hafter t xs hrun

/-! ### wikilinks -/

theorem wikiScan_none : ∀ (s : Str) (i : Nat), '[' ∉ s → wikiScan s i = none := by
  intro s
  induction s with
  | nil => intro i _; rfl
  | cons ch r ih =>
    intro i h
    have hch : ch ≠ '[' := fun e => h (e ▸ List.mem_cons_self)
    have hat : wikiAt (ch :: r) = none := by
      unfold wikiAt
      split
      · rename_i r' heq
        injection heq with e _
        exact absurd e hch
      · rfl
    simp only [wikiScan, hat]
    exact ih (i + 1) (fun hm => h (List.mem_cons_of_mem _ hm))

theorem blockSafe_bracket : BlockSafeC '[' where
  nl := by decide
  none_ := by decide
  ent := by decide
  lower := by
    intro d hd
    by_cases hc : d.toNat < 128
    · exact RefDef.char_of_ascii (fun d => d ≠ '[' → '[' ∉ lowerChar d) (by decide +kernel) d hc hd
    · simp only [lowerChar, hc, if_false]
      cases hf : Generated.Chars.lowerNonAscii.find? (fun p => p.1 = d.toNat) with
      | none => simp [hd.symm]
      | some p =>
        have hp := List.mem_of_find?_eq_some hf
        have hall : Generated.Chars.lowerNonAscii.all (fun p => p.2.all (fun n => Char.ofNat n != '[')) = true := by
          decide +kernel
        have := List.all_eq_true.mp hall p hp
        simp only [List.all_eq_true, bne_iff_ne, ne_eq] at this
        simp only [List.mem_map, not_exists, not_and]
        intro n hn he
        exact this n hn he
  upper := by
    intro d hd
    have : ∀ n, n < 128 → isAsciiLower (Char.ofNat n) = true → Char.ofNat (n - 32) ≠ '[' := by decide +kernel
    have hlt : d.toNat < 128 := by
      simp only [isAsciiLower, Bool.and_eq_true, decide_eq_true_eq, Char.le_def, UInt32.le_iff_toNat_le] at hd
      have h2 : ('z' : Char).val.toNat = 122 := by decide
      have : d.toNat = d.val.toNat := rfl
      omega
    have := this d.toNat hlt (by rwa [Char.ofNat_toNat])
    exact this
  fn1 := by decide
  fn2 := by decide

theorem safe_bracket : SafeC '[' where
  stx := by decide
  etx := by decide
  digit := by decide
  ph := by decide
  ent := by decide

/-- the part of the pattern table before the wikilink entry -/
def tableA (footnotes : Bool) : List PatK :=
  [PatK.core 0, PatK.core 1] ++ (if footnotes then [PatK.footnote] else []) ++ ((List.range' 2 11).map PatK.core)

/-- the part of the pattern table after the wikilink entry -/
def tableB (nl2br : Bool) : List PatK :=
  [PatK.core 13, PatK.core 14, PatK.core 15] ++ (if nl2br then [PatK.nl] else [])

theorem table_wiki_false (fn nl : Bool) : InlineX.table fn false nl = tableA fn ++ tableB nl := by
  simp [InlineX.table, tableA, tableB]

theorem table_wiki_true (fn nl : Bool) : InlineX.table fn true nl = tableA fn ++ PatK.wikilink :: tableB nl := by
  simp [InlineX.table, tableA, tableB]

/-- wikilinks is inert on a text without `[` (when the run without it is not out of fuel) -/
theorem convertX_wikilinks (x : Exts) (hx : x.wikilinks = false) (cfg : Cfg) (src : Str)
    (h : '[' ∉ Normalize.normalize cfg.tab src) (hne : convertX x cfg src ≠ .oof) :
    convertX { x with wikilinks := true } cfg src = convertX x cfg src := by
  have hc : Closed (NoC '[') := closed_noC '[' (by decide)
  have hp : PrepClosed (NoC '[') := prep_noC '[' (by decide) (by decide)
  apply convertX_of_stages_fuel _ _ _ _ hne
  · rfl
  · intro _ _ _; rfl
  · intro text stash root log hprep hb hlate
    have htext : NoC '[' text := prepareX_ok hc hp x cfg src hprep h
    have hroot : DeepC '[' root := blockStage_tree blockSafe_bracket _ _ _ cfg htext hb
    refine lateX_sim (G := True) (c := '[') (fun _ => safe_bracket) x _ cfg stash root log
      (tableA x.footnotes) (tableB x.nl2br) PatK.wikilink ?_ ?_ ?_ (fun _ => hroot) (fun _ _ _ => rfl) hlate
    · simp only [xcOf, hx]
      exact table_wiki_false _ _
    · simp only [xcOf, table_wiki_true]
      rfl
    · intro data si xs hd _
      simp only [findX]
      split
      · rfl
      · rw [wikiScan_none _ _ (fun hm => hd trivial ((List.drop_suffix _ _).subset hm))]
  · intro _ _; rfl

/-! ### nl2br -/

theorem safe_nl : SafeC '\n' where
  stx := by decide
  etx := by decide
  digit := by decide
  ph := by decide
  ent := by decide

theorem find_nl_none' : ∀ (s : Str), '\n' ∉ s → find ['\n'] s = none := by
  intro s
  induction s with
  | nil => intro _; rfl
  | cons ch r ih =>
    intro h
    have hch : ch ≠ '\n' := fun e => h (e ▸ List.mem_cons_self)
    simp [find, startsWith, hch, ih (fun hm => h (List.mem_cons_of_mem _ hm))]

theorem table_nl_false (fn wl : Bool) : InlineX.table fn wl false = InlineX.table fn wl false ++ [] := by simp

theorem table_nl_true (fn wl : Bool) : InlineX.table fn wl true = InlineX.table fn wl false ++ PatK.nl :: [] := by
  simp [InlineX.table]

/-- nl2br is inert when no text of the tree the inline stage is run on has a line feed (and the run without it is
    not out of fuel) -/
theorem convertX_nl2br (x : Exts) (hx : x.nl2br = false) (cfg : Cfg) (src : Str)
    (h : ∀ text stash root log, prepareX x cfg src = .ok (text, stash) →
      blockStage x.tables x.footnotes x.blockCfg cfg text = .ok (root, log) → DeepC '\n' root)
    (hne : convertX x cfg src ≠ .oof) :
    convertX { x with nl2br := true } cfg src = convertX x cfg src := by
  apply convertX_of_stages_fuel _ _ _ _ hne
  · rfl
  · intro _ _ _; rfl
  · intro text stash root log hprep hb hlate
    have hroot : DeepC '\n' root := h text stash root log hprep hb
    refine lateX_sim (G := True) (c := '\n') (fun _ => safe_nl) x _ cfg stash root log
      (InlineX.table x.footnotes x.wikilinks false) [] PatK.nl ?_ ?_ ?_ (fun _ => hroot) (fun _ _ _ => rfl) hlate
    · simp only [xcOf, hx]
      exact table_nl_false _ _
    · simp only [xcOf, table_nl_true]
      rfl
    · intro data si xs hd _
      simp only [findX]
      split
      · rfl
      · rw [find_nl_none' _ (fun hm => hd trivial ((List.drop_suffix _ _).subset hm))]
  · intro _ _; rfl

/-- the element tree the inline stage is run on (after the block parser and the footnote tree processor) -/
def blockTreeX (x : Exts) (cfg : Cfg) (src : Str) : Option Node :=
  match prepareX x cfg src with
  | .ok (text, _) =>
    match blockStage x.tables x.footnotes x.blockCfg cfg text with
    | .ok (root, _) => some root
    | _ => none
  | _ => none

/-- no text and no tail of that tree contains a line feed -/
def nlTriggerFree (x : Exts) (cfg : Cfg) (src : Str) : Bool :=
  match blockTreeX x cfg src with
  | some root => deepC '\n' root
  | none => true

theorem convertX_nl2br' (x : Exts) (hx : x.nl2br = false) (cfg : Cfg) (src : Str)
    (h : nlTriggerFree x cfg src = true) (hne : convertX x cfg src ≠ .oof) :
    convertX { x with nl2br := true } cfg src = convertX x cfg src := by
  apply convertX_nl2br x hx cfg src _ hne
  intro text stash root log hp hb
  simp only [nlTriggerFree, blockTreeX, hp, hb] at h
  exact h

end MdVerif.PipelineX
