/-
Helper lemmas for `Props/C16RenderG.lean`, part 7: unescape and the serializer on the document with footnotes — any
number of references and footnotes.

Core Lean only.
-/
import MdVerif.Lemmas.RenderGPretty

namespace MdVerif.RenderG
open Py Block BlockExt MdVerif.RenderX Inline InlineX
open MdVerif.Footnotes.Spec (refName)

/-! ### characters of attribute values and texts -/

/-- letters, digits, spaces, `:`, `#`, `-` -/
def AttrCh (c : Char) : Prop := DocSpec.isAlnumSp c = true ∨ c = ':' ∨ c = '#' ∨ c = '-'

theorem attrCh_facts {c : Char} (h : AttrCh c) : c ≠ '&' ∧ c ≠ '<' ∧ c ≠ '>' ∧ c ≠ '"' ∧ c ≠ TreeProc.STX := by
  rcases h with h | rfl | rfl | rfl
  · have f := alnumSp_quiet h
    exact ⟨f.2.2.2.1, f.2.2.2.2.1, f.2.2.2.2.2.1, f.2.2.2.2.2.2.1, f.2.2.1⟩
  · decide
  · decide
  · decide

theorem attrCh_append {a b : Str} (ha : ∀ c ∈ a, AttrCh c) (hb : ∀ c ∈ b, AttrCh c) : ∀ c ∈ a ++ b, AttrCh c := by
  intro c hc
  rcases List.mem_append.1 hc with h | h
  · exact ha c h
  · exact hb c h

theorem attrCh_cons {x : Char} {b : Str} (hx : AttrCh x) (hb : ∀ c ∈ b, AttrCh c) : ∀ c ∈ x :: b, AttrCh c := by
  intro c hc
  rcases List.mem_cons.1 hc with rfl | h
  · exact hx
  · exact hb c h

theorem attrCh_word {w : Str} (h : WordFacts w) : ∀ c ∈ w, AttrCh c := fun c hc => Or.inl (h.plain.chars c hc)

theorem attrCh_digits (n : Nat) : ∀ c ∈ natToDec n, AttrCh c := fun c hc => Or.inl (natToDec_alnumSp n c hc)

theorem attrCh_fnref : ∀ c ∈ Footnotes.fnref, AttrCh c := by
  intro c hc
  have : ∀ x ∈ Footnotes.fnref, DocSpec.isAlnumSp x = true := by decide
  exact Or.inl (this c hc)

theorem attrCh_refName (id : Str) (hid : WordFacts id) (k : Nat) : ∀ c ∈ refName id k, AttrCh c := by
  cases k with
  | zero => exact attrCh_append attrCh_fnref (attrCh_cons (Or.inr (Or.inl rfl)) (attrCh_word hid))
  | succ n =>
    exact attrCh_append (attrCh_append attrCh_fnref (attrCh_digits _)) (attrCh_cons (Or.inr (Or.inl rfl)) (attrCh_word hid))

theorem attrCh_fnId (id : Str) (hid : WordFacts id) : ∀ c ∈ Footnotes.footnoteId id, AttrCh c := by
  intro c hc
  simp only [Footnotes.footnoteId, List.mem_cons] at hc
  rcases hc with rfl | rfl | rfl | h
  · exact Or.inl (by decide)
  · exact Or.inl (by decide)
  · exact Or.inr (Or.inl rfl)
  · exact attrCh_word hid c h

theorem attrCh_backHrefs (id : Str) (hid : WordFacts id) (c : Nat) : ∀ h ∈ backHrefs id c, ∀ x ∈ h, AttrCh x := by
  intro h hh
  simp only [backHrefs, List.mem_cons, List.mem_map] at hh
  rcases hh with rfl | ⟨i, _, rfl⟩
  · exact attrCh_cons (Or.inr (Or.inr (Or.inl rfl)))
      (attrCh_append attrCh_fnref (attrCh_cons (Or.inr (Or.inl rfl)) (attrCh_word hid)))
  · exact attrCh_append (attrCh_append (attrCh_cons (Or.inr (Or.inr (Or.inl rfl))) attrCh_fnref) (attrCh_digits _))
      (attrCh_cons (Or.inr (Or.inl rfl)) (attrCh_word hid))

theorem attrCh_title (index : Nat) : ∀ c ∈ titleOf index, AttrCh c := by
  have h1 : ∀ x ∈ "Jump back to footnote ".toList, DocSpec.isAlnumSp x = true := by decide
  have h2 : ∀ x ∈ " in the text".toList, DocSpec.isAlnumSp x = true := by decide
  exact attrCh_append (attrCh_append (fun c hc => Or.inl (h1 c hc)) (attrCh_digits _)) (fun c hc => Or.inl (h2 c hc))

theorem noStx_of_attrCh {s : Str} (h : ∀ c ∈ s, AttrCh c) : TreeProc.STX ∉ s :=
  fun hm => (attrCh_facts (h _ hm)).2.2.2.2 rfl

theorem escAttr_of_attrCh {s : Str} (h : ∀ c ∈ s, AttrCh c) : Ser.escAttrHtml s = s :=
  escAttrHtml_plain s (fun c hc => let f := attrCh_facts (h c hc); ⟨f.1, f.2.1, f.2.2.1, f.2.2.2.1⟩)

theorem escCdata_of_attrCh {s : Str} (h : ∀ c ∈ s, AttrCh c) : Ser.escCdata s = s :=
  CodeLaw.escCdata_plain s (fun c hc => let f := attrCh_facts (h c hc); ⟨f.1, f.2.1, f.2.2.1⟩)

/-! ### unescape -/

theorem unescAttrs_id (attrs : List (Str × Str)) (h : ∀ kv ∈ attrs, TreeProc.STX ∉ kv.2) :
    TreeProc.unescAttrs attrs = some attrs := by
  induction attrs with
  | nil => rfl
  | cons kv r ih =>
    obtain ⟨k, v⟩ := kv
    simp only [TreeProc.unescAttrs, CodeLaw.unescapeText_id v (h (k, v) List.mem_cons_self),
      ih (fun x hx => h x (List.mem_cons_of_mem _ hx))]

/-- `UnescapeTreeprocessor` leaves an element alone when it leaves its parts alone -/
theorem unescape_el (tag : Tag) (attrs : List (Str × Str)) (text : Option Str) (kids : List Node) (tail : Option Str)
    (ha : TreeProc.unescAttrs attrs = some attrs) (hk : TreeProc.unescapeKids kids = some kids)
    (ht : ∀ s, text = some s → TreeProc.unescapeText 0 s = some s)
    (htl : ∀ s, tail = some s → TreeProc.unescapeText 0 s = some s) :
    TreeProc.unescapeTree ⟨tag, attrs, text, false, kids, tail, false⟩ = some ⟨tag, attrs, text, false, kids, tail, false⟩ := by
  have h1 : (if (Node.truthy text && !(tag == .name "code".toList)) = true then
      (TreeProc.unescapeText 0 (text.getD [])).map some else some text) = some text := by
    cases text with
    | none => simp [Node.truthy]
    | some s =>
      split
      · simp [ht s rfl]
      · rfl
  have h2 : (if Node.truthy tail = true then (TreeProc.unescapeText 0 (tail.getD [])).map some else some tail) = some tail := by
    cases tail with
    | none => simp [Node.truthy]
    | some s =>
      split
      · simp [htl s rfl]
      · rfl
  simp only [TreeProc.unescapeTree, h1, h2, ha, hk, ite_self]

theorem unescapeKids_all (ks : List Node) (h : ∀ c ∈ ks, TreeProc.unescapeTree c = some c) :
    TreeProc.unescapeKids ks = some ks := by
  induction ks with
  | nil => rfl
  | cons c r ih =>
    simp only [TreeProc.unescapeKids, h c List.mem_cons_self, ih (fun x hx => h x (List.mem_cons_of_mem _ hx))]

theorem unescape_sup (refId id num u : Str) (h1 : ∀ c ∈ refId, AttrCh c) (h2 : WordFacts id) (h3 : ∀ c ∈ num, AttrCh c)
    (h4 : ∀ c ∈ u, AttrCh c) :
    TreeProc.unescapeTree (withTail (supG refId id num) u) = some (withTail (supG refId id num) u) := by
  have ha : TreeProc.unescapeTree (⟨.name "a".toList,
      [("href".toList, '#' :: Footnotes.footnoteId id), ("class".toList, "footnote-ref".toList)], some num, false, [], none,
      false⟩ : Node) = some ⟨.name "a".toList,
      [("href".toList, '#' :: Footnotes.footnoteId id), ("class".toList, "footnote-ref".toList)], some num, false, [], none,
      false⟩ :=
    unescape_el _ _ _ _ _ (unescAttrs_id _ (by
      intro kv hkv
      simp only [List.mem_cons, List.mem_nil_iff, or_false] at hkv
      rcases hkv with rfl | rfl
      · exact noStx_of_attrCh (attrCh_cons (Or.inr (Or.inr (Or.inl rfl))) (attrCh_fnId id h2))
      · decide)) rfl
      (fun s hs => by cases hs; exact CodeLaw.unescapeText_id _ (noStx_of_attrCh h3)) (fun s hs => by cases hs)
  have hattr : TreeProc.unescAttrs [("id".toList, refId)] = some [("id".toList, refId)] :=
    unescAttrs_id _ (by intro kv hkv; simp at hkv; subst hkv; exact noStx_of_attrCh h1)
  unfold withTail
  split
  · exact unescape_el _ _ _ _ _ hattr (unescapeKids_all _ (by intro c hc; simp at hc; subst hc; exact ha))
      (fun s hs => by cases hs) (fun s hs => by cases hs)
  · exact unescape_el _ _ _ _ _ hattr (unescapeKids_all _ (by intro c hc; simp [supG] at hc; subst hc; exact ha))
      (fun s hs => by cases hs) (fun s hs => by cases hs; exact CodeLaw.unescapeText_id _ (noStx_of_attrCh h4))

/-- the items: `sup` elements whose ids, labels and numbers are plain -/
structure ItemsPlain (items : List (Node × Str)) : Prop where
  sup : ∀ it ∈ items, ∃ refId id num, it.1 = supG refId id num ∧ (∀ c ∈ refId, AttrCh c) ∧ WordFacts id ∧
    (∀ c ∈ num, AttrCh c) ∧ "id".toList ≠ refId
  tails : ∀ it ∈ items, ∀ c ∈ it.2, DocSpec.isAlnumSp c = true

theorem id_ne_refName (id : Str) (k : Nat) : "id".toList ≠ refName id k := by
  intro e
  have := congrArg List.head? e
  cases k <;> simp [refName, Footnotes.fnref] at this

theorem itemsPlain_refItemsE (keys : List Str) : ∀ (segs : List (Str × Str)) (hist : List Str), SegsOK segs →
    ItemsPlain (refItemsE keys segs hist) := by
  intro segs
  induction segs with
  | nil => intro hist _; exact ⟨by simp [refItemsE], by simp [refItemsE]⟩
  | cons s r ih =>
    intro hist hs
    have h := ih (s.1 :: hist) hs.tail
    have hid := hs.ids s List.mem_cons_self
    refine ⟨?_, ?_⟩
    · intro it hit
      simp only [refItemsE, List.mem_cons] at hit
      rcases hit with rfl | hit
      · exact ⟨_, _, _, rfl, attrCh_refName s.1 hid _, hid, attrCh_digits _, id_ne_refName _ _⟩
      · exact h.sup it hit
    · intro it hit
      simp only [refItemsE, List.mem_cons] at hit
      rcases hit with rfl | hit
      · exact hs.tails s List.mem_cons_self
      · exact h.tails it hit

theorem unescapeKids_sups (items : List (Node × Str)) (h : ItemsPlain items) :
    TreeProc.unescapeKids (supKids items) = some (supKids items) := by
  apply unescapeKids_all
  intro c hc
  obtain ⟨it, hit, rfl⟩ := List.mem_map.1 hc
  obtain ⟨refId, id, num, e, h1, h2, h3, _⟩ := h.sup it hit
  rw [e]
  exact unescape_sup refId id num it.2 h1 h2 h3 (fun c hc => Or.inl (h.tails it hit c hc))

theorem unescape_back (index : Nat) (href : Str) (h : ∀ c ∈ href, AttrCh c) :
    TreeProc.unescapeTree (backN index href) = some (backN index href) := by
  have u4 : TreeProc.unescapeText 0 FootnotesTree.fnBacklinkText = some FootnotesTree.fnBacklinkText := by decide
  exact unescape_el _ _ _ _ _ (unescAttrs_id _ (by
      intro kv hkv
      simp only [List.mem_cons, List.mem_nil_iff, or_false] at hkv
      rcases hkv with rfl | rfl | rfl
      · exact noStx_of_attrCh h
      · decide
      · exact noStx_of_attrCh (attrCh_title index))) rfl
    (fun s hs => by cases hs; exact u4) (fun s hs => by cases hs)

theorem unescape_li (id note : Str) (index c : Nat) (hid : WordFacts id) (hn : PlainFacts note) :
    TreeProc.unescapeTree (liFin id note index c) = some (liFin id note index c) := by
  have t3 : TreeProc.unescapeText 0 ['\n'] = some ['\n'] := by decide
  have u3 : TreeProc.unescapeText 0 (note ++ FootnotesTree.nbspPlaceholder) = some (note ++ FootnotesTree.nbspPlaceholder) := by
    rw [unescapeText_prefix _ _ hn.noStx, show TreeProc.unescapeText 0 FootnotesTree.nbspPlaceholder =
      some FootnotesTree.nbspPlaceholder by decide]
    rfl
  have hp : TreeProc.unescapeTree (⟨.name "p".toList, [], some (note ++ FootnotesTree.nbspPlaceholder), false,
      (backHrefs id c).map (backN index), some ['\n'], false⟩ : Node) = some ⟨.name "p".toList, [],
      some (note ++ FootnotesTree.nbspPlaceholder), false, (backHrefs id c).map (backN index), some ['\n'], false⟩ :=
    unescape_el _ _ _ _ _ rfl (unescapeKids_all _ (by
      intro x hx
      obtain ⟨h, hh, rfl⟩ := List.mem_map.1 hx
      exact unescape_back index h (attrCh_backHrefs id hid c h hh)))
      (fun s hs => by cases hs; exact u3) (fun s hs => by cases hs; exact t3)
  exact unescape_el _ _ _ _ _ (unescAttrs_id _ (by
      intro kv hkv; simp at hkv; subst hkv; exact noStx_of_attrCh (attrCh_fnId id hid)))
    (unescapeKids_all _ (by intro x hx; simp at hx; subst hx; exact hp))
    (fun s hs => by cases hs; exact t3) (fun s hs => by cases hs; exact t3)

theorem unescapeKids_lis (cnt : Str → Nat) : ∀ (defs : List (Str × Str)) (i : Nat), DefsOK defs →
    TreeProc.unescapeKids (lisFin cnt defs i) = some (lisFin cnt defs i) := by
  intro defs
  induction defs with
  | nil => intro i _; rfl
  | cons d r ih =>
    intro i hd
    simp only [lisFin, TreeProc.unescapeKids, unescape_li d.1 d.2 i (cnt d.1) (hd.ids d List.mem_cons_self)
      (hd.notes d List.mem_cons_self), ih (i + 1) hd.tail]

theorem unescapeTree_fnG (t : Str) (items : List (Node × Str)) (cnt : Str → Nat) (defs : List (Str × Str))
    (ht : PlainFacts t) (hI : ItemsPlain items) (hd : DefsOK defs) :
    TreeProc.unescapeTree (fnFinG t (supKids items) (lisFin cnt defs 1)) =
      some (fnFinG t (supKids items) (lisFin cnt defs 1)) := by
  have t3 : TreeProc.unescapeText 0 ['\n'] = some ['\n'] := by decide
  have hP : TreeProc.unescapeTree (⟨.name "p".toList, [], some t, false, supKids items, some ['\n'], false⟩ : Node) =
      some ⟨.name "p".toList, [], some t, false, supKids items, some ['\n'], false⟩ :=
    unescape_el _ _ _ _ _ rfl (unescapeKids_sups items hI)
      (fun s hs => by cases hs; exact CodeLaw.unescapeText_id _ ht.noStx) (fun s hs => by cases hs; exact t3)
  have hHr : TreeProc.unescapeTree (⟨.name "hr".toList, [], none, false, [], some ['\n'], false⟩ : Node) =
      some ⟨.name "hr".toList, [], none, false, [], some ['\n'], false⟩ :=
    unescape_el _ _ _ _ _ rfl rfl (fun s hs => by cases hs) (fun s hs => by cases hs; exact t3)
  have hOl : TreeProc.unescapeTree (⟨.name "ol".toList, [], some ['\n'], false, lisFin cnt defs 1, some ['\n'], false⟩ : Node) =
      some ⟨.name "ol".toList, [], some ['\n'], false, lisFin cnt defs 1, some ['\n'], false⟩ :=
    unescape_el _ _ _ _ _ rfl (unescapeKids_lis cnt defs 1 hd)
      (fun s hs => by cases hs; exact t3) (fun s hs => by cases hs; exact t3)
  have hD : TreeProc.unescapeTree (⟨.name "div".toList, [("class".toList, "footnote".toList)], some ['\n'], false,
      [⟨.name "hr".toList, [], none, false, [], some ['\n'], false⟩,
       ⟨.name "ol".toList, [], some ['\n'], false, lisFin cnt defs 1, some ['\n'], false⟩], some ['\n'], false⟩ : Node) =
      some ⟨.name "div".toList, [("class".toList, "footnote".toList)], some ['\n'], false,
      [⟨.name "hr".toList, [], none, false, [], some ['\n'], false⟩,
       ⟨.name "ol".toList, [], some ['\n'], false, lisFin cnt defs 1, some ['\n'], false⟩], some ['\n'], false⟩ :=
    unescape_el _ _ _ _ _ (unescAttrs_id _ (by intro kv hkv; simp at hkv; subst hkv; decide))
      (by simp only [TreeProc.unescapeKids, hHr, hOl])
      (fun s hs => by cases hs; exact t3) (fun s hs => by cases hs; exact t3)
  exact unescape_el _ _ _ _ _ rfl (by simp only [TreeProc.unescapeKids, hP, hD])
    (fun s hs => by cases hs; exact t3) (fun s hs => by cases hs; exact t3)

end MdVerif.RenderG
