/-
Helper lemmas for the fenced-code part of C03.  Core Lean only.
-/
import MdVerif.Model.Ext.FencedCode

namespace MdVerif.Fenced
open Py Code

/-! ### lines -/

/-- characters of a list of lines, one separator counted after each -/
def total : List Str → Nat
  | [] => 0
  | l :: r => l.length + 1 + total r

theorem splitC_ne_nil (ch : Char) (s : Str) : splitC ch s ≠ [] := by
  cases s with
  | nil => simp [splitC]
  | cons c r =>
    simp only [splitC]
    split
    · simp
    · split <;> simp

theorem total_splitC (ch : Char) (s : Str) : total (splitC ch s) = s.length + 1 := by
  induction s with
  | nil => rfl
  | cons c r ih =>
    simp only [splitC]
    split
    · rename_i h; exact absurd h (splitC_ne_nil ch r)
    · rename_i p ps h
      rw [h] at ih
      split <;> simp [total] at ih ⊢ <;> omega

theorem splitC_append (ch : Char) (a c : Str) : splitC ch (a ++ ch :: c) = splitC ch a ++ splitC ch c := by
  induction a with
  | nil =>
    simp only [List.nil_append, splitC]
    split
    · rename_i h; exact absurd h (splitC_ne_nil ch c)
    · rename_i p ps h; simp [h]
  | cons x a ih =>
    simp only [List.cons_append, splitC, ih]
    cases h : splitC ch a with
    | nil => exact absurd h (splitC_ne_nil ch a)
    | cons p ps =>
      simp only [List.cons_append]
      split <;> rfl

theorem splitC_no_sep (ch : Char) (s : Str) (h : ∀ c ∈ s, c ≠ ch) : splitC ch s = [s] := by
  induction s with
  | nil => rfl
  | cons c r ih =>
    have hc : c ≠ ch := h c (by simp)
    simp [splitC, ih (fun x hx => h x (by simp [hx])), hc]

/-! ### the closing line -/

theorem closeLines_bound (fence : Str) (off : Nat) (ls : List Str) (cl ll : Nat)
    (h : closeLines fence off ls = some (cl, ll)) : off ≤ cl ∧ (cl - off) + ll + 1 ≤ total ls := by
  induction ls generalizing off with
  | nil => simp [closeLines] at h
  | cons l r ih =>
    simp only [closeLines] at h
    split at h
    · simp only [Option.some.injEq, Prod.mk.injEq] at h
      simp only [total]; omega
    · have := ih _ h
      simp only [total]; omega

theorem closeLines_skip (fence : Str) (off : Nat) (ls rest : List Str)
    (h : ∀ l ∈ ls, isClose fence l = false) :
    closeLines fence off (ls ++ rest) = closeLines fence (off + total ls) rest := by
  induction ls generalizing off with
  | nil => simp [total]
  | cons l r ih =>
    have hl : isClose fence l = false := h l (by simp)
    simp only [List.cons_append, closeLines, hl, total]
    rw [ih _ (fun x hx => h x (by simp [hx]))]
    have e : off + l.length + 1 + total r = off + (l.length + 1 + total r) := by omega
    rw [e]; simp

theorem startsWith_self (s : Str) : startsWith s s = true := by
  induction s with
  | nil => rfl
  | cons c r ih => simp [startsWith, ih]

theorem isClose_self (f : Str) : isClose f f = true := by
  simp [isClose, startsWith_self]

/-! ### bounds of a match: non-empty, inside the text, not before `index` -/

theorem spanLen_le (p : Char → Bool) (s : Str) : spanLen p s ≤ s.length := by
  induction s with
  | nil => simp [spanLen]
  | cons c r ih => simp only [spanLen]; split <;> simp <;> omega

theorem fenceRun_le (s : Str) : fenceRun s ≤ s.length := by
  unfold fenceRun
  split
  · exact spanLen_le _ _
  · exact spanLen_le _ _
  · omega

theorem tryCand_bounds (n : Nat) (fence a : Str) (c : Cand) (m : FenceMatch)
    (h : tryCand n fence a c = some m) : m.start = 0 ∧ n ≤ m.stop ∧ m.stop ≤ n + a.length := by
  unfold tryCand at h
  split at h
  · rename_i body hb
    split at h
    · rename_i cl ll hc
      simp only [Option.some.injEq] at h
      subst h
      have hb2 := closeLines_bound _ _ _ _ _ hc
      rw [lines, total_splitC] at hb2
      have hlen : (a.drop c.p).length = body.length + 1 := by rw [hb]; simp
      rw [List.length_drop] at hlen
      refine ⟨rfl, ?_, ?_⟩ <;> dsimp only <;> omega
    · simp at h
  · simp at h

theorem fenceAt_bounds (s : Str) (m : FenceMatch) (h : fenceAt s = some m) :
    m.start = 0 ∧ 3 ≤ m.stop ∧ m.stop ≤ s.length := by
  unfold fenceAt at h
  simp only at h
  split at h
  · simp at h
  · rename_i hn
    obtain ⟨c, _, hc⟩ := List.exists_of_findSome?_eq_some h
    have hb := tryCand_bounds _ _ _ _ _ hc
    have hle := fenceRun_le s
    rw [List.length_drop] at hb
    omega

theorem fenceScan_bounds (bol : Bool) (off : Nat) (s : Str) (m : FenceMatch)
    (h : fenceScan bol off s = some m) : off ≤ m.start ∧ m.start + 3 ≤ m.stop ∧ m.stop ≤ off + s.length := by
  induction s generalizing bol off with
  | nil => simp [fenceScan] at h
  | cons c r ih =>
    simp only [fenceScan] at h
    split at h
    · rename_i m0 hm0
      simp only [Option.some.injEq] at h
      subst h
      have : fenceAt (c :: r) = some m0 := by
        split at hm0
        · exact hm0
        · simp at hm0
      have hb := fenceAt_bounds _ _ this
      simp only [List.length_cons] at hb ⊢
      omega
    · have := ih _ _ h
      simp only [List.length_cons]
      omega

theorem fenceFindFrom_bounds (text : Str) (index : Nat) (m : FenceMatch)
    (h : fenceFindFrom text index = some m) :
    index ≤ m.start ∧ m.start + 3 ≤ m.stop ∧ m.stop ≤ text.length := by
  unfold fenceFindFrom at h
  have := fenceScan_bounds _ _ _ _ h
  rw [List.length_drop] at this
  omega

/-! ### the loop never runs out of fuel -/

theorem fencedLoop_stable (f1 f2 : Nat) (text : Str) (index : Nat) (stash : List Str)
    (h1 : text.length - index < f1) (h2 : text.length - index < f2) :
    fencedLoop f1 text index stash = fencedLoop f2 text index stash ∧
    fencedLoop f1 text index stash ≠ .fuel := by
  induction f1 generalizing f2 text index stash with
  | zero => omega
  | succ k ih =>
    cases f2 with
    | zero => omega
    | succ j =>
      simp only [fencedLoop]
      split
      · simp
      · rename_i m hm
        split
        · simp
        · have hb := fenceFindFrom_bounds _ _ _ hm
          apply ih
          · simp only [List.length_append, List.length_cons, List.length_take, List.length_drop]
            omega
          · simp only [List.length_append, List.length_cons, List.length_take, List.length_drop]
            omega

/-! ### a block whose body has no closing line -/

theorem spanLen_replicate (p : Char → Bool) (n : Nat) (ch d : Char) (r : Str) (hp : p ch = true) (hd : p d = false) :
    spanLen p (List.replicate n ch ++ d :: r) = n := by
  induction n with
  | zero => simp [spanLen, hd]
  | succ k ih => simp [List.replicate_succ, spanLen, hp, ih]

theorem fenceRun_fence (n : Nat) (ch : Char) (r : Str) (hch : ch = '~' ∨ ch = '`') (hn : 1 ≤ n) :
    fenceRun (List.replicate n ch ++ '\n' :: r) = n := by
  obtain ⟨k, rfl⟩ : ∃ k, n = k + 1 := ⟨n - 1, by omega⟩
  rcases hch with rfl | rfl
  · have := spanLen_replicate (· = '~') (k + 1) '~' '\n' r (by decide) (by decide)
    simpa [fenceRun, List.replicate_succ] using this
  · have := spanLen_replicate (· = '`') (k + 1) '`' '\n' r (by decide) (by decide)
    simpa [fenceRun, List.replicate_succ] using this

theorem isLangChar_nl : isLangChar '\n' = false := by decide

theorem hlCands_nl (r : Str) (base : Nat) : hlCands ('\n' :: r) base = [(none, base)] := by
  simp [hlCands, startsWith]

theorem langCands_nl (r : Str) : langCands ('\n' :: r) 0 = [(some [], none, 0), (none, none, 0)] := by
  have h1 : startsWith ('\n' :: r) ['.'] = false := by simp [startsWith]
  have h2 : spanLen isLangChar ('\n' :: r) = 0 := by simp [spanLen, isLangChar_nl]
  have h3 : spanLen isSp ('\n' :: r) = 0 := by simp [spanLen, isSp]
  unfold langCands
  rw [h1]
  simp only [Bool.false_eq_true, if_false, List.flatMap_cons, List.flatMap_nil, List.drop_zero, h2, descTo,
    Nat.add_zero, h3, hlCands_nl, List.map_cons, List.map_nil, List.append_nil, List.take_zero]
  rfl

/-- the opening line is the bare fence: the first way of matching it is "lang form, empty name, no hl_lines" -/
theorem openCands_newline (r : Str) :
    openCands ('\n' :: r) = [⟨none, some [], none, 0⟩, ⟨none, none, none, 0⟩] := by
  have h3 : spanLen isSp ('\n' :: r) = 0 := by simp [spanLen, isSp]
  unfold openCands
  rw [h3]
  have h4 : attrCands ('\n' :: r) 0 = [] := by
    unfold attrCands
    split
    · rename_i heq; simp at heq
    · rfl
  simp only [descTo, List.flatMap_cons, List.flatMap_nil, List.drop_zero, langCands_nl, h4,
    List.map_cons, List.map_nil, List.append_nil, List.nil_append]

theorem take_body (b rest : Str) : (b ++ '\n' :: rest).take (b.length + 1) = b ++ ['\n'] := by
  induction b with
  | nil => simp
  | cons c r ih => simpa using ih

theorem fenceAt_nil : fenceAt [] = none := by simp [fenceAt, fenceRun]

theorem fenceScan_at (s : Str) (off : Nat) (m : FenceMatch) (h : fenceAt s = some m) :
    fenceScan true off s = some { m with start := off, stop := off + m.stop } := by
  cases s with
  | nil => rw [fenceAt_nil] at h; simp at h
  | cons c r => simp [fenceScan, h]

theorem mem_replicate_ne_nl (n : Nat) (ch : Char) (hch : ch = '~' ∨ ch = '`') :
    ∀ c ∈ List.replicate n ch, c ≠ '\n' := by
  intro c hc
  rw [List.mem_replicate] at hc
  rcases hch with rfl | rfl <;> (rw [hc.2]; decide)

theorem fenceAt_block (n : Nat) (ch : Char) (b post : Str) (hch : ch = '~' ∨ ch = '`') (hn : 3 ≤ n)
    (hb : ∀ l ∈ lines b, isClose (List.replicate n ch) l = false) :
    fenceAt (List.replicate n ch ++ '\n' :: (b ++ '\n' :: (List.replicate n ch ++ '\n' :: post))) =
      some ⟨0, n + 1 + (b.length + 1) + n, List.replicate n ch, none, some [], none, b ++ ['\n']⟩ := by
  have hrun := fenceRun_fence n ch (b ++ '\n' :: (List.replicate n ch ++ '\n' :: post)) hch (by omega)
  have hlines : lines (b ++ '\n' :: (List.replicate n ch ++ '\n' :: post)) =
      lines b ++ (List.replicate n ch :: lines post) := by
    simp only [lines]
    rw [splitC_append, splitC_append, splitC_no_sep _ _ (mem_replicate_ne_nl n ch hch)]
    rfl
  unfold fenceAt
  simp only [hrun]
  rw [if_neg (by omega)]
  have hdrop : (List.replicate n ch ++ '\n' :: (b ++ '\n' :: (List.replicate n ch ++ '\n' :: post))).drop n =
      '\n' :: (b ++ '\n' :: (List.replicate n ch ++ '\n' :: post)) := by
    rw [List.drop_append_of_le_length (by simp)]; simp
  have htake : (List.replicate n ch ++ '\n' :: (b ++ '\n' :: (List.replicate n ch ++ '\n' :: post))).take n =
      List.replicate n ch := by
    rw [List.take_append_of_le_length (by simp)]; simp
  rw [hdrop, htake, openCands_newline]
  simp only [List.findSome?_cons, tryCand, List.drop_zero, hlines]
  rw [closeLines_skip _ _ _ _ hb]
  simp only [closeLines, isClose_self, if_true, lines, total_splitC, List.length_replicate, Nat.zero_add,
    take_body]

theorem fenceFind_block (n : Nat) (ch : Char) (b post : Str) (hch : ch = '~' ∨ ch = '`') (hn : 3 ≤ n)
    (hb : ∀ l ∈ lines b, isClose (List.replicate n ch) l = false) :
    fenceFind (List.replicate n ch ++ '\n' :: (b ++ '\n' :: (List.replicate n ch ++ '\n' :: post))) =
      some ⟨0, n + 1 + (b.length + 1) + n, List.replicate n ch, none, some [], none, b ++ ['\n']⟩ := by
  have h := fenceScan_at _ 0 _ (fenceAt_block n ch b post hch hn hb)
  simp only [fenceFind, fenceFindFrom, List.drop_zero]
  simpa using h

theorem pre_code_open : "<pre><code".toList ++ ['>'] = "<pre><code>".toList := by decide

theorem blockHtml_nolang (code : Str) :
    blockHtml [] code = "<pre><code>".toList ++ fenceEscape code ++ "</code></pre>".toList := by
  unfold blockHtml
  rw [← pre_code_open]
  simp only [List.isEmpty_nil, if_true, List.append_nil, List.append_assoc]

/-- after the block has been replaced nothing is left to find -/
theorem find_after_placeholder :
    fenceFindFrom ('\n' :: (placeholder 0 ++ ['\n', '\n'])) (0 + 1 + (placeholder 0).length) = none := by
  decide

theorem fencedRun_block (n : Nat) (ch : Char) (b : Str) (hch : ch = '~' ∨ ch = '`') (hn : 3 ≤ n)
    (hb : ∀ l ∈ lines b, isClose (List.replicate n ch) l = false) :
    fencedRun (List.replicate n ch ++ '\n' :: (b ++ '\n' :: (List.replicate n ch ++ ['\n']))) =
      .ok ('\n' :: (placeholder 0 ++ ['\n', '\n'])) [blockHtml [] (b ++ ['\n'])] := by
  have hf := fenceFind_block n ch b [] hch hn hb
  have hdrop : (List.replicate n ch ++ '\n' :: (b ++ '\n' :: (List.replicate n ch ++ ['\n']))).drop
      (n + 1 + (b.length + 1) + n) = ['\n'] := by
    have e : List.replicate n ch ++ '\n' :: (b ++ '\n' :: (List.replicate n ch ++ ['\n'])) =
        (List.replicate n ch ++ '\n' :: (b ++ '\n' :: List.replicate n ch)) ++ ['\n'] := by simp
    rw [e]
    apply List.drop_left'
    simp; omega
  unfold fencedRun
  simp only [List.length_append, List.length_cons, List.length_replicate, List.length_nil]
  rw [fencedLoop]
  rw [show fenceFindFrom _ 0 = fenceFind _ from rfl, hf]
  simp only [Option.getD_none, Option.getD_some, List.isEmpty_nil, Bool.not_true, Bool.false_eq_true, if_false,
    List.take_zero, List.nil_append, hdrop, List.length_nil]
  rw [show n + (b.length + (n + (0 + 1) + 1) + 1) = (n + (b.length + (n + (0 + 1) + 1))) + 1 from by omega,
    fencedLoop, find_after_placeholder]

end MdVerif.Fenced
