/-
Helper lemmas for `Props/C16RenderG.lean`, part 20: definition lists with several groups and loose definitions —
`convertX` end to end.

Core Lean only.
-/
import MdVerif.Lemmas.RenderGDef4

namespace MdVerif.RenderG
open Py Block BlockExt MdVerif.RenderX

/-- the blocks of a group as lists of lines -/
def groupBlockLines (tab : Nat) (g : DGroup) : List (List Str) :=
  ((g.t0 :: g.tr) ++ (g.d :: g.ds).map defLine) :: g.conts.map (fun p => CodeLaw.indentLines tab (pLines p))

theorem groupBlocks_lines (tab : Nat) (g : DGroup) : groupBlocks tab g = (groupBlockLines tab g).map joinLines := by
  simp only [groupBlocks, groupBlockLines, List.map_cons, List.map_map]
  rfl

theorem flatMap_blocks_lines (tab : Nat) (gs : List DGroup) :
    gs.flatMap (groupBlocks tab) = (gs.flatMap (groupBlockLines tab)).map joinLines := by
  induction gs with
  | nil => rfl
  | cons g r ih => simp only [List.flatMap_cons, List.map_append, groupBlocks_lines, ih]

/-- all the items of the groups -/
def allItems (gs : List DGroup) : List DItem := gs.flatMap groupItems

theorem flatMap_kids_items (gs : List DGroup) : gs.flatMap groupKids = (allItems gs).map DItem.node := by
  induction gs with
  | nil => rfl
  | cons g r ih => simp only [allItems, List.flatMap_cons, List.map_append, groupKids_items] at ih ⊢; rw [ih]

theorem convertX_defG (x : PipelineX.Exts) (hdef : x.defList = true) (hnl : x.nl2br = false)
    (hf : x.fencedCode = false) (htb : x.tables = false) (hal : x.attrList = false) (htoc : x.toc = false)
    (cfg : Pipeline.Cfg) (hbl : cfg.blockLevel = TreeProc.defaultBlockLevel) (htab : 0 < cfg.tab)
    (g0 : DGroup) (gr : List DGroup) (h0 : GroupOK g0) (hr : ∀ g ∈ gr, GroupOK g) :
    PipelineX.convertX x cfg (defSrcG cfg.tab g0 gr) = .ok (defOutG (allItems (g0 :: gr))) := by
  have hall : ∀ g ∈ g0 :: gr, GroupOK g := by
    intro g hg
    rcases List.mem_cons.1 hg with rfl | hg
    · exact h0
    · exact hr g hg
  -- the front
  have hblocks : ∀ bl ∈ (g0 :: gr).flatMap (groupBlockLines cfg.tab), bl ≠ [] := by
    intro bl hbl'
    obtain ⟨g, _, hb⟩ := List.mem_flatMap.1 hbl'
    simp only [groupBlockLines, List.mem_cons, List.mem_map] at hb
    rcases hb with rfl | ⟨p, _, rfl⟩ <;> simp [CodeLaw.indentLines, pLines]
  have hne : (g0 :: gr).flatMap (groupBlockLines cfg.tab) ≠ [] := by simp [groupBlockLines]
  obtain ⟨b0, br, hbb⟩ : ∃ b0 br, (g0 :: gr).flatMap (groupBlockLines cfg.tab) = b0 :: br := by
    cases h : (g0 :: gr).flatMap (groupBlockLines cfg.tab) with
    | nil => exact absurd h hne
    | cons a b => exact ⟨a, b, rfl⟩
  have hsrc : defSrcG cfg.tab g0 gr = joinLines (chunkLines ((g0 :: gr).flatMap (groupBlockLines cfg.tab))) := by
    rw [← joinChunks_joinLines _ hblocks, ← flatMap_blocks_lines]; rfl
  obtain ⟨s1, s2, s3, s4, s5⟩ := front_lines cfg.tab (chunkLines ((g0 :: gr).flatMap (groupBlockLines cfg.tab)))
    (by rw [hbb]; exact chunkLines_ne _ _ (hblocks b0 (by rw [hbb]; simp)))
    (by
      intro l hl
      rcases mem_chunkLines _ l hl with rfl | ⟨bl, hbl', hlb⟩
      · exact safeLine_nil
      · obtain ⟨g, hg, hb⟩ := List.mem_flatMap.1 hbl'
        have hgo := hall g hg
        simp only [groupBlockLines, List.mem_cons, List.mem_map] at hb
        rcases hb with rfl | ⟨p, hp, rfl⟩
        · rcases List.mem_append.1 hlb with h | h
          · exact (hgo.terms l h).safeLine
          · obtain ⟨y, hy, rfl⟩ := List.mem_map.1 h
            exact safeLine_defLine y (hgo.defs y hy)
        · obtain ⟨y, hy, rfl⟩ := List.mem_map.1 hlb
          exact safeLine_indent cfg.tab y (hgo.conts p hp y hy))
    (by
      have ht0 := h0.terms g0.t0 List.mem_cons_self
      obtain ⟨a, b, hab⟩ : ∃ a b, g0.t0 = a :: b := by
        cases h : g0.t0 with
        | nil => exact absurd h ht0.ne
        | cons a b => exact ⟨a, b, rfl⟩
      refine ⟨a, ?_, DocParse.alnum_visible a (ht0.chars a (by rw [hab]; simp)) (ht0.head a (by rw [hab]; rfl))⟩
      rw [← hsrc]
      have hin : ∀ (L : Str) (r : List Str), a ∈ L → a ∈ DocParse.joinChunks (L :: r) := by
        intro L r h
        cases r with
        | nil => simpa [DocParse.joinChunks] using h
        | cons y ys => simp [DocParse.joinChunks, h]
      show a ∈ DocParse.joinChunks ((g0 :: gr).flatMap (groupBlocks cfg.tab))
      simp only [List.flatMap_cons, groupBlocks, List.cons_append]
      apply hin
      rw [defSrc_eq]
      cases htr : g0.tr with
      | nil => simp [joinLines, join, hab]
      | cons y ys => rw [Block.joinLines_cons_cons]; simp [hab])
  rw [← hsrc] at s1 s2 s3 s4 s5
  -- the block stage
  have hblk := parseDocumentXT_defG x.blockCfg (by simpa [PipelineX.Exts.blockCfg] using hdef) cfg.tab htab g0 gr h0 hr
  rw [flatMap_kids_items] at hblk
  have hok : ∀ it ∈ allItems (g0 :: gr), it.ok := by
    intro it hit
    obtain ⟨g, hg, hig⟩ := List.mem_flatMap.1 hit
    exact groupItems_ok g (hall g hg) it hig
  obtain ⟨it0, ir, hitems⟩ : ∃ it0 ir, allItems (g0 :: gr) = it0 :: ir := by
    obtain ⟨r, hr'⟩ := groupItems_head g0
    exact ⟨DItem.txt "dt" g0.t0, r ++ gr.flatMap groupItems, by simp [allItems, hr']⟩
  -- the inline stage
  have hquiet : quietKids false (rootOf [dlOf ((allItems (g0 :: gr)).map DItem.node)]).children = true := by
    have hk := quietKids_items _ hok
    have hd : quietTree false (dlOf ((allItems (g0 :: gr)).map DItem.node)) = true := by
      simp [dlOf, Node.el, quietTree, Node.truthy, hk]
    simp only [rootOf, quietKids, hd, Bool.and_self]
  have hrun := fun (ic : Inline.Cfg) (keys : List Str) =>
    runX_quiet { cfg := ic, table := InlineX.table x.footnotes x.wikilinks false, fnKeys := keys } false
      (fun hm => nl_mem_table _ _ false hm) (Nat.le_trans (by decide) (table_length _ _ false)) _ [] hquiet
  -- the tree stages
  have hpre := prettify_dlG it0 ir (by rw [← hitems]; exact hok)
  rw [← hitems] at hpre
  have hun := unescapeTree_dlG _ hok
  have hser := serialize_dlG cfg.fmt _ hok
  have hJ : Post.STX ∉ defOutG (allItems (g0 :: gr)) := by
    unfold defOutG
    exact stx_app (stx_app (by decide +kernel) (stx_itemsHtml _ hok)) (by decide +kernel)
  obtain ⟨e1, e2⟩ := defOutG_ends (allItems (g0 :: gr))
  have hfin := finishX_wrapped' x cfg (defOutG (allItems (g0 :: gr))) hJ
    (fun c hc => by rw [e1] at hc; cases hc; decide)
    (fun c hc => by rw [e2] at hc; cases hc; decide)
  have hfo : BlockExt.footnotesOf [] = [] := rfl
  have hab : BlockExt.abbrsOf [] = [] := rfl
  have hmk : ∀ p fc, FootnotesTree.makeDiv p fc [] [] = .ok (none, []) := fun _ _ => rfl
  have habbr : ∀ t, AbbrTree.run [] t = t := fun _ => rfl
  have hdup := fun fn => duplicates_noFn fn _ (noFnDiv_dlDoc (allItems (g0 :: gr)))
  simp only [PipelineX.convertX, s1, s2, PipelineX.Exts.unsupported, Bool.false_eq_true, if_false,
    PipelineX.treeX, PipelineX.prepareX, s3, s4, s5, Bool.and_false, hf, htb, hblk, hfo, hmk, hnl, hal, htoc]
  cases hfn : x.footnotes <;> cases hab' : x.abbr <;>
    simp only [hfn, hab', Bool.false_eq_true, if_false, if_true, List.map_nil, PipelineX.refsX, Bool.or_self,
      Bool.or_true, Bool.or_false, Bool.true_or, BlockExt.refsOf, List.filter_nil, PipelineX.escX, htb, Bool.false_and] <;>
    (rw [hfn] at hrun; rw [hrun]; simp only [hdup, hbl, hpre, hab, habbr, hun, hser]; exact hfin)

end MdVerif.RenderG
