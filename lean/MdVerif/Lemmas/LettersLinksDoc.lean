/-
Helper lemmas for `Props/C06Links.lean`, part 2: the document tree for a paragraph with mixed content around and
inside reference-style links is a tree of the vocabulary without `&` in its texts; hence (`Lemmas/C06Compose`) the
strict reader accepts the output and its visible letters are the letters of the text content of the tree.
Core Lean only.
-/
import MdVerif.Lemmas.LettersLinks
import MdVerif.Lemmas.C06Compose

namespace MdVerif.RefText
open Py Inline Escape CodeLaw DocParse DocParse2 Flat

/-! ### the tree is a tree of the vocabulary -/

theorem nodeOk_nonvoid (t : Str) (attrs : List (Str × Str)) (text : Option Str) (kids : List Node)
    (ht : Vocab2.hasTag Vocab2.vocabTags t = true) (ha : Vocab2.attrsOk attrs = true)
    (hv : Vocab2.isVoidTag t = false) : Vocab2.nodeOk Vocab2.vocabTags (.name t) attrs text kids = true := by
  simp [Vocab2.nodeOk, ht, ha, hv]

theorem attrsOk_nil : Vocab2.attrsOk [] = true := rfl

theorem attrsOk_href (url : Str) : Vocab2.attrsOk [("href".toList, url)] = true := by
  simp only [Vocab2.attrsOk, List.all_cons, List.all_nil, Ser.keysNodup, List.any_nil, Bool.not_false, Bool.and_true]
  decide

theorem attr_lit : (Vocab2.attrOk "href".toList && Vocab2.attrOk "title".toList &&
    !decide ("title".toList = "href".toList)) = true := by decide

theorem attrsOk_href_title (url t : Str) : Vocab2.attrsOk [("href".toList, url), ("title".toList, t)] = true := by
  simp only [Vocab2.attrsOk, List.all_cons, List.all_nil, Ser.keysNodup, List.any_cons, List.any_nil, Bool.not_false,
    Bool.and_true, Bool.or_false]
  exact attr_lit

theorem good_tailedFinM (s : MSeg) : Vocab2.Good (tailedFinM s) = true := by
  obtain ⟨k, t⟩ := s
  cases k with
  | code n b =>
    simp only [tailedFinM, MKind.node, codeSpan, Node.el, Vocab2.Good, Vocab2.GoodT, Vocab2.GoodListT, Bool.and_true]
    exact nodeOk_nonvoid _ _ _ _ (by decide) attrsOk_nil (by decide)
  | em st d w =>
    cases st <;>
      (simp only [tailedFinM, MKind.node, emEl, mkEl, Vocab2.Good, Vocab2.GoodT, Vocab2.GoodListT, Bool.and_true]
       exact nodeOk_nonvoid _ _ _ _ (by decide) attrsOk_nil (by decide))

theorem goodList_tailedFinM (segs : List MSeg) : Vocab2.GoodList (segs.map tailedFinM) = true := by
  induction segs with
  | nil => rfl
  | cons s r ih =>
    simp only [List.map_cons, Vocab2.GoodList, Vocab2.GoodListT, Bool.and_eq_true]
    exact ⟨good_tailedFinM s, ih⟩

theorem goodList_append (a b : List Node) (ha : Vocab2.GoodList a = true) (hb : Vocab2.GoodList b = true) :
    Vocab2.GoodList (a ++ b) = true := by
  induction a with
  | nil => exact hb
  | cons x r ih =>
    simp only [Vocab2.GoodList, Vocab2.GoodListT, Bool.and_eq_true, List.cons_append] at ha ⊢
    exact ⟨ha.1, ih ha.2⟩

theorem good_aFin (u : RUse) : Vocab2.Good (aFin u) = true := by
  have hk := goodList_tailedFinM u.T.segs
  simp only [Vocab2.GoodList] at hk
  simp only [aFin, Vocab2.Good, Vocab2.GoodT, hk, Bool.and_true]
  by_cases ht : Node.truthy u.title = true
  · simp only [ht, if_true]
    exact nodeOk_nonvoid _ _ _ _ (by decide) (attrsOk_href_title _ _) (by decide)
  · simp only [ht, Bool.false_eq_true, if_false]
    exact nodeOk_nonvoid _ _ _ _ (by decide) (attrsOk_href _) (by decide)

theorem goodList_usKidsFin : ∀ us : List RUse, Vocab2.GoodList (usKidsFin us) = true
  | [] => rfl
  | u :: r => by
    rw [usKidsFin_cons]
    simp only [Vocab2.GoodList, Vocab2.GoodListT, Bool.and_eq_true]
    exact ⟨good_aFin u, goodList_append _ _ (goodList_tailedFinM _) (goodList_usKidsFin r)⟩

theorem docOk_line (C0 : Chunk) (us : List RUse) : Vocab2.DocOk (prettyOne (pFin C0 us)) = true := by
  have hk := goodList_append _ _ (goodList_tailedFinM C0.segs) (goodList_usKidsFin us)
  simp only [Vocab2.GoodList] at hk
  have hp := nodeOk_nonvoid "p".toList [] (optStr C0.t0) (C0.segs.map tailedFinM ++ usKidsFin us) (by decide)
    attrsOk_nil (by decide)
  simp only [Vocab2.DocOk, prettyOne, pFin, Vocab2.GoodList, Vocab2.GoodListT, Vocab2.GoodT, hk, hp, Bool.and_true]
  decide

/-! ### no `&` in the texts of the tree -/

theorem amp_not_mem_kText (k : MKind) (hk : MKindOK k) (hc : ∀ n b, k = .code n b → '&' ∉ b ∧ '<' ∉ b ∧ '>' ∉ b) :
    '&' ∉ kText k := by
  cases k with
  | code n b =>
    obtain ⟨h1, h2, h3⟩ := hc n b rfl
    simp only [kText, codeEscape_clean h1 h2 h3]; exact h1
  | em st d w =>
    intro hm
    exact (wordCh_facts (hk.2.1.2 _ hm)).2.2.2.2.2.2.1 rfl

theorem ampFree_tailedFinM (s : MSeg) (hk : MKindOK s.k)
    (hc : ∀ n b, s.k = .code n b → '&' ∉ b ∧ '<' ∉ b ∧ '>' ∉ b) (ht : '&' ∉ s.t) :
    C06.ampFree (tailedFinM s) = true := by
  rw [C06.ampFree_iff]
  have h1 := (content_tailedFinM s)
  have hch : (tailedFinM s).children = [] := by obtain ⟨k, t⟩ := s; cases k <;> rfl
  have htx : (tailedFinM s).text.getD [] = kText s.k := by
    have := h1.1
    rw [content_eq, hch] at this
    simpa [contentKids] using this
  refine ⟨by rw [htx]; exact amp_not_mem_kText s.k hk hc, by rw [h1.2]; exact ht, by rw [hch]; rfl⟩

theorem ampFreeKids_tailedFinM (segs : List MSeg) (hok : MSegsOK segs)
    (hc : ∀ s ∈ segs, ∀ n b, s.k = .code n b → '&' ∉ b ∧ '<' ∉ b ∧ '>' ∉ b) (ht : ∀ s ∈ segs, '&' ∉ s.t) :
    C06.ampFreeKids (segs.map tailedFinM) = true := by
  induction segs with
  | nil => rfl
  | cons s r ih =>
    rw [List.map_cons, C06.ampFreeKids_cons]
    exact ⟨ampFree_tailedFinM s (hok s List.mem_cons_self) (hc s List.mem_cons_self) (ht s List.mem_cons_self),
      ih (fun x hx => hok x (List.mem_cons_of_mem _ hx)) (fun x hx => hc x (List.mem_cons_of_mem _ hx))
        (fun x hx => ht x (List.mem_cons_of_mem _ hx))⟩

theorem ampFreeKids_append (a b : List Node) (ha : C06.ampFreeKids a = true) (hb : C06.ampFreeKids b = true) :
    C06.ampFreeKids (a ++ b) = true := by
  induction a with
  | nil => exact hb
  | cons x r ih =>
    rw [List.cons_append, C06.ampFreeKids_cons]
    rw [C06.ampFreeKids_cons] at ha
    exact ⟨ha.1, ih ha.2⟩

/-- what conservation needs of a chunk: the shapes of its items, no `&` in its texts, clean code bodies -/
structure ChunkL (c : Chunk) : Prop where
  ok : MSegsOK c.segs
  t0 : '&' ∉ c.t0
  ts : ∀ s ∈ c.segs, '&' ∉ s.t
  code : c.CodeClean

theorem chunkL_of {esc : List Char} {c : Chunk} (h : ChunkOK esc c) (hc : c.CodeClean) : ChunkL c :=
  ⟨h.ok, fun hm => (h.plain _ (Or.inl hm)).1 rfl, fun s hs hm => (h.plain _ (Or.inr ⟨s, hs, hm⟩)).1 rfl, hc⟩

theorem ampFree_aFin (u : RUse) (hT : ChunkL u.T) (hC : '&' ∉ u.C.t0) : C06.ampFree (aFin u) = true := by
  rw [C06.ampFree_iff]
  refine ⟨?_, ?_, ampFreeKids_tailedFinM u.T.segs hT.ok hT.code hT.ts⟩
  · show '&' ∉ (optStr u.T.t0).getD []
    rw [getD_optStr]; exact hT.t0
  · show '&' ∉ (optStr u.C.t0).getD []
    rw [getD_optStr]; exact hC

theorem ampFreeKids_usKidsFin : ∀ us : List RUse, (∀ u ∈ us, ChunkL u.T ∧ ChunkL u.C) →
    C06.ampFreeKids (usKidsFin us) = true
  | [], _ => rfl
  | u :: r, h => by
    have hu := h u List.mem_cons_self
    rw [usKidsFin_cons, C06.ampFreeKids_cons]
    exact ⟨ampFree_aFin u hu.1 hu.2.t0, ampFreeKids_append _ _
      (ampFreeKids_tailedFinM u.C.segs hu.2.ok hu.2.code hu.2.ts)
      (ampFreeKids_usKidsFin r (fun x hx => h x (List.mem_cons_of_mem _ hx)))⟩

theorem ampFree_line (C0 : Chunk) (us : List RUse) (h0 : ChunkL C0) (hus : ∀ u ∈ us, ChunkL u.T ∧ ChunkL u.C) :
    C06.ampFree (prettyOne (pFin C0 us)) = true := by
  have hp : C06.ampFree (pFin C0 us) = true := by
    rw [C06.ampFree_iff]
    refine ⟨?_, ?_, ampFreeKids_append _ _ (ampFreeKids_tailedFinM C0.segs h0.ok h0.code h0.ts)
      (ampFreeKids_usKidsFin us hus)⟩
    · show '&' ∉ (optStr C0.t0).getD []
      rw [getD_optStr]; exact h0.t0
    · show '&' ∉ (some ['\n']).getD []
      decide
  rw [C06.ampFree_iff]
  refine ⟨by show '&' ∉ (some ['\n']).getD []; decide, by show '&' ∉ (some ['\n']).getD []; decide, ?_⟩
  show C06.ampFreeKids [pFin C0 us] = true
  rw [C06.ampFreeKids_cons]; exact ⟨hp, rfl⟩

/-! ### the output is what the reader theorem is about -/

theorem inner_line (C0 : Chunk) (us : List RUse) (E : Str)
    (hser : Ser.serialize .xhtml (pFin C0 us) = ("<p>".toList ++ E ++ "</p>".toList) ++ ['\n']) :
    strip (Vocab2.inner .xhtml (prettyOne (pFin C0 us))) = "<p>".toList ++ E ++ "</p>".toList := by
  have h5 : Ser.escCdata ['\n'] = ['\n'] := by decide
  have : Vocab2.inner .xhtml (prettyOne (pFin C0 us)) = '\n' :: "<p>".toList ++ E ++ "</p>".toList ++ ['\n'] := by
    simp only [Vocab2.inner, prettyOne, Node.truthy, if_true, Option.getD_some, h5, InlineRef.serializeList_one, hser]
    simp [List.append_assoc]
  rw [this]
  exact InlineRef.strip_paragraph E

theorem docLetters_line {L : Char → Bool} (hL : LetterClass L) (C0 : Chunk) (us : List RUse) :
    docLetters L (prettyOne (pFin C0 us)) = letters L (C0.content ++ usContent us) := by
  have hc : content (prettyOne (pFin C0 us)) = ['\n'] ++ (content (pFin C0 us) ++ ['\n']) := by
    rw [content_eq]
    show (some ['\n']).getD [] ++ contentKids [pFin C0 us] = _
    rw [contentKids_cons]
    simp [contentKids, pFin]
  have hnl : letters L ['\n'] = [] := letters_eq_nil_of_all L (fun c hc => by
    simp at hc; subst hc; exact hL.space '\n' (by decide))
  simp only [docLetters, hc, letters_append, hnl, content_pFin, List.nil_append, List.append_nil]

/-- the visible part of the source line: the contents and the link texts (brackets and labels left out) -/
def visibleSrc (esc : List Char) (C0 : Chunk) : List RUse → Str
  | [] => C0.raw esc
  | u :: r => C0.raw esc ++ (u.T.raw esc ++ visibleSrc esc u.C r)

theorem letters_visibleSrc {L : Char → Bool} (hL : LetterClass L) (esc : List Char) :
    ∀ (us : List RUse) (C0 : Chunk), ChunkL C0 → (∀ u ∈ us, ChunkL u.T ∧ ChunkL u.C) →
      letters L (visibleSrc esc C0 us) = letters L (C0.content ++ usContent us)
  | [], C0, h0, _ => by
    simp only [visibleSrc, usContent, List.append_nil]
    exact letters_chunk hL esc C0 h0.code h0.ok
  | u :: r, C0, h0, hus => by
    have hu := hus u List.mem_cons_self
    have ih := letters_visibleSrc hL esc r u.C hu.2 (fun x hx => hus x (List.mem_cons_of_mem _ hx))
    simp only [visibleSrc, usContent, letters_append, letters_chunk hL esc C0 h0.code h0.ok,
      letters_chunk hL esc u.T hu.1.code hu.1.ok, ih, List.append_assoc]

/-- **conservation for a line with references**: the output is accepted by the strict reader and its visible letters
    are the letters of the visible part of the source line -/
theorem letters_line_conv {L : Char → Bool} (hL : LetterClass L) (cfg : Pipeline.Cfg) (hfmt : cfg.fmt = .xhtml)
    (hbl : cfg.blockLevel = TreeProc.defaultBlockLevel) (htab : 0 < cfg.tab) (hE : EscOK cfg.esc) (hrb : ']' ∈ cfg.esc)
    (before after : List InlineRef.DefSpec) (hb : ∀ d ∈ before, d.ok cfg.tab = true)
    (ha : ∀ d ∈ after, d.ok cfg.tab = true) (C0 : Chunk) (us : List RUse) (hne : us ≠ [])
    (h0 : ChunkOK cfg.esc C0) (hus : ∀ u ∈ us, UseSpec cfg.esc (before ++ after) u)
    (hc0 : C0.CodeClean) (hcu : ∀ u ∈ us, u.T.CodeClean ∧ u.C.CodeClean)
    (hstart : startPlain (lineRaw cfg.esc C0 us) = true) (hchars : (lineRaw cfg.esc C0 us).all lineCh = true)
    (hnoref : Block.refMatchAt (lineRaw cfg.esc C0 us) 0 = none) :
    ∃ out, Pipeline.convert cfg (InlineRef.docOf before (lineRaw cfg.esc C0 us) after) = .ok out ∧
      (Ser.readForest cfg.fmt out).isSome = true ∧
      C06.visibleLetters L cfg.fmt out = letters L (visibleSrc cfg.esc C0 us) := by
  have hconv := convert_line_defs cfg hfmt hbl htab hE hrb before after hb ha C0 us hne h0 hus hstart hchars hnoref
  have hser := ser_pFin (cfg := { esc := cfg.esc, refs := ((before ++ after).map InlineRef.DefSpec.entry).reverse })
    C0 us h0 (fun u hu => useOK_of_spec (hus u hu))
  have hinner := inner_line C0 us (C0.out ++ usOut us) hser
  have hL0 : ChunkL C0 := chunkL_of h0 hc0
  have hLu : ∀ u ∈ us, ChunkL u.T ∧ ChunkL u.C := fun u hu =>
    ⟨chunkL_of (hus u hu).text (hcu u hu).1, chunkL_of (hus u hu).after (hcu u hu).2⟩
  obtain ⟨hr, hv⟩ := C06.visibleLetters_inner hL .xhtml (docOk_line C0 us) (ampFree_line C0 us hL0 hLu)
  rw [hinner] at hr hv
  refine ⟨_, hconv, by rw [hfmt]; exact hr, ?_⟩
  rw [hfmt, hv, docLetters_line hL, letters_visibleSrc hL cfg.esc us C0 hL0 hLu]

end MdVerif.RefText
