/-
Helper lemmas for `Props/C17Src.lean`, part 3: the C17 observations on a forest that was read back from an output —
the links of the `a.footnote-ref`s, the links of the `a.footnote-backref`s, the `sup`s with their links, the `li`s with
their back-links — and their values on the output of the footnote documents (`outEls`, `Lemmas/C17SrcRead.lean`);
then the list facts behind the C17 clauses.

Core Lean only.
-/
import MdVerif.Lemmas.C17SrcRead

namespace MdVerif.C17Src
open Py Ser MdVerif.RenderX MdVerif.RenderG MdVerif.Footnotes
open MdVerif.Footnotes.Spec (refName refsFrom supsOf)

/-! ### observations -/

/-- the characters a token stands for in the output -/
def tokStr : Tok → Str
  | .ch c => [c]
  | .ent b => '&' :: b ++ [';']

def untok (l : List Tok) : Str := l.flatMap tokStr

/-- the value of the attribute `k` of an element that was read -/
def attrS (k : String) (e : El) : Option Str := (e.2.find? (fun kv => kv.1 = k.toList)).map (fun kv => untok kv.2)

def isTag (t : String) (e : El) : Bool := e.1 = t.toList

/-- an `a` element of class `cls` -/
def isA (cls : String) (e : El) : Bool := isTag "a" e && decide (attrS "class" e = some cls.toList)

/-- the `href`s of the `a.cls` elements among `l` -/
def linksOf (cls : String) (l : List El) : List (Option Str) := (l.filter (isA cls)).map (attrS "href")

/-- per element of tag `t`: its id and the `href`s of the `a.cls` elements below it -/
def withLinks (t cls : String) (L : List (El × List El)) : List (Option Str × List (Option Str)) :=
  (L.filter (fun p => isTag t p.1)).map (fun p => (attrS "id" p.1, linksOf cls p.2))

/-- the `href` of every `a.footnote-ref` of the forest, in document order -/
def refHrefs (F : List RNode) : List (Option Str) := linksOf "footnote-ref" ((elsL F).map (·.1))
/-- the `href` of every `a.footnote-backref` of the forest, in document order -/
def backrefHrefs (F : List RNode) : List (Option Str) := linksOf "footnote-backref" ((elsL F).map (·.1))
/-- every `sup` of the forest: its id and the `href`s of the `a.footnote-ref`s inside it -/
def supLinks (F : List RNode) : List (Option Str × List (Option Str)) := withLinks "sup" "footnote-ref" (elsL F)
/-- every `li` of the forest: its id and the `href`s of the `a.footnote-backref`s inside it -/
def liBacks (F : List RNode) : List (Option Str × List (Option Str)) := withLinks "li" "footnote-backref" (elsL F)
/-- the ids of the `sup`s / of the `li`s -/
def supIds (F : List RNode) : List (Option Str) := (supLinks F).map (·.1)
def liIds (F : List RNode) : List (Option Str) := (liBacks F).map (·.1)
/-- the ids of the `sup`s whose reference link is `#i` -/
def supsTo (F : List RNode) (i : Str) : List (Option Str) :=
  ((supLinks F).filter (fun p => p.2 = [some ('#' :: i)])).map (·.1)

/-- every `id` attribute among `l` -/
def idsAmong (l : List El) : List Str := l.filterMap (attrS "id")
/-- every `id` attribute of the forest, in document order -/
def allIds (F : List RNode) : List Str := idsAmong ((elsL F).map (·.1))

/-! #### toc observations -/

/-- a heading element as the toc extension recognises it (`[Hh][1-6]` at the start of the tag: `h1` … `h6`) -/
def isHeading (e : El) : Bool :=
  match e.1 with
  | h :: d :: _ => (h = 'h' || h = 'H') && '1' ≤ d && d ≤ '6'
  | _ => false

/-- every heading element of the forest, in document order: its tag and its `id` -/
def headings (F : List RNode) : List (Str × Option Str) :=
  (((elsL F).map (·.1)).filter isHeading).map (fun e => (e.1, attrS "id" e))

/-- the `href`s of ALL `a` elements among `l` -/
def hrefsAmong (l : List El) : List (Option Str) := (l.filter (isTag "a")).map (attrS "href")

/-- per `div` of class `toc`: the `href`s of the `a` elements inside it, in document order -/
def tocLinks (F : List RNode) : List (List (Option Str)) :=
  ((elsL F).filter (fun p => isTag "div" p.1 && decide (attrS "class" p.1 = some "toc".toList))).map
    (fun p => hrefsAmong p.2)

/-- per `li`, in document order: the `href`s of the `a` elements inside it — its own link first, then the links of the
    entries nested under it (this preorder list of subtrees determines the nesting) -/
def liLinks (F : List RNode) : List (List (Option Str)) :=
  ((elsL F).filter (fun p => isTag "li" p.1)).map (fun p => hrefsAmong p.2)

theorem idsAmong_append (a b : List El) : idsAmong (a ++ b) = idsAmong a ++ idsAmong b := by
  simp [idsAmong]

theorem linksOf_append (cls : String) (a b : List El) : linksOf cls (a ++ b) = linksOf cls a ++ linksOf cls b := by
  simp [linksOf]

theorem withLinks_append (t cls : String) (a b : List (El × List El)) :
    withLinks t cls (a ++ b) = withLinks t cls a ++ withLinks t cls b := by
  simp [withLinks]

/-! ### the attributes of the elements of the output -/

theorem untok_lenient (v : Str) (h : ∀ c ∈ v, AttrCh c) : untok (lenient attr 0 v) = v := by
  rw [lenient_plain' attr v (fun c hc => (attrCh_facts (h c hc)).1)]
  unfold untok
  induction v with
  | nil => rfl
  | cons c r ih =>
    simp only [List.map_cons, List.flatMap_cons, tokStr, List.cons_append, List.nil_append, List.cons.injEq, true_and]
    exact ih (fun x hx => h x (List.mem_cons_of_mem _ hx))

theorem attrCh_str (s : String) (h : ∀ c ∈ s.toList, AttrCh c) : untok (lenient attr 0 s.toList) = s.toList :=
  untok_lenient _ h

theorem ut_ref : untok (lenient attr 0 "footnote-ref".toList) = "footnote-ref".toList := by decide +kernel
theorem ut_backref : untok (lenient attr 0 "footnote-backref".toList) = "footnote-backref".toList := by decide +kernel
theorem ne_ref_backref : "footnote-ref".toList ≠ "footnote-backref".toList := by decide +kernel

theorem attrCh_hashFn (id : Str) (hid : WordFacts id) : ∀ c ∈ '#' :: Footnotes.footnoteId id, AttrCh c :=
  attrCh_cons (Or.inr (Or.inr (Or.inl rfl))) (attrCh_fnId id hid)

/-- tags -/
theorem tag_eP (t : String) : isTag t eP = decide ("p".toList = t.toList) := rfl
theorem tag_eHr (t : String) : isTag t eHr = decide ("hr".toList = t.toList) := rfl
theorem tag_eOl (t : String) : isTag t eOl = decide ("ol".toList = t.toList) := rfl
theorem tag_eDiv (t : String) : isTag t eDiv = decide ("div".toList = t.toList) := rfl
theorem tag_eLi (t : String) (id : Str) : isTag t (eLi id) = decide ("li".toList = t.toList) := rfl
theorem tag_eSup (t : String) (r : Str) : isTag t (eSup r) = decide ("sup".toList = t.toList) := rfl
theorem tag_eRef (t : String) (id : Str) : isTag t (eRef id) = decide ("a".toList = t.toList) := rfl
theorem tag_eBack (t : String) (i : Nat) (h : Str) : isTag t (eBack i h) = decide ("a".toList = t.toList) := rfl

theorem isA_eP (cls : String) : isA cls eP = false := by simp [isA, tag_eP]
theorem isA_eHr (cls : String) : isA cls eHr = false := by simp [isA, tag_eHr]
theorem isA_eOl (cls : String) : isA cls eOl = false := by simp [isA, tag_eOl]
theorem isA_eDiv (cls : String) : isA cls eDiv = false := by simp [isA, tag_eDiv]
theorem isA_eLi (cls : String) (id : Str) : isA cls (eLi id) = false := by simp [isA, tag_eLi]
theorem isA_eSup (cls : String) (r : Str) : isA cls (eSup r) = false := by simp [isA, tag_eSup]

theorem class_eRef (id : Str) : attrS "class" (eRef id) = some "footnote-ref".toList := by
  simp only [attrS, eRef, canonAttrs, List.map_cons, List.find?_cons, decide_true, Option.map_some, ut_ref]
theorem class_eBack (i : Nat) (h : Str) : attrS "class" (eBack i h) = some "footnote-backref".toList := by
  simp only [attrS, eBack, canonAttrs, List.map_cons, List.find?_cons, decide_true, Option.map_some, ut_backref]

theorem ne_class_href : ("class".toList = "href".toList) = False := by simp
theorem ne_class_id : ("class".toList = "id".toList) = False := by simp

theorem href_eRef (id : Str) (hid : WordFacts id) : attrS "href" (eRef id) = some ('#' :: Footnotes.footnoteId id) := by
  simp only [attrS, eRef, canonAttrs, List.map_cons, List.find?_cons, ne_class_href, decide_false, decide_true,
    Option.map_some, untok_lenient _ (attrCh_hashFn id hid)]
theorem href_eBack (i : Nat) (h : Str) (hh : ∀ c ∈ h, AttrCh c) : attrS "href" (eBack i h) = some h := by
  simp only [attrS, eBack, canonAttrs, List.map_cons, List.find?_cons, ne_class_href, decide_false, decide_true,
    Option.map_some, untok_lenient _ hh]
theorem id_eSup (r : Str) (hr : ∀ c ∈ r, AttrCh c) : attrS "id" (eSup r) = some r := by
  simp only [attrS, eSup, canonAttrs, List.map_cons, List.find?_cons, decide_true, Option.map_some, untok_lenient _ hr]
theorem id_eLi (id : Str) (hid : WordFacts id) : attrS "id" (eLi id) = some (Footnotes.footnoteId id) := by
  simp only [attrS, eLi, canonAttrs, List.map_cons, List.find?_cons, decide_true, Option.map_some,
    untok_lenient _ (attrCh_fnId id hid)]

theorem isA_eRef (cls : String) (id : Str) : isA cls (eRef id) = decide ("footnote-ref".toList = cls.toList) := by
  rw [isA, tag_eRef, class_eRef]
  simp only [decide_true, Bool.true_and, Option.some.injEq]
theorem isA_eBack (cls : String) (i : Nat) (h : Str) :
    isA cls (eBack i h) = decide ("footnote-backref".toList = cls.toList) := by
  rw [isA, tag_eBack, class_eBack]
  simp only [decide_true, Bool.true_and, Option.some.injEq]

/-! ### the observations on the pieces of the output -/

theorem linksOf_backs_ref (index : Nat) (hs : List Str) : linksOf "footnote-ref" (hs.map (eBack index)) = [] := by
  induction hs with
  | nil => rfl
  | cons h r ih =>
    have : linksOf "footnote-ref" (eBack index h :: r.map (eBack index)) = linksOf "footnote-ref" (r.map (eBack index)) := by
      simp [linksOf, isA_eBack]
    rw [List.map_cons, this, ih]

theorem linksOf_backs_back (index : Nat) (hs : List Str) (hh : ∀ h ∈ hs, ∀ c ∈ h, AttrCh c) :
    linksOf "footnote-backref" (hs.map (eBack index)) = hs.map some := by
  induction hs with
  | nil => rfl
  | cons h r ih =>
    have : linksOf "footnote-backref" (eBack index h :: r.map (eBack index)) =
        some h :: linksOf "footnote-backref" (r.map (eBack index)) := by
      simp [linksOf, isA_eBack, href_eBack index h (hh h List.mem_cons_self)]
    rw [List.map_cons, this, ih (fun x hx => hh x (List.mem_cons_of_mem _ hx))]
    rfl

theorem withLinks_backs (t cls : String) (ht : t.toList ≠ "a".toList) (index : Nat) (hs : List Str) :
    withLinks t cls (hs.map (fun h => (eBack index h, []))) = [] := by
  have hd : decide ("a".toList = t.toList) = false := by simpa using fun e => ht e.symm
  induction hs with
  | nil => rfl
  | cons h r ih =>
    simp only [withLinks, List.map_cons, List.filter_cons, tag_eBack, hd, Bool.false_eq_true, if_false] at ih ⊢
    exact ih

theorem map_fst_backs (index : Nat) (hs : List Str) :
    (hs.map (fun h => ((eBack index h, []) : El × List El))).map (·.1) = hs.map (eBack index) := by
  simp

/-- a reference -/
theorem sup_supEls (refId id : Str) (hr : ∀ c ∈ refId, AttrCh c) (hid : WordFacts id) :
    withLinks "sup" "footnote-ref" (supEls refId id) = [(some refId, [some ('#' :: Footnotes.footnoteId id)])] := by
  simp [withLinks, supEls, tag_eSup, tag_eRef, id_eSup refId hr, linksOf, isA_eRef, href_eRef id hid]

theorem li_supEls (refId id : Str) : withLinks "li" "footnote-backref" (supEls refId id) = [] := by
  simp [withLinks, supEls, tag_eSup, tag_eRef]

theorem ref_supEls (refId id : Str) (hid : WordFacts id) :
    linksOf "footnote-ref" ((supEls refId id).map (·.1)) = [some ('#' :: Footnotes.footnoteId id)] := by
  simp [linksOf, supEls, isA_eSup, isA_eRef, href_eRef id hid]

theorem back_supEls (refId id : Str) : linksOf "footnote-backref" ((supEls refId id).map (·.1)) = [] := by
  simp [linksOf, supEls, isA_eSup, isA_eRef]

/-- a footnote -/
theorem sup_liEls (id : Str) (index c : Nat) : withLinks "sup" "footnote-ref" (liEls id index c) = [] := by
  unfold liEls
  rw [show ∀ (a b : El × List El) (l : List (El × List El)), a :: b :: l = [a, b] ++ l from fun _ _ _ => rfl,
    withLinks_append, withLinks_backs _ _ (by decide)]
  simp [withLinks, tag_eLi, tag_eP]

theorem li_liEls (id : Str) (index c : Nat) (hid : WordFacts id) :
    withLinks "li" "footnote-backref" (liEls id index c) =
      [(some (Footnotes.footnoteId id), (backHrefs id c).map some)] := by
  unfold liEls
  rw [show ∀ (a b : El × List El) (l : List (El × List El)), a :: b :: l = [a, b] ++ l from fun _ _ _ => rfl,
    withLinks_append, withLinks_backs _ _ (by decide)]
  have h1 : linksOf "footnote-backref" (eP :: (backHrefs id c).map (eBack index)) = (backHrefs id c).map some := by
    rw [show eP :: (backHrefs id c).map (eBack index) = [eP] ++ (backHrefs id c).map (eBack index) from rfl,
      linksOf_append, linksOf_backs_back index _ (attrCh_backHrefs id hid c)]
    simp [linksOf, isA_eP]
  simp [withLinks, tag_eLi, tag_eP, id_eLi id hid, h1]

theorem ref_liEls (id : Str) (index c : Nat) : linksOf "footnote-ref" ((liEls id index c).map (·.1)) = [] := by
  unfold liEls
  rw [List.map_cons, List.map_cons, map_fst_backs,
    show ∀ (a b : El) (l : List El), a :: b :: l = [a, b] ++ l from fun _ _ _ => rfl, linksOf_append,
    linksOf_backs_ref]
  simp [linksOf, isA_eLi, isA_eP]

theorem back_liEls (id : Str) (index c : Nat) (hid : WordFacts id) :
    linksOf "footnote-backref" ((liEls id index c).map (·.1)) = (backHrefs id c).map some := by
  unfold liEls
  rw [List.map_cons, List.map_cons, map_fst_backs,
    show ∀ (a b : El) (l : List El), a :: b :: l = [a, b] ++ l from fun _ _ _ => rfl, linksOf_append,
    linksOf_backs_back index _ (attrCh_backHrefs id hid c)]
  simp [linksOf, isA_eLi, isA_eP]

/-! ### the observations on the lists of references and of footnotes -/

/-- the `sup` ids and links as a list of pairs -/
def supPairs : List (Str × Str) → List Str → List (Str × Str)
  | [], _ => []
  | s :: r, hist => (refName s.1 (hist.count s.1), '#' :: Footnotes.footnoteId s.1) :: supPairs r (s.1 :: hist)

theorem sup_supsEls (keys : List Str) : ∀ (segs : List (Str × Str)) (hist : List Str), SegsOK segs →
    withLinks "sup" "footnote-ref" (supsEls keys segs hist) =
      (supPairs segs hist).map (fun p => (some p.1, [some p.2])) := by
  intro segs
  induction segs with
  | nil => intro _ _; rfl
  | cons s r ih =>
    intro hist hs
    have hid := hs.ids s List.mem_cons_self
    rw [supsEls, withLinks_append, sup_supEls _ _ (attrCh_refName s.1 hid _) hid, ih _ hs.tail]
    rfl

theorem li_supsEls (keys : List Str) : ∀ (segs : List (Str × Str)) (hist : List Str),
    withLinks "li" "footnote-backref" (supsEls keys segs hist) = [] := by
  intro segs
  induction segs with
  | nil => intro _; rfl
  | cons s r ih => intro hist; rw [supsEls, withLinks_append, li_supEls, ih]; rfl

theorem ref_supsEls (keys : List Str) : ∀ (segs : List (Str × Str)) (hist : List Str), SegsOK segs →
    linksOf "footnote-ref" ((supsEls keys segs hist).map (·.1)) =
      segs.map (fun s => some ('#' :: Footnotes.footnoteId s.1)) := by
  intro segs
  induction segs with
  | nil => intro _ _; rfl
  | cons s r ih =>
    intro hist hs
    rw [supsEls, List.map_append, linksOf_append, ref_supEls _ _ (hs.ids s List.mem_cons_self), ih _ hs.tail]
    rfl

theorem back_supsEls (keys : List Str) : ∀ (segs : List (Str × Str)) (hist : List Str),
    linksOf "footnote-backref" ((supsEls keys segs hist).map (·.1)) = [] := by
  intro segs
  induction segs with
  | nil => intro _; rfl
  | cons s r ih => intro hist; rw [supsEls, List.map_append, linksOf_append, back_supEls, ih]; rfl

theorem sup_lisEls (cnt : Str → Nat) : ∀ (defs : List (Str × Str)) (i : Nat),
    withLinks "sup" "footnote-ref" (lisEls cnt defs i) = [] := by
  intro defs
  induction defs with
  | nil => intro _; rfl
  | cons d r ih => intro i; rw [lisEls, withLinks_append, sup_liEls, ih]; rfl

theorem li_lisEls (cnt : Str → Nat) : ∀ (defs : List (Str × Str)) (i : Nat), DefsOK defs →
    withLinks "li" "footnote-backref" (lisEls cnt defs i) =
      defs.map (fun d => (some (Footnotes.footnoteId d.1), (backHrefs d.1 (cnt d.1)).map some)) := by
  intro defs
  induction defs with
  | nil => intro _ _; rfl
  | cons d r ih =>
    intro i hd
    rw [lisEls, withLinks_append, li_liEls _ _ _ (hd.ids d List.mem_cons_self), ih _ hd.tail]
    rfl

theorem ref_lisEls (cnt : Str → Nat) : ∀ (defs : List (Str × Str)) (i : Nat),
    linksOf "footnote-ref" ((lisEls cnt defs i).map (·.1)) = [] := by
  intro defs
  induction defs with
  | nil => intro _; rfl
  | cons d r ih => intro i; rw [lisEls, List.map_append, linksOf_append, ref_liEls, ih]; rfl

theorem back_lisEls (cnt : Str → Nat) : ∀ (defs : List (Str × Str)) (i : Nat), DefsOK defs →
    linksOf "footnote-backref" ((lisEls cnt defs i).map (·.1)) =
      defs.flatMap (fun d => (backHrefs d.1 (cnt d.1)).map some) := by
  intro defs
  induction defs with
  | nil => intro _ _; rfl
  | cons d r ih =>
    intro i hd
    rw [lisEls, List.map_append, linksOf_append, back_liEls _ _ _ (hd.ids d List.mem_cons_self), ih _ hd.tail]
    rfl

/-! ### all ids -/

theorem ne_href_id : ("href".toList = "id".toList) = False := by simp
theorem ne_title_id : ("title".toList = "id".toList) = False := by simp

theorem noId_eP : attrS "id" eP = none := rfl
theorem noId_eHr : attrS "id" eHr = none := rfl
theorem noId_eOl : attrS "id" eOl = none := rfl
theorem noId_eDiv : attrS "id" eDiv = none := by
  simp only [attrS, eDiv, canonAttrs, List.map_cons, List.map_nil, List.find?_cons, List.find?_nil, ne_class_id,
    decide_false, Option.map_none]
theorem noId_eRef (id : Str) : attrS "id" (eRef id) = none := by
  simp only [attrS, eRef, canonAttrs, List.map_cons, List.map_nil, List.find?_cons, List.find?_nil, ne_class_id,
    ne_href_id, decide_false, Option.map_none]
theorem noId_eBack (i : Nat) (h : Str) : attrS "id" (eBack i h) = none := by
  simp only [attrS, eBack, canonAttrs, List.map_cons, List.map_nil, List.find?_cons, List.find?_nil, ne_class_id,
    ne_href_id, ne_title_id, decide_false, Option.map_none]

theorem ids_backs (index : Nat) (hs : List Str) : idsAmong (hs.map (eBack index)) = [] := by
  induction hs with
  | nil => rfl
  | cons h r ih => simp only [idsAmong, List.map_cons, List.filterMap_cons, noId_eBack] at ih ⊢; exact ih

theorem ids_supEls (refId id : Str) (hr : ∀ c ∈ refId, AttrCh c) : idsAmong ((supEls refId id).map (·.1)) = [refId] := by
  simp [idsAmong, supEls, id_eSup refId hr, noId_eRef]

theorem ids_liEls (id : Str) (index c : Nat) (hid : WordFacts id) :
    idsAmong ((liEls id index c).map (·.1)) = [Footnotes.footnoteId id] := by
  unfold liEls
  rw [List.map_cons, List.map_cons, map_fst_backs,
    show ∀ (a b : El) (l : List El), a :: b :: l = [a, b] ++ l from fun _ _ _ => rfl, idsAmong_append, ids_backs]
  simp [idsAmong, id_eLi id hid, noId_eP]

theorem ids_supsEls (keys : List Str) : ∀ (segs : List (Str × Str)) (hist : List Str), SegsOK segs →
    idsAmong ((supsEls keys segs hist).map (·.1)) = (supPairs segs hist).map (·.1) := by
  intro segs
  induction segs with
  | nil => intro _ _; rfl
  | cons s r ih =>
    intro hist hs
    have hid := hs.ids s List.mem_cons_self
    rw [supsEls, List.map_append, idsAmong_append, ids_supEls _ _ (attrCh_refName s.1 hid _), ih _ hs.tail]
    rfl

theorem ids_lisEls (cnt : Str → Nat) : ∀ (defs : List (Str × Str)) (i : Nat), DefsOK defs →
    idsAmong ((lisEls cnt defs i).map (·.1)) = defs.map (fun d => Footnotes.footnoteId d.1) := by
  intro defs
  induction defs with
  | nil => intro _ _; rfl
  | cons d r ih =>
    intro i hd
    rw [lisEls, List.map_append, idsAmong_append, ids_liEls _ _ _ (hd.ids d List.mem_cons_self), ih _ hd.tail]
    rfl

/-! ### the observations on the whole output -/

theorem outEls_split (segs defs : List (Str × Str)) :
    outEls segs defs = [(eP, (supsEls (defs.map (·.1)) segs []).map (·.1))] ++ supsEls (defs.map (·.1)) segs [] ++
      [(eDiv, eHr :: eOl :: (lisEls (refCount segs) defs 1).map (·.1)), (eHr, []),
        (eOl, (lisEls (refCount segs) defs 1).map (·.1))] ++ lisEls (refCount segs) defs 1 := by
  simp [outEls]

theorem sup_outEls (segs defs : List (Str × Str)) (hs : SegsOK segs) :
    withLinks "sup" "footnote-ref" (outEls segs defs) = (supPairs segs []).map (fun p => (some p.1, [some p.2])) := by
  rw [outEls_split, withLinks_append, withLinks_append, withLinks_append, sup_supsEls _ _ _ hs, sup_lisEls]
  simp [withLinks, tag_eP, tag_eDiv, tag_eHr, tag_eOl]

theorem li_outEls (segs defs : List (Str × Str)) (hd : DefsOK defs) :
    withLinks "li" "footnote-backref" (outEls segs defs) =
      defs.map (fun d => (some (Footnotes.footnoteId d.1), (backHrefs d.1 (refCount segs d.1)).map some)) := by
  rw [outEls_split, withLinks_append, withLinks_append, withLinks_append, li_supsEls, li_lisEls _ _ _ hd]
  simp [withLinks, tag_eP, tag_eDiv, tag_eHr, tag_eOl]

theorem ref_outEls (segs defs : List (Str × Str)) (hs : SegsOK segs) :
    linksOf "footnote-ref" ((outEls segs defs).map (·.1)) = segs.map (fun s => some ('#' :: Footnotes.footnoteId s.1)) := by
  rw [outEls_split, List.map_append, List.map_append, List.map_append, linksOf_append, linksOf_append, linksOf_append,
    ref_supsEls _ _ _ hs, ref_lisEls]
  simp [linksOf, isA_eP, isA_eDiv, isA_eHr, isA_eOl]

theorem back_outEls (segs defs : List (Str × Str)) (hd : DefsOK defs) :
    linksOf "footnote-backref" ((outEls segs defs).map (·.1)) =
      defs.flatMap (fun d => (backHrefs d.1 (refCount segs d.1)).map some) := by
  rw [outEls_split, List.map_append, List.map_append, List.map_append, linksOf_append, linksOf_append, linksOf_append,
    back_supsEls, back_lisEls _ _ _ hd]
  simp [linksOf, isA_eP, isA_eDiv, isA_eHr, isA_eOl]

theorem ids_outEls (segs defs : List (Str × Str)) (hs : SegsOK segs) (hd : DefsOK defs) :
    idsAmong ((outEls segs defs).map (·.1)) =
      (supPairs segs []).map (·.1) ++ defs.map (fun d => Footnotes.footnoteId d.1) := by
  rw [outEls_split, List.map_append, List.map_append, List.map_append, idsAmong_append, idsAmong_append,
    idsAmong_append, ids_supsEls _ _ _ hs, ids_lisEls _ _ _ hd]
  simp only [idsAmong, List.map_cons, List.map_nil, List.filterMap_cons, List.filterMap_nil, noId_eP, noId_eDiv,
    noId_eHr, noId_eOl, List.nil_append, List.append_nil]

end MdVerif.C17Src
