/-
Helper lemmas for `Props/C16RenderG.lean`, part 16: definition lists — several term/definition groups separated by
empty lines, a definition continued by indented paragraphs: the block stage, turn by turn.

Core Lean only.
-/
import MdVerif.Lemmas.RenderGAdm4

namespace MdVerif.RenderG
open Py Block BlockExt MdVerif.RenderX

/-- a `dl` with the given children -/
def dlOf (kids : List Node) : Node := { Node.el "dl" with children := kids }

/-- a `dd` whose text was moved into a first paragraph, followed by further paragraphs -/
def looseDd (d : Str) (texts : List Str) : Node :=
  { Node.el "dd" with text := some [], children := mkText "p" d :: texts.map (mkText "p") }

theorem textToP_dd (d : Str) (hd : d ≠ []) : textToP (ddNode d) = looseDd d [] := by
  obtain ⟨a, t, rfl⟩ : ∃ a t, d = a :: t := by cases d <;> simp_all
  simp [textToP, ddNode, looseDd, Node.truthy, Node.el, mkText]

theorem textToP_loose (d : Str) (texts : List Str) : textToP (looseDd d texts) = looseDd d texts := by
  simp [textToP, looseDd, Node.truthy]

theorem looseDd_append (d : Str) (texts : List Str) (t : Str) :
    (looseDd d texts).append (mkText "p" t) = looseDd d (texts ++ [t]) := by
  simp [looseDd, Node.append]

/-! ### a continuation block -/

theorem admTest_notDiv (tab : Nat) (parent s : Node) (b : Str) (hbang : '!' ∉ b) (hl : parent.last? = some s)
    (hs : isAdmDiv s = false) : admTest tab parent b = none := by
  have h1 : admSearch b = none := admSearch_none (contains_false_of_head _ hbang)
  simp only [admTest, h1, admContent, hl, hs, Bool.false_eq_true, if_false]

theorem getLevelKidsX_last (isL isI : Node → Bool) (il level : Nat) (K : List Node) (c : Node) :
    getLevelKidsX isL isI il level (K ++ [c]) = getLevelKidsX isL isI il level [c] := by
  induction K with
  | nil => rfl
  | cons x r ih =>
    cases hr : r ++ [c] with
    | nil => simp at hr
    | cons y z =>
      rw [hr] at ih
      rw [List.cons_append, hr, ← ih]
      rfl

theorem getLevelNodeX_eq (isL isI : Node → Bool) (il level : Nat) (n : Node) :
    getLevelNodeX isL isI il level n = getLevelKidsX isL isI il level n.children := by
  cases n; rfl

theorem countSp_spaces (n : Nat) (a : Char) (Y : Str) (ha : a ≠ ' ') : countSp (spaces n ++ a :: Y) = n := by
  induction n with
  | zero => simp [countSp, spaces, countPrefix, ha]
  | succ n ih =>
    have : spaces (n + 1) ++ a :: Y = ' ' :: (spaces n ++ a :: Y) := by simp [spaces, List.replicate_succ]
    rw [this]
    simp only [countSp] at ih ⊢
    simp [countPrefix, ih]

theorem bodyBlock_start (tab : Nat) (p : Para) (hp : ParaOK p) :
    ∃ a Y, a ≠ ' ' ∧ bodyBlock tab p = spaces tab ++ (a :: Y) := by
  have hl0 : PlainFacts p.1 := hp p.1 List.mem_cons_self
  obtain ⟨a, t, hat⟩ : ∃ a t, p.1 = a :: t := by
    cases h : p.1 with
    | nil => exact absurd h hl0.ne
    | cons a t => exact ⟨a, t, rfl⟩
  have ha : a ≠ ' ' := hl0.head a (by rw [hat]; rfl)
  unfold bodyBlock pLines CodeLaw.indentLines
  simp only [List.map_cons]
  cases h2 : p.2.map (CodeLaw.indentLine tab) with
  | nil => exact ⟨a, t, ha, by simp [joinLines, join, CodeLaw.indentLine, hat]⟩
  | cons x y =>
    rw [Block.joinLines_cons_cons]
    exact ⟨a, t ++ '\n' :: joinLines (x :: y), ha, by simp [CodeLaw.indentLine, hat]⟩

theorem looseDetab_body (tab : Nat) (p : Para) (hp : ParaOK p) : looseDetab tab (bodyBlock tab p) 1 = pText p := by
  have h1 : lines (bodyBlock tab p) = CodeLaw.indentLines tab (pLines p) := by
    apply joinLines_lines
    · simp [CodeLaw.indentLines, pLines]
    · intro q hq
      obtain ⟨l, hl, rfl⟩ := List.mem_map.1 hq
      exact CodeLaw.not_nl_mem_indentLine (hp l hl).noNl
  have h2 : ∀ L : List Str, (∀ l ∈ L, PlainFacts l) →
      (CodeLaw.indentLines tab L).map (fun l => if startsWith l (spaces (tab * 1)) then l.drop (tab * 1) else l) = L := by
    intro L hL
    induction L with
    | nil => rfl
    | cons x r ih =>
      have hx := hL x List.mem_cons_self
      have hne : x.isEmpty = false := by
        have := hx.ne
        cases x <;> simp_all
      have e : CodeLaw.indentLine tab x = spaces tab ++ x := by simp [CodeLaw.indentLine, hne]
      have hsw : startsWith (spaces tab ++ x) (spaces tab) = true := CodeLaw.startsWith_append_self _ _
      have hdr : (spaces tab ++ x).drop tab = x := List.drop_left' (by simp [spaces])
      simp only [CodeLaw.indentLines, List.map_cons, e, Nat.mul_one, hsw, if_true, hdr]
      have := ih (fun l hl => hL l (List.mem_cons_of_mem _ hl))
      simp only [CodeLaw.indentLines, Nat.mul_one] at this
      rw [this]
  unfold looseDetab
  rw [h1, show pLines p = p.1 :: p.2 from rfl, h2 _ hp]
  rfl

/-- an indented block after a definition goes into the last `dd` (`ListIndentProcessor` with the definition-list
    tags) -/
theorem dispatch_defCont (cfg : XCfg) (hdef : cfg.defList = true) (tab : Nat) (htab : 0 < tab) (f : Nat)
    (refs : Refs) (K : List Node) (dd : Node) (hdd : dd.isTag "dd" = true) (p : Para) (hp : ParaOK p) (rest : List Str) :
    dispatchXT false cfg tab (parseBlocksXT false cfg tab (f + 1)) [] refs (rootOf [dlOf (K ++ [dd])])
        (bodyBlock tab p) rest =
      some (rootOf [dlOf (K ++ [(textToP dd).append (mkText "p" (pText p))])], refs, rest) := by
  obtain ⟨hbang, _, h3⟩ := bodyBlock_facts tab htab p hp
  obtain ⟨a, Y, ha, hY⟩ := bodyBlock_start tab p hp
  have hlast : (rootOf [dlOf (K ++ [dd])]).last? = some (dlOf (K ++ [dd])) := by simp [rootOf, Node.last?]
  have hnotadm : isAdmDiv (dlOf (K ++ [dd])) = false := by
    have : (dlOf (K ++ [dd])).isTag "div" = false := by simp only [dlOf, Node.isTag, Node.el]; decide
    simp [isAdmDiv, this]
  have hadm := admTest_notDiv tab _ _ (bodyBlock tab p) hbang hlast hnotadm
  have e1 : ((bodyBlock tab p).isEmpty || startsWith (bodyBlock tab p) ['\n']) = false := by
    rw [hY]
    obtain ⟨m, rfl⟩ : ∃ m, tab = m + 1 := ⟨tab - 1, by omega⟩
    simp [spaces, List.replicate_succ, startsWith]
  have hitem : isItemTag (rootOf [dlOf (K ++ [dd])]) = false := by
    simp only [isItemTag, rootOf, Node.isTag, Node.el]; decide
  have hlistT : isListTag (dlOf (K ++ [dd])) = false := by
    simp only [isListTag, dlOf, Node.isTag, Node.el]; decide
  have hitemD : isItemTagD (rootOf [dlOf (K ++ [dd])]) = false := by
    simp only [isItemTagD, rootOf, Node.isTag, Node.el]; decide
  have hlistD : isListTagD (dlOf (K ++ [dd])) = true := by
    simp only [isListTagD, dlOf, Node.isTag, Node.el]; decide
  have hitemDl : isItemTagD (dlOf (K ++ [dd])) = false := by
    simp only [isItemTagD, dlOf, Node.isTag, Node.el]; decide
  have hitemDd : isItemTagD dd = true := by simp [isItemTagD, hdd]
  have hdet : isstate ([] : List BState) .detabbed = false := by decide
  have hlst : isstate ([] : List BState) .list = false := by decide
  have hk : countSp (bodyBlock tab p) = tab := by rw [hY]; exact countSp_spaces tab a Y ha
  have hlevel : getLevelX isListTagD isItemTagD tab [] (rootOf [dlOf (K ++ [dd])]) (bodyBlock tab p) = (1, 1) := by
    have hdiv : tab / tab = 1 := Nat.div_self htab
    have hin : getLevelKidsX isListTagD isItemTagD 1 1 (K ++ [dd]) = (1, 0) := by
      rw [getLevelKidsX_last]
      simp [getLevelKidsX]
    have hc1 : (rootOf [dlOf (K ++ [dd])]).children = [dlOf (K ++ [dd])] := rfl
    have hc2 : (dlOf (K ++ [dd])).children = K ++ [dd] := rfl
    simp only [getLevelX, hk, Nat.le_refl, ge_iff_le, if_true, hdiv, hlst, Bool.false_eq_true, if_false,
      getLevelNodeX_eq, hc1, getLevelKidsX, hlistD, Bool.true_or, Bool.and_true, show (1 : Nat) > 0 by omega,
      decide_true, hc2, hin]
  have hnode : nodeAt 1 (rootOf [dlOf (K ++ [dd])]) = dlOf (K ++ [dd]) := by simp [nodeAt, hlast]
  have hdlast : (dlOf (K ++ [dd])).last? = some dd := by simp [dlOf, Node.last?]
  have hparse := parseChunkXT_plain cfg tab htab f [.detabbed] (by decide) refs (textToP dd) p.1 p.2 hp
  rw [show joinLines (p.1 :: p.2) = pText p from rfl] at hparse
  simp only [dispatchXT, hadm, ite_self, tailEmptyT, e1, Bool.false_eq_true, if_false, h3, hdet, Bool.not_false,
    Bool.true_and, hitem, hlast, hlistT, Bool.or_self, hdef, indentTestX, hitemD, hlistD, Bool.false_or, Bool.and_self,
    if_true, indentPX, hlevel, looseDetab_body tab p hp, hnode, hitemDl, hdlast, hitemDd, List.nil_append, hparse,
    updPath, hlast]
  simp [rootOf, dlOf, Node.setLast, Node.el]

/-- the continuation blocks of a definition, one after the other -/
theorem parse_defConts (cfg : XCfg) (hdef : cfg.defList = true) (tab : Nat) (htab : 0 < tab) (K : List Node) (d : Str)
    (hd : d ≠ []) :
    ∀ (cs : List Para) (texts : List Str) (dd : Node) (refs : Refs) (f : Nat) (REST : List Str), (∀ p ∈ cs, ParaOK p) →
      (dd = ddNode d ∧ texts = [] ∨ dd = looseDd d texts) →
      parseBlocksXT false cfg tab (f + 2 + cs.length) [] refs (rootOf [dlOf (K ++ [dd])])
          (cs.map (bodyBlock tab) ++ REST) =
        parseBlocksXT false cfg tab (f + 2) [] refs
          (rootOf [dlOf (K ++ [if cs = [] then dd else looseDd d (texts ++ cs.map pText)])]) REST := by
  intro cs
  induction cs with
  | nil => intro texts dd refs f REST _ _; simp
  | cons p r ih =>
    intro texts dd refs f REST hp hdd
    have htag : dd.isTag "dd" = true := by
      rcases hdd with ⟨rfl, _⟩ | rfl <;> (simp only [ddNode, looseDd, Node.isTag, Node.el]; decide)
    have hnext : (textToP dd).append (mkText "p" (pText p)) = looseDd d (texts ++ [pText p]) := by
      rcases hdd with ⟨rfl, rfl⟩ | rfl
      · rw [textToP_dd d hd, looseDd_append]
      · rw [textToP_loose, looseDd_append]
    have hstep := dispatch_defCont cfg hdef tab htab (f + r.length + 1) refs K dd htag p (hp p List.mem_cons_self)
      (r.map (bodyBlock tab) ++ REST)
    rw [show f + 2 + (p :: r).length = (f + r.length + 1 + 1) + 1 by simp; omega]
    simp only [List.map_cons, List.cons_append, parseBlocksXT, hstep, hnext]
    rw [show f + r.length + 1 + 1 = f + 2 + r.length by omega,
      ih (texts ++ [pText p]) _ refs f REST (fun x hx => hp x (List.mem_cons_of_mem _ hx)) (Or.inr rfl)]
    cases r with
    | nil => simp
    | cons q r' => simp [List.append_assoc]

end MdVerif.RenderG
