/-
wikilinks with its exact trigger `[[`, stated on the source (`convertX_wikilinks_src`): "no `[[`" is a `BSep`
predicate, so the block stage hands the inline stage a tree without `[[` (`blockStage_treeP`), on which the
wikilink pattern is dead (`Lemmas/PipelineXInertWiki.lean`).  Core Lean only.
-/
import MdVerif.Lemmas.PipelineXInertWiki
import MdVerif.Lemmas.PipelineXInertTreeP4

namespace MdVerif.InlineX
open Py Inline BlockExt

/-- `noDbl` through a character-wise replacement that writes `[` only for `[` and never the empty string -/
theorem noDbl_flatMap' (f : Char → Str) (hf1 : ∀ d, d ≠ '[' → ∀ c ∈ f d, c ≠ '[') (hf2 : f '[' = ['['])
    (hf3 : ∀ d, f d ≠ []) : ∀ (s : Str), noDbl s = true →
    noDbl (s.flatMap f) = true ∧ ((s.flatMap f).head? = some '[' → s.head? = some '[') := by
  intro s
  induction s with
  | nil => intro _; exact ⟨rfl, by intro h; simp at h⟩
  | cons x r ih =>
    intro h
    simp only [noDbl, Bool.and_eq_true, Bool.not_eq_true'] at h
    obtain ⟨ih1, ih2⟩ := ih h.2
    simp only [List.flatMap_cons]
    by_cases hx : x = '['
    · subst hx
      rw [hf2]
      refine ⟨?_, fun _ => rfl⟩
      simp only [List.cons_append, List.nil_append, noDbl, Bool.and_eq_true, Bool.not_eq_true']
      refine ⟨?_, ih1⟩
      apply Bool.eq_false_iff.mpr
      intro hc
      simp only [Bool.and_eq_true, decide_eq_true_eq, beq_iff_eq] at hc
      have := ih2 hc.2
      have h1 := h.1
      simp [this] at h1
    · constructor
      · have := noDbl_glue (a := []) (b := r.flatMap f) rfl ih1 (hf3 x) (hf1 x hx)
        simpa using this
      · intro hh
        cases hfx : f x with
        | nil => exact absurd hfx (hf3 x)
        | cons y b' =>
          rw [hfx] at hh
          simp only [List.cons_append, List.head?_cons, Option.some.injEq] at hh
          exact absurd hh (hf1 x hx y (by rw [hfx]; exact List.mem_cons_self))

theorem lowerTable_nonempty : Generated.Chars.lowerNonAscii.all (fun p => !p.2.isEmpty) = true := by
  decide +kernel

theorem lowerChar_ne_nil (d : Char) : lowerChar d ≠ [] := by
  simp only [lowerChar]
  split
  · split <;> simp
  · split
    · rename_i p hf
      have := List.all_eq_true.mp lowerTable_nonempty p (List.mem_of_find?_eq_some hf)
      intro e
      simp only [List.map_eq_nil_iff] at e
      simp [e] at this
    · simp

theorem noDbl_lower {s : Str} (h : noDbl s = true) :
    noDbl (lower s) = true ∧ ((lower s).head? = some '[' → s.head? = some '[') :=
  noDbl_flatMap' lowerChar (fun d hd c hc e => lowerChar_bracket d hd (e ▸ hc)) (by decide) lowerChar_ne_nil s h

theorem collapseSp_cons2 (c d : Char) (r : Str) :
    collapseSp (c :: d :: r) = if c = ' ' && d = ' ' then collapseSp (d :: r) else c :: collapseSp (d :: r) := by
  conv => lhs; unfold collapseSp

theorem collapseSp_head : ∀ (s : Str), (collapseSp s).head? = s.head? := by
  intro s
  induction s with
  | nil => rfl
  | cons c r ih =>
    cases r with
    | nil => rfl
    | cons d r' =>
      rw [collapseSp_cons2]
      split
      · rename_i hc
        simp only [Bool.and_eq_true, decide_eq_true_eq] at hc
        rw [ih]
        simp [hc.1, hc.2]
      · rfl

theorem noDbl_collapseSp : ∀ (s : Str), noDbl s = true → noDbl (collapseSp s) = true := by
  intro s
  induction s with
  | nil => intro _; rfl
  | cons c r ih =>
    intro h
    simp only [noDbl, Bool.and_eq_true, Bool.not_eq_true'] at h
    cases r with
    | nil => simp [collapseSp, noDbl]
    | cons d r' =>
      rw [collapseSp_cons2]
      split
      · exact ih h.2
      · rw [noDbl]
        simp only [Bool.and_eq_true, Bool.not_eq_true']
        refine ⟨?_, ih h.2⟩
        rw [collapseSp_head]
        exact h.1

theorem noDbl_capitalize {s : Str} (h : noDbl s = true) : noDbl (capitalize s) = true := by
  cases s with
  | nil => rfl
  | cons c r =>
    simp only [noDbl, Bool.and_eq_true, Bool.not_eq_true'] at h
    obtain ⟨l1, l2⟩ := noDbl_lower h.2
    simp only [capitalize, noDbl, Bool.and_eq_true, Bool.not_eq_true']
    refine ⟨?_, l1⟩
    apply Bool.eq_false_iff.mpr
    intro hc
    · simp only [Bool.and_eq_true, decide_eq_true_eq, beq_iff_eq] at hc
      have hr := l2 hc.2
      have hcc : c = '[' := by
        have h1 := hc.1
        split at h1
        · rename_i hl
          exact absurd h1 (blockSafe_bracket'.upper c hl)
        · exact h1
      have h1 := h.1
      simp [hcc, hr] at h1
where
  blockSafe_bracket' : BlockSafeC '[' := PipelineX.blockSafe_bracket

/-- "no `[[`" for the block stage -/
theorem bsep_noDbl : BSep (fun s => noDbl s = true) (fun c => c ≠ '[') where
  sep := sep_noDbl
  nl := by decide
  none_ := by decide
  fn1 := by decide
  fn2 := by decide
  lowerOk := fun h => (noDbl_lower h).1
  collapseOk := fun h => noDbl_collapseSp _ h
  capOk := noDbl_capitalize

end MdVerif.InlineX

namespace MdVerif.PipelineX
open Py Pipeline BlockExt InlineX

def dbl : Str := ['[', '[']

theorem okDbl_eq : (fun s => contains s dbl = false) = (fun s => noDbl s = true) := by
  funext s
  exact propext (noDbl_iff_contains s).symm

theorem prep_dbl : PrepClosed (fun s => noDbl s = true) := by
  rw [← okDbl_eq]
  exact prepClosed_noSub dbl (by decide) '[' (by decide) (by decide)

/-- wikilinks is inert on a text without `[[` (when the run without it is not out of fuel) -/
theorem convertX_wikilinks_src (x : Exts) (hx : x.wikilinks = false) (cfg : Cfg) (src : Str)
    (h : contains (Normalize.normalize cfg.tab src) dbl = false) (hne : convertX x cfg src ≠ .oof) :
    convertX { x with wikilinks := true } cfg src = convertX x cfg src := by
  have h' : noDbl (Normalize.normalize cfg.tab src) = true := (noDbl_iff_contains _).mpr h
  apply convertX_of_stages_fuel _ _ _ _ hne
  · rfl
  · intro _ _ _; rfl
  · intro text stash root log hprep hb hlate
    have htext : noDbl text = true := prepareX_ok bsep_noDbl.closed prep_dbl x cfg src hprep h'
    have hroot : DeepP (fun s => noDbl s = true) root := blockStage_treeP bsep_noDbl _ _ _ cfg htext hb
    refine lateX_simP (G := True) (fun _ => sep_noDbl) x _ cfg stash root log
      (tableA x.footnotes) (tableB x.nl2br) PatK.wikilink ?_ (table_nowiki _ _) ?_ ?_ (fun _ => hroot)
      (fun _ _ _ => rfl) hlate
    · simp only [xcOf, hx]
      exact table_wiki_false _ _
    · simp only [xcOf, table_wiki_true]
      rfl
    · intro data si xs hd _
      simp only [findX]
      split
      · rfl
      · rw [wikiScan_noDbl _ _ (noDbl_infix (List.drop_suffix _ _).isInfix (hd trivial))]
  · intro _ _; rfl

end MdVerif.PipelineX
