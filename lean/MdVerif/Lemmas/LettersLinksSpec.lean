/-
Helper lemmas for `Props/C06Links.lean`, part 3: the statement in the vocabulary of `Spec/Doc.lean` — the visible part
of a printed line (`visibleLine`: the contents and the link texts, without brackets and labels), code bodies without
`&`, `<`, `>` from the characters of the line.  Core Lean only.
-/
import MdVerif.Lemmas.LettersLinksDoc

namespace MdVerif.RefText
open Py Inline Escape CodeLaw DocParse DocParse2 Flat DocSpec

/-! ### the characters of a code body are characters of the line -/

theorem mem_code_rawM (esc : List Char) (segs : List MSeg) (s : MSeg) (hs : s ∈ segs) (n : Nat) (b : Str)
    (hk : s.k = .code n b) (ch : Char) (hch : ch ∈ b) : ch ∈ rawM esc segs := by
  induction segs with
  | nil => cases hs
  | cons x r ih =>
    rcases List.mem_cons.1 hs with rfl | hs
    · simp only [rawM, hk, MKind.src, spanSrc, padded, List.mem_append]
      exact Or.inl (Or.inr (Or.inl (Or.inl (Or.inr hch))))
    · simp only [rawM, List.mem_append]
      exact Or.inr (Or.inr (ih hs))

theorem codeClean_of_raw (esc : List Char) (c : Chunk)
    (h : ∀ ch ∈ c.raw esc, ch ≠ '&' ∧ ch ≠ '<' ∧ ch ≠ '>') : c.CodeClean := by
  intro s hs n b hk
  have hm : ∀ ch ∈ b, ch ∈ c.raw esc := fun ch hch => by
    simp only [Chunk.raw, List.mem_append]
    exact Or.inr (mem_code_rawM esc c.segs s hs n b hk ch hch)
  exact ⟨fun hx => (h _ (hm _ hx)).1 rfl, fun hx => (h _ (hm _ hx)).2.1 rfl, fun hx => (h _ (hm _ hx)).2.2 rfl⟩

theorem mem_usStage0 (esc : List Char) (us : List RUse) : ∀ (m n0 : Nat) (u : RUse), u ∈ us →
    (∀ ch ∈ u.T.raw esc, ch ∈ usStage esc 0 false m n0 us) ∧ (∀ ch ∈ u.C.raw esc, ch ∈ usStage esc 0 false m n0 us) := by
  induction us with
  | nil => intro _ _ u hu; cases hu
  | cons a r ih =>
    intro m n0 u hu
    rcases List.mem_cons.1 hu with rfl | hu
    · refine ⟨fun ch hch => ?_, fun ch hch => ?_⟩
      · simp only [usStage, Chunk.stage_raw, List.mem_cons, List.mem_append]
        exact Or.inr (Or.inl hch)
      · simp only [usStage, Chunk.stage_raw, List.mem_cons, List.mem_append]
        exact Or.inr (Or.inr (Or.inr (Or.inr (Or.inr (Or.inr (Or.inr (Or.inl hch)))))))
    · obtain ⟨h1, h2⟩ := ih (m + a.T.escs esc + a.C.escs esc) (n0 + a.T.cnt 0 + a.C.cnt 0) u hu
      refine ⟨fun ch hch => ?_, fun ch hch => ?_⟩
      · simp only [usStage, List.mem_cons, List.mem_append]
        exact Or.inr (Or.inr (Or.inr (Or.inr (Or.inr (Or.inr (Or.inr (Or.inr (h1 ch hch))))))))
      · simp only [usStage, List.mem_cons, List.mem_append]
        exact Or.inr (Or.inr (Or.inr (Or.inr (Or.inr (Or.inr (Or.inr (Or.inr (h2 ch hch))))))))

/-- code bodies of all chunks of a line whose characters are none of `&`, `<`, `>` -/
theorem codeClean_line (esc : List Char) (C0 : Chunk) (us : List RUse)
    (h : ∀ ch ∈ lineRaw esc C0 us, ch ≠ '&' ∧ ch ≠ '<' ∧ ch ≠ '>') :
    C0.CodeClean ∧ ∀ u ∈ us, u.T.CodeClean ∧ u.C.CodeClean := by
  refine ⟨codeClean_of_raw esc C0 (fun ch hch => h ch (by simp [lineRaw, hch])), fun u hu => ?_⟩
  obtain ⟨h1, h2⟩ := mem_usStage0 esc us 0 0 u hu
  exact ⟨codeClean_of_raw esc u.T (fun ch hch => h ch (by simp only [lineRaw, List.mem_append]; exact Or.inr (h1 ch hch))),
    codeClean_of_raw esc u.C (fun ch hch => h ch (by simp only [lineRaw, List.mem_append]; exact Or.inr (h2 ch hch)))⟩

/-! ### the visible part of a printed line -/

/-- the uses without brackets and labels: link text, then the content after the use -/
def visUses : List MUse → PSt → Str × PSt
  | [], st => ([], st)
  | u :: r, st =>
    let pT := printInlines none true true u.text st
    let pC := printInlines none true true u.after pT.2
    let pR := visUses r pC.2
    (pT.1 ++ (pC.1 ++ pR.1), pR.2)

/-- **the visible text of the source line**: the contents and the link texts as printed; the brackets, the labels —
    and with them what they stand for: destinations and titles — are left out -/
def visibleLine (c0 : List DocSpec.Inline) (us : List MUse) (st : PSt) : Str :=
  (printInlines none true true c0 st).1 ++ (visUses us (printInlines none true true c0 st).2).1

def visRest (esc : List Char) : List RUse → Str
  | [] => []
  | u :: r => u.T.raw esc ++ (u.C.raw esc ++ visRest esc r)

theorem visibleSrc_eq (esc : List Char) : ∀ (us : List RUse) (C0 : Chunk),
    visibleSrc esc C0 us = C0.raw esc ++ visRest esc us
  | [], C0 => by simp [visibleSrc, visRest]
  | u :: r, C0 => by simp [visibleSrc, visRest, visibleSrc_eq esc r u.C, List.append_assoc]

/-- the bridge of `Lemmas/RefTextSpec.lean` with the visible part -/
theorem uses_bridge_vis (defs : List InlineRef.DefSpec) : ∀ (us : List MUse) (st : PSt), (∀ u ∈ us, u.ok = true) →
    (∀ u ∈ us, Block.lookupRef (defs.map InlineRef.DefSpec.entry) (RefDef.normUse u.label) = some (u.url, u.title)) →
    ∃ rs : List RUse, (∀ m n0, usStage ESC 0 false m n0 rs = (printUses us st).1) ∧
      (∀ r ∈ rs, UseSpec ESC defs r) ∧ visRest ESC rs = (visUses us st).1 ∧ rs.length = us.length
  | [], st, _, _ => ⟨[], fun _ _ => rfl, fun r hr => (by cases hr), rfl, rfl⟩
  | u :: r, st, hok, hlook => by
    have hu := hok u List.mem_cons_self
    simp only [MUse.ok, Bool.and_eq_true, Bool.or_eq_true, beq_iff_eq, Bool.not_eq_true',
      List.isEmpty_eq_false_iff] at hu
    obtain ⟨⟨⟨⟨⟨hT, hTs⟩, hC⟩, hsp⟩, hlab⟩, hlne⟩ := hu
    obtain ⟨segsT, st1, hpT, hokT, _, hmT⟩ := chunk_of_content u.text hT st
    obtain ⟨segsC, st2, hpC, hokC, _, _⟩ := chunk_of_content u.after hC st1
    obtain ⟨rs, hrs1, hrs2, hrs3, hrs4⟩ := uses_bridge_vis defs r st2 (fun x hx => hok x (List.mem_cons_of_mem _ hx))
      (fun x hx => hlook x (List.mem_cons_of_mem _ hx))
    have hTitems : mixItemsOK u.text = true := by
      simp only [mixOK, Bool.and_eq_true] at hT; exact hT.1.1
    refine ⟨⟨⟨(splitMix u.text).1, segsT⟩, u.sp, u.label, u.url, u.title, ⟨(splitMix u.after).1, segsC⟩⟩ :: rs,
      ?_, ?_, ?_, by simp [hrs4]⟩
    · intro m n0
      simp only [usStage, printUses, Chunk.stage_raw, hpT, hpC, hrs1]
    · intro x hx
      rcases List.mem_cons.1 hx with rfl | hx
      · exact ⟨hokT, vis_of_startsOk u.text hTitems hTs segsT hmT, hokC, hsp, hlab, hlne, hlook u List.mem_cons_self⟩
      · exact hrs2 x hx
    · simp only [visRest, visUses, hpT, hpC, hrs3]

/-- **conservation for a printed line with references**, in the vocabulary of `Spec/Doc.lean` -/
theorem letters_mixLine {L : Char → Bool} (hL : LetterClass L) (cfg : Pipeline.Cfg) (hfmt : cfg.fmt = .xhtml)
    (hbl : cfg.blockLevel = TreeProc.defaultBlockLevel) (htab : 0 < cfg.tab) (hesc : cfg.esc = ESC)
    (before after : List InlineRef.DefSpec) (hb : ∀ d ∈ before, d.ok cfg.tab = true)
    (ha : ∀ d ∈ after, d.ok cfg.tab = true) (c0 : List DocSpec.Inline) (us : List MUse) (st : PSt)
    (hne : us ≠ []) (h0 : mixOK c0 = true) (hus : ∀ u ∈ us, u.ok = true)
    (hlook : ∀ u ∈ us, Block.lookupRef ((before ++ after).map InlineRef.DefSpec.entry) (RefDef.normUse u.label) =
      some (u.url, u.title))
    (hstart : startPlain (printLine c0 us st) = true) (hchars : (printLine c0 us st).all lineCh = true)
    (hgt : '>' ∉ printLine c0 us st) (hnoref : Block.refMatchAt (printLine c0 us st) 0 = none) :
    ∃ out, Pipeline.convert cfg (InlineRef.docOf before (printLine c0 us st) after) = .ok out ∧
      (Ser.readForest cfg.fmt out).isSome = true ∧
      C06.visibleLetters L cfg.fmt out = letters L (visibleLine c0 us st) := by
  obtain ⟨segs0, st1, hp0, hok0, _, _⟩ := chunk_of_content c0 h0 st
  obtain ⟨rs, hrs1, hrs2, hrs3, hrs4⟩ := uses_bridge_vis (before ++ after) us st1 hus hlook
  have hline : printLine c0 us st = lineRaw cfg.esc ⟨(splitMix c0).1, segs0⟩ rs := by
    rw [hesc]
    simp only [printLine, lineRaw, hp0, hrs1]
  have hvis : visibleLine c0 us st = visibleSrc cfg.esc ⟨(splitMix c0).1, segs0⟩ rs := by
    rw [hesc, visibleSrc_eq]
    simp only [visibleLine, hp0, hrs3]
  have hrne : rs ≠ [] := by
    intro e; rw [e] at hrs4
    cases us with
    | nil => exact hne rfl
    | cons a b => simp at hrs4
  rw [hline] at hstart hchars hnoref hgt ⊢
  rw [hvis]
  have hclean : ∀ ch ∈ lineRaw cfg.esc ⟨(splitMix c0).1, segs0⟩ rs, ch ≠ '&' ∧ ch ≠ '<' ∧ ch ≠ '>' := by
    intro ch hch
    have := List.all_eq_true.mp hchars ch hch
    simp only [lineCh, InlineRef.docCh, Bool.and_eq_true, bne_iff_ne, ne_eq] at this
    exact ⟨this.1.1.1.1.1.2, this.1.1.1.1.1.1, fun e => hgt (e ▸ hch)⟩
  obtain ⟨hc0, hcu⟩ := codeClean_line cfg.esc _ rs hclean
  exact letters_line_conv hL cfg hfmt hbl htab (hesc ▸ escOK_ESC) (hesc ▸ rbr_ESC) before after hb ha _ rs hrne
    (hesc ▸ hok0) (fun u hu => hesc ▸ hrs2 u hu) hc0 hcu hstart hchars hnoref

end MdVerif.RefText
