/-
Unary invariants of the log (`md.references`, footnote table, abbreviation table in one list, `Model/BlockExt.lean`)
through the extended block parser with the table processor (`parseBlocksXT`).

The processors that recurse only hand the log to the recursive calls and back; so any predicate `Q` on logs that
the three writing processors (`referenceP`, `footnoteP`, `abbrP`) preserve (`LogStep`) is preserved by
`parseBlocksXT` on block lists that satisfy `Ok` (`parseBlocksXT_log`).  Core Lean only.
-/
import MdVerif.Lemmas.BlockExtProc
import MdVerif.Model.BlockExtT

namespace MdVerif.BlockExt
open Py Block

variable {Ok : Str → Prop} {Q : Refs → Prop}

/-- the recursive-call callback keeps `Q` on calls whose blocks satisfy `Ok` -/
def RSound (Ok : Str → Prop) (Q : Refs → Prop) (pb : PB) : Prop :=
  ∀ st refs p bl, AllOk Ok bl → Q refs → ∀ n r, pb st refs p bl = some (n, r) → Q r

def QPair (Q : Refs → Prop) (x : Option (Node × Refs)) : Prop := ∀ n r, x = some (n, r) → Q r
def QRes (Q : Refs → Prop) (r : Option (Node × Refs × List Str)) : Prop := ∀ n refs rest, r = some (n, refs, rest) → Q refs

theorem qres_none : QRes Q none := by intro n refs rest h; cases h

theorem qres_some {n : Node} {refs : Refs} {rest : List Str} (h : Q refs) : QRes Q (some (n, refs, rest)) := by
  intro n' refs' rest' e; cases e; exact h

theorem qres_of_pair {x : Option (Node × Refs)} (f : Node → Node) (rest : List Str) (h : QPair Q x) :
    QRes Q (match (generalizing := false) x with | some (n, r) => some (f n, r, rest) | none => none) := by
  cases hx : x with
  | none => exact qres_none
  | some pr =>
    obtain ⟨n, r⟩ := pr
    exact qres_some (h n r hx)

theorem qres_bind {x : Option (Node × Refs)} (K : Node → Refs → Option (Node × Refs × List Str)) (h : QPair Q x)
    (hK : ∀ n r, Q r → QRes Q (K n r)) :
    QRes Q (match (generalizing := false) x with | none => none | some (n, r) => K n r) := by
  cases hx : x with
  | none => exact qres_none
  | some pr =>
    obtain ⟨n, r⟩ := pr
    exact hK n r (h n r hx)

theorem qres_ite {a b : Option (Node × Refs × List Str)} (c : Prop) [Decidable c] (h1 : c → QRes Q a)
    (h2 : ¬c → QRes Q b) : QRes Q (if c then a else b) := by
  by_cases h : c
  · rw [if_pos h]; exact h1 h
  · rw [if_neg h]; exact h2 h

theorem RSound.chunk (hc : Closed Ok) {pb : PB} (hs : RSound Ok Q pb) (st : List BState) (refs : Refs) (p : Node)
    {text : Str} (ht : Ok text) (hq : Q refs) : QPair Q (parseChunk pb st refs p text) :=
  hs _ _ _ _ (ok_splitS hc ht) hq

variable {pb : PB} {tab : Nat} {state : List BState} {refs : Refs} {parent : Node} {b : Str} {rest : List Str}

theorem hashP_log (hc : Closed Ok) (hs : RSound Ok Q pb) (hb : Ok b) (hq : Q refs) (m : Nat × Nat × Nat × Str) :
    QRes Q (hashP tab pb state refs parent b rest m) := by
  obtain ⟨st, en, lv, header⟩ := m
  simp only [hashP]
  by_cases he : (b.take st).isEmpty = true
  · simp only [he, if_true]
    exact qres_some hq
  · simp only [he, Bool.false_eq_true, if_false]
    have hp := hs state refs parent [b.take st] (AllOk.single (ok_take hc st hb)) hq
    cases h : pb state refs parent [b.take st] with
    | none => exact qres_none
    | some pr =>
      obtain ⟨n, r⟩ := pr
      exact qres_some (hp n r h)

theorem hrP_log (hc : Closed Ok) (hs : RSound Ok Q pb) (hb : Ok b) (hq : Q refs) (m : Nat × Nat) :
    QRes Q (hrP pb state refs parent b rest m) := by
  obtain ⟨st, en⟩ := m
  simp only [hrP]
  by_cases he : (rstripC '\n' (b.take st)).isEmpty = true
  · simp only [he, if_true]
    exact qres_some hq
  · simp only [he, Bool.false_eq_true, if_false]
    have hp := hs state refs parent [rstripC '\n' (b.take st)]
      (AllOk.single (ok_rstripC hc _ (ok_take hc st hb))) hq
    cases h : pb state refs parent [rstripC '\n' (b.take st)] with
    | none => exact qres_none
    | some pr =>
      obtain ⟨n, r⟩ := pr
      exact qres_some (hp n r h)

theorem listItems_log (hs : RSound Ok Q pb) (st2 : List BState) :
    ∀ (items : List Str) (refs : Refs) (lst : Node), AllOk Ok items → Q refs →
      QPair Q (listItems tab pb st2 refs lst items) := by
  intro items
  induction items with
  | nil =>
    intro refs lst _ hq n r h
    have e1 : listItems tab pb st2 refs lst [] = some (lst, refs) := rfl
    rw [e1] at h; cases h; exact hq
  | cons item items ih =>
    intro refs lst hi hq
    simp only [listItems]
    split
    · split
      · rename_i l hlast
        have hp := hs st2 refs l [item] (AllOk.single (AllOk.head hi)) hq
        cases h : pb st2 refs l [item] with
        | none => intro n r e; cases e
        | some pr =>
          obtain ⟨li, r⟩ := pr
          exact ih r _ (AllOk.tail hi) (hp li r h)
      · exact ih refs lst (AllOk.tail hi) hq
    · have hp := hs st2 refs (Node.el "li") [item] (AllOk.single (AllOk.head hi)) hq
      cases h : pb st2 refs (Node.el "li") [item] with
      | none => intro n r e; cases e
      | some pr =>
        obtain ⟨li, r⟩ := pr
        exact ih r _ (AllOk.tail hi) (hp li r h)

theorem listPX_log (hc : Closed Ok) (hs : RSound Ok Q pb) (hb : Ok b) (hq : Q refs) (p : ListParams) (tag : String) :
    QRes Q (listPX p tab pb state refs parent b rest tag) := by
  have hitems := ok_getItemsX hc p tab hb
  simp only [listPX]
  split
  · have hhead : Ok ((getItemsX p tab b).headD []) := by
      cases h : getItemsX p tab b with
      | nil => exact hc.nil
      | cons a r => rw [h] at hitems; exact AllOk.head hitems
    have hp := hs (state ++ [.looselist]) refs (Node.el "li") [(getItemsX p tab b).headD []] (AllOk.single hhead) hq
    cases h : pb (state ++ [.looselist]) refs (Node.el "li") [(getItemsX p tab b).headD []] with
    | none => exact qres_none
    | some pr =>
      obtain ⟨newli, r⟩ := pr
      have hdrop : AllOk Ok ((getItemsX p tab b).drop 1) := fun x hx => hitems x (List.mem_of_mem_drop hx)
      exact qres_of_pair (fun l => parent.setLast l) rest (listItems_log hs _ _ r _ hdrop (hp newli r h))
  · split
    · exact qres_of_pair (fun l => l) rest (listItems_log hs _ _ refs _ hitems hq)
    · exact qres_of_pair (fun l => parent.append l) rest (listItems_log hs _ _ refs _ hitems hq)

theorem listP_log (hc : Closed Ok) (hs : RSound Ok Q pb) (hb : Ok b) (hq : Q refs) (tag : String) :
    QRes Q (listP tab pb state refs parent b rest tag) := by
  rw [← listPX_default]
  exact listPX_log hc hs hb hq _ tag

theorem quoteP_log (hc : Closed Ok) (hs : RSound Ok Q pb) (hb : Ok b) (hq : Q refs) (q : Nat) :
    QRes Q (quoteP pb state refs parent b rest q) := by
  simp only [quoteP]
  have hp := hs state refs parent [b.take q] (AllOk.single (ok_take hc q hb)) hq
  cases h : pb state refs parent [b.take q] with
  | none => exact qres_none
  | some pr =>
    obtain ⟨par, r⟩ := pr
    have hblock : Ok (joinLines ((lines (b.drop q)).map quoteClean)) :=
      ok_mapLines hc _ quoteClean_infix (ok_drop hc q hb)
    simp only []
    split
    · exact qres_of_pair (fun l => par.setLast l) rest (hs.chunk hc _ r _ hblock (hp par r h))
    · exact qres_of_pair (fun l => par.append l) rest (hs.chunk hc _ r _ hblock (hp par r h))

theorem indentPX_log (hc : Closed Ok) (hs : RSound Ok Q pb) (hb : Ok b) (hq : Q refs) (isL isI : Node → Bool)
    (itemTag : String) : QRes Q (indentPX isL isI itemTag tab pb state refs parent b rest) := by
  simp only [indentPX]
  generalize getLevelX isL isI tab state parent b = lv
  obtain ⟨level, steps⟩ := lv
  have hblock : Ok (looseDetab tab b level) := ok_looseDetab hc _ _ hb
  simp only []
  split
  · split
    · exact qres_of_pair (fun l => parent.setLast l) rest (hs _ refs _ _ (AllOk.single hblock) hq)
    · exact qres_of_pair (fun l => l) rest (hs _ refs parent _ (AllOk.single hblock) hq)
  · split
    · exact qres_of_pair (fun l => updPath (fun _ => l) steps parent) rest (hs _ refs _ _ (AllOk.single hblock) hq)
    · split
      · exact qres_of_pair (fun l => updPath (fun s => s.setLast l) steps parent) rest
          (hs.chunk hc _ refs _ hblock hq)
      · exact qres_of_pair (fun l => updPath (fun s => s.append l) steps parent) rest
          (hs _ refs _ _ (AllOk.single hblock) hq)

theorem indentP_log (hc : Closed Ok) (hs : RSound Ok Q pb) (hb : Ok b) (hq : Q refs) :
    QRes Q (indentP tab pb state refs parent b rest) := by
  rw [← indentPX_core]
  exact indentPX_log hc hs hb hq _ _ "li"

theorem admonitionP_log (hc : Closed Ok) (hs : RSound Ok Q pb) (hb : Ok b) (hq : Q refs) (hit : AdmHit) :
    QRes Q (admonitionP tab pb state refs parent b rest hit) := by
  cases hit with
  | re st en g1 g2 =>
    simp only [admonitionP]
    have hblock : Ok (detab tab (b.drop en)).1 := ok_detab_fst hc tab (ok_drop hc en hb)
    refine qres_bind _ ?_ ?_
    · by_cases hst : st > 0
      · rw [if_pos hst]
        exact hs state refs parent [b.take st] (AllOk.single (ok_take hc st hb)) hq
      · rw [if_neg hst]
        intro n r e; cases e; exact hq
    · intro par r hr
      exact qres_of_pair (fun l => par.append l) _ (hs.chunk hc _ r _ hblock hr)
  | sib steps indent =>
    simp only [admonitionP]
    have hblock : Ok (detab indent b).1 := ok_detab_fst hc indent hb
    exact qres_of_pair (fun l => updPath (fun _ => l) steps parent) _ (hs.chunk hc _ refs _ hblock hq)

/-- `defListP`: either it declines or its result keeps `Q` -/
theorem defListP_log (hc : Closed Ok) (hs : RSound Ok Q pb) (hb : Ok b) (hq : Q refs) (m : Nat × Nat × Str)
    (hm : defSearch b = some m) :
    ∀ x, defListP tab pb state refs parent b rest m = some x → QRes Q x := by
  obtain ⟨st, en, g2⟩ := m
  have hg2 : Ok g2 := hc.sub (defSearch_infix hm) hb
  simp only [defListP]
  generalize hdt' : (if defNoIndent (b.drop en) = true then (b.drop en, ([] : Str)) else detab tab (b.drop en)) = dt
  obtain ⟨d0, theRest⟩ := dt
  have hd0 : Ok d0 := by
    split at hdt'
    · injection hdt' with h1 h2
      exact h1 ▸ ok_drop hc en hb
    · have h1 := ok_detab_fst hc tab (ok_drop hc en hb)
      rw [hdt'] at h1
      exact h1
  have hd : Ok (if d0.isEmpty = true then g2 else g2 ++ '\n' :: d0) := by
    split
    · exact hg2
    · exact hc.joinNl hg2 hd0
  simp only []
  intro x hx
  split at hx
  · split at hx
    · cases hx
    · injection hx with hx
      rw [← hx]
      exact qres_of_pair (fun dd => parent.append ((addTerms (Node.el "dl") _).append dd)) _
        (hs _ refs _ _ (AllOk.single hd) hq)
  · injection hx with hx
    rw [← hx]
    split
    · exact qres_of_pair (fun dd => Node.setLast _ ((addTerms _ _).append dd)) _ (hs _ refs _ _ (AllOk.single hd) hq)
    · exact qres_of_pair (fun dd => Node.append _ ((addTerms (Node.el "dl") _).append dd)) _
        (hs _ refs _ _ (AllOk.single hd) hq)

/-! ### the writing processors, the dispatcher -/

/-- the three processors that write to the log keep `Q` (on `Ok` blocks, when enabled) -/
structure LogStep (Ok : Str → Prop) (Q : Refs → Prop) (cfg : XCfg) : Prop where
  ref : ∀ (refs : Refs) (parent : Node) (b : Str) (rest : List Str) m, Ok b → Q refs → refSearch b = some m →
    Q (referenceP refs parent b rest m).2.1
  fn : cfg.footnotes = true → ∀ (refs : Refs) (b : Str) (rest : List Str) r, Ok b → AllOk Ok rest → Q refs →
    footnoteP refs b rest = some r → Q r.1
  ab : cfg.abbr = true → ∀ (refs : Refs) (b : Str) (rest : List Str) r, Ok b → Q refs →
    abbrP refs b rest = .ok r → Q r.1

variable {cfg : XCfg}

theorem tailRef_log (hl : LogStep Ok Q cfg) (hb : Ok b) (hq : Q refs) :
    QRes Q (tailRef state refs parent b rest) := by
  simp only [tailRef]
  split
  · rename_i m hm
    intro n r rest' e
    cases e
    exact hl.ref refs parent b rest m hb hq hm
  · intro n r rest' e
    simp only [paraP] at e
    split at e
    · cases e; exact hq
    · split at e
      · split at e <;> (cases e; exact hq)
      · cases e; exact hq

theorem tailAbbr_log (hl : LogStep Ok Q cfg) (hb : Ok b) (hq : Q refs) :
    QRes Q (tailAbbr cfg state refs parent b rest) := by
  simp only [tailAbbr]
  split
  · rename_i hcfg
    split
    · rename_i refs' rest' h
      exact qres_some (hl.ab hcfg refs b rest (refs', rest') hb hq h)
    · exact qres_none
    · exact tailRef_log hl hb hq
  · exact tailRef_log hl hb hq

theorem tailFootnote_log (hl : LogStep Ok Q cfg) (hb : Ok b) (hr : AllOk Ok rest) (hq : Q refs) :
    QRes Q (tailFootnote cfg state refs parent b rest) := by
  simp only [tailFootnote]
  split
  · rename_i hcfg
    split
    · rename_i refs' rest' h
      exact qres_some (hl.fn hcfg refs b rest (refs', rest') hb hr hq h)
    · exact tailAbbr_log hl hb hq
  · exact tailAbbr_log hl hb hq

theorem tailQuote_log (hc : Closed Ok) (hl : LogStep Ok Q cfg) (hs : RSound Ok Q pb) (hb : Ok b) (hr : AllOk Ok rest)
    (hq : Q refs) : QRes Q (tailQuote cfg pb state refs parent b rest) := by
  simp only [tailQuote]
  split
  · exact quoteP_log hc hs hb hq _
  · exact tailFootnote_log hl hb hr hq

theorem tailDef_log (hc : Closed Ok) (hl : LogStep Ok Q cfg) (hs : RSound Ok Q pb) (hb : Ok b) (hr : AllOk Ok rest)
    (hq : Q refs) : QRes Q (tailDef cfg tab pb state refs parent b rest) := by
  simp only [tailDef]
  split
  · split
    · rename_i m hm
      cases hd : defListP tab pb state refs parent b rest m with
      | none => exact tailQuote_log hc hl hs hb hr hq
      | some x => exact defListP_log hc hs hb hq m hm x hd
    · exact tailQuote_log hc hl hs hb hr hq
  · exact tailQuote_log hc hl hs hb hr hq

theorem tailList_log (hc : Closed Ok) (hl : LogStep Ok Q cfg) (hs : RSound Ok Q pb) (hb : Ok b) (hr : AllOk Ok rest)
    (hq : Q refs) : QRes Q (tailList cfg tab pb state refs parent b rest) := by
  simp only [tailList]
  split
  · split
    · exact listPX_log hc hs hb hq _ "ol"
    · exact listP_log hc hs hb hq "ol"
  · split
    · split
      · exact listPX_log hc hs hb hq _ "ul"
      · exact listP_log hc hs hb hq "ul"
    · exact tailDef_log hc hl hs hb hr hq

theorem tailEmptyT_log (tables : Bool) (hc : Closed Ok) (hl : LogStep Ok Q cfg) (hs : RSound Ok Q pb) (hb : Ok b)
    (hr : AllOk Ok rest) (hq : Q refs) : QRes Q (tailEmptyT tables cfg tab pb state refs parent b rest) := by
  simp only [tailEmptyT]
  refine qres_ite _ (fun _ => ?_) (fun _ => ?_)
  · intro n r rest' e
    simp only [emptyP] at e
    split at e
    · split at e <;> (cases e; exact hq)
    · cases e; exact hq
  refine qres_ite _ (fun _ => indentP_log hc hs hb hq) (fun _ => ?_)
  refine qres_ite _ (fun _ => indentPX_log hc hs hb hq _ _ "dd") (fun _ => ?_)
  refine qres_ite _ (fun _ => ?_) (fun _ => ?_)
  · intro n r rest' e
    simp only [codeP] at e
    split at e
    · split at e <;> (cases e; exact hq)
    · cases e; exact hq
  split
  · exact qres_some hq
  · split
    · exact hashP_log hc hs hb hq _
    · refine qres_ite _ (fun _ => ?_) (fun _ => ?_)
      · exact qres_some hq
      · split
        · exact hrP_log hc hs hb hq _
        · exact tailList_log hc hl hs hb hr hq

theorem dispatchXT_log (tables : Bool) (hc : Closed Ok) (hl : LogStep Ok Q cfg) (hs : RSound Ok Q pb) (hb : Ok b)
    (hr : AllOk Ok rest) (hq : Q refs) : QRes Q (dispatchXT tables cfg tab pb state refs parent b rest) := by
  simp only [dispatchXT]
  split
  · exact admonitionP_log hc hs hb hq _
  · exact tailEmptyT_log tables hc hl hs hb hr hq

end MdVerif.BlockExt
