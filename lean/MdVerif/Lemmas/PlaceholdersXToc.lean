/-
Helper lemmas for C10 on the extension model (`Props/C10XToc.lean`), part 1: the string functions of the toc tree
processor and the serialiser on trees that hold escape tokens.  Core Lean only.

1. the string functions of `Model/Ext/TocTree.lean` and `Model/Ext/Toc.lean` write characters of their input and a few
   literals: `mem_cutSpans`, `mem_collapseWs`, `stripTags_noctl`, `mem_htmlUnescape`, `mem_dashRuns`; `slugify_noctl`
   (for every input: only word characters, blanks and `-` are kept), `unique_noctl`.
2. `serialize_wf`: serialising a tree whose strings are made of ordinary characters and escape tokens gives such a string
   (`wf_pass`: a left-to-right rewriting that copies tokens keeps `WF`; `wf_escCdata`, `wf_escAttrHtml`).
-/
import MdVerif.Lemmas.PlaceholdersChain
import MdVerif.Lemmas.PlaceholdersXPost
import MdVerif.Lemmas.Toc
import MdVerif.Spec.NoCtlX

namespace MdVerif.NoCtlX
open MdVerif.NoCtl Py

/-! ## 1. string functions -/

theorem mem_cutSpans {o cl : Str} {c : Char} : ∀ (f : Nat) {t : Str}, c ∈ TocTree.cutSpans o cl f t → c ∈ t
  | 0, _, h => h
  | f + 1, t, h => by
    rw [TocTree.cutSpans] at h
    split at h
    · exact h
    · split at h
      · exact h
      · rcases List.mem_append.1 (mem_cutSpans f h) with h | h
        · exact List.mem_of_mem_take h
        · exact List.mem_of_mem_drop h

theorem mem_collapseWs {c : Char} : ∀ (a b : Bool) {t : Str}, c ∈ TocTree.collapseWs a b t → c ∈ t ∨ c = ' '
  | _, _, [], h => by simp [TocTree.collapseWs] at h
  | a, b, d :: r, h => by
    rw [TocTree.collapseWs] at h
    split at h
    · exact (mem_collapseWs _ _ h).imp_left (List.mem_cons_of_mem _)
    · split at h
      · rcases List.mem_cons.1 h with rfl | h
        · exact .inl List.mem_cons_self
        · exact (mem_collapseWs _ _ h).imp_left (List.mem_cons_of_mem _)
      · split at h
        · rcases List.mem_cons.1 h with rfl | h
          · exact .inr rfl
          · rcases List.mem_cons.1 h with rfl | h
            · exact .inl List.mem_cons_self
            · exact (mem_collapseWs _ _ h).imp_left (List.mem_cons_of_mem _)
        · rcases List.mem_cons.1 h with rfl | h
          · exact .inl List.mem_cons_self
          · exact (mem_collapseWs _ _ h).imp_left (List.mem_cons_of_mem _)

theorem mem_stripTags {s : Str} {c : Char} (h : c ∈ TocTree.stripTags s) : c ∈ s ∨ c = ' ' := by
  unfold TocTree.stripTags at h
  rcases mem_collapseWs _ _ h with h | h
  · exact .inl (mem_cutSpans _ (mem_cutSpans _ h))
  · exact .inr h

theorem stripTags_noctl {s : Str} (h : NoCtl s) : NoCtl (TocTree.stripTags s) := by
  rw [noCtl_iff] at h ⊢
  intro c hc
  rcases mem_stripTags hc with hc | rfl
  · exact h c hc
  · decide

theorem mem_htmlUnescape {c : Char} : ∀ (s : Str) (k : Nat) {u : Str}, TocTree.htmlUnescape k s = some u → c ∈ u →
    c ∈ s ∨ c ∈ "&<>\"".toList
  | [], k, u, h, hc => by
    cases k <;> simp [TocTree.htmlUnescape] at h <;> subst h <;> cases hc
  | d :: r, k + 1, u, h, hc => by
    rw [TocTree.htmlUnescape] at h
    exact (mem_htmlUnescape r k h hc).imp_left (List.mem_cons_of_mem _)
  | d :: r, 0, u, h, hc => by
    rw [TocTree.htmlUnescape] at h
    have step : ∀ (k : Nat) (x : Char), x ∈ "&<>\"".toList → (TocTree.htmlUnescape k r).map (x :: ·) = some u →
        c ∈ d :: r ∨ c ∈ "&<>\"".toList := by
      intro k x hx hm
      simp only [Option.map_eq_some_iff] at hm
      obtain ⟨u', hu', rfl⟩ := hm
      rcases List.mem_cons.1 hc with rfl | hc
      · exact .inr hx
      · exact (mem_htmlUnescape r k hu' hc).imp_left (List.mem_cons_of_mem _)
    split at h
    · split at h
      · exact step 4 '&' (by decide) h
      · split at h
        · exact step 3 '<' (by decide) h
        · split at h
          · exact step 3 '>' (by decide) h
          · split at h
            · exact step 5 '"' (by decide) h
            · cases h
    · simp only [Option.map_eq_some_iff] at h
      obtain ⟨u', hu', rfl⟩ := h
      rcases List.mem_cons.1 hc with rfl | hc
      · exact .inl List.mem_cons_self
      · exact (mem_htmlUnescape r 0 hu' hc).imp_left (List.mem_cons_of_mem _)

theorem htmlUnescape_noctl {s u : Str} (h : NoCtl s) (hu : TocTree.htmlUnescape 0 s = some u) : NoCtl u := by
  rw [noCtl_iff] at h ⊢
  intro c hc
  rcases mem_htmlUnescape s 0 hu hc with hc | hc
  · exact h c hc
  · exact (by decide : ∀ c ∈ "&<>\"".toList, c ≠ STX ∧ c ≠ ETX) c hc

theorem mem_dashRuns {c : Char} : ∀ (b : Bool) {s : Str}, c ∈ TocTree.dashRuns b s → c ∈ s ∨ c = '-'
  | _, [], h => by simp [TocTree.dashRuns] at h
  | b, d :: r, h => by
    rw [TocTree.dashRuns] at h
    split at h
    · split at h
      · exact (mem_dashRuns _ h).imp_left (List.mem_cons_of_mem _)
      · rcases List.mem_cons.1 h with rfl | h
        · exact .inr rfl
        · exact (mem_dashRuns _ h).imp_left (List.mem_cons_of_mem _)
    · rcases List.mem_cons.1 h with rfl | h
      · exact .inl List.mem_cons_self
      · exact (mem_dashRuns _ h).imp_left (List.mem_cons_of_mem _)

private theorem lowerChar_ascii_noctl_spec : ∀ n, n < 128 → Char.ofNat n ≠ STX → Char.ofNat n ≠ ETX →
    ∀ d ∈ lowerChar (Char.ofNat n), d ≠ STX ∧ d ≠ ETX := by
  decide

theorem lower_noctl_of_ascii {s : Str} (ha : ∀ c ∈ s, c.toNat < 128) (h : NoCtl s) : NoCtl (lower s) := by
  induction s with
  | nil => exact noCtl_nil
  | cons c s ih =>
    obtain ⟨⟨h1, h2⟩, h3⟩ := noCtl_cons.1 h
    rw [lower_cons, noCtl_append]
    refine ⟨?_, ih (fun d hd => ha d (List.mem_cons_of_mem _ hd)) h3⟩
    rw [noCtl_iff]
    have := lowerChar_ascii_noctl_spec c.toNat (ha c List.mem_cons_self)
    rw [Char.ofNat_toNat] at this
    exact this h1 h2

/-- `slugify` keeps word characters, blanks and `-` only: whatever the input, the slug holds no STX/ETX -/
theorem slugify_noctl {v s : Str} (h : TocTree.slugify v = some s) : NoCtl s := by
  unfold TocTree.slugify at h
  split at h
  · next hall =>
    simp only [Option.some.injEq] at h
    subst h
    have hf : NoCtl (v.filter (fun c => isWord c || isSpace c || c = '-')) := by
      rw [noCtl_iff]
      intro c hc
      have hp := (List.mem_filter.1 hc).2
      constructor <;> rintro rfl <;> revert hp <;> decide
    have hfa : ∀ c ∈ strip (v.filter (fun c => isWord c || isSpace c || c = '-')), c.toNat < 128 := by
      intro c hc
      have hc := (List.mem_filter.1 ((strip_infix _).subset hc)).1
      simpa using List.all_eq_true.1 hall c hc
    have hl := lower_noctl_of_ascii hfa hf.strip
    rw [noCtl_iff] at hl ⊢
    intro c hc
    rcases mem_dashRuns _ hc with hc | rfl
    · exact hl c hc
    · decide
  · cases h

theorem natToDec_noctl (n : Nat) : NoCtl (natToDec n) := by
  rw [noCtl_iff]
  intro c hc
  have := natToDec_digits n c hc
  constructor <;> rintro rfl <;> revert this <;> decide

theorem mem_idcountSplit_stem {id stem digits : Str} (h : Toc.idcountSplit id = some (stem, digits)) :
    ∀ c ∈ stem, c ∈ id := by
  unfold Toc.idcountSplit Toc.idcountRev at h
  split at h
  · next d ds a _ hdw =>
    split at h
    · cases h
    · simp only [Option.some.injEq, Prod.mk.injEq] at h
      obtain ⟨rfl, -⟩ := h
      intro c hc
      have hc : c ∈ a := List.mem_reverse.1 hc
      have h1 : c ∈ (Toc.stripFinalNl id.reverse).dropWhile isAsciiDigit := by
        rw [hdw]; exact List.mem_cons_of_mem _ hc
      have h2 : c ∈ Toc.stripFinalNl id.reverse := (List.dropWhile_suffix _).subset h1
      have h3 : c ∈ id.reverse := by
        unfold Toc.stripFinalNl at h2
        split at h2
        · next t e => rw [e]; exact List.mem_cons_of_mem _ h2
        · exact h2
      exact List.mem_reverse.1 h3
  · cases h

theorem uniqueStep_noctl {id : Str} (h : NoCtl id) : NoCtl (Toc.uniqueStep id) := by
  unfold Toc.uniqueStep
  split
  · next stem digits hs =>
    rw [noCtl_append]
    exact ⟨h.subset (mem_idcountSplit_stem hs), noCtl_cons.2 ⟨by decide, natToDec_noctl _⟩⟩
  · rw [noCtl_append]; exact ⟨h, by decide⟩

theorem uniqueLoop_noctl (ids : List Str) : ∀ (f : Nat) {id : Str}, NoCtl id → NoCtl (Toc.uniqueLoop f id ids)
  | 0, _, h => h
  | f + 1, id, h => by
    rw [Toc.uniqueLoop]
    split
    · exact uniqueLoop_noctl ids f (uniqueStep_noctl h)
    · exact h

/-- the id that `unique` returns holds no STX/ETX when the candidate holds none (whatever the set of used ids) -/
theorem unique_noctl {id : Str} (ids : List Str) (h : NoCtl id) : NoCtl (Toc.unique id ids).1 :=
  uniqueLoop_noctl ids _ h

/-! ## 2. the serialiser on trees with escape tokens -/

/-- a character that is neither STX nor ETX nor an inner character of tokens does not occur in a token -/
theorem not_mem_tok {t : Str} (ht : IsTok t) {x : Char} (h1 : x ≠ STX) (h2 : x ≠ ETX) (h3 : inner x = false) : x ∉ t := by
  obtain ⟨body, rfl, hb⟩ := ht
  intro hm
  rcases List.mem_cons.1 hm with e | hm
  · exact h1 e
  · rcases List.mem_append.1 hm with hm | hm
    · rw [hb x hm] at h3; cases h3
    · exact h2 (List.mem_singleton.1 hm)

/-- a left-to-right rewriting that copies tokens and writes a string without STX/ETX for every ordinary character
    keeps `WF` -/
theorem wf_pass {esc : Bool} {k : Nat} {f : Str → Str} (hnil : f [] = [])
    (hplain : ∀ c s, c ≠ STX → c ≠ ETX → ∃ lit, NoCtl lit ∧ f (c :: s) = lit ++ f s)
    (htok : ∀ t s, IsTok t → f (t ++ s) = t ++ f s) {s : Str} (h : WF esc k s) : WF esc k (f s) := by
  induction h with
  | nil => rw [hnil]; exact .nil
  | plain c s h1 h2 _ ih =>
    obtain ⟨lit, hl, e⟩ := hplain c s h1 h2
    rw [e]; exact (WF.of_noCtl hl).append ih
  | ph i s hi _ ih => rw [htok _ _ (isTok_placeholder i)]; exact .ph i _ hi ih
  | tok v s he hv _ ih => rw [htok _ _ (isTok_escToken v)]; exact .tok v _ he hv ih

theorem serAmpSub_append_of_not_mem : ∀ {w : Str}, '&' ∉ w → ∀ (r : Str), Ser.ampSub (w ++ r) = w ++ Ser.ampSub r
  | [], _, _ => rfl
  | x :: w, h, r => by
    have hx : x ≠ '&' := fun e => h (by simp [e])
    rw [List.cons_append, Ser.ampSub, if_neg hx, serAmpSub_append_of_not_mem (fun hm => h (List.mem_cons_of_mem _ hm)) r]
    rfl

theorem wf_serAmpSub {esc : Bool} {k : Nat} {s : Str} (h : WF esc k s) : WF esc k (Ser.ampSub s) := by
  refine wf_pass rfl ?_ ?_ h
  · intro c s h1 h2
    rw [Ser.ampSub]
    split
    · next hc =>
      subst hc
      split
      · exact ⟨['&'], by decide, rfl⟩
      · exact ⟨"&amp;".toList, by decide, rfl⟩
    · exact ⟨[c], noCtl_cons.2 ⟨⟨h1, h2⟩, noCtl_nil⟩, rfl⟩
  · intro t s ht
    exact serAmpSub_append_of_not_mem (not_mem_tok ht (by decide) (by decide) (by decide)) s

/-- `str.replace` of a single ordinary character by a string without STX/ETX -/
theorem wf_replace_char {esc : Bool} {k : Nat} {x : Char} {lit : Str} (h1 : x ≠ STX) (h2 : x ≠ ETX)
    (h3 : inner x = false) (hl : NoCtl lit) {s : Str} (h : WF esc k s) : WF esc k (replace s [x] lit) := by
  have e : ∀ s, replace s [x] lit = replaceAux [x] lit 0 s := fun _ => rfl
  rw [e]
  refine wf_pass (f := replaceAux [x] lit 0) rfl ?_ ?_ h
  · intro c s hc1 hc2
    rw [replaceAux_zero_cons]
    split
    · exact ⟨lit, hl, rfl⟩
    · exact ⟨[c], noCtl_cons.2 ⟨⟨hc1, hc2⟩, noCtl_nil⟩, rfl⟩
  · intro t s ht
    exact replaceAux_append_of_not_mem (not_mem_tok ht h1 h2 h3) s

theorem wf_escCdata {esc : Bool} {k : Nat} {s : Str} (h : WF esc k s) : WF esc k (Ser.escCdata s) := by
  unfold Ser.escCdata
  exact wf_replace_char (by decide) (by decide) (by decide) (by decide)
    (wf_replace_char (by decide) (by decide) (by decide) (by decide) (wf_serAmpSub h))

theorem wf_escAttrHtml {esc : Bool} {k : Nat} {s : Str} (h : WF esc k s) : WF esc k (Ser.escAttrHtml s) := by
  unfold Ser.escAttrHtml
  exact wf_replace_char (by decide) (by decide) (by decide) (by decide) (wf_escCdata h)

/-- an element as the serialiser reads it: names without STX/ETX, attribute values, text and tail made of ordinary
    characters and escape tokens (`FNodeX` without the clause about `code`) -/
def SerX (n : Node) : Prop := tagNoCtl n.tag ∧ attrsTok n.attrs ∧ WFO true 0 n.tail ∧ WFO true 0 n.text

theorem serX_of_fnodeX {n : Node} (h : FNodeX n) : SerX n := ⟨h.1, h.2.1, h.2.2.1, h.2.2.2.1⟩

private theorem wf_lit {s : Str} (h : NoCtl s) : WF true 0 s := WF.of_noCtl h

theorem writeAttrs_wf (fmt : Ser.Fmt) {attrs : List (Str × Str)} (h : attrsTok attrs) :
    WF true 0 (Ser.writeAttrs fmt attrs) := by
  induction attrs with
  | nil => exact .nil
  | cons kv r ih =>
    obtain ⟨k, v⟩ := kv
    have hkv := h (k, v) List.mem_cons_self
    have hv := wf_escAttrHtml hkv.2
    have hr := ih (fun x hx => h x (List.mem_cons_of_mem _ hx))
    simp only [Ser.writeAttrs]
    refine WF.append ?_ hr
    split
    · exact .plain _ _ (by decide) (by decide) hv
    · rw [List.cons_append, List.cons_append, List.cons_append]
      refine .plain _ _ (by decide) (by decide) ?_
      exact (((wf_lit hkv.1).append (wf_lit (by decide))).append hv).append (wf_lit (by decide))

theorem sortAttrs_tok {attrs : List (Str × Str)} (h : attrsTok attrs) : attrsTok (Ser.sortAttrs attrs) :=
  fun kv hkv => h kv (Ser.mem_sortAttrs attrs kv hkv)

theorem element_wf (fmt : Ser.Fmt) {t : Str} {uri : Option Str} {attrs : List (Str × Str)} {text : Option Str}
    {kids : Str} (ht : NoCtl t) (hu : NoCtlO uri) (ha : attrsTok attrs) (htx : WFO true 0 text) (hk : WF true 0 kids) :
    WF true 0 (Ser.element fmt t uri attrs text kids) := by
  have hopen : WF true 0 ('<' :: t ++ Ser.writeAttrs fmt (Ser.sortAttrs attrs) ++
      (match (generalizing := false) uri with
       | some (u :: us) => " xmlns=\"".toList ++ Ser.escAttrib (u :: us) ++ ['"']
       | _ => [])) := by
    rw [List.cons_append, List.cons_append]
    refine .plain _ _ (by decide) (by decide) ?_
    refine ((wf_lit ht).append (writeAttrs_wf fmt (sortAttrs_tok ha))).append ?_
    split
    · next u us =>
      exact ((wf_lit (by decide)).append (wf_lit (escAttrib_noctl hu))).append (wf_lit (by decide))
    · exact .nil
  unfold Ser.element
  simp only
  split
  · exact hopen.append (wf_lit (by decide))
  · refine (((hopen.append (wf_lit (by decide))).append ?_).append hk).append ?_
    · split
      · split
        · exact htx
        · exact wf_escCdata htx
      · exact .nil
    · split
      · exact .nil
      · exact ((wf_lit (by decide)).append (wf_lit ht)).append (wf_lit (by decide))

mutual
theorem serialize_wf_node (fmt : Ser.Fmt) : ∀ t : Node, t.Forall SerX → WF true 0 (Ser.serialize fmt t)
  | ⟨tag, attrs, text, ta, children, tail, tla⟩, h => by
    simp only [Node.Forall] at h
    obtain ⟨⟨h1, h2, h3, h4⟩, hk⟩ := h
    simp only at h1 h2 h3 h4
    have hkids := serialize_wf_list fmt children hk
    have htxt : WF true 0 (Ser.escCdata (text.getD [])) := wf_escCdata h4
    have htail : WF true 0 (if Node.truthy tail = true then Ser.escCdata (tail.getD []) else []) := by
      split
      · exact wf_escCdata h3
      · exact .nil
    unfold Ser.serialize
    simp only
    refine WF.append ?_ htail
    cases tag with
    | comment =>
      simp only
      exact ((wf_lit (by decide)).append htxt).append (wf_lit (by decide))
    | pi =>
      simp only
      exact ((wf_lit (by decide)).append htxt).append (wf_lit (by decide))
    | none =>
      simp only
      refine WF.append ?_ hkids
      split
      · exact htxt
      · exact .nil
    | name t =>
      simp only
      exact element_wf fmt h1 noCtl_nil h2 h4 hkids
    | qname q =>
      simp only
      split
      · next uri t hs =>
        obtain ⟨hu, ht⟩ := splitQName_noctl h1 hs
        exact element_wf fmt ht hu h2 h4 hkids
      · exact .nil
theorem serialize_wf_list (fmt : Ser.Fmt) : ∀ l : List Node, Node.ForallL SerX l → WF true 0 (Ser.serializeList fmt l)
  | [], _ => by unfold Ser.serializeList; exact .nil
  | c :: r, h => by
    simp only [Node.ForallL] at h
    unfold Ser.serializeList
    exact (serialize_wf_node fmt c h.1).append (serialize_wf_list fmt r h.2)
end

/-- serialising a tree whose strings are made of ordinary characters and escape tokens gives such a string -/
theorem serialize_wf (fmt : Ser.Fmt) {t : Node} (h : t.Forall SerX) : WF true 0 (Ser.serialize fmt t) :=
  serialize_wf_node fmt t h

end MdVerif.NoCtlX
