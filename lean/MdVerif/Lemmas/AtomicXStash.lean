/-
Helper lemmas for `Props/C18X.lean`, part 3: an entry put in the HTML stash by a stage BEFORE the block parser (the
mechanism of `fenced_code`: the region is replaced by a paragraph that consists of the placeholder) goes through the
whole extension pipeline — every flag set — and is restored verbatim by `RawHtmlPostprocessor`.  Core Lean only.

A. `treeFromX`, `convertFromX`: the pipeline from the block parser on, given the text and the stash the preprocessors
   hand over; `treeX` / `convertX` are these after `prepareX`
B. the block parser (every flag set) on a document of one-line paragraphs, one of them a placeholder
C. the stages up to the serializer; the end of `convert`
-/
import MdVerif.Lemmas.FencedPipe

namespace MdVerif.StashX
open Py Pipeline PipelineX Probe StashAtomic FencedPipe BlockExt CodeLaw

/-! ### A. the pipeline from the block parser on -/

/-- the stages of `treeX` after the preprocessors: `text` is what they hand to the block parser, `stash` what they
    stored in `md.htmlStash` -/
def treeFromX (x : Exts) (cfg : Cfg) (text : Str) (stash : List Str) : TreeResult :=
  match BlockExt.parseDocumentXT x.tables x.blockCfg cfg.tab text with
  | none => .oof
  | some (root, log) =>
    let fnStage : FootnotesTree.R (Node × Block.Refs) :=
      if x.footnotes then
        match FootnotesTree.makeDiv (parseChunkX x cfg) fnCount (BlockExt.footnotesOf log) log with
        | .ok (some div, log') => .ok (FootnotesTree.placeDiv root div, log')
        | .ok (none, log') => .ok (root, log')
        | .oof => .oof
        | .ood => .ood
      else .ok (root, log)
    match fnStage with
    | .oof => .oof
    | .ood => .ood
    | .ok (root, log) =>
      let xc : InlineX.XCfg :=
        { cfg := { esc := escX x cfg, refs := (refsX x log).reverse }
          table := InlineX.table x.footnotes x.wikilinks x.nl2br
          fnKeys := (BlockExt.footnotesOf log).map (·.1) }
      match InlineX.runX xc root stash with
      | none => .oof
      | some (t, xs) =>
        match (if x.footnotes then FootnotesTree.duplicates xs.fn t else some t) with
        | none => .err
        | some t =>
          let t := TreeProc.prettify t cfg.blockLevel
          let t := if x.attrList then AttrListTree.run cfg.blockLevel t else t
          let t := if x.abbr then AbbrTree.run (BlockExt.abbrsOf log) t else t
          let tocStage : TocTree.R Node :=
            if x.toc then
              TocTree.run { fmt := cfg.fmt, post := postX x cfg xs.st.html } cfg.blockLevel t
            else .ok t
          match tocStage with
          | .oof => .oof
          | .err => .err
          | .ood => .ood
          | .ok t =>
            match TreeProc.unescapeTree t with
            | none => .err
            | some u => .ok u xs.st.html

theorem treeX_eq_from (x : Exts) (cfg : Cfg) (src : Str) :
    treeX x cfg src =
      match prepareX x cfg src with
      | .oof => .oof
      | .ood => .ood
      | .ok (text, stash) => treeFromX x cfg text stash := by
  unfold treeX treeFromX
  cases prepareX x cfg src with
  | oof => rfl
  | ood => rfl
  | ok ts => rfl

/-- `Markdown.convert` from the block parser on -/
def convertFromX (x : Exts) (cfg : Cfg) (text : Str) (stash : List Str) : Outcome :=
  match treeFromX x cfg text stash with
  | .oof => .oof
  | .err => .err
  | .ood => .ood
  | .ok u html => finishX x cfg html (Ser.serialize cfg.fmt u)

theorem convertX_eq_from (x : Exts) (cfg : Cfg) (src : Str) :
    convertX x cfg src =
      if src.contains '<' then .ood
      else if x.unsupported then .ood
      else if Normalize.isBlankDoc src then .ok []
      else
        match prepareX x cfg src with
        | .oof => .oof
        | .ood => .ood
        | .ok (text, stash) => convertFromX x cfg text stash := by
  unfold convertX convertFromX
  rw [treeX_eq_from]
  cases prepareX x cfg src with
  | oof => rfl
  | ood => rfl
  | ok ts => rfl

/-! ### B. the block parser -/

theorem parseDocumentXT_paras (tables : Bool) (cfg : XCfg) (tab : Nat) (htab : 0 < tab) (ts : List Str)
    (h : ∀ p ∈ ts, XLine p) :
    parseDocumentXT tables cfg tab (paras ts) = some (parasTree ts, []) := by
  have hsplit : splitAux ['\n', '\n'] 0 (paras ts) =
      ((ts.map (Blk.par false)) ++ [Blk.nop false]).map Blk.str := by
    have := splitAux_paras ts (fun p hp => (h p hp).1) []
    simp only [List.append_nil] at this
    rw [this]
    simp [Blk.str, Function.comp_def, splitAux]
  have hlen : 2 * ((ts.map (Blk.par false)) ++ [Blk.nop false]).length ≤ fuelForX (paras ts).length := by
    have := length_paras_ge ts
    simp only [List.length_append, List.length_map, List.length_cons, List.length_nil]
    unfold fuelForX; omega
  have hf := parse_blksXT tables cfg tab htab [] ((ts.map (Blk.par false)) ++ [Blk.nop false]) (Node.el "div")
    (fun sib hs => by simp [Node.last?, Node.el] at hs)
    (fun nl l hm => by
      rcases List.mem_append.1 hm with hm | hm
      · obtain ⟨p, hp, he⟩ := List.mem_map.1 hm
        injection he with _ he
        subst he
        exact h p hp
      · simp at hm) _ hlen
  have hbt : ∀ l : List Str, blkTexts ((l.map (Blk.par false)) ++ [Blk.nop false]) = l := by
    intro l
    induction l with
    | nil => rfl
    | cons t r ih => simp only [List.map_cons, List.cons_append, blkTexts]; rw [ih]
  have htree : (blkTexts ((ts.map (Blk.par false)) ++ [Blk.nop false])).foldl
      (fun n l => n.append (Block.mkText "p" l)) (Node.el "div") = parasTree ts := by
    rw [hbt ts]
    have : ∀ (ts : List Str) (parent : Node),
        ts.foldl (fun n l => n.append (Block.mkText "p" l)) parent =
          { parent with children := parent.children ++ ts.map (Block.mkText "p") } := by
      intro ts
      induction ts with
      | nil => intro parent; cases parent; simp
      | cons t ts ih => intro parent; rw [List.foldl_cons, ih]; simp [Node.append]
    rw [this]
    simp [parasTree, Node.el]
  rw [htree] at hf
  unfold parseDocumentXT Block.parseChunk splitS
  rw [hsplit]
  exact hf

/-! ### C. the stages after the block parser and the end of `convert` -/

/-- what is written in the place of the placeholder's paragraph: the entry itself when it is block-level HTML,
    otherwise the entry inside the `<p>` wrapper -/
def restored (raw : Str) : Str :=
  if Post.isBlockLevelHtml TreeProc.defaultBlockLevel raw then raw else par raw

theorem stx_not_mem_para {p : Str} (h : isParaLine p = true) : Post.STX ∉ p := by
  intro hm
  obtain ⟨_, _, _, _, hw⟩ := isParaLine_spec h
  exact wordSp_ne (hw _ hm) (by decide) rfl

theorem noBracket_para {p : Str} (h : isParaLine p = true) : '\n' ∉ p ∧ '[' ∉ p := by
  obtain ⟨_, _, _, _, hw⟩ := isParaLine_spec h
  exact ⟨fun hm => wordSp_ne (hw _ hm) (by decide) rfl, fun hm => wordSp_ne (hw _ hm) (by decide) rfl⟩

theorem stx_not_mem_A {pre : List Str} (hpre : ∀ p ∈ pre, isParaLine p = true) :
    Post.STX ∉ pre.flatMap (fun p => par p ++ ['\n']) := by
  apply stx_not_mem_flatMap
  intro p hp hm
  rcases List.mem_append.1 hm with hm | hm
  · exact stx_not_mem_par (stx_not_mem_para (hpre p hp)) hm
  · revert hm; decide

theorem stx_not_mem_B {post : List Str} (hpost : ∀ p ∈ post, isParaLine p = true) :
    Post.STX ∉ post.flatMap (fun q => '\n' :: par q) := by
  apply stx_not_mem_flatMap
  intro p hp hm
  rcases List.mem_cons.1 hm with hm | hm
  · revert hm; decide
  · exact stx_not_mem_par (stx_not_mem_para (hpost p hp)) hm

/-- **the end of `convert` on the serialized document**, given what one pass of the restore makes of the line `L`
    that holds the placeholder: the wrapper is stripped, the pass is a fixed point, the later postprocessors and the
    final strip see no `STX` -/
theorem finishX_line (x : Exts) (tab : Nat) (fmt : Ser.Fmt) (pre post : List Str) (stash : List Str) (L R : Str)
    (hne : stash ≠ []) (hpre : ∀ p ∈ pre, isParaLine p = true) (hpost : ∀ p ∈ post, isParaLine p = true)
    (hsub : Post.subPass TreeProc.defaultBlockLevel stash 0
      (pre.flatMap (fun p => par p ++ ['\n']) ++ (par L ++ post.flatMap (fun q => '\n' :: par q))) =
        docHtml pre R post)
    (hR : Post.STX ∉ R) :
    finishX x { tab := tab, fmt := fmt } stash
      ("<div>".toList ++ ('\n' :: (pre ++ L :: post).flatMap (fun p => par p ++ ['\n'])) ++
        "</div>\n".toList) = .ok (strip (docHtml pre R post)) := by
  have hA := stx_not_mem_A hpre
  have hB := stx_not_mem_B hpost
  have hdoc : Post.STX ∉ docHtml pre R post := by
    intro hm
    simp only [docHtml, List.mem_append] at hm
    rcases hm with (hm | hm) | hm
    · exact hA hm
    · exact hR hm
    · exact hB hm
  have hbody : '\n' :: (pre ++ L :: post).flatMap (fun p => par p ++ ['\n']) =
      ['\n'] ++ (pre.flatMap (fun p => par p ++ ['\n']) ++ (par L ++ post.flatMap (fun q => '\n' :: par q))) ++
        ['\n'] := by
    have := flatMap_shift post
    simp only [List.flatMap_append, List.flatMap_cons, List.append_assoc, List.cons_append, List.nil_append] at this ⊢
    rw [this]
  have hrawH := rawHtml_of_fix TreeProc.defaultBlockLevel stash (stash.length + 1) _ _ hne hsub
    (no_prefix_of_no_stx hdoc)
  have hstrip1 : strip (pre.flatMap (fun p => par p ++ ['\n']) ++ (par L ++ post.flatMap (fun q => '\n' :: par q))) =
      pre.flatMap (fun p => par p ++ ['\n']) ++ (par L ++ post.flatMap (fun q => '\n' :: par q)) := by
    have := strip_docHtml pre post (par L)
      ⟨"p>".toList ++ L ++ "</p>".toList, by simp [par], "p>".toList ++ L ++ "</p".toList, by simp⟩
    simpa only [docHtml, List.append_assoc] using this
  unfold finishX
  rw [hbody, CodeLaw.topLevelStrip_div, strip_append_of_blank (by decide) (by decide), hstrip1]
  simp only [postX]
  have hfuel : Post.rawHtmlFuel stash = stash.length + 1 + 2 := rfl
  rw [hfuel, hrawH]
  simp only [Option.map_some]
  have hpp : (if x.footnotes then FootnotesTree.postprocess (docHtml pre R post)
      else docHtml pre R post) = docHtml pre R post := by
    split
    · exact FencedPipe.postprocess_id _ hdoc
    · rfl
  rw [hpp, ampSub_of_no_stx hdoc]

/-- the placeholder alone in its paragraph -/
theorem finishX_stash (x : Exts) (tab : Nat) (fmt : Ser.Fmt) (pre post : List Str) (stash : List Str) (i : Nat)
    (raw : Str) (hpre : ∀ p ∈ pre, isParaLine p = true) (hpost : ∀ p ∈ post, isParaLine p = true)
    (hi : stash[i]? = some raw) (hraw : Post.STX ∉ raw) :
    finishX x { tab := tab, fmt := fmt } stash
      ("<div>".toList ++ ('\n' :: (pre ++ htmlPlaceholder i :: post).flatMap (fun p => par p ++ ['\n'])) ++
        "</div>\n".toList) = .ok (strip (docHtml pre (restored raw) post)) := by
  have hR : Post.STX ∉ restored raw := by
    unfold restored
    split
    · exact hraw
    · exact stx_not_mem_par hraw
  have hne : stash ≠ [] := by rintro rfl; simp at hi
  apply finishX_line x tab fmt pre post stash _ _ hne hpre hpost _ hR
  have e : par (htmlPlaceholder i) ++ post.flatMap (fun q => '\n' :: par q) =
      pOpen ++ (htmlPlaceholder i ++ (pClose ++ post.flatMap (fun q => '\n' :: par q))) := by
    simp only [par, pOpen, pClose, List.append_assoc]
  rw [e, subPass_wrapped _ _ i raw _ _ hi (stx_not_mem_A hpre),
    subPass_fix _ _ _ (no_prefix_of_no_stx (stx_not_mem_B hpost))]
  simp only [docHtml, restored, par, pOpen, pClose, List.append_assoc]

/-- **from the block parser to the serializer, every flag set**: a document of one-line paragraphs that no stage has
    anything to do on reaches the end of `convert` as the paragraphs in the `div` wrapper, with the stash untouched -/
theorem convertFromX_lines (x : Exts) (tab : Nat) (htab : 0 < tab) (fmt : Ser.Fmt) (ls : List Str) (stash : List Str)
    (hne : ls ≠ []) (hx : ∀ p ∈ ls, XLine p) (htexts : ∀ p ∈ ls, TextInert p)
    (hnb : ∀ p ∈ ls, '\n' ∉ p ∧ '[' ∉ p) :
    convertFromX x { tab := tab, fmt := fmt } (paras ls) stash =
      finishX x { tab := tab, fmt := fmt } stash
        ("<div>".toList ++ ('\n' :: ls.flatMap (fun p => par p ++ ['\n'])) ++ "</div>\n".toList) := by
  obtain ⟨t0, ts, hts⟩ : ∃ t0 ts, ls = t0 :: ts := by
    cases ls with
    | nil => exact absurd rfl hne
    | cons a r => exact ⟨_, _, rfl⟩
  have hmk : ∀ pc : Block.Refs → Str → Option (Node × Block.Refs),
      FootnotesTree.makeDiv pc fnCount (BlockExt.footnotesOf []) [] = .ok (none, []) := fun _ => rfl
  unfold convertFromX treeFromX
  rw [parseDocumentXT_paras x.tables x.blockCfg tab htab _ hx]
  simp only [hmk, ite_self]
  rw [runX_parasTree' _ _ _ _ _ _ _ (fun p hp => (htexts p hp).1)]
  simp only
  have hdup : (if x.footnotes then FootnotesTree.duplicates Footnotes.State.empty (parasTree ls)
      else some (parasTree ls)) = some (parasTree ls) := by
    split
    · exact duplicates_parasTree _ _
    · rfl
  rw [hdup]
  simp only
  have hstages := treeStages_parasTree x tab fmt t0 ts stash (by rw [← hts]; exact htexts) (by rw [← hts]; exact hnb)
  simp only at hstages
  rw [hts, hstages]
  simp only
  rw [unescape_parasTreeP _ (fun p hp => (htexts p (by rw [hts]; exact hp)).2.1)]
  simp only
  rw [serialize_parasTreeP _ _ (fun p hp => (htexts p (by rw [hts]; exact hp)).1.1),
    flatMap_congr' _ _ _ (fun p hp => by rw [(htexts p (by rw [hts]; exact hp)).2.2])]

/-! #### a line with the placeholder among words -/

/-- `a` + placeholder + `b` -/
def slot (a : Str) (i : Nat) (b : Str) : Str := a ++ (htmlPlaceholder i ++ b)

theorem mem_slot {a b : Str} {i : Nat} {c : Char} (ha : a.all isWordSp = true) (hb : b.all isWordSp = true)
    (h : c ∈ slot a i b) : isWordSp c = true ∨ c ∈ Fenced.placeholder i := by
  simp only [slot, List.mem_append] at h
  rcases h with h | h | h
  · exact Or.inl (List.all_eq_true.1 ha c h)
  · exact Or.inr (by rw [placeholder_eq]; exact h)
  · exact Or.inl (List.all_eq_true.1 hb c h)

/-- a character that is no letter, no space, no digit and none of the fixed characters of a placeholder -/
theorem not_mem_slot {a b : Str} {i : Nat} {d : Char} (ha : a.all isWordSp = true) (hb : b.all isWordSp = true)
    (h0 : isWordSp d = false) (h1 : d ∉ [Char.ofNat 2, 'w', 'z', 'x', 'h', 'd', 'k', ':', Char.ofNat 3])
    (h2 : isAsciiDigit d = false) : d ∉ slot a i b := by
  intro hm
  rcases mem_slot ha hb hm with h | h
  · rw [h] at h0; cases h0
  · exact ne_of_mem_placeholder h h1 h2 rfl

theorem stx_not_mem_wordSp {s : Str} (h : s.all isWordSp = true) : Post.STX ∉ s := fun hm =>
  wordSp_ne (List.all_eq_true.1 h _ hm) (by decide) rfl

theorem find_phPrefix_slot (a b : Str) (i : Nat) (ha : a.all isWordSp = true) (hb : b.all isWordSp = true) :
    find Inline.phPrefix (slot a i b) = none := by
  induction a with
  | nil =>
    have hs : slot [] i b = Char.ofNat 2 :: ("wzxhzdk:".toList ++ natToDec i ++ [Char.ofNat 3] ++ b) := by
      simp [slot, htmlPlaceholder, Post.htmlPrefix, Post.STX, Post.ETX]
    rw [hs, find_cons]
    have h1 : startsWith (Char.ofNat 2 :: ("wzxhzdk:".toList ++ natToDec i ++ [Char.ofNat 3] ++ b)) Inline.phPrefix =
        false := rfl
    rw [h1]
    simp only [Bool.false_eq_true, if_false]
    have h2 : find Inline.phPrefix ("wzxhzdk:".toList ++ natToDec i ++ [Char.ofNat 3] ++ b) = none := by
      apply find_phPrefix_none
      intro hm
      simp only [List.mem_append, List.mem_cons, List.not_mem_nil, or_false] at hm
      rcases hm with ((hm | hm) | hm) | hm
      · revert hm; decide
      · have := natToDec_digits i _ hm; revert this; decide
      · revert hm; decide
      · exact stx_not_mem_wordSp hb hm
    rw [h2]; rfl
  | cons c a ih =>
    have hc : isWordSp c = true := List.all_eq_true.1 ha c List.mem_cons_self
    have ha' : a.all isWordSp = true := by
      simp only [List.all_cons, Bool.and_eq_true] at ha; exact ha.2
    have hne : c ≠ Char.ofNat 2 := wordSp_ne hc (by decide)
    show find Inline.phPrefix (c :: slot a i b) = none
    rw [find_cons]
    have h1 : startsWith (c :: slot a i b) Inline.phPrefix = false := by
      simp [Inline.phPrefix, startsWith, Inline.STX, hne]
    rw [h1, ih ha']
    rfl

theorem contains_cons' (c : Char) (s pat : Str) :
    contains (c :: s) pat = (startsWith (c :: s) pat || contains s pat) := by
  unfold contains
  rw [find_cons]
  split
  · rename_i h; simp [h]
  · rename_i h
    have : startsWith (c :: s) pat = false := by simpa using h
    rw [this]
    cases find pat s <;> rfl

theorem contains_skip (x y : Char) (a r : Str) (h : x ∉ a) :
    contains (a ++ r) [x, y] = contains r [x, y] := by
  induction a with
  | nil => rfl
  | cons c a ih =>
    have hc : c ≠ x := fun e => h (by simp [e])
    have ha : x ∉ a := fun hm => h (List.mem_cons_of_mem _ hm)
    rw [List.cons_append, contains_cons', ih ha]
    have : startsWith (c :: (a ++ r)) [x, y] = false := by simp [startsWith, hc]
    rw [this]; rfl

/-- `: ` (the trigger of def_list) does not occur in a slot line: its only colon is followed by a digit -/
theorem slot_no_deflist (a b : Str) (i : Nat) (ha : a.all isWordSp = true) (hb : b.all isWordSp = true) :
    contains (slot a i b) trigDefList = false := by
  have hca : ':' ∉ a := fun hm => wordSp_ne (List.all_eq_true.1 ha _ hm) (by decide) rfl
  have hcb : ':' ∉ b := fun hm => wordSp_ne (List.all_eq_true.1 hb _ hm) (by decide) rfl
  have hs : slot a i b = a ++ ([Char.ofNat 2, 'w', 'z', 'x', 'h', 'z', 'd', 'k'] ++
      (':' :: (natToDec i ++ ([Char.ofNat 3] ++ b)))) := by
    simp [slot, htmlPlaceholder, Post.htmlPrefix, Post.STX, Post.ETX]
  obtain ⟨d, r, hd⟩ : ∃ d r, natToDec i = d :: r := by
    cases h : natToDec i with
    | nil => exact absurd h (natToDec_ne_nil i)
    | cons d r => exact ⟨d, r, rfl⟩
  have hdig : isAsciiDigit d = true := natToDec_digits i d (by rw [hd]; exact List.mem_cons_self)
  have hd' : d ≠ ' ' := by intro e; rw [e] at hdig; revert hdig; decide
  unfold trigDefList
  rw [hs, contains_skip _ _ _ _ hca, contains_skip _ _ _ _ (by decide), contains_cons', hd]
  have h1 : startsWith (':' :: (d :: r ++ ([Char.ofNat 3] ++ b))) [':', ' '] = false := by
    simp [startsWith, hd']
  rw [h1]
  simp only [Bool.false_or]
  apply contains_false_of_missing (d := ':') (by decide)
  intro hm
  simp only [List.mem_append, List.mem_cons, List.not_mem_nil, or_false] at hm
  rcases hm with hm | hm | hm
  · have := natToDec_digits i ':' (by rw [hd]; exact List.mem_cons.2 hm)
    revert this; decide
  · revert hm; decide
  · exact hcb hm

theorem slot_paraLine (a b : Str) (i : Nat) (ha : isSpanContext a = true) (hb : b.all isWordSp = true) :
    ParaLine (slot a i b) := by
  have haw : a.all isWordSp = true := by
    simp only [isSpanContext, Bool.and_eq_true] at ha; exact ha.1
  have hnl : '\n' ∉ slot a i b := not_mem_slot haw hb (by decide) (by decide) (by decide)
  cases a with
  | nil =>
    obtain ⟨r, hr⟩ := placeholder_head i
    refine ⟨Char.ofNat 2, r ++ b, ?_, ?_, by decide, by decide, by decide⟩
    · simp only [slot, List.nil_append, ← placeholder_eq, hr, List.cons_append]
    · have : slot [] i b = Char.ofNat 2 :: (r ++ b) := by
        simp only [slot, List.nil_append, ← placeholder_eq, hr, List.cons_append]
      rw [← this]; exact hnl
  | cons c0 r0 =>
    have hp : isParaLine (c0 :: r0) = true := by simp [isParaLine, ha]
    obtain ⟨c1, r1, he, hc0, _⟩ := isParaLine_spec hp
    injection he with e1 e2
    subst e1 e2
    refine ⟨c0, r0 ++ (htmlPlaceholder i ++ b), rfl, hnl, alpha_not_space hc0, ?_, alpha_not_decimal hc0⟩
    intro hm
    simp only [CodeLaw.lineEsc, List.mem_cons, List.not_mem_nil, or_false] at hm
    rcases hm with rfl | rfl | rfl | rfl | rfl | rfl | rfl <;> exact absurd hc0 (by decide)

theorem slot_xline (a b : Str) (i : Nat) (ha : isSpanContext a = true) (hb : b.all isWordSp = true) :
    XLine (slot a i b) := by
  have haw : a.all isWordSp = true := by
    simp only [isSpanContext, Bool.and_eq_true] at ha; exact ha.1
  refine ⟨slot_paraLine a b i ha hb, ?_⟩
  exact ⟨contains_false_of_missing (d := '!') (by decide) (not_mem_slot haw hb (by decide) (by decide) (by decide)),
    slot_no_deflist a b i haw hb,
    contains_false_of_missing (d := '[') (by decide) (not_mem_slot haw hb (by decide) (by decide) (by decide)),
    contains_false_of_missing (d := '*') (by decide) (not_mem_slot haw hb (by decide) (by decide) (by decide))⟩


theorem slot_textInert (a b : Str) (i : Nat) (ha : a.all isWordSp = true) (hb : b.all isWordSp = true) :
    TextInert (slot a i b) := by
  have hsa := stx_not_mem_wordSp ha
  have hsb := stx_not_mem_wordSp hb
  have hpl : ∀ s : Str, s.all isWordSp = true → ∀ c ∈ s, c ≠ '&' ∧ c ≠ '<' ∧ c ≠ '>' := fun s hs c hc =>
    have hw := List.all_eq_true.1 hs c hc
    ⟨wordSp_ne hw (by decide), wordSp_ne hw (by decide), wordSp_ne hw (by decide)⟩
  refine ⟨⟨?_, ?_, find_phPrefix_slot a b i ha hb⟩, unescapeText_ph i a b hsa hsb, ?_⟩
  · obtain ⟨r, hr⟩ := placeholder_head i
    simp [slot, ← placeholder_eq, hr]
  · intro c hc
    rcases mem_slot ha hb hc with hw | hp
    · exact ⟨wordSp_ne hw (by decide), wordSp_ne hw (by decide), wordSp_ne hw (by decide), wordSp_ne hw (by decide),
        wordSp_ne hw (by decide), wordSp_ne hw (by decide), wordSp_ne hw (by decide)⟩
    · exact ⟨ne_of_mem_placeholder hp (by decide) (by decide), ne_of_mem_placeholder hp (by decide) (by decide),
        ne_of_mem_placeholder hp (by decide) (by decide), ne_of_mem_placeholder hp (by decide) (by decide),
        ne_of_mem_placeholder hp (by decide) (by decide), ne_of_mem_placeholder hp (by decide) (by decide),
        ne_of_mem_placeholder hp (by decide) (by decide)⟩
  · show Ser.escCdata (a ++ (htmlPlaceholder i ++ b)) = a ++ (htmlPlaceholder i ++ b)
    rw [escCdata_ph, escCdata_plain a (hpl a ha), escCdata_plain b (hpl b hb)]

/-- the placeholder among the words of a paragraph -/
theorem finishX_slot (x : Exts) (tab : Nat) (fmt : Ser.Fmt) (pre post : List Str) (stash : List Str) (i : Nat)
    (raw a b : Str) (hpre : ∀ p ∈ pre, isParaLine p = true) (hpost : ∀ p ∈ post, isParaLine p = true)
    (ha : a.all isWordSp = true) (hb : b.all isWordSp = true) (hab : a ≠ [] ∨ b ≠ [])
    (hi : stash[i]? = some raw) (hraw : Post.STX ∉ raw) :
    finishX x { tab := tab, fmt := fmt } stash
      ("<div>".toList ++ ('\n' :: (pre ++ slot a i b :: post).flatMap (fun p => par p ++ ['\n'])) ++
        "</div>\n".toList) = .ok (docHtml pre (par (a ++ raw ++ b)) post) := by
  have hsa := stx_not_mem_wordSp ha
  have hsb := stx_not_mem_wordSp hb
  have hR : Post.STX ∉ par (a ++ raw ++ b) := by
    apply stx_not_mem_par
    intro hm
    simp only [List.mem_append] at hm
    rcases hm with (hm | hm) | hm
    · exact hsa hm
    · exact hraw hm
    · exact hsb hm
  have hne : stash ≠ [] := by rintro rfl; simp at hi
  have hfin := finishX_line x tab fmt pre post stash (slot a i b) (par (a ++ raw ++ b)) hne hpre hpost ?_ hR
  · rw [hfin]
    congr 1
    exact strip_docHtml pre post _
      ⟨"p>".toList ++ (a ++ raw ++ b) ++ "</p>".toList, by simp [par], "p>".toList ++ (a ++ raw ++ b) ++ "</p".toList,
        by simp⟩
  · have hA := stx_not_mem_A hpre
    have hB := stx_not_mem_B hpost
    have e : pre.flatMap (fun p => par p ++ ['\n']) ++ (par (slot a i b) ++ post.flatMap (fun q => '\n' :: par q)) =
        (pre.flatMap (fun p => par p ++ ['\n']) ++ pOpen ++ a) ++
          (htmlPlaceholder i ++ (b ++ pClose ++ post.flatMap (fun q => '\n' :: par q))) := by
      simp only [par, slot, pOpen, pClose, List.append_assoc]
    have hpre' : Post.STX ∉ pre.flatMap (fun p => par p ++ ['\n']) ++ pOpen ++ a := by
      intro hm
      simp only [List.mem_append] at hm
      rcases hm with (hm | hm) | hm
      · exact hA hm
      · revert hm; decide
      · exact hsa hm
    have hpost' : Post.STX ∉ b ++ pClose ++ post.flatMap (fun q => '\n' :: par q) := by
      intro hm
      simp only [List.mem_append] at hm
      rcases hm with (hm | hm) | hm
      · exact hsb hm
      · revert hm; decide
      · exact hB hm
    have hw : (¬ ∃ pre1, pre.flatMap (fun p => par p ++ ['\n']) ++ pOpen ++ a = pre1 ++ pOpen) ∨
        startsWith (b ++ pClose ++ post.flatMap (fun q => '\n' :: par q)) pClose = false ∨
        Post.isBlockLevelHtml TreeProc.defaultBlockLevel raw = false := by
      rcases hab with h | h
      · left
        rintro ⟨pre1, he⟩
        rcases List.eq_nil_or_concat a with hnil | ⟨init, z, hz⟩
        · exact h hnil
        · rw [List.concat_eq_append] at hz
          have h1 := congrArg List.getLast? he
          rw [hz] at h1
          have e1 : (pre.flatMap (fun p => par p ++ ['\n']) ++ pOpen ++ (init ++ [z])).getLast? = some z := by
            rw [← List.append_assoc]; simp
          have e2 : (pre1 ++ pOpen).getLast? = some '>' := by simp [pOpen]
          rw [e1, e2] at h1
          have hz' : z = '>' := Option.some.inj h1
          have hm : z ∈ a := by rw [hz]; simp
          exact wordSp_ne (List.all_eq_true.1 ha _ hm) (by decide) hz'
      · right; left
        obtain ⟨c, r, rfl⟩ : ∃ c r, b = c :: r := by cases b <;> simp_all
        have hc : c ≠ '<' := wordSp_ne (List.all_eq_true.1 hb c List.mem_cons_self) (by decide)
        simp [startsWith, pClose, hc]
    rw [e, subPass_inline _ _ i raw _ _ hi hpre' hw, subPass_fix _ _ _ (no_prefix_of_no_stx hpost')]
    simp only [docHtml, par, pOpen, pClose, List.append_assoc]

/-- **from the block parser to the output, every flag set: the placeholder alone in its paragraph** -/
theorem convertFromX_stash (x : Exts) (tab : Nat) (htab : 0 < tab) (fmt : Ser.Fmt) (pre post : List Str)
    (stash : List Str) (i : Nat) (raw : Str) (hpre : ∀ p ∈ pre, isParaLine p = true)
    (hpost : ∀ p ∈ post, isParaLine p = true) (hi : stash[i]? = some raw) (hraw : Post.STX ∉ raw) :
    convertFromX x { tab := tab, fmt := fmt } (paras (pre ++ htmlPlaceholder i :: post)) stash =
      .ok (strip (docHtml pre (restored raw) post)) := by
  have hall : ∀ p ∈ pre ++ htmlPlaceholder i :: post, p = Fenced.placeholder i ∨ isParaLine p = true := by
    intro p hp
    rcases List.mem_append.1 hp with hp | hp
    · exact Or.inr (hpre p hp)
    · rcases List.mem_cons.1 hp with rfl | hp
      · exact Or.inl (placeholder_eq i).symm
      · exact Or.inr (hpost p hp)
  rw [convertFromX_lines x tab htab fmt _ stash (by simp)
    (fun p hp => by
      rcases hall p hp with rfl | h
      · exact ⟨paraLine_placeholder i, noTrig_placeholder i⟩
      · exact ⟨paraLine_para h, noTrig_para h⟩)
    (fun p hp => by
      rcases hall p hp with rfl | h
      · exact textInert_placeholder i
      · exact textInert_para h)
    (fun p hp => by
      rcases hall p hp with rfl | h
      · exact ⟨fun hm => ne_of_mem_placeholder hm (by decide) (by decide) rfl,
          fun hm => ne_of_mem_placeholder hm (by decide) (by decide) rfl⟩
      · exact noBracket_para h)]
  exact finishX_stash x tab fmt pre post stash i raw hpre hpost hi hraw

/-- **…the placeholder among the words of a paragraph** -/
theorem convertFromX_slot (x : Exts) (tab : Nat) (htab : 0 < tab) (fmt : Ser.Fmt) (pre post : List Str)
    (stash : List Str) (i : Nat) (raw a b : Str) (hpre : ∀ p ∈ pre, isParaLine p = true)
    (hpost : ∀ p ∈ post, isParaLine p = true) (ha : isSpanContext a = true) (hb : b.all isWordSp = true)
    (hab : a ≠ [] ∨ b ≠ []) (hi : stash[i]? = some raw) (hraw : Post.STX ∉ raw) :
    convertFromX x { tab := tab, fmt := fmt } (paras (pre ++ slot a i b :: post)) stash =
      .ok (docHtml pre (par (a ++ raw ++ b)) post) := by
  have haw : a.all isWordSp = true := by
    simp only [isSpanContext, Bool.and_eq_true] at ha; exact ha.1
  have hall : ∀ p ∈ pre ++ slot a i b :: post, p = slot a i b ∨ isParaLine p = true := by
    intro p hp
    rcases List.mem_append.1 hp with hp | hp
    · exact Or.inr (hpre p hp)
    · rcases List.mem_cons.1 hp with rfl | hp
      · exact Or.inl rfl
      · exact Or.inr (hpost p hp)
  rw [convertFromX_lines x tab htab fmt _ stash (by simp)
    (fun p hp => by
      rcases hall p hp with rfl | h
      · exact slot_xline a b i ha hb
      · exact ⟨paraLine_para h, noTrig_para h⟩)
    (fun p hp => by
      rcases hall p hp with rfl | h
      · exact slot_textInert a b i haw hb
      · exact textInert_para h)
    (fun p hp => by
      rcases hall p hp with rfl | h
      · exact ⟨not_mem_slot haw hb (by decide) (by decide) (by decide),
          not_mem_slot haw hb (by decide) (by decide) (by decide)⟩
      · exact noBracket_para h)]
  exact finishX_slot x tab fmt pre post stash i raw a b hpre hpost haw hb hab hi hraw

end MdVerif.StashX
