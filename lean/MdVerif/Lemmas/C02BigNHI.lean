/-
Lemmas for `Props/C02Big.lean`, section 6 (termination of `InlineX.runX` for the pattern tables with the footnote and
the nl2br pattern): `__handleInline` over a pattern TABLE.

Part A is a GENERATED COPY of the first half of `MdVerif/Lemmas/InlineFuelHI.lean` (the invariant `SOK` of the stash, the
frame lemmas, `nuS_replaced`) in the namespace `MdVerif.InlineN`, where the weight of a character also counts `\n` and
`^` (`Lemmas/C02BigNPot.lean`).  Part B: what a match of a table entry contributes (`findX_spec`: the sixteen core
patterns from `findMatch_ok`, `findMatch_Q`, `findMatch_acc`; the footnote pattern `[^id]`, whose `sup` and `a` are paid
by `[` and `^`; the nl2br pattern, whose `br` is paid by the line feed).  Part C: `applyPatternX`, the pattern loop and
`handleInlineX` keep the invariant and do not increase the potential (`handleInlineX_spec`), and they always answer
within the model's fuels (`handleInlineTopX_total`).  The wikilink pattern is excluded from B and C-spec: a blank label
makes it stash the EMPTY string, which is not inert (pasting it back can join the two neighbours).
Core Lean only.
-/
import MdVerif.Lemmas.C02BigNPat
import MdVerif.Lemmas.InlineFuelHI
import MdVerif.Lemmas.PlaceholdersXFM

namespace MdVerif.InlineN
open MdVerif.Inline
open Py
open NoCtl hiding STX ETX

/-! ## Part A (generated copy) -/

/-- invariant of the stash: ids increase (at every depth of a stored element), string entries are inert -/
def SOK (stash : List StashItem) : Prop :=
  (∀ (i : Nat) (n : Node), stash[i]? = some (StashItem.node n) → Deep (IdsLt i) n ∧ n.tail = none) ∧
  (∀ (i : Nat) (x : Str), stash[i]? = some (StashItem.str x) → Inert x)

theorem SOK.stashOK {stash : List StashItem} (h : SOK stash) : StashOK stash := by
  intro i n hi
  exact shallowQ_nodeStrings (IdsLt.nil _) (shallow_of_deep (h.1 i n hi).1)

theorem sok_nil : SOK [] := ⟨by intro i n h; simp at h, by intro i x h; simp at h⟩

theorem sok_append_str {stash : List StashItem} (h : SOK stash) {x : Str} (hx : Inert x) :
    SOK (stash ++ [StashItem.str x]) := by
  constructor
  · intro i n hi
    rcases Nat.lt_or_ge i stash.length with hlt | hge
    · rw [List.getElem?_append_left hlt] at hi; exact h.1 i n hi
    · rw [List.getElem?_append_right hge] at hi
      cases hsub : i - stash.length with
      | zero => rw [hsub] at hi; simp at hi
      | succ k => rw [hsub] at hi; simp at hi
  · intro i y hi
    rcases Nat.lt_or_ge i stash.length with hlt | hge
    · rw [List.getElem?_append_left hlt] at hi; exact h.2 i y hi
    · rw [List.getElem?_append_right hge] at hi
      cases hsub : i - stash.length with
      | zero =>
        rw [hsub] at hi
        simp only [List.getElem?_cons_zero, Option.some.injEq, StashItem.str.injEq] at hi
        rw [← hi]; exact hx
      | succ k => rw [hsub] at hi; simp at hi

theorem deep_mono {L L' : Nat} (hl : L ≤ L') {n : Node} (h : Deep (IdsLt L) n) : Deep (IdsLt L') n :=
  Node.Forall.mono (fun _ hm => topQ_mono hl hm) n h

theorem sok_append_node {stash : List StashItem} (h : SOK stash) {n : Node} (hn : Deep (IdsLt stash.length) n)
    (htl : n.tail = none) : SOK (stash ++ [StashItem.node n]) := by
  constructor
  · intro i m hi
    rcases Nat.lt_or_ge i stash.length with hlt | hge
    · rw [List.getElem?_append_left hlt] at hi; exact h.1 i m hi
    · rw [List.getElem?_append_right hge] at hi
      cases hsub : i - stash.length with
      | zero =>
        rw [hsub] at hi
        simp only [List.getElem?_cons_zero, Option.some.injEq, StashItem.node.injEq] at hi
        subst hi
        exact ⟨deep_mono (by omega) hn, htl⟩
      | succ k => rw [hsub] at hi; simp at hi
  · intro i y hi
    rcases Nat.lt_or_ge i stash.length with hlt | hge
    · rw [List.getElem?_append_left hlt] at hi; exact h.2 i y hi
    · rw [List.getElem?_append_right hge] at hi
      cases hsub : i - stash.length with
      | zero => rw [hsub] at hi; simp at hi
      | succ k => rw [hsub] at hi; simp at hi

/-! ### frames -/

theorem nuS_frame {st st' : St} (hp : st.stash <+: st'.stash) {s : Str} (h : IdsLt st.stash.length s) :
    nuS st' s = nuS st s := by
  unfold nuS
  exact nuW_frame (wts_prefix hp) (by rw [wts_length]; exact h)

theorem ownS_frame {st st' : St} (hp : st.stash <+: st'.stash) {n : Node} (h : TopQ (IdsLt st.stash.length) n) :
    ownW (wts st'.stash) n = ownW (wts st.stash) n := by
  have h1 := nuS_frame hp (optQ_getD (IdsLt.nil _) h.1)
  have h2 := nuS_frame hp (optQ_getD (IdsLt.nil _) h.2)
  simp only [nuS] at h1 h2
  simp only [ownW, h1, h2]

theorem potS_frame {st st' : St} (hp : st.stash <+: st'.stash) {n : Node} (h : Deep (IdsLt st.stash.length) n) :
    potS st' n = potS st n :=
  npot_congr n (Node.Forall.mono (fun _ hm => ownS_frame hp hm) n h)

theorem lpotS_frame {st st' : St} (hp : st.stash <+: st'.stash) :
    ∀ (l : List Node), (∀ c ∈ l, Deep (IdsLt st.stash.length) c) →
      lpot (ownW (wts st'.stash)) l = lpot (ownW (wts st.stash)) l
  | [], _ => by simp
  | c :: r, h => by
    have h1 := potS_frame hp (h c (List.mem_cons_self ..))
    have h2 := lpotS_frame hp r (fun d hd => h d (List.mem_cons_of_mem _ hd))
    simp only [potS] at h1
    simp only [lpot_cons, h1, h2]

/-! ### the nested calls -/

/-- the nested `__handleInline`: invariant and potential -/
def HiSpec (hi : HI) : Prop :=
  ∀ t pi st d st', hi t pi st = some (d, st') → SOK st.stash → IdsLt st.stash.length t →
    SOK st'.stash ∧ IdsLt st'.stash.length d ∧ st.stash <+: st'.stash ∧ nuS st' d ≤ nuS st t

theorem hiOpt_spec {hi : HI} (hhi : HiSpec hi) {t : Option Str} {atomic : Bool} {pi : Nat} {st : St}
    {r : Option Str} {st' : St} (h : hiOpt hi t atomic pi st = some (r, st')) (hs : SOK st.stash)
    (ht : optQ (IdsLt st.stash.length) t) :
    SOK st'.stash ∧ optQ (IdsLt st'.stash.length) r ∧ st.stash <+: st'.stash ∧
      nuS st' (r.getD []) ≤ nuS st (t.getD []) ∧ (t = none → r = none) := by
  unfold hiOpt at h
  split at h
  · next hc =>
    cases t with
    | none => simp [Node.truthy] at hc
    | some x =>
      simp only [Option.getD_some] at h
      split at h
      · next d st1 hx =>
        cases h
        obtain ⟨h1, h2, h3, h4⟩ := hhi _ _ _ _ _ hx hs (ht x rfl)
        exact ⟨h1, optQ_some h2, h3, by simpa using h4, by intro e; cases e⟩
      · cases h
  · cases h
    exact ⟨hs, ht, List.prefix_refl _, Nat.le_refl _, id⟩

theorem hiNode_spec {hi : HI} (hhi : HiSpec hi) {pi : Nat} {n : Node} {st : St} {n' : Node} {st' : St}
    (h : hiNode hi pi n st = some (n', st')) (hs : SOK st.stash) (hn : TopQ (IdsLt st.stash.length) n) :
    SOK st'.stash ∧ TopQ (IdsLt st'.stash.length) n' ∧ st.stash <+: st'.stash ∧ n'.children = n.children ∧
      ownW (wts st'.stash) n' ≤ ownW (wts st.stash) n ∧ (n.tail = none → n'.tail = none) := by
  unfold hiNode at h
  split at h
  · cases h
  · next t st1 h1 =>
    obtain ⟨a1, a2, a3, a4, _⟩ := hiOpt_spec hhi h1 hs hn.1
    split at h
    · cases h
    · next tl st2 h2 =>
      cases h
      obtain ⟨b1, b2, b3, b4, b5⟩ := hiOpt_spec hhi h2 a1 (optQ_mono a3.length_le hn.2)
      refine ⟨b1, ⟨optQ_mono b3.length_le a2, b2⟩, a3.trans b3, rfl, ?_, b5⟩
      have f1 := nuS_frame b3 (optQ_getD (IdsLt.nil _) a2)
      have f2 := nuS_frame a3 (optQ_getD (IdsLt.nil _) hn.2)
      simp only [nuS] at a4 b4 f1 f2
      simp only [ownW]
      omega

/-- sum of the own potentials and of the (unchanged) grandchildren -/
def kidsW (acc : List Nat) (l : List Node) : Nat := lpot (ownW acc) l

theorem hiNodes_spec {hi : HI} (hhi : HiSpec hi) {pi : Nat} :
    ∀ (l : List Node) {st : St} {l' : List Node} {st' : St}, hiNodes hi pi l st = some (l', st') →
      SOK st.stash → (∀ c ∈ l, Deep (IdsLt st.stash.length) c) →
      SOK st'.stash ∧ (∀ c ∈ l', Deep (IdsLt st'.stash.length) c) ∧ st.stash <+: st'.stash ∧
        lpot (ownW (wts st'.stash)) l' ≤ lpot (ownW (wts st.stash)) l := by
  intro l
  induction l with
  | nil =>
    intro st l' st' h hs _
    simp only [hiNodes, Option.some.injEq, Prod.mk.injEq] at h
    obtain ⟨rfl, rfl⟩ := h
    refine ⟨hs, ?_, List.prefix_refl _, Nat.le_refl _⟩
    intro c hc; cases hc
  | cons n r ih =>
    intro st l' st' h hs hl
    unfold hiNodes at h
    split at h
    · cases h
    · next n1 st1 h1 =>
      have hdn := hl n (List.mem_cons_self ..)
      obtain ⟨a1, a2, a3, a4, a5, _⟩ := hiNode_spec hhi h1 hs ((deep_iff _ _).1 hdn).1
      split at h
      · cases h
      · next r' st2 h2 =>
        cases h
        obtain ⟨b1, b2, b3, b4⟩ := ih h2 a1
          (fun c hc => deep_mono a3.length_le (hl c (List.mem_cons_of_mem _ hc)))
        -- the processed head, seen from the last state
        have hkids : ∀ c ∈ n1.children, Deep (IdsLt st.stash.length) c := by
          rw [a4]; exact ((deep_iff _ _).1 hdn).2
        have hd1 : Deep (IdsLt st1.stash.length) n1 := by
          rw [deep_iff]; exact ⟨a2, fun c hc => deep_mono a3.length_le (hkids c hc)⟩
        refine ⟨b1, ?_, a3.trans b3, ?_⟩
        · intro c hc
          rcases List.mem_cons.1 hc with rfl | hc
          · exact deep_mono b3.length_le hd1
          · exact b2 c hc
        · have f1 := potS_frame b3 hd1
          have f2 := lpotS_frame a3 r (fun c hc => hl c (List.mem_cons_of_mem _ hc))
          have f3 := lpotS_frame a3 n1.children hkids
          simp only [potS] at f1
          simp only [lpot_cons, f1]
          rw [npot_def (ownW (wts st1.stash)) n1, npot_def (ownW (wts st.stash)) n, f3, a4]
          omega

/-! ### one `__applyPattern` step -/

theorem split3 (data : Str) {a e : Nat} (h : a ≤ e) : data.take a ++ slice data a e ++ data.drop e = data := by
  have : data.take e = data.take a ++ slice data a e := by
    simp only [slice]
    have : data.take a = (data.take e).take a := by rw [List.take_take, Nat.min_eq_left h]
    rw [this, List.take_append_drop]
  rw [← this, List.take_append_drop]

/-- replacing the match by the placeholder of a new entry that weighs no more than the match -/
theorem nuS_replaced {st st1 : St} (hp : st.stash <+: st1.stash) {data : Str}
    (hd : IdsLt st.stash.length data) {f : Found} (hlt : f.start ≤ pyIdx data.length f.stop)
    {item : StashItem} {html : List Str}
    (hw : itemW (wts st1.stash) item ≤ nuS st (region data f)) :
    nuS { stash := st1.stash ++ [item], html := html }
      (data.take f.start ++ placeholder st1.stash.length ++ pyDrop data f.stop) ≤ nuS st data := by
  have hp' : st.stash <+: st1.stash ++ [item] := hp.trans (List.prefix_append _ _)
  have htake : IdsLt st.stash.length (data.take f.start) := hd.infix (List.take_prefix _ _).isInfix
  have hdrop : IdsLt st.stash.length (pyDrop data f.stop) := hd.infix (List.drop_suffix _ _).isInfix
  have f1 := nuS_frame (st' := { stash := st1.stash ++ [item], html := html }) hp' htake
  have f2 := nuS_frame (st' := { stash := st1.stash ++ [item], html := html }) hp' hdrop
  have hsplit := split3 data hlt
  have hsup1 := nuW_append_ge (wts st.stash) (data.take f.start ++ region data f) (data.drop (pyIdx data.length f.stop))
  have hsup2 := nuW_append_ge (wts st.stash) (data.take f.start) (region data f)
  simp only [region] at hsup1 hsup2 hw
  rw [hsplit] at hsup1
  simp only [nuS, pyDrop] at f1 f2 hw ⊢
  have hhead : ∃ r, placeholder st1.stash.length ++ data.drop (pyIdx data.length f.stop) = STX :: r :=
    ⟨"klzzwxh:".toList ++ pad4 st1.stash.length ++ ETX :: data.drop (pyIdx data.length f.stop),
      by simp [placeholder, phPrefix]⟩
  obtain ⟨r, hr⟩ := hhead
  have e1 := nuW_append_ninner (wts (st1.stash ++ [item])) (a := data.take f.start)
    (b := placeholder st1.stash.length ++ data.drop (pyIdx data.length f.stop)) (Or.inr ⟨STX, r, hr, by decide⟩)
  have e2 : nuW (wts (st1.stash ++ [item])) (placeholder st1.stash.length ++ data.drop (pyIdx data.length f.stop)) =
      itemW (wts st1.stash) item + nuW (wts (st1.stash ++ [item])) (data.drop (pyIdx data.length f.stop)) := by
    simp only [nuW, phiC_append, phiC_placeholder, idW_placeholder, idWt_pad4, wts_snoc]
    rw [List.getElem?_append_right (by simp), wts_length, Nat.sub_self]
    simp only [List.getElem?_cons_zero, Option.getD_some]
    omega
  rw [List.append_assoc, e1, e2, f1, f2]
  omega


/-! ## Part B: what a match of a table entry contributes -/

open InlineX

/-- the basic facts about a match (`FoundOK` without the clause on the texts of a new element, which follows from
    `FoundAcc`); the trigger is a character that carries weight -/
structure FoundB (data : Str) (si : Nat) (f : Found) : Prop where
  le : si ≤ f.start
  trig : ∃ c, data[f.start]? = some c ∧ isTrigC c = true
  stop : f.start < pyIdx data.length f.stop
  nonneg : f.node = PNode.none → 0 ≤ f.stop

theorem FoundB.of_ok {data : Str} {si : Nat} {f : Found} (h : FoundOK data si f) : FoundB data si f :=
  ⟨h.le, by obtain ⟨c, h1, h2⟩ := h.trig; exact ⟨c, h1, isTrig_le_isTrigC c h2⟩, h.stop, h.nonneg⟩

/-- the classes of strings the statements are about: closed under parts and `code_escape ∘ strip`, containing the
    digit strings (the text of a footnote reference) -/
structure QOK (Q : Str → Prop) : Prop where
  inf : InfixClosed Q
  nil : Q []
  code : ∀ g, Q g → Q (codeEscape (strip g))
  dig : ∀ s : Str, (∀ c ∈ s, isAsciiDigit c = true) → Q s

theorem qok_true : QOK (fun _ => True) := ⟨fun _ _ _ _ => trivial, trivial, fun _ _ => trivial, fun _ _ => trivial⟩

theorem digits_no_stx {s : Str} (h : ∀ c ∈ s, isAsciiDigit c = true) : Inline.STX ∉ s := by
  intro hm
  have := h _ hm
  revert this; decide

theorem qok_idsLt (L : Nat) : QOK (IdsLt L) :=
  ⟨infixClosed_idsLt L, IdsLt.nil L, fun _ hg => hg.codeEscape_strip, fun _ hs => IdsLt.of_no_stx L (digits_no_stx hs)⟩

theorem nuW_digits (acc : List Nat) {s : Str} (h : ∀ c ∈ s, isAsciiDigit c = true) : nuW acc s = 0 := by
  have h1 : phiC s = 0 := phiC_zero_of (fun c hc => isTrigC_digit (h c hc))
  have h2 : idW acc s = 0 := by simp [idW, idsOf_of_no_stx (digits_no_stx h)]
  simp [nuW, h1, h2]

theorem getElem?_at_pre {data pre rest : Str} {si : Nat} (h : data.drop si = pre ++ rest) :
    data[si + pre.length]? = rest.head? := by
  have := List.getElem?_drop (xs := data) (i := si) (j := pre.length)
  rw [h] at this
  rw [← this, List.getElem?_append_right (Nat.le_refl _), Nat.sub_self, List.head?_eq_getElem?]

theorem slice_at_pre {data pre mid post : Str} {si : Nat} (h : data.drop si = pre ++ mid ++ post) :
    slice data (si + pre.length) (si + pre.length + mid.length) = mid := by
  rw [slice_eq_drop_take, ← List.drop_drop, h, List.append_assoc, List.drop_left]
  have : si + pre.length + mid.length - (si + pre.length) = mid.length := by omega
  rw [this, List.take_left]

theorem setAttr_tailN (n : Node) (a b : Str) : (n.setAttr a b).tail = n.tail := by
  unfold Node.setAttr
  split <;> rfl

theorem lt_length_of_getElem? {data : Str} {i : Nat} {c : Char} (h : data[i]? = some c) : i < data.length := by
  rcases Nat.lt_or_ge i data.length with h' | h'
  · exact h'
  · rw [List.getElem?_eq_none h'] at h; cases h

/-- the `sup` of a footnote reference: two elements, the text of the `a` is a number -/
theorem fnRefNode_acc (acc : List Nat) {Q : Str → Prop} (hQ : QOK Q) (keys : List Str) (id refId : Str) :
    Deep Q (fnRefNode keys id refId) ∧ W acc (fnRefNode keys id refId) = 2 ∧ (fnRefNode keys id refId).tail = none := by
  have hdig := natToDec_digits (indexOf keys id + 1)
  refine ⟨?_, ?_, ?_⟩
  · rw [deep_iff]
    refine ⟨⟨?_, ?_⟩, ?_⟩
    · intro s hs
      simp only [fnRefNode] at hs
      rw [setAttr_text] at hs
      cases hs
    · intro s hs
      simp only [fnRefNode] at hs
      rw [setAttr_tailN] at hs
      cases hs
    · intro c hc
      simp only [fnRefNode, List.mem_singleton] at hc
      subst hc
      exact deep_setAttr _ _ (deep_setAttr _ _ (deep_text "a" (hQ.dig _ hdig)))
  · have e : W acc (fnRefNode keys id refId) =
        ownW acc ((mkEl "sup").setAttr "id".toList refId) +
          W acc ((({ mkEl "a" with text := some (natToDec (indexOf keys id + 1)) } : Node).setAttr "href".toList
            ('#' :: Footnotes.footnoteId id)).setAttr "class".toList "footnote-ref".toList) := by
      simp only [W, fnRefNode, npot_def, lpot_cons, lpot_nil, ownW]
      omega
    rw [e, W_setAttr, W_setAttr, W_text, nuW_digits acc hdig]
    simp only [ownW, setAttr_text, setAttr_tailN]
    simp [mkEl]
  · simp only [fnRefNode]
    rw [setAttr_tailN]; rfl

theorem phiC_ge_of_mem2 {s : Str} {a b : Char} {m post : Str} (h : s = a :: b :: m ++ post)
    (ha : isTrigC a = true) (hb : isTrigC b = true) : 2 ≤ phiC s := by
  rw [h]
  simp only [List.cons_append, phiC_cons, ha, hb, if_true]
  omega

/-- **every entry of a pattern table but the wikilink pattern**: the match starts at or after `startIndex` with a
    character that carries weight, is not empty; a stashed string is inert and an element has texts in `Q` at every
    depth, no tail, and weighs no more than the matched part of the text; the stash of inline nodes is not touched -/
theorem findX_spec (xc : XCfg) {k : PatK} (hk : k ≠ PatK.wikilink) (acc : List Nat) {Q : Str → Prop} (hQ : QOK Q)
    (data : Str) (si : Nat) (x : XSt) (hd : Q data) :
    ∃ r x', findX xc k data si x = some (r, x') ∧ x'.st.stash = x.st.stash ∧
      ∀ f, r = some f → FoundB data si f ∧ FoundAcc acc Q data f := by
  cases k with
  | core i =>
    obtain ⟨r, st', hfm, hok⟩ := findMatch_ok xc.cfg i data si x.st
    refine ⟨r, { x with st := st' }, by simp only [findX, hfm], ?_, ?_⟩
    · exact (findMatch_Q hQ.inf hQ.nil hQ.code xc.cfg i data si x.st hd hfm).1
    · intro f hf
      exact ⟨FoundB.of_ok (hok f hf), findMatch_acc acc hQ.inf hQ.nil hQ.code xc.cfg i data si x.st hd hfm f hf⟩
  | wikilink => exact absurd rfl hk
  | footnote =>
    simp only [findX]
    split
    · exact ⟨none, x, rfl, rfl, by intro f hf; cases hf⟩
    · cases hs : fnRefScan xc.fnKeys 0 (data.drop si) si with
      | none => exact ⟨none, x, rfl, rfl, by intro f hf; cases hf⟩
      | some p =>
        obtain ⟨id, s, e⟩ := p
        refine ⟨_, _, rfl, rfl, ?_⟩
        intro f hf
        simp only [Option.some.injEq] at hf
        subst hf
        obtain ⟨pre, post, h1, h2, h3, _⟩ := NoCtlX.fnRefScan_spec _ _ _ _ _ _ _ hs
        have hget : data[s]? = some '[' := by
          rw [h2, getElem?_at_pre (rest := (('[' :: '^' :: id) ++ [']']) ++ post) (by rw [h1]; simp)]
          rfl
        have hlen := lt_length_of_getElem? hget
        have hreg : region data ⟨PNode.el (fnRefNode xc.fnKeys id (Footnotes.footnoteRefId id true x.fn).1), s, (e : Int)⟩ =
            ('[' :: '^' :: id) ++ [']'] := by
          rw [region_nat, h3, h2]
          have := slice_at_pre (mid := ('[' :: '^' :: id) ++ [']']) h1
          have hm : (('[' :: '^' :: id) ++ [']']).length = id.length + 3 := by simp
          rw [hm] at this
          exact this
        obtain ⟨a1, a2, a3⟩ := fnRefNode_acc acc hQ xc.fnKeys id (Footnotes.footnoteRefId id true x.fn).1
        refine ⟨⟨by show si ≤ s; omega, ⟨'[', hget, by decide⟩,
          by show s < pyIdx data.length (e : Int); exact pyIdx_nat_gt (by omega) hlen, by intro h; cases h⟩, ?_⟩
        simp only [FoundAcc]
        refine ⟨a1, ?_, a3⟩
        rw [a2, hreg]
        have : 2 ≤ phiC (('[' :: '^' :: id) ++ [']']) :=
          phiC_ge_of_mem2 (a := '[') (b := '^') (m := id) (post := [']']) (by simp) (by decide) (by decide)
        simp only [nuW]; omega
  | nl =>
    simp only [findX]
    split
    · exact ⟨none, x, rfl, rfl, by intro f hf; cases hf⟩
    · cases hs : find ['\n'] (data.drop si) with
      | none => exact ⟨none, x, rfl, rfl, by intro f hf; cases hf⟩
      | some off =>
        refine ⟨_, _, rfl, rfl, ?_⟩
        intro f hf
        simp only [Option.some.injEq] at hf
        subst hf
        obtain ⟨pre, post, h1, h2, _⟩ := find_some_iff.1 hs
        have hget : data[si + off]? = some '\n' := by
          rw [← h2, getElem?_at_pre (rest := ['\n'] ++ post) (by rw [h1, List.append_assoc])]
          rfl
        have hlen := lt_length_of_getElem? hget
        have hreg : region data ⟨PNode.el (mkEl "br"), si + off, ((si + off + 1 : Nat) : Int)⟩ = ['\n'] := by
          rw [region_nat, ← h2]
          have := slice_at_pre (mid := ['\n']) h1
          simpa using this
        refine ⟨⟨by show si ≤ si + off; omega, ⟨'\n', hget, by decide⟩, ?_, by intro h; cases h⟩, ?_⟩
        · show si + off < pyIdx data.length ((si : Int) + off + 1)
          have := pyIdx_nat_gt (n := data.length) (start := si + off) (e := si + off + 1) (by omega) hlen
          have e : ((si : Int) + off + 1) = ((si + off + 1 : Nat) : Int) := by omega
          rw [e]; exact this
        · simp only [FoundAcc]
          refine ⟨deep_mkEl Q _, ?_, rfl⟩
          have e : ((si : Int) + off + 1) = ((si + off + 1 : Nat) : Int) := by omega
          have : region data ⟨PNode.el (mkEl "br"), si + off, (si : Int) + off + 1⟩ = ['\n'] := by
            rw [e]; exact hreg
          rw [W_mkEl, this]
          have hp : phiC ['\n'] = 1 := by decide
          simp only [nuW]; omega

/-! ## Part C: `applyPatternX`, the pattern loop, `handleInlineX` -/

/-- the nested `__handleInline`: invariant and potential -/
def HiSpecX (hi : HIX) : Prop :=
  ∀ t pi x d x', hi t pi x = some (d, x') → SOK x.st.stash → IdsLt x.st.stash.length t →
    SOK x'.st.stash ∧ IdsLt x'.st.stash.length d ∧ x.st.stash <+: x'.st.stash ∧ nuS x'.st d ≤ nuS x.st t

theorem hiOptX_spec {hi : HIX} (hhi : HiSpecX hi) {t : Option Str} {atomic : Bool} {pi : Nat} {x : XSt}
    {r : Option Str} {x' : XSt} (h : hiOptX hi t atomic pi x = some (r, x')) (hs : SOK x.st.stash)
    (ht : optQ (IdsLt x.st.stash.length) t) :
    SOK x'.st.stash ∧ optQ (IdsLt x'.st.stash.length) r ∧ x.st.stash <+: x'.st.stash ∧
      nuS x'.st (r.getD []) ≤ nuS x.st (t.getD []) ∧ (t = none → r = none) := by
  unfold hiOptX at h
  split at h
  · next hc =>
    cases t with
    | none => simp [Node.truthy] at hc
    | some y =>
      simp only [Option.getD_some] at h
      split at h
      · next d x1 hx =>
        cases h
        obtain ⟨h1, h2, h3, h4⟩ := hhi _ _ _ _ _ hx hs (ht y rfl)
        exact ⟨h1, optQ_some h2, h3, by simpa using h4, by intro e; cases e⟩
      · cases h
  · cases h
    exact ⟨hs, ht, List.prefix_refl _, Nat.le_refl _, id⟩

theorem hiNodeX_spec {hi : HIX} (hhi : HiSpecX hi) {pi : Nat} {n : Node} {x : XSt} {n' : Node} {x' : XSt}
    (h : hiNodeX hi pi n x = some (n', x')) (hs : SOK x.st.stash) (hn : TopQ (IdsLt x.st.stash.length) n) :
    SOK x'.st.stash ∧ TopQ (IdsLt x'.st.stash.length) n' ∧ x.st.stash <+: x'.st.stash ∧ n'.children = n.children ∧
      ownW (wts x'.st.stash) n' ≤ ownW (wts x.st.stash) n ∧ (n.tail = none → n'.tail = none) := by
  unfold hiNodeX at h
  split at h
  · cases h
  · next t x1 h1 =>
    obtain ⟨a1, a2, a3, a4, _⟩ := hiOptX_spec hhi h1 hs hn.1
    split at h
    · cases h
    · next tl x2 h2 =>
      cases h
      obtain ⟨b1, b2, b3, b4, b5⟩ := hiOptX_spec hhi h2 a1 (optQ_mono a3.length_le hn.2)
      refine ⟨b1, ⟨optQ_mono b3.length_le a2, b2⟩, a3.trans b3, rfl, ?_, b5⟩
      have f1 := nuS_frame b3 (optQ_getD (IdsLt.nil _) a2)
      have f2 := nuS_frame a3 (optQ_getD (IdsLt.nil _) hn.2)
      simp only [nuS] at a4 b4 f1 f2
      simp only [ownW]
      omega

theorem hiNodesX_spec {hi : HIX} (hhi : HiSpecX hi) {pi : Nat} :
    ∀ (l : List Node) {x : XSt} {l' : List Node} {x' : XSt}, hiNodesX hi pi l x = some (l', x') →
      SOK x.st.stash → (∀ c ∈ l, Deep (IdsLt x.st.stash.length) c) →
      SOK x'.st.stash ∧ (∀ c ∈ l', Deep (IdsLt x'.st.stash.length) c) ∧ x.st.stash <+: x'.st.stash ∧
        lpot (ownW (wts x'.st.stash)) l' ≤ lpot (ownW (wts x.st.stash)) l := by
  intro l
  induction l with
  | nil =>
    intro x l' x' h hs _
    simp only [hiNodesX, Option.some.injEq, Prod.mk.injEq] at h
    obtain ⟨rfl, rfl⟩ := h
    refine ⟨hs, ?_, List.prefix_refl _, Nat.le_refl _⟩
    intro c hc; cases hc
  | cons n r ih =>
    intro x l' x' h hs hl
    unfold hiNodesX at h
    split at h
    · cases h
    · next n1 x1 h1 =>
      have hdn := hl n (List.mem_cons_self ..)
      obtain ⟨a1, a2, a3, a4, a5, _⟩ := hiNodeX_spec hhi h1 hs ((deep_iff _ _).1 hdn).1
      split at h
      · cases h
      · next r' x2 h2 =>
        cases h
        obtain ⟨b1, b2, b3, b4⟩ := ih h2 a1
          (fun c hc => deep_mono a3.length_le (hl c (List.mem_cons_of_mem _ hc)))
        have hkids : ∀ c ∈ n1.children, Deep (IdsLt x.st.stash.length) c := by
          rw [a4]; exact ((deep_iff _ _).1 hdn).2
        have hd1 : Deep (IdsLt x1.st.stash.length) n1 := by
          rw [deep_iff]; exact ⟨a2, fun c hc => deep_mono a3.length_le (hkids c hc)⟩
        refine ⟨b1, ?_, a3.trans b3, ?_⟩
        · intro c hc
          rcases List.mem_cons.1 hc with rfl | hc
          · exact deep_mono b3.length_le hd1
          · exact b2 c hc
        · have f1 := potS_frame b3 hd1
          have f2 := lpotS_frame a3 r (fun c hc => hl c (List.mem_cons_of_mem _ hc))
          have f3 := lpotS_frame a3 n1.children hkids
          simp only [potS] at f1
          simp only [lpot_cons, f1]
          rw [npot_def (ownW (wts x1.st.stash)) n1, npot_def (ownW (wts x.st.stash)) n, f3, a4]
          omega

/-- a pattern table without the wikilink pattern -/
def TableOK (xc : XCfg) : Prop := ∀ k ∈ xc.table, k ≠ PatK.wikilink

theorem table_get_ok {xc : XCfg} (ht : TableOK xc) {pi : Nat} {k : PatK} (h : xc.table[pi]? = some k) :
    k ≠ PatK.wikilink := ht k (List.mem_of_getElem? h)

theorem applyPatternX_spec (xc : XCfg) (ht : TableOK xc) {hi : HIX} (hhi : HiSpecX hi) {pi : Nat} {data : Str}
    {si : Nat} {x : XSt} {d : Str} {m : Bool} {si' : Nat} {x' : XSt}
    (h : applyPatternX xc hi pi data si x = some (d, m, si', x')) (hs : SOK x.st.stash)
    (hd : IdsLt x.st.stash.length data) :
    SOK x'.st.stash ∧ IdsLt x'.st.stash.length d ∧ x.st.stash <+: x'.st.stash ∧ nuS x'.st d ≤ nuS x.st data := by
  unfold applyPatternX at h
  split at h
  · cases h
    exact ⟨hs, hd, List.prefix_refl _, Nat.le_refl _⟩
  · next k hk =>
    obtain ⟨r0, x00, hfm0, hst00, hspec0⟩ :=
      findX_spec xc (table_get_ok ht hk) (wts x.st.stash) (qok_idsLt x.st.stash.length) data si x hd
    rw [hfm0] at h
    cases r0 with
    | none =>
      simp only [Option.some.injEq, Prod.mk.injEq] at h
      obtain ⟨rfl, _, _, rfl⟩ := h
      have e : nuS x00.st data = nuS x.st data := by simp only [nuS, hst00]
      exact ⟨by rw [hst00]; exact hs, by rw [hst00]; exact hd, by rw [hst00]; exact List.prefix_refl _,
        by rw [e]; exact Nat.le_refl _⟩
    | some f =>
      obtain ⟨hfok, hacc⟩ := hspec0 f rfl
      have hlt : f.start ≤ pyIdx data.length f.stop := Nat.le_of_lt hfok.stop
      have e0 : nuS x00.st data = nuS x.st data := by simp only [nuS, hst00]
      simp only at h
      split at h
      · cases h
        exact ⟨by rw [hst00]; exact hs, by rw [hst00]; exact hd, by rw [hst00]; exact List.prefix_refl _,
          by rw [e0]; exact Nat.le_refl _⟩
      · next y hy =>
        simp only [stashX, stashNode, Option.some.injEq, Prod.mk.injEq] at h
        obtain ⟨rfl, _, _, rfl⟩ := h
        simp only [FoundAcc, hy] at hacc
        have hpre0 : x.st.stash <+: x00.st.stash := by rw [hst00]; exact List.prefix_refl _
        refine ⟨?_, ?_, ?_, ?_⟩
        · simp only; rw [hst00]; exact sok_append_str hs hacc.1
        · simp only [List.length_append, List.length_singleton]
          rw [hst00]
          exact idsLt_replaced (hd.mono (Nat.le_succ _)) (Nat.lt_succ_self _)
        · simp only; rw [hst00]; exact List.prefix_append _ _
        · apply nuS_replaced hpre0 hd hlt
          simp only [itemW, nuW_inert _ hacc.1, nuS]
          exact hacc.2
      · next n hnode =>
        simp only [FoundAcc, hnode] at hacc
        obtain ⟨hdeep, hwt, htail⟩ := hacc
        have hs0 : SOK x00.st.stash := by rw [hst00]; exact hs
        have hpre0 : x.st.stash <+: x00.st.stash := by rw [hst00]; exact List.prefix_refl _
        have hdeep0 : Deep (IdsLt x00.st.stash.length) n := by rw [hst00]; exact hdeep
        have hW0 : potS x00.st n = W (wts x.st.stash) n := by simp only [potS, W, hst00]
        have finish : ∀ {n' : Node} {x1 : XSt}, SOK x1.st.stash → Deep (IdsLt x1.st.stash.length) n' →
            x00.st.stash <+: x1.st.stash → potS x1.st n' ≤ potS x00.st n → n'.tail = none →
            SOK (x1.st.stash ++ [StashItem.node n']) ∧
            IdsLt (x1.st.stash ++ [StashItem.node n']).length
              (List.take f.start data ++ placeholder x1.st.stash.length ++ pyDrop data f.stop) ∧
            x.st.stash <+: x1.st.stash ++ [StashItem.node n'] ∧
            nuS { stash := x1.st.stash ++ [StashItem.node n'], html := x1.st.html }
              (List.take f.start data ++ placeholder x1.st.stash.length ++ pyDrop data f.stop) ≤ nuS x.st data := by
          intro n' x1 k1 k2 k3 k4 k5
          refine ⟨sok_append_node k1 k2 k5, ?_, (hpre0.trans k3).trans (List.prefix_append _ _), ?_⟩
          · simp only [List.length_append, List.length_singleton]
            exact idsLt_replaced (hd.mono (Nat.le_trans (hpre0.trans k3).length_le (Nat.le_succ _))) (Nat.lt_succ_self _)
          · apply nuS_replaced (hpre0.trans k3) hd hlt
            simp only [itemW, nuS]
            simp only [potS] at k4 hW0
            simp only [W] at hwt hW0
            omega
        split at h
        · cases h
        · next n' x1 hr =>
          simp only [stashX, stashNode, Option.some.injEq, Prod.mk.injEq] at h
          obtain ⟨rfl, _, _, rfl⟩ := h
          split at hr
          · simp only [Option.some.injEq, Prod.mk.injEq] at hr
            obtain ⟨rfl, rfl⟩ := hr
            exact finish hs0 hdeep0 (List.prefix_refl _) (Nat.le_refl _) htail
          · split at hr
            · cases hr
            · next n1 xa h1 =>
              have hdn := (deep_iff _ _).1 hdeep0
              obtain ⟨a1, a2, a3, a4, a5, a6⟩ := hiNodeX_spec hhi h1 hs0 (n := { n with children := [] }) hdn.1
              split at hr
              · cases hr
              · next kids xb h2 =>
                simp only [Option.some.injEq, Prod.mk.injEq] at hr
                obtain ⟨rfl, rfl⟩ := hr
                obtain ⟨b1, b2, b3, b4⟩ := hiNodesX_spec hhi n.children h2 a1
                  (fun c hc => deep_mono a3.length_le (hdn.2 c hc))
                apply finish b1 (n' := { n1 with children := kids })
                · rw [deep_iff]; exact ⟨topQ_mono b3.length_le a2, b2⟩
                · exact a3.trans b3
                · have f1 := ownS_frame b3 a2
                  have f2 := lpotS_frame a3 n.children hdn.2
                  simp only [potS]
                  rw [npot_def, npot_def (ownW (wts x00.st.stash)) n]
                  simp only
                  have e1 : ownW (wts xb.st.stash) { n1 with children := kids } = ownW (wts xb.st.stash) n1 := rfl
                  have e2 : ownW (wts x00.st.stash) ({ n with children := [] } : Node) = ownW (wts x00.st.stash) n := rfl
                  rw [e1, f1]
                  rw [e2] at a5
                  omega
                · exact a6 htail

theorem hiLoopX_spec {count : Nat} {ap : Nat → Str → Nat → XSt → Option (Str × Bool × Nat × XSt)}
    (hap : ∀ pi data si x d m si' x', ap pi data si x = some (d, m, si', x') → SOK x.st.stash →
      IdsLt x.st.stash.length data →
      SOK x'.st.stash ∧ IdsLt x'.st.stash.length d ∧ x.st.stash <+: x'.st.stash ∧ nuS x'.st d ≤ nuS x.st data) :
    ∀ (g : Nat) (data : Str) (pi si : Nat) (x : XSt) (d : Str) (x' : XSt),
      hiLoopX count ap g data pi si x = some (d, x') → SOK x.st.stash → IdsLt x.st.stash.length data →
      SOK x'.st.stash ∧ IdsLt x'.st.stash.length d ∧ x.st.stash <+: x'.st.stash ∧ nuS x'.st d ≤ nuS x.st data := by
  intro g
  induction g with
  | zero => intro data pi si x d x' h; simp [hiLoopX] at h
  | succ g ih =>
    intro data pi si x d x' h hs hd
    unfold hiLoopX at h
    split at h
    · split at h
      · cases h
      · next d1 m si1 x1 hx =>
        obtain ⟨a1, a2, a3, a4⟩ := hap _ _ _ _ _ _ _ _ hx hs hd
        obtain ⟨b1, b2, b3, b4⟩ := ih _ _ _ _ _ _ h a1 a2
        exact ⟨b1, b2, a3.trans b3, Nat.le_trans b4 a4⟩
    · cases h
      exact ⟨hs, hd, List.prefix_refl _, Nat.le_refl _⟩

/-- **`__handleInline` over a pattern table without the wikilink pattern keeps the invariants of the stash and does not
    increase the potential** -/
theorem handleInlineX_spec (xc : XCfg) (ht : TableOK xc) : ∀ f, HiSpecX (handleInlineX xc f) := by
  intro f
  induction f with
  | zero => intro t pi x d x' h; simp [handleInlineX] at h
  | succ f ih =>
    intro t pi x d x' h hs hd
    unfold handleInlineX at h
    exact hiLoopX_spec (fun pi data si x d m si' x' hx hs' hd' => applyPatternX_spec xc ht ih hx hs' hd')
      _ _ _ _ _ _ _ h hs hd

/-! ## Part D: `handleInlineX` always answers (the model's own fuels suffice) -/

theorem phiC_le_length (s : Str) : phiC s ≤ s.length := List.countP_le_length

theorem phiC_take_add_drop (s : Str) (k : Nat) : phiC (s.take k) + phiC (s.drop k) = phiC s := by
  rw [← phiC_append, List.take_append_drop]

theorem phiC_drop_le (s : Str) (k : Nat) : phiC (s.drop k) ≤ phiC s := by
  have := phiC_take_add_drop s k; omega

theorem phiC_drop_mono (s : Str) {i j : Nat} (h : i ≤ j) : phiC (s.drop j) ≤ phiC (s.drop i) := by
  have : s.drop j = (s.drop i).drop (j - i) := by rw [List.drop_drop]; congr 1; omega
  rw [this]; exact phiC_drop_le _ _

theorem phiC_drop_succ {s : Str} {i : Nat} {c : Char} (h : s[i]? = some c) (hc : isTrigC c = true) :
    phiC (s.drop i) = phiC (s.drop (i + 1)) + 1 := by
  have hi := lt_length_of_getElem? h
  have hd : s.drop i = c :: s.drop (i + 1) := by
    rw [List.drop_eq_getElem_cons hi]
    congr 1
    rw [List.getElem?_eq_getElem hi] at h; exact Option.some.inj h
  rw [hd, phiC_cons, hc]; simp; omega

theorem phiC_cut {s : Str} {start stop : Nat} {c : Char} (h : s[start]? = some c) (hc : isTrigC c = true)
    (hlt : start < stop) : phiC (s.take start) + phiC (s.drop stop) + 1 ≤ phiC s := by
  have h1 := phiC_take_add_drop s start
  have h2 := phiC_drop_succ h hc
  have h3 := phiC_drop_mono s (show start + 1 ≤ stop by omega)
  omega

theorem phiC_replaced {data : Str} {start : Nat} {stop : Int} {k : Nat}
    (htrig : ∃ c, data[start]? = some c ∧ isTrigC c = true) (hstop : start < pyIdx data.length stop) :
    phiC (data.take start ++ placeholder k ++ pyDrop data stop) < phiC data := by
  obtain ⟨c, hc, ht⟩ := htrig
  have := phiC_cut hc ht hstop
  simp only [phiC_append, phiC_placeholder, pyDrop]
  omega

/-- what one `__applyPattern` call does, as far as the loop is concerned (`Inline.ApOK` for the weight `phiC`) -/
def ApOKX (ap : Nat → Str → Nat → XSt → Option (Str × Bool × Nat × XSt)) (T0 : Nat) : Prop :=
  ∀ pi data si x, phiC data ≤ T0 →
    ∃ d m si' x', ap pi data si x = some (d, m, si', x') ∧
      ((m = false ∧ d = data ∧ si' = 0) ∨
       (m = true ∧ d = data ∧ phiC (data.drop si') < phiC (data.drop si)) ∨
       (m = true ∧ si' = 0 ∧ phiC d < phiC data))

/-- potential of the loop state, for a table of `count` patterns -/
def potX (count T0 pi : Nat) (data : Str) (si : Nat) : Nat :=
  (count - pi) * (T0 + 1) + phiC data * (T0 + 1) + phiC (data.drop si)

theorem hiLoopX_total {count : Nat} {ap} {T0 : Nat} (hap : ApOKX ap T0) :
    ∀ (g : Nat) (data : Str) (pi si : Nat) (x : XSt), phiC data ≤ T0 → potX count T0 pi data si < g →
      (hiLoopX count ap g data pi si x).isSome = true := by
  intro g
  induction g with
  | zero => intro data pi si x _ h; omega
  | succ g ih =>
    intro data pi si x hT hpot
    unfold hiLoopX
    split
    · next hpi =>
      obtain ⟨d, m, si', x', hap', hcase⟩ := hap pi data si x hT
      rw [hap']
      simp only
      have hdrop := phiC_drop_le data si
      rcases hcase with ⟨hm, hd, hs⟩ | ⟨hm, hd, hlt⟩ | ⟨hm, hs, hlt⟩
      · subst hm hd hs
        apply ih _ _ _ _ hT
        simp only [potX, Bool.false_eq_true, if_false, List.drop_zero] at hpot ⊢
        have : (count - pi) * (T0 + 1) = (count - (pi + 1)) * (T0 + 1) + (T0 + 1) := by
          have : count - pi = (count - (pi + 1)) + 1 := by omega
          rw [this, Nat.add_mul]; omega
        omega
      · subst hm hd
        apply ih _ _ _ _ hT
        simp only [potX, if_true] at hpot ⊢
        omega
      · subst hm hs
        have hT' : phiC d ≤ T0 := by omega
        apply ih _ _ _ _ hT'
        simp only [potX, if_true, List.drop_zero] at hpot ⊢
        have : phiC data * (T0 + 1) ≥ phiC d * (T0 + 1) + (T0 + 1) := by
          have : phiC d + 1 ≤ phiC data := hlt
          calc phiC data * (T0 + 1) ≥ (phiC d + 1) * (T0 + 1) := Nat.mul_le_mul_right _ this
            _ = phiC d * (T0 + 1) + (T0 + 1) := by rw [Nat.add_mul]; omega
        omega
    · rfl

theorem potX_lt_loopFuelX {count : Nat} (hc : 0 < count) (data : Str) (pi : Nat) :
    potX count (phiC data) pi data 0 < loopFuelX count data.length := by
  have h := phiC_le_length data
  simp only [potX, List.drop_zero, loopFuelX]
  generalize phiC data = t at h
  generalize data.length = n at h
  have h1 : (count - pi) * (t + 1) ≤ count * (n + 1) := Nat.mul_le_mul (by omega) (by omega)
  have h2 : t * (t + 1) ≤ n * (n + 1) := Nat.mul_le_mul h (by omega)
  have h3 : count * (n + 2) * (n + 2) = count * (n * n) + 4 * (count * n) + 4 * count := by grind
  have h4 : n * (n + 1) = n * n + n := by grind
  have h5 : count * (n + 1) = count * n + count := by grind
  have h6 : n * n ≤ count * (n * n) := Nat.le_mul_of_pos_left _ hc
  have h7 : n ≤ count * n := Nat.le_mul_of_pos_left _ hc
  omega

/-- the nested `__handleInline` answers on every text of weight below `T` -/
def HiOKX (hi : HIX) (T : Nat) : Prop := ∀ t pi x, phiC t < T → (hi t pi x).isSome = true

abbrev optLeC (k : Nat) (t : Option Str) : Prop := optQ (fun s => phiC s ≤ k) t
abbrev TopC (k : Nat) (n : Node) : Prop := TopQ (fun s => phiC s ≤ k) n

theorem hiOptX_ok {hi : HIX} {T k : Nat} (hhi : HiOKX hi T) (hk : k < T) {t : Option Str} (ht : optLeC k t)
    (atomic : Bool) (pi : Nat) (x : XSt) : ∃ r x', hiOptX hi t atomic pi x = some (r, x') := by
  unfold hiOptX
  split
  · next hc =>
    cases t with
    | none => simp [Node.truthy] at hc
    | some y =>
      have := hhi y pi x (by have := ht y rfl; omega)
      simp only [Option.getD_some]
      cases hx : hi y pi x with
      | none => rw [hx] at this; cases this
      | some p => exact ⟨_, _, rfl⟩
  · exact ⟨_, _, rfl⟩

theorem hiNodeX_ok {hi : HIX} {T k : Nat} (hhi : HiOKX hi T) (hk : k < T) {n : Node} (hn : TopC k n)
    (pi : Nat) (x : XSt) : ∃ n' x', hiNodeX hi pi n x = some (n', x') := by
  unfold hiNodeX
  obtain ⟨t, x1, h1⟩ := hiOptX_ok hhi hk hn.1 n.textAtomic (pi + 1) x
  rw [h1]
  obtain ⟨tl, x2, h2⟩ := hiOptX_ok hhi hk hn.2 n.tailAtomic pi x1
  simp only [h2]
  exact ⟨_, _, rfl⟩

theorem hiNodesX_ok {hi : HIX} {T k : Nat} (hhi : HiOKX hi T) (hk : k < T) (pi : Nat) :
    ∀ (l : List Node) (x : XSt), (∀ c ∈ l, TopC k c) → ∃ l' x', hiNodesX hi pi l x = some (l', x') := by
  intro l
  induction l with
  | nil => intro x _; exact ⟨_, _, rfl⟩
  | cons n r ih =>
    intro x hl
    unfold hiNodesX
    obtain ⟨n', x1, h1⟩ := hiNodeX_ok hhi hk (hl n (List.mem_cons_self ..)) pi x
    rw [h1]
    obtain ⟨r', x2, h2⟩ := ih x1 (fun c hc => hl c (List.mem_cons_of_mem _ hc))
    simp only [h2]
    exact ⟨_, _, rfl⟩

theorem idW_nilAcc (s : Str) : idW [] s = 0 := by
  simp only [idW]
  generalize idsOf s = l
  induction l with
  | nil => rfl
  | cons id r ih => simp [idWt, ih]

theorem ownW_nil_ge (n : Node) : 1 + phiC (n.text.getD []) + phiC (n.tail.getD []) ≤ ownW [] n := by
  simp only [ownW, nuW, idW_nilAcc]; omega

/-- the texts of an element and of its children weigh less than the element -/
theorem topC_of_W {n : Node} {B : Nat} (h : W [] n ≤ B) :
    TopC (B - 1) n ∧ ∀ c ∈ n.children, TopC (B - 1) c := by
  have hn := ownW_nil_ge n
  have hW : W [] n = ownW [] n + lpot (ownW []) n.children := npot_def _ n
  refine ⟨⟨?_, ?_⟩, ?_⟩
  · intro s hs; rw [hs] at hn; simp only [Option.getD_some] at hn; omega
  · intro s hs; rw [hs] at hn; simp only [Option.getD_some] at hn; omega
  · intro c hc
    have h1 := npot_mem_le (ownW []) hc
    have h2 : npot (ownW []) c = ownW [] c + lpot (ownW []) c.children := npot_def _ c
    have h3 := ownW_nil_ge c
    have hpos : 1 ≤ ownW [] n := by have := ownW_nil_ge n; omega
    refine ⟨?_, ?_⟩
    · intro s hs; rw [hs] at h3; simp only [Option.getD_some] at h3; omega
    · intro s hs; rw [hs] at h3; simp only [Option.getD_some] at h3; omega

theorem region_infix (data : Str) (f : Found) : region data f <:+: data := slice_infix _ _ _

theorem applyPatternX_ok (xc : XCfg) (ht : TableOK xc) {hi : HIX} {T0 : Nat} (hhi : HiOKX hi T0) :
    ApOKX (applyPatternX xc hi) T0 := by
  intro pi data si x hT
  unfold applyPatternX
  split
  · exact ⟨_, _, _, _, rfl, Or.inl ⟨rfl, rfl, rfl⟩⟩
  · next k hk =>
    obtain ⟨r, x0, hfm, _, hspec⟩ := findX_spec xc (table_get_ok ht hk) [] qok_true data si x trivial
    rw [hfm]
    cases r with
    | none => exact ⟨_, _, _, _, rfl, Or.inl ⟨rfl, rfl, rfl⟩⟩
    | some f =>
      obtain ⟨hf, hacc⟩ := hspec f rfl
      simp only
      cases hnode : f.node with
      | none =>
        simp only
        refine ⟨_, _, _, _, rfl, Or.inr (Or.inl ⟨rfl, rfl, ?_⟩)⟩
        have h0 := hf.nonneg hnode
        have hs := hf.stop
        obtain ⟨c, hc, htc⟩ := hf.trig
        have hlt : f.start < f.stop.toNat := by
          unfold pyIdx at hs
          have : ¬ f.stop < 0 := by omega
          simp only [this, if_false] at hs
          omega
        have h1 := phiC_drop_succ hc htc
        have h2 := phiC_drop_mono data (show f.start + 1 ≤ f.stop.toNat by omega)
        have h3 := phiC_drop_mono data hf.le
        omega
      | str s =>
        simp only [stashX, stashNode]
        exact ⟨_, _, _, _, rfl, Or.inr (Or.inr ⟨rfl, rfl, phiC_replaced hf.trig hf.stop⟩)⟩
      | el n =>
        simp only
        split
        · next heq =>
          exfalso
          split at heq
          · cases heq
          · next hat =>
            simp only [FoundAcc, hnode] at hacc
            have hreg : nuW [] (region data f) ≤ phiC data := by
              simp only [nuW, idW_nilAcc, Nat.add_zero]
              exact phiC_infix (region_infix data f)
            obtain ⟨t1, t2⟩ := topC_of_W (Nat.le_trans hacc.2.1 hreg)
            have hpos : 1 ≤ phiC data := by
              have : 1 ≤ W [] n := by rw [W, npot_def]; have := ownW_nil_ge n; omega
              omega
            have hk' : phiC data - 1 < T0 := by omega
            obtain ⟨n1, x1, h1⟩ := hiNodeX_ok hhi hk' (n := { n with children := [] }) t1 pi x0
            rw [h1] at heq
            obtain ⟨kids, x2, h2⟩ := hiNodesX_ok hhi hk' pi n.children x1 t2
            simp only [h2] at heq
            cases heq
        · simp only [stashX, stashNode]
          exact ⟨_, _, _, _, rfl, Or.inr (Or.inr ⟨rfl, rfl, phiC_replaced hf.trig hf.stop⟩)⟩

/-- `__handleInline` over a table answers whenever its depth fuel exceeds the weight of the text -/
theorem handleInlineX_total (xc : XCfg) (ht : TableOK xc) (hc : 0 < xc.table.length) :
    ∀ (f : Nat) (data : Str) (pi : Nat) (x : XSt), phiC data < f → (handleInlineX xc f data pi x).isSome = true := by
  intro f
  induction f with
  | zero => intro data pi x h; omega
  | succ f ih =>
    intro data pi x hf
    unfold handleInlineX
    have hhi : HiOKX (fun d p s => handleInlineX xc f d p s) (phiC data) := by
      intro t pi' x' ht'
      exact ih t pi' x' (by omega)
    exact hiLoopX_total (applyPatternX_ok xc ht hhi) _ data pi 0 x (Nat.le_refl _) (potX_lt_loopFuelX hc data pi)

/-- **`__handleInline` over a pattern table always terminates**: the model's `handleInlineTopX` (depth fuel
    `len + count + 4`, loop fuel `count·(len+2)²`) answers for every text and every state -/
theorem handleInlineTopX_total (xc : XCfg) (ht : TableOK xc) (hc : 0 < xc.table.length) (data : Str) (x : XSt) :
    (handleInlineTopX xc data x).isSome = true := by
  unfold handleInlineTopX
  exact handleInlineX_total xc ht hc _ data 0 x (by have := phiC_le_length data; omega)

end MdVerif.InlineN
