/-
Helper lemmas for C07, block-parser stage (`Props/C07Block.lean`).  Core Lean only.
-/
import MdVerif.Model.Block
import MdVerif.Model.Normalize
import MdVerif.Lemmas.Normalize
import MdVerif.Spec.Escape

namespace MdVerif.Escape
open Py Block

/-! ### `escAll` -/

theorem escAll_cons_mem {esc : List Char} {c : Char} (h : c ∈ esc) (r : Str) :
    escAll esc (c :: r) = '\\' :: c :: escAll esc r := by
  simp [escAll, h]

theorem escAll_cons_not_mem {esc : List Char} {c : Char} (h : c ∉ esc) (r : Str) :
    escAll esc (c :: r) = c :: escAll esc r := by
  simp [escAll, h]

/-! ### the invariants hold for `escAll` -/

theorem guardedFrom_escAll (esc : List Char) (t : Str) (b : Bool) : guardedFrom esc b (escAll esc t) = true := by
  induction t generalizing b with
  | nil => rfl
  | cons c r ih =>
    by_cases h : c ∈ esc
    · rw [escAll_cons_mem h]; simp [guardedFrom, ih]
    · rw [escAll_cons_not_mem h]; simp [guardedFrom, ih, h]

theorem startOk_cons_space (esc : List Char) (r : Str) : startOk esc (' ' :: r) = startOk esc r := by
  simp [startOk]

theorem startOk_cons_of_ne (esc : List Char) {c : Char} (h : c ≠ ' ') (r : Str) :
    startOk esc (c :: r) = (c == '\\' || !esc.contains c) := by
  have : (c == ' ') = false := by simpa using h
  simp [startOk, this]

theorem startOk_escAll (esc : List Char) (t : Str) : startOk esc (escAll esc t) = true := by
  induction t with
  | nil => rfl
  | cons c r ih =>
    by_cases h : c ∈ esc
    · rw [escAll_cons_mem h, startOk_cons_of_ne esc (by decide)]; rfl
    · rw [escAll_cons_not_mem h]
      by_cases h2 : c = ' '
      · subst h2; rw [startOk_cons_space]; exact ih
      · rw [startOk_cons_of_ne esc h2]; simp [h]

theorem startsOkNl_escAll (esc : List Char) (hnl : '\n' ∉ esc) (t : Str) :
    startsOkNl esc (escAll esc t) = true := by
  induction t with
  | nil => rfl
  | cons c r ih =>
    by_cases h : c ∈ esc
    · have : c ≠ '\n' := fun e => hnl (e ▸ h)
      rw [escAll_cons_mem h]; simp [startsOkNl, ih, this]
    · rw [escAll_cons_not_mem h]
      simp [startsOkNl, ih, startOk_escAll esc]

theorem lineStartsOk_escAll (esc : List Char) (hnl : '\n' ∉ esc) (t : Str) :
    LineStartsOk esc (escAll esc t) = true := by
  simp [LineStartsOk, startOk_escAll esc, startsOkNl_escAll esc hnl]

/-! ### line starts -/

/-- what is left after dropping at most `lim` leading spaces starts with a space or with the first non-space
    character -/
theorem drop_countPrefix_space (lim : Option Nat) (r : Str) (c : Char) (x : Str)
    (h : r.drop (countPrefix ' ' lim r) = c :: x) (hc : c ≠ ' ') : r.dropWhile (· == ' ') = c :: x := by
  fun_induction countPrefix ' ' lim r with
  | case1 s => simp only [List.drop_zero] at h; subst h; simp [hc]
  | case2 lim _ => simp at h
  | case3 lim s _ ih =>
    simp only [List.drop_succ_cons] at h
    simpa [List.dropWhile_cons] using ih h
  | case4 lim d s _ hd =>
    simp only [List.drop_zero] at h
    obtain ⟨rfl, rfl⟩ := List.cons.inj h
    simp [hc]

/-- a markup character `c` of `esc` is not what a safe line start begins with, after any bounded number of spaces -/
theorem head_after_spaces {esc : List Char} {r : Str} (h : startOk esc r = true) {c : Char}
    (hc : c ∈ esc) (hb : c ≠ '\\') (hs : c ≠ ' ') (lim : Option Nat) :
    (r.drop (countPrefix ' ' lim r)).head? ≠ some c := by
  intro hh
  cases hd : r.drop (countPrefix ' ' lim r) with
  | nil => simp [hd] at hh
  | cons d x =>
    rw [hd] at hh
    simp only [List.head?_cons, Option.some.injEq] at hh
    subst hh
    have := drop_countPrefix_space lim r d x hd hs
    simp [startOk, this, hb, hc] at h

theorem head_of_startOk {esc : List Char} {r : Str} (h : startOk esc r = true) {c : Char}
    (hc : c ∈ esc) (hb : c ≠ '\\') (hs : c ≠ ' ') : r.head? ≠ some c := by
  have := head_after_spaces h hc hb hs (some 0)
  simpa [countPrefix] using this

theorem countPrefix_eq_zero {ch : Char} {r : Str} (h : r.head? ≠ some ch) (lim : Option Nat) :
    countPrefix ch lim r = 0 := by
  cases r with
  | nil => cases lim with
    | none => rfl
    | some n => cases n <;> rfl
  | cons c s =>
    have hc : c ≠ ch := by simpa using h
    cases lim with
    | none => simp [countPrefix, hc]
    | some n => cases n <;> simp [countPrefix, hc]

/-! ### `HashHeaderProcessor` -/

theorem hashAt_eq_none {r : Str} (h : r.head? ≠ some '#') : hashAt r = none := by
  simp [hashAt, countPrefix_eq_zero h, firstDown, firstDownFrom]

theorem hashSearchNl_eq_none {esc : List Char} (hm : '#' ∈ esc) (s : Str) (h : startsOkNl esc s = true) (i : Nat) :
    hashSearchNl i s = none := by
  induction s generalizing i with
  | nil => rfl
  | cons c r ih =>
    simp only [startsOkNl, Bool.and_eq_true, Bool.or_eq_true, bne_iff_ne, ne_eq] at h
    by_cases hc : c = '\n'
    · subst hc
      have h1 : startOk esc r = true := by simpa using h.1
      simp only [hashSearchNl, if_true, hashAt_eq_none (head_of_startOk h1 hm (by decide) (by decide))]
      exact ih h.2 _
    · simp only [hashSearchNl, hc, if_false]; exact ih h.2 _

theorem hashSearch_eq_none {esc : List Char} (hm : '#' ∈ esc) (s : Str) (h : LineStartsOk esc s = true) :
    hashSearch s = none := by
  simp only [LineStartsOk, Bool.and_eq_true] at h
  simp only [hashSearch, hashAt_eq_none (head_of_startOk h.1 hm (by decide) (by decide)),
    hashSearchNl_eq_none hm s h.2]

/-! ### `BlockQuoteProcessor` -/

theorem quoteLine_eq_none {esc : List Char} (hm : '>' ∈ esc) {r : Str} (h : startOk esc r = true) :
    quoteLine r = none := by
  have := head_after_spaces h hm (by decide) (by decide) (some 3)
  unfold quoteLine
  cases hd : r.drop (countPrefix ' ' (some 3) r) with
  | nil => rfl
  | cons c x =>
    have hc : c ≠ '>' := by simpa [hd] using this
    simp [hc]

theorem quoteSearchNl_eq_none {esc : List Char} (hm : '>' ∈ esc) (s : Str) (h : startsOkNl esc s = true) (i : Nat) :
    quoteSearchNl i s = none := by
  induction s generalizing i with
  | nil => rfl
  | cons c r ih =>
    simp only [startsOkNl, Bool.and_eq_true, Bool.or_eq_true, bne_iff_ne, ne_eq] at h
    by_cases hc : c = '\n'
    · subst hc
      have h1 : startOk esc r = true := by simpa using h.1
      simp only [quoteSearchNl, quoteLine_eq_none hm h1]
      simpa using ih h.2 _
    · simp only [quoteSearchNl, hc]; simpa using ih h.2 _

theorem quoteSearch_eq_none {esc : List Char} (hm : '>' ∈ esc) (s : Str) (h : LineStartsOk esc s = true) :
    quoteSearch s = none := by
  simp only [LineStartsOk, Bool.and_eq_true] at h
  simp [quoteSearch, quoteLine_eq_none hm h.1, quoteSearchNl_eq_none hm s h.2]

/-! ### `ReferenceProcessor` -/

theorem refMatchAt_eq_none {esc : List Char} (hm : '[' ∈ esc) (s : Str) (p : Nat)
    (h : startOk esc (s.drop p) = true) : refMatchAt s p = none := by
  have := head_after_spaces h hm (by decide) (by decide) (some 3)
  rw [List.head?_drop, List.getElem?_drop] at this
  simp [refMatchAt, this]

theorem lineStartsFrom_startOk {esc : List Char} (s : Str) (h : startsOkNl esc s = true) (i : Nat) :
    ∀ p ∈ lineStartsFrom i s, ∃ k, p = i + k ∧ startOk esc (s.drop k) = true := by
  induction s generalizing i with
  | nil => intro p hp; simp [lineStartsFrom] at hp
  | cons c r ih =>
    simp only [startsOkNl, Bool.and_eq_true, Bool.or_eq_true, bne_iff_ne, ne_eq] at h
    intro p hp
    by_cases hc : c = '\n'
    · subst hc
      have h1 : startOk esc r = true := by simpa using h.1
      simp only [lineStartsFrom, if_true, List.mem_cons] at hp
      rcases hp with rfl | hp
      · exact ⟨1, rfl, by simpa using h1⟩
      · obtain ⟨k, rfl, hk⟩ := ih h.2 (i + 1) p hp
        exact ⟨k + 1, by omega, by simpa using hk⟩
    · simp only [lineStartsFrom, hc, if_false] at hp
      obtain ⟨k, rfl, hk⟩ := ih h.2 (i + 1) p hp
      exact ⟨k + 1, by omega, by simpa using hk⟩

theorem refSearch_eq_none {esc : List Char} (hm : '[' ∈ esc) (s : Str) (h : LineStartsOk esc s = true) :
    refSearch s = none := by
  simp only [LineStartsOk, Bool.and_eq_true] at h
  unfold refSearch
  rw [List.findSome?_eq_none_iff]
  intro p hp
  have hp' : startOk esc (s.drop p) = true := by
    rcases List.mem_cons.1 hp with rfl | hp
    · simpa using h.1
    · obtain ⟨k, rfl, hk⟩ := lineStartsFrom_startOk s h.2 0 p hp
      simpa using hk
  rw [refMatchAt_eq_none hm s p hp']

/-! ### lines and line starts -/

theorem splitC_ne_nil (ch : Char) (s : Str) : splitC ch s ≠ [] := by
  cases s with
  | nil => simp [splitC]
  | cons c s =>
    unfold splitC
    split
    · simp
    · split <;> simp

theorem splitC_cons (ch c : Char) (s : Str) :
    splitC ch (c :: s) =
      if c = ch then [] :: splitC ch s else (c :: (splitC ch s).headD []) :: (splitC ch s).tail := by
  cases hs : splitC ch s with
  | nil => exact absurd hs (splitC_ne_nil ch s)
  | cons p ps => simp [splitC, hs]

theorem firstLine_cons (c : Char) (s : Str) :
    firstLine (c :: s) = if c = '\n' then [] else c :: firstLine s := by
  by_cases h : c = '\n' <;> simp [firstLine, List.takeWhile_cons, notNl, h]

theorem lines_head (s : Str) : lines s = firstLine s :: (lines s).tail := by
  induction s with
  | nil => rfl
  | cons c s ih =>
    unfold lines at ih ⊢
    rw [splitC_cons, firstLine_cons]
    by_cases h : c = '\n'
    · simp [h]
    · simp only [h, if_false, List.tail_cons]; rw [ih]; rfl

theorem lines_tail_cons (c : Char) (s : Str) :
    (lines (c :: s)).tail = if c = '\n' then lines s else (lines s).tail := by
  unfold lines
  rw [splitC_cons]
  by_cases h : c = '\n' <;> simp [h]

theorem startOk_firstLine {esc : List Char} (r : Str) (h : startOk esc r = true) :
    startOk esc (firstLine r) = true := by
  induction r with
  | nil => rfl
  | cons c r ih =>
    rw [firstLine_cons]
    by_cases h1 : c = '\n'
    · simp [h1, startOk]
    · simp only [h1, if_false]
      by_cases h2 : c = ' '
      · subst h2; rw [startOk_cons_space] at h ⊢; exact ih h
      · rw [startOk_cons_of_ne esc h2] at h ⊢; exact h

theorem startOk_lines_tail {esc : List Char} (s : Str) (h : startsOkNl esc s = true) :
    ∀ l ∈ (lines s).tail, startOk esc l = true := by
  induction s with
  | nil => intro l hl; simp [lines, splitC] at hl
  | cons c r ih =>
    simp only [startsOkNl, Bool.and_eq_true, Bool.or_eq_true, bne_iff_ne, ne_eq] at h
    intro l hl
    rw [lines_tail_cons] at hl
    by_cases hc : c = '\n'
    · subst hc
      have h1 : startOk esc r = true := by simpa using h.1
      simp only [if_true] at hl
      rw [lines_head] at hl
      rcases List.mem_cons.1 hl with rfl | hl
      · exact startOk_firstLine r h1
      · exact ih h.2 l hl
    · simp only [hc, if_false] at hl
      exact ih h.2 l hl

theorem startOk_lines {esc : List Char} (s : Str) (h : LineStartsOk esc s = true) :
    ∀ l ∈ lines s, startOk esc l = true := by
  simp only [LineStartsOk, Bool.and_eq_true] at h
  intro l hl
  rw [lines_head] at hl
  rcases List.mem_cons.1 hl with rfl | hl
  · exact startOk_firstLine s h.1
  · exact startOk_lines_tail s h.2 l hl

/-! ### `HRProcessor` -/

theorem hrLine_eq_false {esc : List Char} (h1 : '-' ∈ esc) (h2 : '_' ∈ esc) (h3 : '*' ∈ esc) {l : Str}
    (h : startOk esc l = true) : hrLine l = false := by
  have a1 := head_after_spaces h h1 (by decide) (by decide) (some 3)
  have a2 := head_after_spaces h h2 (by decide) (by decide) (some 3)
  have a3 := head_after_spaces h h3 (by decide) (by decide) (some 3)
  unfold hrLine
  cases hd : l.drop (countPrefix ' ' (some 3) l) with
  | nil => rfl
  | cons c x =>
    rw [hd] at a1 a2 a3
    simp only [List.head?_cons, ne_eq, Option.some.injEq] at a1 a2 a3
    simp [a1, a2, a3]

theorem hrSearchLines_eq_none (ls : List Str) (h : ∀ l ∈ ls, hrLine l = false) (pos : Nat) :
    hrSearchLines pos ls = none := by
  induction ls generalizing pos with
  | nil => rfl
  | cons l r ih =>
    simp only [hrSearchLines, h l List.mem_cons_self, Bool.false_eq_true, if_false]
    exact ih (fun l hl => h l (List.mem_cons_of_mem _ hl)) _

theorem hrSearch_eq_none {esc : List Char} (h1 : '-' ∈ esc) (h2 : '_' ∈ esc) (h3 : '*' ∈ esc) (s : Str)
    (h : LineStartsOk esc s = true) : hrSearch s = none :=
  hrSearchLines_eq_none _ (fun l hl => hrLine_eq_false h1 h2 h3 (startOk_lines s h l hl)) 0

/-! ### `OListProcessor`, `UListProcessor` -/

theorem guardedFrom_drop_spaces {esc : List Char} (lim : Option Nat) (s : Str)
    (h : guardedFrom esc false s = true) : guardedFrom esc false (s.drop (countPrefix ' ' lim s)) = true := by
  fun_induction countPrefix ' ' lim s with
  | case1 s => simpa using h
  | case2 lim _ => simpa using h
  | case3 lim s _ ih =>
    simp only [List.drop_succ_cons]
    apply ih
    simp only [guardedFrom, Bool.and_eq_true] at h
    exact h.2
  | case4 lim d s _ hd => simpa using h

theorem dot_after_digits {esc : List Char} (hdot : '.' ∈ esc) (s : Str) (h : guardedFrom esc false s = true)
    (hpos : spanLen isDecimal s > 0) : s[spanLen isDecimal s]? ≠ some '.' := by
  induction s with
  | nil => simp [spanLen] at hpos
  | cons c r ih =>
    by_cases hc : isDecimal c = true
    · have hb : (c == '\\') = false := by
        cases hcb : c == '\\' with
        | false => rfl
        | true =>
          have : c = '\\' := by simpa using hcb
          subst this
          exact absurd hc (by decide)
      simp only [guardedFrom, hb, Bool.and_eq_true] at h
      simp only [spanLen, hc, if_true, List.getElem?_cons_succ]
      by_cases hr : spanLen isDecimal r > 0
      · exact ih h.2 hr
      · have h0 : spanLen isDecimal r = 0 := by omega
        rw [h0]
        cases r with
        | nil => simp
        | cons d r' =>
          intro hd
          have : d = '.' := by simpa using hd
          subst this
          have := h.2
          simp [guardedFrom, hdot] at this
    · simp [spanLen, hc] at hpos

theorem olMarker_eq_none {esc : List Char} (hdot : '.' ∈ esc) (s : Str) (h : guardedFrom esc false s = true) :
    olMarker s = none := by
  unfold olMarker
  by_cases hpos : spanLen isDecimal s > 0
  · have := dot_after_digits hdot s h hpos
    simp [this]
  · simp [hpos]

theorem listItemMatch_eq_none {esc : List Char} (h1 : '*' ∈ esc) (h2 : '+' ∈ esc) (h3 : '-' ∈ esc)
    (h4 : '.' ∈ esc) (tab : Nat) (ol ul : Bool) (s : Str)
    (hg : Guarded esc s = true) (hs : startOk esc s = true) : listItemMatch tab ol ul s = none := by
  have a1 := head_after_spaces hs h1 (by decide) (by decide) (some (tab - 1))
  have a2 := head_after_spaces hs h2 (by decide) (by decide) (some (tab - 1))
  have a3 := head_after_spaces hs h3 (by decide) (by decide) (some (tab - 1))
  have ho := olMarker_eq_none h4 _ (guardedFrom_drop_spaces (some (tab - 1)) s hg)
  have hu : ulMarker (s.drop (countPrefix ' ' (some (tab - 1)) s)) = none := by
    cases hd : s.drop (countPrefix ' ' (some (tab - 1)) s) with
    | nil => rfl
    | cons c x =>
      rw [hd] at a1 a2 a3
      simp only [List.head?_cons, ne_eq, Option.some.injEq] at a1 a2 a3
      simp [ulMarker, a1, a2, a3]
  simp only [listItemMatch, ho, hu]
  cases ol <;> cases ul <;> rfl

/-! ### `SetextHeaderProcessor` -/

/-- the test that `setextMatch` makes on the second line: `[=-]+[ ]*` -/
def setextLine2 (l : Str) : Bool :=
  let i := spanLen (fun c => c = '=' || c = '-') l
  i > 0 && (l.drop i).all (· = ' ')

/-- the second line of `s`, if there is one -/
def secondLine (s : Str) : Option Str := (lines s)[1]?

theorem secondLine_cons (c : Char) (s : Str) :
    secondLine (c :: s) = if c = '\n' then some (firstLine s) else secondLine s := by
  unfold secondLine lines
  rw [splitC_cons]
  by_cases h : c = '\n'
  · have := lines_head s
    unfold lines at this
    rw [this]
    simp [h]
  · simp [h]

theorem setextMatch_eq (s : Str) :
    setextMatch s = (match secondLine s with | some l => setextLine2 l | none => false) := by
  induction s with
  | nil => rfl
  | cons c r ih =>
    rw [secondLine_cons]
    by_cases h : c = '\n'
    · subst h
      simp [setextMatch, find, startsWith, setextLine2]
    · have hf : find ['\n'] (c :: r) = (find ['\n'] r).map (· + 1) := by
        simp [find, startsWith, h]
      simp only [h, if_false, ← ih]
      unfold setextMatch
      rw [hf]
      cases find ['\n'] r with
      | none => rfl
      | some k => simp

theorem guardedFrom_firstLine {esc : List Char} (b : Bool) (r : Str) (h : guardedFrom esc b r = true) :
    guardedFrom esc b (firstLine r) = true := by
  induction r generalizing b with
  | nil => rfl
  | cons c r ih =>
    rw [firstLine_cons]
    by_cases h1 : c = '\n'
    · simp [h1, guardedFrom]
    · simp only [guardedFrom, Bool.and_eq_true] at h
      simp only [h1, if_false, guardedFrom, Bool.and_eq_true]
      exact ⟨h.1, ih _ h.2⟩

theorem guardedFrom_secondLine {esc : List Char} (b : Bool) (s : Str) (h : guardedFrom esc b s = true) (l : Str)
    (hl : secondLine s = some l) : guardedFrom esc false l = true := by
  induction s generalizing b with
  | nil => simp [secondLine, lines, splitC] at hl
  | cons c r ih =>
    rw [secondLine_cons] at hl
    simp only [guardedFrom, Bool.and_eq_true] at h
    by_cases h1 : c = '\n'
    · subst h1
      simp only [if_true, Option.some.injEq] at hl
      subst hl
      exact guardedFrom_firstLine _ r h.2
    · simp only [h1, if_false] at hl
      exact ih _ h.2 hl

theorem spanLen_eq_dash {esc : List Char} (hm : '-' ∈ esc) (l : Str) (h : guardedFrom esc false l = true) :
    spanLen (fun c => decide (c = '=') || decide (c = '-')) l = spanLen (· == '=') l := by
  induction l with
  | nil => rfl
  | cons c r ih =>
    simp only [guardedFrom, Bool.and_eq_true] at h
    by_cases h1 : c = '='
    · subst h1
      simp only [spanLen, decide_true, Bool.true_or, if_true, beq_self_eq_true]
      rw [ih h.2]
    · by_cases h2 : c = '-'
      · subst h2
        simp [hm] at h
      · simp [spanLen, h1, h2]

theorem setextLine2_eq {esc : List Char} (hm : '-' ∈ esc) (l : Str) (h : guardedFrom esc false l = true) :
    setextLine2 l = isEqUnderline l := by
  simp only [setextLine2, isEqUnderline, spanLen_eq_dash hm l h]
  congr 2

/-- general form: a guarded text whose second line is not `=+[ ]*` is not a Setext header -/
theorem setextMatch_eq_false {esc : List Char} (hm : '-' ∈ esc) (s : Str) (hg : Guarded esc s = true)
    (h2 : (match secondLine s with | some l => isEqUnderline l | none => false) = false) :
    setextMatch s = false := by
  rw [setextMatch_eq]
  cases hs : secondLine s with
  | none => rfl
  | some l =>
    rw [hs] at h2
    simp only at h2 ⊢
    rw [setextLine2_eq hm l (guardedFrom_secondLine false s hg l hs)]
    exact h2

/-! ### lines of `escAll` -/

theorem firstLine_escAll {esc : List Char} (hnl : '\n' ∉ esc) (t : Str) :
    firstLine (escAll esc t) = escAll esc (firstLine t) := by
  induction t with
  | nil => rfl
  | cons c r ih =>
    by_cases h : c ∈ esc
    · have hc : c ≠ '\n' := fun e => hnl (e ▸ h)
      rw [escAll_cons_mem h, firstLine_cons, firstLine_cons, firstLine_cons]
      simp only [hc, if_false, show ('\\' : Char) ≠ '\n' by decide]
      rw [escAll_cons_mem h, ih]
    · rw [escAll_cons_not_mem h, firstLine_cons, firstLine_cons]
      by_cases hc : c = '\n'
      · simp [hc, escAll]
      · simp only [hc, if_false]; rw [escAll_cons_not_mem h, ih]

theorem lines_tail_escAll {esc : List Char} (hnl : '\n' ∉ esc) (t : Str) :
    (lines (escAll esc t)).tail = ((lines t).tail).map (escAll esc) := by
  induction t with
  | nil => rfl
  | cons c r ih =>
    by_cases h : c ∈ esc
    · have hc : c ≠ '\n' := fun e => hnl (e ▸ h)
      rw [escAll_cons_mem h, lines_tail_cons, lines_tail_cons, lines_tail_cons]
      simp only [hc, if_false, show ('\\' : Char) ≠ '\n' by decide]
      exact ih
    · rw [escAll_cons_not_mem h, lines_tail_cons, lines_tail_cons]
      by_cases hc : c = '\n'
      · simp only [hc, if_true]
        rw [lines_head, lines_head r, ih, firstLine_escAll hnl]; rfl
      · simp only [hc, if_false]; exact ih

theorem lines_escAll {esc : List Char} (hnl : '\n' ∉ esc) (t : Str) :
    lines (escAll esc t) = (lines t).map (escAll esc) := by
  rw [lines_head, lines_head t, lines_tail_escAll hnl, firstLine_escAll hnl]; rfl

theorem escAll_eq_self {esc : List Char} (l : Str) (h : '\\' ∉ escAll esc l) : escAll esc l = l := by
  induction l with
  | nil => rfl
  | cons c r ih =>
    by_cases hc : c ∈ esc
    · rw [escAll_cons_mem hc] at h; simp at h
    · rw [escAll_cons_not_mem hc] at h ⊢
      rw [ih (fun hh => h (List.mem_cons_of_mem _ hh))]

theorem mem_take_spanLen (p : Char → Bool) (l : Str) : ∀ c ∈ l.take (spanLen p l), p c = true := by
  induction l with
  | nil => intro c hc; simp [spanLen] at hc
  | cons d r ih =>
    intro c hc
    by_cases hd : p d = true
    · simp only [spanLen, hd, if_true, List.take_succ_cons, List.mem_cons] at hc
      rcases hc with rfl | hc
      · exact hd
      · exact ih c hc
    · simp [spanLen, hd] at hc

theorem no_backslash_of_isEqUnderline (x : Str) (h : isEqUnderline x = true) : '\\' ∉ x := by
  simp only [isEqUnderline, Bool.and_eq_true, List.all_eq_true] at h
  intro hm
  rw [← List.take_append_drop (spanLen (· == '=') x) x] at hm
  rcases List.mem_append.1 hm with hm | hm
  · exact absurd (mem_take_spanLen _ x _ hm) (by decide)
  · exact absurd (h.2 _ hm) (by decide)

theorem isEqUnderline_escAll {esc : List Char} (l : Str) (h : isEqUnderline l = false) :
    isEqUnderline (escAll esc l) = false := by
  cases hx : isEqUnderline (escAll esc l) with
  | false => rfl
  | true =>
    rw [escAll_eq_self l (no_backslash_of_isEqUnderline _ hx), h] at hx
    exact absurd hx (by decide)

/-! ### splitting the document into blocks -/

/-- no line is empty; `b`: we are at the start of a line -/
def noEmptyLineFrom : Bool → Str → Bool
  | b, [] => !b
  | b, c :: r => if c = '\n' then !b && noEmptyLineFrom true r else noEmptyLineFrom false r

theorem noEmptyLineFrom_eq (b : Bool) (t : Str) :
    noEmptyLineFrom b t =
      ((!b || !(firstLine t).isEmpty) && ((lines t).tail).all (fun l => !l.isEmpty)) := by
  induction t generalizing b with
  | nil => simp [noEmptyLineFrom, firstLine, lines, splitC]
  | cons c r ih =>
    rw [firstLine_cons, lines_tail_cons]
    by_cases hc : c = '\n'
    · simp only [noEmptyLineFrom, hc, if_true, ih true]
      rw [lines_head r]
      simp
    · simp only [noEmptyLineFrom, hc, if_false, ih false]
      simp

theorem lines_all_nonempty (t : Str) : (lines t).all (fun l => !l.isEmpty) = noEmptyLineFrom true t := by
  rw [noEmptyLineFrom_eq, lines_head t]
  simp

theorem noEmptyLineFrom_escAll {esc : List Char} (hnl : '\n' ∉ esc) (b : Bool) (t : Str) :
    noEmptyLineFrom b (escAll esc t) = noEmptyLineFrom b t := by
  induction t generalizing b with
  | nil => rfl
  | cons c r ih =>
    by_cases h : c ∈ esc
    · have hc : c ≠ '\n' := fun e => hnl (e ▸ h)
      rw [escAll_cons_mem h]
      simp [noEmptyLineFrom, hc, ih]
    · rw [escAll_cons_not_mem h]
      by_cases hc : c = '\n' <;> simp [noEmptyLineFrom, hc, ih]

theorem splitAux_step (sep : Str) (c : Char) (s : Str) (h : startsWith (c :: s) sep = false) (p : Str)
    (ps : List Str) (hs : splitAux sep 0 s = p :: ps) : splitAux sep 0 (c :: s) = (c :: p) :: ps := by
  rw [splitAux]; simp [h, hs]

theorem splitAux_blocks (b : Bool) (e : Str) (h : noEmptyLineFrom b e = true) :
    splitAux ['\n', '\n'] 0 (e ++ ['\n', '\n']) = [e, []] := by
  induction e generalizing b with
  | nil => simp [splitAux, startsWith]
  | cons c r ih =>
    by_cases hc : c = '\n'
    · subst hc
      simp only [noEmptyLineFrom, if_true, Bool.and_eq_true] at h
      have ih' := ih true h.2
      cases r with
      | nil => simp [noEmptyLineFrom] at h
      | cons d r' =>
        have hd : d ≠ '\n' := by
          intro e; subst e; simp [noEmptyLineFrom] at h
        simp only [List.cons_append] at ih' ⊢
        exact splitAux_step _ _ _ (by simp [startsWith, hd]) _ _ ih'
    · simp only [noEmptyLineFrom, hc, if_false] at h
      have ih' := ih false h
      simp only [List.cons_append]
      exact splitAux_step _ _ _ (by simp [startsWith, hc]) _ _ ih'

/-! ### the dispatch loop -/

theorem isBlank_of_visible {b : Str} (hv : startsVisible b = true) : isBlank b = false := by
  cases b with
  | nil => simp [startsVisible] at hv
  | cons c r =>
    simp only [startsVisible, Bool.not_eq_true'] at hv
    simp [isBlank, hv]

theorem lstrip_of_visible {b : Str} (hv : startsVisible b = true) : lstrip b = b := by
  cases b with
  | nil => rfl
  | cons c r =>
    simp only [startsVisible, Bool.not_eq_true'] at hv
    simp [lstrip, lstripP, hv]

/-- a block on which every recogniser before `paragraph` fails goes to `ParagraphProcessor` -/
theorem dispatch_paragraph {esc : List Char}
    (m1 : '#' ∈ esc) (m2 : '-' ∈ esc) (m3 : '_' ∈ esc) (m4 : '*' ∈ esc) (m5 : '+' ∈ esc) (m6 : '.' ∈ esc)
    (m7 : '>' ∈ esc) (m8 : '[' ∈ esc)
    (tab : Nat) (htab : tab > 0) (pb : PB) (state : List BState) (refs : Refs) (parent : Node) (b : Str)
    (rest : List Str)
    (hg : Guarded esc b = true) (hl : LineStartsOk esc b = true) (hv : startsVisible b = true)
    (h2 : (match secondLine b with | some l => isEqUnderline l | none => false) = false) :
    dispatch tab pb state refs parent b rest = some (paraP state refs parent b rest) := by
  have hs : startOk esc b = true := by
    simp only [LineStartsOk, Bool.and_eq_true] at hl; exact hl.1
  cases b with
  | nil => simp [startsVisible] at hv
  | cons c r =>
    have hc : isSpace c = false := by simpa [startsVisible] using hv
    have hc1 : c ≠ '\n' := by intro e; subst e; exact absurd hc (by decide)
    have hc2 : c ≠ ' ' := by intro e; subst e; exact absurd hc (by decide)
    obtain ⟨n, rfl⟩ : ∃ n, tab = n + 1 := ⟨tab - 1, by omega⟩
    have e1 : ((c :: r).isEmpty || startsWith (c :: r) ['\n']) = false := by simp [startsWith, hc1]
    have e2 : startsWith (c :: r) (spaces (n + 1)) = false := by
      simp [spaces, List.replicate_succ, startsWith, hc2]
    unfold dispatch
    simp only [e1, e2, Bool.false_eq_true, if_false, Bool.false_and,
      hashSearch_eq_none m1 _ hl, setextMatch_eq_false m2 _ hg h2, hrSearch_eq_none m2 m3 m4 _ hl,
      listItemMatch_eq_none m4 m5 m2 m6 (n + 1) _ _ _ hg hs, Option.isSome_none,
      quoteSearch_eq_none m7 _ hl, refSearch_eq_none m8 _ hl]

theorem paraP_visible (refs : Refs) (parent : Node) (b : Str) (rest : List Str) (hv : startsVisible b = true) :
    paraP [] refs parent b rest = (parent.append (mkText "p" b), refs, rest) := by
  simp [paraP, isBlank_of_visible hv, lstrip_of_visible hv, isstate]

/-- the trailing empty block after a paragraph has no effect -/
theorem dispatch_empty_after_p (tab : Nat) (pb : PB) (state : List BState) (refs : Refs) (parent : Node) (t : Str) :
    dispatch tab pb state refs (parent.append (mkText "p" t)) [] [] =
      some (parent.append (mkText "p" t), refs, []) := by
  have hp : preCode (mkText "p" t) = none := by
    have : (mkText "p" t).isTag "pre" = false := by
      simp only [mkText, Node.isTag, Node.el]; decide
    simp [preCode, this]
  simp [dispatch, emptyP, Node.last?, Node.append, hp]

/-- two blocks: one that becomes a paragraph, and the empty one that `"\n\n"` at the end of the text gives -/
theorem parseBlocks_paragraph (tab f : Nat) (e : Str) (hv : startsVisible e = true)
    (hd : ∀ pb rest, dispatch tab pb [] [] (Node.el "div") e rest = some (paraP [] [] (Node.el "div") e rest)) :
    parseBlocks tab (f + 2) [] [] (Node.el "div") [e, []] =
      some ((Node.el "div").append (mkText "p" e), []) := by
  simp only [parseBlocks, hd, paraP_visible _ _ _ _ hv, dispatch_empty_after_p]

theorem parseDocument_paragraph (tab : Nat) (e : Str) (hv : startsVisible e = true)
    (hne : noEmptyLineFrom true e = true)
    (hd : ∀ pb rest, dispatch tab pb [] [] (Node.el "div") e rest = some (paraP [] [] (Node.el "div") e rest)) :
    parseDocument tab (e ++ ['\n', '\n']) = some ((Node.el "div").append (mkText "p" e), []) := by
  simp only [parseDocument, parseDocumentWith, parseChunk, splitS, splitAux_blocks true e hne, fuelFor]
  have : 2 * (e ++ ['\n', '\n']).length + 10 = (2 * (e ++ ['\n', '\n']).length + 8) + 2 := by omega
  rw [this]
  exact parseBlocks_paragraph tab _ e hv hd

/-! ### normalisation leaves such a text alone -/

/-- every line has a character other than a space; `b`: the current line already has one -/
def inkFrom : Bool → Str → Bool
  | b, [] => b
  | b, c :: r => if c = '\n' then b && inkFrom false r else inkFrom (b || c != ' ') r

theorem inkFrom_eq (b : Bool) (t : Str) :
    inkFrom b t = ((b || (firstLine t).any (· != ' ')) && ((lines t).tail).all (fun l => l.any (· != ' '))) := by
  induction t generalizing b with
  | nil => simp [inkFrom, firstLine, lines, splitC]
  | cons c r ih =>
    rw [firstLine_cons, lines_tail_cons]
    by_cases hc : c = '\n'
    · simp only [inkFrom, hc, if_true, ih false]
      rw [lines_head r]
      simp
    · simp only [inkFrom, hc, if_false, ih]
      simp [Bool.or_assoc]

theorem lines_all_ink (t : Str) : (lines t).all (fun l => l.any (· != ' ')) = inkFrom false t := by
  rw [inkFrom_eq, lines_head t]
  simp

open Normalize in
theorem wsLinesAux_ink (s : Str) :
    (∀ b, inkFrom b s = true → wsLinesAux none (s ++ ['\n', '\n']) = s ++ ['\n', '\n']) ∧
    (∀ n, inkFrom false s = true →
      wsLinesAux (some n) (s ++ ['\n', '\n']) = List.replicate n ' ' ++ (s ++ ['\n', '\n'])) := by
  induction s with
  | nil =>
    refine ⟨fun b _ => by simp [wsLinesAux], fun n h => by simp [inkFrom] at h⟩
  | cons c r ih =>
    refine ⟨fun b h => ?_, fun n h => ?_⟩
    · by_cases hc : c = '\n'
      · subst hc
        simp only [inkFrom, if_true, Bool.and_eq_true] at h
        simp only [List.cons_append, wsLinesAux, if_true]
        rw [ih.2 0 h.2]; simp
      · simp only [inkFrom, hc, if_false] at h
        simp only [List.cons_append, wsLinesAux, hc, if_false]
        rw [ih.1 _ h]
    · by_cases h1 : c = ' '
      · subst h1
        simp only [inkFrom, show (' ' : Char) ≠ '\n' by decide, if_false] at h
        simp only [List.cons_append, wsLinesAux, if_true]
        rw [ih.2 (n + 1) (by simpa using h), List.replicate_succ']
        simp
      · by_cases h2 : c = '\n'
        · subst h2; simp [inkFrom] at h
        · simp only [inkFrom, h2, if_false] at h
          simp only [List.cons_append, wsLinesAux, h1, h2, if_false]
          rw [ih.1 _ h]

/-- `NormalizeWhitespace` only appends `"\n\n"` to a text without STX, ETX, CR, tab and without empty or
    spaces-only lines -/
theorem normalize_plain (tab : Nat) (s : Str) (hp : s.all isPlainChar = true)
    (hl : (lines s).all (fun l => l.any (· != ' ')) = true) :
    Normalize.normalize tab s = s ++ ['\n', '\n'] := by
  have hmem : ∀ c ∈ s, c ≠ Normalize.STX ∧ c ≠ Normalize.ETX ∧ c ≠ '\r' ∧ c ≠ '\t' := by
    intro c hc
    have := List.all_eq_true.1 hp c hc
    simp only [isPlainChar, Bool.and_eq_true, bne_iff_ne, ne_eq] at this
    exact ⟨this.1.1.1.2, this.1.1.2, this.2, this.1.2⟩
  have h1 : Normalize.stripCtl s = s := by
    rw [Normalize.stripCtl_eq_filter, List.filter_eq_self]
    intro c hc
    have := hmem c hc
    simp [Normalize.notCtl, this.1, this.2.1]
  have h2 : Normalize.nlAux false s = s := Normalize.nlAux_id _ (fun c hc => (hmem c hc).2.2.1)
  have h3 : expandtabsAux tab 0 (s ++ ['\n', '\n']) = s ++ ['\n', '\n'] := by
    apply Normalize.expandtabsAux_id
    intro c hc
    rcases List.mem_append.1 hc with hc | hc
    · exact (hmem c hc).2.2.2
    · have : c = '\n' := by simpa using hc
      subst this; decide
  rw [Normalize.normalize_eq, h1, h2, h3]
  rw [lines_all_ink] at hl
  -- the scan starts at a line start (`some 0`) since the repair a0e7e3c of F-C09-1
  simpa using (wsLinesAux_ink s).2 0 hl

/-! ### from the domain of `t` to the facts about `escAll esc t` -/

theorem mem_escAll {esc : List Char} {c : Char} {t : Str} (h : c ∈ escAll esc t) : c = '\\' ∨ c ∈ t := by
  induction t with
  | nil => simp [escAll] at h
  | cons d r ih =>
    by_cases hd : d ∈ esc
    · rw [escAll_cons_mem hd] at h
      simp only [List.mem_cons] at h ⊢
      rcases h with h | h | h
      · exact Or.inl h
      · exact Or.inr (Or.inl h)
      · rcases ih h with h | h
        · exact Or.inl h
        · exact Or.inr (Or.inr h)
    · rw [escAll_cons_not_mem hd] at h
      simp only [List.mem_cons] at h ⊢
      rcases h with h | h
      · exact Or.inr (Or.inl h)
      · rcases ih h with h | h
        · exact Or.inl h
        · exact Or.inr (Or.inr h)

theorem mem_escAll_of_mem {esc : List Char} {c : Char} {t : Str} (h : c ∈ t) : c ∈ escAll esc t := by
  induction t with
  | nil => simp at h
  | cons d r ih =>
    by_cases hd : d ∈ esc
    · rw [escAll_cons_mem hd]
      rcases List.mem_cons.1 h with rfl | h
      · simp
      · simp [ih h]
    · rw [escAll_cons_not_mem hd]
      rcases List.mem_cons.1 h with rfl | h
      · simp
      · simp [ih h]

theorem startsVisible_escAll {esc : List Char} (t : Str) (h : startsVisible t = true) :
    startsVisible (escAll esc t) = true := by
  cases t with
  | nil => simp [startsVisible] at h
  | cons c r =>
    by_cases hc : c ∈ esc
    · rw [escAll_cons_mem hc]
      show (!isSpace '\\') = true
      decide
    · rw [escAll_cons_not_mem hc]; exact h

theorem secondLine_escAll {esc : List Char} (hnl : '\n' ∉ esc) (t : Str) :
    secondLine (escAll esc t) = (secondLine t).map (escAll esc) := by
  simp [secondLine, lines_escAll hnl]

theorem plain_escAll {esc : List Char} (t : Str) (h : t.all isPlainChar = true) :
    (escAll esc t).all isPlainChar = true := by
  rw [List.all_eq_true] at h ⊢
  intro c hc
  rcases mem_escAll hc with rfl | hc
  · decide
  · exact h c hc

theorem ink_escAll {esc : List Char} (hnl : '\n' ∉ esc) (t : Str)
    (h : (lines t).all (fun l => l.any (· != ' ')) = true) :
    (lines (escAll esc t)).all (fun l => l.any (· != ' ')) = true := by
  rw [lines_escAll hnl]
  rw [List.all_eq_true] at h ⊢
  intro l hl
  obtain ⟨l0, hl0, rfl⟩ := List.mem_map.1 hl
  have := h l0 hl0
  rw [List.any_eq_true] at this ⊢
  obtain ⟨d, hd, hd'⟩ := this
  exact ⟨d, mem_escAll_of_mem hd, hd'⟩

/-- the block-stage domain is implied by the source domain -/
theorem blockDomain_of_domain (t : Str) (h : EscDomain t = true) : EscBlockDomain t = true := by
  simp only [EscDomain, Bool.and_eq_true] at h
  obtain ⟨⟨⟨_, hink⟩, hv⟩, heq⟩ := h
  simp only [EscBlockDomain, Bool.and_eq_true, hv, and_true]
  constructor
  · rw [List.all_eq_true] at hink ⊢
    intro l hl
    have := hink l hl
    cases l with
    | nil => simp at this
    | cons => rfl
  · cases hs : (lines t)[1]? with
    | none => rfl
    | some l =>
      have := List.all_eq_true.1 heq l (List.mem_of_getElem? hs)
      simpa using this

/-- all the facts about `e = escAll esc t` that the block stage uses -/
theorem facts_of_blockDomain {esc : List Char} (hnl : '\n' ∉ esc) (t : Str) (h : EscBlockDomain t = true) :
    Guarded esc (escAll esc t) = true ∧ LineStartsOk esc (escAll esc t) = true ∧
    startsVisible (escAll esc t) = true ∧ noEmptyLineFrom true (escAll esc t) = true ∧
    (match secondLine (escAll esc t) with | some l => isEqUnderline l | none => false) = false := by
  simp only [EscBlockDomain, Bool.and_eq_true] at h
  obtain ⟨⟨hne, hv⟩, h2⟩ := h
  refine ⟨guardedFrom_escAll esc t false, lineStartsOk_escAll esc hnl t, startsVisible_escAll t hv, ?_, ?_⟩
  · rw [noEmptyLineFrom_escAll hnl, ← lines_all_nonempty]; exact hne
  · rw [secondLine_escAll hnl]
    cases hs : secondLine t with
    | none => rfl
    | some l =>
      unfold secondLine at hs
      rw [hs] at h2
      simp only [Option.map_some]
      exact isEqUnderline_escAll l (by simpa using h2)

theorem block_single_paragraph {esc : List Char} (hnl : '\n' ∉ esc)
    (m1 : '#' ∈ esc) (m2 : '-' ∈ esc) (m3 : '_' ∈ esc) (m4 : '*' ∈ esc) (m5 : '+' ∈ esc) (m6 : '.' ∈ esc)
    (m7 : '>' ∈ esc) (m8 : '[' ∈ esc) (tab : Nat) (htab : tab > 0) (t : Str) (h : EscBlockDomain t = true) :
    parseDocument tab (escAll esc t ++ ['\n', '\n']) =
      some ((Node.el "div").append (mkText "p" (escAll esc t)), []) := by
  obtain ⟨hg, hl, hv, hne, h2⟩ := facts_of_blockDomain hnl t h
  exact parseDocument_paragraph tab _ hv hne
    (fun pb rest => dispatch_paragraph m1 m2 m3 m4 m5 m6 m7 m8 tab htab pb [] [] _ _ rest hg hl hv h2)

end MdVerif.Escape
