/-
Helper lemmas for C02 (extended block parser), part 2: every extension processor of `Model/BlockExt.lean` /
`BlockExtT.lean` makes progress — it answers, leaves a block list of smaller measure, and calls the recursive callback
only on block lists of measure `≤ len b` (`defindent`, like `indent`: `≤ len b + 1`, in state `detabbed`).
Core Lean only.
-/
import MdVerif.Lemmas.BlockExtFuel

namespace MdVerif.BlockExt.Fuel
open Py Block

/-! ### admonition -/

theorem admAt_some {s : Str} {g1 : Str} {g2 : Option Str} {n : Nat} (h : admAt s = some (g1, g2, n)) :
    s ≠ [] ∧ 3 ≤ n := by
  simp only [admAt] at h
  split at h
  · next hs =>
    refine ⟨by rintro rfl; simp at hs, ?_⟩
    repeat' (split at h)
    all_goals first | (simp only [Option.some.injEq, Prod.mk.injEq] at h; omega) | cases h
  · cases h

theorem admSearch_some {b : Str} {st en : Nat} {g1 : Str} {g2 : Option Str}
    (h : admSearch b = some (st, en, g1, g2)) : st < b.length ∧ st + 3 ≤ en := by
  simp only [admSearch] at h
  split at h
  · next st' o g1' g2' n hn =>
    simp only [Option.some.injEq, Prod.mk.injEq] at h
    obtain ⟨rfl, rfl, rfl, rfl⟩ := h
    obtain ⟨h1, h2⟩ := nlSearch_some admAt hn
    obtain ⟨h3, h4⟩ := admAt_some h2
    have : (b.drop (st' + o)).length ≠ 0 := by
      intro h0; exact h3 (List.length_eq_zero_iff.1 h0)
    simp only [List.length_drop] at this
    omega
  · cases h

/-- what the sibling search of `parse_content` returns: the block shortened by `j` characters, the indent raised by
    `j`, and the block starts with `j` spaces more than the shortened block -/
def SibInv (block : Str) (indent : Nat) (r : Nat × Str × Nat) : Prop :=
  ∃ j, r.2.2 = indent + j ∧ r.2.1 = block.drop j ∧ ∀ m, spaces m <+: r.2.1 → spaces (j + m) <+: block

theorem sibInv_refl (block : Str) (indent k : Nat) : SibInv block indent (k, block, indent) :=
  ⟨0, rfl, rfl, fun m h => by simpa using h⟩

theorem sibInv_step {tab : Nat} {block : Str} {indent : Nat} {r : Nat × Str × Nat}
    (hs : startsWith block (spaces (tab * 2)) = true) (h : SibInv (block.drop tab) (indent + tab) r) :
    SibInv block indent r := by
  obtain ⟨j, h1, h2, h3⟩ := h
  have hp : spaces tab <+: block := by
    have := startsWith_iff_isPrefix.1 hs
    have e : spaces (tab * 2) = spaces tab ++ spaces tab := by
      simp only [spaces, List.replicate_append_replicate]; congr 1; omega
    rw [e] at this
    exact List.IsPrefix.trans (List.prefix_append _ _) this
  have hb : block = spaces tab ++ block.drop tab := by
    have := startsWith_drop (startsWith_iff_isPrefix.2 hp)
    rwa [length_spaces] at this
  refine ⟨tab + j, by omega, by rw [h2, List.drop_drop], fun m hm => ?_⟩
  have e : spaces (tab + j + m) = spaces tab ++ spaces (j + m) := by
    simp only [spaces, List.replicate_append_replicate]; congr 1; omega
  rw [e, hb]
  exact (List.prefix_append_right_inj _).2 (h3 m hm)

theorem sibInv_k {block : Str} {indent k : Nat} {bl : Str} {ind : Nat} (k' : Nat) (h : SibInv block indent (k, bl, ind)) :
    SibInv block indent (k', bl, ind) := h

mutual
theorem admSibNode_inv (tab : Nat) : ∀ (n : Node) (block : Str) (indent : Nat) (r : Nat × Str × Nat),
    admSibNode tab block indent n = some r → SibInv block indent r
  | ⟨_, _, _, _, children, _, _⟩, block, indent, r => by
    simp only [admSibNode]
    exact admSibKids_inv tab children block indent r
theorem admSibKids_inv (tab : Nat) : ∀ (l : List Node) (block : Str) (indent : Nat) (r : Nat × Str × Nat),
    admSibKids tab block indent l = some r → SibInv block indent r
  | [], block, indent, r => by
    simp only [admSibKids, Option.some.injEq]
    rintro rfl; exact sibInv_refl _ _ _
  | [c], block, indent, r => by
    simp only [admSibKids]
    split
    · next hc =>
      simp only [Bool.and_eq_true] at hc
      intro h
      exact sibInv_step hc.1 (admLstNode_inv tab c _ _ r h)
    · simp only [Option.some.injEq]
      rintro rfl; exact sibInv_refl _ _ _
  | c :: d :: l, block, indent, r => by
    simp only [admSibKids]
    exact admSibKids_inv tab (d :: l) block indent r
theorem admLstNode_inv (tab : Nat) : ∀ (n : Node) (block : Str) (indent : Nat) (r : Nat × Str × Nat),
    admLstNode tab block indent n = some r → SibInv block indent r
  | ⟨_, _, _, _, children, _, _⟩, block, indent, r => by
    simp only [admLstNode]
    exact admLstKids_inv tab children block indent r
theorem admLstKids_inv (tab : Nat) : ∀ (l : List Node) (block : Str) (indent : Nat) (r : Nat × Str × Nat),
    admLstKids tab block indent l = some r → SibInv block indent r
  | [], block, indent, r => by simp [admLstKids]
  | [c], block, indent, r => by
    simp only [admLstKids]
    split
    · next k bl ind hs =>
      simp only [Option.some.injEq]
      rintro rfl
      exact sibInv_k _ (admSibNode_inv tab c block indent _ hs)
    · intro h; cases h
  | c :: d :: l, block, indent, r => by
    simp only [admLstKids]
    exact admLstKids_inv tab (d :: l) block indent r
end

/-- the sibling found by `parse_content`: the block starts with `indent` spaces, and `indent ≥ tab` -/
theorem admContent_some {tab : Nat} {parent : Node} {b : Str} {k ind : Nat}
    (h : admContent tab parent b = some (k, ind)) : startsWith b (spaces ind) = true ∧ tab ≤ ind := by
  simp only [admContent] at h
  split at h
  · cases h
  · next sib _ =>
    split at h
    · split at h
      · next k' bl ind' hs =>
        split at h
        · next hsw =>
          simp only [Option.some.injEq, Prod.mk.injEq] at h
          obtain ⟨-, rfl⟩ := h
          obtain ⟨j, h1, h2, h3⟩ := admSibNode_inv tab sib b 0 _ hs
          simp only at h1 h2 h3
          have := h3 tab (startsWith_iff_isPrefix.1 hsw)
          have e : ind' = j := by omega
          subst e
          exact ⟨startsWith_iff_isPrefix.2 this, by omega⟩
        · cases h
      · cases h
    · cases h

theorem consIf_measure (theRest : Str) (rest : List Str) (b : Str) (h : theRest.length + 1 ≤ b.length) :
    mu (if theRest.isEmpty then rest else theRest :: rest) ≤ mu rest + b.length := by
  split
  · omega
  · simp; omega

theorem chunk_ne_none {pb : PB} {n : Nat} (hS : Small pb n) {st : List BState} {refs : Refs} {node : Node} {text : Str}
    (hlen : text.length + 1 ≤ n) (h : parseChunk pb st refs node text = none) : False := by
  have := parseChunk_small hS st refs node text hlen
  rw [h] at this; cases this

theorem call_ne_none {pb : PB} {n : Nat} (hS : Small pb n) {st : List BState} {refs : Refs} {node : Node} {bl : List Str}
    (hlen : mu bl ≤ n) (h : pb st refs node bl = none) : False := by
  have := hS st refs node bl hlen
  rw [h] at this; cases this

theorem admonitionP_measure (tab : Nat) (htab : 0 < tab) (pb : PB) (state : List BState) (refs : Refs) (parent : Node)
    (b : Str) (rest : List Str) (hit : AdmHit) (ht : admTest tab parent b = some hit) (hS : Small pb b.length) :
    Progress (admonitionP tab pb state refs parent b rest hit) b rest := by
  cases hit with
  | re st en g1 g2 =>
    have hm : admSearch b = some (st, en, g1, g2) := by
      simp only [admTest] at ht
      split at ht
      · next st' en' g1' g2' hs =>
        simp only [Option.some.injEq, AdmHit.re.injEq] at ht
        obtain ⟨rfl, rfl, rfl, rfl⟩ := ht
        exact hs
      · split at ht <;> cases ht
    obtain ⟨h1, h2⟩ := admSearch_some hm
    have hcall : ∃ r, (if st > 0 then pb state refs parent [b.take st] else some (parent, refs)) = some r := by
      split
      · exact Option.isSome_iff_exists.1 (hS _ _ _ _ (by simp; omega))
      · exact ⟨_, rfl⟩
    obtain ⟨⟨p', rf'⟩, hr⟩ := hcall
    have hd := detab_length tab (b.drop en)
    simp only [List.length_drop] at hd
    simp only [admonitionP, hr]
    generalize detab tab (b.drop en) = d at hd
    obtain ⟨block, theRest⟩ := d
    generalize admClassTitle g1 g2 = ct
    obtain ⟨klass, title⟩ := ct
    simp only at hd ⊢
    split
    · exact ⟨_, _, _, rfl, consIf_measure _ _ _ (by omega)⟩
    · next hnone => exact (chunk_ne_none hS (by omega) hnone).elim
  | sib steps indent =>
    have hm : admContent tab parent b = some (steps, indent) := by
      simp only [admTest] at ht
      split at ht
      · cases ht
      · split at ht
        · next k ind hs =>
          simp only [Option.some.injEq, AdmHit.sib.injEq] at ht
          obtain ⟨rfl, rfl⟩ := ht
          exact hs
        · cases ht
    obtain ⟨h1, h2⟩ := admContent_some hm
    have hd := detab_length_strict indent b h1
    simp only [admonitionP]
    generalize detab indent b = d at hd
    obtain ⟨block, theRest⟩ := d
    simp only at hd ⊢
    split
    · exact ⟨_, _, _, rfl, consIf_measure _ _ _ (by omega)⟩
    · next hnone => exact (chunk_ne_none hS (by omega) hnone).elim

/-! ### `defindent`: `ListIndentProcessor` with other tag lists -/

theorem indentPX_measure (isL isI : Node → Bool) (itemTag : String) (tab : Nat) (pb : PB) (state : List BState)
    (refs : Refs) (parent : Node) (b : Str) (rest : List Str) (hD : SmallD pb state (b.length + 1)) :
    Progress (indentPX isL isI itemTag tab pb state refs parent b rest) b rest := by
  unfold indentPX
  generalize getLevelX isL isI tab state parent b = ls
  obtain ⟨level, steps⟩ := ls
  have hlen := looseDetab_length tab b level
  have hone : ∀ rf par, ∃ r, pb (state ++ [.detabbed]) rf par [looseDetab tab b level] = some r :=
    fun rf par => Option.isSome_iff_exists.1 (hD rf par _ (by simp; omega))
  have hchunk : ∀ rf par, ∃ r, parseChunk pb (state ++ [.detabbed]) rf par (looseDetab tab b level) = some r :=
    fun rf par => Option.isSome_iff_exists.1
      (hD rf par _ (by have := mu_splitS ['\n', '\n'] (looseDetab tab b level); omega))
  simp only []
  split
  · split
    · next c _ =>
      obtain ⟨⟨p2, rf2⟩, hr2⟩ := hone refs c
      simp only [hr2]; exact ⟨_, _, _, rfl, by omega⟩
    · obtain ⟨⟨p2, rf2⟩, hr2⟩ := hone refs parent
      simp only [hr2]; exact ⟨_, _, _, rfl, by omega⟩
  · split
    · obtain ⟨⟨p2, rf2⟩, hr2⟩ := hone refs (nodeAt steps parent)
      simp only [hr2]; exact ⟨_, _, _, rfl, by omega⟩
    · split
      · next li _ =>
        obtain ⟨⟨p2, rf2⟩, hr2⟩ := hchunk refs (textToP li)
        simp only [hr2]; exact ⟨_, _, _, rfl, by omega⟩
      · obtain ⟨⟨p2, rf2⟩, hr2⟩ := hone refs (Node.el itemTag)
        simp only [hr2]; exact ⟨_, _, _, rfl, by omega⟩

/-! ### the `Sane…` list processors -/

theorem mu_getItemsStepX (p : ListParams) (tab : Nat) (items : List Str) (line : Str) :
    mu (getItemsStepX p tab items line) ≤ mu items + (line.length + 1) := by
  simp only [getItemsStepX]
  split
  · next m content hm =>
    have := listItemMatch_content hm
    rw [mu_append]; simp; omega
  · split
    · split
      · split
        · have := mu_modifyLast ('\n' :: line) items; simp at this ⊢; omega
        · rw [mu_append]; simp
      · rw [mu_append]; simp
    · have := mu_modifyLast ('\n' :: line) items; simp at this ⊢; omega

theorem mu_foldl_getItemsStepX (p : ListParams) (tab : Nat) (ls : List Str) (items : List Str) :
    mu (ls.foldl (getItemsStepX p tab) items) ≤ mu items + mu ls := by
  induction ls generalizing items with
  | nil => simp
  | cons l t ih =>
    simp only [List.foldl_cons]
    have := ih (getItemsStepX p tab items l)
    have := mu_getItemsStepX p tab items l
    simp; omega

/-- the items of a list block together are shorter than the block -/
theorem mu_getItemsX (p : ListParams) {tab : Nat} {ol ul : Bool} {b : Str} (h : (listItemMatch tab ol ul b).isSome) :
    mu (getItemsX p tab b) ≤ b.length := by
  obtain ⟨t, ht⟩ := splitC_head b
  have hmu := mu_lines b
  rw [ht] at hmu
  simp only [getItemsX, ht, List.foldl_cons]
  have hstep : mu (getItemsStepX p tab [] (b.takeWhile notNl)) ≤ (b.takeWhile notNl).length := by
    simp only [getItemsStepX, indentItemMatch_firstLine h]
    split
    · next m content hm => have := listItemMatch_content hm; simp; omega
    · simp [modifyLast]
  have := mu_foldl_getItemsStepX p tab t (getItemsStepX p tab [] (b.takeWhile notNl))
  simp at hmu
  omega

theorem listItems_ne_none {tab : Nat} {pb : PB} {st2 : List BState} {n : Nat} (hS : Small pb n)
    {items : List Str} {refs : Refs} {lst : Node} (hi : ∀ item ∈ items, mu [item] ≤ n)
    (h : listItems tab pb st2 refs lst items = none) : False := by
  have := listItems_small tab pb st2 n hS items hi refs lst
  rw [h] at this; cases this

theorem listPX_measure (p : ListParams) (tab : Nat) (pb : PB) (state : List BState) (refs : Refs) (parent : Node)
    (b : Str) (rest : List Str) (tag : String) (ol ul : Bool) (hb : b ≠ []) (hm : (listItemMatch tab ol ul b).isSome)
    (hS : Small pb b.length) : Progress (listPX p tab pb state refs parent b rest tag) b rest := by
  have hpos : 0 < b.length := List.length_pos_iff.2 hb
  have hmu := mu_getItemsX p hm
  have hitems : ∀ item ∈ getItemsX p tab b, mu [item] ≤ b.length := fun item hi => by
    have := mem_length_lt_mu hi; simp; omega
  have hdrop : ∀ item ∈ (getItemsX p tab b).drop 1, mu [item] ≤ b.length :=
    fun item hi => hitems item (List.mem_of_mem_drop hi)
  have hhead : mu [(getItemsX p tab b).headD []] ≤ b.length := by
    cases hx : getItemsX p tab b with
    | nil => simp; omega
    | cons a r => exact hitems a (by simp [hx])
  simp only [listPX]
  split
  · split
    · next hnone => exact (call_ne_none hS hhead hnone).elim
    · split
      · exact ⟨_, _, _, rfl, by omega⟩
      · next hnone => exact (listItems_ne_none hS hdrop hnone).elim
  · split
    · split
      · exact ⟨_, _, _, rfl, by omega⟩
      · next hnone => exact (listItems_ne_none hS hitems hnone).elim
    · split
      · exact ⟨_, _, _, rfl, by omega⟩
      · next hnone => exact (listItems_ne_none hS hitems hnone).elim

/-! ### definition lists -/

theorem defAt_some {s g : Str} {n : Nat} (h : defAt s = some (g, n)) : g.length + 2 ≤ n ∧ n ≤ s.length := by
  simp only [defAt] at h
  have hk := countPrefix_le_length ' ' (some 3) s
  split at h
  · next c r hd =>
    have hlen : (s.drop (countPrefix ' ' (some 3) s)).length = r.length + 1 := by rw [hd]; simp
    simp only [List.length_drop] at hlen
    split at h
    · split at h
      · cases h
      · simp only [Option.some.injEq, Prod.mk.injEq] at h
        obtain ⟨rfl, rfl⟩ := h
        have hsp := countPrefix_le_length ' ' (some 3) r
        have hg := length_takeWhile_le' notNl (r.drop (countPrefix ' ' (some 3) r))
        simp only [List.length_drop] at hg
        constructor
        · omega
        · split
          · next hnl =>
            have := startsWith_length_le hnl
            simp only [List.length_drop, List.length_cons, List.length_nil] at this
            omega
          · omega
    · cases h
  · cases h

theorem defSearch_some {b g : Str} {st en : Nat} (h : defSearch b = some (st, en, g)) :
    st + g.length + 2 ≤ en ∧ en ≤ b.length := by
  simp only [defSearch] at h
  split at h
  · next st' o g' n hn =>
    simp only [Option.some.injEq, Prod.mk.injEq] at h
    obtain ⟨rfl, rfl, rfl⟩ := h
    obtain ⟨h1, h2⟩ := nlSearch_some defAt hn
    obtain ⟨h3, h4⟩ := defAt_some h2
    simp only [List.length_drop] at h4
    omega
  · cases h

theorem defListP_measure (tab : Nat) (pb : PB) (state : List BState) (refs : Refs) (parent : Node) (b : Str)
    (rest : List Str) (m : Nat × Nat × Str) (hm : defSearch b = some m) (hS : Small pb b.length)
    (r : Option (Node × Refs × List Str)) (h : defListP tab pb state refs parent b rest m = some r) :
    Progress r b rest := by
  obtain ⟨st, en, g2⟩ := m
  obtain ⟨h1, h2⟩ := defSearch_some hm
  have hdt : ((if defNoIndent (b.drop en) = true then (b.drop en, ([] : Str)) else detab tab (b.drop en)).1.length
      + (if defNoIndent (b.drop en) = true then (b.drop en, ([] : Str)) else detab tab (b.drop en)).2.length) + en
      ≤ b.length := by
    split
    · simp; omega
    · have := detab_length tab (b.drop en); simp only [List.length_drop] at this; omega
  simp only [defListP] at h
  generalize (if defNoIndent (b.drop en) = true then (b.drop en, ([] : Str)) else detab tab (b.drop en)) = dt at h hdt
  obtain ⟨d, theRest⟩ := dt
  simp only at h hdt
  have hd' : mu [if d.isEmpty = true then g2 else g2 ++ '\n' :: d] ≤ b.length := by
    split <;> simp <;> omega
  generalize (if d.isEmpty = true then g2 else g2 ++ '\n' :: d) = d' at h hd'
  have hrest : mu (if theRest.isEmpty = true then rest else theRest :: rest) ≤ mu rest + b.length :=
    consIf_measure _ _ _ (by omega)
  split at h
  · split at h
    · cases h
    · simp only [Option.some.injEq] at h
      subst h
      split
      · exact ⟨_, _, _, rfl, hrest⟩
      · next hnone => exact (call_ne_none hS hd' hnone).elim
  · simp only [Option.some.injEq] at h
    subst h
    split
    · split
      · exact ⟨_, _, _, rfl, hrest⟩
      · next hnone => exact (call_ne_none hS hd' hnone).elim
    · split
      · exact ⟨_, _, _, rfl, hrest⟩
      · next hnone => exact (call_ne_none hS hd' hnone).elim

/-! ### footnote definitions -/

theorem fnAt_some {s id g : Str} {n : Nat} (h : fnAt s = some (id, g, n)) : s ≠ [] ∧ 4 ≤ n := by
  simp only [fnAt] at h
  split at h
  · next hs =>
    split at h
    · simp only [Option.some.injEq, Prod.mk.injEq] at h
      refine ⟨?_, by omega⟩
      rintro rfl
      simp at hs
    · cases h
  · cases h

theorem fnSearch_some {s id g : Str} {st n : Nat} (h : fnSearch s = some (st, id, g, n)) :
    st < s.length ∧ 4 ≤ n := by
  obtain ⟨h1, h2⟩ := lineSearch_some fnAt h
  obtain ⟨h3, h4⟩ := fnAt_some h2
  have : (s.drop st).length ≠ 0 := fun h0 => h3 (List.length_eq_zero_iff.1 h0)
  simp only [List.length_drop] at this
  exact ⟨by omega, h4⟩

theorem mu_detectTabbed (bl : List Str) : mu (detectTabbed bl).2 ≤ mu bl := by
  induction bl with
  | nil => simp [detectTabbed]
  | cons b r ih =>
    simp only [detectTabbed]
    split
    · split
      · simp
      · simp; omega
    · simp

theorem footnoteP_measure (refs : Refs) (b : Str) (rest : List Str) (refs' : Refs) (rest' : List Str)
    (h : footnoteP refs b rest = some (refs', rest')) : mu rest' ≤ mu rest + b.length := by
  simp only [footnoteP] at h
  split at h
  · cases h
  · next st id g2 n hfs =>
    obtain ⟨h1, h2⟩ := fnSearch_some hfs
    have ht := length_lstripC_le '\n' (b.drop (st + n))
    simp only [List.length_drop] at ht
    have hpre := length_rstripC_le '\n' (b.take st)
    simp only [List.length_take] at hpre
    split at h
    · next st2 x hfs2 =>
      obtain ⟨id2, g3, n2⟩ := x
      have h3 := (fnSearch_some hfs2).1
      simp only [Option.some.injEq, Prod.mk.injEq] at h
      obtain ⟨-, rfl⟩ := h
      split
      · simp; omega
      · simp; omega
    · have := mu_detectTabbed rest
      simp only [Option.some.injEq, Prod.mk.injEq] at h
      obtain ⟨-, rfl⟩ := h
      split
      · omega
      · simp; omega

/-! ### abbreviation definitions -/

theorem abbrAt_some {s a t : Str} {n : Nat} (h : abbrAt s = some (a, t, n)) : s ≠ [] ∧ 4 ≤ n := by
  simp only [abbrAt] at h
  split at h
  · next hs =>
    split at h
    · cases h
    · simp only [Option.some.injEq, Prod.mk.injEq] at h
      refine ⟨?_, by omega⟩
      rintro rfl
      simp at hs
  · cases h

theorem abbrSearch_some {s a t : Str} {st n : Nat} (h : abbrSearch s = some (st, a, t, n)) :
    st < s.length ∧ 4 ≤ n := by
  obtain ⟨h1, h2⟩ := lineSearch_some abbrAt h
  obtain ⟨h3, h4⟩ := abbrAt_some h2
  have : (s.drop st).length ≠ 0 := fun h0 => h3 (List.length_eq_zero_iff.1 h0)
  simp only [List.length_drop] at this
  exact ⟨by omega, h4⟩

/-- `AbbrBlockprocessor.run` never raises (after the repair of F-C02-4) -/
theorem abbrP_ne_raised (refs : Refs) (b : Str) (rest : List Str) : abbrP refs b rest ≠ .raised := by
  simp only [abbrP]
  split
  · simp
  · split
    · simp
    · split
      · split <;> simp
      · simp

theorem abbrP_measure (refs : Refs) (b : Str) (rest : List Str) (refs' : Refs) (rest' : List Str)
    (h : abbrP refs b rest = .ok (refs', rest')) : mu rest' ≤ mu rest + b.length := by
  simp only [abbrP] at h
  split at h
  · cases h
  · next st abbr0 title0 n hs =>
    obtain ⟨h1, h2⟩ := abbrSearch_some hs
    have hpre := length_rstripC_le '\n' (b.take st)
    simp only [List.length_take] at hpre
    have hpost := length_lstripC_le '\n' (b.drop (st + n))
    simp only [List.length_drop] at hpost
    have key : mu (if isBlank (b.take st) = true then
          (if isBlank (b.drop (st + n)) = true then rest else lstripC '\n' (b.drop (st + n)) :: rest)
        else rstripC '\n' (b.take st) ::
          (if isBlank (b.drop (st + n)) = true then rest else lstripC '\n' (b.drop (st + n)) :: rest))
        ≤ mu rest + b.length := by
      by_cases hbl : isBlank (b.drop (st + n)) = true
      · simp only [hbl, if_true]
        split
        · omega
        · simp; omega
      · have hlt : st + n < b.length := by
          apply Nat.lt_of_not_le
          intro hle
          rw [List.drop_of_length_le hle] at hbl
          exact hbl Block.isBlank_nil
        simp only [hbl]
        split
        · simp; omega
        · simp; omega
    split at h
    · cases h
    · split at h
      · split at h
        · simp only [Res.ok.injEq, Prod.mk.injEq] at h
          obtain ⟨-, rfl⟩ := h
          exact key
        · simp only [Res.ok.injEq, Prod.mk.injEq] at h
          obtain ⟨-, rfl⟩ := h
          exact key
      · simp only [Res.ok.injEq, Prod.mk.injEq] at h
        obtain ⟨-, rfl⟩ := h
        exact key

/-! ### tables -/

theorem tableP_measure (refs : Refs) (parent : Node) (b : Str) (rest : List Str) (bs : Nat × List Str) :
    Progress (some (tableP refs parent b rest bs)) b rest :=
  ⟨_, _, _, rfl, by omega⟩

end MdVerif.BlockExt.Fuel
