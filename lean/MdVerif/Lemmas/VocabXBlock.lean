/-
Lemmas for C05 on the extension model (`PipelineX.treeX`), part 2: the extended block parser with the table
processor (`BlockExt.parseBlocksXT`) keeps every element inside a vocabulary given as a predicate `qt` on
(tag, attributes), provided `qt` accepts the elements the enabled processors create WITH THE ATTRIBUTES THEY SET
(`TagsA`, `TablesA`).

The processor lemmas are those of `Lemmas/BlockExtProc.lean` (non-interference proofs of C16), re-proved under the
weaker hypothesis `TagsA` — there `TagsOk` asks `qt` to accept every attribute list on the tags it names, which a
vocabulary of attribute names cannot satisfy.  The level of a heading is bounded (`hashSearch_level`), the `start`
attribute belongs to `sane_lists`, `class` to the admonition `div` and its title, `style` to the table cells.

Core Lean only.
-/
import MdVerif.Lemmas.BlockExtProc
import MdVerif.Lemmas.BlockVocab
import MdVerif.Model.BlockExtT

namespace MdVerif.VocabX
open Py Block BlockExt

/-- the elements that the processors enabled by `cfg` create, with their attributes, satisfy `qt` -/
structure TagsA (qt : Tag → List (Str × Str) → Bool) (cfg : BlockExt.XCfg) : Prop where
  p : qt (.name "p".toList) [] = true
  pre : qt (.name "pre".toList) [] = true
  code : qt (.name "code".toList) [] = true
  hr : qt (.name "hr".toList) [] = true
  ol : qt (.name "ol".toList) [] = true
  ul : qt (.name "ul".toList) [] = true
  li : qt (.name "li".toList) [] = true
  blockquote : qt (.name "blockquote".toList) [] = true
  h : ∀ lv, 1 ≤ lv ∧ lv ≤ 6 → qt (hTag lv).tag [] = true
  olStart : cfg.saneLists = true → ∀ s, qt (.name "ol".toList) [("start".toList, s)] = true
  div : cfg.admonition = true → ∀ v, qt (.name "div".toList) [(strClass, v)] = true
  ptitle : cfg.admonition = true → qt (.name "p".toList) [(strClass, "admonition-title".toList)] = true
  dl : cfg.defList = true → qt (.name "dl".toList) [] = true
  dt : cfg.defList = true → qt (.name "dt".toList) [] = true
  dd : cfg.defList = true → qt (.name "dd".toList) [] = true

variable {Ok : Str → Prop} {qt : Tag → List (Str × Str) → Bool}
variable {cfg : BlockExt.XCfg} {pb1 pb2 : PB} {tab : Nat} {state : List BState} {refs : Refs} {parent : Node} {b : Str}
  {rest : List Str}

theorem hashP_vx (hc : Closed Ok) (ht : TagsA qt cfg) (hg : Good Ok qt pb1 pb2) (hb : Ok b)
    (hr : AllOk Ok rest) (hp : NI qt parent) (m : Nat × Nat × Nat × Str) (hlv : 1 ≤ m.2.2.1 ∧ m.2.2.1 ≤ 6) :
    Concl Ok qt (hashP tab pb1 state refs parent b rest m) (hashP tab pb2 state refs parent b rest m) := by
  obtain ⟨st, en, lv, header⟩ := m
  have hrest : AllOk Ok (if (b.drop en).isEmpty = true then rest
      else (if isstate state .looselist = true then looseDetab tab (b.drop en) 1 else b.drop en) :: rest) := by
    apply AllOk.consIf _ _ hr
    split
    · exact ok_looseDetab hc _ _ (ok_drop hc en hb)
    · exact ok_drop hc en hb
  have hnode : ∀ {p : Node}, NI qt p → NI qt (p.append { hTag lv with text := some (strip header) }) := by
    intro p hp
    apply NI_append hp
    rw [NI_iff]
    exact ⟨ht.h lv hlv, by intro c hc; cases hc⟩
  simp only [hashP]
  by_cases he : (b.take st).isEmpty = true
  · simp only [he, if_true]
    exact concl_some (hnode hp) hrest
  · simp only [he]
    obtain ⟨e, s⟩ := hg state refs parent [b.take st] (AllOk.single (ok_take hc st hb)) hp
    simp only [Bool.false_eq_true, if_false, e]
    cases h : pb2 state refs parent [b.take st] with
    | none => exact concl_none
    | some pr =>
      obtain ⟨n, r⟩ := pr
      exact concl_some (hnode (s n r h)) hrest

theorem codeP_vx (hc : Closed Ok) (ht : TagsA qt cfg) (hb : Ok b) (hr : AllOk Ok rest) (hp : NI qt parent) :
    Concl Ok qt (some (codeP tab refs parent b rest)) (some (codeP tab refs parent b rest)) := by
  have hrest : AllOk Ok (if (detab tab b).2.isEmpty = true then rest else (detab tab b).2 :: rest) :=
    AllOk.consIf _ (ok_detab_snd hc tab hb) hr
  have hfresh : ∀ t : Str, NI qt (parent.append { Node.el "pre" with
      children := [{ Node.el "code" with text := some t, textAtomic := true }] }) := by
    intro t
    apply NI_append hp
    rw [NI_iff]
    refine ⟨ht.pre, ?_⟩
    intro c hc'
    simp only [List.mem_singleton] at hc'
    rw [hc', NI_iff]
    exact ⟨ht.code, by intro c hc; cases hc⟩
  apply concl_pure
  · simp only [codeP]
    split
    · split
      · rename_i _ sib hs _ code hcode
        exact NI_setCodeText _ hp hs hcode
      · exact hfresh _
    · exact hfresh _
  · simp only [codeP]
    split
    · split <;> exact hrest
    · exact hrest

theorem setextP_vx (hc : Closed Ok) (ht : TagsA qt cfg) (hb : Ok b) (hr : AllOk Ok rest) (hp : NI qt parent) :
    Concl Ok qt (some (setextP refs parent b rest)) (some (setextP refs parent b rest)) := by
  apply concl_pure
  · simp only [setextP]
    apply NI_append hp
    rw [NI_iff]
    refine ⟨?_, by intro c hc; cases hc⟩
    show qt (hTag _).tag [] = true
    split
    · exact ht.h 1 (by decide)
    · exact ht.h 2 (by decide)
  · simp only [setextP]
    split
    · apply AllOk.cons _ hr
      apply ok_joinLines hc
      intro l hl
      exact ok_lines hc hb l (List.mem_of_mem_drop hl)
    · exact hr

theorem hrP_vx (hc : Closed Ok) (ht : TagsA qt cfg) (hg : Good Ok qt pb1 pb2) (hb : Ok b)
    (hr : AllOk Ok rest) (hp : NI qt parent) (m : Nat × Nat) :
    Concl Ok qt (hrP pb1 state refs parent b rest m) (hrP pb2 state refs parent b rest m) := by
  obtain ⟨st, en⟩ := m
  have hrest : AllOk Ok (if (lstripC '\n' (b.drop en)).isEmpty = true then rest
      else lstripC '\n' (b.drop en) :: rest) :=
    AllOk.consIf _ (ok_lstripC hc _ (ok_drop hc en hb)) hr
  have hnode : ∀ {p : Node}, NI qt p → NI qt (p.append (Node.el "hr")) :=
    fun hp => NI_append hp (NI_el _ ht.hr)
  simp only [hrP]
  by_cases he : (rstripC '\n' (b.take st)).isEmpty = true
  · simp only [he, if_true]
    exact concl_some (hnode hp) hrest
  · obtain ⟨e, s⟩ := hg state refs parent [rstripC '\n' (b.take st)]
      (AllOk.single (ok_rstripC hc _ (ok_take hc st hb))) hp
    simp only [he, Bool.false_eq_true, if_false, e]
    cases h : pb2 state refs parent [rstripC '\n' (b.take st)] with
    | none => exact concl_none
    | some pr =>
      obtain ⟨n, r⟩ := pr
      exact concl_some (hnode (s n r h)) hrest

theorem paraP_vx (ht : TagsA qt cfg) (hr : AllOk Ok rest) (hp : NI qt parent) :
    Concl Ok qt (some (paraP state refs parent b rest)) (some (paraP state refs parent b rest)) := by
  apply concl_pure
  · simp only [paraP]
    split
    · exact hp
    · split
      · split
        · rename_i sib hs
          exact NI_setLast hp (NI_fields (NI_last hp hs) _ _ _ _)
        · exact NI_fields hp _ _ _ _
      · exact NI_append hp (NI_mkText _ _ ht.p)
  · simp only [paraP]
    split
    · exact hr
    · split
      · split <;> exact hr
      · exact hr

theorem listItems_vx (ht : TagsA qt cfg) (hg : Good Ok qt pb1 pb2) (st2 : List BState) :
    ∀ (items : List Str) (refs : Refs) (lst : Node), AllOk Ok items → NI qt lst →
      listItems tab pb1 st2 refs lst items = listItems tab pb2 st2 refs lst items ∧
        ∀ n r, listItems tab pb2 st2 refs lst items = some (n, r) → NI qt n := by
  intro items
  induction items with
  | nil =>
    intro refs lst _ hl
    have e1 : ∀ pb, listItems tab pb st2 refs lst [] = some (lst, refs) := fun _ => rfl
    rw [e1, e1]
    exact ⟨rfl, by intro n r h; cases h; exact hl⟩
  | cons item items ih =>
    intro refs lst hi hl
    simp only [listItems]
    split
    · split
      · rename_i l hlast
        obtain ⟨e, s⟩ := hg st2 refs l [item] (AllOk.single (AllOk.head hi)) (NI_last hl hlast)
        rw [e]
        cases h : pb2 st2 refs l [item] with
        | none => exact ⟨rfl, by intro n r h; cases h⟩
        | some pr =>
          obtain ⟨li, r⟩ := pr
          exact ih r _ (AllOk.tail hi) (NI_setLast hl (s li r h))
      · exact ih refs lst (AllOk.tail hi) hl
    · obtain ⟨e, s⟩ := hg st2 refs (Node.el "li") [item] (AllOk.single (AllOk.head hi)) (NI_el _ ht.li)
      rw [e]
      cases h : pb2 st2 refs (Node.el "li") [item] with
      | none => exact ⟨rfl, by intro n r h; cases h⟩
      | some pr =>
        obtain ⟨li, r⟩ := pr
        exact ih r _ (AllOk.tail hi) (NI_append hl (s li r h))

theorem listPX_vx (hc : Closed Ok) (ht : TagsA qt cfg) (hg : Good Ok qt pb1 pb2) (hb : Ok b)
    (hr : AllOk Ok rest) (hp : NI qt parent) (p : ListParams) (tag : String)
    (htag : ∀ a, (a = [] ∨ (p.lazy = false ∧ ∃ s, a = [("start".toList, s)])) → qt (.name tag.toList) a = true) :
    Concl Ok qt (listPX p tab pb1 state refs parent b rest tag) (listPX p tab pb2 state refs parent b rest tag) := by
  have hitems := ok_getItemsX hc p tab hb
  simp only [listPX]
  split
  · -- the previous block was a list
    rename_i lst hlst
    have hlstNI : NI qt lst := by
      split at hlst
      · rename_i sib hs
        split at hlst
        · injection hlst with hlst; exact hlst ▸ NI_last hp hs
        · cases hlst
      · cases hlst
    -- the list with its last item wrapped
    have hlst' : NI qt (match lst.last? with
        | some li =>
          lst.setLast (match (textToP li).last? with
            | some lch =>
              if Node.truthy lch.tail = true then
                ((textToP li).setLast { lch with tail := some [], tailAtomic := false }).append
                  (mkText "p" (lstrip (lch.tail.getD [])))
              else textToP li
            | none => textToP li)
        | none => lst) := by
      split
      · rename_i li hli
        have hli' := NI_textToP ht.p (NI_last hlstNI hli)
        apply NI_setLast hlstNI
        split
        · rename_i lch hlch
          split
          · exact NI_append (NI_setLast hli' (NI_fields (NI_last hli' hlch) _ _ _ _)) (NI_mkText _ _ ht.p)
          · exact hli'
        · exact hli'
      · exact hlstNI
    have hhead : Ok ((getItemsX p tab b).headD []) := by
      cases h : getItemsX p tab b with
      | nil => exact hc.nil
      | cons a r => rw [h] at hitems; exact AllOk.head hitems
    obtain ⟨e, s⟩ := hg (state ++ [.looselist]) refs (Node.el "li") [(getItemsX p tab b).headD []]
      (AllOk.single hhead) (NI_el _ ht.li)
    rw [e]
    cases h : pb2 (state ++ [.looselist]) refs (Node.el "li") [(getItemsX p tab b).headD []] with
    | none => exact concl_none
    | some pr =>
      obtain ⟨newli, r⟩ := pr
      have hdrop : AllOk Ok ((getItemsX p tab b).drop 1) := fun x hx => hitems x (List.mem_of_mem_drop hx)
      exact concl_of_pair (fun l => parent.setLast l)
        (listItems_vx ht hg _ _ r _ hdrop (NI_append hlst' (s newli r h))) (fun n hn => NI_setLast hp hn) hr
  · split
    · exact concl_of_pair (fun l => l) (listItems_vx ht hg _ _ refs _ hitems hp) (fun n hn => hn) hr
    · refine concl_of_pair (fun l => parent.append l) (listItems_vx ht hg _ _ refs _ hitems ?_)
        (fun n hn => NI_append hp hn) hr
      split
      · rename_i hcnd
        have hl : p.lazy = false := by
          simp only [Bool.and_eq_true, Bool.not_eq_true'] at hcnd; exact hcnd.1
        rw [NI_iff]; exact ⟨htag _ (Or.inr ⟨hl, _, rfl⟩), by intro c hc; cases hc⟩
      · exact NI_el _ (htag _ (Or.inl rfl))

theorem listP_vx (hc : Closed Ok) (ht : TagsA qt cfg) (hg : Good Ok qt pb1 pb2) (hb : Ok b)
    (hr : AllOk Ok rest) (hp : NI qt parent) (tag : String) (htag : qt (.name tag.toList) [] = true) :
    Concl Ok qt (listP tab pb1 state refs parent b rest tag) (listP tab pb2 state refs parent b rest tag) := by
  rw [← listPX_default, ← listPX_default]
  refine listPX_vx hc ht hg hb hr hp _ tag ?_
  intro a ha
  rcases ha with rfl | ⟨hl, _⟩
  · exact htag
  · cases hl

theorem quoteP_vx (hc : Closed Ok) (ht : TagsA qt cfg) (hg : Good Ok qt pb1 pb2) (hb : Ok b)
    (hr : AllOk Ok rest) (hp : NI qt parent) (q : Nat) :
    Concl Ok qt (quoteP pb1 state refs parent b rest q) (quoteP pb2 state refs parent b rest q) := by
  simp only [quoteP]
  obtain ⟨e, s⟩ := hg state refs parent [b.take q] (AllOk.single (ok_take hc q hb)) hp
  rw [e]
  cases h : pb2 state refs parent [b.take q] with
  | none => exact concl_none
  | some pr =>
    obtain ⟨par, r⟩ := pr
    have hpar := s par r h
    have hblock : Ok (joinLines ((lines (b.drop q)).map quoteClean)) :=
      ok_mapLines hc _ quoteClean_infix (ok_drop hc q hb)
    simp only []
    split
    · rename_i sib hsib
      have hsibNI : NI qt sib := by
        split at hsib
        · rename_i sib' hs
          split at hsib
          · injection hsib with hsib; exact hsib ▸ NI_last hpar hs
          · cases hsib
        · cases hsib
      exact concl_of_pair (fun l => par.setLast l) (hg.chunk hc _ r sib hblock hsibNI)
        (fun n hn => NI_setLast hpar hn) hr
    · exact concl_of_pair (fun l => par.append l) (hg.chunk hc _ r _ hblock (NI_el _ ht.blockquote))
        (fun n hn => NI_append hpar hn) hr

theorem indentPX_vx (hc : Closed Ok) (ht : TagsA qt cfg) (hg : Good Ok qt pb1 pb2) (hb : Ok b)
    (hr : AllOk Ok rest) (hp : NI qt parent) (isL isI : Node → Bool) (itemTag : String)
    (htag : qt (.name itemTag.toList) [] = true) :
    Concl Ok qt (indentPX isL isI itemTag tab pb1 state refs parent b rest)
      (indentPX isL isI itemTag tab pb2 state refs parent b rest) := by
  simp only [indentPX]
  generalize getLevelX isL isI tab state parent b = lv
  obtain ⟨level, steps⟩ := lv
  have hblock : Ok (looseDetab tab b level) := ok_looseDetab hc _ _ hb
  simp only []
  split
  · split
    · rename_i c hcq
      have hcNI : NI qt c := by
        split at hcq
        · rename_i c' hs
          split at hcq
          · injection hcq with hcq; exact hcq ▸ NI_last hp hs
          · cases hcq
        · cases hcq
      exact concl_of_pair (fun l => parent.setLast l) (hg _ refs c _ (AllOk.single hblock) hcNI)
        (fun n hn => NI_setLast hp hn) hr
    · exact concl_of_pair (fun l => l) (hg _ refs parent _ (AllOk.single hblock) hp) (fun n hn => hn) hr
  · split
    · exact concl_of_pair (fun l => updPath (fun _ => l) steps parent)
        (hg _ refs _ _ (AllOk.single hblock) (NI_nodeAt steps hp))
        (fun n hn => NI_updPath _ (fun _ _ => hn) steps hp) hr
    · split
      · rename_i li hli
        have hliNI : NI qt li := by
          split at hli
          · rename_i c' hs
            split at hli
            · injection hli with hli; exact hli ▸ NI_last (NI_nodeAt steps hp) hs
            · cases hli
          · cases hli
        exact concl_of_pair (fun l => updPath (fun s => s.setLast l) steps parent)
          (hg.chunk hc _ refs _ hblock (NI_textToP ht.p hliNI))
          (fun n hn => NI_updPath _ (fun s hs => NI_setLast hs hn) steps hp) hr
      · exact concl_of_pair (fun l => updPath (fun s => s.append l) steps parent)
          (hg _ refs _ _ (AllOk.single hblock) (NI_el _ htag))
          (fun n hn => NI_updPath _ (fun s hs => NI_append hs hn) steps hp) hr

theorem indentP_vx (hc : Closed Ok) (ht : TagsA qt cfg) (hg : Good Ok qt pb1 pb2) (hb : Ok b)
    (hr : AllOk Ok rest) (hp : NI qt parent) :
    Concl Ok qt (indentP tab pb1 state refs parent b rest) (indentP tab pb2 state refs parent b rest) := by
  rw [← indentPX_core, ← indentPX_core]
  exact indentPX_vx hc ht hg hb hr hp _ _ "li" ht.li

theorem admonitionP_vx (hc : Closed Ok) (ht : TagsA qt cfg) (hdiv : ∀ v, qt (.name "div".toList) [(strClass, v)] = true)
    (hpt : qt (.name "p".toList) [(strClass, "admonition-title".toList)] = true)
    (hg : Good Ok qt pb1 pb2) (hb : Ok b) (hr : AllOk Ok rest) (hp : NI qt parent) (hit : AdmHit) :
    Concl Ok qt (admonitionP tab pb1 state refs parent b rest hit) (admonitionP tab pb2 state refs parent b rest hit) := by
  cases hit with
  | re st en g1 g2 =>
    simp only [admonitionP]
    have hrest : AllOk Ok (if (detab tab (b.drop en)).2.isEmpty = true then rest
        else (detab tab (b.drop en)).2 :: rest) :=
      AllOk.consIf _ (ok_detab_snd hc tab (ok_drop hc en hb)) hr
    have hblock : Ok (detab tab (b.drop en)).1 := ok_detab_fst hc tab (ok_drop hc en hb)
    have hdivNI : NI qt (if Node.truthy (admClassTitle g1 g2).2 = true then
          ({ Node.el "div" with attrs := [(strClass, strAdmonition ++ ' ' :: (admClassTitle g1 g2).1)] } : Node).append
            { mkText "p" ((admClassTitle g1 g2).2.getD []) with attrs := [(strClass, "admonition-title".toList)] }
        else { Node.el "div" with attrs := [(strClass, strAdmonition ++ ' ' :: (admClassTitle g1 g2).1)] }) := by
      have h1 : NI qt ({ Node.el "div" with attrs := [(strClass, strAdmonition ++ ' ' :: (admClassTitle g1 g2).1)] } : Node) := by
        rw [NI_iff]; exact ⟨hdiv _, by intro c hc; cases hc⟩
      split
      · apply NI_append h1
        rw [NI_iff]; exact ⟨hpt, by intro c hc; cases hc⟩
      · exact h1
    refine concl_bind _ _ ?_ ?_
    · by_cases hst : st > 0
      · simp only [hst, if_true]
        exact hg state refs parent [b.take st] (AllOk.single (ok_take hc st hb)) hp
      · rw [if_neg hst, if_neg hst]
        exact ⟨rfl, by intro n r h; cases h; exact hp⟩
    · intro par r hpar
      exact concl_of_pair (fun l => par.append l) (hg.chunk hc _ r _ hblock hdivNI)
        (fun n hn => NI_append hpar hn) hrest
  | sib steps indent =>
    simp only [admonitionP]
    have hrest : AllOk Ok (if (detab indent b).2.isEmpty = true then rest else (detab indent b).2 :: rest) :=
      AllOk.consIf _ (ok_detab_snd hc indent hb) hr
    have hblock : Ok (detab indent b).1 := ok_detab_fst hc indent hb
    have hsib := NI_nodeAt (qt := qt) steps hp
    refine concl_of_pair (fun l => updPath (fun _ => l) steps parent) (hg.chunk hc _ refs _ hblock ?_)
      (fun n hn => NI_updPath _ (fun _ _ => hn) steps hp) hrest
    split
    · rw [NI_iff] at hsib ⊢
      refine ⟨hsib.1, ?_⟩
      intro c hc'
      simp only [List.mem_append, List.mem_singleton] at hc'
      rcases hc' with hc' | hc'
      · exact hsib.2 c hc'
      · rw [hc', NI_iff]; exact ⟨ht.p, by intro c hc; cases hc⟩
    · exact hsib

theorem NI_addTerms_vx {dl : Node} (terms : List Str) (hdt : qt (.name "dt".toList) [] = true) (h : NI qt dl) :
    NI qt (addTerms dl terms) := by
  rw [NI_iff] at h ⊢
  refine ⟨h.1, ?_⟩
  intro c hc
  simp only [addTerms, List.mem_append, List.mem_map] at hc
  rcases hc with hc | ⟨t, _, hc⟩
  · exact h.2 c hc
  · exact hc ▸ NI_mkText _ _ hdt

theorem defListP_vx (hc : Closed Ok) (hdl : qt (.name "dl".toList) [] = true) (hdt : qt (.name "dt".toList) [] = true)
    (hdd : qt (.name "dd".toList) [] = true)
    (hg : Good Ok qt pb1 pb2) (hb : Ok b) (hr : AllOk Ok rest) (hp : NI qt parent) (m : Nat × Nat × Str)
    (hm : defSearch b = some m) :
    ConclO Ok qt (defListP tab pb1 state refs parent b rest m) (defListP tab pb2 state refs parent b rest m) := by
  obtain ⟨st, en, g2⟩ := m
  have hg2 : Ok g2 := hc.sub (defSearch_infix hm) hb
  simp only [defListP]
  generalize hdt' : (if defNoIndent (b.drop en) = true then (b.drop en, ([] : Str)) else detab tab (b.drop en)) = dt
  obtain ⟨d0, theRest⟩ := dt
  have hd0 : Ok d0 ∧ Ok theRest := by
    split at hdt'
    · injection hdt' with h1 h2
      exact ⟨h1 ▸ ok_drop hc en hb, h2 ▸ hc.nil⟩
    · have h1 := ok_detab_fst hc tab (ok_drop hc en hb)
      have h2 := ok_detab_snd hc tab (ok_drop hc en hb)
      rw [hdt'] at h1 h2
      exact ⟨h1, h2⟩
  have hd : Ok (if d0.isEmpty = true then g2 else g2 ++ '\n' :: d0) := by
    split
    · exact hg2
    · exact hc.joinNl hg2 hd0.1
  have hrest : AllOk Ok (if theRest.isEmpty = true then rest else theRest :: rest) := AllOk.consIf _ hd0.2 hr
  have hddNI : NI qt (Node.el "dd") := NI_el _ hdd
  have hdlNI : NI qt (Node.el "dl") := NI_el _ hdl
  simp only []
  split
  · split
    · exact Or.inl ⟨rfl, rfl⟩
    · refine Or.inr ⟨_, _, rfl, rfl, ?_⟩
      exact concl_of_pair (fun dd => parent.append ((addTerms (Node.el "dl") _).append dd))
        (hg _ refs _ _ (AllOk.single hd) hddNI)
        (fun n hn => NI_append hp (NI_append (NI_addTerms_vx _ hdt hdlNI) hn)) hrest
  · rename_i sibling hsib
    refine Or.inr ⟨_, _, rfl, rfl, ?_⟩
    have hpar : NI qt (if (((lines (b.take st)).map strip).filter (fun t => !t.isEmpty)).isEmpty && sibling.isTag "p"
        then dropLastChild parent else parent) := by
      split
      · exact NI_dropLastChild hp
      · exact hp
    split
    · rename_i dl hdl'
      have hdlNI' : NI qt dl := by
        split at hdl'
        · rename_i s' hs
          split at hdl'
          · injection hdl' with hdl'; exact hdl' ▸ NI_last hpar hs
          · cases hdl'
        · cases hdl'
      exact concl_of_pair (fun dd => Node.setLast _ ((addTerms dl _).append dd))
        (hg _ refs _ _ (AllOk.single hd) hddNI)
        (fun n hn => NI_setLast hpar (NI_append (NI_addTerms_vx _ hdt hdlNI') hn)) hrest
    · exact concl_of_pair (fun dd => Node.append _ ((addTerms (Node.el "dl") _).append dd))
        (hg _ refs _ _ (AllOk.single hd) hddNI)
        (fun n hn => NI_append hpar (NI_append (NI_addTerms_vx _ hdt hdlNI) hn)) hrest

theorem tailRef_vx (hc : Closed Ok) (ht : TagsA qt cfg) (hb : Ok b) (hr : AllOk Ok rest) (hp : NI qt parent) :
    Concl Ok qt (tailRef state refs parent b rest) (tailRef state refs parent b rest) := by
  simp only [tailRef]
  split
  · exact referenceP_good hc hb hr hp _
  · exact paraP_vx ht hr hp

theorem tailAbbr_vx (hc : Closed Ok) (ht : TagsA qt cfg) (hb : Ok b) (hr : AllOk Ok rest) (hp : NI qt parent) :
    Concl Ok qt (tailAbbr cfg state refs parent b rest) (tailAbbr cfg state refs parent b rest) := by
  simp only [tailAbbr]
  split
  · split
    · rename_i refs' rest' h
      exact concl_some hp (abbrP_ok hc hb hr h)
    · exact concl_none
    · exact tailRef_vx hc ht hb hr hp
  · exact tailRef_vx hc ht hb hr hp

theorem tailFootnote_vx (hc : Closed Ok) (ht : TagsA qt cfg) (hb : Ok b) (hr : AllOk Ok rest)
    (hp : NI qt parent) :
    Concl Ok qt (tailFootnote cfg state refs parent b rest) (tailFootnote cfg state refs parent b rest) := by
  simp only [tailFootnote]
  split
  · split
    · rename_i refs' rest' h
      exact concl_some hp (footnoteP_ok hc hb hr h)
    · exact tailAbbr_vx hc ht hb hr hp
  · exact tailAbbr_vx hc ht hb hr hp

theorem tailQuote_vx (hc : Closed Ok) (ht : TagsA qt cfg) (hg : Good Ok qt pb1 pb2) (hb : Ok b)
    (hr : AllOk Ok rest) (hp : NI qt parent) :
    Concl Ok qt (tailQuote cfg pb1 state refs parent b rest) (tailQuote cfg pb2 state refs parent b rest) := by
  simp only [tailQuote]
  split
  · exact quoteP_vx hc ht hg hb hr hp _
  · exact tailFootnote_vx hc ht hb hr hp

theorem tailDef_vx (hc : Closed Ok) (ht : TagsA qt cfg) (hg : Good Ok qt pb1 pb2) (hb : Ok b)
    (hr : AllOk Ok rest) (hp : NI qt parent) :
    Concl Ok qt (tailDef cfg tab pb1 state refs parent b rest) (tailDef cfg tab pb2 state refs parent b rest) := by
  simp only [tailDef]
  split
  · rename_i hcfg
    split
    · rename_i m hm
      rcases defListP_vx (tab := tab) (state := state) (refs := refs) hc (ht.dl hcfg) (ht.dt hcfg) (ht.dd hcfg)
        hg hb hr hp m hm with ⟨h1, h2⟩ | ⟨x1, x2, h1, h2, h3⟩
      · rw [h1, h2]
        exact tailQuote_vx hc ht hg hb hr hp
      · rw [h1, h2]
        exact h3
    · exact tailQuote_vx hc ht hg hb hr hp
  · exact tailQuote_vx hc ht hg hb hr hp

theorem tailList_vx (hc : Closed Ok) (ht : TagsA qt cfg) (hg : Good Ok qt pb1 pb2) (hb : Ok b)
    (hr : AllOk Ok rest) (hp : NI qt parent) :
    Concl Ok qt (tailList cfg tab pb1 state refs parent b rest) (tailList cfg tab pb2 state refs parent b rest) := by
  simp only [tailList]
  split
  · split
    · rename_i hsl
      refine listPX_vx hc ht hg hb hr hp _ "ol" ?_
      intro a ha
      rcases ha with rfl | ⟨_, s, rfl⟩
      · exact ht.ol
      · exact ht.olStart hsl s
    · exact listP_vx hc ht hg hb hr hp "ol" ht.ol
  · split
    · split
      · refine listPX_vx hc ht hg hb hr hp _ "ul" ?_
        intro a ha
        rcases ha with rfl | ⟨hl, _⟩
        · exact ht.ul
        · cases hl
      · exact listP_vx hc ht hg hb hr hp "ul" ht.ul
    · exact tailDef_vx hc ht hg hb hr hp


/-! ### the table processor -/

/-- what `qt` has to accept for `TableProcessor` -/
structure TablesA (qt : Tag → List (Str × Str) → Bool) (tables : Bool) : Prop where
  table : tables = true → qt (.name "table".toList) [] = true
  thead : tables = true → qt (.name "thead".toList) [] = true
  tbody : tables = true → qt (.name "tbody".toList) [] = true
  tr : tables = true → qt (.name "tr".toList) [] = true
  th : tables = true → qt (.name "th".toList) [] = true
  td : tables = true → qt (.name "td".toList) [] = true
  thStyle : tables = true → ∀ v, qt (.name "th".toList) [("style".toList, v)] = true
  tdStyle : tables = true → ∀ v, qt (.name "td".toList) [("style".toList, v)] = true

theorem NI_cellNode {tag : String} (h0 : qt (.name tag.toList) [] = true)
    (h1 : ∀ v, qt (.name tag.toList) [("style".toList, v)] = true) (text : Str) (a : Option Tables.Align) :
    NI qt (cellNode tag text a) := by
  rw [NI_iff]
  refine ⟨?_, by intro c hc; cases hc⟩
  cases a with
  | none => exact h0
  | some al => exact h1 _

theorem NI_zipCells {tag : String} (h0 : qt (.name tag.toList) [] = true)
    (h1 : ∀ v, qt (.name tag.toList) [("style".toList, v)] = true) :
    ∀ (ts : List Str) (as : List (Option Tables.Align)), ∀ c ∈ zipCells tag ts as, NI qt c := by
  intro ts
  induction ts with
  | nil => intro as c hc; simp [zipCells] at hc
  | cons t ts ih =>
    intro as c hc
    cases as with
    | nil => simp [zipCells] at hc
    | cons a as =>
      simp only [zipCells, List.mem_cons] at hc
      rcases hc with rfl | hc
      · exact NI_cellNode h0 h1 _ _
      · exact ih as c hc

theorem NI_tableNode {tables : Bool} (ht : TablesA qt tables) (htb : tables = true) (t : Tables.Table) :
    NI qt (tableNode t) := by
  have htr : ∀ l, (∀ c ∈ l, NI qt c) → NI qt ({ Node.el "tr" with children := l } : Node) := by
    intro l hl; rw [NI_iff]; exact ⟨ht.tr htb, hl⟩
  unfold tableNode
  rw [NI_iff]
  refine ⟨ht.table htb, ?_⟩
  intro c hc
  simp only [List.mem_cons, List.not_mem_nil, or_false] at hc
  rcases hc with rfl | rfl
  · rw [NI_iff]
    refine ⟨ht.thead htb, ?_⟩
    intro c hc
    simp only [List.mem_singleton] at hc
    subst hc
    exact htr _ (NI_zipCells (ht.th htb) (ht.thStyle htb) _ _)
  · rw [NI_iff]
    refine ⟨ht.tbody htb, ?_⟩
    intro c hc
    simp only [List.mem_map] at hc
    obtain ⟨row, _, rfl⟩ := hc
    unfold bodyRow
    split
    · exact htr _ (NI_zipCells (ht.td htb) (ht.tdStyle htb) _ _)
    · apply htr
      intro c hc
      simp only [List.mem_map] at hc
      obtain ⟨_, _, rfl⟩ := hc
      exact NI_el _ (ht.td htb)

/-! ### the dispatcher with the table processor -/

theorem tailEmptyT_vx {tables : Bool} (hc : Closed Ok) (ht : TagsA qt cfg) (htab : TablesA qt tables)
    (hg : Good Ok qt pb1 pb2) (hb : Ok b) (hr : AllOk Ok rest) (hp : NI qt parent) :
    Concl Ok qt (tailEmptyT tables cfg tab pb1 state refs parent b rest)
      (tailEmptyT tables cfg tab pb2 state refs parent b rest) := by
  simp only [tailEmptyT]
  refine concl_ite _ (fun _ => emptyP_good hc hb hr hp) (fun _ => ?_)
  refine concl_ite _ (fun _ => indentP_vx hc ht hg hb hr hp) (fun _ => ?_)
  refine concl_ite _ (fun hcfg => ?_) (fun _ => ?_)
  · simp only [Bool.and_eq_true] at hcfg
    exact indentPX_vx hc ht hg hb hr hp _ _ "dd" (ht.dd hcfg.1)
  refine concl_ite _ (fun _ => codeP_vx hc ht hb hr hp) (fun _ => ?_)
  split
  · rename_i bs hbs
    have htb : tables = true := by
      cases h : tables with
      | true => rfl
      | false => simp [h] at hbs
    exact concl_some (NI_append hp (NI_tableNode htab htb _)) hr
  · split
    · rename_i m hm
      obtain ⟨st, en, lv, hd⟩ := m
      exact hashP_vx hc ht hg hb hr hp _ (Block.hashSearch_level hm)
    · refine concl_ite _ (fun _ => setextP_vx hc ht hb hr hp) (fun _ => ?_)
      split
      · exact hrP_vx hc ht hg hb hr hp _
      · exact tailList_vx hc ht hg hb hr hp

theorem dispatchXT_vx {tables : Bool} (hc : Closed Ok) (ht : TagsA qt cfg) (htab : TablesA qt tables)
    (hg : Good Ok qt pb1 pb2) (hb : Ok b) (hr : AllOk Ok rest) (hp : NI qt parent) :
    Concl Ok qt (dispatchXT tables cfg tab pb1 state refs parent b rest)
      (dispatchXT tables cfg tab pb2 state refs parent b rest) := by
  simp only [dispatchXT]
  split
  · rename_i hit hh
    have hcfg : cfg.admonition = true := by
      cases h : cfg.admonition with
      | true => rfl
      | false => simp [h] at hh
    exact admonitionP_vx hc ht (ht.div hcfg) (ht.ptitle hcfg) hg hb hr hp hit
  · exact tailEmptyT_vx hc ht htab hg hb hr hp

/-- **the extended block parser stays inside the vocabulary** (as a `Good` statement with one callback) -/
theorem parseBlocksXT_vx {tables : Bool} (hc : Closed Ok) (ht : TagsA qt cfg) (htab : TablesA qt tables) (tab : Nat) :
    ∀ fuel, Good Ok qt (parseBlocksXT tables cfg tab fuel) (parseBlocksXT tables cfg tab fuel) := by
  intro fuel
  induction fuel with
  | zero =>
    intro st refs p bl _ hp
    cases bl with
    | nil => exact ⟨rfl, by intro n r h; simp only [parseBlocksXT] at h; cases h; exact hp⟩
    | cons b rest => exact ⟨rfl, by intro n r h; simp only [parseBlocksXT] at h; cases h⟩
  | succ f ih =>
    intro st refs p bl hbl hp
    cases bl with
    | nil => exact ⟨rfl, by intro n r h; simp only [parseBlocksXT] at h; cases h; exact hp⟩
    | cons b rest =>
      refine ⟨rfl, ?_⟩
      simp only [parseBlocksXT]
      obtain ⟨_, s⟩ := dispatchXT_vx (cfg := cfg) (tab := tab) (state := st) (refs := refs) hc ht htab ih
        (AllOk.head hbl) (AllOk.tail hbl) hp
      cases h : dispatchXT tables cfg tab (parseBlocksXT tables cfg tab f) st refs p b rest with
      | none => intro n r h'; cases h'
      | some res =>
        obtain ⟨n, r, bl'⟩ := res
        obtain ⟨h1, h2⟩ := s n r bl' h
        exact (ih st r n bl' h2 h1).2

/-- the trivial predicate on blocks -/
theorem closed_true : Closed (fun _ : Str => True) := by
  constructor <;> intros <;> trivial

/-- `parser.parseChunk(parent, text)` with the extended parser -/
theorem parseChunkXT_NI {tables : Bool} (ht : TagsA qt cfg) (htab : TablesA qt tables) (tab fuel : Nat)
    (st : List BState) (log : Refs) {parent : Node} (hp : NI qt parent) (text : Str) {n : Node} {r : Refs}
    (h : parseChunk (parseBlocksXT tables cfg tab fuel) st log parent text = some (n, r)) : NI qt n :=
  ((parseBlocksXT_vx closed_true ht htab tab fuel).chunk closed_true st log parent trivial hp).2 n r h

/-- **the block stage**: every element of the tree of `parseDocumentXT` is in the vocabulary -/
theorem parseDocumentXT_NI {tables : Bool} (ht : TagsA qt cfg) (htab : TablesA qt tables)
    (hroot : qt (.name "div".toList) [] = true) (tab : Nat) (text : Str) {root : Node} {log : Refs}
    (h : parseDocumentXT tables cfg tab text = some (root, log)) : NI qt root :=
  parseChunkXT_NI ht htab tab _ [] [] (NI_el _ hroot) text h

end MdVerif.VocabX
