/-
Helper lemmas for C16 (tables).  Core Lean only.
-/
import MdVerif.Model.Ext.Tables
import MdVerif.Spec.Tables

namespace MdVerif.Tables
open MdVerif MdVerif.Py

/-! ### predicates -/

theorem escCellB_sound : ∀ s, escCellB s = true → EscCell s := by
  intro s
  fun_induction escCellB s with
  | case1 => intro _; exact .nil
  | case2 d r ih =>
    intro h
    simp only [Bool.and_eq_true, Bool.or_eq_true, decide_eq_true_eq] at h
    rcases h.1 with h1 | h1
    · rw [h1]; exact .esc _ (ih h.2)
    · rw [h1]; exact .bs _ (ih h.2)
  | case3 => intro h; cases h
  | case4 c s hc ih =>
    intro h
    simp only [Bool.and_eq_true] at h
    exact .plain _ _ h.1 (ih h.2)

theorem EscCell.of_plain : ∀ {s}, Plain s → EscCell s
  | [], _ => .nil
  | c :: s, h => by
    simp only [Plain, List.all_cons, Bool.and_eq_true] at h
    exact .plain c s h.1 (EscCell.of_plain h.2)

theorem plainChar_iff (c : Char) : plainChar c = true ↔ c ≠ '|' ∧ c ≠ '`' ∧ c ≠ '\\' := by
  simp [plainChar, and_assoc]

/-! ### tokenizer -/

theorem tokAux_nil (k pos : Nat) : tokAux k pos [] = [] := by
  cases k <;> rfl

/-- consuming the rest of a match -/
theorem tokAux_skip : ∀ (l : Str) (pos : Nat) (rest : Str),
    tokAux l.length pos (l ++ rest) = tokAux 0 (pos + l.length) rest
  | [], pos, rest => by simp
  | c :: l, pos, rest => by
    simp only [List.length_cons, List.cons_append, tokAux]
    rw [tokAux_skip l (pos + 1) rest]; congr 1; omega

theorem tokAux_plainChar (c : Char) (s : Str) (pos : Nat) (h : plainChar c = true) :
    tokAux 0 pos (c :: s) = tokAux 0 (pos + 1) s := by
  obtain ⟨h1, h2, h3⟩ := (plainChar_iff c).1 h
  simp [tokAux, h1, h2, h3]

theorem tokAux_escPipe (s : Str) (pos : Nat) :
    tokAux 0 pos ('\\' :: '|' :: s) = tokAux 0 (pos + 2) s := by
  simp [tokAux]

theorem tokAux_escBs (s : Str) (pos : Nat) :
    tokAux 0 pos ('\\' :: '\\' :: s) = tokAux 0 (pos + 2) s := by
  simp [tokAux]

/-- a cell of plain characters, escaped pipes and escaped backslashes yields no token -/
theorem tokAux_escCell {c : Str} (h : EscCell c) : ∀ (pos : Nat) (rest : Str),
    tokAux 0 pos (c ++ rest) = tokAux 0 (pos + c.length) rest := by
  induction h with
  | nil => intro pos rest; simp
  | plain c s hc _ ih =>
    intro pos rest
    rw [List.cons_append, tokAux_plainChar _ _ _ hc, ih]; congr 1; simp; omega
  | esc s _ ih =>
    intro pos rest
    rw [List.cons_append, List.cons_append, tokAux_escPipe, ih]; congr 1; simp; omega
  | bs s _ ih =>
    intro pos rest
    rw [List.cons_append, List.cons_append, tokAux_escBs, ih]; congr 1; simp; omega

theorem tokAux_pipe (s : Str) (pos : Nat) :
    tokAux 0 pos ('|' :: s) = .pipe pos :: tokAux 0 (pos + 1) s := by
  simp [tokAux]

/-- a tick run followed by something that is not a tick -/
theorem spanLen_ticks (n : Nat) (rest : Str) (h : rest.head? ≠ some '`') :
    spanLen isTick (ticks n ++ rest) = n := by
  induction n with
  | zero =>
    cases rest with
    | nil => rfl
    | cons c r =>
      have : c ≠ '`' := by simpa using h
      simp [ticks, spanLen, isTick, this]
  | succ n ih =>
    simp only [ticks, List.replicate_succ, List.cons_append, spanLen, isTick, decide_true, if_true]
    simp only [ticks] at ih; rw [ih]

theorem tokAux_ticks (n : Nat) (rest : Str) (pos : Nat) (h : rest.head? ≠ some '`') :
    tokAux 0 pos (ticks (n + 1) ++ rest) = .tick pos (n + 1) :: tokAux 0 (pos + (n + 1)) rest := by
  have hs := spanLen_ticks n rest h
  have hk := tokAux_skip (ticks n) (pos + 1) rest
  simp only [ticks, List.length_replicate] at hs hk
  simp only [ticks, List.replicate_succ, List.cons_append, tokAux]
  simp only [show ('`' : Char) ≠ '\\' by decide, if_false, if_true, hs, hk]
  congr 2; omega

/-- offsets of the pipes of `s`, counted from `pos` -/
def pipePos : Nat → Str → List Nat
  | _, [] => []
  | pos, c :: s => if c = '|' then pos :: pipePos (pos + 1) s else pipePos (pos + 1) s

theorem pipePos_bounds : ∀ (s : Str) (pos : Nat), ∀ p ∈ pipePos pos s, pos ≤ p ∧ p < pos + s.length
  | [], _, p, h => by simp [pipePos] at h
  | c :: s, pos, p, h => by
    simp only [pipePos] at h
    have ih := pipePos_bounds s (pos + 1) p
    simp only [List.length_cons]
    split at h
    · rcases List.mem_cons.1 h with rfl | h
      · omega
      · have := ih h; omega
    · have := ih h; omega

/-- inside text without ticks and backslashes every pipe is a token, nothing else is -/
theorem tokAux_codeBody : ∀ (body : Str), CodeBody body → ∀ (pos : Nat) (rest : Str),
    tokAux 0 pos (body ++ rest) = (pipePos pos body).map .pipe ++ tokAux 0 (pos + body.length) rest
  | [], _, pos, rest => by simp [pipePos]
  | c :: s, h, pos, rest => by
    simp only [CodeBody, List.all_cons, Bool.and_eq_true, bne_iff_ne, ne_eq] at h
    have ih := tokAux_codeBody s h.2 (pos + 1) rest
    by_cases hp : c = '|'
    · subst hp
      rw [List.cons_append, tokAux_pipe, ih]
      simp only [pipePos, if_true, List.map_cons, List.cons_append, List.length_cons]
      congr 3; omega
    · have hc : plainChar c = true := (plainChar_iff c).2 ⟨hp, h.1.1, h.1.2⟩
      rw [List.cons_append, tokAux_plainChar _ _ _ hc, ih]
      simp only [pipePos, hp, if_false, List.length_cons]
      congr 2; omega

theorem filterMap_pipeOf_map (l : List Nat) : (l.map Tok.pipe).filterMap pipeOf = l := by
  induction l with
  | nil => rfl
  | cons a l ih => simp [pipeOf, ih]

theorem filterMap_ticOf_map (l : List Nat) : (l.map Tok.pipe).filterMap ticOf = [] := by
  induction l with
  | nil => rfl
  | cons a l ih => simp [ticOf]

/-! ### cutting -/

theorem cut_cell (c rest : Str) (pos : Nat) (ps : List Nat) :
    cut pos (c ++ '|' :: rest) ((pos + c.length) :: ps) = c :: cut (pos + c.length + 1) rest ps := by
  simp only [cut, Nat.add_sub_cancel_left]
  rw [List.take_left' rfl]
  congr 2
  rw [show c ++ '|' :: rest = (c ++ ['|']) ++ rest by simp]
  exact List.drop_left' (by simp)

/-- offsets of the separating pipes of `'|'.join(cs)`, counted from `pos` -/
def bounds : Nat → List Str → List Nat
  | _, [] => []
  | _, [_] => []
  | pos, a :: b :: r => (pos + a.length) :: bounds (pos + a.length + 1) (b :: r)

theorem cut_join : ∀ (cs : List Str) (pos : Nat), cs ≠ [] → cut pos (joinPipe cs) (bounds pos cs) = cs
  | [], _, h => absurd rfl h
  | [a], pos, _ => by simp [joinPipe, join, bounds, cut]
  | a :: b :: r, pos, _ => by
    have ih := cut_join (b :: r) (pos + a.length + 1) (by simp)
    simp only [joinPipe] at ih
    simp only [joinPipe, join, bounds, List.append_assoc, List.singleton_append]
    rw [cut_cell, ih]

theorem tokAux_join : ∀ (cs : List Str) (pos : Nat), (∀ c ∈ cs, EscCell c) →
    tokAux 0 pos (joinPipe cs) = (bounds pos cs).map .pipe
  | [], pos, _ => by simp [joinPipe, join, bounds, tokAux]
  | [a], pos, h => by
    have := tokAux_escCell (h a (by simp)) pos []
    simpa [joinPipe, join, bounds, tokAux_nil] using this
  | a :: b :: r, pos, h => by
    have ih := tokAux_join (b :: r) (pos + a.length + 1) (fun c hc => h c (by simp [hc]))
    simp only [joinPipe] at ih
    simp only [joinPipe, join, bounds, List.append_assoc, List.singleton_append, List.map_cons]
    rw [tokAux_escCell (h a (by simp)), tokAux_pipe, ih]

theorem regions_nil : regions [] = [] := rfl

theorem throwOut_nil (p : Nat) : throwOut [] p = false := rfl

/-- `_split` of `'|'.join(cs)` when the cells hold plain characters and escaped pipes only -/
theorem split_join (cs : List Str) (hne : cs ≠ []) (h : ∀ c ∈ cs, EscCell c) :
    split (joinPipe cs) = cs := by
  have ht : tokens (joinPipe cs) = (bounds 0 cs).map .pipe := tokAux_join cs 0 h
  simp only [split, goodPipes, ht, filterMap_pipeOf_map, filterMap_ticOf_map, regions_nil, throwOut_nil,
    Bool.not_false]
  rw [List.filter_eq_self.2 (fun _ _ => rfl)]
  exact cut_join cs 0 hne

/-! ### a code span between two cells -/

theorem EscCell.head_ne_tick {c : Str} (h : EscCell c) (rest : Str) (hr : rest.head? ≠ some '`') :
    (c ++ rest).head? ≠ some '`' := by
  cases h with
  | nil => simpa using hr
  | plain c s hc _ =>
    have := ((plainChar_iff c).1 hc).2.1
    simpa using this
  | esc s _ => simp
  | bs s _ => simp

theorem CodeBody.head_ne_tick {c : Str} (h : CodeBody c) (hne : c ≠ []) (rest : Str) :
    (c ++ rest).head? ≠ some '`' := by
  cases c with
  | nil => exact absurd rfl hne
  | cons d s =>
    simp only [CodeBody, List.all_cons, Bool.and_eq_true, bne_iff_ne, ne_eq] at h
    simpa using h.1.1

/-- the row `a|pre``body``post|b` written with right-nested appends -/
def codeRow (a pre body post b : Str) (n : Nat) : Str :=
  a ++ '|' :: (pre ++ (ticks (n + 1) ++ (body ++ (ticks (n + 1) ++ (post ++ '|' :: b)))))

theorem tokens_codeRow {a pre post b body : Str} (n : Nat) (ha : EscCell a) (hpre : EscCell pre)
    (hpost : EscCell post) (hb : EscCell b) (hbody : CodeBody body) (hne : body ≠ []) :
    tokens (codeRow a pre body post b n) =
      .pipe a.length :: .tick (a.length + 1 + pre.length) (n + 1) ::
        ((pipePos (a.length + 1 + pre.length + (n + 1)) body).map .pipe ++
          [.tick (a.length + 1 + pre.length + (n + 1) + body.length) (n + 1),
           .pipe (a.length + 1 + pre.length + (n + 1) + body.length + (n + 1) + post.length)]) := by
  have h1 : (post ++ '|' :: b).head? ≠ some '`' := hpost.head_ne_tick _ (by simp)
  have h2 : (body ++ (ticks (n + 1) ++ (post ++ '|' :: b))).head? ≠ some '`' := hbody.head_ne_tick hne _
  have hbn := tokAux_escCell hb
    (a.length + 1 + pre.length + (n + 1) + body.length + (n + 1) + post.length + 1) []
  simp only [List.append_nil, tokAux_nil] at hbn
  simp only [tokens, codeRow]
  rw [tokAux_escCell ha, tokAux_pipe, tokAux_escCell hpre, tokAux_ticks _ _ _ h2,
    tokAux_codeBody _ hbody, tokAux_ticks _ _ _ h1, tokAux_escCell hpost, tokAux_pipe]
  simp only [Nat.zero_add, hbn]

theorem tokens_codeRow_empty {a pre post b : Str} (n : Nat) (ha : EscCell a) (hpre : EscCell pre)
    (hpost : EscCell post) (hb : EscCell b) :
    tokens (codeRow a pre [] post b n) =
      [.pipe a.length, .tick (a.length + 1 + pre.length) (n + 1 + n + 1),
       .pipe (a.length + 1 + pre.length + (n + 1 + n + 1) + post.length)] := by
  have h1 : (post ++ '|' :: b).head? ≠ some '`' := hpost.head_ne_tick _ (by simp)
  have hbn := tokAux_escCell hb (a.length + 1 + pre.length + (n + 1 + n + 1) + post.length + 1) []
  simp only [List.append_nil, tokAux_nil] at hbn
  have ht : ticks (n + 1) ++ ([] ++ (ticks (n + 1) ++ (post ++ '|' :: b))) =
      ticks (n + 1 + n + 1) ++ (post ++ '|' :: b) := by
    simp only [ticks, List.nil_append, ← List.append_assoc, List.replicate_append_replicate]
    congr 2
  simp only [tokens, codeRow]
  rw [ht, tokAux_escCell ha, tokAux_pipe, tokAux_escCell hpre, tokAux_ticks _ _ _ h1,
    tokAux_escCell hpost, tokAux_pipe]
  simp only [Nat.zero_add, hbn]

theorem filter_throwOut_body (p1 q : Nat) (l : List Nat) (h : ∀ p ∈ l, p1 ≤ p ∧ p ≤ q) :
    l.filter (fun p => !throwOut [(p1, q)] p) = [] := by
  rw [List.filter_eq_nil_iff]
  intro p hp
  have := h p hp
  simp only [throwOut]
  rw [if_neg (by omega), if_pos (by omega)]
  simp

theorem regions_single (t : Tic) : regions [t] = [] := by
  simp only [regions, List.length_singleton, regionsF, findClose]
  split <;> rfl

theorem regions_pair (n s1 e1 s2 e2 : Nat) :
    regions [⟨n + 1, s1, e1, 0⟩, ⟨n + 1, s2, e2, 0⟩] = [(s1, e2)] := by
  simp [regions, regionsF, findClose]

theorem throwOut_single_lt {a b p : Nat} (h : p < a) : throwOut [(a, b)] p = false := by
  simp [throwOut, h]

theorem throwOut_single_gt {a b p : Nat} (h : b < p) : throwOut [(a, b)] p = false := by
  simp only [throwOut]
  split
  · rfl
  · rw [if_neg (by omega)]

theorem goodPipes_codeRow {a pre post b body : Str} (n : Nat) (ha : EscCell a) (hpre : EscCell pre)
    (hpost : EscCell post) (hb : EscCell b) (hbody : CodeBody body) :
    goodPipes (codeRow a pre body post b n) =
      [a.length, a.length + 1 + pre.length + (n + 1) + body.length + (n + 1) + post.length] := by
  by_cases hne : body = []
  · subst hne
    simp only [goodPipes, tokens_codeRow_empty n ha hpre hpost hb]
    have e1 : ∀ x y m z, List.filterMap ticOf [Tok.pipe x, Tok.tick y m, Tok.pipe z] = [⟨m, y, y + m - 1, 0⟩] :=
      fun _ _ _ _ => rfl
    have e2 : ∀ x y m z, List.filterMap pipeOf [Tok.pipe x, Tok.tick y m, Tok.pipe z] = [x, z] :=
      fun _ _ _ _ => rfl
    rw [e1, e2, regions_single]
    simp only [throwOut_nil, Bool.not_false, List.filter_cons, if_true, List.filter_nil, List.length_nil]
    congr 2
    omega
  · have hbd := pipePos_bounds body (a.length + 1 + pre.length + (n + 1))
    simp only [goodPipes, tokens_codeRow n ha hpre hpost hb hbody hne]
    have e1 : ∀ x y m (l : List Nat) y' m' z,
        List.filterMap ticOf (Tok.pipe x :: Tok.tick y m :: (l.map Tok.pipe ++ [Tok.tick y' m', Tok.pipe z])) =
          [⟨m, y, y + m - 1, 0⟩, ⟨m', y', y' + m' - 1, 0⟩] := by
      intro x y m l y' m' z
      simp only [List.filterMap_cons, List.filterMap_append, ticOf, filterMap_ticOf_map, List.filterMap_nil, List.nil_append]
    have e2 : ∀ x y m (l : List Nat) y' m' z,
        List.filterMap pipeOf (Tok.pipe x :: Tok.tick y m :: (l.map Tok.pipe ++ [Tok.tick y' m', Tok.pipe z])) =
          x :: (l ++ [z]) := by
      intro x y m l y' m' z
      simp only [List.filterMap_cons, List.filterMap_append, pipeOf, filterMap_pipeOf_map, List.filterMap_nil]
    rw [e1, e2, regions_pair]
    rw [List.filter_cons, throwOut_single_lt (by omega), List.filter_append,
      filter_throwOut_body _ _ _ (fun p hp => by have := hbd p hp; omega), List.filter_cons,
      throwOut_single_gt (by omega)]
    rfl

theorem split_codeRow {a pre post b body : Str} (n : Nat) (ha : EscCell a) (hpre : EscCell pre)
    (hpost : EscCell post) (hb : EscCell b) (hbody : CodeBody body) :
    split (codeRow a pre body post b n) =
      [a, pre ++ (ticks (n + 1) ++ (body ++ (ticks (n + 1) ++ post))), b] := by
  simp only [split, goodPipes_codeRow n ha hpre hpost hb hbody]
  have hrow : codeRow a pre body post b n =
      a ++ '|' :: ((pre ++ (ticks (n + 1) ++ (body ++ (ticks (n + 1) ++ post)))) ++ '|' :: b) := by
    simp [codeRow]
  have h0 := cut_cell a ((pre ++ (ticks (n + 1) ++ (body ++ (ticks (n + 1) ++ post)))) ++ '|' :: b) 0
    [a.length + 1 + pre.length + (n + 1) + body.length + (n + 1) + post.length]
  have h1 := cut_cell (pre ++ (ticks (n + 1) ++ (body ++ (ticks (n + 1) ++ post)))) b (a.length + 1) []
  have hl : a.length + 1 + (pre ++ (ticks (n + 1) ++ (body ++ (ticks (n + 1) ++ post)))).length =
      a.length + 1 + pre.length + (n + 1) + body.length + (n + 1) + post.length := by
    simp [ticks]; omega
  rw [hl] at h1
  rw [Nat.zero_add] at h0
  rw [hrow, h0, h1]
  rfl

/-! ### rows -/

theorem buildRow_length (n : Nat) (row : Str) (b : Nat) : (buildRow n row b).length = n := by
  simp [buildRow]

theorem buildRow_getElem (n : Nat) (row : Str) (b : Nat) (i : Nat) (h : i < n) :
    (buildRow n row b)[i]? = some (cellAt (splitRow b row) i) := by
  simp [buildRow, h]

/-! ### alignment -/

theorem lstripP_spaces (i : Nat) (t : Str) :
    lstripP (fun c => c = ' ') (spaces i ++ t) = lstripP (fun c => c = ' ') t := by
  induction i with
  | zero => rfl
  | succ i ih => simpa [spaces, List.replicate_succ, lstripP] using ih

theorem lstripP_head (t : Str) (h : t.head? ≠ some ' ') : lstripP (fun c => c = ' ') t = t := by
  cases t with
  | nil => rfl
  | cons c r =>
    have : c ≠ ' ' := by simpa using h
    simp [lstripP, this]

/-- `strip(' ')` removes exactly the padding -/
theorem stripC_pad (s : Str) (i j : Nat) (hne : s ≠ []) (h1 : s.head? ≠ some ' ')
    (h2 : s.reverse.head? ≠ some ' ') : stripC ' ' (spaces i ++ s ++ spaces j) = s := by
  have hl : lstripP (fun c => c = ' ') (spaces i ++ (s ++ spaces j)) = s ++ spaces j := by
    rw [lstripP_spaces]
    cases s with
    | nil => exact absurd rfl hne
    | cons c r => exact lstripP_head _ (by simpa using h1)
  have hr : (s ++ spaces j).reverse = spaces j ++ s.reverse := by
    simp [spaces]
  simp only [stripC, stripP, rstripP, List.append_assoc]
  rw [hl, hr, lstripP_spaces, lstripP_head _ h2, List.reverse_reverse]

theorem reverse_cons_dashes (c : Char) (k : Nat) :
    (c :: dashes (k + 1)).reverse = '-' :: (dashes k ++ [c]) := by
  rw [List.reverse_cons, dashes, List.reverse_replicate, List.replicate_succ]; rfl

theorem reverse_dashes (k : Nat) : (dashes (k + 1)).reverse = '-' :: dashes k := by
  rw [dashes, List.reverse_replicate, List.replicate_succ]; rfl

theorem endsWith_cons_dashes (c : Char) (k : Nat) : endsWith (c :: dashes (k + 1)) [':'] = false := by
  rw [endsWith, reverse_cons_dashes]; simp [startsWith]

theorem endsWith_dashes (k : Nat) : endsWith (dashes (k + 1)) [':'] = false := by
  rw [endsWith, reverse_dashes]; simp [startsWith]

theorem endsWith_append_colon (s : Str) : endsWith (s ++ [':']) [':'] = true := by
  simp [endsWith, startsWith]

theorem startsWith_dashes (k : Nat) (t : Str) : startsWith (dashes (k + 1) ++ t) [':'] = false := by
  simp [dashes, List.replicate_succ, startsWith]

/-- `:---` (at least one dash) -/
theorem alignOf_left (i j k : Nat) :
    alignOf (spaces i ++ (':' :: dashes (k + 1)) ++ spaces j) = some .left := by
  simp only [alignOf]
  rw [stripC_pad _ _ _ (by simp) (by simp) (by rw [reverse_cons_dashes]; simp), endsWith_cons_dashes]
  simp [startsWith]

/-- `---:` (at least one dash) -/
theorem alignOf_right (i j k : Nat) :
    alignOf (spaces i ++ (dashes (k + 1) ++ [':']) ++ spaces j) = some .right := by
  simp only [alignOf]
  rw [stripC_pad _ _ _ (by simp [dashes, List.replicate_succ]) (by simp [dashes, List.replicate_succ])
    (by simp), endsWith_append_colon, startsWith_dashes]
  simp

/-- `:---:` (any number of dashes, `::` included) -/
theorem alignOf_center (i j k : Nat) :
    alignOf (spaces i ++ (':' :: (dashes k ++ [':'])) ++ spaces j) = some .center := by
  simp only [alignOf]
  rw [stripC_pad _ _ _ (by simp) (by simp) (by simp),
    show (':' :: (dashes k ++ [':'])) = (':' :: dashes k) ++ [':'] by simp, endsWith_append_colon]
  simp [startsWith]

/-- `---` (at least one dash) -/
theorem alignOf_none (i j k : Nat) :
    alignOf (spaces i ++ dashes (k + 1) ++ spaces j) = none := by
  simp only [alignOf]
  rw [stripC_pad _ _ _ (by simp [dashes, List.replicate_succ]) (by simp [dashes, List.replicate_succ])
    (by rw [reverse_dashes]; simp), endsWith_dashes]
  have := startsWith_dashes k []
  simp only [List.append_nil] at this
  simp [this]

/-! ### `test` and `run` -/

theorem tableTest_some {block : Str} {b : Nat} {sep : List Str} (h : tableTest block = some (b, sep)) :
    sep.length = (splitRow b (stripC ' ' ((splitC '\n' block).headD []))).length := by
  unfold tableTest at h
  cases hl : splitC '\n' block with
  | nil => simp [hl] at h
  | cons x l =>
    cases l with
    | nil => simp [hl] at h
    | cons y r =>
      simp only [hl, List.map_cons] at h
      split at h
      · split at h
        · rename_i hc
          simp only [Bool.and_eq_true, beq_iff_eq] at hc
          injection h with h
          injection h with hb hs
          subst hb; subst hs
          simpa using hc.1
        · cases h
      · cases h

theorem tableRun_widths (b : Nat) (sep : List Str) (block : Str) :
    (tableRun b sep block).align.length = sep.length ∧
    (tableRun b sep block).head.length = sep.length ∧
    ∀ r ∈ (tableRun b sep block).body, r.length = sep.length := by
  refine ⟨by simp [tableRun], by simp [tableRun, buildRow_length], ?_⟩
  intro r hr
  simp only [tableRun] at hr
  split at hr
  · simp only [List.mem_singleton] at hr
    subst hr; simp
  · simp only [List.mem_map] at hr
    obtain ⟨x, _, rfl⟩ := hr
    simp [buildRow_length]

/-! ### border pipes -/

def isBs (c : Char) : Bool := c = '\\'

/-- length of the run of backslashes that ends the text -/
def trailingBs (s : Str) : Nat := spanLen isBs s.reverse

theorem spanLen_all (p : Char → Bool) : ∀ (a : Str), a.all p = true → spanLen p a = a.length
  | [], _ => rfl
  | c :: a, h => by
    simp only [List.all_cons, Bool.and_eq_true] at h
    simp [spanLen, h.1, spanLen_all p a h.2]

theorem spanLen_append (p : Char → Bool) : ∀ (a b : Str),
    spanLen p (a ++ b) = if a.all p then a.length + spanLen p b else spanLen p a
  | [], b => by simp
  | c :: a, b => by
    have ih := spanLen_append p a b
    by_cases hc : p c = true
    · simp only [List.cons_append, spanLen, hc, if_true, List.all_cons, Bool.true_and, List.length_cons, ih]
      split <;> omega
    · simp [spanLen, hc]

/-- `RE_END_BORDER` matches the closing pipe after an even run of backslashes, and the (repaired) substitution
    removes the pipe only -/
theorem endBorderSub_append_pipe (x : Str) (h : trailingBs x % 2 = 0) :
    endBorderSub (x ++ ['|']) = some x := by
  have h' : spanLen (fun c => decide (c = '\\')) x.reverse % 2 = 0 := h
  simp [endBorderSub, h']

/-- in a cell of plain characters, escaped pipes and escaped backslashes the final run of backslashes is even -/
theorem EscCell.trailingBs_even {c : Str} (h : EscCell c) : trailingBs c % 2 = 0 := by
  induction h with
  | nil => rfl
  | plain c s hc _ ih =>
    have hc' : isBs c = false := by
      have := ((plainChar_iff c).1 hc).2.2
      simp [isBs, this]
    unfold trailingBs at ih ⊢
    rw [List.reverse_cons, spanLen_append]
    split
    · rename_i hall
      rw [spanLen_all _ _ hall] at ih
      simpa [spanLen, hc'] using ih
    · exact ih
  | esc s _ ih =>
    unfold trailingBs at ih ⊢
    rw [List.reverse_cons, List.reverse_cons, List.append_assoc, spanLen_append]
    split
    · rename_i hall
      rw [spanLen_all _ _ hall] at ih
      simpa [spanLen, isBs] using ih
    · exact ih
  | bs s _ ih =>
    unfold trailingBs at ih ⊢
    rw [List.reverse_cons, List.reverse_cons, List.append_assoc, spanLen_append]
    split
    · rename_i hall
      rw [spanLen_all _ _ hall] at ih
      simp only [List.cons_append, List.nil_append, spanLen, isBs, decide_true, if_true]
      omega
    · exact ih

theorem joinPipe_trailingBs_even : ∀ (cs : List Str), (∀ c ∈ cs, EscCell c) → trailingBs (joinPipe cs) % 2 = 0
  | [], _ => rfl
  | [a], h => by simpa [joinPipe, join] using (h a (by simp)).trailingBs_even
  | a :: b :: r, h => by
    have ih := joinPipe_trailingBs_even (b :: r) (fun c hc => h c (by simp [hc]))
    unfold trailingBs at ih ⊢
    simp only [joinPipe] at ih
    simp only [joinPipe, join, List.append_assoc, List.singleton_append, List.reverse_append,
      List.reverse_cons]
    rw [spanLen_append]
    split
    · rename_i hall
      rw [spanLen_all _ _ hall] at ih
      simpa [spanLen, isBs] using ih
    · exact ih

/-- `_split_row` of `|c1|…|cn|` when a border was seen on the header -/
theorem splitRow_bordered (cs : List Str) (hne : cs ≠ []) (h : ∀ c ∈ cs, EscCell c) (b : Nat) (hb : b ≠ 0) :
    splitRow b ('|' :: (joinPipe cs ++ ['|'])) = cs := by
  simp only [splitRow, if_neg hb, startsWith, decide_true, Bool.and_self, if_true, List.tail_cons]
  rw [endBorderSub_append_pipe _ (joinPipe_trailingBs_even cs h)]
  exact split_join cs hne h

theorem EscCell.append {a b : Str} (ha : EscCell a) (hb : EscCell b) : EscCell (a ++ b) := by
  induction ha with
  | nil => exact hb
  | plain c s hc _ ih => exact .plain c _ hc ih
  | esc s _ ih => exact .esc _ ih
  | bs s _ ih => exact .bs _ ih

theorem EscCell.escBackslashes : ∀ k, EscCell (escBackslashes k)
  | 0 => .nil
  | k + 1 => by
    have : Tables.escBackslashes (k + 1) = '\\' :: '\\' :: Tables.escBackslashes k := by
      simp [Tables.escBackslashes, Nat.mul_add, List.replicate_succ]
    rw [this]; exact .bs _ (EscCell.escBackslashes k)

end MdVerif.Tables
