/-
Helper lemmas for C10 on the extension model, part 1: `InlineX.handleInlineX` / `applyPatternX` (the inline engine over
a pattern TABLE, `Model/InlineX.lean`) keep the invariants of the B chain (`Lemmas/PlaceholdersBHI.lean`): the data is
`DataB` (tokens in range, in the domain, none of the three adjacencies, `BtSafe` while the backtick pattern — table
index 0 — is at work and `BtDone` afterwards), the stash is closed (`StOKB`).  Parametric in the contract `FMSpecXB` of
the table entries.  Core Lean only.
-/
import MdVerif.Lemmas.PlaceholdersBHI
import MdVerif.Model.InlineX

namespace MdVerif.NoCtlX
open MdVerif.NoCtl Py Inline InlineX

/-! ### contracts -/

/-- the contract of the table entries: the entry at table index `pi` (index 0 = the backtick pattern) neither stashes
    nor touches the HTML stash (the footnote bookkeeping `x.fn` may change), its match satisfies `FoundOKB`, and
    without a match the backtick pattern is through with the data -/
def FMSpecXB (xc : XCfg) : Prop :=
  ∀ (pi : Nat) (k : PatK) (data : Str) (si : Nat) (x : XSt) (fo : Option Found) (x' : XSt),
    xc.table[pi]? = some k → (pi = 0 → si = 0) → DataB pi x.st.stash.length data →
    findX xc k data si x = some (fo, x') →
    x'.st.html = x.st.html ∧ x'.st.stash = x.st.stash ∧
      (∀ f, fo = some f → FoundOKB x.st.stash.length pi data f) ∧ (fo = none → BtDone data)

/-- the contract of the nested `handleInlineX` -/
def HIokXB (hi : HIX) : Prop :=
  ∀ (data : Str) (pi : Nat) (x : XSt) (d : Str) (x' : XSt), DataB pi x.st.stash.length data → StOKB x.st.stash →
    hi data pi x = some (d, x') → HIOutB x.st d x'.st

/-- the contract of `handleInlineTopX` on a whole text (as `HISpecB`) -/
def HISpecXB (xc : XCfg) : Prop :=
  ∀ (data : Str) (x : XSt) (d : Str) (x' : XSt), StrT x.st.stash.length (some data) → StOKB x.st.stash →
    handleInlineTopX xc data x = some (d, x') →
    StrB x'.st.stash.length (some d) ∧ StOKB x'.st.stash ∧ x.st.stash.length ≤ x'.st.stash.length ∧
      x'.st.html = x.st.html

/-! ### `hiOptX`, `hiNodeX`, `hiNodesX` -/

theorem hiOptXB_spec {hi : HIX} (hhi : HIokXB hi) {t t' : Option Str} {atomic : Bool} {pi : Nat} {x x' : XSt}
    (ht : atomic = false → StrB x.st.stash.length t) (hst : StOKB x.st.stash)
    (h : hiOptX hi t atomic pi x = some (t', x')) :
    (atomic = false → StrB x'.st.stash.length t') ∧ (atomic = true → t' = t) ∧ StOKB x'.st.stash ∧
      x.st.stash.length ≤ x'.st.stash.length ∧ x'.st.html = x.st.html := by
  unfold hiOptX at h
  split at h
  · rename_i hc
    simp only [Bool.and_eq_true, Bool.not_eq_true'] at hc
    cases hh : hi (t.getD []) pi x with
    | none => simp [hh] at h
    | some r =>
      obtain ⟨d, s'⟩ := r
      simp only [hh, Option.some.injEq, Prod.mk.injEq] at h
      obtain ⟨rfl, rfl⟩ := h
      have := hhi _ _ _ _ _ (dataB_of_strB (ht hc.2)) hst hh
      exact ⟨fun _ => this.str, fun ha => by rw [ha] at hc; exact absurd hc.2 (by decide), this.stOK, this.le, this.html⟩
  · simp only [Option.some.injEq, Prod.mk.injEq] at h
    obtain ⟨rfl, rfl⟩ := h
    exact ⟨ht, fun _ => rfl, hst, Nat.le_refl _, rfl⟩

theorem hiNodeXB_spec {hi : HIX} (hhi : HIokXB hi) {pi : Nat} {n n' : Node} {x x' : XSt}
    (hn : SNodeB x.st.stash.length n) (hst : StOKB x.st.stash) (h : hiNodeX hi pi n x = some (n', x')) :
    SNodeB x'.st.stash.length n' ∧ n'.children = n.children ∧ (n.tail = none → n'.tail = none) ∧
    n'.tag = n.tag ∧ StOKB x'.st.stash ∧ x.st.stash.length ≤ x'.st.stash.length ∧ x'.st.html = x.st.html := by
  unfold hiNodeX at h
  cases h1 : hiOptX hi n.text n.textAtomic (pi + 1) x with
  | none => simp [h1] at h
  | some r1 =>
    obtain ⟨t, x1⟩ := r1
    simp only [h1] at h
    cases h2 : hiOptX hi n.tail n.tailAtomic pi x1 with
    | none => simp [h2] at h
    | some r2 =>
      obtain ⟨tl, x2⟩ := r2
      simp only [h2, Option.some.injEq, Prod.mk.injEq] at h
      obtain ⟨rfl, rfl⟩ := h
      obtain ⟨g1, g2, g3, g4, g5⟩ := hn
      have htext : n.textAtomic = false → StrB x.st.stash.length n.text := by
        intro ha
        by_cases hc : isCode n = true
        · rw [if_pos hc] at g5; rw [g5.1] at ha; cases ha
        · rw [if_neg hc] at g5; exact g5.2
      obtain ⟨a1, a1', a2, a3, a4⟩ := hiOptXB_spec hhi htext hst h1
      obtain ⟨b1, -, b2, b3, b4⟩ := hiOptXB_spec hhi (fun _ => g4.mono a3) a2 h2
      refine ⟨⟨g1, g2, g3, b1 g3, ?_⟩, rfl, ?_, rfl, b2, Nat.le_trans a3 b3, b4.trans a4⟩
      · by_cases hc : isCode n = true
        · have hc' : isCode ({ n with text := t, tail := tl } : Node) = true := hc
          rw [if_pos hc] at g5; rw [if_pos hc']
          have ht : t = n.text := a1' g5.1
          have htl : tl = n.tail := by
            unfold hiOptX at h2
            rw [g5.2.2.2] at h2
            simp only [Node.truthy, Bool.false_and, Bool.false_eq_true, if_false, Option.some.injEq,
              Prod.mk.injEq] at h2
            rw [← h2.1, g5.2.2.2]
          exact ⟨g5.1, by rw [ht]; exact g5.2.1, g5.2.2.1, by rw [htl]; exact g5.2.2.2⟩
        · have hc' : ¬ isCode ({ n with text := t, tail := tl } : Node) = true := hc
          rw [if_neg hc] at g5; rw [if_neg hc']
          exact ⟨g5.1, (a1 g5.1).mono b3⟩
      · intro hn
        unfold hiOptX at h2
        rw [hn] at h2
        simp only [Node.truthy, Bool.false_and, Bool.false_eq_true, if_false, Option.some.injEq, Prod.mk.injEq] at h2
        exact h2.1.symm

theorem hiNodesXB_spec {hi : HIX} (hhi : HIokXB hi) {pi : Nat} :
    ∀ (l l' : List Node) (x x' : XSt), (∀ c ∈ l, c.Forall (SNodeB x.st.stash.length)) → StOKB x.st.stash →
      hiNodesX hi pi l x = some (l', x') →
      (∀ c ∈ l', c.Forall (SNodeB x'.st.stash.length)) ∧ StOKB x'.st.stash ∧
        x.st.stash.length ≤ x'.st.stash.length ∧ x'.st.html = x.st.html := by
  intro l
  induction l with
  | nil =>
    intro l' x x' _ hst h
    simp only [hiNodesX, Option.some.injEq, Prod.mk.injEq] at h
    obtain ⟨rfl, rfl⟩ := h
    exact ⟨by simp, hst, Nat.le_refl _, rfl⟩
  | cons n r ih =>
    intro l' x x' hl hst h
    simp only [hiNodesX] at h
    cases h1 : hiNodeX hi pi n x with
    | none => simp [h1] at h
    | some r1 =>
      obtain ⟨n', x1⟩ := r1
      simp only [h1] at h
      cases h2 : hiNodesX hi pi r x1 with
      | none => simp [h2] at h
      | some r2 =>
        obtain ⟨r', x2⟩ := r2
        simp only [h2, Option.some.injEq, Prod.mk.injEq] at h
        obtain ⟨rfl, rfl⟩ := h
        have hn := hl n (by simp)
        rw [Node.forall_iff] at hn
        obtain ⟨a1, a2, -, -, a4, a5, a6⟩ := hiNodeXB_spec hhi hn.1 hst h1
        obtain ⟨b1, b2, b3, b4⟩ := ih r' x1 x2
          (fun c hc => forall_SNodeB_mono a5 (hl c (by simp [hc]))) a4 h2
        refine ⟨?_, b2, Nat.le_trans a5 b3, b4.trans a6⟩
        intro c hc
        rcases List.mem_cons.1 hc with rfl | hc
        · rw [Node.forall_iff]
          refine ⟨a1.mono b3, ?_⟩
          intro g hg
          rw [a2] at hg
          exact forall_SNodeB_mono (Nat.le_trans a5 b3) (hn.2 g hg)
        · exact b1 c hc

/-! ### `applyPatternX`, `hiLoopX`, `handleInlineX` -/

/-- the nested `handleInlineX` calls on the element a pattern returned -/
def elStepX (hi : HIX) (pi : Nat) (n : Node) (x : XSt) : Option (Node × XSt) :=
  if n.text.isSome && n.textAtomic then some (n, x)
  else
    match hiNodeX hi pi { n with children := [] } x with
    | none => none
    | some (n1, x1) =>
      match hiNodesX hi pi n.children x1 with
      | none => none
      | some (kids, x2) => some ({ n1 with children := kids }, x2)

theorem applyPatternX_eq (xc : XCfg) (hi : HIX) (pi : Nat) (data : Str) (si : Nat) (x : XSt) :
    applyPatternX xc hi pi data si x =
      match xc.table[pi]? with
      | none => some (data, false, 0, x)
      | some k =>
        match findX xc k data si x with
        | none => none
        | some (none, x) => some (data, false, 0, x)
        | some (some f, x) =>
          match f.node with
          | .none => some (data, true, f.stop.toNat, x)
          | .str s => some (data.take f.start ++ (stashX x (.str s)).1 ++ pyDrop data f.stop, true, 0,
              (stashX x (.str s)).2)
          | .el n =>
            match elStepX hi pi n x with
            | none => none
            | some (n', x1) =>
              some (data.take f.start ++ (stashX x1 (.node n')).1 ++ pyDrop data f.stop, true, 0,
                (stashX x1 (.node n')).2) := rfl

theorem elStepXB_spec {hi : HIX} (hhi : HIokXB hi) {pi : Nat} {n n' : Node} {x x1 : XSt}
    (hraw : n.Forall (SNodeB x.st.stash.length)) (htl : n.tail = none) (hst : StOKB x.st.stash)
    (h : elStepX hi pi n x = some (n', x1)) :
    ItemOKB x1.st.stash.length (.node n') ∧ StOKB x1.st.stash ∧ x.st.stash.length ≤ x1.st.stash.length ∧
      x1.st.html = x.st.html := by
  unfold elStepX at h
  split at h
  · simp only [Option.some.injEq, Prod.mk.injEq] at h
    obtain ⟨rfl, rfl⟩ := h
    exact ⟨⟨hraw, htl⟩, hst, Nat.le_refl _, rfl⟩
  · cases h1 : hiNodeX hi pi { n with children := [] } x with
    | none => simp [h1] at h
    | some r1 =>
      obtain ⟨n1, sa⟩ := r1
      simp only [h1] at h
      cases h2 : hiNodesX hi pi n.children sa with
      | none => simp [h2] at h
      | some r2 =>
        obtain ⟨kids, sb⟩ := r2
        simp only [h2, Option.some.injEq, Prod.mk.injEq] at h
        obtain ⟨rfl, rfl⟩ := h
        rw [Node.forall_iff] at hraw
        have hs' : SNodeB x.st.stash.length { n with children := [] } := by
          obtain ⟨a1, a2, a3, a4, a5⟩ := hraw.1
          refine ⟨a1, a2, a3, a4, ?_⟩
          by_cases hc : isCode n = true
          · have hc' : isCode ({ n with children := [] } : Node) = true := hc
            rw [if_pos hc] at a5; rw [if_pos hc']
            exact ⟨a5.1, a5.2.1, rfl, a5.2.2.2⟩
          · have hc' : ¬ isCode ({ n with children := [] } : Node) = true := hc
            rw [if_neg hc] at a5; rw [if_neg hc']; exact a5
        obtain ⟨a1, a2, a3, atag, a4, a5, a6⟩ := hiNodeXB_spec hhi hs' hst h1
        obtain ⟨b1, b2, b3, b4⟩ := hiNodesXB_spec hhi n.children kids sa _
          (fun c hc => forall_SNodeB_mono a5 (hraw.2 c hc)) a4 h2
        refine ⟨⟨?_, a3 htl⟩, b2, Nat.le_trans a5 b3, b4.trans a6⟩
        rw [Node.forall_iff]
        refine ⟨?_, b1⟩
        -- the element with its new children: a `code` element has none and keeps none
        obtain ⟨c1, c2, c3, c4, c5⟩ := a1.mono b3
        refine ⟨c1, c2, c3, c4, ?_⟩
        by_cases hc : isCode n1 = true
        · have hc' : isCode ({ n1 with children := kids } : Node) = true := hc
          rw [if_pos hc] at c5; rw [if_pos hc']
          refine ⟨c5.1, c5.2.1, ?_, c5.2.2.2⟩
          have hcn : isCode n = true := by
            have : n1.tag = n.tag := atag
            simpa [isCode, this] using hc
          have := hraw.1.2.2.2.2
          rw [if_pos hcn] at this
          have hk : n.children = [] := this.2.2.1
          rw [hk] at h2
          simp only [hiNodesX, Option.some.injEq, Prod.mk.injEq] at h2
          exact h2.1.symm
        · have hc' : ¬ isCode ({ n1 with children := kids } : Node) = true := hc
          rw [if_neg hc] at c5; rw [if_neg hc']; exact c5

theorem spliceXB_out {pi : Nat} {data : Str} {start : Nat} {stop : Int} {x x1 : XSt} {it : StashItem}
    (hd : DomB data) (hs : SpliceB x.st.stash.length pi data start stop)
    (hle : x.st.stash.length ≤ x1.st.stash.length)
    (hst : StOKB x1.st.stash) (hit : ItemOKB x1.st.stash.length it) :
    DataB pi (stashX x1 it).2.st.stash.length (data.take start ++ (stashX x1 it).1 ++ pyDrop data stop) ∧
      StOKB (stashX x1 it).2.st.stash ∧ x1.st.stash.length ≤ (stashX x1 it).2.st.stash.length ∧
      (stashX x1 it).2.st.html = x1.st.html := by
  obtain ⟨o1, o2⟩ := spliceB_out (st := x.st) (st1 := x1.st) hd hs hle hst hit
  exact ⟨o1, o2, by simp [stashX, stashNode], rfl⟩

/-- one step of the pattern loop: the new data, with the invariant of the table index that is tried next -/
theorem applyPatternXB_spec {xc : XCfg} (hfm : FMSpecXB xc) {hi : HIX} (hhi : HIokXB hi) {pi : Nat}
    {data : Str} {si : Nat} {x : XSt} {d : Str} {m : Bool} {si' : Nat} {x' : XSt}
    (hpi : pi < xc.table.length)
    (hsi : pi = 0 → si = 0) (hdat : DataB pi x.st.stash.length data) (hst : StOKB x.st.stash)
    (h : applyPatternX xc hi pi data si x = some (d, m, si', x')) :
    DataB (if m then pi else pi + 1) x'.st.stash.length d ∧ ((if m then pi else pi + 1) = 0 → si' = 0) ∧
      StOKB x'.st.stash ∧ x.st.stash.length ≤ x'.st.stash.length ∧ x'.st.html = x.st.html := by
  rw [applyPatternX_eq] at h
  obtain ⟨k, hk⟩ : ∃ k, xc.table[pi]? = some k := ⟨xc.table[pi], List.getElem?_eq_getElem hpi⟩
  simp only [hk] at h
  cases hf : findX xc k data si x with
  | none => simp [hf] at h
  | some r =>
    obtain ⟨fo, x0⟩ := r
    obtain ⟨ehtml, estash, hfo, hno⟩ := hfm pi k data si x fo x0 hk hsi hdat hf
    have hst0 : StOKB x0.st.stash := by rw [estash]; exact hst
    cases fo with
    | none =>
      simp only [hf, Option.some.injEq, Prod.mk.injEq] at h
      obtain ⟨rfl, rfl, rfl, rfl⟩ := h
      simp only [Bool.false_eq_true, if_false]
      rw [estash]
      exact ⟨⟨hdat.wf, hdat.dom, hdat.adj, btInv_of_done (hno rfl)⟩, fun h => by omega, hst, Nat.le_refl _, ehtml⟩
    | some f =>
      have hfo := hfo f rfl
      rw [← estash] at hfo hdat
      simp only [hf] at h
      unfold FoundOKB at hfo
      cases hnode : f.node with
      | none =>
        simp only [hnode, Option.some.injEq, Prod.mk.injEq] at h hfo
        obtain ⟨rfl, rfl, rfl, rfl⟩ := h
        simp only [if_true]
        exact ⟨hdat, fun h => by omega, hst0, by rw [estash]; exact Nat.le_refl _, ehtml⟩
      | str s =>
        simp only [hnode] at h hfo
        simp only [Option.some.injEq, Prod.mk.injEq] at h
        obtain ⟨rfl, rfl, rfl, rfl⟩ := h
        simp only [if_true]
        obtain ⟨o1, o2, o3, o4⟩ := spliceXB_out hdat.dom hfo.1 (Nat.le_refl _) hst0 (it := .str s) hfo.2
        exact ⟨o1, (by first | trivial | exact fun _ => trivial | exact fun _ => rfl), o2, by rw [← estash]; exact o3, o4.trans ehtml⟩
      | el n =>
        simp only [hnode] at h hfo
        cases hel : elStepX hi pi n x0 with
        | none => simp [hel] at h
        | some r =>
          obtain ⟨n', x1⟩ := r
          simp only [hel, Option.some.injEq, Prod.mk.injEq] at h
          obtain ⟨rfl, rfl, rfl, rfl⟩ := h
          simp only [if_true]
          obtain ⟨k1, k2, k3, k4⟩ := elStepXB_spec hhi hfo.2.1 hfo.2.2.1 hst0 hel
          obtain ⟨o1, o2, o3, o4⟩ := spliceXB_out hdat.dom hfo.1 k3 k2 k1
          exact ⟨o1, (by first | trivial | exact fun _ => trivial | exact fun _ => rfl), o2, by rw [← estash]; exact Nat.le_trans k3 o3, (o4.trans k4).trans ehtml⟩

theorem hiLoopXB_spec {count : Nat} (hcount : 1 ≤ count)
    {ap : Nat → Str → Nat → XSt → Option (Str × Bool × Nat × XSt)}
    (hap : ∀ pi data si x d m si' x', pi < count → (pi = 0 → si = 0) → DataB pi x.st.stash.length data →
      StOKB x.st.stash → ap pi data si x = some (d, m, si', x') →
      DataB (if m then pi else pi + 1) x'.st.stash.length d ∧ ((if m then pi else pi + 1) = 0 → si' = 0) ∧
        StOKB x'.st.stash ∧ x.st.stash.length ≤ x'.st.stash.length ∧ x'.st.html = x.st.html) :
    ∀ (g : Nat) (data : Str) (pi si : Nat) (x : XSt) (d : Str) (x' : XSt), (pi = 0 → si = 0) →
      DataB pi x.st.stash.length data → StOKB x.st.stash → hiLoopX count ap g data pi si x = some (d, x') →
      HIOutB x.st d x'.st := by
  intro g
  induction g with
  | zero => intro data pi si x d x' _ _ _ h; simp [hiLoopX] at h
  | succ g ih =>
    intro data pi si x d x' hsi hdat hst h
    simp only [hiLoopX] at h
    split at h
    · rename_i hpi
      cases ha : ap pi data si x with
      | none => simp [ha] at h
      | some r =>
        obtain ⟨d1, m, si1, x1⟩ := r
        simp only [ha] at h
        obtain ⟨o1, o2, o3, o4, o5⟩ := hap pi data si x d1 m si1 x1 hpi hsi hdat hst ha
        have := ih _ _ _ _ _ _ o2 o1 o3 h
        exact ⟨this.str, this.stOK, Nat.le_trans o4 this.le, this.html.trans o5⟩
    · rename_i hpi
      simp only [Option.some.injEq, Prod.mk.injEq] at h
      obtain ⟨rfl, rfl⟩ := h
      have hbt : BtDone data := by
        have := hdat.bt
        unfold BtInv at this
        rw [if_neg (by omega)] at this
        exact this
      exact ⟨⟨hdat.wf, hdat.dom, hdat.adj, hbt⟩, hst, Nat.le_refl _, rfl⟩

theorem handleInlineXB_spec {xc : XCfg} (hfm : FMSpecXB xc) (hcount : 1 ≤ xc.table.length) :
    ∀ f, HIokXB (fun d p s => handleInlineX xc f d p s) := by
  intro f
  induction f with
  | zero => intro data pi x d x' _ _ h; simp [handleInlineX] at h
  | succ f ih =>
    intro data pi x d x' hdat hst h
    simp only [handleInlineX] at h
    exact hiLoopXB_spec hcount (fun pi data si x d m si' x' hpi hsi hdat hst ha =>
      applyPatternXB_spec hfm ih hpi hsi hdat hst ha) _ _ _ _ _ _ _ (fun _ => rfl) hdat hst h

theorem hiSpecXB_of_fmSpecXB {xc : XCfg} (hfm : FMSpecXB xc) (hcount : 1 ≤ xc.table.length) : HISpecXB xc := by
  intro data x d x' hs hst h
  have hdat : DataB 0 x.st.stash.length data := ⟨hs.1, hs.2.1, hs.2.2.1, by unfold BtInv; simpa using hs.2.2.2⟩
  have := handleInlineXB_spec hfm hcount _ data 0 x d x' hdat hst h
  exact ⟨this.str, this.stOK, this.le, this.html⟩

end MdVerif.NoCtlX
