/-
Helper lemmas for C10 on the extension model, part 1: `InlineX.handleInlineX` / `applyPatternX` (the inline engine over
a pattern TABLE, `Model/InlineX.lean`) keep the invariants of the B chain (`Lemmas/PlaceholdersBHI.lean`): the data is
`DataB` (tokens in range, in the domain, none of the three adjacencies, `BtSafe` while the backtick pattern — table
index 0 — is at work and `BtDone` afterwards), the stash is closed (`StOKB`); and, for the wikilink pattern, the
exclusion of blank labels `Qw wl` (`Lemmas/PlaceholdersXQ.lean`; `Qw false` is trivially true) on the data and on every
string of the stash.  Parametric in the contract `FMSpecXB` of the table entries.  Core Lean only.
-/
import MdVerif.Lemmas.PlaceholdersXQ
import MdVerif.Model.InlineX

namespace MdVerif.NoCtlX
open MdVerif.NoCtl Py Inline InlineX

/-! ### contracts -/

/-- the contract of the table entries: the entry at table index `pi` (index 0 = the backtick pattern) neither stashes
    nor touches the HTML stash (the footnote bookkeeping `x.fn` may change), its match satisfies `FoundOKB` and
    `FoundQ`, and without a match the backtick pattern is through with the data -/
def FMSpecXB (wl : Bool) (xc : XCfg) : Prop :=
  ∀ (pi : Nat) (k : PatK) (data : Str) (si : Nat) (x : XSt) (fo : Option Found) (x' : XSt),
    xc.table[pi]? = some k → (pi = 0 → si = 0) → DataB pi x.st.stash.length data → Qw wl data →
    findX xc k data si x = some (fo, x') →
    x'.st.html = x.st.html ∧ x'.st.stash = x.st.stash ∧
      (∀ f, fo = some f → FoundOKB x.st.stash.length pi data f ∧ FoundQ wl f) ∧ (fo = none → BtDone data)

/-- the contract of the nested `handleInlineX` -/
def HIokXB (wl : Bool) (hi : HIX) : Prop :=
  ∀ (data : Str) (pi : Nat) (x : XSt) (d : Str) (x' : XSt), DataB pi x.st.stash.length data → StOKB x.st.stash →
    Qw wl data → QSt wl x.st.stash → hi data pi x = some (d, x') →
    HIOutB x.st d x'.st ∧ Qw wl d ∧ QSt wl x'.st.stash

/-- the contract of `handleInlineTopX` on a whole text (as `HISpecB`) -/
def HISpecXB (wl : Bool) (xc : XCfg) : Prop :=
  ∀ (data : Str) (x : XSt) (d : Str) (x' : XSt), StrT x.st.stash.length (some data) → StOKB x.st.stash →
    Qw wl data → QSt wl x.st.stash → handleInlineTopX xc data x = some (d, x') →
    StrB x'.st.stash.length (some d) ∧ StOKB x'.st.stash ∧ x.st.stash.length ≤ x'.st.stash.length ∧
      x'.st.html = x.st.html ∧ Qw wl d ∧ QSt wl x'.st.stash

/-! ### `hiOptX`, `hiNodeX`, `hiNodesX` -/

theorem hiOptXB_spec {wl : Bool} {hi : HIX} (hhi : HIokXB wl hi) {t t' : Option Str} {atomic : Bool} {pi : Nat}
    {x x' : XSt} (ht : atomic = false → StrB x.st.stash.length t) (hst : StOKB x.st.stash)
    (htq : atomic = false → Qw wl (t.getD [])) (hqs : QSt wl x.st.stash)
    (h : hiOptX hi t atomic pi x = some (t', x')) :
    (atomic = false → StrB x'.st.stash.length t') ∧ (atomic = true → t' = t) ∧ StOKB x'.st.stash ∧
      x.st.stash.length ≤ x'.st.stash.length ∧ x'.st.html = x.st.html ∧
      (atomic = false → Qw wl (t'.getD [])) ∧ QSt wl x'.st.stash := by
  unfold hiOptX at h
  split at h
  · rename_i hc
    simp only [Bool.and_eq_true, Bool.not_eq_true'] at hc
    cases hh : hi (t.getD []) pi x with
    | none => simp [hh] at h
    | some r =>
      obtain ⟨d, s'⟩ := r
      simp only [hh, Option.some.injEq, Prod.mk.injEq] at h
      obtain ⟨rfl, rfl⟩ := h
      obtain ⟨this, q1, q2⟩ := hhi _ _ _ _ _ (dataB_of_strB (ht hc.2)) hst (htq hc.2) hqs hh
      exact ⟨fun _ => this.str, fun ha => by rw [ha] at hc; exact absurd hc.2 (by decide), this.stOK, this.le, this.html,
        fun _ => q1, q2⟩
  · simp only [Option.some.injEq, Prod.mk.injEq] at h
    obtain ⟨rfl, rfl⟩ := h
    exact ⟨ht, fun _ => rfl, hst, Nat.le_refl _, rfl, htq, hqs⟩

theorem hiNodeXB_spec {wl : Bool} {hi : HIX} (hhi : HIokXB wl hi) {pi : Nat} {n n' : Node} {x x' : XSt}
    (hn : SNodeB x.st.stash.length n) (hst : StOKB x.st.stash) (hnq : QN wl n) (hqs : QSt wl x.st.stash)
    (h : hiNodeX hi pi n x = some (n', x')) :
    SNodeB x'.st.stash.length n' ∧ n'.children = n.children ∧ (n.tail = none → n'.tail = none) ∧
    n'.tag = n.tag ∧ StOKB x'.st.stash ∧ x.st.stash.length ≤ x'.st.stash.length ∧ x'.st.html = x.st.html ∧
    QN wl n' ∧ QSt wl x'.st.stash := by
  unfold hiNodeX at h
  cases h1 : hiOptX hi n.text n.textAtomic (pi + 1) x with
  | none => simp [h1] at h
  | some r1 =>
    obtain ⟨t, x1⟩ := r1
    simp only [h1] at h
    cases h2 : hiOptX hi n.tail n.tailAtomic pi x1 with
    | none => simp [h2] at h
    | some r2 =>
      obtain ⟨tl, x2⟩ := r2
      simp only [h2, Option.some.injEq, Prod.mk.injEq] at h
      obtain ⟨rfl, rfl⟩ := h
      obtain ⟨g1, g2, g3, g4, g5⟩ := hn
      have htext : n.textAtomic = false → StrB x.st.stash.length n.text := by
        intro ha
        by_cases hc : isCode n = true
        · rw [if_pos hc] at g5; rw [g5.1] at ha; cases ha
        · rw [if_neg hc] at g5; exact g5.2
      obtain ⟨a1, a1', a2, a3, a4, a5, a6⟩ := hiOptXB_spec hhi htext hst hnq.1 hqs h1
      obtain ⟨b1, -, b2, b3, b4, b5, b6⟩ := hiOptXB_spec hhi (fun _ => g4.mono a3) a2 (fun _ => hnq.2) a6 h2
      refine ⟨⟨g1, g2, g3, b1 g3, ?_⟩, rfl, ?_, rfl, b2, Nat.le_trans a3 b3, b4.trans a4, ⟨a5, b5 g3⟩, b6⟩
      · by_cases hc : isCode n = true
        · have hc' : isCode ({ n with text := t, tail := tl } : Node) = true := hc
          rw [if_pos hc] at g5; rw [if_pos hc']
          have ht : t = n.text := a1' g5.1
          have htl : tl = n.tail := by
            unfold hiOptX at h2
            rw [g5.2.2.2] at h2
            simp only [Node.truthy, Bool.false_and, Bool.false_eq_true, if_false, Option.some.injEq,
              Prod.mk.injEq] at h2
            rw [← h2.1, g5.2.2.2]
          exact ⟨g5.1, by rw [ht]; exact g5.2.1, g5.2.2.1, by rw [htl]; exact g5.2.2.2⟩
        · have hc' : ¬ isCode ({ n with text := t, tail := tl } : Node) = true := hc
          rw [if_neg hc] at g5; rw [if_neg hc']
          exact ⟨g5.1, (a1 g5.1).mono b3⟩
      · intro hn
        unfold hiOptX at h2
        rw [hn] at h2
        simp only [Node.truthy, Bool.false_and, Bool.false_eq_true, if_false, Option.some.injEq, Prod.mk.injEq] at h2
        exact h2.1.symm

theorem hiNodesXB_spec {wl : Bool} {hi : HIX} (hhi : HIokXB wl hi) {pi : Nat} :
    ∀ (l l' : List Node) (x x' : XSt), (∀ c ∈ l, c.Forall (SNodeB x.st.stash.length)) → StOKB x.st.stash →
      (∀ c ∈ l, c.Forall (QN wl)) → QSt wl x.st.stash →
      hiNodesX hi pi l x = some (l', x') →
      (∀ c ∈ l', c.Forall (SNodeB x'.st.stash.length)) ∧ StOKB x'.st.stash ∧
        x.st.stash.length ≤ x'.st.stash.length ∧ x'.st.html = x.st.html ∧
        (∀ c ∈ l', c.Forall (QN wl)) ∧ QSt wl x'.st.stash := by
  intro l
  induction l with
  | nil =>
    intro l' x x' _ hst _ hqs h
    simp only [hiNodesX, Option.some.injEq, Prod.mk.injEq] at h
    obtain ⟨rfl, rfl⟩ := h
    exact ⟨by simp, hst, Nat.le_refl _, rfl, by simp, hqs⟩
  | cons n r ih =>
    intro l' x x' hl hst hlq hqs h
    simp only [hiNodesX] at h
    cases h1 : hiNodeX hi pi n x with
    | none => simp [h1] at h
    | some r1 =>
      obtain ⟨n', x1⟩ := r1
      simp only [h1] at h
      cases h2 : hiNodesX hi pi r x1 with
      | none => simp [h2] at h
      | some r2 =>
        obtain ⟨r', x2⟩ := r2
        simp only [h2, Option.some.injEq, Prod.mk.injEq] at h
        obtain ⟨rfl, rfl⟩ := h
        have hn := hl n (by simp)
        have hnq := hlq n (by simp)
        rw [Node.forall_iff] at hn hnq
        obtain ⟨a1, a2, -, -, a4, a5, a6, a7, a8⟩ := hiNodeXB_spec hhi hn.1 hst hnq.1 hqs h1
        obtain ⟨b1, b2, b3, b4, b5, b6⟩ := ih r' x1 x2
          (fun c hc => forall_SNodeB_mono a5 (hl c (by simp [hc]))) a4 (fun c hc => hlq c (by simp [hc])) a8 h2
        refine ⟨?_, b2, Nat.le_trans a5 b3, b4.trans a6, ?_, b6⟩
        · intro c hc
          rcases List.mem_cons.1 hc with rfl | hc
          · rw [Node.forall_iff]
            refine ⟨a1.mono b3, ?_⟩
            intro g hg
            rw [a2] at hg
            exact forall_SNodeB_mono (Nat.le_trans a5 b3) (hn.2 g hg)
          · exact b1 c hc
        · intro c hc
          rcases List.mem_cons.1 hc with rfl | hc
          · rw [Node.forall_iff]
            refine ⟨a7, ?_⟩
            intro g hg
            rw [a2] at hg
            exact hnq.2 g hg
          · exact b5 c hc

/-! ### `applyPatternX`, `hiLoopX`, `handleInlineX` -/

/-- the nested `handleInlineX` calls on the element a pattern returned -/
def elStepX (hi : HIX) (pi : Nat) (n : Node) (x : XSt) : Option (Node × XSt) :=
  if n.text.isSome && n.textAtomic then some (n, x)
  else
    match hiNodeX hi pi { n with children := [] } x with
    | none => none
    | some (n1, x1) =>
      match hiNodesX hi pi n.children x1 with
      | none => none
      | some (kids, x2) => some ({ n1 with children := kids }, x2)

theorem applyPatternX_eq (xc : XCfg) (hi : HIX) (pi : Nat) (data : Str) (si : Nat) (x : XSt) :
    applyPatternX xc hi pi data si x =
      match xc.table[pi]? with
      | none => some (data, false, 0, x)
      | some k =>
        match findX xc k data si x with
        | none => none
        | some (none, x) => some (data, false, 0, x)
        | some (some f, x) =>
          match f.node with
          | .none => some (data, true, f.stop.toNat, x)
          | .str s => some (data.take f.start ++ (stashX x (.str s)).1 ++ pyDrop data f.stop, true, 0,
              (stashX x (.str s)).2)
          | .el n =>
            match elStepX hi pi n x with
            | none => none
            | some (n', x1) =>
              some (data.take f.start ++ (stashX x1 (.node n')).1 ++ pyDrop data f.stop, true, 0,
                (stashX x1 (.node n')).2) := rfl

theorem elStepXB_spec {wl : Bool} {hi : HIX} (hhi : HIokXB wl hi) {pi : Nat} {n n' : Node} {x x1 : XSt}
    (hraw : n.Forall (SNodeB x.st.stash.length)) (htl : n.tail = none) (hst : StOKB x.st.stash)
    (hnq : n.Forall (QN wl)) (hqs : QSt wl x.st.stash)
    (h : elStepX hi pi n x = some (n', x1)) :
    ItemOKB x1.st.stash.length (.node n') ∧ StOKB x1.st.stash ∧ x.st.stash.length ≤ x1.st.stash.length ∧
      x1.st.html = x.st.html ∧ n'.Forall (QN wl) ∧ QSt wl x1.st.stash := by
  unfold elStepX at h
  split at h
  · simp only [Option.some.injEq, Prod.mk.injEq] at h
    obtain ⟨rfl, rfl⟩ := h
    exact ⟨⟨hraw, htl⟩, hst, Nat.le_refl _, rfl, hnq, hqs⟩
  · cases h1 : hiNodeX hi pi { n with children := [] } x with
    | none => simp [h1] at h
    | some r1 =>
      obtain ⟨n1, sa⟩ := r1
      simp only [h1] at h
      cases h2 : hiNodesX hi pi n.children sa with
      | none => simp [h2] at h
      | some r2 =>
        obtain ⟨kids, sb⟩ := r2
        simp only [h2, Option.some.injEq, Prod.mk.injEq] at h
        obtain ⟨rfl, rfl⟩ := h
        rw [Node.forall_iff] at hraw hnq
        have hs' : SNodeB x.st.stash.length { n with children := [] } := by
          obtain ⟨a1, a2, a3, a4, a5⟩ := hraw.1
          refine ⟨a1, a2, a3, a4, ?_⟩
          by_cases hc : isCode n = true
          · have hc' : isCode ({ n with children := [] } : Node) = true := hc
            rw [if_pos hc] at a5; rw [if_pos hc']
            exact ⟨a5.1, a5.2.1, rfl, a5.2.2.2⟩
          · have hc' : ¬ isCode ({ n with children := [] } : Node) = true := hc
            rw [if_neg hc] at a5; rw [if_neg hc']; exact a5
        have hq' : QN wl { n with children := [] } := hnq.1
        obtain ⟨a1, a2, a3, atag, a4, a5, a6, a7, a8⟩ := hiNodeXB_spec hhi hs' hst hq' hqs h1
        obtain ⟨b1, b2, b3, b4, b5, b6⟩ := hiNodesXB_spec hhi n.children kids sa _
          (fun c hc => forall_SNodeB_mono a5 (hraw.2 c hc)) a4 hnq.2 a8 h2
        refine ⟨⟨?_, a3 htl⟩, b2, Nat.le_trans a5 b3, b4.trans a6, ?_, b6⟩
        · rw [Node.forall_iff]
          refine ⟨?_, b1⟩
          -- the element with its new children: a `code` element has none and keeps none
          obtain ⟨c1, c2, c3, c4, c5⟩ := a1.mono b3
          refine ⟨c1, c2, c3, c4, ?_⟩
          by_cases hc : isCode n1 = true
          · have hc' : isCode ({ n1 with children := kids } : Node) = true := hc
            rw [if_pos hc] at c5; rw [if_pos hc']
            refine ⟨c5.1, c5.2.1, ?_, c5.2.2.2⟩
            have hcn : isCode n = true := by
              have : n1.tag = n.tag := atag
              simpa [isCode, this] using hc
            have := hraw.1.2.2.2.2
            rw [if_pos hcn] at this
            have hk : n.children = [] := this.2.2.1
            rw [hk] at h2
            simp only [hiNodesX, Option.some.injEq, Prod.mk.injEq] at h2
            exact h2.1.symm
          · have hc' : ¬ isCode ({ n1 with children := kids } : Node) = true := hc
            rw [if_neg hc] at c5; rw [if_neg hc']; exact c5
        · rw [Node.forall_iff]
          exact ⟨a7, b5⟩

theorem spliceXB_out {wl : Bool} {pi : Nat} {data : Str} {start : Nat} {stop : Int} {x x1 : XSt} {it : StashItem}
    (hd : DomB data) (hs : SpliceB x.st.stash.length pi data start stop)
    (hle : x.st.stash.length ≤ x1.st.stash.length)
    (hst : StOKB x1.st.stash) (hit : ItemOKB x1.st.stash.length it)
    (hq : Qw wl data) (hqs : QSt wl x1.st.stash) (hitq : QItem wl it) :
    DataB pi (stashX x1 it).2.st.stash.length (data.take start ++ (stashX x1 it).1 ++ pyDrop data stop) ∧
      StOKB (stashX x1 it).2.st.stash ∧ x1.st.stash.length ≤ (stashX x1 it).2.st.stash.length ∧
      (stashX x1 it).2.st.html = x1.st.html ∧
      Qw wl (data.take start ++ (stashX x1 it).1 ++ pyDrop data stop) ∧ QSt wl (stashX x1 it).2.st.stash := by
  obtain ⟨o1, o2⟩ := spliceB_out (st := x.st) (st1 := x1.st) hd hs hle hst hit
  exact ⟨o1, o2, by simp [stashX, stashNode], rfl, qw_splice_data hq _ _ _, hqs.push hitq⟩

/-- the result of one step of the pattern loop -/
structure StepOut (wl : Bool) (pi : Nat) (x : XSt) (d : Str) (m : Bool) (si' : Nat) (x' : XSt) : Prop where
  dat : DataB (if m then pi else pi + 1) x'.st.stash.length d
  si : (if m then pi else pi + 1) = 0 → si' = 0
  stOK : StOKB x'.st.stash
  le : x.st.stash.length ≤ x'.st.stash.length
  html : x'.st.html = x.st.html
  q : Qw wl d
  qs : QSt wl x'.st.stash

/-- one step of the pattern loop: the new data, with the invariant of the table index that is tried next -/
theorem applyPatternXB_spec {wl : Bool} {xc : XCfg} (hfm : FMSpecXB wl xc) {hi : HIX} (hhi : HIokXB wl hi) {pi : Nat}
    {data : Str} {si : Nat} {x : XSt} {d : Str} {m : Bool} {si' : Nat} {x' : XSt}
    (hpi : pi < xc.table.length)
    (hsi : pi = 0 → si = 0) (hdat : DataB pi x.st.stash.length data) (hst : StOKB x.st.stash)
    (hq : Qw wl data) (hqs : QSt wl x.st.stash)
    (h : applyPatternX xc hi pi data si x = some (d, m, si', x')) : StepOut wl pi x d m si' x' := by
  rw [applyPatternX_eq] at h
  obtain ⟨k, hk⟩ : ∃ k, xc.table[pi]? = some k := ⟨xc.table[pi], List.getElem?_eq_getElem hpi⟩
  simp only [hk] at h
  cases hf : findX xc k data si x with
  | none => simp [hf] at h
  | some r =>
    obtain ⟨fo, x0⟩ := r
    obtain ⟨ehtml, estash, hfo, hno⟩ := hfm pi k data si x fo x0 hk hsi hdat hq hf
    have hst0 : StOKB x0.st.stash := by rw [estash]; exact hst
    have hqs0 : QSt wl x0.st.stash := by rw [estash]; exact hqs
    cases fo with
    | none =>
      simp only [hf, Option.some.injEq, Prod.mk.injEq] at h
      obtain ⟨rfl, rfl, rfl, rfl⟩ := h
      refine ⟨?_, ?_, hst0, by rw [estash]; exact Nat.le_refl _, ehtml, hq, hqs0⟩
      · simp only [Bool.false_eq_true, if_false]
        rw [estash]
        exact ⟨hdat.wf, hdat.dom, hdat.adj, btInv_of_done (hno rfl)⟩
      · simp only [Bool.false_eq_true, if_false]
        intro h; omega
    | some f =>
      obtain ⟨hfo, hfq⟩ := hfo f rfl
      rw [← estash] at hfo hdat
      simp only [hf] at h
      unfold FoundOKB at hfo
      unfold FoundQ at hfq
      cases hnode : f.node with
      | none =>
        simp only [hnode, Option.some.injEq, Prod.mk.injEq] at h hfo
        obtain ⟨rfl, rfl, rfl, rfl⟩ := h
        refine ⟨by simpa using hdat, ?_, hst0, by rw [estash]; exact Nat.le_refl _, ehtml, hq, hqs0⟩
        simp only [if_true]
        intro h; omega
      | str s =>
        simp only [hnode] at h hfo hfq
        simp only [Option.some.injEq, Prod.mk.injEq] at h
        obtain ⟨rfl, rfl, rfl, rfl⟩ := h
        obtain ⟨o1, o2, o3, o4, o5, o6⟩ :=
          spliceXB_out hdat.dom hfo.1 (Nat.le_refl _) hst0 (it := .str s) hfo.2 hq hqs0 hfq
        exact ⟨by simpa using o1, fun _ => rfl, o2, by rw [← estash]; exact o3, o4.trans ehtml, o5, o6⟩
      | el n =>
        simp only [hnode] at h hfo hfq
        cases hel : elStepX hi pi n x0 with
        | none => simp [hel] at h
        | some r =>
          obtain ⟨n', x1⟩ := r
          simp only [hel, Option.some.injEq, Prod.mk.injEq] at h
          obtain ⟨rfl, rfl, rfl, rfl⟩ := h
          obtain ⟨k1, k2, k3, k4, k5, k6⟩ := elStepXB_spec hhi hfo.2.1 hfo.2.2.1 hst0 hfq hqs0 hel
          obtain ⟨o1, o2, o3, o4, o5, o6⟩ := spliceXB_out hdat.dom hfo.1 k3 k2 k1 hq k6 (it := .node n') k5
          exact ⟨by simpa using o1, fun _ => rfl, o2, by rw [← estash]; exact Nat.le_trans k3 o3,
            (o4.trans k4).trans ehtml, o5, o6⟩

theorem hiLoopXB_spec {wl : Bool} {count : Nat} (hcount : 1 ≤ count)
    {ap : Nat → Str → Nat → XSt → Option (Str × Bool × Nat × XSt)}
    (hap : ∀ pi data si x d m si' x', pi < count → (pi = 0 → si = 0) → DataB pi x.st.stash.length data →
      StOKB x.st.stash → Qw wl data → QSt wl x.st.stash → ap pi data si x = some (d, m, si', x') →
      StepOut wl pi x d m si' x') :
    ∀ (g : Nat) (data : Str) (pi si : Nat) (x : XSt) (d : Str) (x' : XSt), (pi = 0 → si = 0) →
      DataB pi x.st.stash.length data → StOKB x.st.stash → Qw wl data → QSt wl x.st.stash →
      hiLoopX count ap g data pi si x = some (d, x') →
      HIOutB x.st d x'.st ∧ Qw wl d ∧ QSt wl x'.st.stash := by
  intro g
  induction g with
  | zero => intro data pi si x d x' _ _ _ _ _ h; simp [hiLoopX] at h
  | succ g ih =>
    intro data pi si x d x' hsi hdat hst hq hqs h
    simp only [hiLoopX] at h
    split at h
    · rename_i hpi
      cases ha : ap pi data si x with
      | none => simp [ha] at h
      | some r =>
        obtain ⟨d1, m, si1, x1⟩ := r
        simp only [ha] at h
        have o := hap pi data si x d1 m si1 x1 hpi hsi hdat hst hq hqs ha
        obtain ⟨this, q1, q2⟩ := ih _ _ _ _ _ _ o.si o.dat o.stOK o.q o.qs h
        exact ⟨⟨this.str, this.stOK, Nat.le_trans o.le this.le, this.html.trans o.html⟩, q1, q2⟩
    · rename_i hpi
      simp only [Option.some.injEq, Prod.mk.injEq] at h
      obtain ⟨rfl, rfl⟩ := h
      have hbt : BtDone data := by
        have := hdat.bt
        unfold BtInv at this
        rw [if_neg (by omega)] at this
        exact this
      exact ⟨⟨⟨hdat.wf, hdat.dom, hdat.adj, hbt⟩, hst, Nat.le_refl _, rfl⟩, hq, hqs⟩

theorem handleInlineXB_spec {wl : Bool} {xc : XCfg} (hfm : FMSpecXB wl xc) (hcount : 1 ≤ xc.table.length) :
    ∀ f, HIokXB wl (fun d p s => handleInlineX xc f d p s) := by
  intro f
  induction f with
  | zero => intro data pi x d x' _ _ _ _ h; simp [handleInlineX] at h
  | succ f ih =>
    intro data pi x d x' hdat hst hq hqs h
    simp only [handleInlineX] at h
    exact hiLoopXB_spec hcount (fun pi data si x d m si' x' hpi hsi hdat hst hq hqs ha =>
      applyPatternXB_spec hfm ih hpi hsi hdat hst hq hqs ha) _ _ _ _ _ _ _ (fun _ => rfl) hdat hst hq hqs h

theorem hiSpecXB_of_fmSpecXB {wl : Bool} {xc : XCfg} (hfm : FMSpecXB wl xc) (hcount : 1 ≤ xc.table.length) :
    HISpecXB wl xc := by
  intro data x d x' hs hst hq hqs h
  have hdat : DataB 0 x.st.stash.length data := ⟨hs.1, hs.2.1, hs.2.2.1, by unfold BtInv; simpa using hs.2.2.2⟩
  obtain ⟨this, q1, q2⟩ := handleInlineXB_spec hfm hcount _ data 0 x d x' hdat hst hq hqs h
  exact ⟨this.str, this.stOK, this.le, this.html, q1, q2⟩

end MdVerif.NoCtlX
