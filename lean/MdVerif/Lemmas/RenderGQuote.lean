/-
Helper lemmas for `Props/C16RenderG.lean`, part 21: a definition list inside a block quote — the block reaches
`BlockQuoteProcessor` with def_list (and the other block extensions) enabled, the cleaned lines are parsed inside the
`blockquote` element by the definition-list processor.

Core Lean only.
-/
import MdVerif.Lemmas.RenderGDef5
import MdVerif.Lemmas.DocParseQuote

namespace MdVerif.RenderG
open Py Block BlockExt MdVerif.RenderX

/-- the characters the core block recognisers before `quote` react to (without `>`), and `!` -/
def esc7 : List Char := ['#', '-', '_', '*', '+', '.', '!']

/-- a block that reaches the quote processor (table processor off), under any parent, in any state -/
theorem dispatchXT_toQuote (cfg : XCfg) (tab : Nat) (htab : tab > 0) (pb : PB)
    (state : List BState) (refs : Refs) (parent : Node) (b : Str) (rest : List Str)
    (hesc : ∀ c ∈ b, c ∉ esc7) (hvis : Escape.startsVisible b = true)
    (hsecond : (match Escape.secondLine b with | some l => Escape.isEqUnderline l | none => false) = false)
    (hdef : defSearch b = none) (hq : quoteSearch b = some 0) :
    dispatchXT false cfg tab pb state refs parent b rest = quoteP pb state refs parent b rest 0 := by
  have hg : Escape.Guarded esc7 b = true := guardedFrom_of_no_esc _ _ hesc false
  have hl : Escape.LineStartsOk esc7 b = true := by
    simp only [Escape.LineStartsOk, Bool.and_eq_true]
    exact ⟨startOk_of_no_esc _ _ hesc, startsOkNl_of_no_esc _ _ hesc⟩
  have hs : Escape.startOk esc7 b = true := startOk_of_no_esc _ _ hesc
  have hhead : ∀ c, b.head? = some c → c ≠ ' ' := by
    intro c hc e
    subst e
    cases b with
    | nil => simp at hc
    | cons a t =>
      simp only [List.head?_cons, Option.some.injEq] at hc
      subst hc
      simp [Escape.startsVisible, isSpace] at hvis
  have hbang : '!' ∉ b := fun hm => hesc _ hm (by decide)
  have hadm := admTest_plain tab htab parent b hbang hhead
  have hsp : startsWith b (spaces tab) = false := startsWith_spaces_false_of_head htab hhead
  cases b with
  | nil => simp [Escape.startsVisible] at hvis
  | cons c t =>
    have hc : isSpace c = false := by simpa [Escape.startsVisible] using hvis
    have hc1 : c ≠ '\n' := by intro e; subst e; exact absurd hc (by decide)
    have e1 : ((c :: t).isEmpty || startsWith (c :: t) ['\n']) = false := by simp [startsWith, hc1]
    simp only [dispatchXT, hadm, ite_self, tailEmptyT, e1, hsp, indentTestX, Bool.false_eq_true, if_false,
      Bool.false_and, Bool.and_false,
      Escape.hashSearch_eq_none (esc := esc7) (by decide) _ hl,
      Escape.setextMatch_eq_false (esc := esc7) (by decide) _ hg hsecond,
      Escape.hrSearch_eq_none (esc := esc7) (by decide) (by decide) (by decide) _ hl,
      tailList,
      Escape.listItemMatch_eq_none (esc := esc7) (by decide) (by decide) (by decide) (by decide)
        tab _ _ _ hg hs, Option.isSome_none, tailDef, hdef, ite_self, tailQuote, hq]

/-! ### the quoted lines -/

/-- `> l` -/
def qline0 (l : Str) : Str := '>' :: ' ' :: l

theorem qline0_eq (l : Str) (h : l ≠ []) : DocParse.qline 0 l = qline0 l := by
  cases l with
  | nil => exact absurd rfl h
  | cons a t => simp [DocParse.qline, qline0, spaces]

theorem nlSearchAux_line {α : Type} (f : Str → Option α) (L R : Str) (hL : '\n' ∉ L) (hR : f R = none) :
    ∀ i, nlSearchAux f i (L ++ '\n' :: R) = nlSearchAux f (i + L.length + 1) R := by
  induction L with
  | nil => intro i; simp [nlSearchAux, hR]
  | cons c r ih =>
    intro i
    have hc : c ≠ '\n' := fun e => hL (e ▸ List.mem_cons_self)
    simp only [List.cons_append, nlSearchAux, hc, if_false, ih (fun hm => hL (List.mem_cons_of_mem _ hm))]
    congr 1
    simp only [List.length_cons]; omega

theorem defAt_gt (X : Str) : defAt ('>' :: X) = none := by
  simp [defAt, countPrefix]

/-- no definition marker at a line start when every line starts with `>` -/
theorem defSearch_gt : ∀ (ls : List Str), ls ≠ [] → (∀ l ∈ ls, '\n' ∉ l) →
    ∀ i, nlSearchAux defAt i (joinLines (ls.map qline0)) = none := by
  intro ls
  induction ls with
  | nil => intro h; exact absurd rfl h
  | cons l r ih =>
    intro _ hnl i
    have hl : '\n' ∉ qline0 l := by
      intro hm
      simp only [qline0, List.mem_cons] at hm
      rcases hm with h | h | h
      · exact absurd h (by decide)
      · exact absurd h (by decide)
      · exact hnl l List.mem_cons_self h
    cases r with
    | nil => exact nlSearchAux_noNl defAt _ i hl
    | cons l' r' =>
      have hR : defAt (joinLines ((l' :: r').map qline0)) = none := by
        cases r' with
        | nil => exact defAt_gt _
        | cons x y =>
          simp only [List.map_cons]
          rw [Block.joinLines_cons_cons]
          exact defAt_gt _
      simp only [List.map_cons] at hR ⊢
      rw [Block.joinLines_cons_cons, nlSearchAux_line defAt _ _ hl hR]
      exact ih (by simp) (fun x hx => hnl x (List.mem_cons_of_mem _ hx)) _

/-- the final empty block, in any state -/
theorem parse_end' (cfg : XCfg) (tab : Nat) (htab : 0 < tab) (f : Nat) (state : List BState) (refs : Refs) (parent : Node)
    (hlast : ∀ c, parent.last? = some c → preCode c = none) :
    parseBlocksXT false cfg tab (f + 1) state refs parent [[]] = some (parent, refs) := by
  have h3 : ∀ pb, dispatchXT false cfg tab pb state refs parent [] [] = some (parent, refs, []) := by
    intro pb
    cases hl : parent.last? with
    | none =>
      simp only [dispatchXT, admTest_plain tab htab _ [] (by simp) (by simp), ite_self, tailEmptyT, List.isEmpty_nil,
        Bool.true_or, if_true, emptyP, hl, List.drop_nil]
    | some c =>
      simp only [dispatchXT, admTest_plain tab htab _ [] (by simp) (by simp), ite_self, tailEmptyT, List.isEmpty_nil,
        Bool.true_or, if_true, emptyP, hl, hlast c hl, List.drop_nil]
  cases f <;> simp only [parseBlocksXT, h3]

theorem joinLines_head (x : Str) (r : List Str) : ∃ Y, joinLines (x :: r) = x ++ Y := by
  cases r with
  | nil => exact ⟨[], by simp [joinLines, join]⟩
  | cons y z => exact ⟨_, Block.joinLines_cons_cons _ _ _⟩

theorem isEqUnderline_gt (X : Str) : Escape.isEqUnderline ('>' :: X) = false := by
  simp [Escape.isEqUnderline, spanLen]

/-- the lines of the quoted definition list -/
def qdLines (t0 : Str) (tr : List Str) (d : Str) (ds : List Str) : List Str := (t0 :: tr) ++ (d :: ds).map defLine

/-- the source: every line prefixed with `> ` -/
def qdSrc (t0 : Str) (tr : List Str) (d : Str) (ds : List Str) : Str := joinLines ((qdLines t0 tr d ds).map qline0)

theorem qdLines_facts (t0 : Str) (tr : List Str) (d : Str) (ds : List Str) (ht : ∀ l ∈ t0 :: tr, PlainFacts l)
    (hd : ∀ l ∈ d :: ds, PlainFacts l) :
    ∀ l ∈ qdLines t0 tr d ds, l ≠ [] ∧ '\n' ∉ l ∧ (∀ c ∈ l, c = ':' ∨ DocSpec.isAlnumSp c = true) ∧
      ∃ c ∈ l, isSpace c = false := by
  intro l hl
  rcases List.mem_append.1 hl with h | h
  · have hp := ht l h
    obtain ⟨a, b, rfl⟩ : ∃ a b, l = a :: b := by
      cases l with
      | nil => exact absurd rfl hp.ne
      | cons a b => exact ⟨a, b, rfl⟩
    exact ⟨by simp, hp.noNl, fun c hc => Or.inr (hp.chars c hc),
      a, List.mem_cons_self, DocParse.alnum_visible a (hp.chars a List.mem_cons_self) (hp.head a rfl)⟩
  · obtain ⟨x, hx, rfl⟩ := List.mem_map.1 h
    have hp := hd x hx
    refine ⟨by simp [defLine], nl_not_mem_defLine x hp, ?_, ':', by simp [defLine], by decide⟩
    intro c hc
    simp only [defLine, List.mem_cons] at hc
    rcases hc with h | h | h | h | h
    · exact Or.inl h
    · exact Or.inr (by rw [h]; decide)
    · exact Or.inr (by rw [h]; decide)
    · exact Or.inr (by rw [h]; decide)
    · exact Or.inr (hp.chars c h)

theorem qdSrc_qlines (t0 : Str) (tr : List Str) (d : Str) (ds : List Str) (ht : ∀ l ∈ t0 :: tr, PlainFacts l)
    (hd : ∀ l ∈ d :: ds, PlainFacts l) :
    qdSrc t0 tr d ds = joinLines ((qdLines t0 tr d ds).map (DocParse.qline 0)) := by
  unfold qdSrc
  congr 1
  apply List.map_congr_left
  intro l hl
  exact (qline0_eq l (qdLines_facts t0 tr d ds ht hd l hl).1).symm

/-- the blockquote with the list -/
def bqOf (kids : List Node) : Node := { Node.el "blockquote" with children := kids }

/-- the block stage -/
theorem parseDocumentXT_defQuote (cfg : XCfg) (hdef : cfg.defList = true) (tab : Nat) (htab : tab > 0)
    (t0 : Str) (tr : List Str) (d : Str) (ds : List Str)
    (ht : ∀ l ∈ t0 :: tr, PlainFacts l) (hd : ∀ l ∈ d :: ds, PlainFacts l) :
    parseDocumentXT false cfg tab (qdSrc t0 tr d ds ++ ['\n', '\n']) =
      some (rootOf [bqOf [dlNode (t0 :: tr) (d :: ds)]], []) := by
  have hF := qdLines_facts t0 tr d ds ht hd
  have hne : qdLines t0 tr d ds ≠ [] := by simp [qdLines]
  have hq0 : ∀ l ∈ (qdLines t0 tr d ds).map qline0, l ≠ [] ∧ '\n' ∉ l := by
    intro l hl
    obtain ⟨x, hx, rfl⟩ := List.mem_map.1 hl
    refine ⟨by simp [qline0], ?_⟩
    intro hm
    simp only [qline0, List.mem_cons] at hm
    rcases hm with h | h | h
    · exact absurd h (by decide)
    · exact absurd h (by decide)
    · exact (hF x hx).2.1 h
  -- the document is one block
  have hnel : Escape.noEmptyLineFrom true (qdSrc t0 tr d ds) = true := nel_block _ (by simpa using hne) hq0
  have hsplit : splitS ['\n', '\n'] (qdSrc t0 tr d ds ++ ['\n', '\n']) = [qdSrc t0 tr d ds, []] := by
    simp only [splitS]; exact Escape.splitAux_blocks true _ hnel
  -- its shape
  obtain ⟨tail, htail⟩ : ∃ tail, qdSrc t0 tr d ds = '>' :: tail := by
    obtain ⟨Y, hY⟩ := joinLines_head (qline0 t0) ((tr ++ (d :: ds).map defLine).map qline0)
    exact ⟨' ' :: t0 ++ Y, by
      rw [show qdSrc t0 tr d ds = joinLines (qline0 t0 :: (tr ++ (d :: ds).map defLine).map qline0) from rfl, hY]
      rfl⟩
  have hchars : ∀ c ∈ qdSrc t0 tr d ds, c = '\n' ∨ c = '>' ∨ c = ':' ∨ DocSpec.isAlnumSp c = true := by
    intro c hc
    rcases DocParse.mem_joinLines hc with rfl | ⟨l, hl, hcl⟩
    · exact Or.inl rfl
    · obtain ⟨x, hx, rfl⟩ := List.mem_map.1 hl
      simp only [qline0, List.mem_cons] at hcl
      rcases hcl with h | h | h
      · exact Or.inr (Or.inl h)
      · exact Or.inr (Or.inr (Or.inr (by rw [h]; decide)))
      · rcases (hF x hx).2.2.1 c h with h' | h'
        · exact Or.inr (Or.inr (Or.inl h'))
        · exact Or.inr (Or.inr (Or.inr h'))
  have hesc : ∀ c ∈ qdSrc t0 tr d ds, c ∉ esc7 := by
    intro c hc hm
    have hall : ∀ x ∈ esc7, x ≠ '\n' ∧ x ≠ '>' ∧ x ≠ ':' ∧ DocSpec.isAlnumSp x = false := by decide
    have hx := hall c hm
    rcases hchars c hc with h | h | h | h
    · exact hx.1 h
    · exact hx.2.1 h
    · exact hx.2.2.1 h
    · rw [h] at hx; exact absurd hx.2.2.2 (by decide)
  have hvis : Escape.startsVisible (qdSrc t0 tr d ds) = true := by rw [htail]; simp [Escape.startsVisible, isSpace]
  have hsecond : (match Escape.secondLine (qdSrc t0 tr d ds) with
      | some l => Escape.isEqUnderline l | none => false) = false := by
    unfold Escape.secondLine
    have hlines : lines (qdSrc t0 tr d ds) = (qdLines t0 tr d ds).map qline0 :=
      joinLines_lines (by simpa using hne) (fun p hp => (hq0 p hp).2)
    rw [hlines, List.getElem?_map]
    cases (qdLines t0 tr d ds)[1]? with
    | none => rfl
    | some z => exact isEqUnderline_gt _
  have hdefn : defSearch (qdSrc t0 tr d ds) = none := by
    have h0 : defAt (qdSrc t0 tr d ds) = none := by rw [htail]; exact defAt_gt _
    simp only [defSearch, nlSearch, h0]
    rw [show qdSrc t0 tr d ds = joinLines ((qdLines t0 tr d ds).map qline0) from rfl,
      defSearch_gt _ hne (fun l hl => (hF l hl).2.1) 0]
  have hqs : quoteSearch (qdSrc t0 tr d ds) = some 0 := by
    rw [htail]
    exact DocParse.quoteSearch_gt 0 (by omega) tail
  -- the cleaned lines are the definition list source
  have hinner : ∀ l ∈ qdLines t0 tr d ds, DocParse.InnerLine l := fun l hl => ⟨(hF l hl).2.1, Or.inr (hF l hl).2.2.2⟩
  have hclean : joinLines ((lines ((qdSrc t0 tr d ds).drop 0)).map quoteClean) = defSrc (t0 :: tr) (d :: ds) := by
    rw [List.drop_zero, qdSrc_qlines t0 tr d ds ht hd, DocParse.cleaned_qlines 0 (by omega) _ hne hinner]
    rfl
  -- fuel
  have hlen : ds.length + 1 ≤ (qdSrc t0 tr d ds).length := by
    have h1 : (qdLines t0 tr d ds).length ≤ (qdSrc t0 tr d ds).length := by
      have : ∀ (L : List Str), (∀ l ∈ L, l ≠ []) → L.length ≤ (joinLines L).length := by
        intro L
        induction L with
        | nil => intro _; simp
        | cons x r ih =>
          intro h
          have hx := h x List.mem_cons_self
          cases r with
          | nil =>
            cases x with
            | nil => exact absurd rfl hx
            | cons a b => simp [joinLines, join]
          | cons y r' =>
            have := ih (fun l hl => h l (List.mem_cons_of_mem _ hl))
            rw [Block.joinLines_cons_cons]
            simp only [List.length_append, List.length_cons] at this ⊢
            omega
      have := this ((qdLines t0 tr d ds).map qline0) (fun l hl => (hq0 l hl).1)
      simpa [qdSrc] using this
    simp only [qdLines, List.length_append, List.length_cons, List.length_map] at h1
    omega
  obtain ⟨g, hg⟩ : ∃ g, fuelForX (qdSrc t0 tr d ds ++ ['\n', '\n']).length = (g + 1 + ds.length + 1) + 1 := by
    refine ⟨fuelForX (qdSrc t0 tr d ds ++ ['\n', '\n']).length - ds.length - 3, ?_⟩
    simp only [fuelForX, List.length_append, List.length_cons, List.length_nil]
    omega
  have hds : ∀ x ∈ ds, PlainFacts x := fun x hx => hd x (List.mem_cons_of_mem _ hx)
  -- the definition list inside the blockquote
  have hsplit2 : splitS ['\n', '\n'] (defSrc (t0 :: tr) (d :: ds)) = [defSrc (t0 :: tr) (d :: ds)] := by
    have hnel2 := nel_defSrc ⟨t0, tr, d, ds, []⟩ ⟨ht, hd, by intro p hp; cases hp⟩
    simp only [splitS]
    exact DocParse.splitAux_single true _ hnel2
  have hinside : parseChunk (parseBlocksXT false cfg tab (g + 1 + ds.length + 1)) ([] ++ [.blockquote]) []
      (Node.el "blockquote") (defSrc (t0 :: tr) (d :: ds)) = some (bqOf [dlNode (t0 :: tr) (d :: ds)], []) := by
    simp only [parseChunk, hsplit2]
    have hstep1 := dispatch_defSrc cfg hdef tab htab (g + ds.length) ([] ++ [.blockquote]) [] (Node.el "blockquote") rfl
      t0 tr d ds [] ht hd
    rw [show g + 1 + ds.length + 1 = (g + ds.length + 1) + 1 by omega]
    simp only [parseBlocksXT, hstep1]
    cases ds with
    | nil =>
      simp only [defsText, List.map_nil, joinLines, join, List.isEmpty_nil, if_true, List.length_nil, Nat.add_zero]
      simp [parseBlocksXT, bqOf, Node.append, Node.el]
    | cons e es =>
      have hne3 : (defsText (e :: es)).isEmpty = false := by
        rw [defsText_cons]; simp [defLine]
      simp only [hne3, Bool.false_eq_true, if_false]
      have hloop := loop_defs cfg hdef tab htab ([] ++ [.blockquote]) [] [] (e :: es)
        ((Node.el "blockquote").append (dlNode (t0 :: tr) [d])) (dlNode (t0 :: tr) [d]) g (by simp) hds
        (CodeLaw.last_append _ _) (by simp only [dlNode, Node.isTag, Node.el]; decide)
        (by
          have : dlNode (t0 :: tr) [d] =
              ({ Node.el "dl" with children := (t0 :: tr).map (fun t => mkText "dt" t) } : Node).append (ddNode d) := by
            simp [dlNode, Node.append]
          rw [this]; exact lastDdTight_append _ d)
      rw [show g + (e :: es).length + 1 = g + 1 + (e :: es).length by omega, hloop, CodeLaw.setLast_append]
      simp [parseBlocksXT, bqOf, dlNode, Node.append, Node.el, List.append_assoc]
  -- the quote processor
  have hquote : dispatchXT false cfg tab (parseBlocksXT false cfg tab (g + 1 + ds.length + 1)) [] [] (Node.el "div")
      (qdSrc t0 tr d ds) [[]] = some (rootOf [bqOf [dlNode (t0 :: tr) (d :: ds)]], [], [[]]) := by
    rw [dispatchXT_toQuote cfg tab htab _ [] [] (Node.el "div") _ [[]] hesc hvis hsecond hdefn hqs]
    have hpre : parseBlocksXT false cfg tab (g + 1 + ds.length + 1) [] [] (Node.el "div") [List.take 0 (qdSrc t0 tr d ds)] =
        some (Node.el "div", []) := by
      rw [List.take_zero, show g + 1 + ds.length + 1 = (g + 1 + ds.length) + 1 by omega]
      exact parse_end' cfg tab htab _ [] [] _ (by intro c hc; simp [Node.last?, Node.el] at hc)
    simp only [quoteP, hpre, hclean, hinside]
    simp [Node.last?, Node.el, rootOf, Node.append]
  simp only [parseDocumentXT, parseChunk, hsplit]
  rw [hg]
  simp only [parseBlocksXT, hquote]
  exact parse_end' cfg tab htab (g + 1 + ds.length) [] [] (rootOf [bqOf [dlNode (t0 :: tr) (d :: ds)]]) (by
    intro c hc
    simp only [rootOf, Node.last?, Node.el, List.getLast?_singleton, Option.some.injEq] at hc
    subst hc
    have : (bqOf [dlNode (t0 :: tr) (d :: ds)]).isTag "pre" = false := by
      simp only [bqOf, Node.isTag, Node.el]; decide
    simp [preCode, this])

end MdVerif.RenderG
