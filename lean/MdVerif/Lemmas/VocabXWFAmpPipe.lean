/-
C05 on the extension pipeline, removal of the residual hypothesis `hamp` of `C05X_partial`: the block stage and the
composition along `PipelineX.treeX`.

* preprocessors: without fenced_code — or with it, when no fenced block is stored (`fencedLoopA_stash`) — the text
  handed to the block parser holds no STX/ETX at all (`Normalize.normalize` removes them): `prepareX_noctl'`;
* block stage `BlockExt.parseDocumentXT` and the footnote bodies (`parseChunkX`): the class "no STX/ETX" is closed under
  what the extended block parser does (`BlkX.parseDocumentXT_strs` with the instance `strDomX_noctl` of
  `BlkX.StrDomX`: infixes, newline-joins, `lower`, literal strings): every text, tail, attribute value (`class`, `style`,
  `start`) of the block tree and every string of the log (reference definitions, footnote ids, abbreviation keys and
  titles) is free of STX: `block_stage_S`, `parseChunkX_S`;
* footnote tree processor (50): `fnStage_S` (`Lemmas/VocabXWFAmpFn.lean`);
* inline stage (20): `runX_S` (`Lemmas/VocabXWFAmpRun.lean`), over the generalised invariant `G.NodeS`;
* footnote duplicates (15): `duplicates_S`; prettify (10): `G.prettify_S`;
* attr_list (8): `attrList_run_SBv` (`Lemmas/VocabXWFAmpAttr.lean`); abbr (7): `abbr_run_DS`
  (`Lemmas/VocabXWFAmpAbbrDS.lean`); toc (5): `toc_run_K_DS` (`Lemmas/VocabXWFAmpTocDS.lean`); the names the serializer
  needs come from the vocabulary theorem (`nmOK_of_NI`);
* unescape (0): `unescapeTree_QK`; serializer: `inner_no_amp_gn` (`Lemmas/VocabXWFAmpSer.lean`).

`treeX_no_amp`: for EVERY flag set without fenced_code (tables, admonition, def_list, abbr, footnotes, sane_lists,
nl2br, wikilinks, attr_list, toc: any) and every source; `treeX_no_amp_stash`: also with fenced_code, for a source
without fenced block.  What is left out: a source WITH fenced blocks (the text then holds `STX wzxhzdk:N ETX`, and no
class of strings that is closed under infixes — what `BlkX.StrDomX` asks for — implies the invariant of the inline
stage).  Core Lean only.
-/
import MdVerif.Lemmas.VocabXWFAmpSer
import MdVerif.Lemmas.VocabXWFAmpTree
import MdVerif.Lemmas.VocabXWFAmpFn
import MdVerif.Lemmas.VocabXWFAmpToc
import MdVerif.Lemmas.VocabXWFAmpTocDS
import MdVerif.Lemmas.VocabXWFAmpAttr
import MdVerif.Lemmas.VocabXPipe
import MdVerif.Lemmas.VocabXWFBridge
import MdVerif.Lemmas.VocabXWFStash
import MdVerif.Lemmas.AmpFullPat
import MdVerif.Lemmas.PlaceholdersXBlock4

set_option autoImplicit false

namespace MdVerif.VocabXAmp
open Py G PipelineX
open NoCtl (Blk.okc Blk.AllC)

/-! ### the block stage -/

theorem litChar_okc_ascii : ∀ n, n < 128 → NoCtl.BlkX.litChar (Char.ofNat n) = true →
    NoCtl.Blk.okc (Char.ofNat n) = true := by
  decide +kernel

theorem okc_of_ge {c : Char} (h : ¬ c.toNat < 128) : NoCtl.Blk.okc c = true := by
  have h1 : c ≠ NoCtl.STX := by rintro rfl; exact h (by decide)
  have h2 : c ≠ NoCtl.ETX := by rintro rfl; exact h (by decide)
  simp [NoCtl.Blk.okc, h1, h2]

theorem litChar_okc {c : Char} (h : NoCtl.BlkX.litChar c = true) : NoCtl.Blk.okc c = true := by
  by_cases hc : c.toNat < 128
  · exact NoCtl.BlkX.char_ascii (fun c => NoCtl.BlkX.litChar c = true → NoCtl.Blk.okc c = true)
      litChar_okc_ascii c hc h
  · exact okc_of_ge hc

theorem lowerChar_okc_ascii : ∀ n, n < 128 → NoCtl.Blk.okc (Char.ofNat n) = true →
    (lowerChar (Char.ofNat n)).all NoCtl.Blk.okc = true := by
  decide +kernel

/-- `str.lower()` writes no STX/ETX -/
theorem lowerChar_okc (c : Char) (h : NoCtl.Blk.okc c = true) : ∀ d ∈ lowerChar c, NoCtl.Blk.okc d = true := by
  by_cases hc : c.toNat < 128
  · have := NoCtl.BlkX.char_ascii
      (fun c => NoCtl.Blk.okc c = true → (lowerChar c).all NoCtl.Blk.okc = true) lowerChar_okc_ascii c hc h
    exact List.all_eq_true.1 this
  · simp only [lowerChar, hc, if_false]
    cases hf : Generated.Chars.lowerNonAscii.find? (fun e => e.1 = c.toNat) with
    | none =>
      intro d hd
      simp only [List.mem_singleton] at hd
      subst hd; exact h
    | some e =>
      have he := List.mem_of_find?_eq_some hf
      have := List.all_eq_true.mp NoCtl.BlkX.lowerTable_lit e he
      intro d hd
      simp only [List.mem_map] at hd
      obtain ⟨n, hn, rfl⟩ := hd
      exact litChar_okc (List.all_eq_true.mp this n hn)

/-- "no STX, no ETX" is a string class the extended block parser keeps -/
theorem strDomX_noctl : NoCtl.BlkX.StrDomX NoCtl.Blk.okc NoCtl.Blk.okc (NoCtl.Blk.AllC NoCtl.Blk.okc) where
  chars := NoCtl.Blk.charDom_noctl
  allc := fun _ hs => hs
  nil := NoCtl.Blk.allC_nil
  inf := fun _ _ hs ht c hc => hs c (ht.subset hc)
  joinNl := fun _ _ ha hb => NoCtl.Blk.allC_append.2 ⟨ha, NoCtl.Blk.allC_cons.2 ⟨by decide, hb⟩⟩
  lower := lowerChar_okc
  lit := fun _ hs c hc => litChar_okc (hs c hc)

theorem noSTX_of_allC {s : Str} (h : NoCtl.Blk.AllC NoCtl.Blk.okc s) : STX ∉ s := (NoCtl.allC_okc h).1

theorem nodeS_of_bnodeXP {n : Node}
    (h : NoCtl.BlkX.BNodeXP NoCtl.Blk.okc NoCtl.Blk.okc (NoCtl.Blk.AllC NoCtl.Blk.okc) n) : NodeS n := by
  obtain ⟨⟨_, b2, _, b4, b5, _, _⟩, _, _⟩ := h
  refine ⟨?_, SOk_of_noSTX (noSTX_of_allC b4), fun kv hkv => SOkA_of_noSTX (noSTX_of_allC (b2 kv hkv).2)⟩
  by_cases hat : n.textAtomic = true
  · rw [if_pos hat] at b5; exact SOk_of_noSTX (noSTX_of_allC b5)
  · rw [if_neg hat] at b5; exact SOk_of_noSTX (noSTX_of_allC b5)

/-- **the extended block stage on a text without STX/ETX**: no STX in the tree (texts, tails, attribute values) nor in
    the log -/
theorem block_stage_S (tables : Bool) (xc : BlockExt.XCfg) (tab : Nat) {text : Str} (ht : NoCtl.NoCtl text)
    {root : Node} {log : Block.Refs} (hr : BlockExt.parseDocumentXT tables xc tab text = some (root, log)) :
    root.Forall NodeS ∧ NoCtl.BlkX.LogC NoCtl.Blk.okc (NoCtl.Blk.AllC NoCtl.Blk.okc) log := by
  have hp : NoCtl.Blk.AllC NoCtl.Blk.okc text := fun c hc => by
    have := NoCtl.noCtl_iff.1 ht c hc
    simp [NoCtl.Blk.okc, this.1, this.2]
  obtain ⟨h1, h2⟩ := NoCtl.BlkX.parseDocumentXT_strs strDomX_noctl tables xc tab text hp hr
  exact ⟨Node.Forall.mono (fun _ hn => nodeS_of_bnodeXP hn) root h1, h2⟩

/-- without fenced_code the text handed to the block parser is the core's -/
theorem prepareX_noctl {x : Exts} (hfc : x.fencedCode = false) {cfg : Pipeline.Cfg} {src text : Str}
    {stash : List Str} (h : prepareX x cfg src = .ok (text, stash)) : NoCtl.NoCtl text := by
  unfold prepareX at h
  simp only [hfc, Bool.false_eq_true, if_false] at h
  split at h
  · cases h
  · simp only [FootnotesTree.R.ok.injEq, Prod.mk.injEq] at h
    rw [← h.1]
    exact NoCtl.prepare_noctl cfg src

/-- the fenced-code preprocessor: when it stores nothing it leaves the text alone -/
theorem fencedLoopA_stash : ∀ (fuel : Nat) (text : Str) (index : Nat) (stash : List Str) (t' : Str) (stash' : List Str),
    Fenced.fencedLoopA fuel text index stash = .ok t' stash' →
    stash.length ≤ stash'.length ∧ (stash'.length = stash.length → t' = text) := by
  intro fuel
  induction fuel with
  | zero => intro text index stash t' stash' h; simp [Fenced.fencedLoopA] at h
  | succ f ih =>
    intro text index stash t' stash' h
    simp only [Fenced.fencedLoopA] at h
    split at h
    · simp only [Fenced.RunResult.ok.injEq] at h
      obtain ⟨rfl, rfl⟩ := h
      exact ⟨Nat.le_refl _, fun _ => rfl⟩
    · split at h
      · obtain ⟨i1, _⟩ := ih _ _ _ _ _ h
        simp only [List.length_append, List.length_singleton] at i1
        exact ⟨by omega, fun e => by omega⟩
      · split at h
        · exact ih _ _ _ _ _ h
        · obtain ⟨i1, _⟩ := ih _ _ _ _ _ h
          simp only [List.length_append, List.length_singleton] at i1
          exact ⟨by omega, fun e => by omega⟩

/-- the text handed to the block parser when the preprocessors store nothing (no fenced_code, or no fenced block) -/
theorem prepareX_noctl' {x : Exts} {cfg : Pipeline.Cfg} {src text : Str} {stash : List Str}
    (h : prepareX x cfg src = .ok (text, stash)) (hst : stash = []) : NoCtl.NoCtl text := by
  subst hst
  unfold prepareX at h
  simp only at h
  split at h
  · cases h
  · split at h
    · split at h
      · cases h
      · split at h
        · rename_i t' stash' hf
          simp only [FootnotesTree.R.ok.injEq, Prod.mk.injEq] at h
          obtain ⟨rfl, rfl⟩ := h
          have := (fencedLoopA_stash _ _ _ _ _ _ hf).2 rfl
          rw [this]
          exact NoCtl.prepare_noctl cfg src
        · cases h
    · simp only [FootnotesTree.R.ok.injEq, Prod.mk.injEq] at h
      rw [← h.1]
      exact NoCtl.prepare_noctl cfg src

/-- the preprocessors store nothing without fenced_code -/
theorem prepareX_stash_nil' {x : Exts} (hfc : x.fencedCode = false) {cfg : Pipeline.Cfg} {src text : Str}
    {stash : List Str} (h : prepareX x cfg src = .ok (text, stash)) : stash = [] := by
  unfold prepareX at h
  simp only [hfc, Bool.false_eq_true, if_false] at h
  split at h
  · cases h
  · simp only [FootnotesTree.R.ok.injEq, Prod.mk.injEq] at h
    exact h.2.symm

theorem refsS_of_logC {P : Str → Prop} {log : Block.Refs} (x : Exts) (esc : List Char)
    (h : NoCtl.BlkX.LogC NoCtl.Blk.okc P log) : RefsS { esc := esc, refs := (refsX x log).reverse } := by
  have key : ∀ refs : Block.Refs, NoCtl.Blk.RefsC NoCtl.Blk.okc refs →
      RefsS { esc := esc, refs := refs.reverse } := by
    intro refs hc r hr
    have := hc r (List.mem_reverse.1 hr)
    exact ⟨SOkA_of_noSTX (noSTX_of_allC this.1), SOkA_of_noSTX (noSTX_of_allC this.2)⟩
  apply key
  unfold refsX
  split
  · exact NoCtl.BlkX.refsOf_c h
  · exact h.refsC

theorem abbrs_noSTX {P : Str → Prop} {log : Block.Refs} (h : NoCtl.BlkX.LogC NoCtl.Blk.okc P log) :
    ∀ kv ∈ BlockExt.abbrsOf log, G.STX ∉ kv.1 ∧ G.STX ∉ kv.2 :=
  fun kv hkv => ⟨noSTX_of_allC (NoCtl.BlkX.abbrsOf_c h kv hkv).1, noSTX_of_allC (NoCtl.BlkX.abbrsOf_c h kv hkv).2⟩

/-! ### the stages after the inline stage -/

theorem nameChar_ne_stx {c : Char} (h : AttrList.nameChar c = true) : c ≠ G.STX := by
  rintro rfl; revert h; decide

theorem keyOkX_noSTX (x : Exts) {k : Str} (h : VocabX.keyOkX x k = true) : G.STX ∉ k := by
  rcases C05.C05X_attr_list_keys x k h with h' | h'
  · simp only [List.map_cons, List.map_nil, List.mem_cons, List.not_mem_nil, or_false] at h'
    rcases h' with h' | h' | h' | h' | h' | h' | h' | h' <;> (rw [h']; decide)
  · intro hm
    exact nameChar_ne_stx (List.all_eq_true.1 h'.2 _ hm) rfl

open VocabX in
mutual
/-- the names of the vocabulary hold no STX, and no element is a raw-text element -/
theorem nmOK_of_NI (x : Exts) : (n : Node) → BlockExt.allNodes (qtX x) n = true → n.Forall NmOK
  | ⟨tag, attrs, text, ta, children, tail, tla⟩, h => by
    simp only [BlockExt.allNodes, Bool.and_eq_true] at h
    simp only [Node.Forall]
    refine ⟨?_, nmOK_of_NI_kids x children h.2⟩
    cases tag with
    | name t =>
      have h1 := h.1
      simp only [qtX, Bool.and_eq_true, List.all_eq_true] at h1
      obtain ⟨hn, hr⟩ := VocabXWF.tagOkX_isName x h1.1
      exact ⟨⟨t, rfl, (VocabXOut.name_clean hn).1, hr⟩, fun kv hkv => keyOkX_noSTX x (h1.2 kv hkv)⟩
    | comment => have := h.1; simp [qtX] at this
    | pi => have := h.1; simp [qtX] at this
    | none => have := h.1; simp [qtX] at this
    | qname q => have := h.1; simp [qtX] at this
theorem nmOK_of_NI_kids (x : Exts) : (l : List Node) →
    BlockExt.allKids (qtX x) l = true → Node.ForallL NmOK l
  | [], _ => by simp [Node.ForallL]
  | c :: r, h => by
    simp only [BlockExt.allKids, Bool.and_eq_true] at h
    simp only [Node.ForallL]
    exact ⟨nmOK_of_NI x c h.1, nmOK_of_NI_kids x r h.2⟩
end

/-- prettify, attr_list, abbr, toc, unescape -/
theorem lateStages_Q (x : Exts) (cfg : Pipeline.Cfg) {abbrs : List (Str × Str)}
    (ha : ∀ kv ∈ abbrs, G.STX ∉ kv.1 ∧ G.STX ∉ kv.2) {html : List Str}
    (hhtml : ∀ h ∈ html, G.STX ∉ h) {t2 t6 u : Node} (h2 : t2.Forall NodeS)
    (hn2 : BlockExt.NI (VocabX.qtX x) t2)
    (htoc : (if x.toc then
          TocTree.run { fmt := cfg.fmt, post := postX x cfg html } cfg.blockLevel
            (if x.abbr then AbbrTree.run abbrs
                (if x.attrList then AttrListTree.run cfg.blockLevel (TreeProc.prettify t2 cfg.blockLevel)
                  else TreeProc.prettify t2 cfg.blockLevel)
              else (if x.attrList then AttrListTree.run cfg.blockLevel (TreeProc.prettify t2 cfg.blockLevel)
                  else TreeProc.prettify t2 cfg.blockLevel))
        else .ok (if x.abbr then AbbrTree.run abbrs
                (if x.attrList then AttrListTree.run cfg.blockLevel (TreeProc.prettify t2 cfg.blockLevel)
                  else TreeProc.prettify t2 cfg.blockLevel)
              else (if x.attrList then AttrListTree.run cfg.blockLevel (TreeProc.prettify t2 cfg.blockLevel)
                  else TreeProc.prettify t2 cfg.blockLevel))) = .ok t6)
    (hu : TreeProc.unescapeTree t6 = some u) : u.Forall NodeQ := by
  have h3 := prettify_S h2 cfg.blockLevel
  have hn3 := VocabX.prettify_NI hn2 cfg.blockLevel
  -- attr_list
  have h4 : ∀ t4, t4 = (if x.attrList then AttrListTree.run cfg.blockLevel (TreeProc.prettify t2 cfg.blockLevel)
      else TreeProc.prettify t2 cfg.blockLevel) → t4.Forall NodeSN := by
    intro t4 e
    subst e
    split
    · rename_i hal
      have n4 := VocabX.attrRun_NI (VocabX.keyQ_X_al x hal) cfg.blockLevel hn3
      exact NoCtl.BlkB.forall_and _
        (attrList_run_SBv cfg.blockLevel (Node.Forall.mono (fun _ hn => nodeSBv_of_S hn) _ h3))
        (nmOK_of_NI x _ n4)
    · exact NoCtl.BlkB.forall_and _ (Node.Forall.mono (fun _ hn => nodeSBv_of_S hn) _ h3) (nmOK_of_NI x _ hn3)
  generalize ht4 : (if x.attrList then AttrListTree.run cfg.blockLevel (TreeProc.prettify t2 cfg.blockLevel)
      else TreeProc.prettify t2 cfg.blockLevel) = t4 at htoc
  have hsn := h4 t4 ht4.symm
  -- abbr
  have h5 : DSN (if x.abbr then AbbrTree.run abbrs t4 else t4) := by
    split
    · exact abbr_run_DS ha hsn
    · exact dsn_of_SN _ hsn
  refine unescapeTree_QK _ _ hu ?_
  split at htoc
  · exact toc_run_K_DS h5 (postX_K x cfg hhtml) htoc
  · simp only [TocTree.R.ok.injEq] at htoc
    subst htoc
    exact forallK_of_DSN _ h5

/-! ### the footnote tree processor -/

theorem parseChunkX_S (x : Exts) (cfg : Pipeline.Cfg) (log : Block.Refs) (text : Str) (sur : Node)
    (log' : Block.Refs) (hl : NoCtl.BlkX.LogC NoCtl.Blk.okc (NoCtl.Blk.AllC NoCtl.Blk.okc) log)
    (ht : NoCtl.Blk.AllC NoCtl.Blk.okc text) (h : parseChunkX x cfg log text = some (sur, log')) :
    sur.Forall NodeS ∧ NoCtl.BlkX.LogC NoCtl.Blk.okc (NoCtl.Blk.AllC NoCtl.Blk.okc) log' := by
  obtain ⟨h1, h2⟩ := NoCtl.BlkX.parseChunkXT_strs strDomX_noctl x.tables x.blockCfg cfg.tab _ log hl text ht h
  exact ⟨Node.Forall.mono (fun _ hn => nodeS_of_bnodeXP hn) sur h1, h2⟩

/-- the footnote stage of `treeX` (priority 50): the tree with the footnote `div` and the new log -/
theorem fnStage_S (x : Exts) (cfg : Pipeline.Cfg) {root root1 : Node} {log log1 : Block.Refs}
    (hroot : root.Forall NodeS) (hlog : NoCtl.BlkX.LogC NoCtl.Blk.okc (NoCtl.Blk.AllC NoCtl.Blk.okc) log)
    (h : (if x.footnotes then
          match FootnotesTree.makeDiv (parseChunkX x cfg) fnCount (BlockExt.footnotesOf log) log with
          | .ok (some div, log') => FootnotesTree.R.ok (FootnotesTree.placeDiv root div, log')
          | .ok (none, log') => .ok (root, log')
          | .oof => .oof
          | .ood => .ood
        else .ok (root, log)) = .ok (root1, log1)) :
    root1.Forall NodeS ∧ NoCtl.BlkX.LogC NoCtl.Blk.okc (NoCtl.Blk.AllC NoCtl.Blk.okc) log1 := by
  split at h
  · have hf : ∀ kv ∈ BlockExt.footnotesOf log, G.STX ∉ kv.1 ∧ NoCtl.Blk.AllC NoCtl.Blk.okc kv.2 :=
      fun kv hkv => ⟨noSTX_of_allC (NoCtl.BlkX.footnotesOf_c hlog kv hkv).1, (NoCtl.BlkX.footnotesOf_c hlog kv hkv).2⟩
    split at h
    · rename_i div log' hmk
      simp only [FootnotesTree.R.ok.injEq, Prod.mk.injEq] at h
      obtain ⟨rfl, rfl⟩ := h
      obtain ⟨d1, d2⟩ := makeDiv_S fnCount (parseChunkX_S x cfg) hf hlog hmk
      exact ⟨placeDiv_S hroot (d1 div rfl), d2⟩
    · rename_i log' hmk
      simp only [FootnotesTree.R.ok.injEq, Prod.mk.injEq] at h
      obtain ⟨rfl, rfl⟩ := h
      exact ⟨hroot, (makeDiv_S fnCount (parseChunkX_S x cfg) hf hlog hmk).2⟩
    · cases h
    · cases h
  · simp only [FootnotesTree.R.ok.injEq, Prod.mk.injEq] at h
    obtain ⟨rfl, rfl⟩ := h
    exact ⟨hroot, hlog⟩

/-! ### the pipeline -/

open VocabX in
/-- **the tree handed to the serializer** has no STX followed by `a`, in any text, tail or attribute value — every
    flag set without fenced_code -/
theorem treeX_Q (x : Exts) (cfg : Pipeline.Cfg) (hesc : EscTwo (escX x cfg)) (src : Str)
    (hst : ∀ text stash, prepareX x cfg src = .ok (text, stash) → stash = []) (u : Node)
    (html : List Str) (h : treeX x cfg src = .ok u html) : u.Forall NodeQ := by
  unfold treeX at h
  split at h
  · cases h
  · cases h
  · rename_i text stash hprep
    have hstash : stash = [] := hst _ _ hprep
    have htext := prepareX_noctl' hprep hstash
    split at h
    · cases h
    · rename_i root log hparse
      obtain ⟨hroot, hlog⟩ := block_stage_S x.tables x.blockCfg cfg.tab htext hparse
      have nroot : BlockExt.NI (qtX x) root :=
        parseDocumentXT_NI (tagsA_X x) (tablesA_X x) (qtX_div x) cfg.tab text hparse
      dsimp only at h
      split at h
      · cases h
      · cases h
      · rename_i root1 log1 hfs
        obtain ⟨hroot1, hlog1⟩ := fnStage_S x cfg hroot hlog hfs
        have nroot1 : BlockExt.NI (qtX x) root1 := by
          split at hfs
          · rename_i hfn
            split at hfs
            · rename_i div log' hmk
              simp only [FootnotesTree.R.ok.injEq, Prod.mk.injEq] at hfs
              obtain ⟨rfl, _⟩ := hfs
              exact placeDiv_NI nroot
                (makeDiv_NI (fnQ_X x hfn) (fun l t s l' hh => parseChunkX_NI x cfg l t hh) _ _ _ hmk)
            · simp only [FootnotesTree.R.ok.injEq, Prod.mk.injEq] at hfs
              obtain ⟨rfl, _⟩ := hfs; exact nroot
            · cases hfs
            · cases hfs
          · simp only [FootnotesTree.R.ok.injEq, Prod.mk.injEq] at hfs
            obtain ⟨rfl, _⟩ := hfs; exact nroot
        split at h
        · cases h
        · rename_i t xs hrun
          have ht : t.Forall NodeS := by
            refine runX_S ?_ ?_ hrun hroot1
            · exact hesc
            · exact refsS_of_logC x _ hlog1
          have nt : BlockExt.NI (qtX x) t := runX_Q (inlQ_X x _ _) hrun nroot1
          have hhtml : ∀ e ∈ xs.st.html, G.STX ∉ e := by
            intro e he
            rcases VocabXOut.Stash.runX_entRef _ hrun e he with h' | h'
            · rw [hstash] at h'; cases h'
            · exact Vocab2.entRef_noSTX h'
          split at h
          · cases h
          · rename_i t2 hdup
            have ht2 : t2.Forall NodeS := by
              split at hdup
              · exact duplicates_S t t2 ht hdup
              · simp only [Option.some.injEq] at hdup; subst hdup; exact ht
            have nt2 : BlockExt.NI (qtX x) t2 := by
              split at hdup
              · exact duplicates_NI (keyQ_X x) (keyOkX_core (by decide)) _ _ _ hdup nt
              · simp only [Option.some.injEq] at hdup; subst hdup; exact nt
            split at h
            · cases h
            · cases h
            · cases h
            · rename_i t6 htoc
              split at h
              · cases h
              · rename_i u' hu
                simp only [TreeResult.ok.injEq] at h
                obtain ⟨rfl, _⟩ := h
                exact lateStages_Q x cfg (abbrs_noSTX hlog1) hhtml ht2 nt2 htoc hu

/-- **the residual hypothesis `hamp` of `C05X_partial`, proved**: the serialisation of the tree never contains the
    ampersand substitute `STX amp ETX` -/
theorem treeX_no_amp (x : Exts) (hfc : x.fencedCode = false)
    (cfg : Pipeline.Cfg) (hesc : AmpFull.EscTwo (escX x cfg)) (src : Str)
    (u : Node) (html : List Str) (h : treeX x cfg src = .ok u html) (hgn : VocabXOut.GNL u.children = true) :
    contains (Vocab2.inner cfg.fmt u) Post.ampSubstitute = false :=
  inner_no_amp_gn cfg.fmt u hgn
    (treeX_Q x cfg (fun c hc => hesc c hc) src (fun _ _ e => prepareX_stash_nil' hfc e) u html h)

/-- the same when fenced_code is on but the preprocessors store nothing (the source has no fenced block): the
    hypothesis `hst` of `VocabXOut.convertX_reads_named` -/
theorem treeX_no_amp_stash (x : Exts) (cfg : Pipeline.Cfg) (hesc : AmpFull.EscTwo (escX x cfg)) (src : Str)
    (hst : ∀ text stash, prepareX x cfg src = .ok (text, stash) → stash = [])
    (u : Node) (html : List Str) (h : treeX x cfg src = .ok u html) (hgn : VocabXOut.GNL u.children = true) :
    contains (Vocab2.inner cfg.fmt u) Post.ampSubstitute = false :=
  inner_no_amp_gn cfg.fmt u hgn (treeX_Q x cfg (fun c hc => hesc c hc) src hst u html h)

/-- `EscTwo` of the extended list from `EscTwo` of the configuration (`|` has code 124) -/
theorem escTwo_escX (x : Exts) {cfg : Pipeline.Cfg} (h : AmpFull.EscTwo cfg.esc) : AmpFull.EscTwo (escX x cfg) := by
  unfold escX
  split
  · intro c hc
    rcases List.mem_append.1 hc with hc | hc
    · exact h c hc
    · simp only [List.mem_singleton] at hc; subst hc; decide
  · exact h

end MdVerif.VocabXAmp
