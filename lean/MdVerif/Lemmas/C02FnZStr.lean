/-
String classes for "no bad token can arise in the name of a heading" (`TocTreeprocessor` with footnotes), part 1.

`Z0`  — what the serializer writes: an STX is followed by a letter `k w q z`, by a SAFE escape token (ASCII digits, ETX,
        the number below 0x110000 and not 2), or by a DEAD continuation (decimal digits up to a `"` or to the end);
`Z3`  — the same after `unescape`: no complete token is left;
`Z0c`, `Z3c` — the complete variants (the `"` of a dead continuation is there), closed under appending anything;
`ZA`  — attribute values: an STX is followed by a letter, a safe token, or ASCII digits up to the end.

All of them are instances `ZG C.F` / `ZG C.Fc` of an abstract class `Cls` (four laws), so that the closure lemmas are
proved once: append, suffix, prefix, the SAFE CUT, replacement and deletion, and closure under any left-to-right
rewriting `Rw` that copies characters or replaces a chunk starting with a safe character by an STX-free string.
Then: `Z0 s → ¬ BadToken s`, and THE KEY LEMMA `unescape_Z0`.  Core Lean only.
-/
import MdVerif.Lemmas.C02FnStr
import MdVerif.Lemmas.C02BigAbbr
import MdVerif.Lemmas.InlineFuel
import MdVerif.Lemmas.PyBasic

set_option autoImplicit false

namespace MdVerif.C02Z
open Py

abbrev STX : Char := TreeProc.STX
abbrev ETX : Char := TreeProc.ETX

theorem stx_post : Post.STX = TreeProc.STX := rfl
theorem stx_inline : Inline.STX = TreeProc.STX := rfl
theorem stx_fn : FootnotesTree.STX = TreeProc.STX := rfl
theorem stx_noctl : NoCtl.STX = TreeProc.STX := rfl

/-! ### definitions -/

def chrOk (v : Nat) : Bool := decide (v < 0x110000) && v != 2

def tokTail : Nat → Str → Bool
  | v, c :: r => if isAsciiDigit c then tokTail (v * 10 + decimalValue c) r else (c == TreeProc.ETX && chrOk v)
  | _, [] => false

/-- a complete SAFE escape token behind its STX: ASCII digits, ETX, the number < 0x110000 and ≠ 2 -/
def tokS : Str → Bool
  | c :: r => isAsciiDigit c && tokTail (decimalValue c) r
  | [] => false

/-- a DEAD continuation: decimal digits (any script) up to a `"` or up to the end of the string -/
def dead : Str → Bool
  | [] => true
  | c :: r => c == '"' || (isDecimal c && dead r)

/-- the same, but the `"` must be there (complete: stays dead whatever is appended) -/
def deadc : Str → Bool
  | [] => false
  | c :: r => c == '"' || (isDecimal c && deadc r)

def hdGl : Str → Bool
  | c :: _ => TokG.gl c
  | [] => false

/-- what follows an STX BEFORE unescape (may be cut at the end) -/
def F0 (r : Str) : Bool := hdGl r || tokS r || dead r
/-- … complete -/
def F0c (r : Str) : Bool := hdGl r || tokS r || deadc r
/-- what follows an STX AFTER unescape -/
def F3 (r : Str) : Bool := hdGl r || dead r
def F3c (r : Str) : Bool := hdGl r || deadc r

def Z0 : Str → Bool
  | [] => true
  | c :: r => (c != TreeProc.STX || F0 r) && Z0 r
def Z0c : Str → Bool
  | [] => true
  | c :: r => (c != TreeProc.STX || F0c r) && Z0c r
def Z3 : Str → Bool
  | [] => true
  | c :: r => (c != TreeProc.STX || F3 r) && Z3 r
def Z3c : Str → Bool
  | [] => true
  | c :: r => (c != TreeProc.STX || F3c r) && Z3c r

/-- attribute values: a token cut short is ASCII digits up to the end -/
def deadA (r : Str) : Bool := r.all isAsciiDigit
def FA (r : Str) : Bool := hdGl r || tokS r || deadA r
def FAc (r : Str) : Bool := hdGl r || tokS r
def ZA : Str → Bool
  | [] => true
  | c :: r => (c != TreeProc.STX || FA r) && ZA r
def ZAc : Str → Bool
  | [] => true
  | c :: r => (c != TreeProc.STX || FAc r) && ZAc r

/-- a character that is no part of what may follow an STX in `Z3` -/
def safe (c : Char) : Bool := !TokG.gl c && !isDecimal c && c != '"'
/-- … in `Z0` -/
def safe0 (c : Char) : Bool := safe c && c != TreeProc.ETX
/-- … in `ZA` -/
def safeA (c : Char) : Bool := !TokG.gl c && !isAsciiDigit c && c != TreeProc.ETX

/-! ### the generic class -/

/-- every STX is followed by something with `F` -/
def ZG (F : Str → Bool) : Str → Bool
  | [] => true
  | c :: r => (c != TreeProc.STX || F r) && ZG F r

theorem Z0_eq (s : Str) : Z0 s = ZG F0 s := by
  induction s with
  | nil => rfl
  | cons c r ih => simp only [Z0, ZG, ih]
theorem Z0c_eq (s : Str) : Z0c s = ZG F0c s := by
  induction s with
  | nil => rfl
  | cons c r ih => simp only [Z0c, ZG, ih]
theorem Z3_eq (s : Str) : Z3 s = ZG F3 s := by
  induction s with
  | nil => rfl
  | cons c r ih => simp only [Z3, ZG, ih]
theorem Z3c_eq (s : Str) : Z3c s = ZG F3c s := by
  induction s with
  | nil => rfl
  | cons c r ih => simp only [Z3c, ZG, ih]
theorem ZA_eq (s : Str) : ZA s = ZG FA s := by
  induction s with
  | nil => rfl
  | cons c r ih => simp only [ZA, ZG, ih]
theorem ZAc_eq (s : Str) : ZAc s = ZG FAc s := by
  induction s with
  | nil => rfl
  | cons c r ih => simp only [ZAc, ZG, ih]

theorem ZG_nil (F : Str → Bool) : ZG F [] = true := rfl

theorem ZG_cons {F : Str → Bool} {c : Char} {r : Str} :
    ZG F (c :: r) = true ↔ (c = TreeProc.STX → F r = true) ∧ ZG F r = true := by
  simp only [ZG, Bool.and_eq_true, Bool.or_eq_true, bne_iff_ne, ne_eq]
  constructor
  · rintro ⟨h1, h2⟩
    refine ⟨fun e => ?_, h2⟩
    rcases h1 with h1 | h1
    · exact absurd e h1
    · exact h1
  · rintro ⟨h1, h2⟩
    refine ⟨?_, h2⟩
    by_cases e : c = TreeProc.STX
    · exact Or.inr (h1 e)
    · exact Or.inl e

theorem ZG_cons_ne {F : Str → Bool} {c : Char} (hc : c ≠ TreeProc.STX) {r : Str} (h : ZG F r = true) :
    ZG F (c :: r) = true := ZG_cons.2 ⟨fun e => absurd e hc, h⟩

theorem ZG_cons_stx {F : Str → Bool} {r : Str} (hf : F r = true) (h : ZG F r = true) :
    ZG F (TreeProc.STX :: r) = true := ZG_cons.2 ⟨fun _ => hf, h⟩

theorem ZG_mono {F G : Str → Bool} (hFG : ∀ r, F r = true → G r = true) {s : Str} (h : ZG F s = true) :
    ZG G s = true := by
  induction s with
  | nil => rfl
  | cons c r ih =>
    rw [ZG_cons] at h ⊢
    exact ⟨fun e => hFG _ (h.1 e), ih h.2⟩

theorem ZG_of_noSTX (F : Str → Bool) {s : Str} (h : TreeProc.STX ∉ s) : ZG F s = true := by
  induction s with
  | nil => rfl
  | cons c r ih =>
    exact ZG_cons_ne (fun e => h (e ▸ List.mem_cons_self)) (ih (fun hm => h (List.mem_cons_of_mem _ hm)))

theorem ZG_append {F G : Str → Bool} {a b : Str} (hFG : ∀ r, F r = true → G (r ++ b) = true)
    (ha : ZG F a = true) (hb : ZG G b = true) : ZG G (a ++ b) = true := by
  induction a with
  | nil => exact hb
  | cons c r ih =>
    rw [ZG_cons] at ha
    rw [List.cons_append, ZG_cons]
    exact ⟨fun e => hFG _ (ha.1 e), ih ha.2⟩

theorem ZG_right {F : Str → Bool} {a b : Str} (h : ZG F (a ++ b) = true) : ZG F b = true := by
  induction a with
  | nil => exact h
  | cons c r ih =>
    rw [List.cons_append, ZG_cons] at h
    exact ih h.2

theorem ZG_left {F G : Str → Bool} {a b : Str} (hFG : ∀ r, F (r ++ b) = true → G r = true)
    (h : ZG F (a ++ b) = true) : ZG G a = true := by
  induction a with
  | nil => rfl
  | cons c r ih =>
    rw [List.cons_append, ZG_cons] at h
    rw [ZG_cons]
    exact ⟨fun e => hFG _ (h.1 e), ih h.2⟩

theorem ZG_at {F : Str → Bool} {pre r : Str} (h : ZG F (pre ++ TreeProc.STX :: r) = true) : F r = true :=
  (ZG_cons.1 (ZG_right h)).1 rfl

/-- the abstract class: what may follow an STX (`F`), its complete variant (`Fc`), the safe characters -/
structure Cls where
  F : Str → Bool
  Fc : Str → Bool
  sf : Char → Bool
  weak : ∀ r, Fc r = true → F r = true
  app : ∀ r b, Fc r = true → Fc (r ++ b) = true
  pre : ∀ r b, F (r ++ b) = true → F r = true
  cut : ∀ r c0 R, F (r ++ c0 :: R) = true → sf c0 = true → Fc r = true

namespace Cls
variable (C : Cls)

/-- the class of strings, cut at the end or not -/
abbrev Z (s : Str) : Bool := ZG C.F s
/-- the complete strings -/
abbrev Zc (s : Str) : Bool := ZG C.Fc s

theorem Z_of_Zc {s : Str} (h : C.Zc s = true) : C.Z s = true := ZG_mono C.weak h

theorem Zc_of_noSTX {s : Str} (h : TreeProc.STX ∉ s) : C.Zc s = true := ZG_of_noSTX _ h
theorem Z_of_noSTX {s : Str} (h : TreeProc.STX ∉ s) : C.Z s = true := ZG_of_noSTX _ h

theorem Zc_append {a b : Str} (ha : C.Zc a = true) (hb : C.Zc b = true) : C.Zc (a ++ b) = true :=
  ZG_append (fun r hr => C.app r b hr) ha hb

theorem Z_append {a b : Str} (ha : C.Zc a = true) (hb : C.Z b = true) : C.Z (a ++ b) = true :=
  ZG_append (fun r hr => C.weak _ (C.app r b hr)) ha hb

theorem Z_right {a b : Str} (h : C.Z (a ++ b) = true) : C.Z b = true := ZG_right h
theorem Zc_right {a b : Str} (h : C.Zc (a ++ b) = true) : C.Zc b = true := ZG_right h

theorem Z_left {a b : Str} (h : C.Z (a ++ b) = true) : C.Z a = true := ZG_left (fun r hr => C.pre r b hr) h

theorem Z_take {s : Str} (h : C.Z s = true) (n : Nat) : C.Z (s.take n) = true := by
  rw [← List.take_append_drop n s] at h; exact C.Z_left h

theorem Z_drop {s : Str} (h : C.Z s = true) (n : Nat) : C.Z (s.drop n) = true := by
  rw [← List.take_append_drop n s] at h; exact C.Z_right h

theorem Zc_drop {s : Str} (h : C.Zc s = true) (n : Nat) : C.Zc (s.drop n) = true := by
  rw [← List.take_append_drop n s] at h; exact C.Zc_right h

theorem Z_infix {a s : Str} (h : C.Z s = true) (hi : a <:+: s) : C.Z a = true := by
  obtain ⟨p, q, rfl⟩ := hi
  rw [List.append_assoc] at h
  exact C.Z_left (C.Z_right h)

theorem Z_strip {s : Str} (h : C.Z s = true) : C.Z (strip s) = true := C.Z_infix h (strip_infix s)

/-- SAFE CUT: in front of a safe character the string is complete -/
theorem Z_cut {X R : Str} {c0 : Char} (h : C.Z (X ++ c0 :: R) = true) (hc : C.sf c0 = true) : C.Zc X = true :=
  ZG_left (fun r hr => C.cut r c0 R hr hc) h

/-- replacement of a chunk that starts with a safe character by an STX-free string -/
theorem Z_repl {X S Y E : Str} {c0 : Char} (h : C.Z (X ++ c0 :: S ++ Y) = true) (hc : C.sf c0 = true)
    (hE : TreeProc.STX ∉ E) : C.Z (X ++ E ++ Y) = true := by
  have hX : C.Zc X = true := C.Z_cut (R := S ++ Y) (by simpa using h) hc
  have hY : C.Z Y = true := by
    have : X ++ c0 :: S ++ Y = (X ++ c0 :: S) ++ Y := by simp
    rw [this] at h; exact C.Z_right h
  exact C.Z_append (C.Zc_append hX (C.Zc_of_noSTX hE)) hY

theorem Zc_repl {X S Y E : Str} {c0 : Char} (h : C.Zc (X ++ c0 :: S ++ Y) = true) (hc : C.sf c0 = true)
    (hE : TreeProc.STX ∉ E) : C.Zc (X ++ E ++ Y) = true := by
  have hX : C.Zc X = true := C.Z_cut (R := S ++ Y) (by simpa using C.Z_of_Zc h) hc
  have hY : C.Zc Y = true := by
    have : X ++ c0 :: S ++ Y = (X ++ c0 :: S) ++ Y := by simp
    rw [this] at h; exact C.Zc_right h
  exact C.Zc_append (C.Zc_append hX (C.Zc_of_noSTX hE)) hY

/-- deletion of a chunk that starts with a safe character -/
theorem Z_del {X S Y : Str} {c0 : Char} (h : C.Z (X ++ c0 :: S ++ Y) = true) (hc : C.sf c0 = true) :
    C.Z (X ++ Y) = true := by
  have := C.Z_repl (E := []) h hc (by simp)
  simpa using this

theorem Zc_del {X S Y : Str} {c0 : Char} (h : C.Zc (X ++ c0 :: S ++ Y) = true) (hc : C.sf c0 = true) :
    C.Zc (X ++ Y) = true := by
  have := C.Zc_repl (E := []) h hc (by simp)
  simpa using this

end Cls

/-! ### left-to-right rewriting -/

/-- `o` arises from `s` by copying characters and replacing chunks that start with a safe character by STX-free
    strings (one left-to-right pass) -/
inductive Rw (sf : Char → Bool) : Str → Str → Prop
  | nil : Rw sf [] []
  | copy (c : Char) {s o : Str} : Rw sf s o → Rw sf (c :: s) (c :: o)
  | repl {c0 : Char} (S : Str) {Y E o : Str} : sf c0 = true → TreeProc.STX ∉ E → Rw sf Y o →
      Rw sf (c0 :: S ++ Y) (E ++ o)

theorem Rw.refl (sf : Char → Bool) : ∀ s : Str, Rw sf s s
  | [] => .nil
  | c :: s => .copy c (Rw.refl sf s)

theorem Rw.copyL {sf : Char → Bool} : ∀ (p : Str) {s o : Str}, Rw sf s o → Rw sf (p ++ s) (p ++ o)
  | [], _, _, h => h
  | c :: p, _, _, h => .copy c (Rw.copyL p h)

/-- insertion of an STX-free string in front of a deleted safe chunk -/
theorem Rw.mono {sf sf' : Char → Bool} (hs : ∀ c, sf c = true → sf' c = true) {s o : Str} (h : Rw sf s o) :
    Rw sf' s o := by
  induction h with
  | nil => exact .nil
  | copy c _ ih => exact .copy c ih
  | repl S h1 h2 _ ih => exact .repl S (hs _ h1) h2 ih

/-- up to the first rewritten chunk the result is a copy -/
theorem Rw.head {sf : Char → Bool} {s o : Str} (h : Rw sf s o) :
    o = s ∨ ∃ N c0 R o', s = N ++ c0 :: R ∧ sf c0 = true ∧ o = N ++ o' := by
  induction h with
  | nil => exact Or.inl rfl
  | copy c _ ih =>
    rcases ih with rfl | ⟨N, c0, R, o', rfl, h1, rfl⟩
    · exact Or.inl rfl
    · exact Or.inr ⟨c :: N, c0, R, o', rfl, h1, rfl⟩
  | @repl c0 S Y E o h1 _ _ _ => exact Or.inr ⟨[], c0, S ++ Y, E ++ o, rfl, h1, rfl⟩

theorem Rw.trans_noSTX {sf : Char → Bool} {s o : Str} (h : Rw sf s o) (hs : TreeProc.STX ∉ s) :
    TreeProc.STX ∉ o := by
  induction h with
  | nil => exact hs
  | copy c _ ih =>
    intro hm
    rcases List.mem_cons.1 hm with e | hm
    · exact hs (e ▸ List.mem_cons_self)
    · exact ih (fun h' => hs (List.mem_cons_of_mem _ h')) hm
  | repl S _ h2 _ ih =>
    intro hm
    rcases List.mem_append.1 hm with hm | hm
    · exact h2 hm
    · exact ih (fun h' => hs (by simp [h'])) hm

namespace Cls
variable (C : Cls)

theorem F_rw {r r' : Str} (h : Rw C.sf r r') (hf : C.F r = true) : C.F r' = true := by
  rcases h.head with rfl | ⟨N, c0, R, o', rfl, h1, rfl⟩
  · exact hf
  · exact C.weak _ (C.app _ _ (C.cut _ _ _ hf h1))

theorem Fc_rw {r r' : Str} (h : Rw C.sf r r') (hf : C.Fc r = true) : C.Fc r' = true := by
  rcases h.head with rfl | ⟨N, c0, R, o', rfl, h1, rfl⟩
  · exact hf
  · exact C.app _ _ (C.cut _ _ _ (C.weak _ hf) h1)

/-- **the class is closed under rewriting** -/
theorem Z_rw {s o : Str} (h : Rw C.sf s o) (hz : C.Z s = true) : C.Z o = true := by
  induction h with
  | nil => rfl
  | copy c hr ih =>
    rw [Cls.Z, ZG_cons] at hz ⊢
    exact ⟨fun e => C.F_rw hr (hz.1 e), ih hz.2⟩
  | @repl c0 S Y E o _ h2 _ ih =>
    have hY : C.Z Y = true := by
      have : c0 :: S ++ Y = (c0 :: S) ++ Y := by simp
      rw [this] at hz; exact C.Z_right hz
    exact C.Z_append (C.Zc_of_noSTX h2) (ih hY)

theorem Zc_rw {s o : Str} (h : Rw C.sf s o) (hz : C.Zc s = true) : C.Zc o = true := by
  induction h with
  | nil => rfl
  | copy c hr ih =>
    rw [Cls.Zc, ZG_cons] at hz ⊢
    exact ⟨fun e => C.Fc_rw hr (hz.1 e), ih hz.2⟩
  | @repl c0 S Y E o _ h2 _ ih =>
    have hY : C.Zc Y = true := by
      have : c0 :: S ++ Y = (c0 :: S) ++ Y := by simp
      rw [this] at hz; exact C.Zc_right hz
    exact C.Zc_append (C.Zc_of_noSTX h2) (ih hY)

end Cls

/-! ### facts about the components -/

theorem gl_not_decimal {c : Char} (h : TokG.gl c = true) : isDecimal c = false := by
  rcases TokG.gl_iff.1 h with rfl | rfl | rfl | rfl <;> decide

theorem gl_ne_quot {c : Char} (h : TokG.gl c = true) : c ≠ '"' := by
  rcases TokG.gl_iff.1 h with rfl | rfl | rfl | rfl <;> decide

theorem gl_ne_stx {c : Char} (h : TokG.gl c = true) : c ≠ TreeProc.STX := TokG.gl_ne_stx h

theorem etx_not_decimal : isDecimal TreeProc.ETX = false := by decide
theorem stx_not_decimal : isDecimal TreeProc.STX = false := by decide
theorem etx_not_digit : isAsciiDigit TreeProc.ETX = false := by decide

theorem digit_decimal {c : Char} (h : isAsciiDigit c = true) : isDecimal c = true := isDecimal_of_isAsciiDigit h

theorem decimal_ne_stx {c : Char} (h : isDecimal c = true) : c ≠ TreeProc.STX := by
  rintro rfl; rw [stx_not_decimal] at h; cases h

theorem hdGl_cons (c : Char) (r : Str) : hdGl (c :: r) = TokG.gl c := rfl

theorem hdGl_append {r : Str} (h : hdGl r = true) (b : Str) : hdGl (r ++ b) = true := by
  cases r with
  | nil => cases h
  | cons c r => exact h

theorem dead_cons (c : Char) (r : Str) : dead (c :: r) = (c == '"' || (isDecimal c && dead r)) := rfl
theorem deadc_cons (c : Char) (r : Str) : deadc (c :: r) = (c == '"' || (isDecimal c && deadc r)) := rfl

theorem dead_of_deadc {r : Str} (h : deadc r = true) : dead r = true := by
  induction r with
  | nil => rfl
  | cons c r ih =>
    simp only [deadc, Bool.or_eq_true, Bool.and_eq_true] at h
    simp only [dead, Bool.or_eq_true, Bool.and_eq_true]
    rcases h with h | h
    · exact Or.inl h
    · exact Or.inr ⟨h.1, ih h.2⟩

theorem deadc_append {r : Str} (h : deadc r = true) (b : Str) : deadc (r ++ b) = true := by
  induction r with
  | nil => cases h
  | cons c r ih =>
    simp only [deadc, Bool.or_eq_true, Bool.and_eq_true] at h
    simp only [List.cons_append, deadc, Bool.or_eq_true, Bool.and_eq_true]
    rcases h with h | h
    · exact Or.inl h
    · exact Or.inr ⟨h.1, ih h.2⟩

theorem dead_left {r : Str} (b : Str) (h : dead (r ++ b) = true) : dead r = true := by
  induction r with
  | nil => rfl
  | cons c r ih =>
    simp only [List.cons_append, dead, Bool.or_eq_true, Bool.and_eq_true] at h
    simp only [dead, Bool.or_eq_true, Bool.and_eq_true]
    rcases h with h | h
    · exact Or.inl h
    · exact Or.inr ⟨h.1, ih h.2⟩

theorem dead_cut {r R : Str} {c0 : Char} (h : dead (r ++ c0 :: R) = true) (h1 : isDecimal c0 = false)
    (h2 : c0 ≠ '"') : deadc r = true := by
  induction r with
  | nil =>
    simp only [List.nil_append, dead, Bool.or_eq_true, Bool.and_eq_true, beq_iff_eq, h1] at h
    rcases h with h | h
    · exact absurd h h2
    · cases h.1
  | cons c r ih =>
    simp only [List.cons_append, dead, Bool.or_eq_true, Bool.and_eq_true] at h
    simp only [deadc, Bool.or_eq_true, Bool.and_eq_true]
    rcases h with h | h
    · exact Or.inl h
    · exact Or.inr ⟨h.1, ih h.2⟩

theorem dead_of_all_digit {r : Str} (h : r.all isAsciiDigit = true) : dead r = true := by
  induction r with
  | nil => rfl
  | cons c r ih =>
    simp only [List.all_cons, Bool.and_eq_true] at h
    simp only [dead, Bool.or_eq_true, Bool.and_eq_true]
    exact Or.inr ⟨digit_decimal h.1, ih h.2⟩

theorem deadc_all_digit_quot {r : Str} (h : r.all isAsciiDigit = true) (b : Str) :
    deadc (r ++ '"' :: b) = true := by
  induction r with
  | nil => simp [deadc]
  | cons c r ih =>
    simp only [List.all_cons, Bool.and_eq_true] at h
    simp only [List.cons_append, deadc, Bool.or_eq_true, Bool.and_eq_true]
    exact Or.inr ⟨digit_decimal h.1, ih h.2⟩

/-- a dead continuation is not the body of a match of `STX \d+ ETX` -/
theorem dead_no_match {r : Str} (h : dead r = true) : r[spanLen isDecimal r]? ≠ some TreeProc.ETX := by
  induction r with
  | nil => simp
  | cons c r ih =>
    simp only [dead, Bool.or_eq_true, Bool.and_eq_true, beq_iff_eq] at h
    by_cases hd : isDecimal c = true
    · rcases h with h | h
      · rw [h] at hd; exact absurd hd (by decide)
      · simp only [spanLen, hd, if_true, List.getElem?_cons_succ]
        exact ih h.2
    · rcases h with h | h
      · subst h
        simp only [spanLen, hd, Bool.false_eq_true, if_false, List.getElem?_cons_zero, Option.some.injEq, ne_eq]
        decide
      · exact absurd h.1 hd

/-! ### tokens -/

theorem tokTail_append : ∀ (r : Str) (v : Nat), tokTail v r = true → ∀ b, tokTail v (r ++ b) = true := by
  intro r
  induction r with
  | nil => intro v h; cases h
  | cons c r ih =>
    intro v h b
    simp only [tokTail] at h
    simp only [List.cons_append, tokTail]
    split
    · rename_i hc; rw [if_pos hc] at h; exact ih _ h b
    · rename_i hc; rw [if_neg hc] at h; exact h

theorem tokS_append {r : Str} (h : tokS r = true) (b : Str) : tokS (r ++ b) = true := by
  cases r with
  | nil => cases h
  | cons c r =>
    simp only [tokS, Bool.and_eq_true] at h
    simp only [List.cons_append, tokS, Bool.and_eq_true]
    exact ⟨h.1, tokTail_append r _ h.2 b⟩

theorem tokTail_left : ∀ (r : Str) (v : Nat) (b : Str), tokTail v (r ++ b) = true →
    tokTail v r = true ∨ r.all isAsciiDigit = true := by
  intro r
  induction r with
  | nil => intro v b _; exact Or.inr rfl
  | cons c r ih =>
    intro v b h
    simp only [List.cons_append, tokTail] at h
    by_cases hc : isAsciiDigit c = true
    · rw [if_pos hc] at h
      rcases ih _ b h with h' | h'
      · left; simp only [tokTail, if_pos hc]; exact h'
      · right; simp only [List.all_cons, hc, h', Bool.and_self]
    · rw [if_neg hc] at h
      left; simp only [tokTail, if_neg hc]; exact h

theorem tokS_left {r : Str} (b : Str) (h : tokS (r ++ b) = true) : tokS r = true ∨ r.all isAsciiDigit = true := by
  cases r with
  | nil => exact Or.inr rfl
  | cons c r =>
    simp only [List.cons_append, tokS, Bool.and_eq_true] at h
    rcases tokTail_left r _ b h.2 with h' | h'
    · left; simp only [tokS, Bool.and_eq_true]; exact ⟨h.1, h'⟩
    · right; simp only [List.all_cons, h.1, h', Bool.and_self]

theorem tokTail_cut : ∀ (r : Str) (v : Nat) {c0 : Char} (R : Str), tokTail v (r ++ c0 :: R) = true →
    isAsciiDigit c0 = false → c0 ≠ TreeProc.ETX → tokTail v r = true := by
  intro r
  induction r with
  | nil =>
    intro v c0 R h h1 h2
    simp only [List.nil_append, tokTail, h1, Bool.false_eq_true, if_false, Bool.and_eq_true, beq_iff_eq] at h
    exact absurd h.1 h2
  | cons c r ih =>
    intro v c0 R h h1 h2
    simp only [List.cons_append, tokTail] at h
    simp only [tokTail]
    split
    · rename_i hc; rw [if_pos hc] at h; exact ih _ R h h1 h2
    · rename_i hc; rw [if_neg hc] at h; exact h

theorem tokS_cut {r R : Str} {c0 : Char} (h : tokS (r ++ c0 :: R) = true) (h1 : isAsciiDigit c0 = false)
    (h2 : c0 ≠ TreeProc.ETX) : tokS r = true := by
  cases r with
  | nil =>
    simp only [List.nil_append, tokS, h1, Bool.false_and] at h
    cases h
  | cons c r =>
    simp only [List.cons_append, tokS, Bool.and_eq_true] at h
    simp only [tokS, Bool.and_eq_true]
    exact ⟨h.1, tokTail_cut r _ R h.2 h1 h2⟩

theorem tokTail_spec : ∀ (r : Str) (v : Nat), tokTail v r = true →
    ∃ d rest, r = d ++ TreeProc.ETX :: rest ∧ (∀ c ∈ d, isAsciiDigit c = true) ∧
      chrOk (d.foldl (fun acc c => acc * 10 + decimalValue c) v) = true := by
  intro r
  induction r with
  | nil => intro v h; cases h
  | cons c r ih =>
    intro v h
    simp only [tokTail] at h
    by_cases hc : isAsciiDigit c = true
    · rw [if_pos hc] at h
      obtain ⟨d, rest, rfl, h1, h2⟩ := ih _ h
      refine ⟨c :: d, rest, rfl, ?_, by simpa using h2⟩
      intro x hx
      rcases List.mem_cons.1 hx with rfl | hx
      · exact hc
      · exact h1 x hx
    · rw [if_neg hc] at h
      simp only [Bool.and_eq_true, beq_iff_eq] at h
      exact ⟨[], r, by rw [h.1]; rfl, by simp, by simpa using h.2⟩

/-- the safe token as a proposition -/
theorem tokS_spec {r : Str} (h : tokS r = true) :
    ∃ d rest, r = d ++ TreeProc.ETX :: rest ∧ d ≠ [] ∧ (∀ c ∈ d, isAsciiDigit c = true) ∧
      chrOk (decToNat d) = true := by
  cases r with
  | nil => cases h
  | cons c r =>
    simp only [tokS, Bool.and_eq_true] at h
    obtain ⟨d, rest, rfl, h1, h2⟩ := tokTail_spec r _ h.2
    refine ⟨c :: d, rest, rfl, by simp, ?_, ?_⟩
    · intro x hx
      rcases List.mem_cons.1 hx with rfl | hx
      · exact h.1
      · exact h1 x hx
    · simpa [decToNat] using h2

theorem chrOk_iff {v : Nat} : chrOk v = true ↔ v < 0x110000 ∧ v ≠ 2 := by
  simp [chrOk]

/-- a safe token IS the match of `STX \d+ ETX` at its STX -/
theorem tokS_match {r : Str} (h : tokS r = true) :
    ∃ d rest, r = d ++ TreeProc.ETX :: rest ∧ spanLen isDecimal r = d.length ∧ 0 < d.length ∧
      r[d.length]? = some TreeProc.ETX ∧ r.take d.length = d ∧ r.drop (d.length + 1) = rest ∧
      decToNat d < 0x110000 ∧ decToNat d ≠ 2 := by
  obtain ⟨d, rest, rfl, hne, hdig, hok⟩ := tokS_spec h
  have hall : d.all isDecimal = true := by
    rw [List.all_eq_true]; exact fun c hc => digit_decimal (hdig c hc)
  have hspan : spanLen isDecimal (d ++ TreeProc.ETX :: rest) = d.length := by
    rw [spanLen_append_of_all hall]
    simp [spanLen, etx_not_decimal]
  refine ⟨d, rest, rfl, hspan, List.length_pos_iff.2 hne, by simp, by simp, by simp,
    (chrOk_iff.1 hok).1, (chrOk_iff.1 hok).2⟩

end MdVerif.C02Z
