/-
Helper lemmas for `Props/C16RenderG.lean`, part 2: footnotes with references anywhere in the paragraph — the footnote
`div` for any list of definitions, the footnote pattern of the inline stage over any number of references
(`handleInlineTopX`), `__processPlaceholders` putting the `sup` elements back with their tails.

Core Lean only.
-/
import MdVerif.Lemmas.RenderG
import MdVerif.Lemmas.EscXTree

namespace MdVerif.RenderG
open Py Block BlockExt MdVerif.RenderX Inline InlineX

/-! ### the footnote `div` -/

/-- the paragraph of footnote number `index`: the note, the no-break-space placeholder, the back-link -/
def liP (id note : Str) (index : Nat) : Node :=
  { tag := .name "p".toList, text := some (note ++ FootnotesTree.nbspPlaceholder),
    children := [FootnotesTree.backlink id index] }

def liN (id note : Str) (index : Nat) : Node :=
  { tag := .name "li".toList, attrs := [("id".toList, Footnotes.footnoteId id)], children := [liP id note index] }

/-- the `li`s of the definitions, numbered from `i` -/
def lisFrom : List (Str × Str) → Nat → List Node
  | [], _ => []
  | d :: r, i => liN d.1 d.2 i :: lisFrom r (i + 1)

/-- `div.footnote > hr, ol > li*` -/
def fnDivG (lis : List Node) : Node :=
  { tag := .name "div".toList, attrs := [("class".toList, "footnote".toList)],
    children := [FootnotesTree.el "hr", { FootnotesTree.el "ol" with children := lis }] }

theorem footnotesOf_foldl (defs : List (Str × Str)) :
    ∀ (acc : List (Str × Str)), (∀ d ∈ defs, ∀ a ∈ acc, a.1 ≠ d.1) → (defs.map (·.1)).Nodup →
      (defEntries defs).foldl (fun d e => if isFnEntry e then dictSet d (e.1.drop 2) e.2.1 else d) acc = acc ++ defs := by
  induction defs with
  | nil => intro acc _ _; simp [defEntries]
  | cons d r ih =>
    intro acc hacc hnd
    have hany : acc.any (fun kv => decide (kv.1 = d.1)) = false := by
      rw [List.any_eq_false]
      intro a ha
      simpa using hacc d List.mem_cons_self a ha
    have hstep : (if isFnEntry (fnKey d.1, (d.2, (none : Option Str))) then
        dictSet acc ((fnKey d.1, (d.2, (none : Option Str))).1.drop 2) (fnKey d.1, (d.2, (none : Option Str))).2.1 else acc) =
        acc ++ [d] := by
      simp [isFnEntry, fnKey, startsWith, dictSet, hany]
    simp only [List.map_cons, List.nodup_cons] at hnd
    have e : defEntries (d :: r) = (fnKey d.1, (d.2, none)) :: defEntries r := rfl
    rw [e, List.foldl_cons, hstep, ih (acc ++ [d]) ?_ hnd.2]
    · simp
    · intro x hx a ha
      rcases List.mem_append.1 ha with ha | ha
      · exact hacc x (List.mem_cons_of_mem _ hx) a ha
      · have : a = d := by simpa using ha
        subst this
        intro e
        exact hnd.1 (e ▸ List.mem_map_of_mem hx)

theorem footnotesOf_entries (defs : List (Str × Str)) (h : (defs.map (·.1)).Nodup) :
    footnotesOf (defEntries defs) = defs := by
  have := footnotesOf_foldl defs [] (by simp) h
  simpa [footnotesOf] using this

theorem refsOf_entries (defs : List (Str × Str)) : refsOf (defEntries defs) = [] := by
  simp only [refsOf, List.filter_eq_nil_iff]
  intro e he
  obtain ⟨d, _, rfl⟩ := List.mem_map.1 he
  simp [isFnEntry, fnKey, startsWith]

theorem abbrsOf_entries (defs : List (Str × Str)) : abbrsOf (defEntries defs) = [] := by
  have : ∀ acc, (defEntries defs).foldl (fun d e =>
      if isAbEntry e then (if e.2.1.isEmpty then dictPop d (e.1.drop 2) else dictSet d (e.1.drop 2) e.2.1) else d) acc = acc := by
    induction defs with
    | nil => intro acc; rfl
    | cons d r ih =>
      intro acc
      have e : defEntries (d :: r) = (fnKey d.1, (d.2, none)) :: defEntries r := rfl
      rw [e, List.foldl_cons]
      simp only [isAbEntry, fnKey, startsWith, show ('[' : Char) ≠ '*' by decide, decide_false, Bool.false_and,
        Bool.false_eq_true, if_false]
      exact ih acc
  exact this []

theorem makeLis_defs (x : PipelineX.Exts) (htb : x.tables = false) (cfg : Pipeline.Cfg) (htab : 0 < cfg.tab) :
    ∀ (defs : List (Str × Str)) (index : Nat) (log : Refs), DefsOK defs →
      FootnotesTree.makeLis (PipelineX.parseChunkX x cfg) PipelineX.fnCount defs index log =
        .ok (lisFrom defs index, log) := by
  intro defs
  induction defs with
  | nil => intro index log _; rfl
  | cons d r ih =>
    intro index log hd
    obtain ⟨id, note⟩ := d
    have hn : PlainFacts note := hd.notes (id, note) List.mem_cons_self
    have hpl : ∀ l ∈ [note], PlainFacts l := by intro l hl; simp at hl; subst hl; exact hn
    have hparse : PipelineX.parseChunkX x cfg log note = some ((Node.el "div").append (mkText "p" note), log) := by
      have := parseChunkXT_plain x.blockCfg cfg.tab htab (2 * note.length + 9) [] (by decide) log (Node.el "div") note [] hpl
      simpa [PipelineX.parseChunkX, htb, fuelForX, joinLines, join] using this
    simp only [FootnotesTree.makeLis, hparse, bne_self_eq_false, Bool.false_eq_true, if_false, Node.append, Node.el,
      List.nil_append, ih (index + 1) log hd.tail]
    simp [FootnotesTree.addBacklink, Node.last?, Node.isTag, mkText, Node.el, Node.setLast, FootnotesTree.el,
      lisFrom, liN, liP]

theorem makeDiv_defs (x : PipelineX.Exts) (htb : x.tables = false) (cfg : Pipeline.Cfg) (htab : 0 < cfg.tab)
    (defs : List (Str × Str)) (hne : defs ≠ []) (log : Refs) (hd : DefsOK defs) :
    FootnotesTree.makeDiv (PipelineX.parseChunkX x cfg) PipelineX.fnCount defs log =
      .ok (some (fnDivG (lisFrom defs 1)), log) := by
  have : defs.isEmpty = false := by cases defs <;> simp_all
  simp only [FootnotesTree.makeDiv, this, Bool.false_eq_true, if_false, makeLis_defs x htb cfg htab defs 1 log hd]
  rfl

/-! ### quiet characters -/

/-- a character none of the inline patterns reacts to -/
def QCh (c : Char) : Prop :=
  c ≠ '`' ∧ c ≠ '\\' ∧ c ≠ '[' ∧ c ≠ '!' ∧ c ≠ '&' ∧ c ≠ '*' ∧ c ≠ '_' ∧ c ≠ '\n'

theorem quietX_of_chars (s : Str) (h : ∀ c ∈ s, QCh c) : QuietX s := by
  refine ⟨fun hm => (h _ hm).1 rfl, fun hm => (h _ hm).2.1 rfl, ?_, ?_⟩
  · intro c hc
    have := h c hc
    exact ⟨this.2.2.1, this.2.2.2.1, this.2.2.2.2.1, this.2.2.2.2.2.1, this.2.2.2.2.2.2.1⟩
  · rw [find_none_iff]
    intro pre post e
    have : '\n' ∈ s := by rw [e]; simp
    exact (h _ this).2.2.2.2.2.2.2 rfl

theorem qch_alnumSp {c : Char} (h : DocSpec.isAlnumSp c = true) : QCh c := by
  have hq := alnumSp_quiet h
  have h1 := hq.1
  simp only [quietCh, Bool.and_eq_true, bne_iff_ne, ne_eq] at h1
  obtain ⟨⟨⟨⟨⟨⟨a, b⟩, c'⟩, d⟩, e⟩, f⟩, g⟩ := h1
  exact ⟨a, b, c', d, e, f, g, hq.2.1⟩

theorem qch_placeholder {n : Nat} {c : Char} (h : c ∈ placeholder n) : QCh c := by
  have hph := Escape.phChar_of_mem_placeholder h
  have hp := Escape.phChar_facts hph
  refine ⟨?_, hp.2.2.2.2.2.1, hp.1, hp.2.1, hp.2.2.1, hp.2.2.2.1, hp.2.2.2.2.1, hp.2.2.2.2.2.2.2⟩
  intro e; subst e; exact absurd hph (by decide)

theorem natToDec_alnumSp (n : Nat) : ∀ c ∈ natToDec n, DocSpec.isAlnumSp c = true :=
  EscX.natToDec_all DocSpec.isAlnumSp (by decide) n

/-! ### the `sup` elements -/

/-- the `sup` element of a reference: its id, the label of the footnote, the number shown -/
def supG (refId id num : Str) : Node :=
  { tag := .name "sup".toList, attrs := [("id".toList, refId)],
    children := [{ tag := .name "a".toList,
                   attrs := [("href".toList, '#' :: Footnotes.footnoteId id), ("class".toList, "footnote-ref".toList)],
                   text := some num }] }

theorem fnRefNode_eq (keys : List Str) (id refId : Str) :
    fnRefNode keys id refId = supG refId id (natToDec (indexOf keys id + 1)) := by
  simp [fnRefNode, mkEl, Node.setAttr, supG]

/-- the `sup` elements of the references in processing order, each with the text that follows it, and the
    bookkeeping after them -/
def refItems (keys : List Str) : List (Str × Str) → Footnotes.State → List (Node × Str) × Footnotes.State
  | [], fs => ([], fs)
  | s :: r, fs =>
    let q := Footnotes.footnoteRefId s.1 true fs
    let rest := refItems keys r q.2
    ((fnRefNode keys s.1 q.1, s.2) :: rest.1, rest.2)

/-- the text after the inline patterns: a placeholder for every reference, then its text -/
def phItems : Nat → List (Node × Str) → Str
  | _, [] => []
  | n, it :: r => placeholder n ++ it.2 ++ phItems (n + 1) r

theorem refItems_length (keys : List Str) (segs : List (Str × Str)) :
    ∀ fs, (refItems keys segs fs).1.length = segs.length := by
  induction segs with
  | nil => intro fs; rfl
  | cons s r ih => intro fs; simp [refItems, ih]

/-! ### the footnote pattern, any number of references -/

theorem fnRefScan_at (keys : List Str) (P id X : Str) (hP : '[' ∉ P) (hid : ∀ c ∈ id, c ≠ ']')
    (hk : keys.contains id = true) :
    ∀ i, fnRefScan keys 0 (P ++ (fnRefSrc id ++ X)) i = some (id, i + P.length, i + P.length + (id.length + 3)) := by
  induction P with
  | nil =>
    intro i
    have := fnRefAt_ref id X hid
    have e : fnRefSrc id ++ X = '[' :: ('^' :: id ++ [']'] ++ X) := rfl
    rw [e] at this
    simp only [List.nil_append]
    rw [e]
    simp only [fnRefScan, this, hk, if_true]
    simp
  | cons c P ih =>
    intro i
    have hc : c ≠ '[' := fun e => hP (e ▸ List.mem_cons_self)
    have hnone : fnRefAt (c :: (P ++ (fnRefSrc id ++ X))) = none :=
      fnRefAt_none_of_head (by simpa using hc)
    simp only [List.cons_append, fnRefScan, hnone]
    rw [ih (fun hm => hP (List.mem_cons_of_mem _ hm)) (i + 1)]
    simp only [List.length_cons]
    have e1 : i + 1 + P.length = i + (P.length + 1) := by omega
    rw [e1]

theorem natToDec_ne (n : Nat) : natToDec n ≠ [] := by
  simp only [natToDec, natToDecAux]
  split
  · simp
  · rw [natToDecAux_acc]; simp

theorem truthy_natToDec (n : Nat) : Node.truthy (some (natToDec n)) = true := by
  cases h : natToDec n with
  | nil => exact absurd h (natToDec_ne n)
  | cons a b => rfl

theorem quietX_digits (n : Nat) : QuietX (natToDec n) :=
  quietX_of_chars _ (fun c hc => qch_alnumSp (natToDec_alnumSp n c hc))

/-- the configuration of the inline stage with the pattern table `T` -/
def fnXcG (ic : Inline.Cfg) (T : List PatK) (keys : List Str) : InlineX.XCfg :=
  { cfg := ic, table := T, fnKeys := keys }

/-- what is needed of the pattern table: backtick and escape first, then the footnote pattern; `nlb` = whether the
    nl2br pattern may be in it -/
structure FnTab (T : List PatK) (nlb : Bool) : Prop where
  t0 : T[0]? = some (PatK.core 0)
  t1 : T[1]? = some (PatK.core 1)
  t2 : T[2]? = some PatK.footnote
  len : 3 ≤ T.length
  nlmem : PatK.nl ∈ T → nlb = true

/-- the table of the model with footnotes, with or without wikilinks and nl2br -/
theorem fnTab_table (wl nl : Bool) : FnTab (InlineX.table true wl nl) nl := by
  cases wl <;> cases nl <;> exact ⟨by decide, by decide, by decide, by decide, by decide⟩

/-- one turn of the pattern loop at the footnote pattern: the first reference is replaced by a placeholder -/
theorem applyPatternX_ref (ic : Inline.Cfg) (T : List PatK) (nlb : Bool) (hT : FnTab T nlb) (keys : List Str) (F : Nat)
    (P id u X : Str) (st : Inline.St)
    (fs : Footnotes.State) (hP : '[' ∉ P) (hid : WordFacts id) (hk : keys.contains id = true) :
    applyPatternX (fnXcG ic T keys) (fun d p s => handleInlineX (fnXcG ic T keys) (F + 1) d p s) 2
        (P ++ (fnRefSrc id ++ u ++ X)) 0 { st := st, fn := fs } =
      some (P ++ placeholder st.stash.length ++ (u ++ X), true, 0,
        { st := { st with stash := st.stash ++
                    [.node (fnRefNode keys id (Footnotes.footnoteRefId id true fs).1)] },
          fn := (Footnotes.footnoteRefId id true fs).2 }) := by
  have ht2 : (fnXcG ic T keys).table[2]? = some PatK.footnote := hT.t2
  have hlenT : 3 ≤ (fnXcG ic T keys).table.length := hT.len
  have hidc : ∀ c ∈ id, c ≠ ']' := by
    intro c hc e; subst e; exact absurd (hid.chars _ hc) (by decide)
  have hdata : P ++ (fnRefSrc id ++ u ++ X) = P ++ (fnRefSrc id ++ (u ++ X)) := by simp
  have hscan := fnRefScan_at keys P id (u ++ X) hP hidc hk 0
  have hfind : findX (fnXcG ic T keys) PatK.footnote (P ++ (fnRefSrc id ++ u ++ X)) 0 { st := st, fn := fs } =
      some (some ⟨.el (fnRefNode keys id (Footnotes.footnoteRefId id true fs).1), 0 + P.length,
          ((0 + P.length + (id.length + 3) : Nat) : Int)⟩,
        { st := st, fn := (Footnotes.footnoteRefId id true fs).2 }) := by
    rw [hdata]
    simp only [findX, show ¬ (0 > (P ++ (fnRefSrc id ++ (u ++ X))).length) by omega, if_false, List.drop_zero, fnXcG,
      hscan]
  have hinner : ∀ (d : Str) (x : InlineX.XSt), QuietX d → '\n' ∉ d →
      handleInlineX (fnXcG ic T keys) (F + 1) d 3 x = some (d, x) := by
    intro d x hq hnl
    exact handleInlineX_quiet _ _ _ 3 x hq (fun _ => hnl) hlenT (by omega)
  have hkids : hiNodesX (fun d p s => handleInlineX (fnXcG ic T keys) (F + 1) d p s) 2
      (fnRefNode keys id (Footnotes.footnoteRefId id true fs).1).children
      { st := st, fn := (Footnotes.footnoteRefId id true fs).2 } =
      some ((fnRefNode keys id (Footnotes.footnoteRefId id true fs).1).children,
        { st := st, fn := (Footnotes.footnoteRefId id true fs).2 }) := by
    rw [fnRefNode_eq]
    have htr : Node.truthy (some (natToDec (indexOf keys id + 1))) = true := truthy_natToDec _
    have htn : Node.truthy (none : Option Str) = false := rfl
    simp only [supG, hiNodesX, hiNodeX, hiOptX, htr, htn, Bool.not_false, Bool.and_self, Bool.and_true, if_true,
      Option.getD_some, hinner _ _ (quietX_digits _) (fun hm => (alnumSp_quiet (natToDec_alnumSp _ _ hm)).2.1 rfl), Bool.false_and, Bool.false_eq_true, if_false]
  have hdrop : pyDrop (P ++ (fnRefSrc id ++ u ++ X)) ((0 + P.length + (id.length + 3) : Nat) : Int) = u ++ X := by
    have := Escape.pyDrop_append (P ++ fnRefSrc id) (u ++ X)
    have e : P ++ (fnRefSrc id ++ u ++ X) = (P ++ fnRefSrc id) ++ (u ++ X) := by simp
    rw [e]
    have hl : (P ++ fnRefSrc id).length = 0 + P.length + (id.length + 3) := by simp [fnRefSrc]
    rw [← hl]
    exact this
  have htake : (P ++ (fnRefSrc id ++ u ++ X)).take (0 + P.length) = P := by simp
  have hstep := applyPatternX_el (fnXcG ic T keys)
    (fun d p s => handleInlineX (fnXcG ic T keys) (F + 1) d p s) 2 PatK.footnote (P ++ (fnRefSrc id ++ u ++ X))
    { st := st, fn := fs } { st := st, fn := (Footnotes.footnoteRefId id true fs).2 }
    (fnRefNode keys id (Footnotes.footnoteRefId id true fs).1) _ _ ht2 hfind
    (by rw [fnRefNode_eq]; rfl) (by rw [fnRefNode_eq]; rfl) hkids
  rw [hdrop, htake] at hstep
  exact hstep

theorem st_stash_nil (st : Inline.St) : ({ st with stash := st.stash ++ [] } : Inline.St) = st := by
  cases st; simp

/-- the pattern loop from the footnote pattern on: every reference becomes a placeholder, in order -/
theorem hiLoopX_refs (ic : Inline.Cfg) (T : List PatK) (nlb : Bool) (hT : FnTab T nlb) (keys : List Str) (F : Nat) :
    ∀ (segs : List (Str × Str)) (P : Str) (st : Inline.St) (fs : Footnotes.State) (g : Nat),
      SegsOK segs → (∀ s ∈ segs, keys.contains s.1 = true) → (∀ c ∈ P, QCh c) → segs.length + T.length ≤ g →
      hiLoopX T.length (applyPatternX (fnXcG ic T keys) (fun d p s => handleInlineX (fnXcG ic T keys) (F + 1) d p s))
          g (P ++ refSegs segs) 2 0 { st := st, fn := fs } =
        some (P ++ phItems st.stash.length (refItems keys segs fs).1,
          { st := { st with stash := st.stash ++ (refItems keys segs fs).1.map (fun it => .node it.1) },
            fn := (refItems keys segs fs).2 }) := by
  have hlen3 := hT.len
  intro segs
  induction segs with
  | nil =>
    intro P st fs g _ _ hP hg
    simp only [refSegs, List.append_nil, refItems, phItems, List.map_nil, st_stash_nil]
    exact hiLoopX_quiet T.length _ _ _ (fun p => applyPatternX_quiet (fnXcG ic T keys) _ p P { st := st, fn := fs }
      (quietX_of_chars P hP) (fun _ hm => (hP _ hm).2.2.2.2.2.2.2 rfl)) (T.length - 2) 2 g (by omega) (by omega)
  | cons s r ih =>
    intro P st fs g hs hk hP hg
    obtain ⟨g', rfl⟩ : ∃ g', g = g' + 1 := ⟨g - 1, by simp at hg; omega⟩
    have hbr : '[' ∉ P := fun hm => (hP _ hm).2.2.1 rfl
    have hstep := applyPatternX_ref ic T nlb hT keys F P s.1 s.2 (refSegs r) st fs hbr (hs.ids s List.mem_cons_self)
      (hk s List.mem_cons_self)
    have hP' : ∀ c ∈ P ++ placeholder st.stash.length ++ s.2, QCh c := by
      intro c hc
      rcases List.mem_append.1 hc with hc | hc
      · rcases List.mem_append.1 hc with hc | hc
        · exact hP c hc
        · exact qch_placeholder hc
      · exact qch_alnumSp (hs.tails s List.mem_cons_self c hc)
    have hih := ih (P ++ placeholder st.stash.length ++ s.2)
      { st with stash := st.stash ++ [.node (fnRefNode keys s.1 (Footnotes.footnoteRefId s.1 true fs).1)] }
      (Footnotes.footnoteRefId s.1 true fs).2 g' hs.tail (fun x hx => hk x (List.mem_cons_of_mem _ hx)) hP'
      (by simp at hg; omega)
    have e1 : P ++ placeholder st.stash.length ++ (s.2 ++ refSegs r) = P ++ placeholder st.stash.length ++ s.2 ++ refSegs r := by
      simp
    simp only [refSegs, hiLoopX, show (2 : Nat) < T.length by omega, if_true, hstep, e1, hih]
    simp [refItems, phItems]

theorem length_refSegs (segs : List (Str × Str)) : segs.length ≤ (refSegs segs).length := by
  induction segs with
  | nil => simp
  | cons s r ih => simp [refSegs, fnRefSrc]; omega

/-- `__handleInline` on the paragraph line -/
theorem handleInlineTopX_refs (ic : Inline.Cfg) (T : List PatK) (nlb : Bool) (hT : FnTab T nlb) (keys : List Str) (t : Str)
    (segs : List (Str × Str))
    (ht : PlainFacts t) (hs : SegsOK segs) (hk : ∀ s ∈ segs, keys.contains s.1 = true) (st : Inline.St)
    (fs : Footnotes.State) :
    handleInlineTopX (fnXcG ic T keys) (fnPara t segs) { st := st, fn := fs } =
      some (t ++ phItems st.stash.length (refItems keys segs fs).1,
        { st := { st with stash := st.stash ++ (refItems keys segs fs).1.map (fun it => .node it.1) },
          fn := (refItems keys segs fs).2 }) := by
  have ht0 : (fnXcG ic T keys).table[0]? = some (PatK.core 0) := hT.t0
  have ht1 : (fnXcG ic T keys).table[1]? = some (PatK.core 1) := hT.t1
  have hlenT : (fnXcG ic T keys).table.length = T.length := rfl
  have hlen3 := hT.len
  have hL := paraLine_fnPara t segs ht hs
  have hnb : CodeLaw.noTickBs (fnPara t segs) := by
    intro c hc
    have f := paraCh_facts (hL.chars c hc)
    exact ⟨f.2.2.2.2.2.1, f.2.2.2.2.2.2.1⟩
  have hbs : '\\' ∉ fnPara t segs := fun hm => (hnb _ hm).2 rfl
  have hlen : segs.length ≤ (fnPara t segs).length := by
    have := length_refSegs segs
    simp only [fnPara, List.length_append]; omega
  have hfuel := loopFuelX_ge2 T.length (fnPara t segs).length (by omega)
  obtain ⟨g, hg⟩ : ∃ g, loopFuelX T.length (fnPara t segs).length = (g + (segs.length + T.length)) + 2 :=
    ⟨loopFuelX T.length (fnPara t segs).length - (segs.length + T.length + 2), by omega⟩
  unfold handleInlineTopX
  rw [hlenT, show (fnPara t segs).length + T.length + 4 = ((fnPara t segs).length + T.length + 2) + 1 + 1 from rfl]
  unfold handleInlineX
  rw [hlenT, hg]
  rw [hiLoopX_skip T.length _ _ _ 2 (by omega) (fun p hp => by
    have : p = 0 ∨ p = 1 := by omega
    rcases this with rfl | rfl
    · simp only [applyPatternX, ht0, findX, findMatch, show ¬ (0 > (fnPara t segs).length) by omega, if_false, btFind,
        List.drop_zero, if_true, CodeLaw.btScan_plain _ hnb]
    · simp only [applyPatternX, ht1, findX, findMatch, show ¬ (0 > (fnPara t segs).length) by omega, if_false,
        List.drop_zero, Escape.escScan_noBs _ hbs]) 2 0 _ (by omega)]
  exact hiLoopX_refs ic T nlb hT keys _ segs t st fs _ hs hk (fun c hc => qch_alnumSp (ht.chars c hc)) (by omega)

end MdVerif.RenderG
