/-
Helper lemmas for `Props/C11X.lean`: the concrete instance model (`Model/InstanceX.lean`) on the fresh state is the
one-shot model `PipelineX.convertX`; validity bookkeeping of `convertS`.  Core Lean only.
-/
import MdVerif.Model.InstanceX

namespace MdVerif.InstanceX
open Py Pipeline PipelineX

theorem prepareS_nil (x : Exts) (cfg : Cfg) (s : Str) : prepareS x cfg [] s = prepareX x cfg s := rfl

/-- forget the state: what `treeX` answers -/
def TreeResultS.proj : TreeResultS → TreeResult
  | .ok u st => .ok u st.html
  | .oof => .oof
  | .err => .err
  | .ood => .ood

/-- on a state without carried tables and bookkeeping the stages after the preprocessors are `PipelineM.treeP`
    (= the body of `treeX`, `PipelineM.treeX_eq`) -/
theorem treePS_empty (x : Exts) (cfg : Cfg) {st : MdSt} (hl : st.log = []) (hf : st.fn = Footnotes.State.empty)
    (prep : FootnotesTree.R (Str × List Str)) : (treePS x cfg st prep).proj = PipelineM.treeP x cfg prep := by
  unfold treePS PipelineM.treeP
  simp only [hl, hf]
  cases prep with
  | oof => rfl
  | ood => rfl
  | ok p =>
    obtain ⟨text, stash⟩ := p
    simp only [BlockExt.parseDocumentXT]
    cases Block.parseChunk (BlockExt.parseBlocksXT x.tables x.blockCfg cfg.tab (BlockExt.fuelForX text.length)) [] []
        (Node.el "div") text with
    | none => rfl
    | some p =>
      obtain ⟨root, log⟩ := p
      simp only []
      generalize (if x.footnotes = true then
          match FootnotesTree.makeDiv (parseChunkX x cfg) fnCount (BlockExt.footnotesOf log) log with
          | .ok (some div, log') => FootnotesTree.R.ok (FootnotesTree.placeDiv root div, log')
          | .ok (none, log') => .ok (root, log')
          | .oof => .oof
          | .ood => .ood
        else .ok (root, log)) = fs
      cases fs with
      | oof => rfl
      | ood => rfl
      | ok p =>
        obtain ⟨root, log⟩ := p
        simp only [InlineX.runX]
        cases InlineX.runLoopX
          { cfg := { esc := escX x cfg, refs := List.reverse (refsX x log) },
            table := InlineX.table x.footnotes x.wikilinks x.nl2br,
            fnKeys := List.map (fun x => x.fst) (BlockExt.footnotesOf log) }
          (Inline.runFuel root) (Inline.runFuel root) root [[]] { st := { html := stash } } with
        | none => rfl
        | some p =>
          obtain ⟨t, xs⟩ := p
          simp only []
          cases (if x.footnotes = true then FootnotesTree.duplicates xs.fn t else some t) with
          | none => rfl
          | some t =>
            simp only []
            generalize (if x.toc = true then TocTree.run _ _ _ else TocTree.R.ok _) = ts
            cases ts with
            | oof => rfl
            | err => rfl
            | ood => rfl
            | ok t =>
              simp only []
              cases TreeProc.unescapeTree t <;> rfl

theorem treeS_fresh (x : Exts) (cfg : Cfg) (s : Str) : (treeS x cfg fresh s).proj = treeX x cfg s :=
  treePS_empty x cfg rfl rfl (prepareX x cfg s)

/-- the answer of `convertS` on a state that is tracked, in terms of `treeS` -/
theorem convertS_fst (x : Exts) (cfg : Cfg) (st : MdSt) (s : Str) (hv : st.valid = true) :
    (convertS x cfg st s).1 =
      if s.contains '<' then .ood
      else if x.unsupported then .ood
      else if Normalize.isBlankDoc s then .ok []
      else
        match (treeS x cfg st s).proj with
        | .oof => .oof
        | .err => .err
        | .ood => .ood
        | .ok u html => finishX x cfg html (Ser.serialize cfg.fmt u) := by
  unfold convertS
  simp only [hv, Bool.not_true, Bool.false_eq_true, if_false]
  split
  · rfl
  split
  · rfl
  split
  · rfl
  cases treeS x cfg st s with
  | oof => rfl
  | err => rfl
  | ood => rfl
  | ok u st' =>
    simp only [TreeResultS.proj]
    cases finishX x cfg st'.html (Ser.serialize cfg.fmt u) <;> rfl

theorem convertS_fresh (x : Exts) (cfg : Cfg) (s : Str) : (convertS x cfg fresh s).1 = convertX x cfg s := by
  rw [convertS_fst x cfg fresh s rfl, treeS_fresh]
  rfl

/-- the validity flag of the state of an `ok` result -/
def TreeResultS.validOf : TreeResultS → Bool
  | .ok _ st => st.valid
  | _ => true

theorem treePS_validOf (x : Exts) (cfg : Cfg) (st : MdSt) (pr : FootnotesTree.R (Str × List Str)) :
    (treePS x cfg st pr).validOf = true := by
  unfold treePS
  cases pr with
  | oof => rfl
  | ood => rfl
  | ok p =>
    obtain ⟨text, stash⟩ := p
    simp only []
    generalize Block.parseChunk _ _ _ _ _ = pc
    cases pc with
    | none => rfl
    | some p =>
      obtain ⟨root, log⟩ := p
      simp only []
      generalize (if x.footnotes = true then
          match FootnotesTree.makeDiv (parseChunkX x cfg) fnCount (BlockExt.footnotesOf log) log with
          | .ok (some div, log') => FootnotesTree.R.ok (FootnotesTree.placeDiv root div, log')
          | .ok (none, log') => .ok (root, log')
          | .oof => .oof
          | .ood => .ood
        else .ok (root, log)) = fs
      cases fs with
      | oof => rfl
      | ood => rfl
      | ok p =>
        obtain ⟨root, log⟩ := p
        simp only []
        generalize InlineX.runLoopX _ _ _ _ _ _ = rl
        cases rl with
        | none => rfl
        | some p =>
          obtain ⟨t, xs⟩ := p
          simp only []
          cases (if x.footnotes = true then FootnotesTree.duplicates xs.fn t else some t) with
          | none => rfl
          | some t =>
            simp only []
            generalize (if x.toc = true then TocTree.run _ _ _ else TocTree.R.ok _) = ts
            cases ts with
            | oof => rfl
            | err => rfl
            | ood => rfl
            | ok t =>
              simp only []
              cases TreeProc.unescapeTree t <;> rfl

theorem treeS_validOf (x : Exts) (cfg : Cfg) (st : MdSt) (s : Str) : (treeS x cfg st s).validOf = true :=
  treePS_validOf x cfg st _

/-- a tree result `ok` carries a tracked state -/
theorem treeS_ok_valid {x : Exts} {cfg : Cfg} {st st' : MdSt} {s : Str} {u : Node}
    (h : treeS x cfg st s = .ok u st') : st'.valid = true := by
  have := treeS_validOf x cfg st s
  rw [h] at this
  exact this

/-- on an untracked state nothing is answered -/
theorem convertS_invalid (x : Exts) (cfg : Cfg) (st : MdSt) (s : Str) (hv : st.valid = false) :
    convertS x cfg st s = (.ood, st) := by
  unfold convertS
  simp only [hv, Bool.not_false, if_true]

/-- an `ok` answer leaves a tracked state; any other answer an untracked one -/
theorem convertS_valid_iff (x : Exts) (cfg : Cfg) (st : MdSt) (s : Str) :
    (convertS x cfg st s).2.valid = true ↔ ∃ out, (convertS x cfg st s).1 = .ok out := by
  unfold convertS
  cases hv : st.valid with
  | false => simp [hv]
  | true =>
    simp only [Bool.not_true, Bool.false_eq_true, if_false]
    split
    · simp [MdSt.invalid]
    split
    · simp [MdSt.invalid]
    split
    · simp [hv]
    split
    · simp [MdSt.invalid]
    · simp [MdSt.invalid]
    · simp [MdSt.invalid]
    · rename_i u st' ht
      split
      · rename_i out _
        simp [treeS_ok_valid ht]
      · rename_i o hne
        simp only [MdSt.invalid]
        constructor
        · intro h; cases h
        · rintro ⟨out, ho⟩
          exact absurd ho (by
            intro e
            exact hne out e)

/-- a blank document is answered before any stage runs: the state stays -/
theorem convertS_blank (x : Exts) (cfg : Cfg) (st : MdSt) (s : Str) (hv : st.valid = true)
    (hlt : s.contains '<' = false) (hb : Normalize.isBlankDoc s = true) : convertS x cfg st s = (.ok [], st) := by
  unfold convertS
  have hlt' : ¬ '<' ∈ s := by simpa using hlt
  simp [hv, hlt', hb, Exts.unsupported]

theorem runS_append (x : Exts) (cfg : Cfg) (st : MdSt) (h1 h2 : List Ev) :
    runS x cfg st (h1 ++ h2) = runS x cfg (runS x cfg st h1) h2 := by
  induction h1 generalizing st with
  | nil => rfl
  | cons e h1 ih => exact ih _

theorem outcomes_append (x : Exts) (cfg : Cfg) (st : MdSt) (h1 h2 : List Ev) :
    outcomes x cfg st (h1 ++ h2) = outcomes x cfg st h1 ++ outcomes x cfg (runS x cfg st h1) h2 := by
  induction h1 generalizing st with
  | nil => rfl
  | cons e h1 ih =>
    cases e with
    | convert s => simp only [List.cons_append, outcomes, runS, applyEv, ih]
    | reset => simp only [List.cons_append, outcomes, runS, applyEv, ih]

end MdVerif.InstanceX
