/-
footnotes end to end, partial (`convertX_footnotes`): on a text without `[^`
  * the block stage is the same (no definition, so `makeFootnotesDiv` builds nothing);
  * the footnote inline pattern is dead (no definition ⇒ `handleMatch` rejects every reference), `Lemmas/InlineXSim`;
  * `FootnotePostTreeprocessor` has nothing to do on a tree without `div.footnote` (hypothesis `fnDivFree`: stated on
    the output of the inline stage; not proved here that the stages before never build one);
  * `FootnotePostprocessor` replaces two placeholders; hypothesis: the output of the run without footnotes does not
    contain their inner strings (`fnPlaceholderFree`).
Core Lean only.
-/
import MdVerif.Lemmas.PipelineXInertSim
import MdVerif.Lemmas.PyBasic

namespace MdVerif.BlockExt
open Py Block

theorem abbrP_entry {refs : Refs} {b : Str} {rest : List Str} {r : Refs × List Str}
    (h : abbrP refs b rest = .ok r) : r.1 = refs ∨ ∃ abbr v, r.1 = refs ++ [(abKey abbr, v)] := by
  simp only [abbrP] at h
  split at h
  · cases h
  · split at h
    · cases h
    · split at h
      · split at h
        · injection h with h
          rw [← h]
          exact Or.inr ⟨_, _, rfl⟩
        · injection h with h
          rw [← h]
          exact Or.inl rfl
      · injection h with h
        rw [← h]
        exact Or.inr ⟨_, _, rfl⟩

/-- without the footnote processor the log has no footnote entry (whatever `abbr` is) -/
theorem logStep_noFn' (cfg : XCfg) (hcfg : cfg.footnotes = false) : LogStep (fun _ => True) NoFn cfg where
  ref := by
    intro refs parent b rest m _ hq hm
    obtain ⟨e, he, h1, _⟩ := referenceP_entry refs parent b rest m hm
    rw [he]; exact snoc_all hq h1
  fn := by intro h; rw [hcfg] at h; cases h
  ab := by
    intro _ refs b rest r _ hq h
    rcases abbrP_entry h with e | ⟨abbr, v, e⟩
    · rw [e]; exact hq
    · rw [e]; exact snoc_all hq rfl

theorem footnotesOf_noFn {log : Refs} (h : NoFn log) : footnotesOf log = [] := by
  simp only [footnotesOf]
  have key : ∀ (l : Refs) (d : List (Str × Str)), (∀ e ∈ l, isFnEntry e = false) →
      l.foldl (fun d e => if isFnEntry e then dictSet d (e.1.drop 2) e.2.1 else d) d = d := by
    intro l
    induction l with
    | nil => intro d _; rfl
    | cons e l ih =>
      intro d hl
      simp only [List.foldl_cons, hl e List.mem_cons_self, Bool.false_eq_true, if_false]
      exact ih d (fun x hx => hl x (List.mem_cons_of_mem _ hx))
  exact key log [] h

end MdVerif.BlockExt

namespace MdVerif.FootnotesTree
open Py

/-- not a `div` whose class is exactly `footnote` -/
def qtFn (tag : Tag) (attrs : List (Str × Str)) : Bool :=
  !(tag == .name "div".toList &&
    ((attrs.find? (fun kv => kv.1 = "class".toList)).map (·.2)).getD [] == "footnote".toList)

/-- no `div` whose class is exactly `footnote` -/
def fnDivFreeNode (n : Node) : Bool := BlockExt.allNodes qtFn n

mutual
theorem duplicates_id (fn : Footnotes.State) : ∀ (n : Node), BlockExt.allNodes qtFn n = true → duplicates fn n = some n
  | ⟨tag, attrs, text, ta, children, tail, tla⟩, h => by
    simp only [BlockExt.allNodes, qtFn, Bool.and_eq_true, Bool.not_eq_true'] at h
    simp only [duplicates, duplicatesKids_id fn children h.2, h.1, Bool.false_eq_true, if_false]
theorem duplicatesKids_id (fn : Footnotes.State) : ∀ (l : List Node), BlockExt.allKids qtFn l = true →
    duplicatesKids fn l = some l
  | [], _ => rfl
  | c :: r, h => by
    simp only [BlockExt.allKids, Bool.and_eq_true] at h
    simp only [duplicatesKids, duplicates_id fn c h.1, duplicatesKids_id fn r h.2]
end

/-! ### the placeholders of the postprocessor -/

def inner1 : Str := "zz1337820767766393qq".toList
def inner2 : Str := "qq3936677670287331zz".toList

variable {w pat : Str}

theorem startsWith_head {a p : Char} {s ps : Str} (h : startsWith (a :: s) (p :: ps) = true) : a = p := by
  simp only [startsWith, Bool.and_eq_true, decide_eq_true_eq] at h
  exact h.1

/-- a match of `pat` that starts in `u` ends in `u` when `w` follows and shares no character with `pat` -/
theorem match_within (hw : w ≠ []) (hdis : ∀ c ∈ pat, c ∉ w) : ∀ (u v : Str) (p : Str), (∀ c ∈ p, c ∈ pat) →
    startsWith (u ++ w ++ v) p = true → p.length ≤ u.length := by
  intro u
  induction u with
  | nil =>
    intro v p hp h
    cases p with
    | nil => simp
    | cons p0 ps =>
      cases w with
      | nil => exact absurd rfl hw
      | cons w0 ws =>
        have := startsWith_head (s := ws ++ v) (by simpa using h)
        exact absurd (this ▸ List.mem_cons_self) (hdis p0 (hp p0 List.mem_cons_self))
  | cons a u ih =>
    intro v p hp h
    cases p with
    | nil => simp
    | cons p0 ps =>
      simp only [List.cons_append, startsWith, Bool.and_eq_true, decide_eq_true_eq] at h
      have := ih v ps (fun c hc => hp c (List.mem_cons_of_mem _ hc)) h.2
      simp only [List.length_cons]
      omega

theorem replaceAux_pre (by' : Str) (hw : w ≠ []) (hdis : ∀ c ∈ pat, c ∉ w) (v : Str) :
    ∀ (u : Str) (k : Nat), k ≤ u.length →
      ∃ pre, replaceAux pat by' k (u ++ w ++ v) = pre ++ replaceAux pat by' 0 (w ++ v) := by
  intro u
  induction u with
  | nil =>
    intro k hk
    have : k = 0 := by simpa using hk
    subst this
    exact ⟨[], rfl⟩
  | cons a u ih =>
    intro k hk
    cases k with
    | succ k =>
      simp only [List.cons_append, replaceAux]
      exact ih k (by simpa using hk)
    | zero =>
      simp only [List.cons_append, replaceAux]
      split
      · rename_i hst
        have hlen := match_within hw hdis (a :: u) v pat (fun _ h => h) (by simpa using hst)
        obtain ⟨pre, hpre⟩ := ih (pat.length - 1) (by simp only [List.length_cons] at hlen; omega)
        exact ⟨by' ++ pre, by rw [hpre, List.append_assoc]⟩
      · obtain ⟨pre, hpre⟩ := ih 0 (Nat.zero_le _)
        exact ⟨a :: pre, by rw [hpre]; rfl⟩

theorem replaceAux_copy (by' : Str) (hp : pat ≠ []) (v : Str) : ∀ (w : Str), (∀ c ∈ pat, c ∉ w) →
    replaceAux pat by' 0 (w ++ v) = w ++ replaceAux pat by' 0 v := by
  intro w
  induction w with
  | nil => intro _; rfl
  | cons a w ih =>
    intro hdis
    simp only [List.cons_append, replaceAux]
    have hns : startsWith (a :: (w ++ v)) pat = false := by
      cases hpat : pat with
      | nil => exact absurd hpat hp
      | cons p0 ps =>
        cases hst : startsWith (a :: (w ++ v)) (p0 :: ps) with
        | false => rfl
        | true =>
          have := startsWith_head hst
          exact absurd (this ▸ List.mem_cons_self) (hdis p0 (hpat ▸ List.mem_cons_self))
    rw [hns]
    simp only [Bool.false_eq_true, if_false]
    rw [ih (fun c hc hm => hdis c hc (List.mem_cons_of_mem _ hm))]

/-- replacing `pat` keeps an occurrence of a string that shares no character with `pat` -/
theorem replace_keeps (by' : Str) (hw : w ≠ []) (hdis : ∀ c ∈ pat, c ∉ w) {s : Str} (h : w <:+: s) :
    w <:+: replace s pat by' := by
  simp only [replace]
  split
  · exact h
  · rename_i hp
    have hp' : pat ≠ [] := by intro e; rw [e] at hp; exact hp rfl
    obtain ⟨u, v, rfl⟩ := h
    obtain ⟨pre, hpre⟩ := replaceAux_pre by' hw hdis v u 0 (Nat.zero_le _)
    rw [hpre, replaceAux_copy by' hp' v w hdis]
    exact ⟨pre, replaceAux pat by' 0 v, by simp⟩

theorem lstripP_keeps (p : Char → Bool) {w0 : Char} {ws : Str} (h0 : p w0 = false) (v : Str) :
    ∀ (u : Str), ∃ u', lstripP p (u ++ (w0 :: ws) ++ v) = u' ++ (w0 :: ws) ++ v := by
  intro u
  induction u with
  | nil => exact ⟨[], by simp [lstripP, h0]⟩
  | cons a u ih =>
    simp only [List.cons_append, lstripP]
    split
    · exact ih
    · exact ⟨a :: u, rfl⟩

/-- stripping keeps an occurrence of a string that neither starts nor ends with a blank -/
theorem strip_keeps {s : Str} (hw : w ≠ []) (h1 : ∀ c, w.head? = some c → isSpace c = false)
    (h2 : ∀ c, w.getLast? = some c → isSpace c = false) (h : w <:+: s) : w <:+: strip s := by
  obtain ⟨u, v, rfl⟩ := h
  cases hwc : w with
  | nil => exact absurd hwc hw
  | cons w0 ws =>
    have h0 : isSpace w0 = false := h1 w0 (by rw [hwc]; rfl)
    obtain ⟨u', hu'⟩ := lstripP_keeps isSpace h0 v u (ws := ws)
    simp only [strip, stripP, rstripP]
    rw [hu']
    -- the reversed word
    have hrev : (w0 :: ws).reverse ≠ [] := by simp
    cases hr : (w0 :: ws).reverse with
    | nil => exact absurd hr hrev
    | cons r0 rs =>
      have hr0 : isSpace r0 = false := by
        apply h2 r0
        rw [hwc, List.getLast?_eq_head?_reverse, hr]
        rfl
      have : (u' ++ (w0 :: ws) ++ v).reverse = v.reverse ++ (r0 :: rs) ++ u'.reverse := by
        simp only [List.reverse_append, hr, List.append_assoc]
      rw [this]
      obtain ⟨v', hv'⟩ := lstripP_keeps isSpace hr0 u'.reverse v.reverse (ws := rs)
      rw [hv']
      refine ⟨u', v'.reverse, ?_⟩
      simp only [List.reverse_append, List.reverse_reverse, ← hr, List.append_assoc]

theorem inner1_in : inner1 <:+: fnBacklinkText := ⟨[STX], [ETX], rfl⟩
theorem inner2_in : inner2 <:+: nbspPlaceholder := ⟨[STX], [ETX], rfl⟩

/-- when the final output has neither inner string, the postprocessor did nothing -/
theorem postprocess_id (r : Str) (h1 : contains (strip (Post.ampSub r)) inner1 = false)
    (h2 : contains (strip (Post.ampSub r)) inner2 = false) : postprocess r = r := by
  have key : ∀ (inner ph : Str), inner ≠ [] → (∀ c ∈ Post.ampSubstitute, c ∉ inner) →
      (∀ c, inner.head? = some c → isSpace c = false) → (∀ c, inner.getLast? = some c → isSpace c = false) →
      inner <:+: ph → contains (strip (Post.ampSub r)) inner = false → contains r ph = false := by
    intro inner ph hne hdis hh hl hin hc
    cases hcp : contains r ph with
    | false => rfl
    | true =>
      have hinf : inner <:+: r := List.IsInfix.trans hin ((BlockExt.contains_iff_infix r ph).mp hcp)
      have := strip_keeps hne hh hl (replace_keeps ['&'] hne hdis hinf (pat := Post.ampSubstitute))
      have := (BlockExt.contains_iff_infix _ _).mpr this
      simp only [Post.ampSub] at hc
      rw [hc] at this
      cases this
  have c1 : contains r fnBacklinkText = false :=
    key inner1 fnBacklinkText (by decide) (by decide) (by decide) (by decide) inner1_in h1
  have c2 : contains r nbspPlaceholder = false :=
    key inner2 nbspPlaceholder (by decide) (by decide) (by decide) (by decide) inner2_in h2
  simp only [postprocess]
  rw [Py.replace_id_of_not_contains _ c1, Py.replace_id_of_not_contains _ c2]

end MdVerif.FootnotesTree

namespace MdVerif.PipelineX
open Py Pipeline BlockExt InlineX

theorem closed_fn : Closed (fun s => contains s trigFootnote = false) :=
  closed_noSub trigFootnote (by simp [trigFootnote]) (by simp [trigFootnote])

theorem prep_fn : PrepClosed (fun s => contains s trigFootnote = false) :=
  prepClosed_noSub trigFootnote (by simp [trigFootnote]) '[' (by simp [trigFootnote]) (by decide)

/-- the output of the inline stage -/
def inlineTreeX (x : Exts) (cfg : Cfg) (src : Str) : Option Node :=
  match prepareX x cfg src with
  | .ok (text, stash) =>
    match blockStage x.tables x.footnotes x.blockCfg cfg text with
    | .ok (root, log) => (InlineX.runX (xcOf x cfg log) root stash).map (·.1)
    | _ => none
  | _ => none

/-- the output of the inline stage has no `div` whose class is `footnote` -/
def fnDivFree (x : Exts) (cfg : Cfg) (src : Str) : Bool :=
  match inlineTreeX x cfg src with
  | some t => FootnotesTree.fnDivFreeNode t
  | none => true

/-- the output does not contain the inner strings of the two placeholders of `FootnotePostprocessor` -/
def fnPlaceholderFree (o : Outcome) : Bool :=
  match o with
  | .ok out => !contains out FootnotesTree.inner1 && !contains out FootnotesTree.inner2
  | _ => true

theorem fnRefScan_nil : ∀ (s : Str) (k i : Nat), fnRefScan [] k s i = none := by
  intro s
  induction s with
  | nil => intro k i; cases k <;> rfl
  | cons a r ih =>
    intro k i
    cases k with
    | succ k => simp only [fnRefScan]; exact ih k (i + 1)
    | zero =>
      simp only [fnRefScan]
      split
      · simp only [List.contains_nil, Bool.false_eq_true, if_false]
        exact ih _ _
      · exact ih _ _

theorem table_fn_false (wl nl : Bool) :
    InlineX.table false wl nl = [PatK.core 0, PatK.core 1] ++ (InlineX.table false wl nl).drop 2 := by
  cases wl <;> cases nl <;> rfl

theorem table_fn_true (wl nl : Bool) :
    InlineX.table true wl nl = [PatK.core 0, PatK.core 1] ++ PatK.footnote :: (InlineX.table false wl nl).drop 2 := by
  cases wl <;> cases nl <;> rfl

/-- the block stage with the footnote tree processor, when there is no footnote -/
theorem blockStage_noFn (tables : Bool) (bc : BlockExt.XCfg) (hbc : bc.footnotes = false) (cfg : Cfg) (text : Str) :
    blockStage tables true bc cfg text = blockStage tables false bc cfg text := by
  cases hoff : blockStage tables false bc cfg text with
  | oof =>
    simp only [blockStage] at hoff ⊢
    split at hoff
    · rename_i hp; simp only [hp]
    · simp at hoff
  | ood =>
    simp only [blockStage] at hoff
    split at hoff <;> simp at hoff
  | ok q =>
    obtain ⟨root, log⟩ := q
    have hnofn : NoFn log := blockStage_log tables false bc cfg text (logStep_noFn' bc hbc)
      (by intro e he; cases he) hoff
    simp only [blockStage] at hoff ⊢
    split at hoff
    · cases hoff
    · rename_i root0 log0 hp
      simp only [Bool.false_eq_true, if_false] at hoff
      injection hoff with hoff
      injection hoff with e1 e2
      subst e1; subst e2
      simp only [hp, if_true, footnotesOf_noFn hnofn, FootnotesTree.makeDiv, List.isEmpty_nil]

theorem finishX_footnotes (x : Exts) (hx : x.footnotes = false) (cfg : Cfg) (stash : List Str) (out : Str)
    (hph : fnPlaceholderFree (finishX x cfg stash out) = true) :
    finishX { x with footnotes := true } cfg stash out = finishX x cfg stash out := by
  simp only [finishX, postX, hx, Bool.false_eq_true, if_false, if_true] at hph ⊢
  cases hs : Post.topLevelStrip out with
  | none => rfl
  | some t =>
    rw [hs] at hph
    simp only [] at hph ⊢
    cases hr : Post.rawHtml cfg.blockLevel stash (Post.rawHtmlFuel stash) t with
    | none => rfl
    | some r =>
      rw [hr] at hph
      simp only [Option.map_some, fnPlaceholderFree, Bool.and_eq_true, Bool.not_eq_true'] at hph ⊢
      rw [FootnotesTree.postprocess_id r hph.1 hph.2]

/-- footnotes is inert on a text without `[^`, under the three hypotheses of the head of this file -/
theorem convertX_footnotes (x : Exts) (hx : x.footnotes = false) (htoc : x.toc = false) (cfg : Cfg) (src : Str)
    (h : contains (Normalize.normalize cfg.tab src) trigFootnote = false)
    (hne : convertX x cfg src ≠ .oof) (hdiv : fnDivFree x cfg src = true)
    (hph : fnPlaceholderFree (convertX x cfg src) = true) :
    convertX { x with footnotes := true } cfg src = convertX x cfg src := by
  have hbc : x.blockCfg.footnotes = false := hx
  by_cases hlt : src.contains '<' = true
  · simp only [convertX, if_pos hlt]
  · by_cases hb : Normalize.isBlankDoc src = true
    · simp only [convertX, Exts.unsupported, Bool.false_eq_true, if_false, if_neg hlt, if_pos hb]
    · have ht : treeX { x with footnotes := true } cfg src = treeX x cfg src := by
        apply treeX_of_stages_fuel x _ cfg src (treeX_ne_oof x cfg src hne hlt hb)
        · rfl
        · intro text stash hp
          have h1 : blockStage x.tables true { x.blockCfg with footnotes := true } cfg text =
              blockStage x.tables true x.blockCfg cfg text :=
            blockStage_congr (qt := qtTrue) closed_fn x.tables x.tables x.blockCfg
              { x.blockCfg with footnotes := true } true cfg (tagsOk_true x.blockCfg) (fun _ => tableTagsOk_true) rfl
              (fun pb st refs p b rest hb _ => dispatchXT_footnotes x.tables x.blockCfg cfg.tab pb st refs p b rest hb)
              (prepareX_ok closed_fn prep_fn x cfg src hp h)
          have h2 := blockStage_noFn x.tables x.blockCfg hbc cfg text
          rw [hx]
          exact h1.trans h2
        · intro text stash root log hprep hbs hlate
          have hbs' : blockStage x.tables false x.blockCfg cfg text = .ok (root, log) := by rw [← hx]; exact hbs
          have hnofn : NoFn log := blockStage_log x.tables false x.blockCfg cfg text (logStep_noFn' x.blockCfg hbc)
            (by intro e he; cases he) hbs'
          have hrefs : refsX { x with footnotes := true } log = refsX x log := by
            simp only [refsX, hx, Bool.true_or, Bool.false_or, if_true]
            cases hab : x.abbr with
            | true => rfl
            | false =>
              have hnoab : NoAb log := blockStage_log x.tables false x.blockCfg cfg text
                (logStep_noAb x.blockCfg hab) (by intro e he; cases he) hbs'
              simp only [Bool.false_eq_true, if_false]
              exact refsOf_id hnofn hnoab
          refine lateX_sim (G := False) (c := 'a') (fun g => g.elim) x _ cfg stash root log
            [PatK.core 0, PatK.core 1] ((InlineX.table false x.wikilinks x.nl2br).drop 2) PatK.footnote
            ?_ ?_ ?_ (fun g => g.elim) ?_ hlate
          · simp only [xcOf, hx]
            exact table_fn_false _ _
          · simp only [xcOf, hrefs, hx]
            rw [table_fn_true]
            rfl
          · intro data si xs _ _
            simp only [findX, xcOf, footnotesOf_noFn hnofn, List.map_nil, fnRefScan_nil]
            split <;> rfl
          · intro t xs hrun
            have hfree : FootnotesTree.fnDivFreeNode t = true := by
              simp only [fnDivFree, inlineTreeX, hprep, hbs, hrun, Option.map_some] at hdiv
              exact hdiv
            simp only [afterInline, hx, htoc, if_true, Bool.false_eq_true, if_false,
              FootnotesTree.duplicates_id xs.fn t hfree]
      have hc1 : convertX x cfg src = (match treeX x cfg src with
          | .oof => .oof | .err => .err | .ood => .ood
          | .ok u html => finishX x cfg html (Ser.serialize cfg.fmt u)) := by
        simp only [convertX, Exts.unsupported, Bool.false_eq_true, if_false, if_neg hlt, if_neg hb]
        rfl
      rw [hc1] at hph
      simp only [convertX, Exts.unsupported, Bool.false_eq_true, if_false, if_neg hlt, if_neg hb, ht]
      cases htr : treeX x cfg src with
      | oof => rfl
      | err => rfl
      | ood => rfl
      | ok u html =>
        rw [htr] at hph
        exact finishX_footnotes x hx cfg html _ hph

end MdVerif.PipelineX
