/-
Without the footnotes extension no stage before `FootnotePostTreeprocessor` builds a `div` of class `footnote`
(`fnDivFree_holds`): the block parser makes `div`s for admonitions only (class `admonition …`), the inline stage
makes none and keeps the attributes (`Lemmas/InlineXTags.lean`).  `convertX_footnotes'`: `convertX_footnotes`
without that hypothesis.  Core Lean only.
-/
import MdVerif.Lemmas.PipelineXInertFn
import MdVerif.Lemmas.InlineXTags

namespace MdVerif.PipelineX
open Py Pipeline BlockExt InlineX FootnotesTree

theorem qtFn_nondiv {tag : Tag} (h : tag ≠ .name "div".toList) (a : List (Str × Str)) : qtFn tag a = true := by
  have hb : (tag == Tag.name "div".toList) = false := by simpa using h
  simp only [qtFn, hb, Bool.false_and, Bool.not_false]

theorem nonDivOk_fn : NonDivOk qtFn := by
  intro tag attrs h
  apply qtFn_nondiv
  intro e
  injection e with e
  exact h (String.ext e)

theorem tagsOk_fn (cfg : BlockExt.XCfg) : TagsOk qtFn cfg where
  p := qtFn_nondiv (by decide)
  pre := qtFn_nondiv (by decide)
  code := qtFn_nondiv (by decide)
  hr := qtFn_nondiv (by decide)
  ol := qtFn_nondiv (by decide)
  ul := qtFn_nondiv (by decide)
  li := qtFn_nondiv (by decide)
  blockquote := qtFn_nondiv (by decide)
  h := by
    intro lv a
    apply qtFn_nondiv
    intro e
    simp only [Block.hTag] at e
    injection e with e
    injection e with e1 _
    exact absurd e1 (by decide)
  div := by
    intro _ klass
    have hk : decide (strClass = "class".toList) = true := by decide
    have hv : (strAdmonition ++ ' ' :: klass == "footnote".toList) = false := by
      show (('a' :: ("dmonition".toList ++ ' ' :: klass)) == ('f' :: "ootnote".toList)) = false
      rw [List.cons_beq_cons]
      rfl
    simp only [qtFn, List.find?, hk, Option.map_some, Option.getD_some, hv, Bool.and_false, Bool.not_false]
  dl := fun _ => qtFn_nondiv (by decide)
  dt := fun _ => qtFn_nondiv (by decide)
  dd := fun _ => qtFn_nondiv (by decide)

theorem tableTagsOk_fn : TableTagsOk qtFn :=
  ⟨qtFn_nondiv (by decide), qtFn_nondiv (by decide), qtFn_nondiv (by decide), qtFn_nondiv (by decide),
   qtFn_nondiv (by decide), qtFn_nondiv (by decide)⟩

/-- the tree of the block stage without the footnote tree processor has no `div.footnote` -/
theorem blockStage_fnDiv (tables : Bool) (bc : BlockExt.XCfg) (cfg : Cfg) (text : Str) {root : Node}
    {log : Block.Refs} (h : blockStage tables false bc cfg text = .ok (root, log)) : NI qtFn root := by
  have hg := parseBlocksXT_good (Ok := fun _ => True) (qt := qtFn) closed_true tables tables bc (tagsOk_fn bc)
    (fun _ => tableTagsOk_fn) cfg.tab (fun _ _ _ _ _ _ _ _ => rfl)
  have hdiv : NI qtFn (Node.el "div") := NI_el _ (by decide)
  simp only [blockStage, parseDocumentXT, Bool.false_eq_true, if_false] at h
  split at h
  · cases h
  · rename_i root0 log0 hp
    injection h with h
    injection h with h1 _
    subst h1
    exact ((hg _).chunk closed_true [] [] (Node.el "div") trivial hdiv).2 _ _ hp

/-- the output of the inline stage of a run without footnotes has no `div.footnote` -/
theorem fnDivFree_holds (x : Exts) (hx : x.footnotes = false) (cfg : Cfg) (src : Str) : fnDivFree x cfg src = true := by
  simp only [fnDivFree, inlineTreeX]
  cases hp : prepareX x cfg src with
  | oof => rfl
  | ood => rfl
  | ok q =>
    obtain ⟨text, stash⟩ := q
    simp only []
    cases hb : blockStage x.tables x.footnotes x.blockCfg cfg text with
    | oof => rfl
    | ood => rfl
    | ok r =>
      obtain ⟨root, log⟩ := r
      simp only []
      have hroot : NI qtFn root := blockStage_fnDiv x.tables x.blockCfg cfg text (by rw [← hx]; exact hb)
      cases hrun : InlineX.runX (xcOf x cfg log) root stash with
      | none => rfl
      | some r =>
        obtain ⟨t, xs⟩ := r
        simp only [Option.map_some]
        exact runX_tags nonDivOk_fn _ root stash hroot hrun

/-- footnotes is inert on a text without `[^` when toc is off, the run without it is not out of fuel and its
    output does not contain the inner strings of the postprocessor's placeholders -/
theorem convertX_footnotes' (x : Exts) (hx : x.footnotes = false) (htoc : x.toc = false) (cfg : Cfg) (src : Str)
    (h : contains (Normalize.normalize cfg.tab src) trigFootnote = false)
    (hne : convertX x cfg src ≠ .oof) (hph : fnPlaceholderFree (convertX x cfg src) = true) :
    convertX { x with footnotes := true } cfg src = convertX x cfg src :=
  convertX_footnotes x hx htoc cfg src h hne (fnDivFree_holds x hx cfg src) hph

end MdVerif.PipelineX
