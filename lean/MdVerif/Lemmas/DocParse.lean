/-
Helper lemmas for C01 (`Props/C01.lean`): the conversion of flat documents (rules, paragraphs, ATX and Setext headings
with words and backslash escapes), for every spelling.  Core Lean only.

1. leaves: the stages after the block parser on a `<div>` whose children are `hr`, `p`, `h1`–`h6` elements with
   fully escaped text (built on `Lemmas/InlineEsc.lean`);
2. the block parser on the spellings of a rule, a paragraph, an ATX heading, a Setext heading, and on a sequence of
   such chunks separated by blank lines;
3. normalisation and the raw-HTML preprocessor on such a text;
4. the shape of `print` on a flat document;
5. the composition.
-/
import MdVerif.Model.Pipeline
import MdVerif.Spec.DocFlat
import MdVerif.Spec.EscapeFull
import MdVerif.Spec.Probe
import MdVerif.Lemmas.PyBasic
import MdVerif.Lemmas.BlockEsc
import MdVerif.Lemmas.InlineEsc
import MdVerif.Lemmas.BlockRef

namespace MdVerif.DocParse
open Py Inline Escape

/-! ### 0. vocabulary -/

/-- what the proofs need of the escapable set -/
structure EscOK (esc : List Char) : Prop where
  bs : '\\' ∈ esc
  tick : '`' ∈ esc
  lbr : '[' ∈ esc
  bang : '!' ∈ esc
  star : '*' ∈ esc
  under : '_' ∈ esc
  hash : '#' ∈ esc
  dash : '-' ∈ esc
  plus : '+' ∈ esc
  dot : '.' ∈ esc
  gt : '>' ∈ esc
  nl : '\n' ∉ esc
  sp : ' ' ∉ esc
  nospace : ∀ c ∈ esc, isSpace c = false

theorem escOK_generated : EscOK Generated.escapedChars := by
  constructor <;> decide

/-- the text of a one-line element: not empty, no white space at either end, no line feed, none of the characters
    the preprocessors treat specially (`<`, `&`, STX, ETX, tab, CR) -/
def lineText (t : Str) : Bool :=
  startsVisible t && startsVisible t.reverse && t.all (fun c => isPlainChar c && c != '\n')

/-- an element of the document after the block stage: a rule, or an element `tag` whose text is the fully escaped `t` -/
inductive Leaf where
  | hr
  | txt (tag : Str) (t : Str)

/-- `p`, `h1` … `h6` -/
def textTags : List Str := ["p", "h1", "h2", "h3", "h4", "h5", "h6"].map String.toList

def Leaf.ok : Leaf → Bool
  | .hr => true
  | .txt tag t => textTags.contains tag && lineText t

/-- as the block parser builds it -/
def Leaf.src (esc : List Char) : Leaf → Node
  | .hr => { tag := .name "hr".toList }
  | .txt tag t => { tag := .name tag, text := some (escAll esc t) }

/-- after the inline processor -/
def Leaf.mid (esc : List Char) : Leaf → Node
  | .hr => { tag := .name "hr".toList }
  | .txt tag t => { tag := .name tag, text := some (coded esc t) }

/-- after prettify and unescape -/
def Leaf.fin : Leaf → Node
  | .hr => { tag := .name "hr".toList, tail := some ['\n'] }
  | .txt tag t => { tag := .name tag, text := some t, tail := some ['\n'] }

/-- serialised (xhtml) -/
def Leaf.out : Leaf → Str
  | .hr => "<hr />".toList
  | .txt tag t => '<' :: tag ++ ['>'] ++ Ser.escCdata t ++ ('<' :: '/' :: tag ++ ['>'])

def Leaf.stash (esc : List Char) : Leaf → List StashItem
  | .hr => []
  | .txt _ t => stashOf esc t

def stashAll (esc : List Char) : List Leaf → List StashItem
  | [] => []
  | l :: r => l.stash esc ++ stashAll esc r

/-- the `<div>` with these children -/
def divOf (kids : List Node) : Node := { tag := .name "div".toList, children := kids }

/-! ### 1. leaves through the inline processor -/

theorem lineText_facts {t : Str} (h : lineText t = true) :
    t ≠ [] ∧ '&' ∉ t ∧ '<' ∉ t ∧ Inline.STX ∉ t ∧ '\n' ∉ t ∧ find [' ', ' ', '\n'] t = none ∧
    startsVisible t = true ∧ startsVisible t.reverse = true := by
  simp only [lineText, Bool.and_eq_true, List.all_eq_true] at h
  obtain ⟨⟨hv, hr⟩, hp⟩ := h
  have hnl : '\n' ∉ t := fun hm => by have := (hp _ hm).2; simp at this
  refine ⟨?_, ?_, ?_, ?_, hnl, ?_, hv, hr⟩
  · intro e; subst e; simp [startsVisible] at hv
  · intro hm; exact absurd (hp _ hm).1 (by decide)
  · intro hm; exact absurd (hp _ hm).1 (by decide)
  · intro hm; exact absurd (hp _ hm).1 (by decide)
  · rw [find_none_iff]
    intro pre post e
    apply hnl
    rw [e]; simp

theorem ppTop_resid_gen (esc : List Char) (S0 : List StashItem) (t : Str) (hstx : Inline.STX ∉ t) (html : List Str)
    (parent : Node) :
    ppTop { stash := S0 ++ stashOf esc t, html := html } (resid esc S0.length t) false parent true =
      some ([], appendText parent (coded esc t)) := by
  simp only [ppTop]
  unfold processPlaceholders
  by_cases he : (resid esc S0.length t).isEmpty = true
  · cases t with
    | nil => simp [resid, coded, appendText_nil]
    | cons c r =>
      have := placeholder_length_pos S0.length
      by_cases h : c ∈ esc <;> simp [resid, h] at he
      simp [he] at this
  · simp only [he, Bool.false_eq_true, if_false]
    have hle := escCount_le_resid esc t S0.length
    obtain ⟨g, hg⟩ : ∃ g, (resid esc S0.length t).length + 2 = g + escCount esc t + 1 :=
      ⟨(resid esc S0.length t).length + 1 - escCount esc t, by omega⟩
    rw [hg]
    have := ppLoop_resid esc (S0 ++ stashOf esc t)
      (procNode fun d a p t_1 =>
        processPlaceholders (S0 ++ stashOf esc t) ((S0 ++ stashOf esc t).length + 1) d a p t_1)
      t [] [] S0.length parent g (by simp) hstx (by simp)
    simp only [List.append_nil, List.nil_append, List.length_nil] at this
    exact this

/-- a text leaf, visited as a child -/
theorem visitChild_txt (cfg : Inline.Cfg) (hE : EscOK cfg.esc) (tag : Str) (t : Str) (ht : lineText t = true)
    (v : Visit) :
    visitChild cfg { tag := .name tag, text := some (escAll cfg.esc t) } v =
      some ({ tag := .name tag, text := some (coded cfg.esc t) }, [],
        { v with st := { v.st with stash := v.st.stash ++ stashOf cfg.esc t } }) := by
  obtain ⟨hne, hamp, _, hstx, _, hbr, _, _⟩ := lineText_facts ht
  have h1 := handleInlineTop_escAll cfg t v.st hE.bs hE.tick hE.lbr hE.bang hE.star hE.under hamp hbr
  have h2 := ppTop_resid_gen cfg.esc v.st.stash t hstx v.st.html { tag := .name tag }
  simp only [visitChild, truthy_some (escAll_ne_nil hne), Bool.not_false, Bool.and_self,
    if_true, Option.getD_some, h1]
  rw [h2]
  have hcn : (coded cfg.esc t).isEmpty = false := by
    cases hcd : coded cfg.esc t with
    | nil => exact absurd hcd (coded_ne_nil hne)
    | cons a b => rfl
  simp [appendText, hcn, Node.truthy]

theorem visitChild_leaf (cfg : Inline.Cfg) (hE : EscOK cfg.esc) (l : Leaf) (hl : l.ok = true) (v : Visit) :
    visitChild cfg (l.src cfg.esc) v =
      some (l.mid cfg.esc, [], { v with st := { v.st with stash := v.st.stash ++ l.stash cfg.esc } }) := by
  cases l with
  | hr => simp [Leaf.src, Leaf.mid, Leaf.stash, visitChild, Node.truthy]
  | txt tag t =>
    simp only [Leaf.ok, Bool.and_eq_true] at hl
    exact visitChild_txt cfg hE tag t hl.2 v

theorem withIdx_map_src (esc : List Char) (L : List Leaf) (k : Nat) :
    ∃ idx : List (Option Nat), idx.length = L.length ∧
      withIdx (L.map (Leaf.src esc)) k = (L.map (Leaf.src esc)).zip idx := by
  induction L generalizing k with
  | nil => exact ⟨[], rfl, rfl⟩
  | cons l r ih =>
    obtain ⟨idx, h1, h2⟩ := ih (k + 1)
    exact ⟨some k :: idx, by simp [h1], by simp [withIdx, h2]⟩

/-- the loop over the children of the root -/
theorem visitLoop_leaves (cfg : Inline.Cfg) (hE : EscOK cfg.esc) (L : List Leaf) (hL : ∀ l ∈ L, l.ok = true) :
    ∀ (idx : List (Option Nat)) (v : Visit) (g : Nat), idx.length = L.length →
      ∃ pm, visitLoop cfg (g + L.length + 1) ((L.map (Leaf.src cfg.esc)).zip idx) v =
        some { done := (L.map (Leaf.mid cfg.esc)).reverse ++ v.done, posmap := pm, pushes := v.pushes,
               st := { v.st with stash := v.st.stash ++ stashAll cfg.esc L } } := by
  induction L with
  | nil =>
    intro idx v g _
    refine ⟨v.posmap, ?_⟩
    simp [visitLoop, stashAll]
  | cons l r ih =>
    intro idx v g hidx
    cases idx with
    | nil => simp at hidx
    | cons o idx =>
      have hidx' : idx.length = r.length := by simpa using hidx
      clear hidx
      have hl := hL l List.mem_cons_self
      have hr : ∀ x ∈ r, x.ok = true := fun x hx => hL x (List.mem_cons_of_mem _ hx)
      have hv := visitChild_leaf cfg hE l hl v
      simp only [List.map_cons, List.zip_cons_cons, List.length_cons]
      rw [show g + (r.length + 1) + 1 = (g + r.length + 1) + 1 by omega]
      cases o with
      | none =>
        simp only [visitLoop, hv, List.map_nil, List.nil_append]
        obtain ⟨pm, hpm⟩ := ih hr idx
          { done := l.mid cfg.esc :: v.done, posmap := v.posmap,
            pushes := v.pushes, st := { v.st with stash := v.st.stash ++ l.stash cfg.esc } } g hidx'
        refine ⟨pm, ?_⟩
        rw [hpm]
        simp [stashAll, List.append_assoc]
      | some o =>
        simp only [visitLoop, hv, List.map_nil, List.nil_append]
        obtain ⟨pm, hpm⟩ := ih hr idx
          { done := l.mid cfg.esc :: v.done, posmap := (o, v.done.length) :: v.posmap,
            pushes := v.pushes, st := { v.st with stash := v.st.stash ++ l.stash cfg.esc } } g hidx'
        refine ⟨pm, ?_⟩
        rw [hpm]
        simp [stashAll, List.append_assoc]

mutual
theorem size_pos (n : Node) : 0 < size n := by
  cases n; simp [size]; omega
end

theorem sizeList_ge_length (ns : List Node) : ns.length ≤ sizeList ns := by
  induction ns with
  | nil => simp [sizeList]
  | cons n r ih => have := size_pos n; simp [sizeList]; omega

/-- **`InlineProcessor.run`** on a `<div>` of leaves -/
theorem run_leaves (cfg : Inline.Cfg) (hE : EscOK cfg.esc) (L : List Leaf) (hL : ∀ l ∈ L, l.ok = true)
    (html : List Str) :
    Inline.run cfg (divOf (L.map (Leaf.src cfg.esc))) html =
      some (divOf (L.map (Leaf.mid cfg.esc)), { stash := stashAll cfg.esc L, html := html }) := by
  have hsz : L.length + 3 ≤ runFuel (divOf (L.map (Leaf.src cfg.esc))) := by
    have := sizeList_ge_length (L.map (Leaf.src cfg.esc))
    simp only [runFuel, divOf, size, List.length_map] at this ⊢
    omega
  obtain ⟨g, hg⟩ : ∃ g, runFuel (divOf (L.map (Leaf.src cfg.esc))) = g + L.length + 1 + 2 :=
    ⟨runFuel (divOf (L.map (Leaf.src cfg.esc))) - L.length - 3, by omega⟩
  obtain ⟨idx, hidx, hwi⟩ := withIdx_map_src cfg.esc L 0
  obtain ⟨pm, hpm⟩ := visitLoop_leaves cfg hE L hL idx { st := { html := html } } (g + 2) hidx
  simp only [Inline.run]
  rw [hg]
  simp only [runLoop, getAt, divOf, hwi]
  rw [show g + L.length + 1 + 2 = (g + 2) + L.length + 1 by omega, hpm]
  simp [setAt, runLoop]

/-! ### 1b. leaves through prettify, unescape, the serializer and the end of `convert` -/

/-- a leaf after prettify, before unescape -/
def Leaf.pretty (esc : List Char) : Leaf → Node
  | .hr => { tag := .name "hr".toList, tail := some ['\n'] }
  | .txt tag t => { tag := .name tag, text := some (coded esc t), tail := some ['\n'] }

/-- the outputs, one per line -/
def joinOut : List Leaf → Str
  | [] => []
  | [l] => l.out
  | l :: l' :: r => l.out ++ ['\n'] ++ joinOut (l' :: r)

/-- what is known of the tags `hr`, `p`, `h1` … `h6` -/
theorem tagFacts : ∀ tag ∈ "hr".toList :: textTags,
    TreeProc.isBlockLevel TreeProc.defaultBlockLevel (.name tag) = true ∧
    tag ≠ ['c', 'o', 'd', 'e'] ∧ tag ≠ ['p', 'r', 'e'] ∧ tag ≠ ['b', 'r'] ∧ Ser.isRawTextTag tag = false ∧
    (Ser.isEmptyTag tag = (tag == "hr".toList)) ∧ Post.STX ∉ tag := by decide

def Leaf.tag : Leaf → Str
  | .hr => "hr".toList
  | .txt tag _ => tag

theorem leaf_tag_mem {l : Leaf} (h : l.ok = true) : l.tag ∈ "hr".toList :: textTags := by
  cases l with
  | hr => simp [Leaf.tag]
  | txt tag t =>
    simp only [Leaf.ok, Bool.and_eq_true] at h
    exact List.mem_cons_of_mem _ (List.contains_iff_mem.1 h.1)

theorem prettifyETree_leaf (esc : List Char) (l : Leaf) (hl : l.ok = true) :
    TreeProc.prettifyETree TreeProc.defaultBlockLevel (l.mid esc) = l.pretty esc := by
  have hf := tagFacts _ (leaf_tag_mem hl)
  cases l with
  | hr =>
    simp only [Leaf.tag] at hf
    simp [Leaf.mid, Leaf.pretty, TreeProc.prettifyETree, TreeProc.blankOrNone, Node.truthy,
      TreeProc.prettifyKids]
  | txt tag t =>
    simp only [Leaf.tag] at hf
    simp [Leaf.mid, Leaf.pretty, TreeProc.prettifyETree, hf.1, hf.2.1, hf.2.2.1, TreeProc.blankOrNone, Node.truthy,
      TreeProc.prettifyKids]

theorem prettifyKids_leaves (esc : List Char) (L : List Leaf) (hL : ∀ l ∈ L, l.ok = true) :
    TreeProc.prettifyKids TreeProc.defaultBlockLevel (L.map (Leaf.mid esc)) = L.map (Leaf.pretty esc) := by
  induction L with
  | nil => rfl
  | cons l r ih =>
    have hl := hL l List.mem_cons_self
    have hb : TreeProc.isBlockLevel TreeProc.defaultBlockLevel (l.mid esc).tag = true := by
      have hf := tagFacts _ (leaf_tag_mem hl)
      cases l <;> exact hf.1
    simp only [List.map_cons, TreeProc.prettifyKids, hb, if_true, prettifyETree_leaf esc l hl,
      ih (fun x hx => hL x (List.mem_cons_of_mem _ hx))]

theorem mapTree_rules_leaf (esc : List Char) (l : Leaf) (hl : l.ok = true) :
    TreeProc.mapTree TreeProc.preRule (TreeProc.mapTree TreeProc.brRule (l.pretty esc)) = l.pretty esc := by
  have hf := tagFacts _ (leaf_tag_mem hl)
  cases l with
  | hr =>
    simp only [Leaf.tag] at hf
    simp [Leaf.pretty, TreeProc.mapTree, TreeProc.mapKids, TreeProc.brRule, TreeProc.preRule, TreeProc.tagIs]
  | txt tag t =>
    simp only [Leaf.tag] at hf
    simp [Leaf.pretty, TreeProc.mapTree, TreeProc.mapKids, TreeProc.brRule, TreeProc.preRule, TreeProc.tagIs,
      hf.2.2.1, hf.2.2.2.1]

theorem mapKids_comp (f g : Node → Node) (ns : List Node) (h : ∀ n ∈ ns, TreeProc.mapTree f (TreeProc.mapTree g n) = n) :
    TreeProc.mapKids f (TreeProc.mapKids g ns) = ns := by
  induction ns with
  | nil => rfl
  | cons n r ih =>
    simp only [TreeProc.mapKids, h n List.mem_cons_self, ih (fun x hx => h x (List.mem_cons_of_mem _ hx))]

/-- the document after `prettify` -/
def prettyDiv (kids : List Node) : Node :=
  { tag := .name "div".toList, text := some ['\n'], children := kids, tail := some ['\n'] }

theorem prettify_leaves (esc : List Char) (L : List Leaf) (hne : L ≠ []) (hL : ∀ l ∈ L, l.ok = true) :
    TreeProc.prettify (divOf (L.map (Leaf.mid esc))) = prettyDiv (L.map (Leaf.pretty esc)) := by
  have h1 : TreeProc.isBlockLevel TreeProc.defaultBlockLevel (.name "div".toList) = true := by decide
  have h3 : (Tag.name "div".toList == Tag.name "code".toList) = false := by decide
  have h4 : (Tag.name "div".toList == Tag.name "pre".toList) = false := by decide
  have h7 : (Tag.name "div".toList == Tag.name "br".toList) = false := by decide
  obtain ⟨l, r, rfl⟩ : ∃ l r, L = l :: r := by
    cases L with
    | nil => exact absurd rfl hne
    | cons l r => exact ⟨l, r, rfl⟩
  have hb : TreeProc.isBlockLevel TreeProc.defaultBlockLevel (l.mid esc).tag = true := by
    have hf := tagFacts _ (leaf_tag_mem (hL l List.mem_cons_self))
    cases l <;> exact hf.1
  have hk := prettifyKids_leaves esc (l :: r) hL
  have hm := mapKids_comp TreeProc.preRule TreeProc.brRule ((l :: r).map (Leaf.pretty esc))
    (by
      intro n hn
      obtain ⟨x, hx, rfl⟩ := List.mem_map.1 hn
      exact mapTree_rules_leaf esc x (hL x hx))
  simp only [List.map_cons] at hk hm
  simp only [TreeProc.prettify, divOf, List.map_cons, TreeProc.prettifyETree, h1, h3, hb, TreeProc.blankOrNone,
    Node.truthy, Bool.not_false, Bool.true_or, Bool.and_self, if_true, hk, TreeProc.mapTree,
    TreeProc.brRule, TreeProc.preRule, TreeProc.tagIs, h7, h4, Bool.false_eq_true, if_false, hm, prettyDiv]

theorem unescapeTree_leaf (esc : List Char) (l : Leaf) (hl : l.ok = true) :
    TreeProc.unescapeTree (l.pretty esc) = some l.fin := by
  have hnl : TreeProc.unescapeText 0 ['\n'] = some ['\n'] := by decide
  have hf := tagFacts _ (leaf_tag_mem hl)
  cases l with
  | hr => simp [Leaf.pretty, Leaf.fin, TreeProc.unescapeTree, TreeProc.unescapeKids, TreeProc.unescAttrs, hnl,
      Node.truthy]
  | txt tag t =>
    simp only [Leaf.ok, Bool.and_eq_true] at hl
    obtain ⟨hne, _, _, hstx, _⟩ := lineText_facts hl.2
    simp only [Leaf.tag] at hf
    have hu := unescapeText_coded (esc := esc) t hstx
    obtain ⟨a, b, hab⟩ : ∃ a b, coded esc t = a :: b := by
      cases hc : coded esc t with
      | nil => exact absurd hc (coded_ne_nil hne)
      | cons a b => exact ⟨a, b, rfl⟩
    rw [hab] at hu
    simp [Leaf.pretty, Leaf.fin, TreeProc.unescapeTree, TreeProc.unescapeKids, TreeProc.unescAttrs, hnl,
      Node.truthy, hab, hu, hf.2.1]

theorem unescapeKids_leaves (esc : List Char) (L : List Leaf) (hL : ∀ l ∈ L, l.ok = true) :
    TreeProc.unescapeKids (L.map (Leaf.pretty esc)) = some (L.map Leaf.fin) := by
  induction L with
  | nil => rfl
  | cons l r ih =>
    simp only [List.map_cons, TreeProc.unescapeKids, unescapeTree_leaf esc l (hL l List.mem_cons_self),
      ih (fun x hx => hL x (List.mem_cons_of_mem _ hx))]

theorem unescapeTree_leaves (esc : List Char) (L : List Leaf) (hL : ∀ l ∈ L, l.ok = true) :
    TreeProc.unescapeTree (prettyDiv (L.map (Leaf.pretty esc))) = some (prettyDiv (L.map Leaf.fin)) := by
  have hnl : TreeProc.unescapeText 0 ['\n'] = some ['\n'] := by decide
  simp [prettyDiv, TreeProc.unescapeTree, unescapeKids_leaves esc L hL, TreeProc.unescAttrs, hnl, Node.truthy]

theorem serialize_leaf (l : Leaf) (hl : l.ok = true) : Ser.serialize .xhtml l.fin = l.out ++ ['\n'] := by
  have h5 : Ser.escCdata ['\n'] = ['\n'] := by decide
  have hf := tagFacts _ (leaf_tag_mem hl)
  cases l with
  | hr =>
    clear hf
    have : Ser.isEmptyTag ['h', 'r'] = true := by decide
    simp [Leaf.fin, Leaf.out, Ser.serialize, Ser.element, Ser.sortAttrs, Ser.writeAttrs, this,
      Node.truthy, h5]
  | txt tag t =>
    simp only [Leaf.ok, Bool.and_eq_true] at hl
    obtain ⟨hne, _⟩ := lineText_facts hl.2
    obtain ⟨a, b, rfl⟩ : ∃ a b, t = a :: b := by
      cases t with
      | nil => exact absurd rfl hne
      | cons a b => exact ⟨a, b, rfl⟩
    simp only [Leaf.tag] at hf
    have hnot : tag ≠ "hr".toList := by
      intro e
      have : textTags.contains "hr".toList = false := by decide
      rw [← e, hl.1] at this; cases this
    have he : Ser.isEmptyTag tag = false := by rw [hf.2.2.2.2.2.1]; simpa using hnot
    simp [Leaf.fin, Leaf.out, Ser.serialize, Ser.serializeList, Ser.element, Ser.sortAttrs, Ser.writeAttrs, he,
      hf.2.2.2.2.1, Node.truthy, h5, List.append_assoc]

theorem serializeList_leaves (L : List Leaf) (hne : L ≠ []) (hL : ∀ l ∈ L, l.ok = true) :
    Ser.serializeList .xhtml (L.map Leaf.fin) = joinOut L ++ ['\n'] := by
  induction L with
  | nil => exact absurd rfl hne
  | cons l r ih =>
    have hl := serialize_leaf l (hL l List.mem_cons_self)
    cases r with
    | nil => simp [Ser.serializeList, hl, joinOut]
    | cons l' r' =>
      have := ih (by simp) (fun x hx => hL x (List.mem_cons_of_mem _ hx))
      simp only [List.map_cons, Ser.serializeList] at this ⊢
      rw [hl, this]
      simp [joinOut, List.append_assoc]

theorem serialize_leaves (L : List Leaf) (hne : L ≠ []) (hL : ∀ l ∈ L, l.ok = true) :
    Ser.serialize .xhtml (prettyDiv (L.map Leaf.fin)) =
      "<div>".toList ++ ('\n' :: joinOut L ++ ['\n']) ++ "</div>\n".toList := by
  have h1 : Ser.isEmptyTag "div".toList = false := by decide
  have h3 : Ser.isRawTextTag "div".toList = false := by decide
  have h5 : Ser.escCdata ['\n'] = ['\n'] := by decide
  simp only [prettyDiv, Ser.serialize, Ser.element, Ser.sortAttrs, List.foldr_nil, Ser.writeAttrs, h1, h3, h5,
    Node.truthy, Option.getD_some, Bool.false_eq_true, if_false, if_true, List.append_nil,
    serializeList_leaves L hne hL, Bool.and_false]
  simp [List.append_assoc]

/-- the end of `convert` on `<div>\nJ\n</div>\n` -/
theorem finish_wrapped (bl : List Str) (J : Str) (hstx : Post.STX ∉ J)
    (hh : ∀ c, J.head? = some c → isSpace c = false) (hl : ∀ c, J.getLast? = some c → isSpace c = false) :
    Post.finish bl [] ("<div>".toList ++ ('\n' :: J ++ ['\n']) ++ "</div>\n".toList) = some (some J) := by
  have hs : strip J = J := strip_eq_self hh hl
  have hs2 : strip ('\n' :: J ++ ['\n']) = J := by
    have := strip_append_of_blank (a := ['\n']) (b := ['\n']) (by decide) (by decide) J
    have e : '\n' :: J ++ ['\n'] = ['\n'] ++ J ++ ['\n'] := by simp
    rw [e, this, hs]
  simp only [Post.finish, topLevelStrip_div, hs2, Post.post, Post.rawHtmlFuel, List.length_nil,
    Post.rawHtml, List.isEmpty_nil, if_true, Option.map_some, ampSub_id _ hstx, hs]

theorem out_facts (l : Leaf) (hl : l.ok = true) :
    Post.STX ∉ l.out ∧ l.out.head? = some '<' ∧ l.out.getLast? = some '>' := by
  have hf := tagFacts _ (leaf_tag_mem hl)
  cases l with
  | hr => refine ⟨by decide, rfl, rfl⟩
  | txt tag t =>
    simp only [Leaf.ok, Bool.and_eq_true] at hl
    obtain ⟨_, _, _, hstx, _⟩ := lineText_facts hl.2
    simp only [Leaf.tag] at hf
    refine ⟨?_, rfl, ?_⟩
    · intro hm
      simp only [Leaf.out, List.mem_append, List.mem_cons] at hm
      have hE : Post.STX ∉ Ser.escCdata t := by
        rw [Ser.onepass_cdata']; exact stx_not_mem_esc1 _ _ t hstx
      have h7 := hf.2.2.2.2.2.2
      have d1 : Post.STX ≠ '<' := by decide
      have d2 : Post.STX ≠ '>' := by decide
      have d3 : Post.STX ≠ '/' := by decide
      rcases hm with ((h | h | h) | h) | (h | h | h | h) <;> simp_all
    · simp only [Leaf.out]
      have : ('<' :: tag ++ ['>'] ++ Ser.escCdata t ++ ('<' :: '/' :: tag ++ ['>'])) =
          ('<' :: tag ++ ['>'] ++ Ser.escCdata t ++ ('<' :: '/' :: tag)) ++ ['>'] := by simp
      rw [this, List.getLast?_append]; rfl

theorem joinOut_facts (L : List Leaf) (hne : L ≠ []) (hL : ∀ l ∈ L, l.ok = true) :
    Post.STX ∉ joinOut L ∧ (joinOut L).head? = some '<' ∧ (joinOut L).getLast? = some '>' := by
  induction L with
  | nil => exact absurd rfl hne
  | cons l r ih =>
    have ho := out_facts l (hL l List.mem_cons_self)
    cases r with
    | nil => simpa [joinOut] using ho
    | cons l' r' =>
      have ih' := ih (by simp) (fun x hx => hL x (List.mem_cons_of_mem _ hx))
      refine ⟨?_, ?_, ?_⟩
      · intro hm
        simp only [joinOut, List.mem_append, List.mem_singleton] at hm
        rcases hm with (h | h) | h
        · exact ho.1 h
        · exact absurd h (by decide)
        · exact ih'.1 h
      · simp only [joinOut, List.append_assoc]
        cases hlo : l.out with
        | nil => rw [hlo] at ho; simp at ho
        | cons a b => rw [hlo] at ho; simpa using ho.2.1
      · simp only [joinOut]
        rw [List.getLast?_append, ih'.2.2]; rfl

/-- **the stages after the block parser** on a `<div>` of leaves -/
theorem render_leaves (cfg : Pipeline.Cfg) (hE : EscOK cfg.esc) (hbl : cfg.blockLevel = TreeProc.defaultBlockLevel)
    (hfmt : cfg.fmt = .xhtml) (refs : List (Str × Str × Option Str)) (L : List Leaf) (hne : L ≠ [])
    (hL : ∀ l ∈ L, l.ok = true) :
    Probe.render cfg refs (divOf (L.map (Leaf.src cfg.esc))) = .ok (joinOut L) := by
  have h1 := run_leaves { esc := cfg.esc, refs := refs } hE L hL []
  have h2 := prettify_leaves cfg.esc L hne hL
  have h3 := unescapeTree_leaves cfg.esc L hL
  have h4 := serialize_leaves L hne hL
  obtain ⟨j1, j2, j3⟩ := joinOut_facts L hne hL
  have h5 := finish_wrapped cfg.blockLevel (joinOut L) j1
    (fun c hc => by rw [j2] at hc; cases hc; decide) (fun c hc => by rw [j3] at hc; cases hc; decide)
  simp only [Probe.render, h1, hbl, h2, h3, hfmt, h4]
  rw [hbl] at h5
  simp only [h5]

/-! ### 2. the block parser on one chunk -/

section blocks
open Block DocSpec

/-- the chunk `b`, met in the parser state `[]`, appends the element `n` to the parent and leaves the references and
    the other blocks alone — whatever the parent and the other blocks are -/
def Produces (tab : Nat) (b : Str) (n : Node) : Prop :=
  ∀ (pb : PB) (refs : Refs) (parent : Node) (rest : List Str),
    dispatch tab pb [] refs parent b rest = some (parent.append n, refs, rest)

theorem notNl_of_not_mem {s : Str} (h : '\n' ∉ s) : s.all notNl = true := by
  rw [List.all_eq_true]
  intro c hc
  simp only [notNl, bne_iff_ne, ne_eq]
  intro e; exact h (e ▸ hc)

theorem hashSearch_line (s : Str) (hnl : '\n' ∉ s) (hh : s.head? ≠ some '#') : hashSearch s = none := by
  have := hashSearchNl_skip s [] 0 (notNl_of_not_mem hnl)
  simp only [List.append_nil, hashSearchNl] at this
  simp [hashSearch, hashAt_none s hh, this]

theorem find_nl_none (s : Str) (hnl : '\n' ∉ s) : find ['\n'] s = none := find_none_of_head hnl

theorem setextMatch_line (s : Str) (hnl : '\n' ∉ s) : setextMatch s = false := by
  simp [setextMatch, find_nl_none s hnl]

/-! #### rules -/

theorem hrScan_spaces (c : Char) (hc : c ≠ ' ') (j sp cnt : Nat) (X : Str) (h : sp + j ≤ 2) :
    hrScan c sp cnt (spaces j ++ X) = hrScan c (sp + j) cnt X := by
  induction j generalizing sp with
  | zero => rfl
  | succ j ih =>
    have hc' : (' ' : Char) ≠ c := fun e => hc e.symm
    simp only [spaces, List.replicate_succ, List.cons_append, hrScan, hc', if_false, decide_true, Bool.true_and]
    have : sp < 2 := by omega
    simp only [this, decide_true, if_true]
    rw [show sp + (j + 1) = (sp + 1) + j by omega]
    exact ih (sp + 1) (by omega)

theorem rulePattern_one (c : Char) (g : Nat) : rulePattern c 1 g = [c] := rfl
theorem rulePattern_succ_succ (c : Char) (n g : Nat) :
    rulePattern c (n + 2) g = c :: rep g ' ' ++ rulePattern c (n + 1) g := rfl

theorem hrScan_pattern (c : Char) (hc : c ≠ ' ') (gap t : Nat) (hg : gap ≤ 2) (ht : t ≤ 2) (k : Nat) :
    ∀ sp cnt, hrScan c sp cnt (rulePattern c (k + 1) gap ++ spaces t) = (cnt + k + 1, []) := by
  induction k with
  | zero =>
    intro sp cnt
    rw [show (0 : Nat) + 1 = 1 from rfl, rulePattern_one]
    simp only [List.cons_append, List.nil_append, hrScan, if_true]
    have := hrScan_spaces c hc t 0 (cnt + 1) [] (by omega)
    simp only [List.append_nil] at this
    rw [this]
    cases t <;> simp [hrScan]
  | succ k ih =>
    intro sp cnt
    rw [rulePattern_succ_succ]
    simp only [List.cons_append, hrScan, if_true, List.append_assoc]
    rw [show rep gap ' ' = spaces gap from rfl, hrScan_spaces c hc gap 0 (cnt + 1) _ (by omega), ih]
    congr 1; omega

theorem rulePattern_head (c : Char) (k gap : Nat) : ∃ r, rulePattern c (k + 1) gap = c :: r := by
  cases k with
  | zero => exact ⟨[], rfl⟩
  | succ k => exact ⟨_, rfl⟩

theorem mem_rulePattern (c : Char) (k gap : Nat) : ∀ x ∈ rulePattern c k gap, x = c ∨ x = ' ' := by
  induction k using Nat.strongRecOn with
  | _ k ih =>
    match k with
    | 0 => intro x hx; simp [rulePattern] at hx
    | 1 => intro x hx; rw [rulePattern_one] at hx; simp at hx; exact Or.inl hx
    | k + 2 =>
      intro x hx
      rw [rulePattern_succ_succ] at hx
      simp only [List.cons_append, List.mem_cons, List.mem_append] at hx
      rcases hx with h | h | h
      · exact Or.inl h
      · exact Or.inr (List.eq_of_mem_replicate h)
      · exact ih (k + 1) (by omega) x h

theorem ruleChar_cases (k : Nat) : ruleChar k = '*' ∨ ruleChar k = '-' ∨ ruleChar k = '_' := by
  unfold ruleChar; split
  · exact Or.inl rfl
  · split
    · exact Or.inr (Or.inl rfl)
    · exact Or.inr (Or.inr rfl)

/-- the shape of a printed rule -/
theorem ruleLine_shape (i ch n g t : Nat) :
    ∃ c r, (c = '*' ∨ c = '-' ∨ c = '_') ∧
      rulePattern c (3 + n % 3) (g % 3) = c :: r ∧
      ruleLine true i ch n g t = spaces (i % 4) ++ (rulePattern c (3 + n % 3) (g % 3) ++ spaces (t % 3)) ∧
      '\n' ∉ ruleLine true i ch n g t := by
  obtain ⟨r, hr⟩ := rulePattern_head (ruleChar ch) (2 + n % 3) (g % 3)
  rw [show 2 + n % 3 + 1 = 3 + n % 3 by omega] at hr
  refine ⟨ruleChar ch, r, ruleChar_cases ch, hr, by simp [ruleLine, spaces, rep, List.append_assoc], ?_⟩
  intro hm
  simp only [ruleLine, rep, if_true, List.mem_append] at hm
  have hcne : ruleChar ch ≠ '\n' := by rcases ruleChar_cases ch with h | h | h <;> rw [h] <;> decide
  rcases hm with (h | h) | h
  · exact absurd (List.eq_of_mem_replicate h) (by decide)
  · rcases mem_rulePattern _ _ _ _ h with e | e
    · exact hcne e.symm
    · exact absurd e (by decide)
  · exact absurd (List.eq_of_mem_replicate h) (by decide)

theorem hrLine_rule (i ch n g t : Nat) : hrLine (ruleLine true i ch n g t) = true := by
  obtain ⟨c, r, hc, hr, hs, _⟩ := ruleLine_shape i ch n g t
  have hcsp : c ≠ ' ' := by rcases hc with h | h | h <;> rw [h] <;> decide
  rw [hs]
  unfold hrLine
  have hcp : countPrefix ' ' (some 3) (spaces (i % 4) ++ (rulePattern c (3 + n % 3) (g % 3) ++ spaces (t % 3))) =
      i % 4 := by
    rw [hr]
    exact countPrefix_some_spaces (i % 4) 3 _ (by simp [hcsp]) (by omega)
  rw [hcp, List.drop_left' (by simp [spaces])]
  have hsc := hrScan_pattern c hcsp (g % 3) (t % 3) (by omega) (by omega) (2 + n % 3) 0 0
  rw [show 2 + n % 3 + 1 = 3 + n % 3 by omega] at hsc
  rw [hr] at hsc ⊢
  simp only [List.cons_append]
  have hcc : (c = '-' || c = '_' || c = '*') = true := by rcases hc with h | h | h <;> simp [h]
  simp only [List.cons_append] at hsc
  simp [hcc, hsc]

/-- **A rule**, in every spelling, is claimed by `HRProcessor` and becomes an `hr` element. -/
theorem produces_rule (tab : Nat) (htab : 3 < tab) (i ch n g t : Nat) :
    Produces tab (ruleLine true i ch n g t) { tag := .name "hr".toList } := by
  intro pb refs parent rest
  obtain ⟨c, r, hc, hr, hs, hnl⟩ := ruleLine_shape i ch n g t
  have hline := hrLine_rule i ch n g t
  generalize ruleLine true i ch n g t = b at *
  have hcsp : c ≠ ' ' := by rcases hc with h | h | h <;> rw [h] <;> decide
  have hcnl : c ≠ '\n' := by rcases hc with h | h | h <;> rw [h] <;> decide
  have hch : c ≠ '#' := by rcases hc with h | h | h <;> rw [h] <;> decide
  have hb : b = spaces (i % 4) ++ c :: (r ++ spaces (t % 3)) := by rw [hs, hr]; simp
  have h1 : b.isEmpty = false := by rw [hb]; cases i % 4 <;> simp [spaces, List.replicate_succ]
  have h2 : startsWith b ['\n'] = false := by
    rw [hb]; cases i % 4 <;> simp [spaces, List.replicate_succ, hcnl]
  have h3 : startsWith b (spaces tab) = false := by
    rw [hb]; exact startsWith_spaces_false _ tab c _ (by omega) hcsp
  have hhead : b.head? ≠ some '#' := by
    rw [hb, head?_spaces_cons]; split <;> simp [hch]
  have h4 := hashSearch_line b hnl hhead
  have h5 := setextMatch_line b hnl
  have h6 : hrSearch b = some (0, b.length) := by
    simp [hrSearch, lines, splitC_noNl b (notNl_of_not_mem hnl), hrSearchLines, hline]
  unfold dispatch
  simp only [h1, h2, h3, h4, h5, h6, Bool.or_self, Bool.false_eq_true, if_false, Bool.false_and]
  simp [hrP, rstripC, rstripP, lstripC, Node.el]

/-! #### escaped one-line text -/

theorem length_le_escAll (esc : List Char) (t : Str) : t.length ≤ (escAll esc t).length := by
  induction t with
  | nil => simp [escAll]
  | cons a r ih => by_cases ha : a ∈ esc <;> simp [escAll, ha] <;> omega

theorem getLast_escAll (esc : List Char) (t : Str) (hne : t ≠ []) : (escAll esc t).getLast? = t.getLast? := by
  induction t with
  | nil => exact absurd rfl hne
  | cons a r ih =>
    cases r with
    | nil => by_cases ha : a ∈ esc <;> simp [escAll, ha]
    | cons b r' =>
      have := ih (by simp)
      have hne' := escAll_ne_nil (esc := esc) (t := b :: r') (by simp)
      by_cases ha : a ∈ esc
      · rw [escAll_cons_mem ha]
        cases hx : escAll esc (b :: r') with
        | nil => exact absurd hx hne'
        | cons x y => rw [hx] at this; simpa [List.getLast?_cons_cons] using this
      · rw [escAll_cons_not_mem ha]
        cases hx : escAll esc (b :: r') with
        | nil => exact absurd hx hne'
        | cons x y => rw [hx] at this; simpa [List.getLast?_cons_cons] using this

/-- facts about `e = escAll esc t` for a line text `t` -/
theorem escLine_facts {esc : List Char} (hE : EscOK esc) {t : Str} (ht : lineText t = true) :
    ∃ c tail, escAll esc t = c :: tail ∧ isSpace c = false ∧ c ≠ '#' ∧ '\n' ∉ escAll esc t ∧
      (∀ d, (escAll esc t).getLast? = some d → isSpace d = false) := by
  obtain ⟨hne, _, _, _, hnl, _, hv, hr⟩ := lineText_facts ht
  have hve := startsVisible_escAll (esc := esc) t hv
  have hnl' : '\n' ∉ escAll esc t := by
    intro hm
    rcases mem_escAll hm with e | hm
    · exact absurd e (by decide)
    · exact hnl hm
  cases he : escAll esc t with
  | nil => exact absurd he (escAll_ne_nil hne)
  | cons c tail =>
    rw [he] at hve hnl'
    refine ⟨c, tail, rfl, by simpa [startsVisible] using hve, ?_, hnl', ?_⟩
    · -- the first character is a backslash or a character that is not escapable
      cases t with
      | nil => exact absurd rfl hne
      | cons a r =>
        by_cases ha : a ∈ esc
        · rw [escAll_cons_mem ha] at he
          have : c = '\\' := (List.cons.inj he).1.symm
          rw [this]; decide
        · rw [escAll_cons_not_mem ha] at he
          have : c = a := (List.cons.inj he).1.symm
          rw [this]; intro e; exact ha (e ▸ hE.hash)
    · -- the last character is the last character of `t`
      intro d hd
      have hlast := getLast_escAll esc t hne
      rw [← he, hlast] at hd
      have : startsVisible t.reverse = true := hr
      cases hrev : t.reverse with
      | nil => rw [hrev] at this; simp [startsVisible] at this
      | cons z w =>
        rw [hrev] at this
        have hz : t.getLast? = some z := by
          rw [← List.head?_reverse, hrev]; rfl
        rw [hz] at hd
        cases hd
        simpa [startsVisible] using this

theorem guardedFrom_spaces {esc : List Char} (hsp : ' ' ∉ esc) (i : Nat) (X : Str) :
    guardedFrom esc false (spaces i ++ X) = guardedFrom esc false X := by
  induction i with
  | zero => rfl
  | succ i ih => simp [spaces, List.replicate_succ, guardedFrom, hsp] at ih ⊢; exact ih

theorem startOk_spaces (esc : List Char) (i : Nat) (X : Str) : startOk esc (spaces i ++ X) = startOk esc X := by
  induction i with
  | zero => rfl
  | succ i ih => simp only [spaces, List.replicate_succ, List.cons_append, startOk_cons_space] at ih ⊢; exact ih

theorem startsOkNl_spaces (esc : List Char) (i : Nat) (X : Str) :
    startsOkNl esc (spaces i ++ X) = startsOkNl esc X := by
  induction i with
  | zero => rfl
  | succ i ih => simp [spaces, List.replicate_succ, startsOkNl] at ih ⊢; exact ih

theorem lstrip_indent (i : Nat) (e : Str) (c : Char) (tail : Str) (he : e = c :: tail) (hc : isSpace c = false) :
    lstrip (spaces i ++ e) = e := by
  unfold lstrip
  rw [lstripP_append_of_all (by simp [spaces])]
  subst he
  simp [lstripP, hc]

/-- **A paragraph** of escaped one-line text, indented by less than a tab, reaches `ParagraphProcessor` and becomes a
    `p` element whose text is the text without the indentation. -/
theorem produces_para {esc : List Char} (hE : EscOK esc) (tab i : Nat) (hi : i < tab) (t : Str)
    (ht : lineText t = true) :
    Produces tab (spaces i ++ escAll esc t) { tag := .name "p".toList, text := some (escAll esc t) } := by
  intro pb refs parent rest
  obtain ⟨c, tail, he, hcs, hch, hnl, _⟩ := escLine_facts hE ht
  have hcsp : c ≠ ' ' := by intro e; subst e; exact absurd hcs (by decide)
  have hcnl : c ≠ '\n' := by intro e; subst e; exact absurd hcs (by decide)
  have hg : Guarded esc (spaces i ++ escAll esc t) = true := by
    unfold Guarded; rw [guardedFrom_spaces hE.sp]; exact guardedFrom_escAll esc t false
  have hl : LineStartsOk esc (spaces i ++ escAll esc t) = true := by
    have := lineStartsOk_escAll esc hE.nl t
    simp only [LineStartsOk, Bool.and_eq_true] at this ⊢
    rw [startOk_spaces, startsOkNl_spaces]; exact this
  have hs : startOk esc (spaces i ++ escAll esc t) = true := by
    simp only [LineStartsOk, Bool.and_eq_true] at hl; exact hl.1
  have hnlb : '\n' ∉ spaces i ++ escAll esc t := by
    intro hm; rcases List.mem_append.1 hm with hm | hm
    · exact absurd (List.eq_of_mem_replicate hm) (by decide)
    · exact hnl hm
  have hlstrip := lstrip_indent i _ c tail he hcs
  have hblank : isBlank (spaces i ++ escAll esc t) = false := by
    cases hb : isBlank (spaces i ++ escAll esc t) with
    | false => rfl
    | true =>
      rw [isBlank_iff] at hb
      have := hb c (by rw [he]; simp)
      rw [hcs] at this; cases this
  generalize hb : spaces i ++ escAll esc t = b at *
  have hb' : b = spaces i ++ c :: tail := by rw [← hb, he]
  have h1 : b.isEmpty = false := by rw [hb']; cases i <;> simp [spaces, List.replicate_succ]
  have h2 : startsWith b ['\n'] = false := by
    rw [hb']; cases i <;> simp [spaces, List.replicate_succ, hcnl]
  have h3 : startsWith b (spaces tab) = false := by
    rw [hb']; exact startsWith_spaces_false _ tab c _ hi hcsp
  unfold dispatch
  simp only [h1, h2, h3, Bool.or_self, Bool.false_eq_true, if_false, Bool.false_and,
    hashSearch_eq_none hE.hash _ hl, setextMatch_line b hnlb, hrSearch_eq_none hE.dash hE.under hE.star _ hl,
    listItemMatch_eq_none hE.star hE.plus hE.dash hE.dot tab _ _ _ hg hs, Option.isSome_none,
    quoteSearch_eq_none hE.gt _ hl, refSearch_eq_none hE.lbr _ hl]
  simp [paraP, hblank, hlstrip, isstate, mkText, Node.el]

/-! #### Setext headings -/

theorem spanLen_replicate (p : Char → Bool) (k : Nat) (c : Char) (hc : p c = true) :
    spanLen p (List.replicate k c) = k := by
  induction k with
  | zero => rfl
  | succ k ih => simp [List.replicate_succ, spanLen, hc, ih]

/-- **A Setext heading**: escaped one-line text, indented by less than a tab, over a line of `=` (level 1) or `-`
    (level 2) of any positive length, is claimed by `SetextHeaderProcessor` and becomes `h1` / `h2` with the text
    stripped. -/
theorem produces_setext {esc : List Char} (hE : EscOK esc) (tab i : Nat) (hi : i < tab) (t : Str)
    (ht : lineText t = true) (lv k : Nat) (hlv : lv = 1 ∨ lv = 2) :
    Produces tab (spaces i ++ escAll esc t ++ '\n' :: List.replicate (k + 1) (if lv = 1 then '=' else '-'))
      { tag := .name ('h' :: natToDec lv), text := some (escAll esc t) } := by
  intro pb refs parent rest
  obtain ⟨c, tail, he, hcs, hch, hnl, hlast⟩ := escLine_facts hE ht
  have hcsp : c ≠ ' ' := by intro e; subst e; exact absurd hcs (by decide)
  have hcnl : c ≠ '\n' := by intro e; subst e; exact absurd hcs (by decide)
  generalize hu : (if lv = 1 then '=' else '-') = ch
  have hch2 : ch = '=' ∨ ch = '-' := by rw [← hu]; split <;> simp
  have hl1nl : '\n' ∉ spaces i ++ escAll esc t := by
    intro hm; rcases List.mem_append.1 hm with hm | hm
    · exact absurd (List.eq_of_mem_replicate hm) (by decide)
    · exact hnl hm
  have hunl : '\n' ∉ List.replicate (k + 1) ch := by
    intro hm; have := List.eq_of_mem_replicate hm
    rcases hch2 with h | h <;> rw [h] at this <;> exact absurd this (by decide)
  -- the lines of the chunk
  have hlines : lines (spaces i ++ escAll esc t ++ '\n' :: List.replicate (k + 1) ch) =
      [spaces i ++ escAll esc t, List.replicate (k + 1) ch] := by
    unfold lines
    rw [splitC_append_nl _ _ (notNl_of_not_mem hl1nl), splitC_noNl _ (notNl_of_not_mem hunl)]
  -- no ATX heading
  have h4 : hashSearch (spaces i ++ escAll esc t ++ '\n' :: List.replicate (k + 1) ch) = none := by
    have hh1 : (spaces i ++ escAll esc t ++ '\n' :: List.replicate (k + 1) ch).head? ≠ some '#' := by
      rw [he, List.append_assoc, List.cons_append, head?_spaces_cons]; split <;> simp [hch]
    have hh2 : (List.replicate (k + 1) ch).head? ≠ some '#' := by
      rcases hch2 with h | h <;> simp [List.replicate_succ, h]
    have s1 := hashSearchNl_skip (spaces i ++ escAll esc t) ('\n' :: List.replicate (k + 1) ch) 0
      (notNl_of_not_mem hl1nl)
    have s2 := hashSearchNl_skip (List.replicate (k + 1) ch) [] (0 + (spaces i ++ escAll esc t).length + 1)
      (notNl_of_not_mem hunl)
    simp only [List.append_nil] at s2
    simp only [hashSearch, hashAt_none _ hh1, s1, hashSearchNl, if_true, hashAt_none _ hh2, s2]
  -- the Setext pattern matches
  have h5 : setextMatch (spaces i ++ escAll esc t ++ '\n' :: List.replicate (k + 1) ch) = true := by
    rw [setextMatch_eq]
    simp only [secondLine, hlines, List.getElem?_cons_succ, List.getElem?_cons_zero, setextLine2]
    have hp : (fun c => decide (c = '=') || decide (c = '-')) ch = true := by rcases hch2 with h | h <;> simp [h]
    rw [spanLen_replicate _ _ _ hp]
    simp
  generalize hb : spaces i ++ escAll esc t ++ '\n' :: List.replicate (k + 1) ch = b at *
  have hb' : b = spaces i ++ c :: (tail ++ '\n' :: List.replicate (k + 1) ch) := by rw [← hb, he]; simp
  have h1 : b.isEmpty = false := by rw [hb']; cases i <;> simp [spaces, List.replicate_succ]
  have h2 : startsWith b ['\n'] = false := by
    rw [hb']; cases i <;> simp [spaces, List.replicate_succ, hcnl]
  have h3 : startsWith b (spaces tab) = false := by
    rw [hb']; exact startsWith_spaces_false _ tab c _ hi hcsp
  have hstrip : strip (spaces i ++ escAll esc t) = escAll esc t := by
    have := strip_append_of_blank (a := spaces i) (b := []) (by simp [isBlank, spaces]) (by simp [isBlank])
      (escAll esc t)
    simp only [List.append_nil] at this
    rw [this]
    exact strip_eq_self (fun d hd => by rw [he] at hd; cases hd; exact hcs) hlast
  have hlevel : (if startsWith (List.replicate (k + 1) ch) ['='] = true then 1 else 2) = lv := by
    rcases hlv with h | h
    · subst h; simp only [if_true] at hu; subst hu; simp [List.replicate_succ]
    · subst h; simp only [show (2 : Nat) ≠ 1 by decide, if_false] at hu; subst hu; simp [List.replicate_succ]
  unfold dispatch
  simp only [h1, h2, h3, h4, h5, Bool.or_self, Bool.false_eq_true, if_false, Bool.false_and, if_true]
  simp [setextP, hlines, hstrip, hlevel, hTag]

/-! #### ATX headings -/

theorem hashClose_none_of_head (c : Char) (r : Str) (h1 : c ≠ '#') (h2 : c ≠ '\n') : hashClose (c :: r) = none := by
  simp [hashClose, countPrefix, h1, h2]

theorem countHash_replicate (m : Nat) : countPrefix '#' none (List.replicate m '#') = m := by
  rw [countPrefix_none]
  exact spanLen_replicate _ m '#' (by simp)

theorem hashClose_hashes (m : Nat) : hashClose (List.replicate m '#') = some m := by
  simp [hashClose, countHash_replicate]

/-- the closing sequence of an ATX heading: nothing, or a space and any number of `#` -/
theorem hashHeader_closing_nil (f : Nat) : hashHeader (f + 1) [] = some ([], 0) := by
  simp [hashHeader, hashClose, countPrefix]

theorem hashHeader_closing (f m : Nat) :
    hashHeader (f + 2) (' ' :: List.replicate m '#') = some ([' '], m + 1) := by
  have h1 : hashClose (' ' :: List.replicate m '#') = none := hashClose_none_of_head _ _ (by decide) (by decide)
  simp [hashHeader, h1, hashClose_hashes]

/-- the lazy header group walks over escaped text unit by unit -/
theorem hashHeader_escAll {esc : List Char} (hE : EscOK esc) (t : Str) (hnl : '\n' ∉ t) (Y : Str) :
    ∀ f, hashHeader (f + t.length) (escAll esc t ++ Y) =
      (hashHeader f Y).map (fun p => (escAll esc t ++ p.1, p.2 + (escAll esc t).length)) := by
  induction t with
  | nil => intro f; cases h : hashHeader f Y <;> simp [escAll, h]
  | cons c r ih =>
    intro f
    have hcnl : c ≠ '\n' := fun e => hnl (e ▸ List.mem_cons_self)
    have ih' := ih (fun h => hnl (List.mem_cons_of_mem _ h)) f
    rw [show f + (c :: r).length = (f + r.length) + 1 by simp; omega]
    by_cases hc : c ∈ esc
    · rw [escAll_cons_mem hc]
      have h1 : hashClose ('\\' :: c :: (escAll esc r ++ Y)) = none :=
        hashClose_none_of_head _ _ (by decide) (by decide)
      simp only [List.cons_append, hashHeader, h1, if_true, hcnl, if_false, ih']
      cases hashHeader f Y with
      | none => rfl
      | some p => simp only [Option.map_some, List.length_cons, Nat.add_assoc]
    · rw [escAll_cons_not_mem hc]
      have hch : c ≠ '#' := fun e => hc (e ▸ hE.hash)
      have hcb : c ≠ '\\' := fun e => hc (e ▸ hE.bs)
      have h1 : hashClose (c :: (escAll esc r ++ Y)) = none := hashClose_none_of_head _ _ hch hcnl
      simp only [List.cons_append, hashHeader, h1, hcb, if_false, ih']
      cases hashHeader f Y with
      | none => rfl
      | some p => simp; omega

theorem countHash_level (l m : Nat) (h : l ≤ m) (X : Str) :
    countPrefix '#' (some m) (List.replicate l '#' ++ ' ' :: X) = l := by
  induction l generalizing m with
  | zero => cases m <;> simp [countPrefix]
  | succ l ih =>
    obtain ⟨m', rfl⟩ : ∃ m', m = m' + 1 := ⟨m - 1, by omega⟩
    simp [List.replicate_succ, countPrefix, ih m' (by omega)]

/-- **An ATX heading**: one to six `#`, a space, escaped one-line text, and a closing sequence (nothing, or a space
    and any number of `#`), is claimed by `HashHeaderProcessor` and becomes `h<level>` with the text alone. -/
theorem produces_atx {esc : List Char} (hE : EscOK esc) (tab : Nat) (htab : 0 < tab) (t : Str)
    (ht : lineText t = true) (lv : Nat) (h1 : 1 ≤ lv) (h6 : lv ≤ 6) (Y : Str)
    (hY : Y = [] ∨ ∃ m, Y = ' ' :: List.replicate m '#') :
    Produces tab (List.replicate lv '#' ++ ' ' :: (escAll esc t ++ Y))
      { tag := .name ('h' :: natToDec lv), text := some (escAll esc t) } := by
  intro pb refs parent rest
  obtain ⟨hne, _, _, _, hnl, _⟩ := lineText_facts ht
  obtain ⟨c, tail, he, hcs, hch, hnle, hlast⟩ := escLine_facts hE ht
  -- what the closing sequence contributes to the header group
  obtain ⟨ys, hys, hclose⟩ : ∃ ys, (ys = [] ∨ ys = [' ']) ∧ ∀ f, hashHeader (f + 2) Y = some (ys, Y.length) := by
    rcases hY with rfl | ⟨m, rfl⟩
    · exact ⟨[], Or.inl rfl, fun f => hashHeader_closing_nil (f + 1)⟩
    · exact ⟨[' '], Or.inr rfl, fun f => by rw [hashHeader_closing]; simp⟩
  generalize hb : List.replicate lv '#' ++ ' ' :: (escAll esc t ++ Y) = b
  have hlen : b.length = lv + 1 + (escAll esc t).length + Y.length := by rw [← hb]; simp; omega
  have hdrop : b.drop lv = escAll esc (' ' :: t) ++ Y := by
    rw [← hb, List.drop_left' (by simp), escAll_cons_not_mem hE.sp]; rfl
  have hcount : countPrefix '#' (some 6) b = lv := by rw [← hb]; exact countHash_level lv 6 h6 _
  have htl := length_le_escAll esc t
  have hnl' : '\n' ∉ ' ' :: t := by
    intro hm; rcases List.mem_cons.1 hm with e | hm
    · exact absurd e (by decide)
    · exact hnl hm
  obtain ⟨f0, hf0⟩ : ∃ f0, b.length + 1 = (f0 + 2) + (' ' :: t).length :=
    ⟨b.length - t.length - 2, by simp only [List.length_cons]; omega⟩
  have hhdr : hashHeader (b.length + 1) (b.drop lv) =
      some (escAll esc (' ' :: t) ++ ys, Y.length + (escAll esc (' ' :: t)).length) := by
    rw [hdrop, hf0, hashHeader_escAll hE (' ' :: t) hnl' Y (f0 + 2), hclose f0]; rfl
  have hat : hashAt b = some (lv, escAll esc (' ' :: t) ++ ys, lv + (Y.length + (escAll esc (' ' :: t)).length)) := by
    unfold hashAt
    rw [hcount]
    apply firstDown_top _ 1 lv _ h1
    simp only [hhdr]
  have hen : lv + (Y.length + (escAll esc (' ' :: t)).length) = b.length := by
    rw [hlen, escAll_cons_not_mem hE.sp]; simp; omega
  have hsearch : hashSearch b = some (0, b.length, lv, escAll esc (' ' :: t) ++ ys) := by
    simp only [hashSearch, hat, hen]
  have hstrip : strip (escAll esc (' ' :: t) ++ ys) = escAll esc t := by
    rw [escAll_cons_not_mem hE.sp]
    have hbl : isBlank ys = true := by rcases hys with rfl | rfl <;> decide
    have := strip_append_of_blank (a := [' ']) (b := ys) (by decide) hbl (escAll esc t)
    simp only [List.singleton_append] at this
    rw [this]
    exact strip_eq_self (fun d hd => by rw [he] at hd; cases hd; exact hcs) hlast
  have hb1 : ∃ r, b = '#' :: r := by
    obtain ⟨l', rfl⟩ : ∃ l', lv = l' + 1 := ⟨lv - 1, by omega⟩
    exact ⟨List.replicate l' '#' ++ ' ' :: (escAll esc t ++ Y), by rw [← hb]; simp [List.replicate_succ]⟩
  obtain ⟨r0, hr0⟩ := hb1
  have g1 : b.isEmpty = false := by rw [hr0]; rfl
  have g2 : startsWith b ['\n'] = false := by rw [hr0]; simp
  have g3 : startsWith b (spaces tab) = false := by
    obtain ⟨tb, rfl⟩ : ∃ tb, tab = tb + 1 := ⟨tab - 1, by omega⟩
    rw [hr0]; simp [spaces, List.replicate_succ]
  unfold dispatch
  simp only [g1, g2, g3, Bool.or_self, Bool.false_eq_true, if_false, Bool.false_and, hsearch]
  simp [hashP, hstrip, hTag]

/-! ### 2b. a sequence of chunks separated by blank lines -/

/-- chunks separated by one blank line -/
def joinChunks : List Str → Str
  | [] => []
  | [b] => b
  | b :: b' :: r => b ++ ['\n', '\n'] ++ joinChunks (b' :: r)

theorem splitAux_chunk (b : Bool) (e X : Str) (h : noEmptyLineFrom b e = true) :
    splitAux ['\n', '\n'] 0 (e ++ '\n' :: '\n' :: X) = e :: splitAux ['\n', '\n'] 0 X := by
  induction e generalizing b with
  | nil => simp [splitAux, startsWith]
  | cons c r ih =>
    by_cases hc : c = '\n'
    · subst hc
      simp only [noEmptyLineFrom, if_true, Bool.and_eq_true] at h
      have ih' := ih true h.2
      cases r with
      | nil => simp [noEmptyLineFrom] at h
      | cons d r' =>
        have hd : d ≠ '\n' := by
          intro e; subst e; simp [noEmptyLineFrom] at h
        simp only [List.cons_append] at ih' ⊢
        exact splitAux_step _ _ _ (by simp [startsWith, hd]) _ _ ih'
    · simp only [noEmptyLineFrom, hc, if_false] at h
      have ih' := ih false h
      simp only [List.cons_append]
      exact splitAux_step _ _ _ (by simp [startsWith, hc]) _ _ ih'

theorem splitS_chunks (bs : List Str) (hne : bs ≠ []) (h : ∀ b ∈ bs, noEmptyLineFrom true b = true) :
    splitS ['\n', '\n'] (joinChunks bs ++ ['\n', '\n']) = bs ++ [[]] := by
  induction bs with
  | nil => exact absurd rfl hne
  | cons b r ih =>
    cases r with
    | nil =>
      simp only [joinChunks, splitS]
      rw [splitAux_blocks true b (h b List.mem_cons_self)]; rfl
    | cons b' r' =>
      have := ih (by simp) (fun x hx => h x (List.mem_cons_of_mem _ hx))
      simp only [joinChunks, splitS, List.append_assoc, List.cons_append, List.nil_append] at this ⊢
      rw [splitAux_chunk true b _ (h b List.mem_cons_self), this]

theorem length_joinChunks (bs : List Str) : 2 * bs.length ≤ (joinChunks bs).length + 2 := by
  induction bs with
  | nil => simp
  | cons b r ih =>
    cases r with
    | nil => simp
    | cons b' r' => simp only [joinChunks, List.length_append, List.length_cons, List.length_nil] at ih ⊢; omega

theorem parseBlocks_chunks (tab : Nat) (cs : List (Str × Node)) (hP : ∀ c ∈ cs, Produces tab c.1 c.2) :
    ∀ (g : Nat) (refs : Refs) (parent : Node) (rest : List Str),
      parseBlocks tab (g + cs.length) [] refs parent (cs.map (·.1) ++ rest) =
        parseBlocks tab g [] refs { parent with children := parent.children ++ cs.map (·.2) } rest := by
  induction cs with
  | nil => intro g refs parent rest; cases parent; simp
  | cons c r ih =>
    intro g refs parent rest
    have hc := hP c List.mem_cons_self
    rw [show g + (c :: r).length = (g + r.length) + 1 by simp; omega]
    simp only [List.map_cons, List.cons_append, parseBlocks, hc _ refs parent _]
    rw [ih (fun x hx => hP x (List.mem_cons_of_mem _ hx))]
    simp [Node.append, List.append_assoc]

theorem dispatch_empty_block (tab : Nat) (pb : PB) (st : List BState) (refs : Refs) (parent : Node)
    (h : ∀ sib, parent.last? = some sib → preCode sib = none) :
    dispatch tab pb st refs parent [] [] = some (parent, refs, []) := by
  cases hl : parent.last? with
  | none => simp [dispatch, emptyP, hl]
  | some sib => simp [dispatch, emptyP, hl, h sib hl]

/-- **the block parser on a document of chunks**: each chunk contributes its element, in order -/
theorem parseDocument_chunks (tab : Nat) (cs : List (Str × Node)) (hne : cs ≠ [])
    (hP : ∀ c ∈ cs, Produces tab c.1 c.2) (hL : ∀ c ∈ cs, noEmptyLineFrom true c.1 = true)
    (hpre : ∀ c ∈ cs, preCode c.2 = none) :
    parseDocument tab (joinChunks (cs.map (·.1)) ++ ['\n', '\n']) = some (divOf (cs.map (·.2)), []) := by
  have hsplit := splitS_chunks (cs.map (·.1)) (by simpa using hne)
    (by intro b hb; obtain ⟨c, hc, rfl⟩ := List.mem_map.1 hb; exact hL c hc)
  have hlen := length_joinChunks (cs.map (·.1))
  simp only [List.length_map] at hlen
  obtain ⟨g, hg⟩ : ∃ g, fuelFor (joinChunks (cs.map (·.1)) ++ ['\n', '\n']).length = (g + 2) + cs.length :=
    ⟨fuelFor (joinChunks (cs.map (·.1)) ++ ['\n', '\n']).length - 2 - cs.length, by
      simp only [fuelFor, List.length_append, List.length_cons, List.length_nil]; omega⟩
  simp only [parseDocument, parseDocumentWith, parseChunk, hsplit, hg]
  rw [parseBlocks_chunks tab cs hP (g + 2)]
  have hlast : ∀ sib, ({ Node.el "div" with children := (Node.el "div").children ++ cs.map (·.2) } : Node).last? =
      some sib → preCode sib = none := by
    intro sib hs
    simp only [Node.last?, Node.el, List.nil_append] at hs
    obtain ⟨c, hc, rfl⟩ := List.mem_map.1 (List.mem_of_getLast? hs)
    exact hpre c hc
  simp only [parseBlocks, dispatch_empty_block tab _ [] [] _ hlast]
  simp [divOf, Node.el]

end blocks

/-! ### 3. normalisation and the raw-HTML preprocessor on a text of safe lines -/

section normalise
open Normalize Block

/-- `wsLinesAux` changes nothing: no line after the first consists of one or more spaces only -/
def wsSafe : Option Nat → Str → Bool
  | _, [] => true
  | none, c :: s => wsSafe (if c = '\n' then some 0 else none) s
  | some n, c :: s =>
    if c = ' ' then wsSafe (some (n + 1)) s
    else if c = '\n' then n == 0 && wsSafe (some 0) s
    else wsSafe none s

theorem wsLinesAux_safe (s : Str) : ∀ st, wsSafe st s = true →
    wsLinesAux st s = (match st with | some n => List.replicate n ' ' | none => []) ++ s := by
  induction s with
  | nil => intro st _; cases st <;> simp [wsLinesAux]
  | cons c s ih =>
    intro st h
    cases st with
    | none =>
      by_cases hc : c = '\n'
      · subst hc
        simp only [wsSafe, if_true] at h
        simp [wsLinesAux, ih _ h]
      · simp only [wsSafe, hc, if_false] at h
        simp [wsLinesAux, hc, ih _ h]
    | some n =>
      by_cases h1 : c = ' '
      · subst h1
        simp only [wsSafe, if_true] at h
        simp only [wsLinesAux, if_true, ih _ h]
        simp [List.replicate_succ']
      · by_cases h2 : c = '\n'
        · subst h2
          simp only [wsSafe, h1, if_false, if_true, Bool.and_eq_true, beq_iff_eq] at h
          obtain ⟨rfl, h⟩ := h
          simp [wsLinesAux, ih _ h]
        · simp only [wsSafe, h1, h2, if_false] at h
          simp [wsLinesAux, h1, h2, ih _ h]

/-- a line that `NormalizeWhitespace` leaves alone wherever it stands: no line feed, STX, ETX, CR or tab in it, and
    empty or with a character other than a space -/
def lineSafe (l : Str) : Bool :=
  l.all (fun c => c != '\n' && c != Normalize.STX && c != Normalize.ETX && c != '\r' && c != '\t') &&
    (l.isEmpty || l.any (· != ' '))

theorem wsSafe_none_line (l X : Str) (h : '\n' ∉ l) : wsSafe none (l ++ X) = wsSafe none X := by
  induction l with
  | nil => rfl
  | cons c l ih =>
    have hc : c ≠ '\n' := fun e => h (e ▸ List.mem_cons_self)
    simp only [List.cons_append, wsSafe, hc, if_false]
    exact ih (fun hh => h (List.mem_cons_of_mem _ hh))

theorem wsSafe_some_line (l X : Str) (h : '\n' ∉ l) (hink : l.any (· != ' ') = true) (n : Nat) :
    wsSafe (some n) (l ++ X) = wsSafe none X := by
  induction l generalizing n with
  | nil => simp at hink
  | cons c l ih =>
    have hc : c ≠ '\n' := fun e => h (e ▸ List.mem_cons_self)
    have hl : '\n' ∉ l := fun hh => h (List.mem_cons_of_mem _ hh)
    by_cases h1 : c = ' '
    · subst h1
      simp only [List.cons_append, wsSafe, if_true]
      exact ih hl (by simpa using hink) _
    · simp only [List.cons_append, wsSafe, h1, hc, if_false]
      exact wsSafe_none_line l X hl

theorem lineSafe_facts {l : Str} (h : lineSafe l = true) :
    '\n' ∉ l ∧ (∀ c ∈ l, c ≠ Normalize.STX ∧ c ≠ Normalize.ETX ∧ c ≠ '\r' ∧ c ≠ '\t') ∧
    (l = [] ∨ l.any (· != ' ') = true) := by
  simp only [lineSafe, Bool.and_eq_true, List.all_eq_true, Bool.or_eq_true, bne_iff_ne, ne_eq] at h
  refine ⟨fun hm => (h.1 _ hm).1.1.1.1 rfl, fun c hc => ?_, ?_⟩
  · have := h.1 c hc
    exact ⟨this.1.1.1.2, this.1.1.2, this.1.2, this.2⟩
  · rcases h.2 with h2 | h2
    · exact Or.inl (by simpa using h2)
    · exact Or.inr h2

theorem wsSafe_lines (ls : List Str) (h : ∀ l ∈ ls, lineSafe l = true) :
    wsSafe (some 0) (joinLines ls ++ ['\n', '\n']) = true := by
  induction ls with
  | nil => decide
  | cons l r ih =>
    obtain ⟨hnl, _, hink⟩ := lineSafe_facts (h l List.mem_cons_self)
    have ihr := ih (fun x hx => h x (List.mem_cons_of_mem _ hx))
    have step : ∀ X, wsSafe (some 0) X = true → wsSafe (some 0) (l ++ '\n' :: X) = true := by
      intro X hX
      rcases hink with rfl | hink
      · simpa [wsSafe] using hX
      · rw [wsSafe_some_line l _ hnl hink]
        simpa [wsSafe] using hX
    cases r with
    | nil =>
      have := step ['\n'] (by decide)
      simpa [joinLines, join] using this
    | cons l' r' =>
      rw [joinLines_cons_cons, List.append_assoc, List.cons_append]
      exact step _ ihr

theorem mem_joinLines {c : Char} {ls : List Str} (h : c ∈ joinLines ls) : c = '\n' ∨ ∃ l ∈ ls, c ∈ l := by
  induction ls with
  | nil => simp [joinLines, join] at h
  | cons l r ih =>
    cases r with
    | nil => exact Or.inr ⟨l, List.mem_cons_self, by simpa [joinLines, join] using h⟩
    | cons l' r' =>
      rw [joinLines_cons_cons] at h
      rcases List.mem_append.1 h with h | h
      · exact Or.inr ⟨l, List.mem_cons_self, h⟩
      · rcases List.mem_cons.1 h with h | h
        · exact Or.inl h
        · rcases ih h with h | ⟨x, hx, hc⟩
          · exact Or.inl h
          · exact Or.inr ⟨x, List.mem_cons_of_mem _ hx, hc⟩

/-- **`NormalizeWhitespace`** only appends `"\n\n"` to a text of safe lines -/
theorem normalize_lines (tab : Nat) (ls : List Str) (hne : ls ≠ []) (h : ∀ l ∈ ls, lineSafe l = true) :
    normalize tab (joinLines ls) = joinLines ls ++ ['\n', '\n'] := by
  have hmem : ∀ c ∈ joinLines ls, c ≠ Normalize.STX ∧ c ≠ Normalize.ETX ∧ c ≠ '\r' ∧ c ≠ '\t' := by
    intro c hc
    rcases mem_joinLines hc with rfl | ⟨l, hl, hcl⟩
    · decide
    · exact (lineSafe_facts (h l hl)).2.1 c hcl
  have h1 : stripCtl (joinLines ls) = joinLines ls := by
    rw [stripCtl_eq_filter, List.filter_eq_self]
    intro c hc
    have := hmem c hc
    simp [notCtl, this.1, this.2.1]
  have h2 : nlAux false (joinLines ls) = joinLines ls := nlAux_id _ (fun c hc => (hmem c hc).2.2.1)
  have h3 : expandtabsAux tab 0 (joinLines ls ++ ['\n', '\n']) = joinLines ls ++ ['\n', '\n'] := by
    apply expandtabsAux_id
    intro c hc
    rcases List.mem_append.1 hc with hc | hc
    · exact (hmem c hc).2.2.2
    · have : c = '\n' := by simpa using hc
      subst this; decide
  rw [normalize_eq, h1, h2, h3]
  -- since the repair a0e7e3c of F-C09-1 the first line is scanned like every other line (state `some 0`)
  have _ := hne
  have := wsLinesAux_safe _ (some 0) (wsSafe_lines ls h)
  simpa using this

end normalise

/-! ### 5a. the conversion of a document of pieces -/

section pieces
open Block DocSpec

/-- the lines of one block and the element it becomes -/
structure Piece where
  g : List Str
  leaf : Leaf

/-- groups of lines separated by one empty line -/
def flatLines : List (List Str) → List Str
  | [] => []
  | [g] => g
  | g :: g' :: r => g ++ [[]] ++ flatLines (g' :: r)

structure PieceOK (esc : List Char) (tab : Nat) (p : Piece) : Prop where
  ne : p.g ≠ []
  safe : ∀ l ∈ p.g, lineSafe l = true ∧ '<' ∉ l ∧ '&' ∉ l
  vis : ∃ c ∈ joinLines p.g, isSpace c = false
  nel : noEmptyLineFrom true (joinLines p.g) = true
  prod : Produces tab (joinLines p.g) (p.leaf.src esc)
  ok : p.leaf.ok = true

theorem joinLines_flatLines (gs : List (List Str)) (h : ∀ g ∈ gs, g ≠ []) :
    joinLines (flatLines gs) = joinChunks (gs.map joinLines) := by
  induction gs with
  | nil => rfl
  | cons g r ih =>
    cases r with
    | nil => rfl
    | cons g' r' =>
      have ih' := ih (fun x hx => h x (List.mem_cons_of_mem _ hx))
      have hg := h g List.mem_cons_self
      have hne : flatLines (g' :: r') ≠ [] := by
        have hg' := h g' (by simp)
        cases r' with
        | nil => simpa [flatLines] using hg'
        | cons a b => simp [flatLines, hg']
      simp only [flatLines, List.map_cons, joinChunks] at ih' ⊢
      rw [List.append_assoc, joinLines_append g _ hg (by simp), List.singleton_append]
      have : joinLines ([] :: flatLines (g' :: r')) = '\n' :: joinLines (flatLines (g' :: r')) := by
        cases hx : flatLines (g' :: r') with
        | nil => exact absurd hx hne
        | cons a b => rw [joinLines_cons_cons]; rfl
      rw [this, ih']
      simp

theorem mem_flatLines {l : Str} {gs : List (List Str)} (h : l ∈ flatLines gs) : l = [] ∨ ∃ g ∈ gs, l ∈ g := by
  induction gs with
  | nil => simp [flatLines] at h
  | cons g r ih =>
    cases r with
    | nil => exact Or.inr ⟨g, List.mem_cons_self, h⟩
    | cons g' r' =>
      simp only [flatLines, List.mem_append, List.mem_singleton] at h
      rcases h with (h | h) | h
      · exact Or.inr ⟨g, List.mem_cons_self, h⟩
      · exact Or.inl h
      · rcases ih h with h | ⟨x, hx, hl⟩
        · exact Or.inl h
        · exact Or.inr ⟨x, List.mem_cons_of_mem _ hx, hl⟩

theorem preCode_leaf (esc : List Char) (l : Leaf) (hl : l.ok = true) : preCode (l.src esc) = none := by
  have hf := tagFacts _ (leaf_tag_mem hl)
  have : (l.src esc).isTag "pre" = false := by
    cases l with
    | hr => simp only [Leaf.src, Node.isTag]; decide
    | txt tag t =>
      simp only [Leaf.tag] at hf
      simp [Leaf.src, Node.isTag, hf.2.2.1]
  simp [preCode, this]

/-- **`Markdown.convert`** on a document made of pieces separated by blank lines: the outputs of the pieces, one per
    line -/
theorem convert_pieces (cfg : Pipeline.Cfg) (hE : EscOK cfg.esc) (hbl : cfg.blockLevel = TreeProc.defaultBlockLevel)
    (hfmt : cfg.fmt = .xhtml) (ps : List Piece) (hne : ps ≠ []) (hP : ∀ p ∈ ps, PieceOK cfg.esc cfg.tab p) :
    Pipeline.convert cfg (joinLines (flatLines (ps.map (·.g)))) = .ok (joinOut (ps.map (·.leaf))) := by
  have hgne : ∀ g ∈ ps.map (·.g), g ≠ [] := by
    intro g hg; obtain ⟨p, hp, rfl⟩ := List.mem_map.1 hg; exact (hP p hp).ne
  have hlines : ∀ l ∈ flatLines (ps.map (·.g)), lineSafe l = true ∧ '<' ∉ l ∧ '&' ∉ l := by
    intro l hl
    rcases mem_flatLines hl with rfl | ⟨g, hg, hlg⟩
    · exact ⟨by decide, by simp, by simp⟩
    · obtain ⟨p, hp, rfl⟩ := List.mem_map.1 hg
      exact (hP p hp).safe l hlg
  have hfl : flatLines (ps.map (·.g)) ≠ [] := by
    obtain ⟨p, r, rfl⟩ : ∃ p r, ps = p :: r := by
      cases ps with
      | nil => exact absurd rfl hne
      | cons p r => exact ⟨p, r, rfl⟩
    have := (hP p List.mem_cons_self).ne
    cases r with
    | nil => simpa [flatLines] using this
    | cons a b => simp [flatLines, this]
  generalize hsrc : joinLines (flatLines (ps.map (·.g))) = src
  have hchunks : src = joinChunks (ps.map (fun p => joinLines p.g)) := by
    rw [← hsrc, joinLines_flatLines _ hgne, List.map_map]; rfl
  -- characters of the source
  have hchar : ∀ c ∈ src, c ≠ '<' ∧ c ≠ '&' := by
    intro c hc
    rw [← hsrc] at hc
    rcases mem_joinLines hc with rfl | ⟨l, hl, hcl⟩
    · exact ⟨by decide, by decide⟩
    · exact ⟨fun e => (hlines l hl).2.1 (e ▸ hcl), fun e => (hlines l hl).2.2 (e ▸ hcl)⟩
  have h1 : src.contains '<' = false := by
    cases hc : src.contains '<' with
    | false => rfl
    | true => exact absurd rfl (hchar _ (List.contains_iff_mem.1 hc)).1
  have h2 : Normalize.isBlankDoc src = false := by
    rw [Normalize.isBlankDoc_eq_all]
    obtain ⟨p, r, rfl⟩ : ∃ p r, ps = p :: r := by
      cases ps with
      | nil => exact absurd rfl hne
      | cons p r => exact ⟨p, r, rfl⟩
    obtain ⟨c, hc, hcs⟩ := (hP p List.mem_cons_self).vis
    have hmem : c ∈ src := by
      rw [hchunks]
      cases r with
      | nil => simpa [joinChunks] using hc
      | cons a b => simp [joinChunks, hc]
    cases hall : src.all isSpace with
    | false => rfl
    | true =>
      have := List.all_eq_true.1 hall c hmem
      rw [hcs] at this; cases this
  have h3 : Pipeline.prepare cfg src = src ++ ['\n', '\n'] := by
    rw [Pipeline.prepare, ← hsrc, normalize_lines cfg.tab _ hfl (fun l hl => (hlines l hl).1), hsrc]
    apply extract_no_amp
    intro hm
    rcases List.mem_append.1 hm with hm | hm
    · exact (hchar _ hm).2 rfl
    · exact absurd hm (by decide)
  -- the block parser
  have h4 := parseDocument_chunks cfg.tab (ps.map (fun p => (joinLines p.g, p.leaf.src cfg.esc))) (by simpa using hne)
    (by intro c hc; obtain ⟨p, hp, rfl⟩ := List.mem_map.1 hc; exact (hP p hp).prod)
    (by intro c hc; obtain ⟨p, hp, rfl⟩ := List.mem_map.1 hc; exact (hP p hp).nel)
    (by intro c hc; obtain ⟨p, hp, rfl⟩ := List.mem_map.1 hc; exact preCode_leaf _ _ (hP p hp).ok)
  simp only [List.map_map] at h4
  have e1 : ((fun c : Str × Node => c.1) ∘ fun p : Piece => (joinLines p.g, p.leaf.src cfg.esc)) =
      fun p => joinLines p.g := rfl
  have e2 : ((fun c : Str × Node => c.2) ∘ fun p : Piece => (joinLines p.g, p.leaf.src cfg.esc)) =
      (Leaf.src cfg.esc) ∘ (·.leaf) := rfl
  rw [e1, e2, ← hchunks, ← List.map_map] at h4
  -- the rest
  have h5 := render_leaves cfg hE hbl hfmt [] (ps.map (·.leaf)) (by simpa using hne)
    (by intro l hl; obtain ⟨p, hp, rfl⟩ := List.mem_map.1 hl; exact (hP p hp).ok)
  rw [Probe.convert_eq_render]
  simp only [h1, h2, Bool.false_eq_true, if_false, h3, h4, List.reverse_nil, h5]

/-! ### 5b. the four kinds of pieces -/

theorem safe_of_plain (l : Str) (h : ∀ x ∈ l, isPlainChar x = true ∧ x ≠ '\n') (hink : ∃ x ∈ l, x ≠ ' ') :
    lineSafe l = true ∧ '<' ∉ l ∧ '&' ∉ l := by
  refine ⟨?_, fun hm => absurd (h _ hm).1 (by decide), fun hm => absurd (h _ hm).1 (by decide)⟩
  simp only [lineSafe, Bool.and_eq_true, List.all_eq_true, Bool.or_eq_true, List.any_eq_true]
  refine ⟨fun x hx => ?_, Or.inr ?_⟩
  · have := h x hx
    have hp := this.1
    simp only [isPlainChar, Bool.and_eq_true, bne_iff_ne, ne_eq] at hp
    simp only [bne_iff_ne, ne_eq]
    exact ⟨⟨⟨⟨this.2, hp.1.1.1.2⟩, hp.1.1.2⟩, hp.2⟩, hp.1.2⟩
  · obtain ⟨x, hx, hne⟩ := hink
    exact ⟨x, hx, by simpa using hne⟩

theorem nel_false_line (s X : Str) (hnl : '\n' ∉ s) :
    noEmptyLineFrom false (s ++ X) = noEmptyLineFrom false X := by
  induction s with
  | nil => rfl
  | cons c r ih =>
    have hc : c ≠ '\n' := fun e => hnl (e ▸ List.mem_cons_self)
    simp only [List.cons_append, noEmptyLineFrom, hc, if_false]
    exact ih (fun h => hnl (List.mem_cons_of_mem _ h))

theorem nel_line (s : Str) (hne : s ≠ []) (hnl : '\n' ∉ s) : noEmptyLineFrom true s = true := by
  cases s with
  | nil => exact absurd rfl hne
  | cons c r =>
    have hc : c ≠ '\n' := fun e => hnl (e ▸ List.mem_cons_self)
    have := nel_false_line r [] (fun h => hnl (List.mem_cons_of_mem _ h))
    simp only [List.append_nil] at this
    simp [noEmptyLineFrom, hc, this]

theorem nel_two_lines (a b : Str) (ha : a ≠ []) (hb : b ≠ []) (hanl : '\n' ∉ a) (hbnl : '\n' ∉ b) :
    noEmptyLineFrom true (a ++ '\n' :: b) = true := by
  cases a with
  | nil => exact absurd rfl ha
  | cons c r =>
    have hc : c ≠ '\n' := fun e => hanl (e ▸ List.mem_cons_self)
    have := nel_false_line r ('\n' :: b) (fun h => hanl (List.mem_cons_of_mem _ h))
    simp only [List.cons_append, noEmptyLineFrom, hc, if_false, this, if_true, Bool.not_false, Bool.true_and]
    exact nel_line b hb hbnl

theorem plain_escAll_chars {esc : List Char} {t : Str} (ht : lineText t = true) :
    ∀ x ∈ escAll esc t, isPlainChar x = true ∧ x ≠ '\n' := by
  intro x hx
  simp only [lineText, Bool.and_eq_true, List.all_eq_true, bne_iff_ne, ne_eq] at ht
  rcases mem_escAll hx with rfl | hm
  · exact ⟨by decide, by decide⟩
  · exact ht.2 x hm

theorem mem_ruleLine (i ch n g t : Nat) :
    ∀ x ∈ ruleLine true i ch n g t, x = ' ' ∨ x = '*' ∨ x = '-' ∨ x = '_' := by
  intro x hx
  simp only [DocSpec.ruleLine, DocSpec.rep, if_true, List.mem_append] at hx
  rcases hx with (h | h) | h
  · exact Or.inl (List.eq_of_mem_replicate h)
  · rcases mem_rulePattern _ _ _ _ h with e | e
    · rcases ruleChar_cases ch with h' | h' | h' <;> rw [h'] at e <;> simp [e]
    · exact Or.inl e
  · exact Or.inl (List.eq_of_mem_replicate h)

theorem pieceOK_rule {esc : List Char} (tab : Nat) (htab : 3 < tab) (i ch n g t : Nat) :
    PieceOK esc tab ⟨[DocSpec.ruleLine true i ch n g t], .hr⟩ := by
  obtain ⟨c, r, hc, hr, hs, hnl⟩ := ruleLine_shape i ch n g t
  have hcmem : c ∈ DocSpec.ruleLine true i ch n g t := by rw [hs, hr]; simp
  have hcsp : c ≠ ' ' := by rcases hc with h | h | h <;> rw [h] <;> decide
  have hcvis : isSpace c = false := by rcases hc with h | h | h <;> rw [h] <;> decide
  refine ⟨by simp, ?_, ⟨c, hcmem, hcvis⟩, ?_, produces_rule tab htab i ch n g t, rfl⟩
  · intro l hl
    have : l = DocSpec.ruleLine true i ch n g t := by simpa using hl
    subst this
    apply safe_of_plain _ _ ⟨c, hcmem, hcsp⟩
    intro x hx
    rcases mem_ruleLine i ch n g t x hx with h | h | h | h <;> subst h <;> exact ⟨by decide, by decide⟩
  · exact nel_line _ (fun e => by
      have e' : DocSpec.ruleLine true i ch n g t = [] := e
      rw [e'] at hcmem; simp at hcmem) hnl

theorem indented_facts {esc : List Char} (hE : EscOK esc) (i : Nat) {t : Str} (ht : lineText t = true) :
    (spaces i ++ escAll esc t ≠ []) ∧ '\n' ∉ spaces i ++ escAll esc t ∧
    (∃ c ∈ spaces i ++ escAll esc t, isSpace c = false) ∧
    (lineSafe (spaces i ++ escAll esc t) = true ∧ '<' ∉ spaces i ++ escAll esc t ∧ '&' ∉ spaces i ++ escAll esc t) := by
  obtain ⟨c, tail, he, hcs, _, hnl, _⟩ := escLine_facts hE ht
  have hcm : c ∈ spaces i ++ escAll esc t := by rw [he]; simp
  have hcsp : c ≠ ' ' := by intro e; subst e; exact absurd hcs (by decide)
  refine ⟨fun e => by rw [e] at hcm; simp at hcm, ?_, ⟨c, hcm, hcs⟩, ?_⟩
  · intro hm; rcases List.mem_append.1 hm with hm | hm
    · exact absurd (List.eq_of_mem_replicate hm) (by decide)
    · exact hnl hm
  · apply safe_of_plain _ _ ⟨c, hcm, hcsp⟩
    intro x hx
    rcases List.mem_append.1 hx with hx | hx
    · rw [List.eq_of_mem_replicate hx]; exact ⟨by decide, by decide⟩
    · exact plain_escAll_chars ht x hx

theorem pieceOK_para {esc : List Char} (hE : EscOK esc) (tab i : Nat) (hi : i < tab) (t : Str)
    (ht : lineText t = true) :
    PieceOK esc tab ⟨[spaces i ++ escAll esc t], .txt "p".toList t⟩ := by
  obtain ⟨hne, hnl, hvis, hsafe⟩ := indented_facts hE i ht
  refine ⟨by simp, ?_, hvis, nel_line _ hne hnl, produces_para hE tab i hi t ht, ?_⟩
  · intro l hl
    have : l = spaces i ++ escAll esc t := by simpa using hl
    subst this; exact hsafe
  · simp only [Leaf.ok, ht, Bool.and_true]; decide

theorem hTag_mem (lv : Nat) (h1 : 1 ≤ lv) (h6 : lv ≤ 6) : textTags.contains ('h' :: natToDec lv) = true := by
  have : lv = 1 ∨ lv = 2 ∨ lv = 3 ∨ lv = 4 ∨ lv = 5 ∨ lv = 6 := by omega
  rcases this with rfl | rfl | rfl | rfl | rfl | rfl <;> decide

theorem pieceOK_setext {esc : List Char} (hE : EscOK esc) (tab i : Nat) (hi : i < tab) (t : Str)
    (ht : lineText t = true) (lv k : Nat) (hlv : lv = 1 ∨ lv = 2) :
    PieceOK esc tab ⟨[spaces i ++ escAll esc t, List.replicate (k + 1) (if lv = 1 then '=' else '-')],
      .txt ('h' :: natToDec lv) t⟩ := by
  obtain ⟨hne, hnl, ⟨c, hc, hcs⟩, hsafe⟩ := indented_facts hE i ht
  have hprod := produces_setext hE tab i hi t ht lv k hlv
  generalize hu : (if lv = 1 then '=' else '-') = ch at *
  have hch2 : ch = '=' ∨ ch = '-' := by rw [← hu]; split <;> simp
  have hunl : '\n' ∉ List.replicate (k + 1) ch := by
    intro hm; have := List.eq_of_mem_replicate hm
    rcases hch2 with h | h <;> rw [h] at this <;> exact absurd this (by decide)
  have hjoin : joinLines [spaces i ++ escAll esc t, List.replicate (k + 1) ch] =
      spaces i ++ escAll esc t ++ '\n' :: List.replicate (k + 1) ch := by
    simp [joinLines, join]
  refine ⟨by simp, ?_, ⟨c, by rw [hjoin]; exact List.mem_append_left _ hc, hcs⟩, ?_, by rw [hjoin]; exact hprod, ?_⟩
  · intro l hl
    simp only [List.mem_cons, List.mem_nil_iff, or_false] at hl
    rcases hl with rfl | rfl
    · exact hsafe
    · apply safe_of_plain _ _ ⟨ch, by simp [List.replicate_succ], by rcases hch2 with h | h <;> rw [h] <;> decide⟩
      intro x hx
      rw [List.eq_of_mem_replicate hx]
      rcases hch2 with h | h <;> rw [h] <;> exact ⟨by decide, by decide⟩
  · rw [hjoin]
    exact nel_two_lines _ _ hne (by simp [List.replicate_succ]) hnl hunl
  · simp only [Leaf.ok, ht, Bool.and_true]
    exact hTag_mem lv (by omega) (by omega)

theorem pieceOK_atx {esc : List Char} (hE : EscOK esc) (tab : Nat) (htab : 0 < tab) (t : Str)
    (ht : lineText t = true) (lv : Nat) (h1 : 1 ≤ lv) (h6 : lv ≤ 6) (Y : Str)
    (hY : Y = [] ∨ ∃ m, Y = ' ' :: List.replicate m '#') :
    PieceOK esc tab ⟨[List.replicate lv '#' ++ ' ' :: (escAll esc t ++ Y)], .txt ('h' :: natToDec lv) t⟩ := by
  obtain ⟨c, tail, he, hcs, _, hnl, _⟩ := escLine_facts hE ht
  have hmemc : c ∈ List.replicate lv '#' ++ ' ' :: (escAll esc t ++ Y) := by rw [he]; simp
  have hchars : ∀ x ∈ List.replicate lv '#' ++ ' ' :: (escAll esc t ++ Y), isPlainChar x = true ∧ x ≠ '\n' := by
    intro x hx
    simp only [List.mem_append, List.mem_cons] at hx
    rcases hx with hx | hx | hx | hx
    · rw [List.eq_of_mem_replicate hx]; exact ⟨by decide, by decide⟩
    · rw [hx]; exact ⟨by decide, by decide⟩
    · exact plain_escAll_chars ht x hx
    · rcases hY with rfl | ⟨m, rfl⟩
      · simp at hx
      · rcases List.mem_cons.1 hx with hx | hx
        · rw [hx]; exact ⟨by decide, by decide⟩
        · rw [List.eq_of_mem_replicate hx]; exact ⟨by decide, by decide⟩
  have hcsp : c ≠ ' ' := by intro e; subst e; exact absurd hcs (by decide)
  refine ⟨by simp, ?_, ⟨c, by simpa [joinLines, join] using hmemc, hcs⟩, ?_,
    produces_atx hE tab htab t ht lv h1 h6 Y hY, ?_⟩
  · intro l hl
    have : l = List.replicate lv '#' ++ ' ' :: (escAll esc t ++ Y) := by simpa using hl
    subst this
    exact safe_of_plain _ hchars ⟨c, hmemc, hcsp⟩
  · apply nel_line
    · intro e
      have e' : List.replicate lv '#' ++ ' ' :: (escAll esc t ++ Y) = [] := e
      rw [e'] at hmemc; simp at hmemc
    · intro hm; exact (hchars _ hm).2 rfl
  · simp only [Leaf.ok, ht, Bool.and_true]
    exact hTag_mem lv h1 h6

end pieces

/-! ### 4. the shape of `print` on a flat document -/

section printing
open DocSpec Block

/-- the source of words and escapes -/
def rawOf : List Inline → Str
  | [] => []
  | .text w :: r => w ++ rawOf r
  | .esc c :: r => '\\' :: c :: rawOf r
  | _ :: r => rawOf r

theorem printInlines_plain (c : List Inline) (h : plainRun c = true) :
    ∀ (pd : Option Char) (prevB endB : Bool) (st : PSt), printInlines pd prevB endB c st = (rawOf c, st) := by
  induction c with
  | nil => intro pd prevB endB st; simp [printInlines, rawOf]
  | cons x r ih =>
    intro pd prevB endB st
    simp only [plainRun, List.all_cons, Bool.and_eq_true] at h
    have ihr := ih (by simpa [plainRun] using h.2)
    cases x with
    | text w => simp [printInlines, printInline, ihr, rawOf]
    | esc ch => simp [printInlines, printInline, ihr, rawOf]
    | em _ => simp [isTextEsc] at h
    | strong _ => simp [isTextEsc] at h
    | code _ => simp [isTextEsc] at h
    | link _ _ _ => simp [isTextEsc] at h
    | image _ _ _ => simp [isTextEsc] at h
    | autolink _ => simp [isTextEsc] at h
    | br => simp [isTextEsc] at h

theorem alnumSp_facts {c : Char} (h : isAlnumSp c = true) :
    c ∉ Generated.escapedChars ∧ isPlainChar c = true ∧ c ≠ '\n' := by
  have hesc : ∀ e ∈ Generated.escapedChars, isAlnumSp e = false := by decide
  have h1 : c ∉ Generated.escapedChars := fun hm => by rw [hesc c hm] at h; cases h
  have h3 : c ≠ '\n' := by intro e; subst e; exact absurd h (by decide)
  refine ⟨h1, ?_, h3⟩
  simp only [isPlainChar, Bool.and_eq_true, bne_iff_ne, ne_eq]
  refine ⟨⟨⟨⟨⟨?_, ?_⟩, ?_⟩, ?_⟩, ?_⟩, ?_⟩ <;> (intro e; subst e; exact absurd h (by decide))

theorem escChar_facts : ∀ c ∈ Generated.escapedChars, isPlainChar c = true ∧ c ≠ '\n' ∧ isSpace c = false := by
  decide

/-- the items of a well-formed plain run -/
def itemsOK : List Inline → Bool
  | [] => true
  | .text w :: r => wfWords w && itemsOK r
  | .esc c :: r => Generated.escapedChars.contains c && itemsOK r
  | _ :: _ => false

theorem itemsOK_of_wf (c : List Inline) (brOk : Bool) (hp : plainRun c = true)
    (hw : wfInlineList false .none brOk c = true) : itemsOK c = true := by
  induction c with
  | nil => rfl
  | cons x r ih =>
    simp only [plainRun, List.all_cons, Bool.and_eq_true] at hp
    simp only [wfInlineList, Bool.and_eq_true] at hw
    have ihr := ih (by simpa [plainRun] using hp.2) hw.2
    cases x with
    | text w => simp only [wfInline] at hw; simp [itemsOK, hw.1, ihr]
    | esc ch => simp only [wfInline] at hw; simp [itemsOK, List.contains_iff_mem.1 hw.1, ihr]
    | em _ => simp [isTextEsc] at hp
    | strong _ => simp [isTextEsc] at hp
    | code _ => simp [isTextEsc] at hp
    | link _ _ _ => simp [isTextEsc] at hp
    | image _ _ _ => simp [isTextEsc] at hp
    | autolink _ => simp [isTextEsc] at hp
    | br => simp [isTextEsc] at hp

theorem escAll_words (w : Str) (h : w.all isAlnumSp = true) (X : Str) :
    escAll Generated.escapedChars (w ++ X) = w ++ escAll Generated.escapedChars X := by
  induction w with
  | nil => rfl
  | cons c r ih =>
    simp only [List.all_cons, Bool.and_eq_true] at h
    rw [List.cons_append, escAll_cons_not_mem (alnumSp_facts h.1).1, ih h.2]; rfl

theorem rawOf_eq_escAll (c : List Inline) (h : itemsOK c = true) :
    rawOf c = escAll Generated.escapedChars (plainOf c) := by
  induction c with
  | nil => rfl
  | cons x r ih =>
    cases x with
    | text w =>
      simp only [itemsOK, Bool.and_eq_true, wfWords] at h
      rw [rawOf, plainOf, escAll_words w h.1.1.2, ih h.2]
    | esc ch =>
      simp only [itemsOK, Bool.and_eq_true] at h
      rw [rawOf, plainOf, escAll_cons_mem (List.contains_iff_mem.1 h.1), ih h.2]
    | em _ => simp [itemsOK] at h
    | strong _ => simp [itemsOK] at h
    | code _ => simp [itemsOK] at h
    | link _ _ _ => simp [itemsOK] at h
    | image _ _ _ => simp [itemsOK] at h
    | autolink _ => simp [itemsOK] at h
    | br => simp [itemsOK] at h

theorem plainOf_chars (c : List Inline) (h : itemsOK c = true) :
    ∀ x ∈ plainOf c, isPlainChar x = true ∧ x ≠ '\n' := by
  induction c with
  | nil => intro x hx; simp [plainOf] at hx
  | cons y r ih =>
    intro x hx
    cases y with
    | text w =>
      simp only [itemsOK, Bool.and_eq_true, wfWords] at h
      rw [plainOf] at hx
      rcases List.mem_append.1 hx with hx | hx
      · have := alnumSp_facts (List.all_eq_true.1 h.1.1.2 x hx); exact ⟨this.2.1, this.2.2⟩
      · exact ih h.2 x hx
    | esc ch =>
      simp only [itemsOK, Bool.and_eq_true] at h
      rw [plainOf] at hx
      rcases List.mem_cons.1 hx with rfl | hx
      · have := escChar_facts _ (List.contains_iff_mem.1 h.1); exact ⟨this.1, this.2.1⟩
      · exact ih h.2 x hx
    | em _ => simp [itemsOK] at h
    | strong _ => simp [itemsOK] at h
    | code _ => simp [itemsOK] at h
    | link _ _ _ => simp [itemsOK] at h
    | image _ _ _ => simp [itemsOK] at h
    | autolink _ => simp [itemsOK] at h
    | br => simp [itemsOK] at h

theorem alnumSp_lt (c : Char) (h : isAlnumSp c = true) : c.toNat < 128 := by
  simp only [isAlnumSp, isAsciiAlnum, isAsciiAlpha, isAsciiLower, isAsciiUpper, isAsciiDigit, Bool.or_eq_true,
    Bool.and_eq_true, decide_eq_true_eq, Char.le_def, UInt32.le_iff_toNat_le] at h
  have e : c.val.toNat = c.toNat := rfl
  rcases h with ((h | h) | h) | h
  · have : ('z' : Char).val.toNat = 122 := rfl
    omega
  · have : ('Z' : Char).val.toNat = 90 := rfl
    omega
  · have : ('9' : Char).val.toNat = 57 := rfl
    omega
  · subst h; decide

theorem alnum_visible (c : Char) (h : isAlnumSp c = true) (hs : c ≠ ' ') : isSpace c = false := by
  have key : ∀ n, n < 128 → isAlnumSp (Char.ofNat n) = true → Char.ofNat n ≠ ' ' → isSpace (Char.ofNat n) = false := by
    decide
  exact RefDef.char_of_ascii (fun c => isAlnumSp c = true → c ≠ ' ' → isSpace c = false) key c (alnumSp_lt c h) h hs

theorem plainOf_ne_nil (c : List Inline) (h : itemsOK c = true) (hne : c ≠ []) : plainOf c ≠ [] := by
  cases c with
  | nil => exact absurd rfl hne
  | cons x r =>
    cases x with
    | text w =>
      simp only [itemsOK, Bool.and_eq_true, wfWords, Bool.not_eq_true'] at h
      rw [plainOf]
      cases w with
      | nil => simp at h
      | cons a b => simp
    | esc ch => simp [plainOf]
    | em _ => simp [itemsOK] at h
    | strong _ => simp [itemsOK] at h
    | code _ => simp [itemsOK] at h
    | link _ _ _ => simp [itemsOK] at h
    | image _ _ _ => simp [itemsOK] at h
    | autolink _ => simp [itemsOK] at h
    | br => simp [itemsOK] at h

theorem plainOf_head (c : List Inline) (h : itemsOK c = true) (hs : startsOk c = true) :
    startsVisible (plainOf c) = true := by
  cases c with
  | nil => simp [startsOk] at hs
  | cons x r =>
    cases x with
    | text w =>
      simp only [itemsOK, Bool.and_eq_true, wfWords, Bool.not_eq_true'] at h
      simp only [startsOk, bne_iff_ne, ne_eq] at hs
      cases w with
      | nil => simp at h
      | cons a b =>
        have ha : isAlnumSp a = true := by have := h.1.1.2; simp only [List.all_cons, Bool.and_eq_true] at this; exact this.1
        have : a ≠ ' ' := by simpa using hs
        simp [plainOf, startsVisible, alnum_visible a ha this]
    | esc ch =>
      simp only [itemsOK, Bool.and_eq_true] at h
      simp [plainOf, startsVisible, (escChar_facts _ (List.contains_iff_mem.1 h.1)).2.2]
    | em _ => simp [itemsOK] at h
    | strong _ => simp [itemsOK] at h
    | code _ => simp [itemsOK] at h
    | link _ _ _ => simp [itemsOK] at h
    | image _ _ _ => simp [itemsOK] at h
    | autolink _ => simp [itemsOK] at h
    | br => simp [itemsOK] at h

theorem plainOf_last (c : List Inline) (h : itemsOK c = true) (he : endsOk c = true) :
    ∃ z, (plainOf c).getLast? = some z ∧ isSpace z = false := by
  induction c with
  | nil => simp [endsOk] at he
  | cons x r ih =>
    cases r with
    | nil =>
      cases x with
      | text w =>
        simp only [itemsOK, Bool.and_eq_true, wfWords, Bool.not_eq_true'] at h
        simp only [endsOk, bne_iff_ne, ne_eq] at he
        have hwne : w ≠ [] := by intro e; subst e; simp at h
        obtain ⟨z, hz⟩ : ∃ z, w.getLast? = some z := by
          cases hw : w.getLast? with
          | none => exact absurd (List.getLast?_eq_none_iff.1 hw) hwne
          | some z => exact ⟨z, rfl⟩
        have hzm : z ∈ w := List.mem_of_getLast? hz
        have hza : isAlnumSp z = true := List.all_eq_true.1 h.1.1.2 z hzm
        have hzs : z ≠ ' ' := by intro e; subst e; exact he hz
        exact ⟨z, by simpa [plainOf] using hz, alnum_visible z hza hzs⟩
      | esc ch =>
        simp only [itemsOK, Bool.and_eq_true] at h
        exact ⟨ch, by simp [plainOf], (escChar_facts _ (List.contains_iff_mem.1 h.1)).2.2⟩
      | em _ => simp [itemsOK] at h
      | strong _ => simp [itemsOK] at h
      | code _ => simp [itemsOK] at h
      | link _ _ _ => simp [itemsOK] at h
      | image _ _ _ => simp [itemsOK] at h
      | autolink _ => simp [itemsOK] at h
      | br => simp [itemsOK] at h
    | cons y r' =>
      have hr : itemsOK (y :: r') = true := by
        cases x <;> simp [itemsOK] at h <;> first | exact h.2 | skip
      have her : endsOk (y :: r') = true := by simpa [endsOk] using he
      obtain ⟨z, hz, hzs⟩ := ih hr her
      have hne := plainOf_ne_nil (y :: r') hr (by simp)
      refine ⟨z, ?_, hzs⟩
      cases x with
      | text w => rw [plainOf, List.getLast?_append, hz]; rfl
      | esc ch =>
        rw [plainOf]
        cases hp : plainOf (y :: r') with
        | nil => exact absurd hp hne
        | cons a b => rw [hp] at hz; simpa [List.getLast?_cons_cons] using hz
      | em _ => simp [itemsOK] at h
      | strong _ => simp [itemsOK] at h
      | code _ => simp [itemsOK] at h
      | link _ _ _ => simp [itemsOK] at h
      | image _ _ _ => simp [itemsOK] at h
      | autolink _ => simp [itemsOK] at h
      | br => simp [itemsOK] at h

/-- the content of a well-formed plain run is a line text -/
theorem lineText_plainOf (c : List Inline) (brOk : Bool) (hp : plainRun c = true)
    (hw : wfInlines false .none brOk c = true) : lineText (plainOf c) = true := by
  simp only [wfInlines, wfRun, Bool.and_eq_true] at hw
  have hi := itemsOK_of_wf c brOk hp hw.2
  obtain ⟨z, hz, hzs⟩ := plainOf_last c hi hw.1.1.1.2
  have hrev : startsVisible (plainOf c).reverse = true := by
    have : (plainOf c).reverse.head? = some z := by rw [List.head?_reverse]; exact hz
    cases hr : (plainOf c).reverse with
    | nil => rw [hr] at this; cases this
    | cons a b => rw [hr] at this; cases this; simp [startsVisible, hzs]
  simp only [lineText, Bool.and_eq_true, List.all_eq_true, bne_iff_ne, ne_eq]
  exact ⟨⟨plainOf_head c hi hw.1.1.1.1, hrev⟩, plainOf_chars c hi⟩

theorem printContent_plain (c : List Inline) (brOk : Bool) (hp : plainRun c = true)
    (hw : wfInlines false .none brOk c = true) (st : PSt) :
    printContent c st = ([escAll Generated.escapedChars (plainOf c)], st) := by
  have hw' := hw
  simp only [wfInlines, Bool.and_eq_true] at hw'
  have hi := itemsOK_of_wf c brOk hp hw'.2
  have hlt := lineText_plainOf c brOk hp hw
  obtain ⟨_, _, _, _, _, hnl, _⟩ := escLine_facts escOK_generated hlt
  simp only [printContent, printInlines_plain c hp, rawOf_eq_escAll c hi]
  rw [splitC_noNl _ (notNl_of_not_mem hnl)]

/-! #### the specification side -/

theorem htmlEsc_append (a b : Str) : htmlEsc (a ++ b) = htmlEsc a ++ htmlEsc b := by
  induction a with
  | nil => rfl
  | cons c r ih =>
    by_cases h1 : c = '&'
    · simp [htmlEsc, h1, ih, List.append_assoc]
    · by_cases h2 : c = '<'
      · simp [htmlEsc, h2, ih, List.append_assoc]
      · by_cases h3 : c = '>'
        · simp [htmlEsc, h3, ih, List.append_assoc]
        · simp [htmlEsc, h1, h2, h3, ih]

theorem specInline_text (w : Str) : specInline (.text w) = htmlEsc w := rfl
theorem specInline_esc (c : Char) : specInline (.esc c) = htmlEsc [c] := rfl
theorem specInlines_cons (x : Inline) (r : List Inline) : specInlines (x :: r) = specInline x ++ specInlines r := by
  rw [specInlines]
theorem specBlock_para (c : List Inline) : specBlock (.para c) = S "<p>" ++ specInlines c ++ S "</p>" := rfl
theorem specBlock_atx (l : Nat) (c : List Inline) :
    specBlock (.atx l c) = S "<h" ++ natToDec l ++ S ">" ++ specInlines c ++ S "</h" ++ natToDec l ++ S ">" := rfl
theorem specBlock_setext (l : Nat) (c : List Inline) :
    specBlock (.setext l c) = S "<h" ++ natToDec l ++ S ">" ++ specInlines c ++ S "</h" ++ natToDec l ++ S ">" := rfl
theorem specBlock_rule : specBlock .rule = S "<hr />" := rfl
theorem printBlock_para (c : List Inline) (st : PSt) : printBlock true (.para c) st =
    (indentTop true (draw st).1 (printContent c (draw st).2).1, (printContent c (draw st).2).2) := rfl
theorem printBlock_atx (l : Nat) (c : List Inline) (st : PSt) : printBlock true (.atx l c) st =
    ([atxLine l (printContent c (draw st).2).1 (draw st).1], (printContent c (draw st).2).2) := rfl
theorem printBlock_setext (l : Nat) (c : List Inline) (st : PSt) : printBlock true (.setext l c) st =
    (indentTop true (draw st).1 (printContent c (draw (draw st).2).2).1 ++
      [setextUnderline l (draw (draw st).2).1], (printContent c (draw (draw st).2).2).2) := rfl

theorem specInlines_plain (c : List Inline) (h : itemsOK c = true) : specInlines c = htmlEsc (plainOf c) := by
  induction c with
  | nil => rfl
  | cons x r ih =>
    cases x with
    | text w =>
      simp only [itemsOK, Bool.and_eq_true] at h
      rw [specInlines_cons, specInline_text, plainOf, htmlEsc_append, ih h.2]
    | esc ch =>
      simp only [itemsOK, Bool.and_eq_true] at h
      have : ch :: plainOf r = [ch] ++ plainOf r := rfl
      rw [specInlines_cons, specInline_esc, plainOf, this, htmlEsc_append, ih h.2]
    | em _ => simp [itemsOK] at h
    | strong _ => simp [itemsOK] at h
    | code _ => simp [itemsOK] at h
    | link _ _ _ => simp [itemsOK] at h
    | image _ _ _ => simp [itemsOK] at h
    | autolink _ => simp [itemsOK] at h
    | br => simp [itemsOK] at h

theorem htmlEsc_eq_escCdata (t : Str) (h : '&' ∉ t) : htmlEsc t = Ser.escCdata t := by
  rw [Ser.onepass_cdata']
  induction t with
  | nil => rfl
  | cons c r ih =>
    have hc : c ≠ '&' := fun e => h (e ▸ List.mem_cons_self)
    have ih' := ih (fun hh => h (List.mem_cons_of_mem _ hh))
    simp only [htmlEsc, Ser.esc1, hc, if_false, ih', Bool.false_and, Bool.false_eq_true, S]

theorem specContent (c : List Inline) (brOk : Bool) (hp : plainRun c = true)
    (hw : wfInlines false .none brOk c = true) : specInlines c = Ser.escCdata (plainOf c) := by
  have hlt := lineText_plainOf c brOk hp hw
  simp only [wfInlines, Bool.and_eq_true] at hw
  rw [specInlines_plain c (itemsOK_of_wf c brOk hp hw.2), htmlEsc_eq_escCdata _ (lineText_facts hlt).2.1]

/-! #### one block -/

theorem draw_defs (s : PSt) : (draw s).2.defs = s.defs := by
  unfold draw; cases s.ch <;> rfl

/-- every printed form of a flat well-formed block is a piece whose output is what `spec` prescribes -/
theorem printBlock_flat (b : DocSpec.Block) (hf : isFlatBlock b = true) (hw : wfBlock none b = true) (st : PSt) :
    ∃ (p : Piece) (st' : PSt), printBlock true b st = (p.g, st') ∧ st'.defs = st.defs ∧
      PieceOK Generated.escapedChars 4 p ∧ p.leaf.out = specBlock b := by
  have hE := escOK_generated
  cases b with
  | rule =>
    refine ⟨⟨[ruleLine true (draw st).1 (draw (draw st).2).1 (draw (draw (draw st).2).2).1
        (draw (draw (draw (draw st).2).2).2).1 (draw (draw (draw (draw (draw st).2).2).2).2).1], .hr⟩,
      (draw (draw (draw (draw (draw st).2).2).2).2).2, rfl, by simp [draw_defs],
      pieceOK_rule 4 (by omega) _ _ _ _ _, rfl⟩
  | para c =>
    simp only [isFlatBlock] at hf
    simp only [wfBlock] at hw
    have hlt := lineText_plainOf c true hf hw
    refine ⟨⟨[spaces ((draw st).1 % 4) ++ escAll Generated.escapedChars (plainOf c)], .txt "p".toList (plainOf c)⟩,
      (draw st).2, ?_, draw_defs st, pieceOK_para hE 4 _ (Nat.mod_lt _ (by omega)) _ hlt, ?_⟩
    · rw [printBlock_para, printContent_plain c true hf hw]
      rfl
    · rw [specBlock_para, specContent c true hf hw]
      simp [Leaf.out, S]
  | atx l c =>
    simp only [isFlatBlock] at hf
    simp only [wfBlock, Bool.and_eq_true, decide_eq_true_eq] at hw
    have hlt := lineText_plainOf c false hf hw.2
    have hY : atxClosing (draw st).1 l = [] ∨ ∃ m, atxClosing (draw st).1 l = ' ' :: List.replicate m '#' := by
      unfold atxClosing
      split
      · exact Or.inl rfl
      · split
        · exact Or.inr ⟨1, rfl⟩
        · exact Or.inr ⟨l, rfl⟩
    refine ⟨⟨[List.replicate l '#' ++ ' ' :: (escAll Generated.escapedChars (plainOf c) ++ atxClosing (draw st).1 l)],
        .txt ('h' :: natToDec l) (plainOf c)⟩,
      (draw st).2, ?_, draw_defs st, pieceOK_atx hE 4 (by omega) _ hlt l hw.1.1 hw.1.2 _ hY, ?_⟩
    · rw [printBlock_atx, printContent_plain c false hf hw.2]
      simp [atxLine, join, rep, List.append_assoc]
    · rw [specBlock_atx, specContent c false hf hw.2]
      simp [Leaf.out, S, List.append_assoc]
  | setext l c =>
    simp only [isFlatBlock] at hf
    simp only [wfBlock, Bool.and_eq_true, Bool.or_eq_true, decide_eq_true_eq] at hw
    have hlt := lineText_plainOf c false hf hw.2
    have hk : (draw (draw st).2).1 % 8 + 1 = ((draw (draw st).2).1 % 8) + 1 := rfl
    refine ⟨⟨[spaces ((draw st).1 % 4) ++ escAll Generated.escapedChars (plainOf c),
          List.replicate ((draw (draw st).2).1 % 8 + 1) (if l = 1 then '=' else '-')],
        .txt ('h' :: natToDec l) (plainOf c)⟩,
      (draw (draw st).2).2, ?_, by simp [draw_defs],
      pieceOK_setext hE 4 _ (Nat.mod_lt _ (by omega)) _ hlt l _ hw.1, ?_⟩
    · rw [printBlock_setext, printContent_plain c false hf hw.2]
      rfl
    · rw [specBlock_setext, specContent c false hf hw.2]
      simp [Leaf.out, S, List.append_assoc]
  | code _ => simp [isFlatBlock] at hf
  | quote _ => simp [isFlatBlock] at hf
  | ulist _ _ => simp [isFlatBlock] at hf
  | olist _ _ => simp [isFlatBlock] at hf

/-! #### the whole document -/

theorem printBlocks_one (b : DocSpec.Block) (st : PSt) : printBlocks true [b] st = printBlock true b st := by
  rw [printBlocks]

theorem printBlocks_cons2 (b b' : DocSpec.Block) (r : List DocSpec.Block) (st : PSt) :
    printBlocks true (b :: b' :: r) st =
      ((printBlock true b st).1 ++ [[]] ++ (printBlocks true (b' :: r) (printBlock true b st).2).1,
       (printBlocks true (b' :: r) (printBlock true b st).2).2) := by
  rw [printBlocks]

theorem specBlocks_one (b : DocSpec.Block) : specBlocks [b] = specBlock b := by rw [specBlocks]
theorem specBlocks_cons2 (b b' : DocSpec.Block) (r : List DocSpec.Block) :
    specBlocks (b :: b' :: r) = specBlock b ++ S "\n" ++ specBlocks (b' :: r) := by rw [specBlocks]

theorem printBlocks_flat (d : Doc) (hne : d ≠ []) (hf : ∀ b ∈ d, isFlatBlock b = true)
    (hw : ∀ b ∈ d, wfBlock none b = true) :
    ∀ st : PSt, ∃ (ps : List Piece) (st' : PSt), printBlocks true d st = (flatLines (ps.map (·.g)), st') ∧
      st'.defs = st.defs ∧ ps ≠ [] ∧ (∀ p ∈ ps, PieceOK Generated.escapedChars 4 p) ∧
      joinOut (ps.map (·.leaf)) = specBlocks d := by
  induction d with
  | nil => exact absurd rfl hne
  | cons b r ih =>
    intro st
    obtain ⟨p, st1, hp, hd1, hok, hout⟩ :=
      printBlock_flat b (hf b List.mem_cons_self) (hw b List.mem_cons_self) st
    cases r with
    | nil =>
      refine ⟨[p], st1, ?_, hd1, by simp, ?_, ?_⟩
      · rw [printBlocks_one, hp]; rfl
      · intro q hq; have : q = p := by simpa using hq
        subst this; exact hok
      · rw [specBlocks_one, ← hout]; rfl
    | cons b' r' =>
      obtain ⟨ps, st2, hps, hd2, hpsne, hoks, houts⟩ := ih (by simp)
        (fun x hx => hf x (List.mem_cons_of_mem _ hx)) (fun x hx => hw x (List.mem_cons_of_mem _ hx)) st1
      obtain ⟨q, qs, rfl⟩ : ∃ q qs, ps = q :: qs := by
        cases ps with
        | nil => exact absurd rfl hpsne
        | cons q qs => exact ⟨q, qs, rfl⟩
      refine ⟨p :: q :: qs, st2, ?_, by rw [hd2, hd1], by simp, ?_, ?_⟩
      · rw [printBlocks_cons2, hp]
        simp only [hps]
        rfl
      · intro x hx
        rcases List.mem_cons.1 hx with rfl | hx
        · exact hok
        · exact hoks x hx
      · rw [specBlocks_cons2, ← houts, ← hout]; rfl

theorem wfBlockList_mem {mode : Option Bool} {d : List DocSpec.Block} (h : wfBlockList mode d = true) :
    ∀ b ∈ d, wfBlock mode b = true := by
  induction d with
  | nil => intro b hb; simp at hb
  | cons x r ih =>
    rw [wfBlockList] at h
    simp only [Bool.and_eq_true] at h
    intro b hb
    rcases List.mem_cons.1 hb with rfl | hb
    · exact h.1
    · exact ih h.2 b hb

/-- **C01 on flat documents**: every spelling of a well-formed flat document converts to what `spec` prescribes -/
theorem convert_flat (d : Doc) (sp : Spelling) (hwf : WF d = true) (hflat : FlatDoc d = true) :
    Pipeline.convert {} (print d sp) = .ok (spec d) := by
  simp only [WF, Bool.and_eq_true, Bool.not_eq_true', List.isEmpty_eq_false_iff] at hwf
  obtain ⟨⟨⟨hne, _⟩, hbl⟩, _⟩ := hwf
  have hf : ∀ b ∈ d, isFlatBlock b = true := by
    simpa [FlatDoc, List.all_eq_true] using hflat
  obtain ⟨ps, st', hps, hdefs, hpsne, hoks, houts⟩ :=
    printBlocks_flat d hne hf (wfBlockList_mem hbl) ⟨sp.choices, 1, []⟩
  have hprint : print d sp = joinLines (flatLines (ps.map (·.g))) := by
    simp only [print, hps]
    have : st'.defs = [] := hdefs
    simp [this, joinLines]
  rw [hprint, spec, ← houts]
  exact convert_pieces {} escOK_generated rfl rfl ps hpsne hoks

end printing

end MdVerif.DocParse
