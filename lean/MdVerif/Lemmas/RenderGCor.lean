/-
Helper lemmas for `Props/C16RenderG.lean`, part 11: the source and the rendering of `Lemmas/RenderGAll.lean` spelled
out for one reference in the middle of the paragraph, two references to one footnote, two footnotes.

Core Lean only.
-/
import MdVerif.Lemmas.RenderGAll

namespace MdVerif.RenderG
open Py Block BlockExt MdVerif.RenderX Inline InlineX
open MdVerif.Footnotes.Spec (refName)

theorem dec1 : natToDec 1 = ['1'] := by decide +kernel
theorem dec2 : natToDec 2 = ['2'] := by decide +kernel

/-! ### sources -/

theorem fnSrcG_one (t id u note : Str) :
    fnSrcG t [(id, u)] [(id, note)] =
      t ++ "[^".toList ++ id ++ "]".toList ++ u ++ "\n\n[^".toList ++ id ++ "]: ".toList ++ note := by
  unfold fnSrcG fnPara refSegs refSegs fnRefSrc defBlocks fnLine2
  simp only [List.map_cons, List.map_nil, DocParse.joinChunks]
  simp only [String.reduceToList]
  simp only [List.cons_append, List.append_assoc, List.nil_append, List.append_nil]

theorem fnSrcG_twice (t id u v note : Str) :
    fnSrcG t [(id, u), (id, v)] [(id, note)] =
      t ++ "[^".toList ++ id ++ "]".toList ++ u ++ "[^".toList ++ id ++ "]".toList ++ v ++
        "\n\n[^".toList ++ id ++ "]: ".toList ++ note := by
  unfold fnSrcG fnPara refSegs refSegs refSegs fnRefSrc defBlocks fnLine2
  simp only [List.map_cons, List.map_nil, DocParse.joinChunks]
  simp only [String.reduceToList]
  simp only [List.cons_append, List.append_assoc, List.nil_append, List.append_nil]

theorem fnSrcG_two (t a u b v : Str) (d1 d2 : Str × Str) :
    fnSrcG t [(a, u), (b, v)] [d1, d2] =
      t ++ "[^".toList ++ a ++ "]".toList ++ u ++ "[^".toList ++ b ++ "]".toList ++ v ++
        "\n\n[^".toList ++ d1.1 ++ "]: ".toList ++ d1.2 ++ "\n\n[^".toList ++ d2.1 ++ "]: ".toList ++ d2.2 := by
  unfold fnSrcG fnPara refSegs refSegs refSegs fnRefSrc defBlocks fnLine2
  simp only [List.map_cons, List.map_nil, DocParse.joinChunks]
  simp only [String.reduceToList]
  simp only [List.cons_append, List.append_assoc, List.nil_append, List.append_nil]

/-! ### renderings -/

/-- a reference, spelled out -/
def supOut (refId id num : Str) : Str :=
  "<sup id=\"".toList ++ refId ++ "\"><a class=\"footnote-ref\" href=\"#fn:".toList ++ id ++ "\">".toList ++ num ++
    "</a></sup>".toList

/-- a back-link, spelled out -/
def backOut (href num : Str) : Str :=
  "<a class=\"footnote-backref\" href=\"#".toList ++ href ++ "\" title=\"Jump back to footnote ".toList ++ num ++
    " in the text\">&#8617;</a>".toList

/-- a list item with its back-links, spelled out -/
def liOut (id note backs : Str) : Str :=
  "<li id=\"fn:".toList ++ id ++ "\">\n<p>".toList ++ note ++ "&#160;".toList ++ backs ++ "</p>\n</li>\n".toList

/-- the document, spelled out -/
def docOut (fmt : Ser.Fmt) (para lis : Str) : Str :=
  "<p>".toList ++ para ++ "</p>\n<div class=\"footnote\">\n".toList ++ hrTag fmt ++ "\n<ol>\n".toList ++ lis ++
    "</ol>\n</div>".toList

theorem supHtmlG_out (refId id num : Str) : supHtmlG refId id num = supOut refId id num := rfl

theorem backHtml_out (index : Nat) (href : Str) :
    backHtml index entBl ('#' :: href) = backOut href (natToDec index) := by
  unfold backHtml backPre backOut titleOf lA1 lA2 lA3 lA4 entBl
  generalize natToDec index = N
  simp only [String.reduceToList]
  simp only [List.cons_append, List.append_assoc, List.nil_append]

theorem liHtml_out (id note : Str) (index c : Nat) :
    liHtml id note index c entNb entBl = liOut id note (backsHtml index entBl (backHrefs id c)) := by
  unfold liHtml liPre liOut lL1 lL2 lL3 entNb
  generalize backsHtml index entBl (backHrefs id c) = B
  simp only [String.reduceToList, List.cons_append, List.append_assoc, List.nil_append]

theorem fnOutG_out (fmt : Ser.Fmt) (t refs lis : Str) : fnOutG fmt t refs lis = docOut fmt (t ++ refs) lis := by
  unfold fnOutG docPre docOut lD1 lD2 lD3 lD4
  generalize hrTag fmt = H
  simp only [String.reduceToList]
  simp only [List.cons_append, List.append_assoc, List.nil_append, List.append_nil]

theorem refName_zero (id : Str) : refName id 0 = "fnref:".toList ++ id := by
  unfold refName Footnotes.fnref
  simp only [String.reduceToList]
  simp only [List.cons_append, List.nil_append]

theorem refName_one (id : Str) : refName id 1 = "fnref2:".toList ++ id := by
  have : refName id 1 = Footnotes.fnref ++ natToDec 2 ++ ':' :: id := rfl
  rw [this, dec2]
  unfold Footnotes.fnref
  simp only [String.reduceToList]
  simp only [List.cons_append, List.nil_append]

theorem backHrefs_one (id : Str) : backHrefs id 1 = ['#' :: ("fnref:".toList ++ id)] := by
  unfold backHrefs Footnotes.fnref
  simp only [Nat.sub_self, List.range', List.map_nil]
  simp only [String.reduceToList]
  simp only [List.cons_append, List.nil_append]

theorem backHrefs_two (id : Str) : backHrefs id 2 = ['#' :: ("fnref:".toList ++ id), '#' :: ("fnref2:".toList ++ id)] := by
  unfold backHrefs Footnotes.fnref
  simp only [show 2 - 1 = 1 from rfl, List.range', List.map_cons, List.map_nil, dec2]
  simp only [String.reduceToList]
  simp only [List.cons_append, List.nil_append]

/-- one reference, one footnote -/
theorem fnRender_one (fmt : Ser.Fmt) (t id u note : Str) :
    fnRender fmt t [(id, u)] [(id, note)] =
      docOut fmt (t ++ supOut ("fnref:".toList ++ id) id "1".toList ++ u)
        (liOut id note (backOut ("fnref:".toList ++ id) "1".toList)) := by
  have hc : refCount [(id, u)] id = 1 := by simp [refCount]
  have hi : indexOf [id] id = 0 := by simp [indexOf]
  unfold fnRender
  rw [fnOutG_out]
  simp only [List.map_cons, List.map_nil, refsHtml, lisHtml, liHtml_out, hc, backHrefs_one, backsHtml, backHtml_out,
    List.count_nil, refName_zero, hi, supHtmlG_out, dec1, List.append_nil, List.append_assoc]
  rfl

/-- two references to one footnote -/
theorem fnRender_twice (fmt : Ser.Fmt) (t id u v note : Str) :
    fnRender fmt t [(id, u), (id, v)] [(id, note)] =
      docOut fmt (t ++ supOut ("fnref:".toList ++ id) id "1".toList ++ u ++
          supOut ("fnref2:".toList ++ id) id "1".toList ++ v)
        (liOut id note (backOut ("fnref:".toList ++ id) "1".toList ++ backOut ("fnref2:".toList ++ id) "1".toList)) := by
  have hc : refCount [(id, u), (id, v)] id = 2 := by simp [refCount]
  have hi : indexOf [id] id = 0 := by simp [indexOf]
  have h1 : List.count id [id] = 1 := by simp
  unfold fnRender
  rw [fnOutG_out]
  simp only [List.map_cons, List.map_nil, refsHtml, lisHtml, liHtml_out, hc, backHrefs_two, backsHtml, backHtml_out,
    List.count_nil, h1, refName_zero, refName_one, hi, supHtmlG_out, dec1, List.append_nil, List.append_assoc]
  rfl

/-- two footnotes, each referenced once; `na`, `nb` = the numbers of `a`, `b` (their positions among the
    definitions) -/
theorem fnRender_two (fmt : Ser.Fmt) (t a u b v : Str) (d1 d2 : Str × Str) (hab : a ≠ b)
    (hd : (d1.1 = a ∧ d2.1 = b) ∨ (d1.1 = b ∧ d2.1 = a)) :
    fnRender fmt t [(a, u), (b, v)] [d1, d2] =
      docOut fmt (t ++ supOut ("fnref:".toList ++ a) a (natToDec (indexOf [d1.1, d2.1] a + 1)) ++ u ++
          supOut ("fnref:".toList ++ b) b (natToDec (indexOf [d1.1, d2.1] b + 1)) ++ v)
        (liOut d1.1 d1.2 (backOut ("fnref:".toList ++ d1.1) "1".toList) ++
         liOut d2.1 d2.2 (backOut ("fnref:".toList ++ d2.1) "2".toList)) := by
  have hba : b ≠ a := fun e => hab e.symm
  have hc1 : refCount [(a, u), (b, v)] d1.1 = 1 := by
    rcases hd with ⟨h1, _⟩ | ⟨h1, _⟩ <;> simp [refCount, h1, List.count_cons, hab, hba]
  have hc2 : refCount [(a, u), (b, v)] d2.1 = 1 := by
    rcases hd with ⟨_, h2⟩ | ⟨_, h2⟩ <;> simp [refCount, h2, List.count_cons, hab, hba]
  have h1 : List.count b [a] = 0 := by simp [List.count_cons, hab]
  unfold fnRender
  rw [fnOutG_out]
  simp only [List.map_cons, List.map_nil, refsHtml, lisHtml, liHtml_out, hc1, hc2, backHrefs_one, backsHtml, backHtml_out,
    List.count_nil, h1, refName_zero, supHtmlG_out, dec1, dec2, List.append_nil, List.append_assoc]
  rfl

theorem indexOf_first (a b : Str) : indexOf [a, b] a = 0 := by simp [indexOf]
theorem indexOf_second (a b : Str) (h : a ≠ b) : indexOf [a, b] b = 1 := by simp [indexOf, h]

end MdVerif.RenderG
