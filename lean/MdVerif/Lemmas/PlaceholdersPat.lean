/-
Helper lemmas for C10, part 5: the pattern matchers (`findMatch`) return matches that can be stashed
(`FoundOK`) — the per-pattern `*_stash_ok` facts.  Core Lean only.
-/
import MdVerif.Lemmas.PlaceholdersHI

namespace MdVerif.NoCtl
open Py Inline

/-! ### spans -/

theorem pyDrop_natCast (data : Str) (e : Nat) : pyDrop data (e : Int) = data.drop e := by
  unfold pyDrop pyIdx
  have h1 : ¬ ((e : Int) < 0) := by omega
  simp only [h1, if_false, Int.toNat_natCast]
  rcases Nat.le_total e data.length with h | h
  · rw [Nat.min_eq_left h]
  · rw [Nat.min_eq_right h, List.drop_eq_nil_of_le (Nat.le_refl _), List.drop_eq_nil_of_le h]

theorem span_aux (A pre M post : Str) :
    (A ++ (pre ++ M ++ post)).take (A.length + pre.length) = A ++ pre ∧
    (A ++ (pre ++ M ++ post)).drop (A.length + pre.length + M.length) = post ∧
    slice (A ++ (pre ++ M ++ post)) (A.length + pre.length) (A.length + pre.length + M.length) = M := by
  have e1 : A ++ (pre ++ M ++ post) = (A ++ pre) ++ (M ++ post) := by simp
  have e2 : A ++ (pre ++ M ++ post) = (A ++ pre ++ M) ++ post := by simp
  have l1 : A.length + pre.length = (A ++ pre).length := by simp
  have l2 : A.length + pre.length + M.length = (A ++ pre ++ M).length := by simp only [List.length_append]
  refine ⟨?_, ?_, ?_⟩
  · rw [l1, e1, List.take_left]
  · rw [l2, e2, List.drop_left]
  · unfold slice
    rw [l2, e2, List.take_left, l1, List.drop_left]

/-- a match `M` found at offset `pre.length` of the suffix from `si` -/
theorem span_of_suffix {data pre M post : Str} {si : Nat} (hsuf : data.drop si = pre ++ M ++ post) (hM : M ≠ []) :
    data.take (si + pre.length) = data.take si ++ pre ∧ data.drop (si + pre.length + M.length) = post ∧
    slice data (si + pre.length) (si + pre.length + M.length) = M ∧ data = (data.take si ++ pre) ++ M ++ post := by
  have hsi : si ≤ data.length := by
    rcases Nat.le_total si data.length with h | h
    · exact h
    · rw [List.drop_eq_nil_of_le h] at hsuf
      have := congrArg List.length hsuf
      simp at this
      have : M.length = 0 := by omega
      exact absurd (List.length_eq_zero_iff.1 this) hM
  obtain ⟨A, hA, hAlen⟩ : ∃ A : Str, data = A ++ (pre ++ M ++ post) ∧ A.length = si :=
    ⟨data.take si, by rw [← hsuf, List.take_append_drop], by simp [hsi]⟩
  have htake : data.take si = A := by rw [hA, ← hAlen, List.take_left]
  obtain ⟨h1, h2, h3⟩ := span_aux A pre M post
  rw [htake, ← hAlen]
  refine ⟨by rw [hA]; exact h1, by rw [hA]; exact h2, by rw [hA]; exact h3, by rw [hA]; simp⟩

/-- the data around a match that starts and ends with characters that are not inside a token -/
theorem splice_of_span {esc : Bool} {k : Nat} {data pre M post : Str} {si : Nat} (hw : WF esc k data)
    (hsuf : data.drop si = pre ++ M ++ post) (hM : M ≠ [])
    (hh : ∀ c, M.head? = some c → inner c = false ∧ c ≠ ETX)
    (hl : ∀ c, M.getLast? = some c → inner c = false ∧ c ≠ STX) :
    Splice esc k data (si + pre.length) ((si + pre.length + M.length : Nat) : Int) ∧ WF esc k M := by
  obtain ⟨h1, h2, -, h4⟩ := span_of_suffix hsuf hM
  rw [h4, List.append_assoc] at hw
  have hb1 : Bnd (data.take si ++ pre) (M ++ post) := by
    left
    intro c hc
    cases M with
    | nil => exact absurd rfl hM
    | cons x r => exact hh c (by simpa using hc)
  obtain ⟨w1, w2⟩ := hw.split hb1
  have hb2 : Bnd M post := by
    right
    intro c hc
    exact hl c hc
  obtain ⟨w3, w4⟩ := w2.split hb2
  refine ⟨⟨by rw [h1]; exact w1, by rw [pyDrop_natCast, h2]; exact w4⟩, w3⟩

/-! ### patterns that cannot fire in the domain -/

theorem linkScan_none (cfg : Cfg) (stash : List StashItem) (pi : Nat) (data : Str) :
    ∀ (suf : Str) (prev : Option Char) (i : Nat), '[' ∉ suf → linkScan cfg stash pi data prev suf i = none := by
  intro suf
  induction suf with
  | nil => intro prev i _; rfl
  | cons ch r ih =>
    intro prev i h
    have h1 : ch ≠ '[' := fun e => h (by simp [e])
    have h2 : '[' ∉ r := fun hr => h (by simp [hr])
    have h3 : (r.head? == some '[') = false := by
      cases r with
      | nil => rfl
      | cons x r' =>
        have : x ≠ '[' := fun e => h2 (by simp [e])
        simp [this]
    simp only [linkScan, h1, h3, decide_false, Bool.false_and, Bool.and_false, Bool.false_eq_true, if_false]
    split
    · rename_i hx; split at hx <;> cases hx
    · exact ih _ _ h2

theorem entityScan_none : ∀ (suf : Str) (i : Nat), '&' ∉ suf → entityScan suf i = none := by
  intro suf
  induction suf with
  | nil => intro i _; rfl
  | cons c r ih =>
    intro i h
    have h1 : c ≠ '&' := fun e => h (by simp [e])
    have h2 : '&' ∉ r := fun hr => h (by simp [hr])
    simp only [entityScan, h1, if_false]
    exact ih _ h2

theorem entityFind_none {data : Str} (h : '&' ∉ data) (si : Nat) : entityFind data si = none := by
  unfold entityFind
  split
  · rfl
  · exact entityScan_none _ _ (fun hm => h (List.mem_of_mem_drop hm))

theorem dom_no_bracket {esc : Bool} {s : Str} (h : DomS esc s) : '[' ∉ s := by
  intro hm
  have := h _ hm
  cases esc <;> simp [domChar] at this

theorem dom_no_amp {esc : Bool} {s : Str} (h : DomS esc s) : '&' ∉ s := by
  intro hm
  have := h _ hm
  cases esc <;> simp [domChar] at this

theorem dom_no_backtick {s : Str} (h : DomS true s) : '`' ∉ s := by
  intro hm
  have := h _ hm
  simp [domChar] at this

theorem dom_no_backslash {s : Str} (h : DomS false s) : '\\' ∉ s := by
  intro hm
  have := h _ hm
  simp [domChar] at this

/-! ### pattern 10: hard line break -/

theorem brNode_raw (esc : Bool) (k : Nat) : RawNode esc k (mkEl "br") := by
  refine ⟨⟨?_, ?_, strW_none esc k, strW_none esc k, ?_⟩, by simp [mkEl]⟩
  · show NoCtl "br".toList; decide
  · intro kv hkv; simp [mkEl] at hkv
  · intro h; exact absurd h (by decide)

theorem linebreak_stash_ok {esc : Bool} {k : Nat} {data : Str} {si off : Nat} (hw : WF esc k data)
    (h : find [' ', ' ', '\n'] (data.drop si) = some off) :
    FoundOK esc k data ⟨.el (mkEl "br"), si + off, si + off + 3⟩ := by
  obtain ⟨pre, post, hsuf, rfl, -⟩ := find_some_iff.1 h
  have := splice_of_span (M := [' ', ' ', '\n']) hw hsuf (by simp)
    (by intro c hc; simp at hc; subst hc; decide) (by intro c hc; simp at hc; subst hc; decide)
  refine ⟨?_, brNode_raw esc k⟩
  have e : ((si + pre.length : Nat) : Int) + 3 = ((si + pre.length + [' ', ' ', '\n'].length : Nat) : Int) := by
    simp
  show Splice esc k data (si + pre.length) (((si + pre.length : Nat) : Int) + 3)
  rw [e]; exact this.1


/-! ### pattern 13: `not_strong` -/

theorem nsRun_spec {c : Char} {suf : Str} {k : Nat} (h : nsRun c suf = some k) :
    0 < k ∧ k ≤ suf.length ∧ suf.take k = List.replicate k c := by
  unfold nsRun at h
  simp only at h
  split at h
  · cases h
  · rename_i hk0
    have hle := countPrefix_le_length c (some 3) suf
    have hpre := countPrefix_prefix c (some 3) suf
    split at h
    · cases h; exact ⟨by omega, hle, hpre⟩
    · split at h
      · cases h; exact ⟨by omega, hle, hpre⟩
      · cases h

/-- the attempt of `nsScan` at one position -/
def nsOk (prev : Option Char) : Bool := match prev with | none => true | some p => isSpace p

def nsHere (prev : Option Char) (suf : Str) (i : Nat) : Option (Nat × Nat) :=
  if nsOk prev then
    match nsRun '*' suf with
    | some k => some (i, i + k)
    | none => (nsRun '_' suf).map (fun k => (i, i + k))
  else none

theorem nsScan_cons (prev : Option Char) (ch : Char) (r : Str) (i : Nat) :
    nsScan prev (ch :: r) i =
      match nsHere prev (ch :: r) i with
      | some x => some x
      | none => nsScan (some ch) r (i + 1) := rfl

theorem nsHere_spec {prev : Option Char} {suf : Str} {i s e : Nat} (h : nsHere prev suf i = some (s, e)) :
    s = i ∧ ∃ k c, e = i + k ∧ (c = '*' ∨ c = '_') ∧ nsRun c suf = some k := by
  unfold nsHere at h
  by_cases hok : nsOk prev = true
  · rw [if_pos hok] at h
    cases h1 : nsRun '*' suf with
    | some k =>
      simp only [h1, Option.some.injEq, Prod.mk.injEq] at h
      exact ⟨h.1.symm, k, '*', h.2.symm, .inl rfl, h1⟩
    | none =>
      simp only [h1] at h
      cases h2 : nsRun '_' suf with
      | none => simp [h2] at h
      | some k =>
        simp only [h2, Option.map_some, Option.some.injEq, Prod.mk.injEq] at h
        exact ⟨h.1.symm, k, '_', h.2.symm, .inr rfl, h2⟩
  · rw [if_neg hok] at h; cases h

theorem nsScan_spec : ∀ (suf : Str) (prev : Option Char) (i s e : Nat), nsScan prev suf i = some (s, e) →
    ∃ pre M post, suf = pre ++ M ++ post ∧ s = i + pre.length ∧ e = s + M.length ∧ M ≠ [] ∧
      ∀ x ∈ M, x = '*' ∨ x = '_' := by
  intro suf
  induction suf with
  | nil => intro prev i s e h; simp [nsScan] at h
  | cons ch r ih =>
    intro prev i s e h
    rw [nsScan_cons] at h
    cases hh : nsHere prev (ch :: r) i with
    | some x =>
      simp only [hh, Option.some.injEq] at h
      subst h
      obtain ⟨rfl, k, c, rfl, hc, hk⟩ := nsHere_spec hh
      obtain ⟨k1, k2, k3⟩ := nsRun_spec hk
      refine ⟨[], (ch :: r).take k, (ch :: r).drop k, by simp, by simp, ?_, ?_, ?_⟩
      · simp only [List.length_take]; omega
      · intro hnil
        have := congrArg List.length hnil
        simp only [List.length_take, List.length_nil] at this
        omega
      · intro x hx
        rw [k3] at hx
        rw [(List.mem_replicate.1 hx).2]; exact hc
    | none =>
      simp only [hh] at h
      obtain ⟨pre, M, post, h1, h2, h3, h4, h5⟩ := ih _ _ _ _ h
      exact ⟨ch :: pre, M, post, by simp [h1], by simp [h2]; omega, h3, h4, h5⟩

theorem not_strong_stash_ok {esc : Bool} {k : Nat} {data : Str} {si s e : Nat} (hw : WF esc k data)
    (hd : DomS esc data) (h : nsFind data si = some (s, e)) :
    FoundOK esc k data ⟨.str (slice data s e), s, e⟩ := by
  unfold nsFind at h
  split at h
  · cases h
  · obtain ⟨pre, M, post, h1, rfl, rfl, h4, h5⟩ := nsScan_spec _ _ _ _ _ h
    have hin : ∀ x ∈ M, inner x = false ∧ x ≠ ETX ∧ x ≠ STX := by
      intro x hx
      rcases h5 x hx with rfl | rfl <;> decide
    have hsp := splice_of_span hw h1 h4
      (by intro c hc; have := hin c (List.mem_of_mem_head? hc); exact ⟨this.1, this.2.1⟩)
      (by intro c hc; have := hin c (List.mem_of_mem_getLast? hc); exact ⟨this.1, this.2.2⟩)
    obtain ⟨-, -, hsl, hdata⟩ := span_of_suffix h1 h4
    refine ⟨hsp.1, ?_, ?_⟩
    · show WF esc 0 (slice data (si + pre.length) (si + pre.length + M.length))
      rw [hsl]
      exact WF.of_noCtl (noCtl_iff.2 fun x hx => ⟨(hin x hx).2.2, (hin x hx).2.1⟩)
    · show DomS esc (slice data (si + pre.length) (si + pre.length + M.length))
      rw [hsl]
      exact hd.subset (fun c hc => by rw [hdata]; simp [hc])

/-! ### pattern 1: backslash escape -/

theorem escScan_spec : ∀ (suf : Str) (i j : Nat) (ch : Char), escScan suf i = some (j, ch) →
    ∃ pre post, suf = pre ++ ['\\', ch] ++ post ∧ j = i + pre.length := by
  intro suf
  induction suf with
  | nil => intro i j ch h; simp [escScan] at h
  | cons c r ih =>
    intro i j ch h
    cases r with
    | nil => simp [escScan] at h
    | cons d r' =>
      simp only [escScan] at h
      split at h
      · rename_i hc
        simp only [Option.some.injEq, Prod.mk.injEq] at h
        obtain ⟨rfl, rfl⟩ := h
        exact ⟨[], r', by simp [hc], by simp⟩
      · obtain ⟨pre, post, h1, h2⟩ := ih _ _ _ h
        exact ⟨c :: pre, post, by simp [h1], by simp [h2]; omega⟩

theorem escScan_none : ∀ (suf : Str) (i : Nat), '\\' ∉ suf → escScan suf i = none := by
  intro suf
  induction suf with
  | nil => intro i _; rfl
  | cons c r ih =>
    intro i h
    cases r with
    | nil => rfl
    | cons d r' =>
      have h1 : c ≠ '\\' := fun e => h (by simp [e])
      simp only [escScan, h1, if_false]
      exact ih _ (fun hm => h (List.mem_cons_of_mem _ hm))

theorem escOK_default : EscOK Generated.escapedChars := by
  intro c hc
  simp only [Generated.escapedChars, List.mem_cons, List.not_mem_nil, or_false] at hc
  rcases hc with rfl | rfl | rfl | rfl | rfl | rfl | rfl | rfl | rfl | rfl | rfl | rfl | rfl | rfl | rfl | rfl <;> decide

theorem okCode_toNat {c : Char} (h1 : c ≠ STX) (h2 : c ≠ ETX) : okCode c.toNat := by
  refine ⟨?_, ?_, ?_⟩
  · have := c.valid
    rcases this with h | h
    · have : c.toNat < 55296 := h
      omega
    · exact h.2
  · intro h; apply h1; rw [← Char.ofNat_toNat c, h]; rfl
  · intro h; apply h2; rw [← Char.ofNat_toNat c, h]; rfl

theorem escape_stash_ok {cfg : Cfg} (hcfg : EscOK cfg.esc) {k : Nat} {data : Str} {si j : Nat} {ch : Char}
    (hw : WF true k data) (h : escScan (data.drop si) si = some (j, ch)) :
    FoundOK true k data ⟨if cfg.esc.contains ch then .str (STX :: natToDec ch.toNat ++ [ETX]) else .none, j, j + 2⟩ := by
  obtain ⟨pre, post, h1, rfl⟩ := escScan_spec _ _ _ _ h
  unfold FoundOK
  simp only
  split
  · rename_i hn
    split at hn
    · cases hn
    · trivial
  · rename_i s hn
    split at hn
    · rename_i hmem
      simp only [PNode.str.injEq] at hn
      subst hn
      have hch := hcfg ch (by simpa using hmem)
      have hsp := splice_of_span (M := ['\\', ch]) hw h1 (by simp)
        (by intro c hc; simp at hc; subst hc; decide)
        (by intro c hc; simp at hc; subst hc; exact ⟨hch.2.2, hch.1⟩)
      have e : ((si + pre.length : Nat) : Int) + 2 = ((si + pre.length + ['\\', ch].length : Nat) : Int) := by simp
      refine ⟨by rw [e]; exact hsp.1, ?_, ?_⟩
      · exact wf_escToken (okCode_toNat hch.1 hch.2.1)
      · exact domS_escToken true _
    · cases hn
  · rename_i n hn
    split at hn <;> cases hn


/-! ### white space and tokens -/

theorem inner_cases {c : Char} (h : inner c = true) :
    c ∈ ['0', '1', '2', '3', '4', '5', '6', '7', '8', '9', 'k', 'l', 'z', 'w', 'x', 'h', ':'] := by
  simp only [inner, Bool.or_eq_true] at h
  rcases h with h | h
  · have h1 : '0' ≤ c ∧ c ≤ '9' := by simpa [isAsciiDigit] using h
    have h2 : 48 ≤ c.toNat ∧ c.toNat ≤ 57 := ⟨h1.1, h1.2⟩
    have hc : c = Char.ofNat c.toNat := (Char.ofNat_toNat c).symm
    generalize c.toNat = n at h2 hc
    subst hc
    have : n = 48 ∨ n = 49 ∨ n = 50 ∨ n = 51 ∨ n = 52 ∨ n = 53 ∨ n = 54 ∨ n = 55 ∨ n = 56 ∨ n = 57 := by omega
    rcases this with rfl | rfl | rfl | rfl | rfl | rfl | rfl | rfl | rfl | rfl <;> decide
  · have hm : c ∈ ['k', 'l', 'z', 'w', 'x', 'h', ':'] := by simpa using h
    simp only [List.mem_cons, List.not_mem_nil, or_false] at hm ⊢
    rcases hm with rfl | rfl | rfl | rfl | rfl | rfl | rfl <;> simp

theorem space_not_inner {c : Char} (h : isSpace c = true) : inner c = false ∧ c ≠ STX ∧ c ≠ ETX := by
  refine ⟨?_, ?_, ?_⟩
  · cases hi : inner c with
    | false => rfl
    | true =>
      have := inner_cases hi
      simp only [List.mem_cons, List.not_mem_nil, or_false] at this
      rcases this with rfl | rfl | rfl | rfl | rfl | rfl | rfl | rfl | rfl | rfl | rfl | rfl | rfl | rfl | rfl | rfl | rfl <;>
        exact absurd h (by decide)
  · rintro rfl; exact absurd h (by decide)
  · rintro rfl; exact absurd h (by decide)

theorem WF.lstrip {esc : Bool} {k : Nat} {s : Str} (h : WF esc k s) : WF esc k (lstripP isSpace s) := by
  obtain ⟨w, hw, hall⟩ := lstripP_decomp isSpace s
  rw [hw] at h
  refine (h.split ?_).2
  right
  intro c hc
  have := space_not_inner (List.all_eq_true.1 hall c (List.mem_of_mem_getLast? hc))
  exact ⟨this.1, this.2.1⟩

theorem WF.rstrip {esc : Bool} {k : Nat} {s : Str} (h : WF esc k s) : WF esc k (rstripP isSpace s) := by
  obtain ⟨w, hw, hall⟩ := rstripP_decomp isSpace s
  have h' := h
  rw [hw] at h'
  refine (h'.split ?_).1
  left
  intro c hc
  have := space_not_inner (List.all_eq_true.1 hall c (List.mem_of_mem_head? hc))
  exact ⟨this.1, this.2.2⟩

theorem WF.strip {esc : Bool} {k : Nat} {s : Str} (h : WF esc k s) : WF esc k (strip s) := h.lstrip.rstrip

/-! ### pattern 0: backtick -/

theorem btClose_spec (m : Nat) : ∀ (r : Str) (prev : Char) (L L' : Nat), btClose m prev r L = some L' →
    L ≤ L' ∧ L' - L ≤ r.length ∧ countPrefix '`' none (r.drop (L' - L)) = m := by
  intro r
  induction r with
  | nil =>
    intro prev L L' h
    unfold btClose at h
    split at h
    · rename_i hc
      simp only [Option.some.injEq] at h; subst h
      simp only [Bool.and_eq_true, beq_iff_eq] at hc
      exact ⟨Nat.le_refl _, by simp, by simpa using hc.2⟩
    · cases h
  | cons c r ih =>
    intro prev L L' h
    unfold btClose at h
    split at h
    · rename_i hc
      simp only [Option.some.injEq] at h; subst h
      simp only [Bool.and_eq_true, beq_iff_eq] at hc
      exact ⟨Nat.le_refl _, by simp, by simpa using hc.2⟩
    · obtain ⟨h1, h2, h3⟩ := ih c (L + 1) L' h
      refine ⟨by omega, by simp only [List.length_cons]; omega, ?_⟩
      have : L' - L = (L' - (L + 1)) + 1 := by omega
      rw [this, List.drop_succ_cons]; exact h3

theorem btCode_spec (suf : Str) : ∀ (t m L : Nat), btCode suf t = some (m, L) →
    1 ≤ m ∧ m ≤ t ∧ ∃ c r, suf.drop m = c :: r ∧ btClose m c r 1 = some L := by
  intro t
  induction t with
  | zero => intro m L h; simp [btCode] at h
  | succ t ih =>
    intro m L h
    unfold btCode at h
    split at h
    · rename_i c r hd
      split at h
      · rename_i L0 hcl
        simp only [Option.some.injEq, Prod.mk.injEq] at h
        obtain ⟨rfl, rfl⟩ := h
        exact ⟨by omega, Nat.le_refl _, c, r, hd, hcl⟩
      · obtain ⟨h1, h2, h3⟩ := ih m L h
        exact ⟨h1, by omega, h3⟩
    · obtain ⟨h1, h2, h3⟩ := ih m L h
      exact ⟨h1, by omega, h3⟩

/-- a code span: opening run, content, closing run -/
theorem btCode_decomp {suf : Str} {m L : Nat} (h : btCode suf (countPrefix '`' none suf) = some (m, L)) :
    ∃ G rest, suf = List.replicate m '`' ++ G ++ List.replicate m '`' ++ rest ∧ 1 ≤ m ∧ G.length = L ∧ 1 ≤ L ∧
      (suf.drop m).take L = G := by
  obtain ⟨h1, h2, c, r, hd, hcl⟩ := btCode_spec suf _ m L h
  obtain ⟨k1, k2, k3⟩ := btClose_spec m r c 1 L hcl
  have hpre : suf.take m = List.replicate m '`' := by
    have := countPrefix_prefix '`' none suf
    have e : suf.take m = (suf.take (countPrefix '`' none suf)).take m := by
      rw [List.take_take, Nat.min_eq_left h2]
    rw [e, this, List.take_replicate, Nat.min_eq_left h2]
  have hX : suf = List.replicate m '`' ++ (c :: r) := by rw [← hpre, ← hd, List.take_append_drop]
  have hLlen : L ≤ (c :: r).length := by simp only [List.length_cons]; omega
  have hdropL : (c :: r).drop L = r.drop (L - 1) := by
    have : L = (L - 1) + 1 := by omega
    rw [this, List.drop_succ_cons]; simp
  have hclose : (c :: r).drop L = List.replicate m '`' ++ ((c :: r).drop L).drop m := by
    have := countPrefix_prefix '`' none ((c :: r).drop L)
    rw [hdropL, k3] at this
    rw [hdropL]
    conv => lhs; rw [← List.take_append_drop m (r.drop (L - 1)), this]
  refine ⟨(c :: r).take L, ((c :: r).drop L).drop m, ?_, h1, by simp only [List.length_take, List.length_cons]; omega, k1, by rw [hd]⟩
  rw [List.append_assoc, List.append_assoc, ← hclose, List.take_append_drop]
  exact hX

theorem btAt_code {prev : Option Char} {suf : Str} {i : Nat} {r : BtMatch} (hbs : '\\' ∉ suf)
    (h : btAt prev suf i = some r) :
    ∃ m L, btCode suf (countPrefix '`' none suf) = some (m, L) ∧
      r = ⟨.code, i, i + m + L + m, (suf.drop m).take L⟩ := by
  unfold btAt at h
  split at h
  · cases h
  · simp only at h
    have hk : countPrefix '\\' none suf = 0 := by
      cases suf with
      | nil => rfl
      | cons c s =>
        have : c ≠ '\\' := fun e => hbs (by simp [e])
        simp [countPrefix, this]
    simp only [hk] at h
    have : ¬ ((decide (0 ≥ 2) && (0 % 2 == 0) && (suf[0]? == some '`')) = true) := by simp
    rw [if_neg this] at h
    split at h
    · split at h
      · rename_i m L hc
        simp only [Option.some.injEq] at h
        exact ⟨m, L, hc, h.symm⟩
      · cases h
    · cases h

theorem btAt_none {prev : Option Char} {suf : Str} {i : Nat} (h : '`' ∉ suf) : btAt prev suf i = none := by
  unfold btAt
  split
  · rfl
  · simp only
    have h1 : ¬ ((decide (countPrefix '\\' none suf ≥ 2) && (countPrefix '\\' none suf % 2 == 0) &&
        (suf[countPrefix '\\' none suf]? == some '`')) = true) := by
      intro hc
      simp only [Bool.and_eq_true, beq_iff_eq] at hc
      exact h (List.mem_of_getElem? hc.2)
    rw [if_neg h1]
    cases suf with
    | nil => rfl
    | cons c s =>
      have : c ≠ '`' := fun e => h (by simp [e])
      split
      · rename_i heq; cases heq; exact absurd rfl this
      · rfl

theorem btScan_none : ∀ (suf : Str) (prev : Option Char) (i : Nat), '`' ∉ suf → btScan prev suf i = none := by
  intro suf
  induction suf with
  | nil => intro prev i h; unfold btScan; rw [btAt_none h]
  | cons c s ih =>
    intro prev i h
    unfold btScan
    rw [btAt_none h]
    exact ih _ _ (fun hm => h (List.mem_cons_of_mem _ hm))

theorem btFind_none {data : Str} (h : '`' ∉ data) (si : Nat) : btFind data si = none := by
  unfold btFind
  split
  · rfl
  · exact btScan_none _ _ _ (fun hm => h (List.mem_of_mem_drop hm))

theorem btScan_spec : ∀ (suf : Str) (prev : Option Char) (i : Nat) (r : BtMatch), '\\' ∉ suf →
    btScan prev suf i = some r →
    ∃ pre m G rest, suf = pre ++ (List.replicate m '`' ++ G ++ List.replicate m '`') ++ rest ∧ 1 ≤ m ∧ G ≠ [] ∧
      r = ⟨.code, i + pre.length, i + pre.length + m + G.length + m, G⟩ := by
  intro suf
  induction suf with
  | nil =>
    intro prev i r hbs h
    unfold btScan at h
    cases ha : btAt prev [] i with
    | none => simp [ha] at h
    | some x =>
      obtain ⟨m, L, hc, -⟩ := btAt_code hbs ha
      simp [btCode] at hc
  | cons c s ih =>
    intro prev i r hbs h
    unfold btScan at h
    cases ha : btAt prev (c :: s) i with
    | none =>
      simp only [ha] at h
      obtain ⟨pre, m, G, rest, h1, h2, h3, h4⟩ := ih (some c) (i + 1) r (fun hm => hbs (List.mem_cons_of_mem _ hm)) h
      refine ⟨c :: pre, m, G, rest, by simp [h1], h2, h3, ?_⟩
      rw [h4]; simp only [List.length_cons]; congr 1 <;> omega
    | some x =>
      simp only [ha, Option.some.injEq] at h
      subst h
      obtain ⟨m, L, hc, hx⟩ := btAt_code hbs ha
      obtain ⟨G, rest, e1, e2, e3, e4, e5⟩ := btCode_decomp hc
      refine ⟨[], m, G, rest, by simpa using e1, e2, ?_, ?_⟩
      · intro hG; rw [hG] at e3; simp at e3; omega
      · rw [hx, e5, e3]; simp


/-! ### pattern 0: the stashed `code` element -/

theorem contains_single_false {c : Char} {s : Str} (h : c ∉ s) : contains s [c] = false := by
  rw [contains_eq_false_iff]
  intro pre post e
  exact h (by rw [e]; simp)

theorem codeEscape_id {s : Str} (h1 : '&' ∉ s) (h2 : '<' ∉ s) (h3 : '>' ∉ s) : Inline.codeEscape s = s := by
  unfold Inline.codeEscape
  rw [replace_id_of_not_contains _ (contains_single_false h1), replace_id_of_not_contains _ (contains_single_false h2),
    replace_id_of_not_contains _ (contains_single_false h3)]

theorem dom_false_no_lt_gt {s : Str} (h : DomS false s) : '<' ∉ s ∧ '>' ∉ s := by
  constructor <;> intro hm <;> have := h _ hm <;> simp [domChar] at this

theorem backtick_stash_ok {k : Nat} {data : Str} {si : Nat} {m : BtMatch} (hw : WF false k data)
    (hd : DomS false data) (h : btFind data si = some m) :
    m.kind = .code ∧
    FoundOK false k data
      ⟨.el { mkEl "code" with text := some (Inline.codeEscape (strip m.group)), textAtomic := true }, m.start, m.stop⟩ := by
  unfold btFind at h
  split at h
  · cases h
  · have hbs : '\\' ∉ data.drop si := fun hm => dom_no_backslash hd (List.mem_of_mem_drop hm)
    obtain ⟨pre, n, G, rest, h1, h2, h3, rfl⟩ := btScan_spec _ _ _ _ hbs h
    refine ⟨rfl, ?_⟩
    have hMne : List.replicate n '`' ++ G ++ List.replicate n '`' ≠ [] := by
      intro e
      have := congrArg List.length e
      simp at this; omega
    have hrep : ∃ t, List.replicate n '`' = '`' :: t := ⟨List.replicate (n - 1) '`', by
      have : n = (n - 1) + 1 := by omega
      conv => lhs; rw [this, List.replicate_succ]⟩
    have hrep' : ∃ t, List.replicate n '`' = t ++ ['`'] := ⟨List.replicate (n - 1) '`', by
      have : n = (n - 1) + 1 := by omega
      conv => lhs; rw [this, List.replicate_succ']⟩
    obtain ⟨t1, ht1⟩ := hrep
    obtain ⟨t2, ht2⟩ := hrep'
    have hhead : ∀ c, (List.replicate n '`' ++ G ++ List.replicate n '`').head? = some c → inner c = false ∧ c ≠ ETX := by
      intro c hc
      rw [ht1] at hc
      simp at hc; subst hc; decide
    have hlast : ∀ c, (List.replicate n '`' ++ G ++ List.replicate n '`').getLast? = some c →
        inner c = false ∧ c ≠ STX := by
      intro c hc
      rw [ht2, ← List.append_assoc, List.getLast?_concat] at hc
      simp at hc; subst hc; decide
    obtain ⟨hsp, hwM⟩ := splice_of_span hw h1 hMne hhead hlast
    -- the content is delimited by backticks
    have hwG : WF false k G := by
      rw [List.append_assoc] at hwM
      have b1 : Bnd (List.replicate n '`') (G ++ List.replicate n '`') := by
        right; intro c hc
        rw [ht2, List.getLast?_concat] at hc
        simp at hc; subst hc; decide
      have w2 := (hwM.split b1).2
      have b2 : Bnd G (List.replicate n '`') := by
        left; intro c hc
        rw [ht1] at hc
        simp at hc; subst hc; decide
      exact (w2.split b2).1
    have hGsub : ∀ c ∈ G, c ∈ data := by
      intro c hc
      have : c ∈ data.drop si := by rw [h1]; simp [hc]
      exact List.mem_of_mem_drop this
    have hdG : DomS false G := hd.subset hGsub
    have hdS : DomS false (strip G) := hdG.subset (fun c hc => (strip_infix G).subset hc)
    have hce : Inline.codeEscape (strip G) = strip G :=
      codeEscape_id (dom_no_amp hdS) (dom_false_no_lt_gt hdS).1 (dom_false_no_lt_gt hdS).2
    have elen : si + pre.length + n + G.length + n
        = si + pre.length + (List.replicate n '`' ++ G ++ List.replicate n '`').length := by
      simp; omega
    refine ⟨?_, ⟨?_, ?_, ?_, strW_none false k, ?_⟩, by simp [mkEl]⟩
    · show Splice false k data (si + pre.length) ((si + pre.length + n + G.length + n : Nat) : Int)
      rw [elen]; exact hsp
    · show NoCtl "code".toList; decide
    · intro kv hkv; simp [mkEl] at hkv
    · show StrW false k (some (Inline.codeEscape (strip G)))
      rw [hce]; exact ⟨hwG.strip, hdS⟩
    · intro _; rfl


end MdVerif.NoCtl
