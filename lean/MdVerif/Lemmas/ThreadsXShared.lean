/-
A finer thread model for `Props/C12X.lean` (section "operations that access module-level state"), and its lemmas.

`Model/Threads.lean` has two kinds of shared cells: read-only cells and write-once memo cells.  The module-level
state that a running conversion of Python-Markdown can touch has two more kinds, both in the standard library and
therefore invisible to the census of `Props/C11Census.lean`:

  * CACHE cells that are filled on demand with the value of a pure function of the key AND MAY BE EVICTED:
    `re`'s cache of compiled patterns (`re.compile` inside `AbbrTreeprocessor.run`, `re.sub(pattern_string, …)`
    calls) — a memo cell that can go back to "not computed";
  * SCRATCH cells that are written and never read: the attribute `match` of the one module-level
    `attr_list._scanner`, which `re.Scanner.scan` assigns before it calls an action (the actions of `attr_list`
    take the token text only).

`World` has the four kinds; `ActionW` is `Threads.Action` plus `dropCache` (evict) and `scribble` (write a scratch
cell with anything).  `runW_spec` is the analogue of `Threads.run_spec`: under every schedule a thread is where
it is after as many steps on its own (`localRunW`: reads of `ro`, computing `f k` itself, never looking at the cache or
at a scratch cell), `ro` does not change, the cache stays valid (`none` or `some (f k)`).

The thread program `progW acc convV rst`: the private store is the configuration of the thread's instance, the
state of the instance, the operations still to perform, and — new — the accesses to module-level state that the NEXT
operation makes before it computes (`acc c e`, any list of `Acc`: read a read-only cell, consult a cache cell, evict a
cache cell, scribble) together with the values read so far; the conversion `convV c vals st src` is ANY function of
the values read.  `localRunW_all`: run alone, such a thread computes `runV`/`outsV`: every operation with the
import-time values `vals ro f (acc c e)`.

Core Lean only.
-/
import MdVerif.Lemmas.ThreadsX

namespace MdVerif.ThreadsX
open MdVerif.Threads MdVerif.InstanceX

/-- the module-level state -/
structure World (K V : Type) where
  /-- read-only after import -/
  ro : K → V
  /-- filled on demand with `f k`, possibly evicted (`none` = not there) -/
  cache : K → Option V
  /-- written, never read -/
  scratch : K → V

/-- one step of a thread program -/
inductive ActionW (K V Out σ : Type) where
  | readRo (k : K) (cont : V → σ)
  /-- atomic read-or-compute-and-store of the cache cell `k` -/
  | getCache (k : K) (cont : V → σ)
  /-- evict the cache cell `k` -/
  | dropCache (k : K) (next : σ)
  /-- store `v` into the scratch cell `k` -/
  | scribble (k : K) (v : V) (next : σ)
  | emit (o : Out) (next : σ)
  | tau (next : σ)
  | done

structure SysW (K V σ Out : Type) where
  threads : List (Thread σ Out)
  world : World K V

section Model
variable {K V Out σ : Type} [DecidableEq K]
variable (prog : σ → ActionW K V Out σ) (f : K → V)

def stepThreadW (t : Thread σ Out) (w : World K V) : Thread σ Out × World K V :=
  match prog t.st with
  | .readRo k c => ({ t with st := c (w.ro k) }, w)
  | .getCache k c =>
    match w.cache k with
    | some v => ({ t with st := c v }, w)
    | none => ({ t with st := c (f k) }, { w with cache := setCell w.cache k (some (f k)) })
  | .dropCache k n => ({ t with st := n }, { w with cache := setCell w.cache k none })
  | .scribble k v n => ({ t with st := n }, { w with scratch := setCell w.scratch k v })
  | .emit o n => (⟨n, t.trace ++ [o]⟩, w)
  | .tau n => ({ t with st := n }, w)
  | .done => (t, w)

def stepSysW (i : Nat) (sys : SysW K V σ Out) : SysW K V σ Out :=
  match sys.threads[i]? with
  | none => sys
  | some t => ⟨sys.threads.set i (stepThreadW prog f t sys.world).1, (stepThreadW prog f t sys.world).2⟩

/-- execute a schedule, left to right -/
def runW : List Nat → SysW K V σ Out → SysW K V σ Out
  | [], sys => sys
  | i :: s, sys => runW s (stepSysW prog f i sys)

/-- the cache cells hold nothing but `none` or `some (f k)` -/
def CacheValid (w : World K V) : Prop := ∀ k v, w.cache k = some v → v = f k

/-- one step of a thread that is given `ro`, computes `f k` itself and never looks at the world -/
def localStepW (ro : K → V) (t : Thread σ Out) : Thread σ Out :=
  match prog t.st with
  | .readRo k c => { t with st := c (ro k) }
  | .getCache k c => { t with st := c (f k) }
  | .dropCache _ n => { t with st := n }
  | .scribble _ _ n => { t with st := n }
  | .emit o n => ⟨n, t.trace ++ [o]⟩
  | .tau n => { t with st := n }
  | .done => t

def localRunW (ro : K → V) : Nat → Thread σ Out → Thread σ Out
  | 0, t => t
  | n + 1, t => localRunW ro n (localStepW prog f ro t)

def isDoneW (t : Thread σ Out) : Bool :=
  match prog t.st with
  | .done => true
  | _ => false

theorem cacheValid_set {w : World K V} (hv : CacheValid f w) (k : K) :
    CacheValid f { w with cache := setCell w.cache k (some (f k)) } := by
  intro k' v h
  simp only [setCell] at h
  split at h
  · subst_vars; exact (Option.some.inj h).symm
  · exact hv k' v h

theorem cacheValid_drop {w : World K V} (hv : CacheValid f w) (k : K) :
    CacheValid f { w with cache := setCell w.cache k none } := by
  intro k' v h
  simp only [setCell] at h
  split at h
  · cases h
  · exact hv k' v h

/-- under a valid cache a step of a thread is the step of the thread on its own; `ro` does not change and the
    cache stays valid — whatever is evicted, whatever is scribbled -/
theorem stepThreadW_spec (t : Thread σ Out) (w : World K V) (hv : CacheValid f w) :
    (stepThreadW prog f t w).1 = localStepW prog f w.ro t ∧ (stepThreadW prog f t w).2.ro = w.ro ∧
      CacheValid f (stepThreadW prog f t w).2 := by
  cases h : prog t.st with
  | getCache k c =>
    cases hm : w.cache k with
    | none =>
      simp only [stepThreadW, localStepW, h, hm]
      exact ⟨trivial, trivial, cacheValid_set f hv k⟩
    | some v =>
      simp only [stepThreadW, localStepW, h, hm, hv k v hm]
      exact ⟨trivial, trivial, hv⟩
  | dropCache k n =>
    simp only [stepThreadW, localStepW, h]
    exact ⟨trivial, trivial, cacheValid_drop f hv k⟩
  | scribble k v n =>
    simp only [stepThreadW, localStepW, h]
    exact ⟨trivial, trivial, hv⟩
  | _ =>
    simp only [stepThreadW, localStepW, h]
    exact ⟨trivial, trivial, hv⟩

theorem stepSysW_spec (j : Nat) (sys : SysW K V σ Out) (hv : CacheValid f sys.world) :
    (stepSysW prog f j sys).world.ro = sys.world.ro ∧ CacheValid f (stepSysW prog f j sys).world ∧
      ∀ i, (stepSysW prog f j sys).threads[i]? =
        if j = i then (sys.threads[i]?).map (localStepW prog f sys.world.ro) else sys.threads[i]? := by
  unfold stepSysW
  cases h : sys.threads[j]? with
  | none =>
    refine ⟨rfl, hv, fun i => ?_⟩
    by_cases hji : j = i
    · subst hji; simp [h]
    · simp [hji]
  | some t =>
    have hs := stepThreadW_spec prog f t sys.world hv
    refine ⟨hs.2.1, hs.2.2, fun i => ?_⟩
    simp only [List.getElem?_set]
    by_cases hji : j = i
    · subst hji
      obtain ⟨hlt, rfl⟩ := List.getElem?_eq_some_iff.mp h
      simp [hlt, hs.1]
    · simp [hji]

/-- **the key lemma**: after any schedule `s`, thread `i` is where it is after `s.count i` steps on its own -/
theorem runW_spec (s : List Nat) (sys : SysW K V σ Out) (hv : CacheValid f sys.world) :
    (runW prog f s sys).world.ro = sys.world.ro ∧ CacheValid f (runW prog f s sys).world ∧
      ∀ i, (runW prog f s sys).threads[i]? =
        (sys.threads[i]?).map (localRunW prog f sys.world.ro (s.count i)) := by
  induction s generalizing sys with
  | nil => exact ⟨rfl, hv, fun i => by simp [runW, localRunW]⟩
  | cons j s ih =>
    have h1 := stepSysW_spec prog f j sys hv
    have h2 := ih (stepSysW prog f j sys) h1.2.1
    simp only [runW]
    refine ⟨h2.1.trans h1.1, h2.2.1, fun i => ?_⟩
    rw [h2.2.2 i, h1.2.2 i, h1.1, List.count_cons]
    by_cases hji : j = i
    · subst hji; simp [localRunW, Function.comp_def]
    · simp [hji]

omit [DecidableEq K] in
theorem localStepW_of_done (ro : K → V) (t : Thread σ Out) (h : isDoneW prog t = true) :
    localStepW prog f ro t = t := by
  unfold isDoneW at h; unfold localStepW
  cases h' : prog t.st <;> simp_all

omit [DecidableEq K] in
theorem localRunW_of_done (ro : K → V) (n : Nat) (t : Thread σ Out) (h : isDoneW prog t = true) :
    localRunW prog f ro n t = t := by
  induction n with
  | zero => rfl
  | succ n ih => simp only [localRunW, localStepW_of_done prog f ro t h, ih]

omit [DecidableEq K] in
theorem localRunW_add (ro : K → V) (a b : Nat) (t : Thread σ Out) :
    localRunW prog f ro (a + b) t = localRunW prog f ro b (localRunW prog f ro a t) := by
  induction a generalizing t with
  | zero => simp [localRunW]
  | succ a ih => rw [Nat.add_right_comm]; simp only [localRunW, ih]

omit [DecidableEq K] in
theorem localRunW_done_unique (ro : K → V) (a b : Nat) (t : Thread σ Out)
    (ha : isDoneW prog (localRunW prog f ro a t) = true) (hb : isDoneW prog (localRunW prog f ro b t) = true) :
    localRunW prog f ro a t = localRunW prog f ro b t := by
  rcases Nat.le_total a b with h | h
  · obtain ⟨c, rfl⟩ := Nat.exists_eq_add_of_le h
    rw [localRunW_add, localRunW_of_done prog f ro c _ ha]
  · obtain ⟨c, rfl⟩ := Nat.exists_eq_add_of_le h
    rw [localRunW_add, localRunW_of_done prog f ro c _ hb]

end Model

/-! ### the program of a thread that owns an instance and accesses module-level state before every operation -/

/-- an access to module-level state -/
inductive Acc (K V : Type) where
  /-- read the read-only cell `k` -/
  | ro (k : K)
  /-- consult the cache cell `k` (compute and store when it is not there) -/
  | cache (k : K)
  /-- evict the cache cell `k` -/
  | drop (k : K)
  /-- write `v` into the scratch cell `k` -/
  | scribble (k : K) (v : V)

/-- the private store: as `TSt`, plus the accesses the next operation has still to make and the values read so far -/
structure TStW (C S K V : Type) where
  c : C
  st : S
  ops : List Ev
  pend : List (Acc K V)
  got : List V

section Prog
variable {C S O K V : Type}
-- `acc c e`: the accesses of one operation, in order;  `convV`: `convert`, given the values read
variable (acc : C → Ev → List (Acc K V))
variable (convV : C → List V → S → Str → O × S) (rst : S → S)

/-- the accesses of the next operation -/
def accOf (c : C) : List Ev → List (Acc K V)
  | [] => []
  | e :: _ => acc c e

/-- at an operation boundary: nothing read yet -/
def boundary (c : C) (st : S) (ops : List Ev) : TStW C S K V := ⟨c, st, ops, accOf acc c ops, []⟩

def progW (t : TStW C S K V) : ActionW K V O (TStW C S K V) :=
  match t.ops with
  | [] => .done
  | e :: r =>
    match t.pend with
    | .ro k :: p => .readRo k (fun v => { t with pend := p, got := t.got ++ [v] })
    | .cache k :: p => .getCache k (fun v => { t with pend := p, got := t.got ++ [v] })
    | .drop k :: p => .dropCache k { t with pend := p }
    | .scribble k v :: p => .scribble k v { t with pend := p }
    | [] =>
      match e with
      | .convert s => .emit (convV t.c t.got t.st s).1 (boundary acc t.c (convV t.c t.got t.st s).2 r)
      | .reset => .tau (boundary acc t.c (rst t.st) r)

/-- the values a list of accesses yields when the cells hold `ro` and `f` -/
def vals (ro : K → V) (f : K → V) : List (Acc K V) → List V
  | [] => []
  | .ro k :: p => ro k :: vals ro f p
  | .cache k :: p => f k :: vals ro f p
  | .drop _ :: p => vals ro f p
  | .scribble _ _ :: p => vals ro f p

variable (ro : K → V) (f : K → V)

/-- the sequential semantics: every operation with the values `vals ro f (acc c e)` -/
def runV (c : C) (st : S) : List Ev → S
  | [] => st
  | .convert s :: h => runV c (convV c (vals ro f (acc c (.convert s))) st s).2 h
  | .reset :: h => runV c (rst st) h

def outsV (c : C) (st : S) : List Ev → List O
  | [] => []
  | .convert s :: h =>
    (convV c (vals ro f (acc c (.convert s))) st s).1 :: outsV c (convV c (vals ro f (acc c (.convert s))) st s).2 h
  | .reset :: h => outsV c (rst st) h

/-- the number of steps the operations take: one per access, one for the operation itself -/
def stepsOf (c : C) : List Ev → Nat
  | [] => 0
  | e :: h => (acc c e).length + 1 + stepsOf c h

/-- in the middle of the accesses of an operation: after the remaining accesses and the operation itself -/
theorem localRunW_mid (c : C) (st : S) (e : Ev) (r : List Ev) (p : List (Acc K V)) (g : List V) (tr : List O) :
    localRunW (progW acc convV rst) f ro (p.length + 1) ⟨⟨c, st, e :: r, p, g⟩, tr⟩ =
      match e with
      | .convert s => ⟨boundary acc c (convV c (g ++ vals ro f p) st s).2 r, tr ++ [(convV c (g ++ vals ro f p) st s).1]⟩
      | .reset => ⟨boundary acc c (rst st) r, tr⟩ := by
  induction p generalizing g with
  | nil =>
    cases e with
    | convert s => simp [localRunW, localStepW, progW, vals]
    | reset => simp [localRunW, localStepW, progW]
  | cons a p ih =>
    cases a with
    | ro k =>
      have h : localStepW (progW acc convV rst) f ro ⟨⟨c, st, e :: r, .ro k :: p, g⟩, tr⟩ =
          ⟨⟨c, st, e :: r, p, g ++ [ro k]⟩, tr⟩ := rfl
      rw [List.length_cons, localRunW, h, ih]
      cases e <;> simp [vals]
    | cache k =>
      have h : localStepW (progW acc convV rst) f ro ⟨⟨c, st, e :: r, .cache k :: p, g⟩, tr⟩ =
          ⟨⟨c, st, e :: r, p, g ++ [f k]⟩, tr⟩ := rfl
      rw [List.length_cons, localRunW, h, ih]
      cases e <;> simp [vals]
    | drop k =>
      have h : localStepW (progW acc convV rst) f ro ⟨⟨c, st, e :: r, .drop k :: p, g⟩, tr⟩ =
          ⟨⟨c, st, e :: r, p, g⟩, tr⟩ := rfl
      rw [List.length_cons, localRunW, h, ih]
      cases e <;> simp [vals]
    | scribble k v =>
      have h : localStepW (progW acc convV rst) f ro ⟨⟨c, st, e :: r, .scribble k v :: p, g⟩, tr⟩ =
          ⟨⟨c, st, e :: r, p, g⟩, tr⟩ := rfl
      rw [List.length_cons, localRunW, h, ih]
      cases e <;> simp [vals]

/-- **run alone, the thread computes the sequential semantics** -/
theorem localRunW_all (c : C) (st : S) (ops : List Ev) (tr : List O) :
    localRunW (progW acc convV rst) f ro (stepsOf acc c ops) ⟨boundary acc c st ops, tr⟩ =
      ⟨boundary acc c (runV acc convV rst ro f c st ops) [], tr ++ outsV acc convV rst ro f c st ops⟩ := by
  induction ops generalizing st tr with
  | nil => simp [stepsOf, localRunW, runV, outsV]
  | cons e r ih =>
    rw [stepsOf, localRunW_add]
    have h := localRunW_mid acc convV rst ro f c st e r (acc c e) [] tr
    have hb : boundary acc c st (e :: r) = ⟨c, st, e :: r, acc c e, []⟩ := rfl
    rw [hb, h]
    cases e with
    | convert s =>
      simp only [List.nil_append]
      rw [ih]
      simp only [runV, outsV, List.append_assoc, List.singleton_append]
    | reset =>
      simp only []
      rw [ih]
      simp only [runV, outsV]

theorem isDoneW_progW (t : Thread (TStW C S K V) O) :
    isDoneW (progW acc convV rst) t = true ↔ t.st.ops = [] := by
  unfold isDoneW progW
  rcases h : t.st.ops with _ | ⟨e, r⟩
  · simp
  · rcases hp : t.st.pend with _ | ⟨a, p⟩
    · cases e <;> simp
    · cases a <;> simp

/-- the initial system: thread `i` at the first boundary of its operations -/
def initW (ts : List (TSt C S)) (w : World K V) : SysW K V (TStW C S K V) O :=
  ⟨ts.map (fun t => ⟨boundary acc t.c t.st t.ops, []⟩), w⟩

variable [DecidableEq K]

/-- **a thread that has been given enough steps, after every schedule**: the sequential semantics with the
    import-time values of the cells -/
theorem runW_initW (ts : List (TSt C S)) (w : World K V) (hv : CacheValid f w) (s : List Nat) (i : Nat)
    (t : TSt C S) (ht : ts[i]? = some t) (hfin : stepsOf acc t.c t.ops ≤ s.count i) :
    (runW (progW acc convV rst) f s (initW acc ts w)).threads[i]? =
      some ⟨boundary acc t.c (runV acc convV rst w.ro f t.c t.st t.ops) [],
        outsV acc convV rst w.ro f t.c t.st t.ops⟩ := by
  rw [(runW_spec (progW acc convV rst) f s (initW acc ts w) hv).2.2 i]
  simp only [initW, List.getElem?_map, ht, Option.map_some]
  obtain ⟨d, hd⟩ := Nat.exists_eq_add_of_le hfin
  rw [hd, localRunW_add, localRunW_all, localRunW_of_done]
  · simp
  · rw [isDoneW_progW]; rfl

/-- the same for a thread that HAS finished (however many steps the schedule gave it) -/
theorem runW_initW_done (ts : List (TSt C S)) (w : World K V) (hv : CacheValid f w) (s : List Nat) (i : Nat)
    (t : TSt C S) (ht : ts[i]? = some t) (u : Thread (TStW C S K V) O)
    (hu : (runW (progW acc convV rst) f s (initW acc ts w)).threads[i]? = some u)
    (hd : isDoneW (progW acc convV rst) u = true) :
    u = ⟨boundary acc t.c (runV acc convV rst w.ro f t.c t.st t.ops) [], outsV acc convV rst w.ro f t.c t.st t.ops⟩ := by
  rw [(runW_spec (progW acc convV rst) f s (initW acc ts w) hv).2.2 i] at hu
  simp only [initW, List.getElem?_map, ht, Option.map_some, Option.some.injEq] at hu
  have hall := localRunW_all acc convV rst w.ro f t.c t.st t.ops ([] : List O)
  have hd2 : isDoneW (progW acc convV rst)
      (localRunW (progW acc convV rst) f w.ro (stepsOf acc t.c t.ops) ⟨boundary acc t.c t.st t.ops, []⟩) = true := by
    rw [hall, isDoneW_progW]; rfl
  rw [← hu] at hd ⊢
  rw [localRunW_done_unique (progW acc convV rst) f w.ro _ _ _ hd hd2, hall]
  simp

end Prog

/-! ### the concrete machine: `convertS` is what a conversion computes WHEN the cells hold their import-time values -/

/-- `convert` of the concrete model, given the values `vs` read from module-level state: `convertS` was validated
    against the code with the import-time values `expect c` of the cells; for other values the model claims nothing
    (`ood`, and the state is no longer tracked) -/
def convXV {V : Type} [DecidableEq V] (expect : PipelineX.Exts × Pipeline.Cfg → Str → List V)
    (c : PipelineX.Exts × Pipeline.Cfg) (vs : List V) (st : MdSt) (s : Str) : Pipeline.Outcome × MdSt :=
  if vs = expect c s then convertS c.1 c.2 st s else (.ood, st.invalid)

section ConcreteW
variable {K V : Type} [DecidableEq V]
variable (acc : PipelineX.Exts × Pipeline.Cfg → Ev → List (Acc K V))
variable (expect : PipelineX.Exts × Pipeline.Cfg → Str → List V) (ro f : K → V)

/-- when the cells hold their import-time values, the sequential semantics is `InstanceX.runS` / `outcomes` -/
theorem runV_convXV (hexp : ∀ c s, vals ro f (acc c (.convert s)) = expect c s)
    (c : PipelineX.Exts × Pipeline.Cfg) (st : MdSt) (h : List Ev) :
    runV acc (convXV expect) resetS ro f c st h = runS c.1 c.2 st h := by
  induction h generalizing st with
  | nil => rfl
  | cons e h ih =>
    cases e with
    | convert s => simp only [runV, runS, applyEv, convXV, hexp, if_true]; exact ih _
    | reset => exact ih _

theorem outsV_convXV (hexp : ∀ c s, vals ro f (acc c (.convert s)) = expect c s)
    (c : PipelineX.Exts × Pipeline.Cfg) (st : MdSt) (h : List Ev) :
    outsV acc (convXV expect) resetS ro f c st h = outcomes c.1 c.2 st h := by
  induction h generalizing st with
  | nil => rfl
  | cons e h ih =>
    cases e with
    | convert s => simp only [outsV, outcomes, convXV, hexp, if_true]; exact congrArg _ (ih _)
    | reset => exact ih _

end ConcreteW

/-! ### the concrete system with module-level accesses -/

section SystemW
variable {K V : Type} [DecidableEq K] [DecidableEq V]

/-- the program of a thread of the concrete system whose operations access module-level state: `acc c e` are the
    accesses that the operation `e` of an instance configured `c` makes, `expect c src` the import-time values with
    which `convertS` was validated -/
def progXW (acc : PipelineX.Exts × Pipeline.Cfg → Ev → List (Acc K V))
    (expect : PipelineX.Exts × Pipeline.Cfg → Str → List V) :
    TStW (PipelineX.Exts × Pipeline.Cfg) MdSt K V →
      ActionW K V Pipeline.Outcome (TStW (PipelineX.Exts × Pipeline.Cfg) MdSt K V) :=
  progW acc (convXV expect) resetS

/-- the system after the schedule `s`: a step of thread `i` is ONE access to module-level state or, when the
    accesses of its next operation are done, the operation -/
def runXW (acc : PipelineX.Exts × Pipeline.Cfg → Ev → List (Acc K V))
    (expect : PipelineX.Exts × Pipeline.Cfg → Str → List V) (f : K → V) (s : List Nat) (ws : List Worker)
    (w : World K V) : SysW K V (TStW (PipelineX.Exts × Pipeline.Cfg) MdSt K V) Pipeline.Outcome :=
  runW (progXW acc expect) f s (initW acc (ws.map Worker.store) w)

end SystemW

end MdVerif.ThreadsX
