/-
Helper lemmas for `Props/C16RenderG.lean`, part 22: a definition list inside a block quote — the tree stages, the
serializer, and `convertX` end to end.

Core Lean only.
-/
import MdVerif.Lemmas.RenderGQuote

namespace MdVerif.RenderG
open Py Block BlockExt MdVerif.RenderX

theorem bl_bq : TreeProc.isBlockLevel TreeProc.defaultBlockLevel (.name "blockquote".toList) = true := by decide
theorem tn_bq : Tag.name "blockquote".toList ≠ Tag.name ['c', 'o', 'd', 'e'] ∧
    Tag.name "blockquote".toList ≠ Tag.name ['p', 'r', 'e'] := tag_ne "blockquote" (by decide) (by decide)
theorem et_bq : Ser.isEmptyTag "blockquote".toList = false ∧ Ser.isRawTextTag "blockquote".toList = false := by
  decide +kernel

/-- the items of one group without continuation -/
def qdItems (t0 : Str) (tr : List Str) (d : Str) (ds : List Str) : List DItem :=
  (t0 :: tr).map (.txt "dt") ++ (d :: ds).map (.txt "dd")

theorem dlNode_items (t0 : Str) (tr : List Str) (d : Str) (ds : List Str) :
    dlNode (t0 :: tr) (d :: ds) = dlOf ((qdItems t0 tr d ds).map DItem.node) := by
  simp only [dlNode, dlOf, qdItems, List.map_append, List.map_map]
  rfl

theorem qdItems_ok (t0 : Str) (tr : List Str) (d : Str) (ds : List Str) (ht : ∀ l ∈ t0 :: tr, PlainFacts l)
    (hd : ∀ l ∈ d :: ds, PlainFacts l) : ∀ it ∈ qdItems t0 tr d ds, it.ok := by
  intro it hit
  rcases List.mem_append.1 hit with h | h
  · obtain ⟨t, htm, rfl⟩ := List.mem_map.1 h
    exact ⟨Or.inl rfl, ht t htm⟩
  · obtain ⟨t, htm, rfl⟩ := List.mem_map.1 h
    exact ⟨Or.inr rfl, hd t htm⟩

def dlFinN (items : List DItem) : Node := ⟨.name "dl".toList, [], some ['\n'], false, items.map DItem.fin, some ['\n'], false⟩

def bqRootFin (items : List DItem) : Node :=
  ⟨.name "div".toList, [], some ['\n'], false,
    [⟨.name "blockquote".toList, [], some ['\n'], false, [dlFinN items], some ['\n'], false⟩], some ['\n'], false⟩

theorem prettify_bqG (it0 : DItem) (r : List DItem) (h : ∀ it ∈ it0 :: r, it.ok) :
    TreeProc.prettify (rootOf [bqOf [dlOf ((it0 :: r).map DItem.node)]]) = bqRootFin (it0 :: r) := by
  have hD := prettify_set (.name "dl".toList) [] false ((it0 :: r).map DItem.node) false bl_dl tn_dl.1 tn_dl.2
    (by simp only [firstBlock, List.map_cons, List.head?_cons, Option.map_some, Option.getD_some]
        exact item_block it0 (h it0 List.mem_cons_self))
  rw [prettifyKids_items _ h] at hD
  have hk1 := prettifyKids_one (.name "dl".toList) [] none false ((it0 :: r).map DItem.node) none false _ bl_dl hD
  have hB := prettify_set (.name "blockquote".toList) [] false [dlOf ((it0 :: r).map DItem.node)] false bl_bq tn_bq.1
    tn_bq.2 (by simp only [firstBlock, List.head?_cons, Option.map_some, Option.getD_some]; exact bl_dl)
  rw [show dlOf ((it0 :: r).map DItem.node) = ⟨.name "dl".toList, [], none, false, (it0 :: r).map DItem.node, none, false⟩
    from rfl, hk1] at hB
  have hk2 := prettifyKids_one (.name "blockquote".toList) [] none false
    [⟨.name "dl".toList, [], none, false, (it0 :: r).map DItem.node, none, false⟩] none false _ bl_bq hB
  have hR := prettify_set (.name "div".toList) [] false
    [⟨.name "blockquote".toList, [], none, false,
      [⟨.name "dl".toList, [], none, false, (it0 :: r).map DItem.node, none, false⟩], none, false⟩] false bl_divS tn_div.1
    tn_div.2 (by simp only [firstBlock, List.head?_cons, Option.map_some, Option.getD_some]; exact bl_bq)
  rw [hk2] at hR
  have hE : TreeProc.prettifyETree TreeProc.defaultBlockLevel (rootOf [bqOf [dlOf ((it0 :: r).map DItem.node)]]) =
      bqRootFin (it0 :: r) := hR
  have hnb : noBP (bqRootFin (it0 :: r)) = true := by
    simp only [bqRootFin, dlFinN, noBP, noBPKids, noBPKids_items _ h, Bool.and_true]; decide
  have h1 := mapTree_noBP TreeProc.brRule brRule_fix _ hnb
  have h2 := mapTree_noBP TreeProc.preRule preRule_fix _ hnb
  unfold TreeProc.prettify
  rw [hE, h1, h2]

theorem unescapeTree_bqG (items : List DItem) (h : ∀ it ∈ items, it.ok) :
    TreeProc.unescapeTree (bqRootFin items) = some (bqRootFin items) := by
  have t3 : TreeProc.unescapeText 0 ['\n'] = some ['\n'] := by decide
  have hD : TreeProc.unescapeTree (dlFinN items) = some (dlFinN items) :=
    unescape_el _ _ _ _ _ rfl (unescapeKids_items items h) (fun s hs => by cases hs; exact t3)
      (fun s hs => by cases hs; exact t3)
  have hB : TreeProc.unescapeTree (⟨.name "blockquote".toList, [], some ['\n'], false, [dlFinN items], some ['\n'], false⟩ : Node) =
      some ⟨.name "blockquote".toList, [], some ['\n'], false, [dlFinN items], some ['\n'], false⟩ :=
    unescape_el _ _ _ _ _ rfl (by simp only [TreeProc.unescapeKids, hD]) (fun s hs => by cases hs; exact t3)
      (fun s hs => by cases hs; exact t3)
  exact unescape_el _ _ _ _ _ rfl (by simp only [TreeProc.unescapeKids, hB]) (fun s hs => by cases hs; exact t3)
    (fun s hs => by cases hs; exact t3)

def lBQ1 : Str := "<blockquote>\n".toList
def lBQ2 : Str := "\n</blockquote>".toList

/-- the rendering: the list inside `blockquote` -/
def bqOutG (items : List DItem) : Str := lBQ1 ++ defOutG items ++ lBQ2

theorem serialize_bqG (fmt : Ser.Fmt) (items : List DItem) (h : ∀ it ∈ items, it.ok) :
    Ser.serialize fmt (bqRootFin items) = "<div>".toList ++ ('\n' :: bqOutG items ++ ['\n']) ++ "</div>\n".toList := by
  unfold bqRootFin dlFinN
  rw [CodeLaw.serialize_plain fmt _ _ _ _ _ _ et_div.1 et_div.2, ifText_some _ ec_nl]
  simp only [Ser.serializeList]
  rw [CodeLaw.serialize_plain fmt _ _ _ _ _ _ et_bq.1 et_bq.2, ifText_some _ ec_nl]
  simp only [Ser.serializeList]
  rw [CodeLaw.serialize_plain fmt _ _ _ _ _ _ et_dl.1 et_dl.2, ifText_some _ ec_nl, serializeList_items fmt items h]
  unfold bqOutG defOutG lBQ1 lBQ2 lDL1 lDL2
  generalize itemsHtml items = H
  simp only [String.reduceToList]
  simp only [List.cons_append, List.append_assoc, List.nil_append, List.append_nil]

theorem bqOutG_ends (items : List DItem) :
    (bqOutG items).head? = some '<' ∧ (bqOutG items).getLast? = some '>' := by
  have h1 : ∃ r, lBQ1 = '<' :: r := ⟨"blockquote>\n".toList, by decide +kernel⟩
  have h2 : ∃ r, lBQ2 = r ++ ['>'] := ⟨"\n</blockquote".toList, by decide +kernel⟩
  obtain ⟨r1, e1⟩ := h1
  obtain ⟨r2, e2⟩ := h2
  unfold bqOutG
  rw [e1, e2]
  constructor
  · simp
  · rw [← List.append_assoc, List.getLast?_append]; simp

theorem safeLine_qline0 (l : Str) (h : SafeLine l) : SafeLine (qline0 l) := by
  refine ⟨?_, ?_⟩
  · have hs := h.safe
    simp only [DocParse.lineSafe, Bool.and_eq_true, List.all_eq_true, Bool.or_eq_true, bne_iff_ne, ne_eq] at hs ⊢
    refine ⟨?_, Or.inr ?_⟩
    · intro c hc
      simp only [qline0, List.mem_cons] at hc
      rcases hc with rfl | rfl | hc
      · decide
      · decide
      · exact hs.1 c hc
    · simp only [List.any_eq_true, bne_iff_ne, ne_eq]
      exact ⟨'>', by simp [qline0], by decide⟩
  · intro c hc
    simp only [qline0, List.mem_cons] at hc
    rcases hc with rfl | rfl | hc
    · decide
    · decide
    · exact h.ascii c hc

theorem convertX_defQuote (x : PipelineX.Exts) (hdef : x.defList = true) (hnl : x.nl2br = false)
    (hf : x.fencedCode = false) (htb : x.tables = false) (hal : x.attrList = false) (htoc : x.toc = false)
    (cfg : Pipeline.Cfg) (hbl : cfg.blockLevel = TreeProc.defaultBlockLevel) (htab : 0 < cfg.tab)
    (t0 : Str) (tr : List Str) (d : Str) (ds : List Str)
    (ht : ∀ l ∈ t0 :: tr, PlainFacts l) (hd : ∀ l ∈ d :: ds, PlainFacts l) :
    PipelineX.convertX x cfg (qdSrc t0 tr d ds) = .ok (bqOutG (qdItems t0 tr d ds)) := by
  -- the front
  obtain ⟨s1, s2, s3, s4, s5⟩ := front_lines cfg.tab ((qdLines t0 tr d ds).map qline0) (by simp [qdLines])
    (by
      intro l hl
      obtain ⟨y, hy, rfl⟩ := List.mem_map.1 hl
      apply safeLine_qline0
      rcases List.mem_append.1 hy with h | h
      · exact (ht y h).safeLine
      · obtain ⟨z, hz, rfl⟩ := List.mem_map.1 h
        exact safeLine_defLine z (hd z hz))
    ⟨'>', by
      obtain ⟨Y, hY⟩ := joinLines_head (qline0 t0) ((tr ++ (d :: ds).map defLine).map qline0)
      rw [show (qdLines t0 tr d ds).map qline0 = qline0 t0 :: (tr ++ (d :: ds).map defLine).map qline0 from rfl, hY]
      simp [qline0], by decide⟩
  rw [show joinLines ((qdLines t0 tr d ds).map qline0) = qdSrc t0 tr d ds from rfl] at s1 s2 s3 s4 s5
  -- the block stage
  have hblk := parseDocumentXT_defQuote x.blockCfg (by simpa [PipelineX.Exts.blockCfg] using hdef) cfg.tab htab t0 tr d ds
    ht hd
  rw [dlNode_items] at hblk
  have hok := qdItems_ok t0 tr d ds ht hd
  obtain ⟨it0, ir, hitems⟩ : ∃ it0 ir, qdItems t0 tr d ds = it0 :: ir := ⟨_, _, rfl⟩
  -- the inline stage
  have hquiet : quietKids false (rootOf [bqOf [dlOf ((qdItems t0 tr d ds).map DItem.node)]]).children = true := by
    have hk := quietKids_items _ hok
    have hdl : quietTree false (dlOf ((qdItems t0 tr d ds).map DItem.node)) = true := by
      simp [dlOf, Node.el, quietTree, Node.truthy, hk]
    have hb : quietTree false (bqOf [dlOf ((qdItems t0 tr d ds).map DItem.node)]) = true := by
      simp [bqOf, Node.el, quietTree, quietKids, Node.truthy, hdl]
    simp only [rootOf, quietKids, hb, Bool.and_self]
  have hrun := fun (ic : Inline.Cfg) (keys : List Str) =>
    runX_quiet { cfg := ic, table := InlineX.table x.footnotes x.wikilinks false, fnKeys := keys } false
      (fun hm => nl_mem_table _ _ false hm) (Nat.le_trans (by decide) (table_length _ _ false)) _ [] hquiet
  -- the tree stages
  have hpre := prettify_bqG it0 ir (by rw [← hitems]; exact hok)
  rw [← hitems] at hpre
  have hun := unescapeTree_bqG _ hok
  have hser := serialize_bqG cfg.fmt _ hok
  have hJ : Post.STX ∉ bqOutG (qdItems t0 tr d ds) := by
    unfold bqOutG defOutG
    exact stx_app (stx_app (by decide +kernel) (stx_app (stx_app (by decide +kernel) (stx_itemsHtml _ hok))
      (by decide +kernel))) (by decide +kernel)
  obtain ⟨e1, e2⟩ := bqOutG_ends (qdItems t0 tr d ds)
  have hfin := finishX_wrapped' x cfg (bqOutG (qdItems t0 tr d ds)) hJ
    (fun c hc => by rw [e1] at hc; cases hc; decide)
    (fun c hc => by rw [e2] at hc; cases hc; decide)
  have hfo : BlockExt.footnotesOf [] = [] := rfl
  have hab : BlockExt.abbrsOf [] = [] := rfl
  have hmk : ∀ p fc, FootnotesTree.makeDiv p fc [] [] = .ok (none, []) := fun _ _ => rfl
  have habbr : ∀ t, AbbrTree.run [] t = t := fun _ => rfl
  have hnofn : noFnDiv (rootOf [bqOf [dlOf ((qdItems t0 tr d ds).map DItem.node)]]) = true := by
    have h0 := noFnDiv_dlDoc (qdItems t0 tr d ds)
    simp only [rootOf, Node.el, noFnDiv, noFnDivKids, Bool.and_true, Bool.and_eq_true] at h0
    simp [rootOf, bqOf, Node.el, noFnDiv, noFnDivKids, h0.2]
  have hdup := fun fn => duplicates_noFn fn _ hnofn
  simp only [PipelineX.convertX, s1, s2, PipelineX.Exts.unsupported, Bool.false_eq_true, if_false,
    PipelineX.treeX, PipelineX.prepareX, s3, s4, s5, Bool.and_false, hf, htb, hblk, hfo, hmk, hnl, hal, htoc]
  cases hfn : x.footnotes <;> cases hab' : x.abbr <;>
    simp only [hfn, hab', Bool.false_eq_true, if_false, if_true, List.map_nil, PipelineX.refsX, Bool.or_self,
      Bool.or_true, Bool.or_false, Bool.true_or, BlockExt.refsOf, List.filter_nil, PipelineX.escX, htb, Bool.false_and] <;>
    (rw [hfn] at hrun; rw [hrun]; simp only [hdup, hbl, hpre, hab, habbr, hun, hser]; exact hfin)

end MdVerif.RenderG
