/-
Lemmas for `Props/C02Big.lean`, section 9 (wikilinks): `__handleInline` over ANY pattern table — the wikilink pattern
included — keeps the invariants of the stash and does not increase the potential, and always answers, ON TEXTS IN WHICH
NO `[` IS FOLLOWED BY A BLANK (`InlineX.OkW`, with a stash of that class): there a wiki label is never blank, the
wikilink pattern returns an `a` element paid by `[[`, and never the empty string.  The `OkW` invariant itself is
carried by c10x's chain (`Lemmas/C02BigWInv.lean`, `Lemmas/C02BigWSep.lean`).  W-versions of parts B–D of
`Lemmas/C02BigNHI.lean`.  Core Lean only.
-/
import MdVerif.Lemmas.C02BigNRun
import MdVerif.Lemmas.C02BigWSep

namespace MdVerif.InlineN
open MdVerif.Inline
open Py
open NoCtl hiding STX ETX
open InlineX

/-- the stash of inline nodes is of the class -/
abbrev StW (x : XSt) : Prop := StashP OkW NW x.st.stash

/-! ### the wikilink pattern -/

theorem nuW_ge_phiC (acc : List Nat) (s : Str) : phiC s ≤ nuW acc s := by simp only [nuW]; omega

theorem findX_specW (xc : XCfg) (k : PatK) (acc : List Nat) {Q : Str → Prop} (hQ : QOK Q)
    (data : Str) (si : Nat) (x : XSt) (hd : Q data) (ho : OkW data) :
    ∃ r x', findX xc k data si x = some (r, x') ∧ x'.st.stash = x.st.stash ∧
      ∀ f, r = some f → FoundB data si f ∧ FoundAcc acc Q data f := by
  by_cases hk : k = PatK.wikilink
  · subst hk
    simp only [findX]
    split
    · exact ⟨none, x, rfl, rfl, by intro f hf; cases hf⟩
    · cases hs : wikiScan (data.drop si) si with
      | none => exact ⟨none, x, rfl, rfl, by intro f hf; cases hf⟩
      | some p =>
        obtain ⟨g, s, e⟩ := p
        refine ⟨_, _, rfl, rfl, ?_⟩
        intro f hf
        simp only [Option.some.injEq] at hf
        subst hf
        obtain ⟨pre, post, h1, h2, h3, h4, h5⟩ := NoCtlX.wikiScan_spec _ _ _ _ _ hs
        have hdd : OkW (data.drop si) := NoCtl.NoPair.infix ho (List.drop_suffix _ _).isInfix
        have hnb := wiki_label_not_blank hdd h1 h4 h5
        have hemp : (strip g).isEmpty = false := by
          cases hq : strip g with
          | nil => exact absurd hq hnb
          | cons a b => rfl
        have hget : data[s]? = some '[' := by
          rw [h2, getElem?_at_pre (rest := (('[' :: '[' :: g) ++ [']', ']']) ++ post) (by rw [h1]; simp)]
          rfl
        have hlen := lt_length_of_getElem? hget
        have hginf : g <:+: data := by
          refine List.IsInfix.trans ?_ (List.drop_suffix si data).isInfix
          rw [h1]
          exact ⟨pre ++ ['[', '['], [']', ']'] ++ post, by simp⟩
        have hlabQ : Q (strip g) := hQ.inf _ _ ((strip_infix g).trans hginf) hd
        have hreg : region data ⟨wikiNode g, s, (e : Int)⟩ = ('[' :: '[' :: g) ++ [']', ']'] := by
          rw [region_nat, h3, h2]
          have := slice_at_pre (mid := ('[' :: '[' :: g) ++ [']', ']']) h1
          have hm : (('[' :: '[' :: g) ++ [']', ']']).length = g.length + 4 := by simp
          rw [hm] at this
          exact this
        refine ⟨⟨by show si ≤ s; omega, ⟨'[', hget, by decide⟩,
          by show s < pyIdx data.length (e : Int); exact pyIdx_nat_gt (by omega) hlen,
          by intro h; simp only [wikiNode, hemp, Bool.false_eq_true, if_false] at h; cases h⟩, ?_⟩
        simp only [FoundAcc, wikiNode, hemp, Bool.false_eq_true, if_false]
        refine ⟨deep_setAttr _ _ (deep_setAttr _ _ (deep_text "a" hlabQ)), ?_, ?_⟩
        · rw [W_setAttr, W_setAttr, W_text]
          have hregion : region data ⟨PNode.el ((({ mkEl "a" with text := some (strip g) } : Node).setAttr "href".toList
              ('/' :: cleanLabel 0 (strip g) ++ ['/'])).setAttr "class".toList "wikilink".toList), s, (e : Int)⟩ =
              ('[' :: '[' :: g) ++ [']', ']'] := by
            rw [region_nat]
            have := hreg
            rw [region_nat] at this
            exact this
          rw [hregion]
          have e1 : ('[' :: '[' :: g) ++ [']', ']'] = ['[', '['] ++ (g ++ [']', ']']) := by simp
          rw [e1]
          have h1' := nuW_append_ge acc ['[', '['] (g ++ [']', ']'])
          have h2' : 2 ≤ nuW acc ['[', '['] := Nat.le_trans (by decide) (nuW_ge_phiC acc _)
          have h3' : nuW acc (strip g) ≤ nuW acc (g ++ [']', ']']) :=
            nuW_infix acc ((strip_infix g).trans ⟨[], [']', ']'], by simp⟩)
          omega
        · rw [setAttr_tailN, setAttr_tailN]; rfl
  · exact findX_spec xc hk acc hQ data si x hd

/-! ### `applyPatternX`, the pattern loop, `handleInlineX` on `OkW` texts -/

/-- the nested `__handleInline`: invariant and potential, on texts and stashes of the class -/
def HiSpecW (hi : HIX) : Prop :=
  ∀ t pi x d x', hi t pi x = some (d, x') → SOK x.st.stash → IdsLt x.st.stash.length t → OkW t → StW x →
    SOK x'.st.stash ∧ IdsLt x'.st.stash.length d ∧ x.st.stash <+: x'.st.stash ∧ nuS x'.st d ≤ nuS x.st t

theorem hiOptX_specW {hi : HIX} (hhi : HiSpecW hi) {t : Option Str} {atomic : Bool} {pi : Nat} {x : XSt}
    {r : Option Str} {x' : XSt} (h : hiOptX hi t atomic pi x = some (r, x')) (hs : SOK x.st.stash)
    (ht : optQ (IdsLt x.st.stash.length) t) (ho : OptP OkW t) (hp : StW x) :
    SOK x'.st.stash ∧ optQ (IdsLt x'.st.stash.length) r ∧ x.st.stash <+: x'.st.stash ∧
      nuS x'.st (r.getD []) ≤ nuS x.st (t.getD []) ∧ (t = none → r = none) := by
  unfold hiOptX at h
  split at h
  · next hc =>
    cases t with
    | none => simp [Node.truthy] at hc
    | some y =>
      simp only [Option.getD_some] at h
      split at h
      · next d x1 hx =>
        cases h
        obtain ⟨h1, h2, h3, h4⟩ := hhi _ _ _ _ _ hx hs (ht y rfl) (ho y rfl) hp
        exact ⟨h1, optQ_some h2, h3, by simpa using h4, by intro e; cases e⟩
      · cases h
  · cases h
    exact ⟨hs, ht, List.prefix_refl _, Nat.le_refl _, id⟩

theorem hiNodeX_specW {hi : HIX} (hhi : HiSpecW hi) (hg : HIP OkW NW hi) {pi : Nat} {n : Node} {x : XSt} {n' : Node}
    {x' : XSt} (h : hiNodeX hi pi n x = some (n', x')) (hs : SOK x.st.stash)
    (hn : TopQ (IdsLt x.st.stash.length) n) (hnP : DeepP OkW n) (hp : StW x) :
    SOK x'.st.stash ∧ TopQ (IdsLt x'.st.stash.length) n' ∧ x.st.stash <+: x'.st.stash ∧ n'.children = n.children ∧
      ownW (wts x'.st.stash) n' ≤ ownW (wts x.st.stash) n ∧ (n.tail = none → n'.tail = none) := by
  have hnP' := (DeepP_iff n).mp hnP
  unfold hiNodeX at h
  split at h
  · cases h
  · next t x1 h1 =>
    obtain ⟨a1, a2, a3, a4, _⟩ := hiOptX_specW hhi h1 hs hn.1 hnP'.1 hp
    have hp1 : StW x1 := (hiOptX_P sep_w hg n.text n.textAtomic (pi + 1) x hnP'.1 hp h1).2.1
    split at h
    · cases h
    · next tl x2 h2 =>
      cases h
      obtain ⟨b1, b2, b3, b4, b5⟩ := hiOptX_specW hhi h2 a1 (optQ_mono a3.length_le hn.2) hnP'.2.1 hp1
      refine ⟨b1, ⟨optQ_mono b3.length_le a2, b2⟩, a3.trans b3, rfl, ?_, b5⟩
      have f1 := nuS_frame b3 (optQ_getD (IdsLt.nil _) a2)
      have f2 := nuS_frame a3 (optQ_getD (IdsLt.nil _) hn.2)
      simp only [nuS] at a4 b4 f1 f2
      simp only [ownW]
      omega

theorem hiNodesX_specW {hi : HIX} (hhi : HiSpecW hi) (hg : HIP OkW NW hi) {pi : Nat} :
    ∀ (l : List Node) {x : XSt} {l' : List Node} {x' : XSt}, hiNodesX hi pi l x = some (l', x') →
      SOK x.st.stash → (∀ c ∈ l, Deep (IdsLt x.st.stash.length) c) → (∀ c ∈ l, DeepP OkW c) → StW x →
      SOK x'.st.stash ∧ (∀ c ∈ l', Deep (IdsLt x'.st.stash.length) c) ∧ x.st.stash <+: x'.st.stash ∧
        lpot (ownW (wts x'.st.stash)) l' ≤ lpot (ownW (wts x.st.stash)) l := by
  intro l
  induction l with
  | nil =>
    intro x l' x' h hs _ _ _
    simp only [hiNodesX, Option.some.injEq, Prod.mk.injEq] at h
    obtain ⟨rfl, rfl⟩ := h
    refine ⟨hs, ?_, List.prefix_refl _, Nat.le_refl _⟩
    intro c hc; cases hc
  | cons n r ih =>
    intro x l' x' h hs hl hlP hp
    unfold hiNodesX at h
    split at h
    · cases h
    · next n1 x1 h1 =>
      have hdn := hl n (List.mem_cons_self ..)
      have hnP := hlP n (List.mem_cons_self ..)
      obtain ⟨a1, a2, a3, a4, a5, _⟩ := hiNodeX_specW hhi hg h1 hs ((deep_iff _ _).1 hdn).1 hnP hp
      have hp1 : StW x1 := (hiNodeX_P sep_w hg pi n x hnP hp h1).2.1
      split at h
      · cases h
      · next r' x2 h2 =>
        cases h
        obtain ⟨b1, b2, b3, b4⟩ := ih h2 a1
          (fun c hc => deep_mono a3.length_le (hl c (List.mem_cons_of_mem _ hc)))
          (fun c hc => hlP c (List.mem_cons_of_mem _ hc)) hp1
        have hkids : ∀ c ∈ n1.children, Deep (IdsLt x.st.stash.length) c := by
          rw [a4]; exact ((deep_iff _ _).1 hdn).2
        have hd1 : Deep (IdsLt x1.st.stash.length) n1 := by
          rw [deep_iff]; exact ⟨a2, fun c hc => deep_mono a3.length_le (hkids c hc)⟩
        refine ⟨b1, ?_, a3.trans b3, ?_⟩
        · intro c hc
          rcases List.mem_cons.1 hc with rfl | hc
          · exact deep_mono b3.length_le hd1
          · exact b2 c hc
        · have f1 := potS_frame b3 hd1
          have f2 := lpotS_frame a3 r (fun c hc => hl c (List.mem_cons_of_mem _ hc))
          have f3 := lpotS_frame a3 n1.children hkids
          simp only [potS] at f1
          simp only [lpot_cons, f1]
          rw [npot_def (ownW (wts x1.st.stash)) n1, npot_def (ownW (wts x.st.stash)) n, f3, a4]
          omega

theorem applyPatternX_specW (xc : XCfg) {hi : HIX} (hhi : HiSpecW hi) (hg : HIP OkW NW hi) {pi : Nat} {data : Str}
    {si : Nat} {x : XSt} {d : Str} {m : Bool} {si' : Nat} {x' : XSt}
    (h : applyPatternX xc hi pi data si x = some (d, m, si', x')) (hs : SOK x.st.stash)
    (hd : IdsLt x.st.stash.length data) (ho : OkW data) (hp : StW x) :
    SOK x'.st.stash ∧ IdsLt x'.st.stash.length d ∧ x.st.stash <+: x'.st.stash ∧ nuS x'.st d ≤ nuS x.st data := by
  unfold applyPatternX at h
  split at h
  · cases h
    exact ⟨hs, hd, List.prefix_refl _, Nat.le_refl _⟩
  · next k hk =>
    obtain ⟨r0, x00, hfm0, hst00, hspec0⟩ :=
      findX_specW xc k (wts x.st.stash) (qok_idsLt x.st.stash.length) data si x hd ho
    rw [hfm0] at h
    cases r0 with
    | none =>
      simp only [Option.some.injEq, Prod.mk.injEq] at h
      obtain ⟨rfl, _, _, rfl⟩ := h
      have e : nuS x00.st data = nuS x.st data := by simp only [nuS, hst00]
      exact ⟨by rw [hst00]; exact hs, by rw [hst00]; exact hd, by rw [hst00]; exact List.prefix_refl _,
        by rw [e]; exact Nat.le_refl _⟩
    | some f =>
      obtain ⟨hfok, hacc⟩ := hspec0 f rfl
      have hfP := (findP_w xc k (List.mem_of_getElem? hk) data si x _ _ ho hfm0).2 f rfl
      have hp0 : StW x00 := by show StashP OkW NW x00.st.stash; rw [hst00]; exact hp
      have hlt : f.start ≤ pyIdx data.length f.stop := Nat.le_of_lt hfok.stop
      have e0 : nuS x00.st data = nuS x.st data := by simp only [nuS, hst00]
      simp only at h
      split at h
      · cases h
        exact ⟨by rw [hst00]; exact hs, by rw [hst00]; exact hd, by rw [hst00]; exact List.prefix_refl _,
          by rw [e0]; exact Nat.le_refl _⟩
      · next y hy =>
        simp only [stashX, stashNode, Option.some.injEq, Prod.mk.injEq] at h
        obtain ⟨rfl, _, _, rfl⟩ := h
        simp only [FoundAcc, hy] at hacc
        have hpre0 : x.st.stash <+: x00.st.stash := by rw [hst00]; exact List.prefix_refl _
        refine ⟨?_, ?_, ?_, ?_⟩
        · simp only; rw [hst00]; exact sok_append_str hs hacc.1
        · simp only [List.length_append, List.length_singleton]
          rw [hst00]
          exact idsLt_replaced (hd.mono (Nat.le_succ _)) (Nat.lt_succ_self _)
        · simp only; rw [hst00]; exact List.prefix_append _ _
        · apply nuS_replaced hpre0 hd hlt
          simp only [itemW, nuW_inert _ hacc.1, nuS]
          exact hacc.2
      · next n hnode =>
        simp only [FoundAcc, hnode] at hacc
        obtain ⟨hdeep, hwt, htail⟩ := hacc
        have hnP : DeepP OkW n := by simp only [FoundP, hnode] at hfP; exact hfP.1
        have hs0 : SOK x00.st.stash := by rw [hst00]; exact hs
        have hpre0 : x.st.stash <+: x00.st.stash := by rw [hst00]; exact List.prefix_refl _
        have hdeep0 : Deep (IdsLt x00.st.stash.length) n := by rw [hst00]; exact hdeep
        have hW0 : potS x00.st n = W (wts x.st.stash) n := by simp only [potS, W, hst00]
        have finish : ∀ {n' : Node} {x1 : XSt}, SOK x1.st.stash → Deep (IdsLt x1.st.stash.length) n' →
            x00.st.stash <+: x1.st.stash → potS x1.st n' ≤ potS x00.st n → n'.tail = none →
            SOK (x1.st.stash ++ [StashItem.node n']) ∧
            IdsLt (x1.st.stash ++ [StashItem.node n']).length
              (List.take f.start data ++ placeholder x1.st.stash.length ++ pyDrop data f.stop) ∧
            x.st.stash <+: x1.st.stash ++ [StashItem.node n'] ∧
            nuS { stash := x1.st.stash ++ [StashItem.node n'], html := x1.st.html }
              (List.take f.start data ++ placeholder x1.st.stash.length ++ pyDrop data f.stop) ≤ nuS x.st data := by
          intro n' x1 k1 k2 k3 k4 k5
          refine ⟨sok_append_node k1 k2 k5, ?_, (hpre0.trans k3).trans (List.prefix_append _ _), ?_⟩
          · simp only [List.length_append, List.length_singleton]
            exact idsLt_replaced (hd.mono (Nat.le_trans (hpre0.trans k3).length_le (Nat.le_succ _))) (Nat.lt_succ_self _)
          · apply nuS_replaced (hpre0.trans k3) hd hlt
            simp only [itemW, nuS]
            simp only [potS] at k4 hW0
            simp only [W] at hwt hW0
            omega
        split at h
        · cases h
        · next n' x1 hr =>
          simp only [stashX, stashNode, Option.some.injEq, Prod.mk.injEq] at h
          obtain ⟨rfl, _, _, rfl⟩ := h
          split at hr
          · simp only [Option.some.injEq, Prod.mk.injEq] at hr
            obtain ⟨rfl, rfl⟩ := hr
            exact finish hs0 hdeep0 (List.prefix_refl _) (Nat.le_refl _) htail
          · split at hr
            · cases hr
            · next n1 xa h1 =>
              have hdn := (deep_iff _ _).1 hdeep0
              have hnP0 : DeepP OkW ({ n with children := [] } : Node) := DeepP_children [] hnP (by intro k hk; cases hk)
              obtain ⟨a1, a2, a3, a4, a5, a6⟩ := hiNodeX_specW hhi hg h1 hs0 (n := { n with children := [] }) hdn.1 hnP0 hp0
              have hpa : StW xa := (hiNodeX_P sep_w hg pi _ x00 hnP0 hp0 h1).2.1
              split at hr
              · cases hr
              · next kids xb h2 =>
                simp only [Option.some.injEq, Prod.mk.injEq] at hr
                obtain ⟨rfl, rfl⟩ := hr
                obtain ⟨b1, b2, b3, b4⟩ := hiNodesX_specW hhi hg n.children h2 a1
                  (fun c hc => deep_mono a3.length_le (hdn.2 c hc)) (DeepP_kids hnP) hpa
                apply finish b1 (n' := { n1 with children := kids })
                · rw [deep_iff]; exact ⟨topQ_mono b3.length_le a2, b2⟩
                · exact a3.trans b3
                · have f1 := ownS_frame b3 a2
                  have f2 := lpotS_frame a3 n.children hdn.2
                  simp only [potS]
                  rw [npot_def, npot_def (ownW (wts x00.st.stash)) n]
                  simp only
                  have e1 : ownW (wts xb.st.stash) { n1 with children := kids } = ownW (wts xb.st.stash) n1 := rfl
                  have e2 : ownW (wts x00.st.stash) ({ n with children := [] } : Node) = ownW (wts x00.st.stash) n := rfl
                  rw [e1, f1]
                  rw [e2] at a5
                  omega
                · exact a6 htail


theorem hiLoopX_specW {count : Nat} {ap : Nat → Str → Nat → XSt → Option (Str × Bool × Nat × XSt)}
    (hap : ∀ pi data si x d m si' x', ap pi data si x = some (d, m, si', x') → SOK x.st.stash →
      IdsLt x.st.stash.length data → OkW data → StW x →
      SOK x'.st.stash ∧ IdsLt x'.st.stash.length d ∧ x.st.stash <+: x'.st.stash ∧ nuS x'.st d ≤ nuS x.st data)
    (hapP : ∀ pi data si x d m si' x', OkW data → StW x → ap pi data si x = some (d, m, si', x') → OkW d ∧ StW x') :
    ∀ (g : Nat) (data : Str) (pi si : Nat) (x : XSt) (d : Str) (x' : XSt),
      hiLoopX count ap g data pi si x = some (d, x') → SOK x.st.stash → IdsLt x.st.stash.length data →
      OkW data → StW x →
      SOK x'.st.stash ∧ IdsLt x'.st.stash.length d ∧ x.st.stash <+: x'.st.stash ∧ nuS x'.st d ≤ nuS x.st data := by
  intro g
  induction g with
  | zero => intro data pi si x d x' h; simp [hiLoopX] at h
  | succ g ih =>
    intro data pi si x d x' h hs hd ho hp
    unfold hiLoopX at h
    split at h
    · split at h
      · cases h
      · next d1 m si1 x1 hx =>
        obtain ⟨a1, a2, a3, a4⟩ := hap _ _ _ _ _ _ _ _ hx hs hd ho hp
        obtain ⟨o1, p1⟩ := hapP _ _ _ _ _ _ _ _ ho hp hx
        obtain ⟨b1, b2, b3, b4⟩ := ih _ _ _ _ _ _ h a1 a2 o1 p1
        exact ⟨b1, b2, a3.trans b3, Nat.le_trans b4 a4⟩
    · cases h
      exact ⟨hs, hd, List.prefix_refl _, Nat.le_refl _⟩

/-- **`__handleInline` over ANY pattern table keeps the invariants of the stash and does not increase the potential,
    on texts and stashes in which no `[` is followed by a blank** -/
theorem handleInlineX_specW (xc : XCfg) : ∀ f, HiSpecW (handleInlineX xc f) := by
  intro f
  induction f with
  | zero => intro t pi x d x' h; simp [handleInlineX] at h
  | succ f ih =>
    intro t pi x d x' h hs hd ho hp
    unfold handleInlineX at h
    have hg : HIP OkW NW (fun d p s => handleInlineX xc f d p s) := handleInlineX_PW sep_w xc (findP_w xc) f
    exact hiLoopX_specW
      (fun pi data si x d m si' x' hx hs' hd' ho' hp' => applyPatternX_specW xc ih hg hx hs' hd' ho' hp')
      (fun pi data si x d m si' x' ho' hp' hx => applyPatternX_PW sep_w xc (findP_w xc) hg pi data si x ho' hp' hx)
      _ _ _ _ _ _ _ h hs hd ho hp

/-! ### `handleInlineX` always answers on `OkW` texts -/

/-- `ApOKX` on texts and stashes of the class -/
def ApOKW (ap : Nat → Str → Nat → XSt → Option (Str × Bool × Nat × XSt)) (T0 : Nat) : Prop :=
  ∀ pi data si x, phiC data ≤ T0 → OkW data → StW x →
    ∃ d m si' x', ap pi data si x = some (d, m, si', x') ∧
      ((m = false ∧ d = data ∧ si' = 0) ∨
       (m = true ∧ d = data ∧ phiC (data.drop si') < phiC (data.drop si)) ∨
       (m = true ∧ si' = 0 ∧ phiC d < phiC data))

theorem hiLoopX_totalW {count : Nat} {ap} {T0 : Nat} (hap : ApOKW ap T0)
    (hapP : ∀ pi data si x d m si' x', OkW data → StW x → ap pi data si x = some (d, m, si', x') → OkW d ∧ StW x') :
    ∀ (g : Nat) (data : Str) (pi si : Nat) (x : XSt), phiC data ≤ T0 → OkW data → StW x →
      potX count T0 pi data si < g → (hiLoopX count ap g data pi si x).isSome = true := by
  intro g
  induction g with
  | zero => intro data pi si x _ _ _ h; omega
  | succ g ih =>
    intro data pi si x hT ho hp hpot
    unfold hiLoopX
    split
    · next hpi =>
      obtain ⟨d, m, si', x', hap', hcase⟩ := hap pi data si x hT ho hp
      obtain ⟨o1, p1⟩ := hapP _ _ _ _ _ _ _ _ ho hp hap'
      rw [hap']
      simp only
      have hdrop := phiC_drop_le data si
      rcases hcase with ⟨hm, hd, hs⟩ | ⟨hm, hd, hlt⟩ | ⟨hm, hs, hlt⟩
      · subst hm hd hs
        apply ih _ _ _ _ hT o1 p1
        simp only [potX, Bool.false_eq_true, if_false, List.drop_zero] at hpot ⊢
        have : (count - pi) * (T0 + 1) = (count - (pi + 1)) * (T0 + 1) + (T0 + 1) := by
          have : count - pi = (count - (pi + 1)) + 1 := by omega
          rw [this, Nat.add_mul]; omega
        omega
      · subst hm hd
        apply ih _ _ _ _ hT o1 p1
        simp only [potX, if_true] at hpot ⊢
        omega
      · subst hm hs
        have hT' : phiC d ≤ T0 := by omega
        apply ih _ _ _ _ hT' o1 p1
        simp only [potX, if_true, List.drop_zero] at hpot ⊢
        have : phiC data * (T0 + 1) ≥ phiC d * (T0 + 1) + (T0 + 1) := by
          have : phiC d + 1 ≤ phiC data := hlt
          calc phiC data * (T0 + 1) ≥ (phiC d + 1) * (T0 + 1) := Nat.mul_le_mul_right _ this
            _ = phiC d * (T0 + 1) + (T0 + 1) := by rw [Nat.add_mul]; omega
        omega
    · rfl

/-- the nested `__handleInline` answers on every text of the class of weight below `T` -/
def HiOKW (hi : HIX) (T : Nat) : Prop := ∀ t pi x, phiC t < T → OkW t → StW x → (hi t pi x).isSome = true

theorem hiOptX_okW {hi : HIX} {T k : Nat} (hhi : HiOKW hi T) (hk : k < T) {t : Option Str} (ht : optLeC k t)
    (ho : OptP OkW t) (atomic : Bool) (pi : Nat) (x : XSt) (hp : StW x) :
    ∃ r x', hiOptX hi t atomic pi x = some (r, x') := by
  unfold hiOptX
  split
  · next hc =>
    cases t with
    | none => simp [Node.truthy] at hc
    | some y =>
      have := hhi y pi x (by have := ht y rfl; omega) (ho y rfl) hp
      simp only [Option.getD_some]
      cases hx : hi y pi x with
      | none => rw [hx] at this; cases this
      | some p => exact ⟨_, _, rfl⟩
  · exact ⟨_, _, rfl⟩

theorem hiNodeX_okW {hi : HIX} {T k : Nat} (hhi : HiOKW hi T) (hg : HIP OkW NW hi) (hk : k < T) {n : Node}
    (hn : TopC k n) (hnP : DeepP OkW n) (pi : Nat) (x : XSt) (hp : StW x) :
    ∃ n' x', hiNodeX hi pi n x = some (n', x') := by
  have hnP' := (DeepP_iff n).mp hnP
  unfold hiNodeX
  obtain ⟨t, x1, h1⟩ := hiOptX_okW hhi hk hn.1 hnP'.1 n.textAtomic (pi + 1) x hp
  have hp1 : StW x1 := (hiOptX_P sep_w hg n.text n.textAtomic (pi + 1) x hnP'.1 hp h1).2.1
  rw [h1]
  obtain ⟨tl, x2, h2⟩ := hiOptX_okW hhi hk hn.2 hnP'.2.1 n.tailAtomic pi x1 hp1
  simp only [h2]
  exact ⟨_, _, rfl⟩

theorem hiNodesX_okW {hi : HIX} {T k : Nat} (hhi : HiOKW hi T) (hg : HIP OkW NW hi) (hk : k < T) (pi : Nat) :
    ∀ (l : List Node) (x : XSt), (∀ c ∈ l, TopC k c) → (∀ c ∈ l, DeepP OkW c) → StW x →
      ∃ l' x', hiNodesX hi pi l x = some (l', x') := by
  intro l
  induction l with
  | nil => intro x _ _ _; exact ⟨_, _, rfl⟩
  | cons n r ih =>
    intro x hl hlP hp
    unfold hiNodesX
    obtain ⟨n', x1, h1⟩ := hiNodeX_okW hhi hg hk (hl n (List.mem_cons_self ..)) (hlP n (List.mem_cons_self ..)) pi x hp
    have hp1 : StW x1 := (hiNodeX_P sep_w hg pi n x (hlP n (List.mem_cons_self ..)) hp h1).2.1
    rw [h1]
    obtain ⟨r', x2, h2⟩ := ih x1 (fun c hc => hl c (List.mem_cons_of_mem _ hc))
      (fun c hc => hlP c (List.mem_cons_of_mem _ hc)) hp1
    simp only [h2]
    exact ⟨_, _, rfl⟩

theorem applyPatternX_okW (xc : XCfg) {hi : HIX} {T0 : Nat} (hhi : HiOKW hi T0) (hg : HIP OkW NW hi) :
    ApOKW (applyPatternX xc hi) T0 := by
  intro pi data si x hT ho hp
  unfold applyPatternX
  split
  · exact ⟨_, _, _, _, rfl, Or.inl ⟨rfl, rfl, rfl⟩⟩
  · next k hk =>
    obtain ⟨r, x0, hfm, hst0, hspec⟩ := findX_specW xc k [] qok_true data si x trivial ho
    have hp0 : StW x0 := by show StashP OkW NW x0.st.stash; rw [hst0]; exact hp
    rw [hfm]
    cases r with
    | none => exact ⟨_, _, _, _, rfl, Or.inl ⟨rfl, rfl, rfl⟩⟩
    | some f =>
      obtain ⟨hf, hacc⟩ := hspec f rfl
      have hfP := (findP_w xc k (List.mem_of_getElem? hk) data si x _ _ ho hfm).2 f rfl
      simp only
      cases hnode : f.node with
      | none =>
        simp only
        refine ⟨_, _, _, _, rfl, Or.inr (Or.inl ⟨rfl, rfl, ?_⟩)⟩
        have h0 := hf.nonneg hnode
        have hs := hf.stop
        obtain ⟨c, hc, htc⟩ := hf.trig
        have hlt : f.start < f.stop.toNat := by
          unfold pyIdx at hs
          have : ¬ f.stop < 0 := by omega
          simp only [this, if_false] at hs
          omega
        have h1 := phiC_drop_succ hc htc
        have h2 := phiC_drop_mono data (show f.start + 1 ≤ f.stop.toNat by omega)
        have h3 := phiC_drop_mono data hf.le
        omega
      | str s =>
        simp only [stashX, stashNode]
        exact ⟨_, _, _, _, rfl, Or.inr (Or.inr ⟨rfl, rfl, phiC_replaced hf.trig hf.stop⟩)⟩
      | el n =>
        simp only
        split
        · next heq =>
          exfalso
          split at heq
          · cases heq
          · next hat =>
            simp only [FoundAcc, hnode] at hacc
            have hnP : DeepP OkW n := by simp only [FoundP, hnode] at hfP; exact hfP.1
            have hreg : nuW [] (region data f) ≤ phiC data := by
              simp only [nuW, idW_nilAcc, Nat.add_zero]
              exact phiC_infix (region_infix data f)
            obtain ⟨t1, t2⟩ := topC_of_W (Nat.le_trans hacc.2.1 hreg)
            have hpos : 1 ≤ phiC data := by
              have : 1 ≤ W [] n := by rw [W, npot_def]; have := ownW_nil_ge n; omega
              omega
            have hk' : phiC data - 1 < T0 := by omega
            have hnP0 : DeepP OkW ({ n with children := [] } : Node) :=
              DeepP_children [] hnP (by intro k hk; cases hk)
            obtain ⟨n1, x1, h1⟩ := hiNodeX_okW hhi hg hk' (n := { n with children := [] }) t1 hnP0 pi x0 hp0
            have hp1 : StW x1 := (hiNodeX_P sep_w hg pi _ x0 hnP0 hp0 h1).2.1
            rw [h1] at heq
            obtain ⟨kids, x2, h2⟩ := hiNodesX_okW hhi hg hk' pi n.children x1 t2 (DeepP_kids hnP) hp1
            simp only [h2] at heq
            cases heq
        · simp only [stashX, stashNode]
          exact ⟨_, _, _, _, rfl, Or.inr (Or.inr ⟨rfl, rfl, phiC_replaced hf.trig hf.stop⟩)⟩

theorem handleInlineX_totalW (xc : XCfg) (hc : 0 < xc.table.length) :
    ∀ (f : Nat) (data : Str) (pi : Nat) (x : XSt), phiC data < f → OkW data → StW x →
      (handleInlineX xc f data pi x).isSome = true := by
  intro f
  induction f with
  | zero => intro data pi x h; omega
  | succ f ih =>
    intro data pi x hf ho hp
    unfold handleInlineX
    have hhi : HiOKW (fun d p s => handleInlineX xc f d p s) (phiC data) := by
      intro t pi' x' ht' ho' hp'
      exact ih t pi' x' (by omega) ho' hp'
    have hg : HIP OkW NW (fun d p s => handleInlineX xc f d p s) := handleInlineX_PW sep_w xc (findP_w xc) f
    exact hiLoopX_totalW (applyPatternX_okW xc hhi hg)
      (fun pi data si x d m si' x' ho' hp' hx => applyPatternX_PW sep_w xc (findP_w xc) hg pi data si x ho' hp' hx)
      _ data pi 0 x (Nat.le_refl _) ho hp (potX_lt_loopFuelX hc data pi)

/-- **`__handleInline` over ANY pattern table terminates within the model's fuels on texts without `[` before a blank** -/
theorem handleInlineTopX_totalW (xc : XCfg) (hc : 0 < xc.table.length) (data : Str) (x : XSt) (ho : OkW data)
    (hp : StW x) : (handleInlineTopX xc data x).isSome = true := by
  unfold handleInlineTopX
  exact handleInlineX_totalW xc hc _ data 0 x (by have := phiC_le_length data; omega) ho hp

end MdVerif.InlineN
