/-
Helper lemmas for `Props/C16RenderX.lean`, part 7: abbr — the block stage of `*[KEY]: Title` + a paragraph, the
abbreviation table, `AbbrTreeprocessor` on a paragraph of words, and the later stages.

Core Lean only.
-/
import MdVerif.Lemmas.RenderXDef

namespace MdVerif.RenderX
open Py Block BlockExt

/-! ### the definition line -/

/-- a word: non-empty, ASCII letters and digits -/
structure WordFacts (w : Str) : Prop where
  ne : w ≠ []
  chars : ∀ c ∈ w, isAsciiAlnum c = true

theorem WordFacts.plain {w : Str} (h : WordFacts w) : PlainFacts w := by
  have hsp : ∀ c ∈ w, c ≠ ' ' := by
    intro c hc e; subst e; exact absurd (h.chars ' ' hc) (by decide)
  refine ⟨h.ne, fun c hc => by simp [DocSpec.isAlnumSp, h.chars c hc], fun c hc => hsp c (List.mem_of_mem_head? hc),
    fun c hc => hsp c (List.mem_of_getLast? hc), ?_⟩
  have : ∀ s : Str, (∀ c ∈ s, c ≠ ' ') → DocSpec.noDoubleSpace s = true := by
    intro s
    induction s with
    | nil => intro _; rfl
    | cons c s ih =>
      intro hs
      cases s with
      | nil =>
        unfold DocSpec.noDoubleSpace
        split
        · rename_i heq; simp at heq
        · rename_i heq
          simp only [List.cons.injEq] at heq
          rw [← heq.2]; rfl
        · rename_i heq; cases heq
      | cons d t =>
        rw [nds_cons2]
        have hc : c ≠ ' ' := hs c List.mem_cons_self
        simp [hc, ih (fun x hx => hs x (List.mem_cons_of_mem _ hx))]
  exact this w hsp

/-- `*[KEY]: Title` -/
def abbrLine (key title : Str) : Str := '*' :: '[' :: key ++ ']' :: ':' :: ' ' :: title

theorem abbrClose_key (key X : Str) (hk : ∀ c ∈ key, c ≠ ']' ∧ c ≠ '\\') :
    ∀ i, abbrClose i (key ++ ']' :: ':' :: X) = some (i + key.length) := by
  induction key with
  | nil => intro i; simp [abbrClose, startsWith]
  | cons c key ih =>
    intro i
    have hc := hk c List.mem_cons_self
    simp only [List.cons_append, abbrClose, hc.1, hc.2, decide_false, Bool.false_and, Bool.false_eq_true, if_false]
    rw [ih (fun d hd => hk d (List.mem_cons_of_mem _ hd))]
    simp only [List.length_cons]
    congr 1; omega

theorem abbrAt_line (key title : Str) (hk : WordFacts key) (ht : PlainFacts title) :
    abbrAt (abbrLine key title) = some (key, title, (abbrLine key title).length) := by
  have hkc : ∀ c ∈ key, c ≠ ']' ∧ c ≠ '\\' := by
    intro c hc
    refine ⟨?_, ?_⟩ <;> (intro e; subst e; exact absurd (hk.chars _ hc) (by decide))
  obtain ⟨a, t, rfl⟩ : ∃ a t, title = a :: t := by
    cases title with
    | nil => exact absurd rfl ht.ne
    | cons a t => exact ⟨a, t, rfl⟩
  have ha : a ≠ ' ' := ht.head a rfl
  have ha2 : a ≠ '\n' := fun e => ht.noNl (e ▸ List.mem_cons_self)
  have hnl : ∀ c ∈ a :: t, notNl c = true := by
    intro c hc
    simp only [notNl, bne_iff_ne, ne_eq]
    intro e; subst e; exact ht.noNl hc
  have htw : (a :: t).takeWhile notNl = a :: t := DocParse.takeWhile_all _ (List.all_eq_true.2 hnl)
  have hclose := abbrClose_key key (' ' :: a :: t) hkc 0
  have e : abbrLine key (a :: t) = '*' :: '[' :: (key ++ ']' :: ':' :: ' ' :: a :: t) := rfl
  have hdrop : (key ++ ']' :: ':' :: ' ' :: a :: t).drop (key.length + 1) = ':' :: ' ' :: a :: t := by
    rw [show key ++ ']' :: ':' :: ' ' :: a :: t = (key ++ [']']) ++ (':' :: ' ' :: a :: t) by simp]
    exact List.drop_left' (by simp)
  have htake : (key ++ ']' :: ':' :: ' ' :: a :: t).take key.length = key := List.take_left' rfl
  rw [e]
  simp only [abbrAt, startsWith, decide_true, Bool.true_and, if_true, List.drop_succ_cons, List.drop_zero, hclose,
    Nat.zero_add, hdrop, htake]
  simp [startsWith, countSp, countPrefix, ha, ha2, htw]
  omega

/-! ### the block stage -/

/-- the block extensions of `{ abbr := true }` -/
def acfg : XCfg := { abbr := true }

theorem quoteSearch_line (b : Str) (hnl : '\n' ∉ b) (hh : ∀ c, b.head? = some c → c ≠ '>' ∧ c ≠ ' ') :
    quoteSearch b = none := by
  have h1 : quoteLine b = none := by
    cases b with
    | nil => simp [quoteLine, countPrefix]
    | cons c r =>
      have := hh c rfl
      simp [quoteLine, countPrefix, this.1, this.2]
  have h2 : ∀ (s : Str) (i : Nat), '\n' ∉ s → quoteSearchNl i s = none := by
    intro s
    induction s with
    | nil => intro i _; rfl
    | cons c s ih =>
      intro i hs
      have hc : c ≠ '\n' := fun e => hs (e ▸ List.mem_cons_self)
      simp only [quoteSearchNl, hc, decide_false, Bool.false_and, Bool.false_eq_true, if_false]
      exact ih _ (fun hm => hs (List.mem_cons_of_mem _ hm))
  simp [quoteSearch, h1, h2 b 0 hnl]

theorem nl_not_mem_abbrLine (key title : Str) (hk : WordFacts key) (ht : PlainFacts title) : '\n' ∉ abbrLine key title := by
  intro hm
  have hm' : '\n' ∈ ['*', '['] ++ key ++ [']', ':', ' '] ++ title := by simpa [abbrLine] using hm
  simp only [List.mem_append] at hm'
  rcases hm' with ((h | h) | h) | h
  · exact absurd h (by decide)
  · exact hk.plain.noNl h
  · exact absurd h (by decide)
  · exact ht.noNl h

/-- the definition line is taken by the abbreviation processor: the table gets the entry, nothing is added to the tree -/
theorem dispatch_abbrLine (cfg : XCfg) (hab : cfg.abbr = true) (tab : Nat) (htab : tab > 0) (pb : PB)
    (state : List BState) (refs : Refs) (parent : Node)
    (key title : Str) (rest : List Str) (hk : WordFacts key) (ht : PlainFacts title) :
    dispatchXT false cfg tab pb state refs parent (abbrLine key title) rest =
      some (parent, refs ++ [(abKey key, (title, none))], rest) := by
  have hnl := nl_not_mem_abbrLine key title hk ht
  have hshape : abbrLine key title = '*' :: '[' :: (key ++ ']' :: ':' :: ' ' :: title) := rfl
  have hhash : hashSearch (abbrLine key title) = none := DocParse.hashSearch_line _ hnl (by rw [hshape]; simp)
  have hset : setextMatch (abbrLine key title) = false := DocParse.setextMatch_line _ hnl
  have hlines : lines (abbrLine key title) = [abbrLine key title] := joinLines_lines (l := [abbrLine key title]) (by simp)
    (by intro p hp; simp at hp; subst hp; exact hnl)
  have hhr : hrSearch (abbrLine key title) = none := by
    simp only [hrSearch, hlines, hrSearchLines]
    have : hrLine (abbrLine key title) = false := by
      rw [hshape]
      simp [hrLine, countPrefix, hrScan]
    simp [this]
  have hsp : startsWith (abbrLine key title) (spaces tab) = false :=
    startsWith_spaces_false_of_head htab (by intro c hc; rw [hshape] at hc; simp at hc; subst hc; decide)
  have hol : listItemMatch tab true false (abbrLine key title) = none := by
    rw [hshape]
    have hcp : countPrefix ' ' (some (tab - 1)) ('*' :: '[' :: (key ++ ']' :: ':' :: ' ' :: title)) = 0 := by
      cases h : tab - 1 <;> simp [countPrefix]
    simp [listItemMatch, hcp, olMarker, spanLen, isDecimal, isAsciiDigit]
  have hul : listItemMatch tab false true (abbrLine key title) = none := by
    rw [hshape]
    have hcp : countPrefix ' ' (some (tab - 1)) ('*' :: '[' :: (key ++ ']' :: ':' :: ' ' :: title)) = 0 := by
      cases h : tab - 1 <;> simp [countPrefix]
    simp [listItemMatch, hcp, ulMarker, countSp, countPrefix]
  have hq : quoteSearch (abbrLine key title) = none :=
    quoteSearch_line _ hnl (by intro c hc; rw [hshape] at hc; simp at hc; subst hc; decide)
  have hat := abbrAt_line key title hk ht
  have hsearch : abbrSearch (abbrLine key title) = some (0, key, title, (abbrLine key title).length) := by
    rw [abbrSearch, lineSearch, hshape, lineSearchAux]
    rw [← hshape, hat]
    rfl
  have hstripk : strip key = key := strip_plain hk.plain
  have hstript : strip title = title := strip_plain ht
  have hkne : key.isEmpty = false := by have := hk.ne; cases key <;> simp_all
  have htne : title.isEmpty = false := by have := ht.ne; cases title <;> simp_all
  have hq1 : (title = ['\'', '\'']) = False := by
    simp only [eq_iff_iff, iff_false]
    intro e
    have := ht.chars '\'' (by rw [e]; simp)
    exact absurd this (by decide)
  have hq2 : (title = ['"', '"']) = False := by
    simp only [eq_iff_iff, iff_false]
    intro e
    have := ht.chars '"' (by rw [e]; simp)
    exact absurd this (by decide)
  have hbne : ((abbrLine key title).isEmpty || startsWith (abbrLine key title) ['\n']) = false := by
    rw [hshape]; simp [startsWith]
  have hhead : ∀ c, (abbrLine key title).head? = some c → c ≠ ' ' := by
    intro c hc; rw [hshape] at hc; simp at hc; subst hc; decide
  have hbang : '!' ∉ abbrLine key title := by
    intro hm
    have hm' : '!' ∈ ['*', '['] ++ key ++ [']', ':', ' '] ++ title := by simpa [abbrLine] using hm
    simp only [List.mem_append] at hm'
    rcases hm' with ((h | h) | h) | h
    · exact absurd h (by decide)
    · exact absurd (hk.chars _ h) (by decide)
    · exact absurd h (by decide)
    · exact absurd (ht.chars _ h) (by decide)
  have hadm := admTest_plain tab htab parent (abbrLine key title) hbang hhead
  have hdef : defSearch (abbrLine key title) = none :=
    defSearch_line_none _ hnl (by rw [hshape]; simp [defAt, countPrefix])
  have hfn : fnSearch (abbrLine key title) = none :=
    lineSearch_line_none fnAt _ hnl (by rw [hshape]; simp [fnAt, countPrefix, startsWith]) (by rw [hshape]; simp)
  simp only [dispatchXT, hadm, ite_self, Bool.false_eq_true, if_false, tailEmptyT, hbne, hsp, indentTestX, Bool.false_and,
    Bool.and_false, hhash, hset, hhr,
    tailList, hol, hul, Option.isSome_none, tailDef, hdef, tailQuote, hq, tailFootnote, footnoteP, hfn, tailAbbr, hab,
    if_true, abbrP, hsearch,
    hstripk, hstript, hkne, htne, Bool.or_self, Nat.zero_add, List.drop_length, List.take_zero, Py.isBlank_nil, hq1, hq2,
    or_self, decide_false]

/-! ### `AbbrTreeprocessor`: the occurrences of one key in a text of words -/

open AbbrTree in
theorem isW_alnum {c : Char} (h : isAsciiAlnum c = true) : AbbrTree.isW (some c) = true := by
  have hlt : c.toNat < 128 := DocParse.alnumSp_lt c (by simp [DocSpec.isAlnumSp, h])
  simp [AbbrTree.isW, isWord, hlt, h]

theorem isW_space : AbbrTree.isW (some ' ') = false := by decide

/-- what follows a word: nothing, or a space -/
def AfterWord (X : Str) : Prop := X = [] ∨ ∃ Y, X = ' ' :: Y

theorem afterWord_head {X : Str} (h : AfterWord X) : AbbrTree.isW X.head? = false := by
  rcases h with rfl | ⟨Y, rfl⟩
  · rfl
  · exact isW_space

/-- inside a word (the previous character is a word character) nothing matches -/
theorem segs_inword (keys : List Str) (w : Str) (hw : ∀ c ∈ w, isAsciiAlnum c = true) :
    ∀ (prev : Char) (X : Str), AbbrTree.isW (some prev) = true →
      AbbrTree.segs keys (some prev) 0 (w ++ X) =
        (w ++ (AbbrTree.segs keys (some ((prev :: w).getLast (by simp))) 0 X).1,
         (AbbrTree.segs keys (some ((prev :: w).getLast (by simp))) 0 X).2) := by
  induction w with
  | nil => intro prev X _; simp
  | cons c w ih =>
    intro prev X hp
    have hc : AbbrTree.isW (some c) = true := isW_alnum (hw c List.mem_cons_self)
    have hb : AbbrTree.boundary (some prev) (some c) = false := by simp [AbbrTree.boundary, hp, hc]
    have := ih (fun d hd => hw d (List.mem_cons_of_mem _ hd)) c X hc
    simp only [List.cons_append, AbbrTree.segs, AbbrTree.abbrAt, List.head?_cons, hb, Bool.false_eq_true, if_false,
      this]
    simp [List.getLast_cons]

/-- the characters of a match are skipped -/
theorem segs_skip (keys : List Str) (s : Str) : ∀ (prev : Option Char) (X : Str),
    AbbrTree.segs keys prev s.length (s ++ X) =
      AbbrTree.segs keys (match s.getLast? with | some c => some c | none => prev) 0 X := by
  induction s with
  | nil => intro prev X; rfl
  | cons c s ih =>
    intro prev X
    simp only [List.length_cons, List.cons_append, AbbrTree.segs]
    rw [ih (some c) X]
    cases s with
    | nil => rfl
    | cons d t =>
      rw [List.getLast?_cons_cons, List.getLast?_eq_some_getLast (by simp : d :: t ≠ [])]

theorem startsWith_word_prefix (w X key : Str) (hX : AfterWord X) (hk : ∀ c ∈ key, c ≠ ' ')
    (h : startsWith (w ++ X) key = true) : ∃ r, w = key ++ r := by
  induction key generalizing w with
  | nil => exact ⟨w, rfl⟩
  | cons k key ih =>
    cases w with
    | nil =>
      rcases hX with rfl | ⟨Y, rfl⟩
      · simp [startsWith] at h
      · simp only [List.nil_append, startsWith, Bool.and_eq_true, decide_eq_true_eq] at h
        exact absurd h.1.symm (hk k List.mem_cons_self)
    | cons c w =>
      simp only [List.cons_append, startsWith, Bool.and_eq_true, decide_eq_true_eq] at h
      obtain ⟨r, hr⟩ := ih w (fun d hd => hk d (List.mem_cons_of_mem _ hd)) h.2
      exact ⟨r, by rw [h.1, hr]; rfl⟩

/-- at the start of a word (nothing or a space before it): the word is the key, or nothing matches -/
theorem segs_word (key w X : Str) (hk : WordFacts key) (hw : WordFacts w) (hX : AfterWord X)
    (prev : Option Char) (hp : AbbrTree.isW prev = false) :
    AbbrTree.segs [key] prev 0 (w ++ X) =
      if w = key then
        ([], (key, (AbbrTree.segs [key] (some (w.getLast hw.ne)) 0 X).1) :: (AbbrTree.segs [key] (some (w.getLast hw.ne)) 0 X).2)
      else
        (w ++ (AbbrTree.segs [key] (some (w.getLast hw.ne)) 0 X).1, (AbbrTree.segs [key] (some (w.getLast hw.ne)) 0 X).2) := by
  obtain ⟨c, r, rfl⟩ : ∃ c r, w = c :: r := by
    cases w with
    | nil => exact absurd rfl hw.ne
    | cons c r => exact ⟨c, r, rfl⟩
  have hc : AbbrTree.isW (some c) = true := isW_alnum (hw.chars c List.mem_cons_self)
  have hb : AbbrTree.boundary prev (some c) = true := by simp [AbbrTree.boundary, hp, hc]
  have hkne : key.isEmpty = false := by have := hk.ne; cases key <;> simp_all
  have hksp : ∀ x ∈ key, x ≠ ' ' := by
    intro x hx e; subst e; exact absurd (hk.chars ' ' hx) (by decide)
  by_cases heq : c :: r = key
  · -- the word is the key
    have hlastW : AbbrTree.isW (key.getLast? ) = true := by
      rw [← heq, List.getLast?_eq_some_getLast (by simp)]
      exact isW_alnum (hw.chars _ (List.getLast_mem _))
    have hdrop : ((c :: r) ++ X).drop key.length = X := by rw [← heq]; exact List.drop_left' rfl
    have hsw : startsWith ((c :: r) ++ X) key = true := by
      rw [← heq]; exact CodeLaw.startsWith_append_self _ _
    have hb2 : AbbrTree.boundary key.getLast? (((c :: r) ++ X).drop key.length).head? = true := by
      rw [hdrop]; simp [AbbrTree.boundary, hlastW, afterWord_head hX]
    have hat : AbbrTree.abbrAt [key] prev ((c :: r) ++ X) = some key := by
      simp only [AbbrTree.abbrAt, List.cons_append, List.head?_cons, hb, if_true, List.find?, hkne, Bool.not_false,
        Bool.true_and]
      simp only [List.cons_append] at hsw hb2
      have hb2' : AbbrTree.boundary key.getLast? (c :: (r ++ X))[key.length]? = true := by
        rw [← List.head?_drop]; exact hb2
      simp [hsw, hb2']
    have hskip := segs_skip [key] r (some c) X
    rw [if_pos heq]
    simp only [List.cons_append] at hat ⊢
    simp only [AbbrTree.segs, hat]
    have hlen : key.length - 1 = r.length := by rw [← heq]; simp
    rw [hlen, hskip]
    have hlast : (match r.getLast? with | some x => some x | none => some c) = some ((c :: r).getLast (by simp)) := by
      cases r with
      | nil => rfl
      | cons d t => simp [List.getLast?_cons_cons, List.getLast?_eq_some_getLast, List.getLast_cons]
    rw [hlast]
  · -- another word
    have hat : AbbrTree.abbrAt [key] prev ((c :: r) ++ X) = none := by
      simp only [AbbrTree.abbrAt, List.cons_append, List.head?_cons, hb, if_true, List.find?, hkne, Bool.not_false,
        Bool.true_and]
      cases hsw : startsWith (c :: (r ++ X)) key with
      | false => simp
      | true =>
        obtain ⟨q, hq⟩ := startsWith_word_prefix (c :: r) X key hX hksp (by simpa using hsw)
        have hqne : q ≠ [] := by
          intro e; subst e; exact heq (by simpa using hq)
        have hdrop : (c :: (r ++ X)).drop key.length = q ++ X := by
          rw [show c :: (r ++ X) = (c :: r) ++ X from rfl, hq, List.append_assoc]
          exact List.drop_left' rfl
        obtain ⟨q0, qr, rfl⟩ : ∃ q0 qr, q = q0 :: qr := by
          cases q with
          | nil => exact absurd rfl hqne
          | cons q0 qr => exact ⟨q0, qr, rfl⟩
        have hq0 : AbbrTree.isW (some q0) = true :=
          isW_alnum (hw.chars q0 (by rw [hq]; simp))
        have hlastK : AbbrTree.isW key.getLast? = true := by
          rw [List.getLast?_eq_some_getLast hk.ne]
          exact isW_alnum (hk.chars _ (List.getLast_mem _))
        have hb3 : AbbrTree.boundary key.getLast? (c :: (r ++ X))[key.length]? = false := by
          rw [← List.head?_drop, hdrop]
          simp [AbbrTree.boundary, hq0, hlastK]
        simp [hb3]
    rw [if_neg heq]
    simp only [List.cons_append] at hat ⊢
    simp only [AbbrTree.segs, hat]
    have := segs_inword [key] r (fun d hd => hw.chars d (List.mem_cons_of_mem _ hd)) c X hc
    rw [this]

/-- at the space after a word nothing matches -/
theorem segs_space (key Y : Str) (hk : WordFacts key) (prev : Char) :
    AbbrTree.segs [key] (some prev) 0 (' ' :: Y) =
      (' ' :: (AbbrTree.segs [key] (some ' ') 0 Y).1, (AbbrTree.segs [key] (some ' ') 0 Y).2) := by
  obtain ⟨k, kr, rfl⟩ : ∃ k kr, key = k :: kr := by
    cases key with
    | nil => exact absurd rfl hk.ne
    | cons k kr => exact ⟨k, kr, rfl⟩
  have hks : k ≠ ' ' := by
    intro e; subst e; exact absurd (hk.chars ' ' List.mem_cons_self) (by decide)
  have hat : AbbrTree.abbrAt [k :: kr] (some prev) (' ' :: Y) = none := by
    simp only [AbbrTree.abbrAt, List.find?, startsWith]
    split
    · simp [Ne.symm hks]
    · rfl
  simp only [AbbrTree.segs, hat]

/-! ### general facts about `segs` -/

theorem segs_facts (keys : List Str) : ∀ (s : Str) (prev : Option Char) (k : Nat),
    (∀ c ∈ (AbbrTree.segs keys prev k s).1, c ∈ s) ∧
    (∀ m ∈ (AbbrTree.segs keys prev k s).2, m.1 ∈ keys ∧ ∀ c ∈ m.2, c ∈ s) := by
  intro s
  induction s with
  | nil => intro prev k; cases k <;> simp [AbbrTree.segs]
  | cons c r ih =>
    intro prev k
    cases k with
    | succ k =>
      simp only [AbbrTree.segs]
      obtain ⟨h1, h2⟩ := ih (some c) k
      exact ⟨fun x hx => List.mem_cons_of_mem _ (h1 x hx),
        fun m hm => ⟨(h2 m hm).1, fun x hx => List.mem_cons_of_mem _ ((h2 m hm).2 x hx)⟩⟩
    | zero =>
      simp only [AbbrTree.segs]
      cases hat : AbbrTree.abbrAt keys prev (c :: r) with
      | some key =>
        obtain ⟨h1, h2⟩ := ih (some c) (key.length - 1)
        have hk : key ∈ keys := by
          simp only [AbbrTree.abbrAt] at hat
          split at hat
          · exact List.mem_of_find?_eq_some hat
          · cases hat
        refine ⟨by simp, fun m hm => ?_⟩
        simp only [List.mem_cons] at hm
        rcases hm with rfl | hm
        · exact ⟨hk, fun x hx => List.mem_cons_of_mem _ (h1 x hx)⟩
        · exact ⟨(h2 m hm).1, fun x hx => List.mem_cons_of_mem _ ((h2 m hm).2 x hx)⟩
      | none =>
        obtain ⟨h1, h2⟩ := ih (some c) 0
        refine ⟨fun x hx => ?_, fun m hm => ⟨(h2 m hm).1, fun x hx => List.mem_cons_of_mem _ ((h2 m hm).2 x hx)⟩⟩
        simp only [List.mem_cons] at hx
        rcases hx with rfl | hx
        · exact List.mem_cons_self
        · exact List.mem_cons_of_mem _ (h1 x hx)

/-- without an occurrence the text comes back -/
theorem segs_none (keys : List Str) : ∀ (s : Str) (prev : Option Char),
    (AbbrTree.segs keys prev 0 s).2 = [] → (AbbrTree.segs keys prev 0 s).1 = s := by
  intro s
  induction s with
  | nil => intro prev _; rfl
  | cons c r ih =>
    intro prev h
    simp only [AbbrTree.segs] at h ⊢
    cases hat : AbbrTree.abbrAt keys prev (c :: r) with
    | some key => rw [hat] at h; simp at h
    | none =>
      rw [hat] at h
      simp only at h ⊢
      rw [ih (some c) h]

/-! ### words -/

/-- words separated by single spaces -/
def joinSp (ws : List Str) : Str := join [' '] ws

theorem joinSp_cons_cons (w w' : Str) (r : List Str) : joinSp (w :: w' :: r) = w ++ ' ' :: joinSp (w' :: r) := by
  simp [joinSp, join]

/-- `<abbr title="Title">KEY</abbr>` -/
def abbrHtml (key title : Str) : Str :=
  "<abbr title=\"".toList ++ title ++ "\">".toList ++ key ++ "</abbr>".toList

/-- the text before the first occurrence, then per occurrence the `abbr` element and the text after it -/
def flat (H : Str) (p : Str × List (Str × Str)) : Str := p.1 ++ p.2.flatMap (fun m => H ++ m.2)

/-- the paragraph of words with every word that is the key wrapped -/
def abbrWords (key H : Str) (ws : List Str) : Str := joinSp (ws.map (fun w => if w = key then H else w))

theorem flat_words (key H : Str) (hk : WordFacts key) : ∀ (ws : List Str), ws ≠ [] → (∀ w ∈ ws, WordFacts w) →
    ∀ (prev : Option Char), AbbrTree.isW prev = false →
      flat H (AbbrTree.segs [key] prev 0 (joinSp ws)) = abbrWords key H ws := by
  intro ws
  induction ws with
  | nil => intro h; exact absurd rfl h
  | cons w ws ih =>
    intro _ hws prev hp
    have hw := hws w List.mem_cons_self
    cases ws with
    | nil =>
      have e : joinSp [w] = w ++ [] := by simp [joinSp, join]
      rw [e, segs_word key w [] hk hw (Or.inl rfl) prev hp]
      by_cases heq : w = key
      · simp [heq, flat, abbrWords, joinSp, join, AbbrTree.segs]
      · simp [heq, flat, abbrWords, joinSp, join, AbbrTree.segs]
    | cons w' r =>
      have ih' := ih (by simp) (fun x hx => hws x (List.mem_cons_of_mem _ hx)) (some ' ') isW_space
      rw [joinSp_cons_cons, segs_word key w _ hk hw (Or.inr ⟨_, rfl⟩) prev hp, segs_space key _ hk]
      have hrec : abbrWords key H (w :: w' :: r) =
          (if w = key then H else w) ++ ' ' :: abbrWords key H (w' :: r) := by
        simp only [abbrWords, List.map_cons]
        rw [joinSp_cons_cons]
      rw [hrec, ← ih']
      by_cases heq : w = key
      · simp [heq, flat]
      · simp [heq, flat, List.append_assoc]

/-! ### the abbreviation tree processor on the prettified paragraph; unescape; serializer -/

/-- an `abbr` element after unescape -/
def occNode (T : Str) (m : Str × Str) : Node :=
  { tag := .name "abbr".toList, attrs := [("title".toList, T)], text := some m.1, tail := some m.2 }

/-- the document after the abbreviation processor -/
def abbrDoc (K T para : Str) : Node :=
  let p := AbbrTree.segs [K] none 0 para
  { tag := .name "div".toList, text := some ['\n'], tail := some ['\n'],
    children := [
      if p.2.isEmpty then { tag := .name "p".toList, text := some para, tail := some ['\n'] }
      else { tag := .name "p".toList, text := some p.1, children := p.2.map (AbbrTree.mkAbbr [(K, T)]),
             tail := some ['\n'] }] }

theorem segs_nl (keys : List Str) : AbbrTree.segs keys none 0 ['\n'] = (['\n'], []) := by
  simp [AbbrTree.segs, AbbrTree.abbrAt, AbbrTree.boundary, AbbrTree.isW, isWord, isAsciiAlnum, isAsciiAlpha,
    isAsciiLower, isAsciiUpper, isAsciiDigit]

theorem abbrRun_doc (K T para : Str) (hp : para ≠ []) :
    AbbrTree.run [(K, T)] (Escape.prettyDoc para) = abbrDoc K T para := by
  obtain ⟨a, b, rfl⟩ : ∃ a b, para = a :: b := by
    cases para with
    | nil => exact absurd rfl hp
    | cons a b => exact ⟨a, b, rfl⟩
  have hsort : AbbrTree.sortKeys ([(K, T)].map (·.1)) = [K] := by
    simp [AbbrTree.sortKeys, AbbrTree.insertByLen]
  simp only [AbbrTree.run, List.isEmpty_cons, Bool.false_eq_true, if_false, hsort, Escape.prettyDoc,
    AbbrTree.abbrNode, AbbrTree.abbrKids, Node.truthy, Bool.not_false, Bool.and_self, Bool.and_true, if_true,
    Option.getD_some, segs_nl, List.isEmpty_nil, Bool.not_true, Bool.false_and, List.nil_append, List.append_nil,
    abbrDoc]
  split <;> rfl

theorem mkAbbr_key (K T : Str) (m : Str × Str) (hm : m.1 = K) :
    AbbrTree.mkAbbr [(K, T)] m =
      { tag := .name "abbr".toList, attrs := [("title".toList, T)], text := some m.1, textAtomic := true,
        tail := some m.2 } := by
  simp [AbbrTree.mkAbbr, hm]

theorem unescapeKids_occs (K T : Str) (hK : K ≠ []) (hKs : TreeProc.STX ∉ K) (hT : TreeProc.STX ∉ T)
    (occs : List (Str × Str)) (h : ∀ m ∈ occs, m.1 = K ∧ TreeProc.STX ∉ m.2) :
    TreeProc.unescapeKids (occs.map (AbbrTree.mkAbbr [(K, T)])) = some (occs.map (occNode T)) := by
  induction occs with
  | nil => rfl
  | cons m occs ih =>
    obtain ⟨hm1, hm2⟩ := h m List.mem_cons_self
    obtain ⟨k, kr, hk⟩ : ∃ k kr, K = k :: kr := by
      cases K with
      | nil => exact absurd rfl hK
      | cons k kr => exact ⟨k, kr, rfl⟩
    obtain ⟨m1, m2⟩ := m
    simp only at hm1 hm2
    subst hm1
    simp only [List.map_cons, TreeProc.unescapeKids, ih (fun x hx => h x (List.mem_cons_of_mem _ hx)),
      mkAbbr_key m1 T (m1, m2) rfl]
    have hk' : TreeProc.unescapeText 0 m1 = some m1 := CodeLaw.unescapeText_id _ hKs
    cases m2 with
    | nil =>
      rw [hk] at hk' ⊢
      simp [TreeProc.unescapeTree, TreeProc.unescapeKids, TreeProc.unescAttrs, Node.truthy, hk',
        CodeLaw.unescapeText_id _ hT, occNode]
    | cons x y =>
      rw [hk] at hk' ⊢
      simp [TreeProc.unescapeTree, TreeProc.unescapeKids, TreeProc.unescAttrs, Node.truthy, hk',
        CodeLaw.unescapeText_id _ hT, CodeLaw.unescapeText_id _ hm2, occNode]

/-- the document after unescape -/
def abbrFin (K T para : Str) : Node :=
  let p := AbbrTree.segs [K] none 0 para
  { tag := .name "div".toList, text := some ['\n'], tail := some ['\n'],
    children := [
      if p.2.isEmpty then { tag := .name "p".toList, text := some para, tail := some ['\n'] }
      else { tag := .name "p".toList, text := some p.1, children := p.2.map (occNode T), tail := some ['\n'] }] }

theorem unescapeTree_abbrDoc (K T para : Str) (hK : K ≠ []) (hKs : TreeProc.STX ∉ K) (hT : TreeProc.STX ∉ T)
    (hp : para ≠ []) (hps : TreeProc.STX ∉ para) :
    TreeProc.unescapeTree (abbrDoc K T para) = some (abbrFin K T para) := by
  have t3 : TreeProc.unescapeText 0 ['\n'] = some ['\n'] := by decide
  obtain ⟨f1, f2⟩ := segs_facts [K] para none 0
  have hocc := unescapeKids_occs K T hK hKs hT (AbbrTree.segs [K] none 0 para).2
    (fun m hm => ⟨by simpa using (f2 m hm).1, fun hx => hps ((f2 m hm).2 _ hx)⟩)
  have hpre : TreeProc.STX ∉ (AbbrTree.segs [K] none 0 para).1 := fun hx => hps (f1 _ hx)
  obtain ⟨a, b, rfl⟩ : ∃ a b, para = a :: b := by
    cases para with
    | nil => exact absurd rfl hp
    | cons a b => exact ⟨a, b, rfl⟩
  by_cases hempty : (AbbrTree.segs [K] none 0 (a :: b)).2.isEmpty = true
  · simp only [abbrDoc, abbrFin, hempty, if_true]
    simp [TreeProc.unescapeTree, TreeProc.unescapeKids, TreeProc.unescAttrs, Node.truthy, t3,
      CodeLaw.unescapeText_id _ hps]
  · simp only [abbrDoc, abbrFin, hempty, Bool.false_eq_true, if_false]
    cases hpre1 : (AbbrTree.segs [K] none 0 (a :: b)).1 with
    | nil =>
      simp [TreeProc.unescapeTree, TreeProc.unescapeKids, TreeProc.unescAttrs, Node.truthy, t3, hocc]
    | cons x y =>
      rw [hpre1] at hpre
      simp [TreeProc.unescapeTree, TreeProc.unescapeKids, TreeProc.unescAttrs, Node.truthy, t3, hocc,
        CodeLaw.unescapeText_id _ hpre]

theorem serializeList_occs (fmt : Ser.Fmt) (K T : Str) (hKp : ∀ c ∈ K, c ≠ '&' ∧ c ≠ '<' ∧ c ≠ '>')
    (hTp : ∀ c ∈ T, c ≠ '&' ∧ c ≠ '<' ∧ c ≠ '>' ∧ c ≠ '"') (hTne : "title".toList ≠ T)
    (occs : List (Str × Str)) (h : ∀ m ∈ occs, m.1 = K ∧ ∀ c ∈ m.2, c ≠ '&' ∧ c ≠ '<' ∧ c ≠ '>') :
    Ser.serializeList fmt (occs.map (occNode T)) = occs.flatMap (fun m => abbrHtml K T ++ m.2) := by
  induction occs with
  | nil => rfl
  | cons m occs ih =>
    obtain ⟨hm1, hm2⟩ := h m List.mem_cons_self
    obtain ⟨m1, m2⟩ := m
    simp only at hm1 hm2
    subst hm1
    have eT : Ser.escAttrHtml T = T := escAttrHtml_plain T hTp
    have eK : Ser.escCdata m1 = m1 := CodeLaw.escCdata_plain _ hKp
    have e2 : Ser.escCdata m2 = m2 := CodeLaw.escCdata_plain _ hm2
    simp only [List.map_cons, Ser.serializeList, List.flatMap_cons, ih (fun x hx => h x (List.mem_cons_of_mem _ hx)),
      occNode]
    rw [serialize_attr1 fmt _ _ _ _ _ _ _ _ (by decide) (by decide) (by rw [eT]; exact hTne), eT]
    have hk : (if Node.truthy (some m1) = true then Ser.escCdata ((some m1).getD []) else []) = m1 := by
      cases m1 with
      | nil => rfl
      | cons x y => simpa [Node.truthy] using eK
    have ht : (if Node.truthy (some m2) = true then Ser.escCdata ((some m2).getD []) else []) = m2 := by
      cases m2 with
      | nil => rfl
      | cons x y => simpa [Node.truthy] using e2
    rw [hk, ht]
    simp only [Ser.serializeList, List.append_nil]
    unfold abbrHtml
    simp only [String.reduceToList, List.cons_append, List.append_assoc, List.nil_append]

theorem serialize_abbrFin (fmt : Ser.Fmt) (K T para : Str) (hKp : ∀ c ∈ K, c ≠ '&' ∧ c ≠ '<' ∧ c ≠ '>')
    (hTp : ∀ c ∈ T, c ≠ '&' ∧ c ≠ '<' ∧ c ≠ '>' ∧ c ≠ '"') (hTne : "title".toList ≠ T)
    (hp : para ≠ []) (hpp : ∀ c ∈ para, c ≠ '&' ∧ c ≠ '<' ∧ c ≠ '>') :
    Ser.serialize fmt (abbrFin K T para) =
      "<div>".toList ++ ('\n' :: ("<p>".toList ++ flat (abbrHtml K T) (AbbrTree.segs [K] none 0 para) ++ "</p>".toList)
        ++ ['\n']) ++ "</div>\n".toList := by
  have e7 : Ser.escCdata ['\n'] = ['\n'] := by decide
  obtain ⟨f1, f2⟩ := segs_facts [K] para none 0
  have hocc := serializeList_occs fmt K T hKp hTp hTne (AbbrTree.segs [K] none 0 para).2
    (fun m hm => ⟨by simpa using (f2 m hm).1, fun c hc => hpp c ((f2 m hm).2 c hc)⟩)
  have hpre : Ser.escCdata (AbbrTree.segs [K] none 0 para).1 = (AbbrTree.segs [K] none 0 para).1 :=
    CodeLaw.escCdata_plain _ (fun c hc => hpp c (f1 c hc))
  have hpara : Ser.escCdata para = para := CodeLaw.escCdata_plain _ hpp
  by_cases hempty : (AbbrTree.segs [K] none 0 para).2.isEmpty = true
  · have h2 : (AbbrTree.segs [K] none 0 para).2 = [] := by simpa using hempty
    have h1 := segs_none [K] para none h2
    simp only [abbrFin, hempty, if_true]
    rw [CodeLaw.serialize_plain fmt _ _ _ _ _ _ (by decide) (by decide)]
    simp only [Ser.serializeList]
    rw [CodeLaw.serialize_plain fmt _ _ _ _ _ _ (by decide) (by decide)]
    obtain ⟨a, b, rfl⟩ : ∃ a b, para = a :: b := by
      cases para with
      | nil => exact absurd rfl hp
      | cons a b => exact ⟨a, b, rfl⟩
    simp only [Node.truthy, if_true, Option.getD_some, e7, hpara, Ser.serializeList, List.append_nil, flat, h1, h2,
      List.flatMap_nil]
    simp only [String.reduceToList, List.cons_append, List.append_assoc, List.nil_append]
  · simp only [abbrFin, hempty, Bool.false_eq_true, if_false]
    rw [CodeLaw.serialize_plain fmt _ _ _ _ _ _ (by decide) (by decide)]
    simp only [Ser.serializeList]
    rw [CodeLaw.serialize_plain fmt _ _ _ _ _ _ (by decide) (by decide), hocc]
    have hk : (if Node.truthy (some (AbbrTree.segs [K] none 0 para).1) = true then
        Ser.escCdata ((some (AbbrTree.segs [K] none 0 para).1).getD []) else []) = (AbbrTree.segs [K] none 0 para).1 := by
      cases h : (AbbrTree.segs [K] none 0 para).1 with
      | nil => rfl
      | cons x y => rw [h] at hpre; simpa [Node.truthy] using hpre
    rw [hk]
    simp only [Node.truthy, if_true, Option.getD_some, e7, List.append_nil, flat]
    simp only [String.reduceToList, List.cons_append, List.append_assoc, List.nil_append]

/-! ### the document -/

theorem plain_joinSp : ∀ (ws : List Str), ws ≠ [] → (∀ w ∈ ws, WordFacts w) → PlainFacts (joinSp ws) := by
  intro ws
  induction ws with
  | nil => intro h; exact absurd rfl h
  | cons w ws ih =>
    intro _ hws
    have hw := hws w List.mem_cons_self
    cases ws with
    | nil => simpa [joinSp, join] using hw.plain
    | cons w' r =>
      have ih' := ih (by simp) (fun x hx => hws x (List.mem_cons_of_mem _ hx))
      rw [joinSp_cons_cons]
      obtain ⟨a, b, hab⟩ : ∃ a b, w = a :: b := by
        cases w with
        | nil => exact absurd rfl hw.ne
        | cons a b => exact ⟨a, b, rfl⟩
      obtain ⟨x, y, hxy⟩ : ∃ x y, joinSp (w' :: r) = x :: y := by
        cases h : joinSp (w' :: r) with
        | nil => exact absurd h ih'.ne
        | cons x y => exact ⟨x, y, rfl⟩
      have hx : x ≠ ' ' := ih'.head x (by rw [hxy]; rfl)
      refine ⟨by rw [hab]; simp, ?_, ?_, ?_, ?_⟩
      · intro c hc
        rcases List.mem_append.1 hc with hc | hc
        · exact hw.plain.chars c hc
        · rcases List.mem_cons.1 hc with rfl | hc
          · decide
          · exact ih'.chars c hc
      · intro c hc; rw [hab] at hc; simp at hc; subst hc; exact hw.plain.head a (by rw [hab]; rfl)
      · intro c hc
        rw [List.getLast?_append] at hc
        have : (' ' :: joinSp (w' :: r)).getLast? = (joinSp (w' :: r)).getLast? := by
          rw [hxy, List.getLast?_cons_cons]
        rw [this] at hc
        cases hl : (joinSp (w' :: r)).getLast? with
        | none => rw [hxy] at hl; simp at hl
        | some z =>
          rw [hl] at hc
          simp only [Option.some_or] at hc
          exact ih'.last c (by rw [hl, ← hc])
      · -- no double space
        have hnds : ∀ (u : Str), (∀ c ∈ u, c ≠ ' ') → ∀ Z, DocSpec.noDoubleSpace (' ' :: Z) = true →
            DocSpec.noDoubleSpace (u ++ ' ' :: Z) = true := by
          intro u
          induction u with
          | nil => intro _ Z hZ; exact hZ
          | cons c u ihu =>
            intro hu Z hZ
            have hc : c ≠ ' ' := hu c List.mem_cons_self
            have hrest := ihu (fun d hd => hu d (List.mem_cons_of_mem _ hd)) Z hZ
            cases u with
            | nil =>
              simp only [List.cons_append, List.nil_append] at hrest ⊢
              rw [nds_cons2]; simp [hc, hrest]
            | cons d t =>
              simp only [List.cons_append] at hrest ⊢
              rw [nds_cons2]; simp [hc, hrest]
        apply hnds w (fun c hc e => by subst e; exact absurd (hw.chars ' ' hc) (by decide))
        rw [hxy, nds_cons2]
        simp [hx]
        rw [← hxy]; exact ih'.nds

/-- the source: the definition line, an empty line, the paragraph of words -/
def abbrSrc (key title : Str) (ws : List Str) : Str := DocParse.joinChunks [abbrLine key title, joinSp ws]

theorem abbrSrc_lines (key title : Str) (ws : List Str) :
    abbrSrc key title ws = joinLines [abbrLine key title, [], joinSp ws] := by
  simp [abbrSrc, DocParse.joinChunks, joinLines, join]

theorem parseDocumentXT_abbr (cfg : XCfg) (hab : cfg.abbr = true) (tab : Nat) (htab : tab > 0) (key title : Str)
    (ws : List Str) (hk : WordFacts key)
    (ht : PlainFacts title) (hne : ws ≠ []) (hws : ∀ w ∈ ws, WordFacts w) :
    parseDocumentXT false cfg tab (abbrSrc key title ws ++ ['\n', '\n']) =
      some ((Node.el "div").append (mkText "p" (joinSp ws)), [(abKey key, (title, none))]) := by
  have hp := plain_joinSp ws hne hws
  have hpl : ∀ l ∈ [joinSp ws], PlainFacts l := by intro l hl; simp at hl; subst hl; exact hp
  have hnelA : Escape.noEmptyLineFrom true (abbrLine key title) = true :=
    DocParse.nel_line _ (by simp [abbrLine]) (nl_not_mem_abbrLine key title hk ht)
  have hnelP : Escape.noEmptyLineFrom true (joinSp ws) = true := DocParse.nel_line _ hp.ne hp.noNl
  have hsplit : splitS ['\n', '\n'] (abbrSrc key title ws ++ ['\n', '\n']) = [abbrLine key title, joinSp ws, []] := by
    have := DocParse.splitS_chunks [abbrLine key title, joinSp ws] (by simp)
      (by intro b hb; simp at hb; rcases hb with rfl | rfl <;> assumption)
    simpa [abbrSrc] using this
  have hfuel : fuelForX (abbrSrc key title ws ++ ['\n', '\n']).length =
      (2 * (abbrSrc key title ws ++ ['\n', '\n']).length + 7) + 1 + 1 + 1 := by simp only [fuelForX]
  have h1 := fun pb rest => dispatch_abbrLine cfg hab tab htab pb [] [] (Node.el "div") key title rest hk ht
  have h2 := fun pb rest => dispatchXT_plain cfg tab htab pb [] [(abKey key, (title, none))] (Node.el "div")
    (joinSp ws) [] rest hpl
  have hj : joinLines [joinSp ws] = joinSp ws := rfl
  simp only [hj] at h2
  have hpara := paraP_plain [] (by decide) [(abKey key, (title, none))] (Node.el "div") (joinSp ws) [] [[]] hpl
  simp only [hj] at hpara
  have hpre : preCode (mkText "p" (joinSp ws)) = none := by
    have : (mkText "p" (joinSp ws)).isTag "pre" = false := by
      simp only [mkText, Node.isTag, Node.el]; decide
    simp [preCode, this]
  have h3 : ∀ pb, dispatchXT false cfg tab pb [] [(abKey key, (title, none))]
      ((Node.el "div").append (mkText "p" (joinSp ws))) [] [] =
      some ((Node.el "div").append (mkText "p" (joinSp ws)), [(abKey key, (title, none))], []) := by
    intro pb
    simp only [dispatchXT, admTest_plain tab htab _ [] (by simp) (by simp), ite_self, tailEmptyT, List.isEmpty_nil,
      Bool.true_or, if_true, emptyP, CodeLaw.last_append, hpre, List.drop_nil]
  simp only [parseDocumentXT, parseChunk, hsplit]
  rw [hfuel]
  simp only [parseBlocksXT, h1, h2, hpara, List.nil_append, h3]

/-! ### end to end -/

theorem safeLine_abbrLine (key title : Str) (hk : WordFacts key) (ht : PlainFacts title) :
    SafeLine (abbrLine key title) := by
  have hch : ∀ c ∈ abbrLine key title, c = '*' ∨ c = '[' ∨ c = ']' ∨ c = ':' ∨ DocSpec.isAlnumSp c = true := by
    intro c hc
    have hc' : c ∈ ['*', '['] ++ key ++ [']', ':', ' '] ++ title := by simpa [abbrLine] using hc
    simp only [List.mem_append] at hc'
    rcases hc' with ((h | h) | h) | h
    · simp at h; rcases h with rfl | rfl <;> simp
    · exact Or.inr (Or.inr (Or.inr (Or.inr (hk.plain.chars c h))))
    · simp at h; rcases h with rfl | rfl | rfl <;> simp
      decide
    · exact Or.inr (Or.inr (Or.inr (Or.inr (ht.chars c h))))
  have hfacts : ∀ c ∈ abbrLine key title, c.toNat < 128 ∧ c ≠ '<' ∧ c ≠ '&' ∧ c ≠ '\n' ∧ c ≠ Normalize.STX ∧
      c ≠ Normalize.ETX ∧ c ≠ '\r' ∧ c ≠ '\t' := by
    intro c hc
    rcases hch c hc with rfl | rfl | rfl | rfl | h
    · decide
    · decide
    · decide
    · decide
    · have f := alnumSp_quiet h
      refine ⟨f.2.2.2.2.2.2.2.2, f.2.2.2.2.1, f.2.2.2.1, f.2.1, ?_, ?_, ?_, ?_⟩ <;>
        (intro e; subst e; exact absurd h (by decide))
  refine ⟨?_, fun c hc => ⟨(hfacts c hc).1, (hfacts c hc).2.1, (hfacts c hc).2.2.1⟩⟩
  simp only [DocParse.lineSafe, Bool.and_eq_true, List.all_eq_true, Bool.or_eq_true, bne_iff_ne, ne_eq]
  refine ⟨fun c hc => ?_, Or.inr ?_⟩
  · have f := hfacts c hc
    exact ⟨⟨⟨⟨f.2.2.2.1, f.2.2.2.2.1⟩, f.2.2.2.2.2.1⟩, f.2.2.2.2.2.2.1⟩, f.2.2.2.2.2.2.2⟩
  · simp [abbrLine]

theorem abbrsOf_one (key title : Str) (ht : title ≠ []) : abbrsOf [(abKey key, (title, none))] = [(key, title)] := by
  have : title.isEmpty = false := by cases title <;> simp_all
  simp only [abbrsOf, List.foldl, isAbEntry, abKey, startsWith, decide_true, Bool.and_self, if_true, this,
    Bool.false_eq_true, if_false, dictSet, List.any_nil, List.drop_succ_cons, List.drop_zero, List.nil_append]

theorem refsOf_one (key title : Str) : refsOf [(abKey key, (title, none))] = [] := by
  simp [refsOf, isFnEntry, isAbEntry, abKey, startsWith]

/-- the rendering of the paragraph -/
def abbrOut (key title : Str) (ws : List Str) : Str :=
  "<p>".toList ++ abbrWords key (abbrHtml key title) ws ++ "</p>".toList

theorem stx_not_mem_flat (H : Str) (hH : Post.STX ∉ H) (keys : List Str) (s : Str) (hs : Post.STX ∉ s)
    (prev : Option Char) (k : Nat) : Post.STX ∉ flat H (AbbrTree.segs keys prev k s) := by
  obtain ⟨f1, f2⟩ := segs_facts keys s prev k
  intro hm
  simp only [flat, List.mem_append, List.mem_flatMap] at hm
  rcases hm with hm | ⟨m, hm, hx⟩
  · exact hs (f1 _ hm)
  · rcases hx with hx | hx
    · exact hH hx
    · exact hs ((f2 m hm).2 _ hx)

theorem abbrOut_shape (key title : Str) (ws : List Str) : ∃ M, abbrOut key title ws = '<' :: M ++ ['>'] := by
  refine ⟨"p>".toList ++ abbrWords key (abbrHtml key title) ws ++ "</p".toList, ?_⟩
  unfold abbrOut
  simp only [String.reduceToList, List.cons_append, List.append_assoc, List.nil_append]

theorem convertX_abbr (cfg : Pipeline.Cfg) (hbl : cfg.blockLevel = TreeProc.defaultBlockLevel) (htab : 0 < cfg.tab)
    (key title : Str) (ws : List Str) (hk : WordFacts key) (ht : PlainFacts title) (hTne : "title".toList ≠ title)
    (hne : ws ≠ []) (hws : ∀ w ∈ ws, WordFacts w) :
    PipelineX.convertX { abbr := true } cfg (abbrSrc key title ws) = .ok (abbrOut key title ws) := by
  have hp := plain_joinSp ws hne hws
  have hkp := hk.plain
  -- the front
  obtain ⟨s1, s2, s3, _, s5⟩ := front_lines cfg.tab [abbrLine key title, [], joinSp ws] (by simp)
    (by
      intro l hl
      simp only [List.mem_cons, List.mem_nil_iff, or_false] at hl
      rcases hl with rfl | rfl | rfl
      · exact safeLine_abbrLine key title hk ht
      · exact ⟨by decide, by simp⟩
      · exact hp.safeLine)
    ⟨'*', by rw [← abbrSrc_lines]; simp [abbrSrc, DocParse.joinChunks, abbrLine], by decide⟩
  rw [← abbrSrc_lines] at s1 s2 s3 s5
  -- the block stage
  have hblk := parseDocumentXT_abbr acfg rfl cfg.tab htab key title ws hk ht hne hws
  -- the inline stage
  have hquiet : quietKids false ((Node.el "div").append (mkText "p" (joinSp ws))).children = true := by
    have := quietStr_chars false (joinSp ws) hp.chars
    simp [Node.append, Node.el, mkText, quietKids, quietTree, Node.truthy, this]
  have hrun := fun (ic : Inline.Cfg) (keys : List Str) =>
    runX_quiet { cfg := ic, table := InlineX.table false false false, fnKeys := keys } false
      (fun hm => nl_mem_table false false false hm) (Nat.le_trans (by decide) (table_length false false false)) _ []
      hquiet
  -- the tree stages
  have hpre := Escape.prettify_paragraph (joinSp ws)
  have habbr := abbrRun_doc key title (joinSp ws) hp.ne
  have hun := unescapeTree_abbrDoc key title (joinSp ws) hk.ne hkp.noStx ht.noStx hp.ne hp.noStx
  have hser := serialize_abbrFin cfg.fmt key title (joinSp ws) hkp.noMarkup
    (fun c hc => let f := alnumSp_quiet (ht.chars c hc); ⟨f.2.2.2.1, f.2.2.2.2.1, f.2.2.2.2.2.1, f.2.2.2.2.2.2.1⟩)
    hTne hp.ne hp.noMarkup
  have hflat := flat_words key (abbrHtml key title) hk ws hne hws none rfl
  -- the end
  have hH : Post.STX ∉ abbrHtml key title := by
    intro hm
    unfold abbrHtml at hm
    rcases List.mem_append.1 hm with hm | hm
    · rcases List.mem_append.1 hm with hm | hm
      · rcases List.mem_append.1 hm with hm | hm
        · rcases List.mem_append.1 hm with hm | hm
          · simp only [String.reduceToList] at hm; exact absurd hm (by decide)
          · exact ht.noStx hm
        · simp only [String.reduceToList] at hm; exact absurd hm (by decide)
      · exact hkp.noStx hm
    · simp only [String.reduceToList] at hm; exact absurd hm (by decide)
  have hJ : Post.STX ∉ abbrOut key title ws := by
    intro hm
    unfold abbrOut at hm
    rw [← hflat] at hm
    rcases List.mem_append.1 hm with hm | hm
    · rcases List.mem_append.1 hm with hm | hm
      · simp only [String.reduceToList] at hm; exact absurd hm (by decide)
      · exact stx_not_mem_flat _ hH _ _ hp.noStx _ _ hm
    · simp only [String.reduceToList] at hm; exact absurd hm (by decide)
  obtain ⟨M, hM⟩ := abbrOut_shape key title ws
  have hfin := finishX_wrapped { abbr := true } cfg rfl (abbrOut key title ws) hJ
    (fun c hc => by
      rw [hM] at hc
      have : c = '<' := by simpa using hc.symm
      subst this; decide)
    (fun c hc => by
      rw [hM, show '<' :: M ++ ['>'] = ('<' :: M) ++ ['>'] from rfl, List.getLast?_append] at hc
      have : c = '>' := by simpa using hc.symm
      subst this; decide)
  have hcfg : ({ admonition := false, defList := false, footnotes := false, abbr := true, saneLists := false } : XCfg) =
      acfg := rfl
  simp only [PipelineX.convertX, s1, s2, PipelineX.Exts.unsupported, Bool.false_eq_true, if_false,
    PipelineX.treeX, PipelineX.prepareX, s3, s5, Bool.and_false, Bool.false_and,
    PipelineX.Exts.blockCfg, hcfg, hblk, PipelineX.refsX, Bool.or_true, Bool.or_false, if_true, PipelineX.escX, hrun]
  simp only [hbl, hpre, abbrsOf_one key title ht.ne, habbr, hun, hser, hflat]
  exact hfin

end MdVerif.RenderX
