/-
Helper lemmas for `Props/C16RenderG.lean`, part 1: footnotes with references anywhere in the paragraph — the printed
forms (a paragraph line `t[^a]u[^b]v…` with any number of references, any number of definition blocks), and the block
stage on them.

Core Lean only.
-/
import MdVerif.Lemmas.RenderXFn
import MdVerif.Lemmas.RenderXCombo

namespace MdVerif.RenderG
open Py Block BlockExt MdVerif.RenderX

/-! ### the paragraph line -/

/-- the characters of a paragraph line with footnote references -/
def ParaCh (c : Char) : Prop := DocSpec.isAlnumSp c = true ∨ c = '[' ∨ c = '^' ∨ c = ']'

/-- `[^id]tail` for every segment -/
def refSegs : List (Str × Str) → Str
  | [] => []
  | s :: r => fnRefSrc s.1 ++ s.2 ++ refSegs r

/-- the paragraph line: the text, then the references, each followed by its own text -/
def fnPara (t : Str) (segs : List (Str × Str)) : Str := t ++ refSegs segs

/-- the labels are words, the texts after the references consist of letters, digits and spaces (possibly none) -/
structure SegsOK (segs : List (Str × Str)) : Prop where
  ids : ∀ s ∈ segs, WordFacts s.1
  tails : ∀ s ∈ segs, ∀ c ∈ s.2, DocSpec.isAlnumSp c = true

theorem SegsOK.tail {s : Str × Str} {r : List (Str × Str)} (h : SegsOK (s :: r)) : SegsOK r :=
  ⟨fun x hx => h.ids x (List.mem_cons_of_mem _ hx), fun x hx => h.tails x (List.mem_cons_of_mem _ hx)⟩

theorem paraCh_refSegs (segs : List (Str × Str)) (h : SegsOK segs) : ∀ c ∈ refSegs segs, ParaCh c := by
  induction segs with
  | nil => intro c hc; simp [refSegs] at hc
  | cons s r ih =>
    intro c hc
    simp only [refSegs, fnRefSrc, List.mem_append, List.mem_cons, List.mem_nil_iff, or_false] at hc
    rcases hc with (((rfl | rfl | hc) | rfl) | hc) | hc
    · exact Or.inr (Or.inl rfl)
    · exact Or.inr (Or.inr (Or.inl rfl))
    · exact Or.inl ((h.ids s List.mem_cons_self).plain.chars c hc)
    · exact Or.inr (Or.inr (Or.inr rfl))
    · exact Or.inl (h.tails s List.mem_cons_self c hc)
    · exact ih h.tail c hc

theorem paraCh_fnPara (t : Str) (segs : List (Str × Str)) (ht : PlainFacts t) (h : SegsOK segs) :
    ∀ c ∈ fnPara t segs, ParaCh c := by
  intro c hc
  rcases List.mem_append.1 hc with hc | hc
  · exact Or.inl (ht.chars c hc)
  · exact paraCh_refSegs segs h c hc

/-- what the stages need of such a character -/
theorem paraCh_facts {c : Char} (h : ParaCh c) :
    c ∉ coreTrig ∧ c ≠ '\n' ∧ c ≠ ':' ∧ c ≠ '*' ∧ c ≠ '/' ∧ c ≠ '`' ∧ c ≠ '\\' ∧ c.toNat < 128 ∧ c ≠ '<' ∧ c ≠ '&' ∧
    c ≠ Normalize.STX ∧ c ≠ Normalize.ETX ∧ c ≠ '\r' ∧ c ≠ '\t' := by
  rcases h with h | rfl | rfl | rfl
  · have f := alnumSp_quiet h
    have hall : ∀ x ∈ coreTrig, DocSpec.isAlnumSp x = false := by decide
    refine ⟨fun hm => (by rw [hall c hm] at h; cases h), f.2.1, ?_, ?_, ?_, ?_, ?_, f.2.2.2.2.2.2.2.2, f.2.2.2.2.1, f.2.2.2.1,
      ?_, ?_, ?_, ?_⟩ <;> (intro e; subst e; exact absurd h (by decide))
  · decide
  · decide
  · decide

/-- a line of such characters that starts with a letter or digit -/
structure ParaLine (L : Str) : Prop where
  chars : ∀ c ∈ L, ParaCh c
  head : ∃ a b, L = a :: b ∧ DocSpec.isAlnumSp a = true ∧ a ≠ ' '

theorem paraLine_fnPara (t : Str) (segs : List (Str × Str)) (ht : PlainFacts t) (h : SegsOK segs) :
    ParaLine (fnPara t segs) := by
  refine ⟨paraCh_fnPara t segs ht h, ?_⟩
  obtain ⟨a, b, rfl⟩ : ∃ a b, t = a :: b := by
    cases t with
    | nil => exact absurd rfl ht.ne
    | cons a b => exact ⟨a, b, rfl⟩
  exact ⟨a, b ++ refSegs segs, rfl, ht.chars a List.mem_cons_self, ht.head a rfl⟩

theorem ParaLine.noNl {L : Str} (h : ParaLine L) : '\n' ∉ L := fun hm => (paraCh_facts (h.chars _ hm)).2.1 rfl

theorem ParaLine.ne {L : Str} (h : ParaLine L) : L ≠ [] := by
  obtain ⟨a, b, rfl, _⟩ := h.head
  simp

theorem coreFree2_para (L : Str) (h : ParaLine L) : CoreFree2 L := by
  refine ⟨fun c hc => (paraCh_facts (h.chars c hc)).1, ?_, ?_⟩
  · obtain ⟨a, b, rfl, ha, hasp⟩ := h.head
    have := DocParse.alnum_visible a ha hasp
    simp [Escape.startsVisible, this]
  · unfold Escape.secondLine
    have := joinLines_lines (l := [L]) (by simp) (by intro p hp; simp at hp; subst hp; exact h.noNl)
    rw [show joinLines [L] = L from rfl] at this
    rw [this]
    rfl

/-- the paragraph line goes to `ParagraphProcessor` -/
theorem dispatch_para (cfg : XCfg) (tab : Nat) (htab : tab > 0) (pb : PB) (refs : Refs) (parent : Node) (L : Str)
    (rest : List Str) (h : ParaLine L) :
    dispatchXT false cfg tab pb [] refs parent L rest = some (parent.append (mkText "p" L), refs, rest) := by
  have hfree := coreFree2_para L h
  have hnl := h.noNl
  have hne := h.ne
  obtain ⟨a, b, hab, ha, hasp⟩ := h.head
  have habr : a ≠ '[' := by intro e; subst e; exact absurd ha (by decide)
  have hfnat : fnAt L = none := by
    rw [hab]
    simp [fnAt, countPrefix, hasp, startsWith, habr]
  have hfn : fnSearch L = none := lineSearch_line_none fnAt _ hnl hfnat hne
  have href : refSearch L = none := by
    apply Escape.refSearch_eq_none (esc := ['[']) (by decide)
    simp only [Escape.LineStartsOk, Bool.and_eq_true]
    constructor
    · rw [hab]
      have hb : (a == ' ') = false := by simp [hasp]
      simp [Escape.startOk, List.dropWhile, hb, habr]
    · have : ∀ (s : Str), '\n' ∉ s → Escape.startsOkNl ['['] s = true := by
        intro s
        induction s with
        | nil => intro _; rfl
        | cons c r ih =>
          intro h
          have hc : c ≠ '\n' := fun e => h (e ▸ List.mem_cons_self)
          simp [Escape.startsOkNl, hc, ih (fun hm => h (List.mem_cons_of_mem _ hm))]
      exact this _ hnl
  have hdefs : defSearch L = none :=
    defSearch_none (contains_false_of_head _ (fun hm => (paraCh_facts (h.chars _ hm)).2.2.1 rfl))
  have habs : abbrSearch L = none :=
    abbrSearch_none (contains_false_of_head _ (fun hm => (paraCh_facts (h.chars _ hm)).2.2.2.1 rfl))
  rw [dispatchXT_toFn cfg tab htab pb [] refs parent _ rest hfree hdefs]
  have hv := hfree.vis
  simp only [tailFootnote, footnoteP, hfn, ite_self, tailAbbr, abbrP, habs, tailRef, href]
  simp [paraP, Escape.isBlank_of_visible hv, Escape.lstrip_of_visible hv, isstate]

theorem safeLine_para (L : Str) (h : ParaLine L) : SafeLine L := by
  refine ⟨?_, fun c hc => let f := paraCh_facts (h.chars c hc); ⟨f.2.2.2.2.2.2.2.1, f.2.2.2.2.2.2.2.2.1, f.2.2.2.2.2.2.2.2.2.1⟩⟩
  simp only [DocParse.lineSafe, Bool.and_eq_true, List.all_eq_true, Bool.or_eq_true, bne_iff_ne, ne_eq]
  refine ⟨fun c hc => ?_, Or.inr ?_⟩
  · have f := paraCh_facts (h.chars c hc)
    exact ⟨⟨⟨⟨f.2.1, f.2.2.2.2.2.2.2.2.2.2.1⟩, f.2.2.2.2.2.2.2.2.2.2.2.1⟩, f.2.2.2.2.2.2.2.2.2.2.2.2.1⟩,
      f.2.2.2.2.2.2.2.2.2.2.2.2.2⟩
  · obtain ⟨a, b, rfl, _, hasp⟩ := h.head
    simp only [List.any_eq_true, bne_iff_ne, ne_eq]
    exact ⟨a, List.mem_cons_self, hasp⟩

/-! ### the definition blocks -/

/-- a definition block is taken by the footnote processor whatever follows, as long as the next block is not
    indented -/
theorem dispatch_def (cfg : XCfg) (hfo : cfg.footnotes = true) (tab : Nat) (htab : tab > 0) (pb : PB)
    (refs : Refs) (parent : Node) (id note : Str) (rest : List Str) (hrest : detectTabbed rest = ([], rest))
    (hid : WordFacts id) (hn : PlainFacts note) :
    dispatchXT false cfg tab pb [] refs parent (fnLine2 id note) rest =
      some (parent, refs ++ [(fnKey id, (note, none))], rest) := by
  have hfree := coreFree2_line2 id note hid hn
  have hat := fnAt_line2 id note hid hn
  have hne : fnLine2 id note ≠ [] := by simp [fnLine2]
  have hsearch : fnSearch (fnLine2 id note) = some (0, id, note, (fnLine2 id note).length) :=
    lineSearch_line_some fnAt _ _ hat hne
  have hfn0 : fnSearch [] = none := by decide
  have hdetab : fnDetab [] = [] := by decide
  have hstrip := stripC_nl_line note hn
  have hrs : rstrip note = note := by
    unfold rstrip
    rw [(rstripP_eq_self_iff _ _).2]
    exact hn.lastVisible
  have hnl2 := nl_not_mem_fnLine2 id note hid hn
  have hdefs : defSearch (fnLine2 id note) = none :=
    defSearch_line_none _ hnl2 (by simp [fnLine2, defAt, countPrefix])
  rw [dispatchXT_toFn cfg tab htab pb [] refs parent _ rest hfree hdefs]
  simp only [tailFootnote, hfo, if_true, footnoteP, hsearch, Nat.zero_add, List.drop_length, lstripC, lstripP, hfn0,
    hrest, hdetab, List.take_zero, Py.isBlank_nil]
  have hstrip' : stripC '\n' (note ++ ['\n']) = note := hstrip
  simp [hstrip', join, hrs]

/-- the definition blocks of a list of footnotes -/
def defBlocks (defs : List (Str × Str)) : List Str := defs.map (fun d => fnLine2 d.1 d.2)

/-- the table entries they make -/
def defEntries (defs : List (Str × Str)) : Refs := defs.map (fun d => (fnKey d.1, (d.2, none)))

structure DefsOK (defs : List (Str × Str)) : Prop where
  ids : ∀ d ∈ defs, WordFacts d.1
  notes : ∀ d ∈ defs, PlainFacts d.2

theorem DefsOK.tail {d : Str × Str} {r : List (Str × Str)} (h : DefsOK (d :: r)) : DefsOK r :=
  ⟨fun x hx => h.ids x (List.mem_cons_of_mem _ hx), fun x hx => h.notes x (List.mem_cons_of_mem _ hx)⟩

theorem detectTabbed_defs (defs : List (Str × Str)) :
    detectTabbed (defBlocks defs ++ [[]]) = ([], defBlocks defs ++ [[]]) := by
  cases defs with
  | nil => simp [defBlocks, detectTabbed, startsWith, spaces, List.replicate]
  | cons d r => simp [defBlocks, detectTabbed, startsWith, spaces, List.replicate, fnLine2]

/-- `parseBlocks` over the definition blocks and the final empty block: the tree is left alone, the table gets the
    entries -/
theorem parseBlocksXT_defs (cfg : XCfg) (hfo : cfg.footnotes = true) (tab : Nat) (htab : tab > 0) (parent : Node)
    (hlast : ∀ c, parent.last? = some c → preCode c = none) :
    ∀ (defs : List (Str × Str)) (refs : Refs) (f : Nat), DefsOK defs → defs.length + 1 ≤ f →
      parseBlocksXT false cfg tab f [] refs parent (defBlocks defs ++ [[]]) = some (parent, refs ++ defEntries defs) := by
  intro defs
  induction defs with
  | nil =>
    intro refs f _ hf
    obtain ⟨g, rfl⟩ : ∃ g, f = g + 1 := ⟨f - 1, by omega⟩
    have h3 : ∀ pb, dispatchXT false cfg tab pb [] refs parent [] [] = some (parent, refs, []) := by
      intro pb
      cases hl : parent.last? with
      | none =>
        simp only [dispatchXT, admTest_plain tab htab _ [] (by simp) (by simp), ite_self, tailEmptyT, List.isEmpty_nil,
          Bool.true_or, if_true, emptyP, hl, List.drop_nil]
      | some c =>
        simp only [dispatchXT, admTest_plain tab htab _ [] (by simp) (by simp), ite_self, tailEmptyT, List.isEmpty_nil,
          Bool.true_or, if_true, emptyP, hl, hlast c hl, List.drop_nil]
    simp only [defBlocks, List.map_nil, List.nil_append, parseBlocksXT, h3, defEntries, List.append_nil]
  | cons d r ih =>
    intro refs f hd hf
    obtain ⟨g, rfl⟩ : ∃ g, f = g + 1 := ⟨f - 1, by omega⟩
    have h2 := fun pb => dispatch_def cfg hfo tab htab pb refs parent d.1 d.2 (defBlocks r ++ [[]]) (detectTabbed_defs r)
      (hd.ids d List.mem_cons_self) (hd.notes d List.mem_cons_self)
    have e : defBlocks (d :: r) ++ [[]] = fnLine2 d.1 d.2 :: (defBlocks r ++ [[]]) := rfl
    rw [e]
    simp only [parseBlocksXT, h2]
    rw [ih _ g hd.tail (by simp at hf; omega)]
    simp [defEntries]

/-! ### the block stage -/

/-- the source: the paragraph line, then the definition blocks, separated by empty lines -/
def fnSrcG (t : Str) (segs defs : List (Str × Str)) : Str := DocParse.joinChunks (fnPara t segs :: defBlocks defs)

/-- the source as lines -/
def srcLines (L : Str) : List Str → List Str
  | [] => [L]
  | b :: r => L :: [] :: srcLines b r

theorem joinChunks_lines (L : Str) (bs : List Str) : DocParse.joinChunks (L :: bs) = joinLines (srcLines L bs) := by
  induction bs generalizing L with
  | nil => simp [DocParse.joinChunks, srcLines, joinLines, join]
  | cons b r ih =>
    have := ih b
    simp only [DocParse.joinChunks, srcLines] at this ⊢
    rw [this]
    cases hr : srcLines b r with
    | nil => cases r <;> simp [srcLines] at hr
    | cons x y => simp [joinLines, join]

theorem mem_srcLines (L : Str) (bs : List Str) : ∀ l ∈ srcLines L bs, l = [] ∨ l = L ∨ l ∈ bs := by
  induction bs generalizing L with
  | nil => intro l hl; simp [srcLines] at hl; exact Or.inr (Or.inl hl)
  | cons b r ih =>
    intro l hl
    simp only [srcLines, List.mem_cons] at hl
    rcases hl with rfl | rfl | hl
    · exact Or.inr (Or.inl rfl)
    · exact Or.inl rfl
    · rcases ih b l hl with h | h | h
      · exact Or.inl h
      · exact Or.inr (Or.inr (h ▸ List.mem_cons_self))
      · exact Or.inr (Or.inr (List.mem_cons_of_mem _ h))

theorem parseDocumentXT_fnG (cfg : XCfg) (hfo : cfg.footnotes = true) (tab : Nat) (htab : tab > 0) (t : Str)
    (segs defs : List (Str × Str)) (ht : PlainFacts t) (hs : SegsOK segs) (hd : DefsOK defs) :
    parseDocumentXT false cfg tab (fnSrcG t segs defs ++ ['\n', '\n']) =
      some ((Node.el "div").append (mkText "p" (fnPara t segs)), defEntries defs) := by
  have hL := paraLine_fnPara t segs ht hs
  have hnel : ∀ b ∈ fnPara t segs :: defBlocks defs, Escape.noEmptyLineFrom true b = true := by
    intro b hb
    rcases List.mem_cons.1 hb with rfl | hb
    · exact DocParse.nel_line _ hL.ne hL.noNl
    · obtain ⟨d, hdm, rfl⟩ := List.mem_map.1 hb
      exact DocParse.nel_line _ (by simp [fnLine2]) (nl_not_mem_fnLine2 d.1 d.2 (hd.ids d hdm) (hd.notes d hdm))
  have hsplit : splitS ['\n', '\n'] (fnSrcG t segs defs ++ ['\n', '\n']) = (fnPara t segs :: defBlocks defs) ++ [[]] := by
    have := DocParse.splitS_chunks (fnPara t segs :: defBlocks defs) (by simp) hnel
    simpa [fnSrcG] using this
  have hlen : defs.length + 2 ≤ fuelForX (fnSrcG t segs defs ++ ['\n', '\n']).length := by
    have h1 : ∀ (L : Str) (bs : List Str), (∀ b ∈ bs, b ≠ []) → bs.length ≤ (DocParse.joinChunks (L :: bs)).length := by
      intro L bs
      induction bs generalizing L with
      | nil => intro _; simp
      | cons b r ih =>
        intro hb
        have := ih b (fun x hx => hb x (List.mem_cons_of_mem _ hx))
        simp only [DocParse.joinChunks, List.length_append, List.length_cons] at this ⊢
        omega
    have h2 := h1 (fnPara t segs) (defBlocks defs) (by
      intro b hb
      obtain ⟨d, _, rfl⟩ := List.mem_map.1 hb
      simp [fnLine2])
    simp only [fuelForX, List.length_append, fnSrcG, defBlocks, List.length_map] at h2 ⊢
    omega
  obtain ⟨g, hg⟩ : ∃ g, fuelForX (fnSrcG t segs defs ++ ['\n', '\n']).length = g + 1 := ⟨_, (Nat.sub_add_cancel (by omega)).symm⟩
  have h1 := fun pb rest => dispatch_para cfg tab htab pb [] (Node.el "div") (fnPara t segs) rest hL
  have hpre : preCode (mkText "p" (fnPara t segs)) = none := by
    have : (mkText "p" (fnPara t segs)).isTag "pre" = false := by
      simp only [mkText, Node.isTag, Node.el]; decide
    simp [preCode, this]
  simp only [parseDocumentXT, parseChunk, hsplit]
  rw [hg]
  simp only [List.cons_append, parseBlocksXT, h1]
  rw [parseBlocksXT_defs cfg hfo tab htab _ (by
    intro c hc
    rw [CodeLaw.last_append] at hc
    cases hc; exact hpre) defs [] g hd (by omega)]
  simp

end MdVerif.RenderG
