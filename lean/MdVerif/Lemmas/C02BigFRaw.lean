/-
Lemmas for `Props/C02Big.lean`, section 8 (fenced_code): `RawHtmlPostprocessor.run` terminates within the model's fuel on
EVERY text when every stash entry holds no STX and begins with `&` or `<` — the entries of the entity pattern (`&…;`) and
of `fenced_code` (`<pre…`).  Generalises `NoCtl.rawHtml_total` of `Lemmas/PlaceholdersPost.lean` (entries `&…;` only); the
proofs are the same with the case lemmas `phOut_cases` / `pOut_cases` restated: what one pass writes for a live
placeholder holds no STX and begins with `&` or `<`, so no new placeholder can form, and the second pass changes
nothing.  Core Lean only.
-/
import MdVerif.Lemmas.PlaceholdersPost

namespace MdVerif.NoCtl
open Py

/-- an entry that cannot take part in a placeholder: no STX, first character `&` or `<` -/
def EntryLt (e : Str) : Prop := STX ∉ e ∧ ∃ c r, e = c :: r ∧ (c = '&' ∨ c = '<')

theorem entryLt_of_entityLike {e : Str} (h : entityLike e = true) : EntryLt e := by
  obtain ⟨e', rfl, hn⟩ := entityLike_cons h
  exact ⟨hn, '&', e', rfl, .inl rfl⟩

theorem entryLt_pre {r : Str} (h : NoCtl ("<pre".toList ++ r)) : EntryLt ("<pre".toList ++ r) :=
  ⟨h.1, '<', "pre".toList ++ r, rfl, .inr rfl⟩

theorem stashLookup_memL {stash : List Str} {ds html : Str} (h : Post.stashLookup stash ds = some html) :
    html ∈ stash := by
  unfold Post.stashLookup at h
  simp only at h
  split at h
  · exact List.mem_of_getElem? h
  · cases h

/-- the word written for a bare placeholder: an entry, or the dead placeholder itself -/
theorem phOut_casesL {stash : List Str} (he : ∀ e ∈ stash, EntryLt e) (ds : Str) :
    (∃ c e', phOut stash ds = c :: e' ∧ (c = '&' ∨ c = '<') ∧ STX ∉ phOut stash ds ∧
      (Post.stashLookup stash ds).isSome = true) ∨
    (phOut stash ds = phStr ds ∧ Post.stashLookup stash ds = none) := by
  unfold phOut
  cases hlk : Post.stashLookup stash ds with
  | some html =>
    left
    obtain ⟨hn, c, r, rfl, hc⟩ := he _ (stashLookup_memL hlk)
    exact ⟨c, r, rfl, hc, hn, rfl⟩
  | none => right; exact ⟨rfl, rfl⟩

theorem pOut_casesL {bl stash : List Str} (he : ∀ e ∈ stash, EntryLt e) (ds : Str) :
    (∃ e', pOut bl stash ds = '<' :: e' ∧ STX ∉ pOut bl stash ds ∧ (Post.stashLookup stash ds).isSome = true) ∨
    (pOut bl stash ds = '<' :: 'p' :: '>' :: (phStr ds ++ "</p>".toList) ∧ Post.stashLookup stash ds = none) := by
  unfold pOut
  cases hlk : Post.stashLookup stash ds with
  | some html =>
    left
    obtain ⟨hn, c, r, rfl, hc⟩ := he _ (stashLookup_memL hlk)
    have hwrap : STX ∉ "<p>".toList ++ (c :: r) ++ "</p>".toList := by
      intro hm
      rcases List.mem_append.1 hm with hm | hm
      · rcases List.mem_append.1 hm with hm | hm
        · revert hm; decide
        · exact hn hm
      · revert hm; decide
    simp only
    split
    · next hb =>
      rcases hc with rfl | rfl
      · rw [isBlockLevelHtml_amp] at hb; cases hb
      · exact ⟨r, rfl, hn, rfl⟩
    · exact ⟨'p' :: '>' :: ((c :: r) ++ "</p>".toList), rfl, hwrap, rfl⟩
  | none => right; exact ⟨rfl, rfl⟩

theorem startsWith_subPassL {bl stash : List Str} (he : ∀ e ∈ stash, EntryLt e) : ∀ (q s : Str),
    startsWith (Post.subPass bl stash 0 s) q = true → (∀ x ∈ q, x ≠ '&' ∧ x ≠ '<' ∧ x ≠ STX) →
    startsWith s q = true
  | [], s, _, _ => startsWith_nil s
  | x :: q, [], h, _ => by simp [Post.subPass] at h
  | x :: q, c :: s, h, hq => by
    have hx := hq x (by simp)
    rcases subPass_cases bl stash c s with ⟨ds, rest, hds, e, hr⟩ | ⟨ds, rest, hds, e, hr⟩ | ⟨_, hr⟩
    · exfalso
      rw [hr] at h
      rcases pOut_casesL (bl := bl) he ds with ⟨e', hp, _⟩ | ⟨hp, _⟩ <;> rw [hp] at h <;>
        simp only [List.cons_append, startsWith_cons_cons, Bool.and_eq_true, decide_eq_true_eq] at h <;>
        exact hx.2.1 h.1.symm
    · exfalso
      rw [hr] at h
      rcases phOut_casesL he ds with ⟨c0, e', hp, hc0, _⟩ | ⟨hp, _⟩ <;> rw [hp] at h
      · simp only [List.cons_append, startsWith_cons_cons, Bool.and_eq_true, decide_eq_true_eq] at h
        rcases hc0 with rfl | rfl
        · exact hx.1 h.1.symm
        · exact hx.2.1 h.1.symm
      · simp only [phStr_eq, List.cons_append, startsWith_cons_cons, Bool.and_eq_true, decide_eq_true_eq] at h
        exact hx.2.2 h.1.symm
    · rw [hr] at h
      simp only [startsWith_cons_cons, Bool.and_eq_true, decide_eq_true_eq] at h ⊢
      exact ⟨h.1, startsWith_subPassL he q s h.2 (fun y hy => hq y (List.mem_cons_of_mem _ hy))⟩

theorem subPass_postL_aux {bl stash : List Str} (he : ∀ e ∈ stash, EntryLt e) (n : Nat) :
    ∀ t : Str, t.length ≤ n → hasLiveHtmlPh stash (Post.subPass bl stash 0 t) = false := by
  induction n with
  | zero =>
    intro t hl
    have : t = [] := List.length_eq_zero_iff.1 (by omega)
    subst this; rfl
  | succ n ih =>
    intro t hl
    cases t with
    | nil => rfl
    | cons c s =>
      rcases subPass_cases bl stash c s with ⟨ds, rest, hds, e, hr⟩ | ⟨ds, rest, hds, e, hr⟩ | ⟨hno, hr⟩
      · have hl' : rest.length ≤ n := by
          have := congrArg List.length e
          simp [phStr_length] at this hl; omega
        rw [hr]
        rcases pOut_casesL (bl := bl) he ds with ⟨_, _, hn, _⟩ | ⟨hp, hlk⟩
        · rw [hasLive_append_noSTX hn]; exact ih rest hl'
        · rw [hp]
          have := hasLive_p_phStr (stash := stash) hds (Post.subPass bl stash 0 rest)
          rw [hlk, ih rest hl'] at this
          have e2 : '<' :: 'p' :: '>' :: (phStr ds ++ "</p>".toList) ++ Post.subPass bl stash 0 rest =
              "<p>".toList ++ (phStr ds ++ ("</p>".toList ++ Post.subPass bl stash 0 rest)) := by
            simp only [List.cons_append, List.append_assoc]; rfl
          rw [e2, this]; rfl
      · have hl' : rest.length ≤ n := by
          have := congrArg List.length e
          simp [phStr_length] at this hl; omega
        rw [hr]
        rcases phOut_casesL he ds with ⟨_, _, _, _, hn, _⟩ | ⟨hp, hlk⟩
        · rw [hasLive_append_noSTX hn]; exact ih rest hl'
        · rw [hp, hasLive_phStr hds, hlk, ih rest hl']; rfl
      · rw [hr, hasLive_cons, ih s (by simp at hl; omega), Bool.or_false]
        cases hq : liveHtmlPhAt stash (c :: Post.subPass bl stash 0 s) with
        | false => rfl
        | true =>
          exfalso
          obtain ⟨ds, rest, hds, e, _⟩ := liveHtmlPhAt_some hq
          rw [phStr_eq, List.cons_append, List.cons.injEq] at e
          obtain ⟨hc, e⟩ := e
          have hsw : startsWith (Post.subPass bl stash 0 s)
              ('w' :: 'z' :: 'x' :: 'h' :: 'z' :: 'd' :: 'k' :: ':' :: (ds ++ [ETX])) = true := by
            rw [e]; exact startsWith_append _ _
          have hs := startsWith_subPassL he _ s hsw (by
            intro x hx
            simp only [List.mem_cons, List.mem_append, List.not_mem_nil, or_false] at hx
            have hdig : ∀ y, isAsciiDigit y = true → y ≠ '&' ∧ y ≠ '<' ∧ y ≠ STX := by
              intro y hy
              refine ⟨?_, ?_, ?_⟩ <;> rintro rfl <;> revert hy <;> decide
            rcases hx with rfl | rfl | rfl | rfl | rfl | rfl | rfl | rfl | hx | rfl
            all_goals first | decide | exact hdig _ (List.all_eq_true.1 hds.2 _ hx))
          obtain ⟨rest', e'⟩ := startsWith_iff_prefix.1 hs
          have : Post.htmlPhAt (c :: s) = some (ds, 10 + ds.length) := by
            rw [hc, e']
            exact htmlPhAt_phStr hds rest'
          rw [hno hc] at this; cases this

/-- one pass removes every placeholder of the stash (no new one can form: an entry holds no STX and begins with
    `&`, which is not a placeholder character) -/
theorem subPass_postL {bl stash : List Str} (he : ∀ e ∈ stash, EntryLt e) (t : Str) :
    hasLiveHtmlPh stash (Post.subPass bl stash 0 t) = false := subPass_postL_aux he t.length t (Nat.le_refl _)


theorem rawHtml_totalL {bl stash : List Str} (he : ∀ e ∈ stash, EntryLt e) (text : Str) :
    ∃ out, Post.rawHtml bl stash (Post.rawHtmlFuel stash) text = some out := by
  have hf : Post.rawHtmlFuel stash = (stash.length + 1) + 1 + 1 := rfl
  rw [hf]
  unfold Post.rawHtml
  split
  · exact ⟨_, rfl⟩
  · simp only
    split
    · exact ⟨_, rfl⟩
    · unfold Post.rawHtml
      split
      · exact ⟨_, rfl⟩
      · simp only
        rw [if_pos (subPass_id (subPass_postL he text))]
        exact ⟨_, rfl⟩

end MdVerif.NoCtl
