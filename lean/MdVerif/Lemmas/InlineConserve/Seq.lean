/-
C06 inline half, part 6: what the backtracking matcher of the ten emphasis expressions (`seqMatch`) returns: the
matched text is the delimiter runs and the groups, in order.
-/
import MdVerif.Lemmas.InlineConserve.Backtick

namespace MdVerif.Flat
open Py Inline

/-- number of captured groups -/
def nGroups : List Step → Nat
  | [] => 0
  | .lazy _ _ :: rest => nGroups rest + 1
  | .greedy _ :: rest => nGroups rest + 1
  | _ :: rest => nGroups rest

/-- the matched text, rebuilt from the groups -/
def assemble (c : Char) : List Step → List Str → Str
  | [], _ => []
  | .lit m :: rest, gs => List.replicate m c ++ assemble c rest gs
  | .lazy _ _ :: rest, g :: gs => g ++ assemble c rest gs
  | .greedy _ :: rest, g :: gs => g ++ assemble c rest gs
  | .lazy _ _ :: rest, [] => assemble c rest []
  | .greedy _ :: rest, [] => assemble c rest []
  | .notnext :: rest, gs => assemble c rest gs
  | .nbW :: rest, gs => assemble c rest gs
  | .nbC :: rest, gs => assemble c rest gs
  | .naW :: rest, gs => assemble c rest gs

/-- what a successful continuation returns -/
def KSpec (c : Char) (rest : List Step) (k : K) : Prop :=
  ∀ prev suf pos gs0 e groups, k prev suf pos gs0 = some (e, groups) →
    ∃ gs, groups = gs0.reverse ++ gs ∧ gs.length = nGroups rest ∧
      ∃ post, suf = assemble c rest gs ++ post ∧ e = pos + (assemble c rest gs).length

theorem lazyLoop_spec {c : Char} {notc : Bool} {rest : List Step} {k : K} (hk : KSpec c rest k) (gs0 : List Str) :
    ∀ (suf : Str) (need : Nat) (prev : Option Char) (pos : Nat) (acc : Str) (e : Nat) (groups : List Str),
      lazyLoop c notc k gs0 need prev suf pos acc = some (e, groups) →
      ∃ g gs, groups = gs0.reverse ++ (acc.reverse ++ g) :: gs ∧ gs.length = nGroups rest ∧
        ∃ post, suf = g ++ assemble c rest gs ++ post ∧ e = pos + g.length + (assemble c rest gs).length := by
  intro suf
  induction suf with
  | nil =>
    intro need prev pos acc e groups h
    cases need with
    | zero =>
      simp only [lazyLoop] at h
      obtain ⟨gs, h1, h2, post, h3, h4⟩ := hk _ _ _ _ _ _ h
      exact ⟨[], gs, by simp [h1], h2, post, by simpa using h3, by simpa using h4⟩
    | succ n => simp [lazyLoop] at h
  | cons ch r ih =>
    intro need prev pos acc e groups h
    cases need with
    | zero =>
      simp only [lazyLoop] at h
      split at h
      · rename_i x hx
        simp only [Option.some.injEq] at h
        subst h
        obtain ⟨gs, h1, h2, post, h3, h4⟩ := hk _ _ _ _ _ _ hx
        exact ⟨[], gs, by simp [h1], h2, post, by simpa using h3, by simpa using h4⟩
      · split at h
        · obtain ⟨g, gs, h1, h2, post, h3, h4⟩ := ih _ _ _ _ _ _ h
          refine ⟨ch :: g, gs, by simp [h1], h2, post, by simp [h3], ?_⟩
          simp only [List.length_cons]; omega
        · simp at h
    | succ n =>
      simp only [lazyLoop] at h
      split at h
      · obtain ⟨g, gs, h1, h2, post, h3, h4⟩ := ih _ _ _ _ _ _ h
        refine ⟨ch :: g, gs, by simp [h1], h2, post, by simp [h3], ?_⟩
        simp only [List.length_cons]; omega
      · simp at h

theorem greedyLoop_spec {c : Char} {mn : Nat} {rest : List Step} {k : K} (hk : KSpec c rest k) (gs0 : List Str) :
    ∀ (suf : Str) (prev : Option Char) (pos L : Nat) (acc : Str) (e : Nat) (groups : List Str),
      greedyLoop c mn k gs0 prev suf pos L acc = some (e, groups) →
      ∃ g gs, groups = gs0.reverse ++ (acc.reverse ++ g) :: gs ∧ gs.length = nGroups rest ∧
        ∃ post, suf = g ++ assemble c rest gs ++ post ∧ e = pos + g.length + (assemble c rest gs).length := by
  intro suf
  have here : ∀ (suf : Str) (prev : Option Char) (pos L : Nat) (acc : Str) (e : Nat) (groups : List Str),
      (if L ≥ mn then k prev suf pos (acc.reverse :: gs0) else none) = some (e, groups) →
      ∃ g gs, groups = gs0.reverse ++ (acc.reverse ++ g) :: gs ∧ gs.length = nGroups rest ∧
        ∃ post, suf = g ++ assemble c rest gs ++ post ∧ e = pos + g.length + (assemble c rest gs).length := by
    intro suf prev pos L acc e groups h
    have h' := of_ite_none h
    obtain ⟨gs, h1, h2, post, h3, h4⟩ := hk _ _ _ _ _ _ h'
    exact ⟨[], gs, by simp [h1], h2, post, by simpa using h3, by simpa using h4⟩
  induction suf with
  | nil =>
    intro prev pos L acc e groups h
    simp only [greedyLoop] at h
    exact here _ _ _ _ _ _ _ h
  | cons ch r ih =>
    intro prev pos L acc e groups h
    simp only [greedyLoop] at h
    split at h
    · split at h
      · rename_i x hx
        simp only [Option.some.injEq] at h
        subst h
        obtain ⟨g, gs, h1, h2, post, h3, h4⟩ := ih _ _ _ _ _ _ hx
        refine ⟨ch :: g, gs, by simp [h1], h2, post, by simp [h3], ?_⟩
        simp only [List.length_cons]; omega
      · exact here _ _ _ _ _ _ _ h
    · exact here _ _ _ _ _ _ _ h

theorem seqGo_spec (c : Char) : ∀ (steps : List Step), KSpec c steps (seqGo c steps) := by
  intro steps
  induction steps with
  | nil =>
    intro prev suf pos gs0 e groups h
    simp only [seqGo, Option.some.injEq, Prod.mk.injEq] at h
    exact ⟨[], by simp [h.2], rfl, suf, by simp [assemble], by simp [assemble, h.1]⟩
  | cons st rest ih =>
    intro prev suf pos gs0 e groups h
    cases st with
    | lit m =>
      simp only [seqGo] at h
      split at h
      · rename_i hc
        simp only [Bool.and_eq_true, decide_eq_true_eq, beq_iff_eq] at hc
        obtain ⟨gs, h1, h2, post, h3, h4⟩ := ih _ _ _ _ _ _ h
        refine ⟨gs, h1, by simpa [nGroups] using h2, post, ?_, ?_⟩
        · have ht := countPrefix_prefix c (some m) suf
          rw [hc.2] at ht
          simp only [assemble, List.append_assoc]
          rw [← h3, ← ht, List.take_append_drop]
        · simp only [assemble, List.length_append, List.length_replicate]; omega
      · simp at h
    | notnext =>
      simp only [seqGo] at h
      split at h
      · simp at h
      · obtain ⟨gs, h1, h2, post, h3, h4⟩ := ih _ _ _ _ _ _ h
        exact ⟨gs, h1, by simpa [nGroups] using h2, post, by simpa [assemble] using h3, by simpa [assemble] using h4⟩
    | nbW =>
      simp only [seqGo] at h
      split at h
      · simp at h
      · obtain ⟨gs, h1, h2, post, h3, h4⟩ := ih _ _ _ _ _ _ h
        exact ⟨gs, h1, by simpa [nGroups] using h2, post, by simpa [assemble] using h3, by simpa [assemble] using h4⟩
    | nbC =>
      simp only [seqGo] at h
      split at h
      · simp at h
      · obtain ⟨gs, h1, h2, post, h3, h4⟩ := ih _ _ _ _ _ _ h
        exact ⟨gs, h1, by simpa [nGroups] using h2, post, by simpa [assemble] using h3, by simpa [assemble] using h4⟩
    | naW =>
      simp only [seqGo] at h
      split at h
      · simp at h
      · obtain ⟨gs, h1, h2, post, h3, h4⟩ := ih _ _ _ _ _ _ h
        exact ⟨gs, h1, by simpa [nGroups] using h2, post, by simpa [assemble] using h3, by simpa [assemble] using h4⟩
    | lazy mn notc =>
      simp only [seqGo] at h
      obtain ⟨g, gs, h1, h2, post, h3, h4⟩ := lazyLoop_spec ih gs0 _ _ _ _ _ _ _ h
      refine ⟨g :: gs, by simpa using h1, by simp [nGroups, h2], post, by simpa [assemble] using h3, ?_⟩
      simp only [assemble, List.length_append]; omega
    | greedy mn =>
      simp only [seqGo] at h
      obtain ⟨g, gs, h1, h2, post, h3, h4⟩ := greedyLoop_spec ih gs0 _ _ _ _ _ _ _ h
      refine ⟨g :: gs, by simpa using h1, by simp [nGroups, h2], post, by simpa [assemble] using h3, ?_⟩
      simp only [assemble, List.length_append]; omega

/-- `pattern.match(s, i)`: the text from `i` is the delimiters and groups in order, then the rest -/
theorem seqMatch_spec {s : Str} {i : Nat} {c : Char} {steps : List Step} {e : Nat} {groups : List Str}
    (h : seqMatch s i c steps = some (e, groups)) :
    i ≤ s.length ∧ groups.length = nGroups steps ∧ s.drop i = assemble c steps groups ++ s.drop e ∧
      e = i + (assemble c steps groups).length := by
  unfold seqMatch at h
  split at h
  · simp at h
  · rename_i hi
    obtain ⟨gs, h1, h2, post, h3, h4⟩ := seqGo_spec c steps _ _ _ _ _ _ h
    simp only [List.reverse_nil, List.nil_append] at h1
    subst h1
    refine ⟨by omega, h2, ?_, h4⟩
    have : s.drop e = post := by
      rw [h4, ← List.drop_drop, h3, List.drop_left]
    rw [this]; exact h3

end MdVerif.Flat
