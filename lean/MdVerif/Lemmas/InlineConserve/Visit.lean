/-
C06 inline half, part 16: one child of the tree walk (`visitChild`): its text and tail are run through
`__handleInline` and `__processPlaceholders`.
-/
import MdVerif.Lemmas.InlineConserve.PP3

namespace MdVerif.Flat
open Py Inline

/-- the text part of `visitChild` -/
def textStage (cfg : Cfg) (child : Node) (st : St) : Option (Node × List Node × St) :=
  if Node.truthy child.text && !child.textAtomic then
    match handleInlineTop cfg (child.text.getD []) st with
    | none => none
    | some (data, st1) =>
      match ppTop st1 data false { child with text := none, textAtomic := false } true with
      | none => none
      | some (lst, c1) => some (c1, lst, st1)
  else some (child, [], st)

/-- the tail part of `visitChild` -/
def tailStage (cfg : Cfg) (c1 : Node) (st1 : St) : Option (Node × List Node × St) :=
  if Node.truthy c1.tail then
    let tl := c1.tail.getD []
    let h : Option (Str × St) := if c1.tailAtomic then some (tl, st1) else handleInlineTop cfg tl st1
    match h with
    | none => none
    | some (data, st2) =>
      match ppTop st2 data c1.tailAtomic (mkEl "d") false with
      | none => none
      | some (tr, dumby) =>
        let c2 : Node :=
          if Node.truthy dumby.tail then { c1 with tail := dumby.tail, tailAtomic := dumby.tailAtomic }
          else { c1 with tail := none, tailAtomic := false }
        some (c2, tr, st2)
  else some (c1, [], st1)

theorem visitChild_eq (cfg : Cfg) (child : Node) (v : Visit) :
    visitChild cfg child v =
      match textStage cfg child v.st with
      | none => none
      | some (c1, lst, st1) =>
        match tailStage cfg c1 st1 with
        | none => none
        | some (c2, tr, st2) =>
          let i := v.done.length
          let pushes := ((List.range lst.length).map (fun k => [i, k])).reverse ++ v.pushes
          let pushes := if child.children.isEmpty then pushes else [i] :: pushes
          some ({ c2 with children := lst ++ c2.children }, tr, { v with pushes := pushes, st := st2 }) := rfl

section
variable {L : Char → Bool} {cfg : Cfg}

theorem lettersK_nil (stash : List StashItem) : lettersK L stash [] = [] := rfl

theorem lettersK_append (stash : List StashItem) (a b : List Node) :
    lettersK L stash (a ++ b) = lettersK L stash a ++ lettersK L stash b := by
  simp only [lettersK, kidsFlat_append, letters_append]

/-- `__handleInline` then `__processPlaceholders` on one string -/
theorem hi_pp (hL : LetterClass L) (hE : EscNotLetter L cfg) {st st1 : St} {text data : Str} {atomic isText : Bool}
    {parent parent' : Node} {res : List Node} (hs : stashOk L st.stash = true)
    (ht : ok L st.stash.length text = true) (hf : field parent isText = [])
    (h1 : handleInlineTop cfg text st = some (data, st1))
    (h2 : ppTop st1 data atomic parent isText = some (res, parent')) :
    (∃ e, st1.stash = st.stash ++ e) ∧ st1.html = st.html ∧ stashOk L st1.stash = true ∧
      SameBut isText parent parent' ∧
      kidsOk L st1.stash.length res = true ∧ ok L st1.stash.length (field parent' isText) = true ∧
      lettersF L st1.stash (field parent' isText) ++ lettersK L st1.stash res = lettersF L st.stash text ∧
      ok L 0 (field parent' isText) = true ∧ GoodKids L res := by
  have c := handleInline_spec hL hE _ _ _ _ _ _ hs ht h1
  obtain ⟨p1, p2, p3, p4, p5, p6⟩ := processPlaceholders_spec c.sok _ _ _ _ _ _ _ c.dok hf h2
  refine ⟨c.ext, c.html, c.sok, p1, p2, p3, ?_, p5, p6⟩
  rw [← c.cons]
  simp only [lettersF, lettersK, flat, ← letters_append, p4]

/-- `__processPlaceholders` alone (atomic tail) -/
theorem pp_only {st : St} {text : Str} {atomic isText : Bool} {parent parent' : Node} {res : List Node}
    (hs : stashOk L st.stash = true) (ht : ok L st.stash.length text = true) (hf : field parent isText = [])
    (h2 : ppTop st text atomic parent isText = some (res, parent')) :
    SameBut isText parent parent' ∧ kidsOk L st.stash.length res = true ∧
      ok L st.stash.length (field parent' isText) = true ∧
      lettersF L st.stash (field parent' isText) ++ lettersK L st.stash res = lettersF L st.stash text ∧
      ok L 0 (field parent' isText) = true ∧ GoodKids L res := by
  obtain ⟨p1, p2, p3, p4, p5, p6⟩ := processPlaceholders_spec hs _ _ _ _ _ _ _ ht hf h2
  refine ⟨p1, p2, p3, ?_, p5, p6⟩
  simp only [lettersF, lettersK, flat, ← letters_append, p4]

theorem textStage_spec (hL : LetterClass L) (hE : EscNotLetter L cfg) {st st1 : St} {child c1 : Node}
    {lst : List Node} (hs : stashOk L st.stash = true) (hc : nodeOk L st.stash.length child = true)
    (h : textStage cfg child st = some (c1, lst, st1)) :
    (∃ e, st1.stash = st.stash ++ e) ∧ st1.html = st.html ∧ stashOk L st1.stash = true ∧
      kidsOk L st1.stash.length lst = true ∧
      ok L st1.stash.length (c1.text.getD []) = true ∧ c1.children = child.children ∧ c1.tail = child.tail ∧
      c1.attrs = child.attrs ∧
      lettersF L st1.stash (c1.text.getD []) ++ lettersK L st1.stash lst = lettersF L st.stash (child.text.getD []) ∧
      ((child.textAtomic = true → ok L 0 (child.text.getD []) = true) → ok L 0 (c1.text.getD []) = true) ∧
      GoodKids L lst := by
  have hc' := nodeOk_iff.1 hc
  unfold textStage at h
  split at h
  · split at h
    · simp at h
    · rename_i data sta h1
      split at h
      · simp at h
      · rename_i lst' c1' h2
        simp only [Option.some.injEq, Prod.mk.injEq] at h
        obtain ⟨e1, e2, e3⟩ := h
        subst e1; subst e2; subst e3
        obtain ⟨q1, qh, q2, q3, q4, q5, q6, q7, q8⟩ := hi_pp hL hE hs hc'.1 rfl h1 h2
        exact ⟨q1, qh, q2, q4, q5, q3.kids, q3.tail rfl, q3.attrs, q6, fun _ => q7, q8⟩
  · rename_i hnp
    simp only [Option.some.injEq, Prod.mk.injEq] at h
    obtain ⟨e1, e2, e3⟩ := h
    subst e1; subst e2; subst e3
    refine ⟨⟨[], by simp⟩, rfl, hs, rfl, hc'.1, rfl, rfl, rfl, by simp [lettersK_nil], ?_, fun r hr => (by cases hr)⟩
    intro hat
    simp only [Bool.and_eq_true, Bool.not_eq_true', not_and, Bool.not_eq_false] at hnp
    cases ht : Node.truthy child.text with
    | false => rw [getD_of_not_truthy ht]; rfl
    | true => exact hat (hnp ht)

theorem tailStage_spec (hL : LetterClass L) (hE : EscNotLetter L cfg) {st1 st2 : St} {c1 c2 : Node}
    {tr : List Node} (hs : stashOk L st1.stash = true) (hc : ok L st1.stash.length (c1.tail.getD []) = true)
    (h : tailStage cfg c1 st1 = some (c2, tr, st2)) :
    (∃ e, st2.stash = st1.stash ++ e) ∧ st2.html = st1.html ∧ stashOk L st2.stash = true ∧
      kidsOk L st2.stash.length tr = true ∧
      ok L st2.stash.length (c2.tail.getD []) = true ∧ c2.children = c1.children ∧ c2.text = c1.text ∧
      lettersF L st2.stash (c2.tail.getD []) ++ lettersK L st2.stash tr = lettersF L st1.stash (c1.tail.getD []) ∧
      ok L 0 (c2.tail.getD []) = true ∧ GoodKids L tr ∧ c2.textAtomic = c1.textAtomic ∧ c2.attrs = c1.attrs := by
  unfold tailStage at h
  split at h
  · simp only [] at h
    -- the tail of the child after `if dumby.tail: child.tail = dumby.tail`
    have key : ∀ (sta : St) (data : Str) (tr' : List Node) (dumby : Node),
        (∃ e, sta.stash = st1.stash ++ e) → sta.html = st1.html → stashOk L sta.stash = true →
        SameBut false (mkEl "d") dumby → kidsOk L sta.stash.length tr' = true →
        ok L sta.stash.length (field dumby false) = true →
        lettersF L sta.stash (field dumby false) ++ lettersK L sta.stash tr' = lettersF L st1.stash (c1.tail.getD []) →
        ok L 0 (field dumby false) = true → GoodKids L tr' →
        some ((if Node.truthy dumby.tail = true then
              { c1 with tail := dumby.tail, tailAtomic := dumby.tailAtomic }
            else { c1 with tail := none, tailAtomic := false } : Node), tr', sta) = some (c2, tr, st2) →
        ((∃ e, st2.stash = st1.stash ++ e) ∧ st2.html = st1.html ∧ stashOk L st2.stash = true ∧
        kidsOk L st2.stash.length tr = true ∧
        ok L st2.stash.length (c2.tail.getD []) = true ∧ c2.children = c1.children ∧ c2.text = c1.text ∧
        lettersF L st2.stash (c2.tail.getD []) ++ lettersK L st2.stash tr = lettersF L st1.stash (c1.tail.getD []) ∧
        ok L 0 (c2.tail.getD []) = true ∧ GoodKids L tr ∧ c2.textAtomic = c1.textAtomic ∧ c2.attrs = c1.attrs) := by
      intro sta data tr' dumby q1 qh q2 _ q4 q5 q6 q7 q8 hh
      simp only [Option.some.injEq, Prod.mk.injEq] at hh
      obtain ⟨e1, e2, e3⟩ := hh
      subst e2; subst e3
      have hfd : field dumby false = dumby.tail.getD [] := rfl
      rw [hfd] at q5 q6 q7
      have hc2 : c2.tail.getD [] = dumby.tail.getD [] ∧ c2.children = c1.children ∧ c2.text = c1.text ∧
          c2.textAtomic = c1.textAtomic ∧ c2.attrs = c1.attrs := by
        subst e1
        split
        · exact ⟨rfl, rfl, rfl, rfl, rfl⟩
        · rename_i ht
          exact ⟨(getD_of_not_truthy (by simpa using ht)).symm, rfl, rfl, rfl, rfl⟩
      exact ⟨q1, qh, q2, q4, by rw [hc2.1]; exact q5, hc2.2.1, hc2.2.2.1, by rw [hc2.1]; exact q6,
        by rw [hc2.1]; exact q7, q8, hc2.2.2.2.1, hc2.2.2.2.2⟩
    by_cases ha : c1.tailAtomic = true
    · simp only [ha, if_true] at h
      split at h
      · simp at h
      · rename_i tr' dumby h2
        obtain ⟨p1, p2, p3, p4, p5, p6⟩ := pp_only hs hc rfl h2
        exact key st1 (c1.tail.getD []) tr' dumby ⟨[], by simp⟩ rfl hs p1 p2 p3 p4 p5 p6 h
    · simp only [ha] at h
      split at h
      · simp at h
      · rename_i data sta h1
        split at h
        · simp at h
        · rename_i tr' dumby h2
          simp only [Bool.false_eq_true, if_false] at h1
          obtain ⟨q1, qh, q2, q3, q4, q5, q6, q7, q8⟩ := hi_pp hL hE hs hc rfl h1 h2
          exact key sta data tr' dumby q1 qh q2 q3 q4 q5 q6 q7 q8 h
  · rename_i ht
    simp only [Option.some.injEq, Prod.mk.injEq] at h
    obtain ⟨e1, e2, e3⟩ := h
    subst e1; subst e2; subst e3
    exact ⟨⟨[], by simp⟩, rfl, hs, rfl, hc, rfl, rfl, by simp [lettersK_nil],
      by rw [getD_of_not_truthy (by simpa using ht)]; rfl, fun r hr => (by cases hr), rfl, rfl⟩

end

end MdVerif.Flat
