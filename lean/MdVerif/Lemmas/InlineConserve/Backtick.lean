/-
C06 inline half, part 5: what `BACKTICK_RE` (`btFind`) returns.
-/
import MdVerif.Lemmas.InlineConserve.Recog

namespace MdVerif.Flat
open Py Inline

theorem take_of_le_countPrefix (ch : Char) (s : Str) (k : Nat) (h : k ≤ countPrefix ch none s) :
    s.take k = List.replicate k ch := by
  have h1 := countPrefix_prefix ch none s
  have : s.take k = (s.take (countPrefix ch none s)).take k := by
    rw [List.take_take, Nat.min_eq_left h]
  rw [this, h1, List.take_replicate, Nat.min_eq_left h]

theorem btClose_spec {m : Nat} {prev : Char} {r : Str} {L0 L : Nat} (h : btClose m prev r L0 = some L) :
    ∃ j, L = L0 + j ∧ j ≤ r.length ∧ countPrefix '`' none (r.drop j) = m := by
  induction r generalizing prev L0 with
  | nil =>
    unfold btClose at h
    split at h
    · rename_i hc
      simp only [Bool.and_eq_true, beq_iff_eq] at hc
      simp only [Option.some.injEq] at h
      exact ⟨0, by omega, by simp, by simpa using hc.2⟩
    · simp at h
  | cons c r' ih =>
    unfold btClose at h
    split at h
    · rename_i hc
      simp only [Bool.and_eq_true, beq_iff_eq] at hc
      simp only [Option.some.injEq] at h
      exact ⟨0, by omega, by simp, by simpa using hc.2⟩
    · obtain ⟨j, h1, h2, h3⟩ := ih h
      exact ⟨j + 1, by omega, by simp only [List.length_cons]; omega, by simpa using h3⟩

theorem btCode_spec {suf : Str} {t m L : Nat} (h : btCode suf t = some (m, L)) :
    1 ≤ m ∧ m ≤ t ∧ 1 ≤ L ∧ m + L ≤ suf.length ∧ countPrefix '`' none (suf.drop (m + L)) = m := by
  induction t with
  | zero => simp [btCode] at h
  | succ t ih =>
    simp only [btCode] at h
    split at h
    · rename_i c r hd
      split at h
      · rename_i L' hcl
        simp only [Option.some.injEq, Prod.mk.injEq] at h
        obtain ⟨hm, hL⟩ := h
        subst hm; subst hL
        obtain ⟨j, h1, h2, h3⟩ := btClose_spec hcl
        have hlen : (suf.drop (t + 1)).length = r.length + 1 := by rw [hd]; simp
        simp only [List.length_drop] at hlen
        refine ⟨by omega, by omega, by omega, by omega, ?_⟩
        have : suf.drop (t + 1 + L') = r.drop j := by
          rw [h1, ← List.drop_drop, hd]
          simp [Nat.add_comm 1 j, List.drop_succ_cons]
        rw [this]; exact h3
      · obtain ⟨a, b, c', d, e⟩ := ih h
        exact ⟨a, by omega, c', d, e⟩
    · obtain ⟨a, b, c', d, e⟩ := ih h
      exact ⟨a, by omega, c', d, e⟩

/-- the two kinds of match of `BACKTICK_RE` -/
inductive BtShape (suf : Str) (i : Nat) (m : BtMatch) : Prop
  | bs (k : Nat) (rest : Str) (hk : 2 ≤ k) (he : k % 2 = 0) (hs : suf = List.replicate k '\\' ++ '`' :: rest)
      (hkind : m.kind = .bs) (hstart : m.start = i) (hstop : m.stop = i + k) (hg : m.group = List.replicate k '\\')
  | code (n : Nat) (g rest : Str) (hn : 1 ≤ n) (hs : suf = List.replicate n '`' ++ g ++ List.replicate n '`' ++ rest)
      (hkind : m.kind = .code) (hstart : m.start = i) (hstop : m.stop = i + n + g.length + n) (hg : m.group = g)

theorem btAt_spec {prev : Option Char} {suf : Str} {i : Nat} {m : BtMatch} (h : btAt prev suf i = some m) :
    BtShape suf i m := by
  unfold btAt at h
  split at h
  · simp at h
  · simp only [] at h
    split at h
    · rename_i hc
      simp only [Bool.and_eq_true, decide_eq_true_eq, beq_iff_eq] at hc
      simp only [Option.some.injEq] at h
      subst h
      obtain ⟨⟨h1, h2⟩, h3⟩ := hc
      have ht := countPrefix_prefix '\\' none suf
      rw [List.getElem?_eq_some_iff] at h3
      obtain ⟨hlt, hget⟩ := h3
      refine .bs (countPrefix '\\' none suf) (suf.drop (countPrefix '\\' none suf + 1)) h1 h2 ?_ rfl rfl rfl ht
      rw [← ht, ← hget, ← List.drop_eq_getElem_cons hlt, List.take_append_drop]
    · split at h
      · rename_i r _
        split at h
        · rename_i n L hcode
          simp only [Option.some.injEq] at h
          subst h
          obtain ⟨h1, h2, h3, h4, h5⟩ := btCode_spec hcode
          have e1 := take_of_le_countPrefix '`' ('`' :: r) n h2
          have e2 := countPrefix_prefix '`' none (('`' :: r).drop (n + L))
          rw [h5] at e2
          have hlen : ((('`' :: r).drop n).take L).length = L := by
            rw [List.length_take, List.length_drop]; omega
          refine .code n ((('`' :: r).drop n).take L) ((('`' :: r).drop (n + L)).drop n) h1 ?_ rfl rfl
            (by simp only [hlen]) rfl
          have key : ('`' :: r) = ('`' :: r).take n ++ (('`' :: r).drop n).take L ++ (('`' :: r).drop (n + L)).take n
              ++ (('`' :: r).drop (n + L)).drop n := by
            rw [List.append_assoc (_ ++ _), List.take_append_drop,
              show ('`' :: r).drop (n + L) = (('`' :: r).drop n).drop L by rw [List.drop_drop],
              List.append_assoc, List.take_append_drop, List.take_append_drop]
          rw [e2, e1] at key
          exact key
        · simp at h
      · simp at h

theorem btScan_spec {prev : Option Char} {suf : Str} {i : Nat} {m : BtMatch} (h : btScan prev suf i = some m) :
    ∃ pre suf', suf = pre ++ suf' ∧ BtShape suf' (i + pre.length) m := by
  induction suf generalizing prev i with
  | nil =>
    unfold btScan at h
    split at h
    · rename_i r hr
      simp only [Option.some.injEq] at h; subst h
      exact ⟨[], [], rfl, btAt_spec hr⟩
    · simp at h
  | cons c r ih =>
    unfold btScan at h
    split at h
    · rename_i r' hr
      simp only [Option.some.injEq] at h; subst h
      exact ⟨[], c :: r, rfl, btAt_spec hr⟩
    · obtain ⟨pre, suf', h1, h2⟩ := ih h
      refine ⟨c :: pre, suf', by rw [h1]; rfl, ?_⟩
      have : i + (c :: pre).length = i + 1 + pre.length := by simp only [List.length_cons]; omega
      rw [this]; exact h2

/-- `BACKTICK_RE.search(data, start)`: the text splits at the match -/
theorem btFind_spec {data : Str} {start : Nat} {m : BtMatch} (h : btFind data start = some m) :
    ∃ pre suf', data = pre ++ suf' ∧ BtShape suf' pre.length m := by
  unfold btFind at h
  split at h
  · simp at h
  · rename_i hs
    obtain ⟨pre, suf', h1, h2⟩ := btScan_spec h
    refine ⟨data.take start ++ pre, suf', ?_, ?_⟩
    · rw [List.append_assoc, ← h1, List.take_append_drop]
    · have : (data.take start ++ pre).length = start + pre.length := by
        rw [List.length_append, List.length_take]; omega
      rw [this]; exact h2

end MdVerif.Flat
