/-
C06 inline half, part 3: placeholders and escape tokens as strings, the table of a growing stash.
-/
import MdVerif.Lemmas.InlineConserve.Flat

namespace MdVerif.Flat
open Py Inline

/-! ### concrete tokens -/

theorem phPrefix_eq : phPrefix = STX :: ['k', 'l', 'z', 'z', 'w', 'x', 'h', ':'] := by decide

theorem placeholder_eq (i : Nat) : placeholder i = STX :: (['k', 'l', 'z', 'z', 'w', 'x', 'h', ':'] ++ pad4 i ++ [ETX]) := by
  simp [placeholder, phPrefix_eq]

theorem charOk_of_digit {c : Char} (h : isAsciiDigit c = true) : charOk c = true := by
  simp only [isAsciiDigit, Bool.and_eq_true, decide_eq_true_eq] at h
  simp only [charOk, Bool.and_eq_true, bne_iff_ne, ne_eq]
  refine ⟨⟨⟨?_, ?_⟩, ?_⟩, ?_⟩ <;> (intro e; subst e; revert h; decide)

theorem ne_stx_of_digit {c : Char} (h : isAsciiDigit c = true) : c ≠ STX := by
  intro e; subst e; revert h; decide

theorem phAt_pad4 (i : Nat) (rest : Str) : phAt (pad4 i ++ ETX :: rest) = some (pad4 i, (pad4 i).length + 1) :=
  phAt_digits (by have := pad4_length i; omega) (pad4_digits i) rest

theorem phTok_placeholder {n i : Nat} (h : i < n) (rest : Str) :
    phTok n (['k', 'l', 'z', 'z', 'w', 'x', 'h', ':'] ++ pad4 i ++ [ETX] ++ rest) = true := by
  unfold phTok
  have e : phPrefix.drop 1 = ['k', 'l', 'z', 'z', 'w', 'x', 'h', ':'] := by decide
  rw [e]
  simp only [Bool.and_eq_true]
  refine ⟨startsWith_iff_prefix.2 ⟨pad4 i ++ [ETX] ++ rest, by simp⟩, ?_⟩
  have : (['k', 'l', 'z', 'z', 'w', 'x', 'h', ':'] ++ pad4 i ++ [ETX] ++ rest).drop (phPrefixLen - 1)
      = pad4 i ++ ETX :: rest := by simp [phPrefixLen]
  rw [this, phAt_pad4]
  simp [h]

theorem ok_tail_placeholder (L : Char → Bool) (n i : Nat) :
    ok L n (['k', 'l', 'z', 'z', 'w', 'x', 'h', ':'] ++ pad4 i ++ [ETX]) = true := by
  apply ok_of_no_stx
  · intro c hc
    simp only [List.mem_append, List.mem_singleton] at hc
    rcases hc with (hc | hc) | hc
    · revert c; decide
    · exact charOk_of_digit (pad4_digits i c hc)
    · subst hc; decide
  · intro hc
    simp only [List.mem_append, List.mem_singleton] at hc
    rcases hc with (hc | hc) | hc
    · revert hc; decide
    · exact ne_stx_of_digit (pad4_digits i _ hc) rfl
    · exact stx_ne_etx hc

theorem ok_placeholder (L : Char → Bool) {n i : Nat} (h : i < n) : ok L n (placeholder i) = true := by
  rw [placeholder_eq, ok_cons]
  refine ⟨by decide, Or.inr (Or.inr ?_), ok_tail_placeholder L n i⟩
  have := phTok_placeholder h []
  simpa using this

theorem tblGet_pad4 (tbl : List Str) (i : Nat) : tblGet tbl (pad4 i) = tbl[i]? := by
  simp [tblGet]

theorem flatT_placeholder (tbl : List Str) {i : Nat} (h : i < tbl.length) (rest : Str) :
    flatT tbl 0 (placeholder i ++ rest) = tbl[i] ++ flatT tbl 0 rest := by
  rw [placeholder_eq, List.cons_append, flatT_stx]
  have e : phPrefix.drop 1 = ['k', 'l', 'z', 'z', 'w', 'x', 'h', ':'] := by decide
  have hs : startsWith (['k', 'l', 'z', 'z', 'w', 'x', 'h', ':'] ++ pad4 i ++ [ETX] ++ rest) (phPrefix.drop 1) = true := by
    rw [e]; exact startsWith_iff_prefix.2 ⟨pad4 i ++ [ETX] ++ rest, by simp⟩
  have hd : (['k', 'l', 'z', 'z', 'w', 'x', 'h', ':'] ++ pad4 i ++ [ETX] ++ rest).drop (phPrefixLen - 1)
      = pad4 i ++ ETX :: rest := by simp [phPrefixLen]
  simp only [hs, if_true, hd, phAt_pad4, tblGet_pad4, List.getElem?_eq_getElem h]
  congr 1
  have : (['k', 'l', 'z', 'z', 'w', 'x', 'h', ':'] ++ pad4 i ++ [ETX] ++ rest).drop (phPrefixLen - 1 + ((pad4 i).length + 1))
      = rest := by
    have hl : phPrefixLen - 1 + ((pad4 i).length + 1)
        = (['k', 'l', 'z', 'z', 'w', 'x', 'h', ':'] ++ pad4 i ++ [ETX]).length := by
      simp [phPrefixLen]; omega
    rw [hl, List.drop_left]
  rw [this]

/-- the escape token of character number `v` -/
def escToken (v : Nat) : Str := STX :: natToDec v ++ [ETX]

theorem escTok_natToDec {L : Char → Bool} {v : Nat} (hv : v < 0x110000) (hL : tokChar L (Char.ofNat v) = true) (rest : Str) :
    escTok L (natToDec v ++ ETX :: rest) = true := by
  unfold escTok
  rw [phAt_digits (natToDec_length_pos v) (natToDec_digits v)]
  simp [hv, hL]

theorem ok_escToken {L : Char → Bool} (n : Nat) {v : Nat} (hv : v < 0x110000) (hL : tokChar L (Char.ofNat v) = true) :
    ok L n (escToken v) = true := by
  rw [escToken, List.cons_append, ok_cons]
  refine ⟨by decide, Or.inr (Or.inl ?_), ?_⟩
  · have := escTok_natToDec hv hL []
    simpa using this
  · apply ok_of_no_stx
    · intro c hc
      simp only [List.mem_append, List.mem_singleton] at hc
      rcases hc with hc | hc
      · exact charOk_of_digit (natToDec_digits v c hc)
      · subst hc; decide
    · intro hc
      simp only [List.mem_append, List.mem_singleton] at hc
      rcases hc with hc | hc
      · exact ne_stx_of_digit (natToDec_digits v _ hc) rfl
      · exact stx_ne_etx hc

theorem letters_escToken {L : Char → Bool} (hL : LetterClass L) (v : Nat) : letters L (escToken v) = [] := by
  apply letters_eq_nil_of_all
  intro c hc
  simp only [escToken, List.cons_append, List.mem_cons, List.mem_append ] at hc
  rcases hc with hc | hc | hc
  · subst hc; exact hL.stx
  · exact hL.digit c (natToDec_digits v c hc)
  · rcases hc with hc | hc
    · subst hc; exact hL.etx
    · cases hc

/-- an escape token is left alone by the expansion -/
theorem flatT_escToken (tbl : List Str) (v : Nat) (rest : Str) :
    flatT tbl 0 (escToken v ++ rest) = escToken v ++ flatT tbl 0 rest := by
  have hne := natToDec_ne_nil v
  have hd := natToDec_digits v
  rw [escToken, List.cons_append, List.cons_append, flatT_stx]
  have hs : startsWith (natToDec v ++ [ETX] ++ rest) (phPrefix.drop 1) = false := by
    cases hv : natToDec v with
    | nil => exact absurd hv hne
    | cons d ds =>
      have hdd : isAsciiDigit d = true := hd d (by rw [hv]; simp)
      have e : phPrefix.drop 1 = ['k', 'l', 'z', 'z', 'w', 'x', 'h', ':'] := by decide
      rw [e]
      by_cases hk : d = 'k'
      · subst hk; simp [isAsciiDigit] at hdd
      · simp [hk]
  simp only [hs, Bool.false_eq_true, if_false]
  have hno : STX ∉ natToDec v ++ [ETX] := by
    intro hm
    simp only [List.mem_append, List.mem_singleton] at hm
    rcases hm with hm | hm
    · exact ne_stx_of_digit (hd _ hm) rfl
    · exact stx_ne_etx hm
  rw [flatT_append_no_stx tbl hno]; rfl

/-! ### a growing table -/

theorem tblGet_append {tbl : List Str} {id : Str} (h : decToNat id < tbl.length) (ext : List Str) :
    tblGet (tbl ++ ext) id = tblGet tbl id := by
  simp only [tblGet]
  split
  · rw [List.getElem?_append_left h]
  · rfl

/-- the expansion does not change when entries are added that `s` does not refer to -/
theorem flatT_ext {L : Char → Bool} (tbl ext : List Str) :
    ∀ (k : Nat) (s : Str), s.length ≤ k → ok L tbl.length s = true → flatT (tbl ++ ext) 0 s = flatT tbl 0 s := by
  intro k
  induction k with
  | zero =>
    intro s hk _
    have : s = [] := List.length_eq_zero_iff.1 (by omega)
    subst this; rfl
  | succ k ih =>
    intro s hk hok
    cases s with
    | nil => rfl
    | cons c r =>
      rw [ok_cons] at hok
      simp only [List.length_cons] at hk
      have ihr := ih r (by omega) hok.2.2
      by_cases hc : c = STX
      · subst hc
        rw [flatT_stx, flatT_stx]
        rcases hok.2.1 with h | h | h
        · exact absurd rfl h
        · rw [escTok_not_startsWith h]
          simp only [Bool.false_eq_true, if_false, ihr]
        · unfold phTok at h
          simp only [Bool.and_eq_true] at h
          simp only [h.1, if_true]
          cases hp : phAt (r.drop (phPrefixLen - 1)) with
          | none => simp [hp] at h
          | some x =>
            obtain ⟨id, l⟩ := x
            have h2 := h.2
            simp only [hp, Bool.and_eq_true, decide_eq_true_eq] at h2
            simp only []
            rw [tblGet_append h2.2]
            cases tblGet tbl id with
            | none => simp only [ihr]
            | some v =>
              simp only []
              rw [ih (r.drop (phPrefixLen - 1 + l)) (by simp only [List.length_drop]; omega) (ok_drop hok.2.2 _)]
      · rw [flatT_cons_ne _ hc, flatT_cons_ne _ hc, ihr]

theorem flatT_ext_ok {L : Char → Bool} {tbl : List Str} {s : Str} (h : ok L tbl.length s = true) (ext : List Str) :
    flatT (tbl ++ ext) 0 s = flatT tbl 0 s :=
  flatT_ext tbl ext s.length s (Nat.le_refl _) h

mutual
theorem nodeFlat_ext {L : Char → Bool} (tbl ext : List Str) :
    (n : Node) → nodeOk L tbl.length n = true → nodeFlat (tbl ++ ext) n = nodeFlat tbl n
  | ⟨_, _, text, _, children, _, _⟩, h => by
    simp only [nodeOk, Bool.and_eq_true] at h
    simp only [nodeFlat]
    rw [flatT_ext_ok h.1.1, kidsFlat_ext tbl ext children h.2]
theorem kidsFlat_ext {L : Char → Bool} (tbl ext : List Str) :
    (ns : List Node) → kidsOk L tbl.length ns = true → kidsFlat (tbl ++ ext) ns = kidsFlat tbl ns
  | [], _ => rfl
  | c :: r, h => by
    simp only [kidsOk, Bool.and_eq_true] at h
    simp only [kidsFlat]
    have hc := h.1
    rw [nodeFlat_ext tbl ext c h.1, kidsFlat_ext tbl ext r h.2]
    have : ok L tbl.length (c.tail.getD []) = true := by
      obtain ⟨_, _, _, _, _, tail, _⟩ := c
      simp only [nodeOk, Bool.and_eq_true] at hc
      exact hc.1.2
    rw [flatT_ext_ok this]
end

theorem tableAux_append (a b : List StashItem) (acc : List Str) :
    tableAux (a ++ b) acc = tableAux b (tableAux a acc) := by
  induction a generalizing acc with
  | nil => rfl
  | cons it r ih => simp only [List.cons_append, tableAux]; exact ih _

theorem tableAux_prefix (a : List StashItem) (acc : List Str) :
    ∃ e, tableAux a acc = acc ++ e ∧ e.length = a.length := by
  induction a generalizing acc with
  | nil => exact ⟨[], by simp [tableAux]⟩
  | cons it r ih =>
    obtain ⟨e, he, hl⟩ := ih (acc ++ [itemText acc it])
    exact ⟨itemText acc it :: e, by simp only [tableAux, he, List.append_assoc, List.singleton_append], by simp [hl]⟩

theorem table_length (stash : List StashItem) : (table stash).length = stash.length := by
  obtain ⟨e, he, hl⟩ := tableAux_prefix stash []
  simp only [table, he, List.nil_append, hl]

theorem table_snoc (stash : List StashItem) (it : StashItem) :
    table (stash ++ [it]) = table stash ++ [itemText (table stash) it] := by
  simp only [table, tableAux_append, tableAux]

theorem table_append (stash ext : List StashItem) : ∃ e, table (stash ++ ext) = table stash ++ e := by
  obtain ⟨e, he, _⟩ := tableAux_prefix ext (table stash)
  exact ⟨e, by simp only [table, tableAux_append] at he ⊢; exact he⟩

/-- the visible text of a string does not change when the stash grows -/
theorem flat_ext {L : Char → Bool} {stash : List StashItem} {s : Str} (h : ok L stash.length s = true)
    (ext : List StashItem) : flat (stash ++ ext) s = flat stash s := by
  obtain ⟨e, he⟩ := table_append stash ext
  simp only [flat, he]
  exact flatT_ext_ok (by rw [table_length]; exact h) e

theorem nodeFlat_table_ext {L : Char → Bool} {stash : List StashItem} {n : Node}
    (h : nodeOk L stash.length n = true) (ext : List StashItem) :
    nodeFlat (table (stash ++ ext)) n = nodeFlat (table stash) n := by
  obtain ⟨e, he⟩ := table_append stash ext
  rw [he]
  exact nodeFlat_ext _ e n (by rw [table_length]; exact h)

theorem kidsFlat_table_ext {L : Char → Bool} {stash : List StashItem} {ns : List Node}
    (h : kidsOk L stash.length ns = true) (ext : List StashItem) :
    kidsFlat (table (stash ++ ext)) ns = kidsFlat (table stash) ns := by
  obtain ⟨e, he⟩ := table_append stash ext
  rw [he]
  exact kidsFlat_ext _ e ns (by rw [table_length]; exact h)

/-! ### the stash invariant -/

theorem stashOkAux_append (L : Char → Bool) (a b : List StashItem) (i : Nat) :
    stashOkAux L (a ++ b) i = (stashOkAux L a i && stashOkAux L b (i + a.length)) := by
  induction a generalizing i with
  | nil => simp [stashOkAux]
  | cons it r ih =>
    simp only [List.cons_append, stashOkAux, ih, List.length_cons, Bool.and_assoc]
    congr 3; omega

theorem stashOk_snoc (L : Char → Bool) (stash : List StashItem) (it : StashItem) :
    stashOk L (stash ++ [it]) = (stashOk L stash && itemOk L stash.length it) := by
  simp [stashOk, stashOkAux_append, stashOkAux]

mutual
theorem nodeOk_mono {L : Char → Bool} {n m : Nat} (hnm : n ≤ m) : (x : Node) → nodeOk L n x = true → nodeOk L m x = true
  | ⟨_, _, text, _, children, tail, _⟩, h => by
    simp only [nodeOk, Bool.and_eq_true] at h ⊢
    exact ⟨⟨ok_mono hnm h.1.1, ok_mono hnm h.1.2⟩, kidsOk_mono hnm children h.2⟩
theorem kidsOk_mono {L : Char → Bool} {n m : Nat} (hnm : n ≤ m) : (xs : List Node) → kidsOk L n xs = true → kidsOk L m xs = true
  | [], _ => rfl
  | c :: r, h => by
    simp only [kidsOk, Bool.and_eq_true] at h ⊢
    exact ⟨nodeOk_mono hnm c h.1, kidsOk_mono hnm r h.2⟩
end

end MdVerif.Flat
