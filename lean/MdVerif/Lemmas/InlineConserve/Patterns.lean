/-
C06 inline half, part 10: every pattern of the domain keeps the visible letters (`findMatch`, `applyPattern`).
-/
import MdVerif.Lemmas.InlineConserve.Apply

namespace MdVerif.Flat
open Py Inline

/-! ### characters -/

theorem toNat_of_not_brk {c : Char} (h : brk c = false) :
    c.toNat = 3 ∨ (48 ≤ c.toNat ∧ c.toNat ≤ 58) ∨ c.toNat = 104 ∨ c.toNat = 107 ∨ c.toNat = 108 ∨ c.toNat = 119 ∨
      c.toNat = 120 ∨ c.toNat = 122 := by
  simp only [brk, Bool.and_eq_false_iff, bne_eq_false_iff_eq, Bool.not_eq_eq_eq_not,
    Bool.not_false] at h
  rcases h with (h | h) | h
  · simp only [isAsciiDigit, Bool.and_eq_true, decide_eq_true_eq, Char.le_def, UInt32.le_iff_toNat_le] at h
    have h1 : ('0' : Char).val.toNat = 48 := by decide
    have h2 : ('9' : Char).val.toNat = 57 := by decide
    rw [h1, h2] at h
    have : c.toNat = c.val.toNat := rfl
    right; left; omega
  · subst h; left; decide
  · simp only [List.contains_eq_mem, List.mem_cons, decide_eq_true_eq, List.not_mem_nil, or_false] at h
    rcases h with h | h | h | h | h | h | h <;> subst h <;> decide

theorem isSpace_toNat {c : Char} (h : isSpace c = true) :
    128 ≤ c.toNat ∨ c.toNat = 32 ∨ c.toNat = 10 ∨ c.toNat = 9 ∨ c.toNat = 13 ∨ c.toNat = 11 ∨ c.toNat = 12 ∨
      (28 ≤ c.toNat ∧ c.toNat ≤ 31) := by
  unfold isSpace at h
  split at h
  · right
    simp only [Bool.or_eq_true, decide_eq_true_eq, Bool.and_eq_true] at h
    rcases h with (((((h | h) | h) | h) | h) | h) | h
    · subst h; left; decide
    · subst h; right; left; decide
    · subst h; right; right; left; decide
    · subst h; right; right; right; left; decide
    · right; right; right; right; left; exact h
    · right; right; right; right; right; left; exact h
    · right; right; right; right; right; right; exact h
  · left; omega

theorem brk_of_isSpace {c : Char} (h : isSpace c = true) : brk c = true := by
  cases hb : brk c with
  | true => rfl
  | false =>
    have h1 := toNat_of_not_brk hb
    have h2 := isSpace_toNat h
    omega

theorem ne_stx_of_isSpace {c : Char} (h : isSpace c = true) : c ≠ STX := by
  intro e; subst e; revert h; decide

theorem stx_not_mem_of_all_space {a : Str} (h : a.all isSpace = true) : STX ∉ a := by
  intro hm
  simp only [List.all_eq_true] at h
  exact ne_stx_of_isSpace (h _ hm) rfl

theorem letters_of_all_space {L : Char → Bool} (hL : LetterClass L) {a : Str} (h : a.all isSpace = true) :
    letters L a = [] := by
  simp only [List.all_eq_true] at h
  exact letters_eq_nil_of_all L (fun c hc => hL.space c (h c hc))

/-! ### code text -/

theorem contains_single_false {s : Str} {x : Char} (h : x ∉ s) : contains s [x] = false := by
  rw [contains_eq_false_iff]
  intro pre post e
  exact h (by rw [e]; simp)

theorem codeEscape_id {L : Char → Bool} {n : Nat} {s : Str} (h : ok L n s = true) : codeEscape s = s := by
  obtain ⟨_, h2, h3, h4⟩ := not_mem_of_ok h
  unfold codeEscape
  rw [replace_id_of_not_contains _ (contains_single_false h2), replace_id_of_not_contains _ (contains_single_false h4),
    replace_id_of_not_contains _ (contains_single_false h3)]

theorem strip_flat {L : Char → Bool} (hL : LetterClass L) {n : Nat} (tbl : List Str) {g : Str} (h : ok L n g = true) :
    ok L n (strip g) = true ∧ letters L (flatT tbl 0 (strip g)) = letters L (flatT tbl 0 g) := by
  obtain ⟨a, b, hg, ha, hb⟩ := stripP_decomp isSpace g
  have hsb : ok L n (stripP isSpace g ++ b) = true := by
    rw [hg, List.append_assoc] at h; exact ok_of_append_right h
  have hs : ok L n (stripP isSpace g) = true := by
    cases b with
    | nil => simpa using hsb
    | cons b0 b' =>
      have : isSpace b0 = true := by simp only [List.all_cons, Bool.and_eq_true] at hb; exact hb.1
      exact ok_of_append_brk (brk_of_isSpace this) hsb
  refine ⟨hs, ?_⟩
  conv => rhs; rw [hg, List.append_assoc, flatT_append_no_stx tbl (stx_not_mem_of_all_space ha),
    flatT_append_ok tbl hs, flatT_no_stx tbl (stx_not_mem_of_all_space hb)]
  simp only [letters_append, letters_of_all_space hL ha, letters_of_all_space hL hb, List.nil_append, List.append_nil]
  rfl

/-! ### the replacement of `\\` pairs -/

theorem replace_bs_pairs (tok : Str) (j : Nat) :
    replace (List.replicate (2 * j) '\\') ['\\', '\\'] tok = (List.replicate j tok).flatten := by
  induction j with
  | zero => simp
  | succ j ih =>
    have e : List.replicate (2 * (j + 1)) '\\' = '\\' :: '\\' :: List.replicate (2 * j) '\\' := by
      rw [show 2 * (j + 1) = 2 * j + 1 + 1 by omega, List.replicate_succ, List.replicate_succ]
    rw [e, replace_of_startsWith (by simp) (by simp [startsWith])]
    simp [List.replicate_succ, ih]

theorem escToken_92 : STX :: '9' :: '2' :: [ETX] = escToken 92 := by decide

theorem ok_flatten_replicate {L : Char → Bool} {n : Nat} {t : Str} (h : ok L n t = true) (j : Nat) :
    ok L n (List.replicate j t).flatten = true := by
  induction j with
  | zero => rfl
  | succ j ih => simp only [List.replicate_succ, List.flatten_cons]; exact ok_append h ih

theorem letters_flatten_replicate {L : Char → Bool} {t : Str} (h : letters L t = []) (j : Nat) :
    letters L (List.replicate j t).flatten = [] := by
  induction j with
  | zero => rfl
  | succ j ih => simp only [List.replicate_succ, List.flatten_cons, letters_append, h, ih, List.append_nil]

/-! ### cutting the match out of the text -/

/-- `data` splits into the text before the match, the match and the text after it; both sides are well formed and the
    visible letters of the match are `X` -/
def Cut (L : Char → Bool) (stash : List StashItem) (data : Str) (start : Nat) (stop : Int) (X : Str) : Prop :=
  ∃ pre M post, data = pre ++ M ++ post ∧ data.take start = pre ∧ pyDrop data stop = post ∧
    ok L stash.length pre = true ∧ ok L stash.length post = true ∧
    lettersF L stash data = lettersF L stash pre ++ X ++ lettersF L stash post

theorem cut_of {L : Char → Bool} {stash : List StashItem} {data pre M' post : Str} {c : Char} {X : Str}
    (hdata : ok L stash.length data = true) (h : data = pre ++ (c :: M') ++ post) (hc : brk c = true)
    (hX : letters L (flat stash ((c :: M') ++ post)) = X ++ letters L (flat stash post)) :
    Cut L stash data pre.length ((pre.length + (c :: M').length : Nat) : Int) X := by
  obtain ⟨h1, h2⟩ := take_drop_of_eq h
  have hok : ok L stash.length (pre ++ c :: (M' ++ post)) = true := by
    rw [h] at hdata; simpa using hdata
  have hpre := ok_of_append_brk hc hok
  have hpost : ok L stash.length post = true := by
    rw [h] at hdata; exact ok_of_append_right hdata
  refine ⟨pre, c :: M', post, h, h1, by rw [pyDrop_nat]; exact h2, hpre, hpost, ?_⟩
  have hpre' : ok L (table stash).length pre = true := by rw [table_length]; exact hpre
  simp only [lettersF, flat] at hX ⊢
  rw [h, List.append_assoc, flatT_append_ok _ hpre', letters_append, hX, List.append_assoc]

/-- what `findMatch` returns -/
def FoundOk (L : Char → Bool) (st : St) (data : Str) (f : Found) : Prop :=
  match f.node with
  | .none => True
  | .str s => ok L 0 s = true ∧ Cut L st.stash data f.start f.stop (letters L s)
  | .el nd => nd.tail = none ∧ nodeOk L st.stash.length nd = true ∧ nd.attrs = [] ∧
      kidsNonAtomic nd.children = true ∧
      Cut L st.stash data f.start f.stop (letters L (nodeFlat (table st.stash) nd))

section
variable {L : Char → Bool} {st : St} {data : Str}

theorem flat_cons_ne (stash : List StashItem) {c : Char} (h : c ≠ STX) (s : Str) :
    flat stash (c :: s) = c :: flat stash s := flatT_cons_ne _ h s

theorem flat_append_no_stx (stash : List StashItem) {a : Str} (h : STX ∉ a) (b : Str) :
    flat stash (a ++ b) = a ++ flat stash b := flatT_append_no_stx _ h b

theorem not_mem_replicate {c x : Char} (h : x ≠ c) (k : Nat) : x ∉ List.replicate k c :=
  fun hm => h (List.eq_of_mem_replicate hm)

/-- pattern 0, code span -/
theorem found_code (hL : LetterClass L) (hdata : ok L st.stash.length data = true) {pre suf' : Str} {m : BtMatch}
    (hd : data = pre ++ suf') {n : Nat} {g rest : Str} (hn : 1 ≤ n)
    (hs : suf' = List.replicate n '`' ++ g ++ List.replicate n '`' ++ rest) (hstart : m.start = pre.length)
    (hstop : m.stop = pre.length + n + g.length + n) (hg : m.group = g) :
    FoundOk L st data ⟨.el { mkEl "code" with text := some (codeEscape (strip m.group)), textAtomic := true },
      m.start, m.stop⟩ := by
  obtain ⟨n', rfl⟩ : ∃ n', n = n' + 1 := ⟨n - 1, by omega⟩
  have hne : ('`' : Char) ≠ STX := by decide
  have hbt : brk '`' = true := by decide
  -- the group is well formed: it is followed by a backtick
  have hokg : ok L st.stash.length (g ++ '`' :: (List.replicate n' '`' ++ rest)) = true := by
    rw [hd, hs] at hdata
    have := ok_of_append_right hdata
    simp only [List.append_assoc] at this
    have := ok_of_append_right this
    simpa [List.replicate_succ] using this
  have hg' := ok_of_append_brk hbt hokg
  obtain ⟨hsg, hlet⟩ := strip_flat hL (table st.stash) hg'
  subst hg
  rw [codeEscape_id hsg]
  refine ⟨rfl, ?_, rfl, rfl, ?_⟩
  · rw [nodeOk_iff]; exact ⟨hsg, rfl, rfl⟩
  · have hcut := cut_of (X := letters L (flatT (table st.stash) 0 (strip m.group))) hdata
      (pre := pre) (c := '`') (M' := List.replicate n' '`' ++ m.group ++ List.replicate (n' + 1) '`') (post := rest)
      (by rw [hd, hs]; simp [List.replicate_succ]) hbt ?_
    · simp only [hstart, hstop]
      have : pre.length + (n' + 1) + m.group.length + (n' + 1)
          = pre.length + ('`' :: (List.replicate n' '`' ++ m.group ++ List.replicate (n' + 1) '`')).length := by
        simp; omega
      rw [this]
      simpa [nodeFlat_eq, mkEl, kidsFlat_nil] using hcut
    · have e : ('`' :: (List.replicate n' '`' ++ m.group ++ List.replicate (n' + 1) '`')) ++ rest
          = List.replicate (n' + 1) '`' ++ (m.group ++ (List.replicate (n' + 1) '`' ++ rest)) := by
        simp [List.replicate_succ]
      rw [e, flat_append_no_stx _ (not_mem_replicate (Ne.symm hne) _)]
      have hokg2 : ok L (table st.stash).length m.group = true := by rw [table_length]; exact hg'
      simp only [flat]
      rw [flatT_append_ok _ hokg2, flatT_append_no_stx _ (not_mem_replicate (Ne.symm hne) _)]
      simp only [letters_append, letters_replicate L hL.tick, List.nil_append, hlet]

/-- pattern 0, backslash pairs in front of a backtick -/
theorem found_bs (hL : LetterClass L) (hdata : ok L st.stash.length data = true) {pre suf' : Str} {m : BtMatch}
    (hd : data = pre ++ suf') {k : Nat} {rest : Str} (hk : 2 ≤ k) (he : k % 2 = 0)
    (hs : suf' = List.replicate k '\\' ++ '`' :: rest) (hstart : m.start = pre.length)
    (hstop : m.stop = pre.length + k) (hg : m.group = List.replicate k '\\') :
    FoundOk L st data ⟨.str (replace m.group ['\\', '\\'] (STX :: '9' :: '2' :: [ETX])), m.start, m.stop⟩ := by
  obtain ⟨k', rfl⟩ : ∃ k', k = k' + 1 := ⟨k - 1, by omega⟩
  have hne : ('\\' : Char) ≠ STX := by decide
  have hbs : brk '\\' = true := by decide
  have hk2 : k' + 1 = 2 * ((k' + 1) / 2) := by omega
  have hrep : replace m.group ['\\', '\\'] (STX :: '9' :: '2' :: [ETX])
      = (List.replicate ((k' + 1) / 2) (escToken 92)).flatten := by
    rw [hg, hk2, replace_bs_pairs, escToken_92]; congr 2; omega
  have hL92 : tokChar L (Char.ofNat 92) = true := by
    have e : Char.ofNat 92 = '\\' := by decide
    rw [e]; simp only [tokChar, hL.bslash, Bool.not_false, Bool.true_and, Bool.and_eq_true, bne_iff_ne, ne_eq]
    exact ⟨by decide, by decide⟩
  rw [hrep]
  refine ⟨ok_flatten_replicate (ok_escToken 0 (by decide) hL92) _, ?_⟩
  show Cut L st.stash data m.start (m.stop : Int) _
  rw [letters_flatten_replicate (letters_escToken hL 92)]
  have hcut := cut_of (X := []) hdata (pre := pre) (c := '\\') (M' := List.replicate k' '\\') (post := '`' :: rest)
    (by rw [hd, hs]; simp [List.replicate_succ]) hbs ?_
  · simp only [hstart, hstop]
    have : pre.length + (k' + 1) = pre.length + ('\\' :: List.replicate k' '\\').length := by simp
    rw [this]; exact hcut
  · have e : ('\\' :: List.replicate k' '\\') ++ '`' :: rest = List.replicate (k' + 1) '\\' ++ '`' :: rest := by
      simp [List.replicate_succ]
    rw [e, flat_append_no_stx _ (not_mem_replicate (Ne.symm hne) _)]
    simp only [letters_append, letters_replicate L hL.bslash, List.nil_append]

end

end MdVerif.Flat
