/-
C06 inline half, part 19: `PrettifyTreeprocessor` only touches white space, `UnescapeTreeprocessor` only restores
escaped characters (which are not letters).
-/
import MdVerif.Lemmas.InlineConserve.Top

namespace MdVerif.Flat
open Py Inline TreeProc

section
variable {L : Char → Bool}

/-- letters of an element and its tail -/
def lettersT (L : Char → Bool) (n : Node) : Str := letters L (content n ++ n.tail.getD [])

theorem lettersT_eq (n : Node) :
    lettersT L n = letters L (n.text.getD []) ++ letters L (contentKids n.children) ++ letters L (n.tail.getD []) := by
  simp only [lettersT, content_eq, letters_append]

theorem letters_contentKids_cons (c : Node) (r : List Node) :
    letters L (contentKids (c :: r)) = lettersT L c ++ letters L (contentKids r) := by
  simp only [contentKids_cons, lettersT, letters_append]

theorem stx_eq : TreeProc.STX = Inline.STX := rfl
theorem etx_eq : TreeProc.ETX = Inline.ETX := rfl

theorem letters_blankOrNone (hL : LetterClass L) {t : Option Str} (h : blankOrNone t = true) :
    letters L (t.getD []) = [] := by
  simp only [blankOrNone, Bool.or_eq_true, Bool.not_eq_true'] at h
  rcases h with h | h
  · rw [getD_of_not_truthy h]; rfl
  · exact letters_of_all_space hL h

theorem letters_nl (hL : LetterClass L) : letters L ['\n'] = [] :=
  letters_cons_of_not L (hL.space _ (by decide)) []

theorem ok_nl (n : Nat) : ok L n ['\n'] = true := ok_of_no_stx (by decide) (by decide)

/-- a per-element rewrite that keeps well-formedness and the letters of the element with its tail -/
def NodeRule (L : Char → Bool) (f : Node → Node) : Prop :=
  ∀ n, (nodeOk L 0 n = true → nodeOk L 0 (f n) = true) ∧ lettersT L (f n) = lettersT L n

mutual
theorem mapTree_spec {f : Node → Node} (hf : NodeRule L f) :
    (n : Node) → (nodeOk L 0 n = true → nodeOk L 0 (mapTree f n) = true) ∧ lettersT L (mapTree f n) = lettersT L n
  | ⟨tag, attrs, text, ta, children, tail, tla⟩ => by
    have hk := mapKids_spec hf children
    simp only [mapTree]
    have h1 := hf ⟨tag, attrs, text, ta, mapKids f children, tail, tla⟩
    refine ⟨fun hn => h1.1 ?_, ?_⟩
    · rw [nodeOk_iff] at hn ⊢; exact ⟨hn.1, hn.2.1, hk.1 hn.2.2⟩
    · rw [h1.2, lettersT_eq, lettersT_eq]; simp only [hk.2]
theorem mapKids_spec {f : Node → Node} (hf : NodeRule L f) :
    (ns : List Node) → (kidsOk L 0 ns = true → kidsOk L 0 (mapKids f ns) = true) ∧
      letters L (contentKids (mapKids f ns)) = letters L (contentKids ns)
  | [] => ⟨fun h => h, rfl⟩
  | c :: r => by
    have h1 := mapTree_spec hf c
    have h2 := mapKids_spec hf r
    simp only [mapKids]
    refine ⟨fun hn => ?_, ?_⟩
    · rw [kidsOk_cons] at hn ⊢; exact ⟨h1.1 hn.1, h2.1 hn.2⟩
    · rw [letters_contentKids_cons, letters_contentKids_cons, h1.2, h2.2]
end

theorem brRule_rule (hL : LetterClass L) : NodeRule L brRule := by
  intro n
  unfold brRule
  split
  · split
    · rename_i hb
      refine ⟨fun hn => ?_, ?_⟩
      · rw [nodeOk_iff] at hn ⊢; exact ⟨hn.1, ok_nl 0, hn.2.2⟩
      · rw [lettersT_eq, lettersT_eq]
        simp only [Option.getD_some, letters_nl hL, letters_blankOrNone hL hb]
    · refine ⟨fun hn => ?_, ?_⟩
      · rw [nodeOk_iff] at hn ⊢
        refine ⟨hn.1, ?_, hn.2.2⟩
        simp only [Option.getD_some]
        rw [ok_cons]; exact ⟨by decide, Or.inl (by decide), hn.2.1⟩
      · rw [lettersT_eq, lettersT_eq]
        simp only [Option.getD_some, letters_cons_of_not L (hL.space '\n' (by decide))]
  · exact ⟨fun h => h, rfl⟩

theorem rstrip_spec (hL : LetterClass L) {n : Nat} {t : Str} (h : ok L n t = true) :
    ok L n (rstrip t ++ ['\n']) = true ∧ letters L (rstrip t ++ ['\n']) = letters L t := by
  obtain ⟨w, hw, hall⟩ := rstripP_decomp isSpace t
  have hr : ok L n (rstripP isSpace t) = true := by
    cases w with
    | nil => rw [List.append_nil] at hw; rw [← hw]; exact h
    | cons w0 w' =>
      have : isSpace w0 = true := by simp only [List.all_cons, Bool.and_eq_true] at hall; exact hall.1
      rw [hw] at h
      exact ok_of_append_brk (brk_of_isSpace this) h
  refine ⟨ok_append hr (ok_nl n), ?_⟩
  conv => rhs; rw [hw]
  simp only [rstrip, letters_append, letters_nl hL, letters_of_all_space hL hall]

theorem preRule_rule (hL : LetterClass L) : NodeRule L preRule := by
  intro n
  unfold preRule
  split
  · split
    · rename_i code rest hch
      split
      · split
        · rename_i t ht
          refine ⟨fun hn => ?_, ?_⟩
          · rw [nodeOk_iff] at hn ⊢
            refine ⟨hn.1, hn.2.1, ?_⟩
            have hk := hn.2.2
            rw [hch, kidsOk_cons] at hk
            have hc := nodeOk_iff.1 hk.1
            simp only []
            refine kidsOk_cons.2 ⟨?_, hk.2⟩
            rw [nodeOk_iff]
            refine ⟨?_, hc.2.1, hc.2.2⟩
            simp only [Option.getD_some]
            have : ok L 0 t = true := by have := hc.1; rw [ht] at this; exact this
            exact (rstrip_spec hL this).1
          · rw [lettersT_eq, lettersT_eq]
            simp only [hch, letters_contentKids_cons]
            congr 3
            rw [lettersT_eq, lettersT_eq]
            simp only [Option.getD_some, ht]
            -- letters only
            have : letters L (rstrip t ++ ['\n']) = letters L t := by
              obtain ⟨w, hw, hall⟩ := rstripP_decomp isSpace t
              conv => rhs; rw [hw]
              simp only [rstrip, letters_append, letters_nl hL, letters_of_all_space hL hall]
            rw [this]
        · exact ⟨fun h => h, rfl⟩
      · exact ⟨fun h => h, rfl⟩
    · exact ⟨fun h => h, rfl⟩
  · exact ⟨fun h => h, rfl⟩

theorem ok_ite_nl (b : Bool) {t : Option Str} (h : ok L 0 (t.getD []) = true) :
    ok L 0 ((if b = true then some ['\n'] else t).getD []) = true := by
  cases b
  · exact h
  · exact ok_nl 0

theorem letters_ite_nl (hL : LetterClass L) (b : Bool) {t : Option Str} (h : b = true → blankOrNone t = true) :
    letters L ((if b = true then some ['\n'] else t).getD []) = letters L (t.getD []) := by
  cases b
  · rfl
  · simp only [if_true, Option.getD_some, letters_nl hL, letters_blankOrNone hL (h rfl)]

mutual
theorem prettifyETree_spec (hL : LetterClass L) (bl : List Str) :
    (n : Node) → (nodeOk L 0 n = true → nodeOk L 0 (prettifyETree bl n) = true) ∧
      lettersT L (prettifyETree bl n) = lettersT L n
  | ⟨tag, attrs, text, ta, children, tail, tla⟩ => by
    have hk := prettifyKids_spec hL bl children
    simp only [prettifyETree]
    generalize hb1 : (isBlockLevel bl tag && !(tag == .name "code".toList) && !(tag == .name "pre".toList)) = b1
    refine ⟨fun hn => ?_, ?_⟩
    · rw [nodeOk_iff] at hn ⊢
      simp only [] at hn ⊢
      refine ⟨ok_ite_nl _ hn.1, ok_ite_nl _ hn.2.1, ?_⟩
      cases b1
      · exact hn.2.2
      · exact hk.1 hn.2.2
    · rw [lettersT_eq, lettersT_eq]
      simp only []
      rw [letters_ite_nl hL _ (t := text) (fun h => by
          simp only [Bool.and_eq_true] at h; exact h.1.2),
        letters_ite_nl hL (blankOrNone tail) (fun h => h)]
      cases b1
      · rfl
      · simp only [if_true, hk.2]
theorem prettifyKids_spec (hL : LetterClass L) (bl : List Str) :
    (ns : List Node) → (kidsOk L 0 ns = true → kidsOk L 0 (prettifyKids bl ns) = true) ∧
      letters L (contentKids (prettifyKids bl ns)) = letters L (contentKids ns)
  | [] => ⟨fun h => h, rfl⟩
  | c :: r => by
    have h1 := prettifyETree_spec hL bl c
    have h2 := prettifyKids_spec hL bl r
    simp only [prettifyKids]
    refine ⟨fun hn => ?_, ?_⟩
    · rw [kidsOk_cons] at hn ⊢
      refine ⟨?_, h2.1 hn.2⟩
      split
      · exact h1.1 hn.1
      · exact hn.1
    · rw [letters_contentKids_cons, letters_contentKids_cons, h2.2]
      congr 1
      split
      · exact h1.2
      · rfl
end

/-- `PrettifyTreeprocessor.run` -/
theorem prettify_spec (hL : LetterClass L) (bl : List Str) (root : Node) :
    (nodeOk L 0 root = true → nodeOk L 0 (prettify root bl) = true) ∧
      lettersT L (prettify root bl) = lettersT L root := by
  unfold prettify
  have h1 := prettifyETree_spec hL bl root
  have h2 := mapTree_spec (brRule_rule hL) (prettifyETree bl root)
  have h3 := mapTree_spec (preRule_rule hL) (mapTree brRule (prettifyETree bl root))
  exact ⟨fun hn => h3.1 (h2.1 (h1.1 hn)), by rw [h3.2, h2.2, h1.2]⟩

/-! ### `UnescapeTreeprocessor` -/

theorem unescapeText_eq_drop (k : Nat) (s : Str) : unescapeText k s = unescapeText 0 (s.drop k) := by
  induction s generalizing k with
  | nil => cases k <;> simp [unescapeText]
  | cons c r ih =>
    cases k with
    | zero => simp
    | succ k => simp only [unescapeText, List.drop_succ_cons]; exact ih k

theorem isDecimal_etx : isDecimal Inline.ETX = false := by decide

theorem spanLen_isDecimal_digits {id rest : Str} (hd : ∀ c ∈ id, isAsciiDigit c = true) :
    spanLen isDecimal (id ++ Inline.ETX :: rest) = id.length := by
  have hall : id.all isDecimal = true := by
    simp only [List.all_eq_true]; intro c hc; exact isDecimal_of_isAsciiDigit (hd c hc)
  rw [spanLen_append_all ((spanLen_eq_length_iff _ _).2 hall)]
  simp [spanLen, isDecimal_etx]

/-- restoring the escaped characters of a string without placeholders does not change its letters -/
theorem unescapeText_letters (hL : LetterClass L) :
    ∀ (k : Nat) (s s' : Str), s.length ≤ k → ok L 0 s = true → unescapeText 0 s = some s' →
      letters L s' = letters L s := by
  intro k
  induction k with
  | zero =>
    intro s s' hk _ h
    have : s = [] := List.length_eq_zero_iff.1 (by omega)
    subst this
    simp only [unescapeText, Option.some.injEq] at h
    subst h; rfl
  | succ k ih =>
    intro s s' hk hok h
    cases s with
    | nil =>
      simp only [unescapeText, Option.some.injEq] at h
      subst h; rfl
    | cons c r =>
      rw [ok_cons] at hok
      simp only [List.length_cons] at hk
      by_cases hc : c = Inline.STX
      · subst hc
        rcases hok.2.1 with h1 | h1 | h1
        · exact absurd rfl h1
        · unfold escTok at h1
          cases hp : phAt r with
          | none => simp [hp] at h1
          | some x =>
            obtain ⟨id, l⟩ := x
            simp only [hp, tokChar, Bool.and_eq_true, decide_eq_true_eq, Bool.not_eq_true', bne_iff_ne, ne_eq] at h1
            obtain ⟨hl, hpos, hd, rest, hr⟩ := phAt_some hp
            subst hr
            have hspan := spanLen_isDecimal_digits (rest := rest) hd
            have hget : (id ++ Inline.ETX :: rest)[id.length]? = some TreeProc.ETX := by simp [etx_eq]
            have htake : (id ++ Inline.ETX :: rest).take id.length = id := by simp
            simp only [unescapeText, stx_eq, if_true, hspan, hget, htake, hpos, decide_true, beq_self_eq_true,
              Bool.and_self, h1.1] at h
            rw [unescapeText_eq_drop] at h
            have hdrop : (id ++ Inline.ETX :: rest).drop (id.length + 1) = rest := by
              rw [show id ++ Inline.ETX :: rest = (id ++ [Inline.ETX]) ++ rest by simp,
                show id.length + 1 = (id ++ [Inline.ETX]).length by simp, List.drop_left]
            rw [hdrop] at h
            cases hu : unescapeText 0 rest with
            | none => simp [hu] at h
            | some s'' =>
              simp only [hu, Option.map_some, Option.some.injEq] at h
              subst h
              have hokrest : ok L 0 rest = true := by
                have := hok.2.2
                rw [show id ++ Inline.ETX :: rest = (id ++ [Inline.ETX]) ++ rest by simp] at this
                exact ok_of_append_right this
              have hrec := ih rest s'' (by simp only [List.length_append, List.length_cons] at hk; omega) hokrest hu
              rw [letters_cons_of_not L h1.2.1.1, hrec, letters_cons_of_not L hL.stx, letters_append,
                letters_eq_nil_of_all L (fun c hc => hL.digit c (hd c hc)), List.nil_append,
                letters_cons_of_not L hL.etx]
        · rw [phTok_zero] at h1; cases h1
      · have hc' : ¬ c = TreeProc.STX := hc
        simp only [unescapeText, hc', if_false] at h
        cases hu : unescapeText 0 r with
        | none => simp [hu] at h
        | some s'' =>
          simp only [hu, Option.map_some, Option.some.injEq] at h
          subst h
          rw [letters_cons, letters_cons, ih r s'' (by omega) hok.2.2 hu]

theorem unescapeText_letters' (hL : LetterClass L) {s s' : Str} (hok : ok L 0 s = true)
    (h : unescapeText 0 s = some s') : letters L s' = letters L s :=
  unescapeText_letters hL s.length s s' (Nat.le_refl _) hok h

/-- the text or tail after the optional unescape -/
theorem unesc_field (hL : LetterClass L) {b : Bool} {t t' : Option Str} (hb : b = true → Node.truthy t = true)
    (hok : ok L 0 (t.getD []) = true)
    (h : (if b = true then (unescapeText 0 (t.getD [])).map some else some t) = some t') :
    letters L (t'.getD []) = letters L (t.getD []) := by
  cases b with
  | false => simp only [Bool.false_eq_true, if_false, Option.some.injEq] at h; subst h; rfl
  | true =>
    simp only [if_true] at h
    cases hu : unescapeText 0 (t.getD []) with
    | none => simp [hu] at h
    | some s' =>
      simp only [hu, Option.map_some, Option.some.injEq] at h
      subst h
      exact unescapeText_letters' hL hok hu

mutual
theorem unescapeTree_spec (hL : LetterClass L) :
    (n n' : Node) → nodeOk L 0 n = true → unescapeTree n = some n' → lettersT L n' = lettersT L n
  | ⟨tag, attrs, text, ta, children, tail, tla⟩, n', hok, h => by
    rw [nodeOk_iff] at hok
    simp only [unescapeTree] at h
    split at h
    · rename_i t tl a ks h1 h2 h3 h4
      simp only [Option.some.injEq] at h
      subst h
      have e1 := unesc_field hL (fun hb => by simp only [Bool.and_eq_true] at hb; exact hb.1) hok.1 h1
      have e2 := unesc_field hL (fun hb => hb) hok.2.1 h2
      have e3 := unescapeKids_spec hL children ks hok.2.2 h4
      rw [lettersT_eq, lettersT_eq]
      simp only [e1, e2, e3]
    · simp at h
theorem unescapeKids_spec (hL : LetterClass L) :
    (ns ns' : List Node) → kidsOk L 0 ns = true → unescapeKids ns = some ns' →
      letters L (contentKids ns') = letters L (contentKids ns)
  | [], ns', _, h => by
    simp only [unescapeKids, Option.some.injEq] at h
    subst h; rfl
  | c :: r, ns', hok, h => by
    rw [kidsOk_cons] at hok
    simp only [unescapeKids] at h
    split at h
    · rename_i c' r' h1 h2
      simp only [Option.some.injEq] at h
      subst h
      rw [letters_contentKids_cons, letters_contentKids_cons, unescapeTree_spec hL c c' hok.1 h1,
        unescapeKids_spec hL r r' hok.2 h2]
    · simp at h
end

/-! ### the tail of the root -/

theorem mapTree_tail {f : Node → Node} (hf : ∀ m, letters L ((f m).tail.getD []) = letters L (m.tail.getD []))
    (n : Node) : letters L ((mapTree f n).tail.getD []) = letters L (n.tail.getD []) := by
  obtain ⟨tag, attrs, text, ta, children, tail, tla⟩ := n
  simp only [mapTree]; rw [hf]

theorem brRule_tail (hL : LetterClass L) (m : Node) :
    letters L ((brRule m).tail.getD []) = letters L (m.tail.getD []) := by
  unfold brRule
  split
  · split
    · rename_i hb; simp only [Option.getD_some, letters_nl hL, letters_blankOrNone hL hb]
    · simp only [Option.getD_some, letters_cons_of_not L (hL.space '\n' (by decide))]
  · rfl

theorem preRule_tail (m : Node) : (preRule m).tail = m.tail := by
  unfold preRule
  split
  · split
    · split
      · split <;> rfl
      · rfl
    · rfl
  · rfl

theorem prettifyETree_tail (hL : LetterClass L) (bl : List Str) (n : Node) :
    letters L ((prettifyETree bl n).tail.getD []) = letters L (n.tail.getD []) := by
  obtain ⟨tag, attrs, text, ta, children, tail, tla⟩ := n
  simp only [prettifyETree]
  exact letters_ite_nl hL (blankOrNone tail) (fun h => h)

theorem prettify_tail (hL : LetterClass L) (bl : List Str) (root : Node) :
    letters L ((prettify root bl).tail.getD []) = letters L (root.tail.getD []) := by
  unfold prettify
  rw [mapTree_tail (fun m => by rw [preRule_tail]), mapTree_tail (brRule_tail hL), prettifyETree_tail hL]

theorem unescapeTree_tail (hL : LetterClass L) {root root' : Node} (hok : nodeOk L 0 root = true)
    (h : unescapeTree root = some root') : letters L (root'.tail.getD []) = letters L (root.tail.getD []) := by
  obtain ⟨tag, attrs, text, ta, children, tail, tla⟩ := root
  rw [nodeOk_iff] at hok
  simp only [unescapeTree] at h
  split at h
  · rename_i t tl a ks e1 e2 e3 e4
    simp only [Option.some.injEq] at h
    subst h
    exact unesc_field hL (fun hb => hb) hok.2.1 e2
  · simp at h

/-- from "element with tail" to "element" -/
theorem docLetters_of_lettersT {a b : Node} (h : lettersT L a = lettersT L b)
    (ht : letters L (a.tail.getD []) = letters L (b.tail.getD [])) : docLetters L a = docLetters L b := by
  simp only [lettersT, letters_append, ht] at h
  exact List.append_cancel_right h

end

end MdVerif.Flat
