/-
C06 inline half, part 9: one step of the inline processor — a match replaced by a placeholder, the nested
`__handleInline` calls on the texts of a new element.
-/
import MdVerif.Lemmas.InlineConserve.Em

namespace MdVerif.Flat
open Py Inline

/-- the step from `(st, d)` to `(st', d')` keeps the invariants and the visible letters -/
structure Conserves (L : Char → Bool) (st : St) (d : Str) (st' : St) (d' : Str) : Prop where
  ext : ∃ e, st'.stash = st.stash ++ e
  sok : stashOk L st'.stash = true
  dok : ok L st'.stash.length d' = true
  cons : lettersF L st'.stash d' = lettersF L st.stash d
  html : st'.html = st.html

theorem Conserves.refl {L : Char → Bool} {st : St} {d : Str} (hs : stashOk L st.stash = true)
    (hd : ok L st.stash.length d = true) : Conserves L st d st d :=
  ⟨⟨[], by simp⟩, hs, hd, rfl, rfl⟩

theorem Conserves.trans {L : Char → Bool} {st st' st'' : St} {d d' d'' : Str} (h1 : Conserves L st d st' d')
    (h2 : Conserves L st' d' st'' d'') : Conserves L st d st'' d'' := by
  obtain ⟨e1, he1⟩ := h1.ext
  obtain ⟨e2, he2⟩ := h2.ext
  exact ⟨⟨e1 ++ e2, by rw [he2, he1, List.append_assoc]⟩, h2.sok, h2.dok, by rw [h2.cons, h1.cons],
    by rw [h2.html, h1.html]⟩

theorem ext_length {st st' : St} (h : ∃ e, st'.stash = st.stash ++ e) : st.stash.length ≤ st'.stash.length := by
  obtain ⟨e, he⟩ := h; rw [he, List.length_append]; omega

/-- the visible text of a well-formed string is the same after the step -/
theorem lettersF_ext {L : Char → Bool} {st st' : St} (h : ∃ e, st'.stash = st.stash ++ e) {s : Str}
    (hs : ok L st.stash.length s = true) : lettersF L st'.stash s = lettersF L st.stash s := by
  obtain ⟨e, he⟩ := h
  simp only [lettersF, he, flat_ext hs]

/-- **a match becomes a placeholder.** -/
theorem stash_put {L : Char → Bool} {st : St} {it : StashItem} {pre M post : Str}
    (hs : stashOk L st.stash = true) (hit : itemOk L st.stash.length it = true)
    (hpre : ok L st.stash.length pre = true) (hpost : ok L st.stash.length post = true)
    (hM : lettersF L st.stash (pre ++ M ++ post) =
      lettersF L st.stash pre ++ letters L (itemText (table st.stash) it) ++ lettersF L st.stash post) :
    Conserves L st (pre ++ M ++ post) (stashNode st it).2 (pre ++ (stashNode st it).1 ++ post) := by
  simp only [stashNode]
  have hlen : (st.stash ++ [it]).length = st.stash.length + 1 := by simp
  refine ⟨⟨[it], rfl⟩, by rw [stashOk_snoc, hs, hit]; rfl, ?_, ?_, rfl⟩
  · rw [hlen]
    exact ok_append (ok_append (ok_mono (Nat.le_succ _) hpre) (ok_placeholder L (Nat.lt_succ_self _)))
      (ok_mono (Nat.le_succ _) hpost)
  · rw [hM]
    simp only [lettersF, flat]
    have hpre' : ok L (table (st.stash ++ [it])).length pre = true := by
      rw [table_length, hlen]; exact ok_mono (Nat.le_succ _) hpre
    have hlt : st.stash.length < (table (st.stash ++ [it])).length := by rw [table_length, hlen]; omega
    rw [List.append_assoc, flatT_append_ok _ hpre', flatT_placeholder _ hlt]
    have hget : (table (st.stash ++ [it]))[st.stash.length] = itemText (table st.stash) it := by
      simp only [table_snoc]
      rw [List.getElem_append_right (by rw [table_length]; exact Nat.le_refl _)]
      simp [table_length]
    have e1 := flat_ext hpre [it]
    have e2 := flat_ext hpost [it]
    simp only [flat] at e1 e2
    rw [hget, e1, e2]
    simp only [letters_append, List.append_assoc]

/-! ### nested `__handleInline` -/

def HISpec (L : Char → Bool) (hi : HI) : Prop :=
  ∀ d pi st d' st', stashOk L st.stash = true → ok L st.stash.length d = true → hi d pi st = some (d', st') →
    Conserves L st d st' d'

section
variable {L : Char → Bool} {hi : HI}

theorem hiOpt_spec (hhi : HISpec L hi) {st st' : St} {t t' : Option Str} {a : Bool} {pi : Nat}
    (hs : stashOk L st.stash = true) (ht : ok L st.stash.length (t.getD []) = true)
    (h : hiOpt hi t a pi st = some (t', st')) :
    Conserves L st (t.getD []) st' (t'.getD []) ∧ (t = none → t' = none) := by
  unfold hiOpt at h
  split at h
  · rename_i hc
    split at h
    · rename_i d st1 hh
      simp only [Option.some.injEq, Prod.mk.injEq] at h
      obtain ⟨h1, h2⟩ := h
      subst h1; subst h2
      refine ⟨hhi _ _ _ _ _ hs ht hh, ?_⟩
      intro hn; subst hn; simp [Node.truthy] at hc
    · simp at h
  · simp only [Option.some.injEq, Prod.mk.injEq] at h
    obtain ⟨h1, h2⟩ := h
    subst h1; subst h2
    exact ⟨Conserves.refl hs ht, fun hn => hn⟩

/-- what the nested calls on one element keep -/
structure NodeStep (L : Char → Bool) (st : St) (nd : Node) (st' : St) (nd' : Node) : Prop where
  ext : ∃ e, st'.stash = st.stash ++ e
  sok : stashOk L st'.stash = true
  nok : nodeOk L st'.stash.length nd' = true
  kids : nd'.children = nd.children
  ta : nd'.textAtomic = nd.textAtomic
  attrs : nd'.attrs = nd.attrs
  tailNone : nd.tail = none → nd'.tail = none
  ltext : lettersF L st'.stash (nd'.text.getD []) = lettersF L st.stash (nd.text.getD [])
  ltail : lettersF L st'.stash (nd'.tail.getD []) = lettersF L st.stash (nd.tail.getD [])
  html : st'.html = st.html

theorem hiNode_spec (hhi : HISpec L hi) {st st' : St} {nd nd' : Node} {pi : Nat}
    (hs : stashOk L st.stash = true) (hn : nodeOk L st.stash.length nd = true)
    (h : hiNode hi pi nd st = some (nd', st')) : NodeStep L st nd st' nd' := by
  unfold hiNode at h
  rw [nodeOk_iff] at hn
  split at h
  · simp at h
  · rename_i t st1 h1
    split at h
    · simp at h
    · rename_i tl st2 h2
      simp only [Option.some.injEq, Prod.mk.injEq] at h
      obtain ⟨hnd, hst⟩ := h
      subst hnd; subst hst
      obtain ⟨c1, _⟩ := hiOpt_spec hhi hs hn.1 h1
      have hle1 := ext_length c1.ext
      obtain ⟨c2, hnone⟩ := hiOpt_spec hhi c1.sok (ok_mono hle1 hn.2.1) h2
      have hle2 := ext_length c2.ext
      obtain ⟨e1, he1⟩ := c1.ext
      obtain ⟨e2, he2⟩ := c2.ext
      refine ⟨⟨e1 ++ e2, by rw [he2, he1, List.append_assoc]⟩, c2.sok, ?_, rfl, rfl, rfl, hnone, ?_, ?_,
        by rw [c2.html, c1.html]⟩
      · rw [nodeOk_iff]
        exact ⟨ok_mono hle2 c1.dok, c2.dok, kidsOk_mono (Nat.le_trans hle1 hle2) _ hn.2.2⟩
      · simp only []
        rw [lettersF_ext c2.ext c1.dok, c1.cons]
      · simp only []
        rw [c2.cons, lettersF_ext c1.ext hn.2.1]

theorem lettersK_ext {st st' : St} (h : ∃ e, st'.stash = st.stash ++ e) {ns : List Node}
    (hs : kidsOk L st.stash.length ns = true) : lettersK L st'.stash ns = lettersK L st.stash ns := by
  obtain ⟨e, he⟩ := h
  simp only [lettersK, he, kidsFlat_table_ext hs]

theorem lettersK_cons (stash : List StashItem) (c : Node) (r : List Node) :
    lettersK L stash (c :: r) = lettersF L stash (c.text.getD []) ++ lettersK L stash c.children ++
      lettersF L stash (c.tail.getD []) ++ lettersK L stash r := by
  simp only [lettersK, lettersF, flat, kidsFlat_cons, nodeFlat_eq, letters_append, List.append_assoc]

theorem hiNodes_spec (hhi : HISpec L hi) (pi : Nat) :
    ∀ (ns : List Node) (st st' : St) (ns' : List Node), stashOk L st.stash = true →
      kidsOk L st.stash.length ns = true → hiNodes hi pi ns st = some (ns', st') →
      (∃ e, st'.stash = st.stash ++ e) ∧ stashOk L st'.stash = true ∧ kidsOk L st'.stash.length ns' = true ∧
        lettersK L st'.stash ns' = lettersK L st.stash ns ∧
        (kidsNonAtomic ns = true → kidsNonAtomic ns' = true) ∧ st'.html = st.html := by
  intro ns
  induction ns with
  | nil =>
    intro st st' ns' hs _ h
    simp only [hiNodes, Option.some.injEq, Prod.mk.injEq] at h
    obtain ⟨h1, h2⟩ := h
    subst h1; subst h2
    exact ⟨⟨[], by simp⟩, hs, rfl, rfl, fun h => h, rfl⟩
  | cons c r ih =>
    intro st st' ns' hs hk h
    rw [kidsOk_cons] at hk
    simp only [hiNodes] at h
    split at h
    · simp at h
    · rename_i c' st1 hc
      split at h
      · simp at h
      · rename_i r' st2 hr
        simp only [Option.some.injEq, Prod.mk.injEq] at h
        obtain ⟨h1, h2⟩ := h
        subst h1; subst h2
        have s1 := hiNode_spec hhi hs hk.1 hc
        have hle1 := ext_length s1.ext
        obtain ⟨ext2, sok2, kok2, lk2, na2, hh2⟩ := ih _ _ _ s1.sok (kidsOk_mono hle1 _ hk.2) hr
        have hle2 := ext_length ext2
        obtain ⟨e1, he1⟩ := s1.ext
        obtain ⟨e2, he2⟩ := ext2
        have hc'ok := nodeOk_iff.1 s1.nok
        have hcok := nodeOk_iff.1 hk.1
        refine ⟨⟨e1 ++ e2, by rw [he2, he1, List.append_assoc]⟩, sok2, kidsOk_cons.2 ⟨nodeOk_mono hle2 _ s1.nok, kok2⟩, ?_, ?_,
          by rw [hh2, s1.html]⟩
        rotate_left
        · intro hna
          rw [kidsNonAtomic_cons] at hna ⊢
          refine ⟨?_, na2 hna.2⟩
          have := nonAtomic_iff.1 hna.1
          rw [nonAtomic_iff, s1.ta, s1.kids, s1.attrs]; exact this
        rw [lettersK_cons, lettersK_cons, lk2, lettersK_ext s1.ext hk.2,
          lettersF_ext ⟨e2, he2⟩ hc'ok.1, lettersF_ext ⟨e2, he2⟩ hc'ok.2.1, s1.ltext, s1.ltail,
          lettersK_ext ⟨e2, he2⟩ hc'ok.2.2, s1.kids, lettersK_ext s1.ext hcok.2.2]

end

end MdVerif.Flat
