/-
C06 inline half, part 17: the tree walk of `InlineProcessor.run` keeps the visible letters of the document.
-/
import MdVerif.Lemmas.InlineConserve.Paths

namespace MdVerif.Flat
open Py Inline

section
variable {L : Char → Bool} {cfg : Cfg}

theorem visitChild_spec (hL : LetterClass L) (hE : EscNotLetter L cfg) {child c3 : Node} {tr : List Node} {v v' : Visit}
    (hs : stashOk L v.st.stash = true) (hc : nodeOk L v.st.stash.length child = true)
    (hat : atomOk L child = true)
    (h : visitChild cfg child v = some (c3, tr, v')) :
    (∃ e, v'.st.stash = v.st.stash ++ e) ∧ stashOk L v'.st.stash = true ∧
      nodeOk L v'.st.stash.length c3 = true ∧ kidsOk L v'.st.stash.length tr = true ∧ v'.done = v.done ∧
      lettersK L v'.st.stash (c3 :: tr) = lettersK L v.st.stash [child] ∧ v'.st.html = v.st.html ∧
      topClean L c3 = true ∧ atomOk L c3 = true ∧ GoodKids L tr ∧ (∀ x ∈ v.pushes, x ∈ v'.pushes) ∧
      (∀ r m, getAt c3 r = some m → dirtyKid L m → ∃ x ∈ v'.pushes, x <+: (v.done.length :: r)) := by
  have hc' := nodeOk_iff.1 hc
  rw [visitChild_eq] at h
  split at h
  · simp at h
  · rename_i c1 lst st1 h1
    split at h
    · simp at h
    · rename_i c2 tr' st2 h2
      simp only [Option.some.injEq, Prod.mk.injEq] at h
      obtain ⟨e1, e2, e3⟩ := h
      subst e1; subst e2; subst e3
      obtain ⟨a1, ah, a2, a3, a4, a5, a6, a6a, a7, a8, a9⟩ := textStage_spec hL hE hs hc h1
      have hle1 := ext_length a1
      have hct : ok L st1.stash.length (c1.tail.getD []) = true := by rw [a6]; exact ok_mono hle1 hc'.2.1
      obtain ⟨b1, bh, b2, b3, b4, b5, b6, b7, b8, b9, b10, b11⟩ := tailStage_spec hL hE a2 hct h2
      have hle2 := ext_length b1
      obtain ⟨x1, hx1⟩ := a1
      obtain ⟨x2, hx2⟩ := b1
      have hext : ∃ e, st2.stash = v.st.stash ++ e := ⟨x1 ++ x2, by rw [hx2, hx1, List.append_assoc]⟩
      have hkc : kidsOk L st1.stash.length child.children = true := kidsOk_mono hle1 _ hc'.2.2
      have hat' := atomOk_iff.1 hat
      have htext0 : ok L 0 (c1.text.getD []) = true := a8 hat'.1
      refine ⟨hext, b2, ?_, b3, rfl, ?_, by rw [bh, ah], ?_, ?_, b9, ?_, ?_⟩
      rotate_left 2
      · simp only [topClean, Bool.and_eq_true, b6]; exact ⟨htext0, b8⟩
      · rw [atomOk_iff]
        simp only [b5, b6, a5]
        exact ⟨fun _ => htext0, by rw [b11, a6a]; exact hat'.2.1,
          kidsAtomOk_append.2 ⟨kidsAtomOk_of_forall (fun r hr => (a9 r hr).2), hat'.2.2⟩⟩
      · intro x hx
        simp only []
        split
        · exact List.mem_append_right _ hx
        · exact List.mem_cons_of_mem _ (List.mem_append_right _ hx)
      · intro r m hg hd
        simp only [] at hg ⊢
        by_cases hemp : child.children.isEmpty = true
        · simp only [hemp, if_true]
          have hnil : child.children = [] := List.isEmpty_iff.1 hemp
          cases r with
          | nil =>
            simp only [getAt, Option.some.injEq] at hg
            subst hg
            obtain ⟨x, hx, hxd⟩ := hd
            simp only [b5, a5, hnil, List.append_nil] at hx
            rw [(a9 x hx).1] at hxd; cases hxd
          | cons k r' =>
            rw [getAt_cons] at hg
            simp only [b5, a5, hnil, List.append_nil] at hg
            have hk : k < lst.length := by
              cases hlk : lst[k]? with
              | none => simp [hlk] at hg
              | some y => exact (List.getElem?_eq_some_iff.1 hlk).1
            refine ⟨[v.done.length, k], List.mem_append_left _ ?_, ⟨r', rfl⟩⟩
            rw [List.mem_reverse, List.mem_map]
            exact ⟨k, List.mem_range.2 hk, rfl⟩
        · simp only [hemp]
          exact ⟨[v.done.length], by simp, ⟨r, rfl⟩⟩
      · rw [nodeOk_iff]
        simp only [b5, b6, a5]
        exact ⟨ok_mono hle2 a4, b4, kidsOk_append.2 ⟨kidsOk_mono hle2 _ a3, kidsOk_mono hle2 _ hkc⟩⟩
      · rw [lettersK_cons, lettersK_cons, lettersK_nil, List.append_nil]
        simp only [b5, b6, a5, lettersK_append]
        rw [lettersF_ext ⟨x2, hx2⟩ a4, lettersK_ext ⟨x2, hx2⟩ a3, lettersK_ext hext hc'.2.2]
        have e1 : lettersF L st2.stash (c2.tail.getD []) ++ lettersK L st2.stash tr'
            = lettersF L v.st.stash (child.tail.getD []) := by
          rw [b7, a6, lettersF_ext ⟨x1, hx1⟩ hc'.2.1]
        calc _ = (lettersF L st1.stash (c1.text.getD []) ++ lettersK L st1.stash lst) ++
                lettersK L v.st.stash child.children ++
                (lettersF L st2.stash (c2.tail.getD []) ++ lettersK L st2.stash tr') := by
              simp only [List.append_assoc]
          _ = _ := by rw [a7, e1]

theorem map_fst_map_none (tr : List Node) : (tr.map (fun n => (n, (none : Option Nat)))).map Prod.fst = tr := by
  induction tr with
  | nil => rfl
  | cons a r ih => simp only [List.map_cons, ih]

/-- the children visited so far have clean texts, and the elements below them that still have a dirty child are
    covered by a pushed path -/
structure VInv (L : Char → Bool) (v : Visit) : Prop where
  good : ∀ d ∈ v.done, topClean L d = true ∧ atomOk L d = true
  cov : ∀ j d, v.done.reverse[j]? = some d → ∀ r m, getAt d r = some m → dirtyKid L m →
    ∃ x ∈ v.pushes, x <+: (j :: r)

theorem visitLoop_spec (hL : LetterClass L) (hE : EscNotLetter L cfg) :
    ∀ (g : Nat) (todo : List (Node × Option Nat)) (v v' : Visit), stashOk L v.st.stash = true →
      kidsOk L v.st.stash.length v.done = true → kidsOk L v.st.stash.length (todo.map Prod.fst) = true →
      VInv L v → kidsAtomOk L (todo.map Prod.fst) = true →
      visitLoop cfg g todo v = some v' →
      (∃ e, v'.st.stash = v.st.stash ++ e) ∧ stashOk L v'.st.stash = true ∧
        kidsOk L v'.st.stash.length v'.done = true ∧
        lettersK L v'.st.stash v'.done.reverse = lettersK L v.st.stash (v.done.reverse ++ todo.map Prod.fst) ∧
        VInv L v' ∧ v'.st.html = v.st.html := by
  intro g
  induction g with
  | zero => intro todo v v' _ _ _ _ _ h; simp [visitLoop] at h
  | succ g ih =>
    intro todo v v' hs hdone htodo hinv hta h
    cases todo with
    | nil =>
      simp only [visitLoop, Option.some.injEq] at h
      subst h
      exact ⟨⟨[], by simp⟩, hs, hdone, by simp, hinv, rfl⟩
    | cons hd todo =>
      obtain ⟨child, orig⟩ := hd
      simp only [visitLoop] at h
      split at h
      · simp at h
      · rename_i c tr v1 hvc
        simp only [List.map_cons] at htodo hta
        rw [kidsOk_cons] at htodo
        rw [kidsAtomOk_cons] at hta
        obtain ⟨a1, a2, a3, a4, a5, a6, ahh, a7, a8, a9, a10, a11⟩ := visitChild_spec hL hE hs htodo.1 hta.1 hvc
        have hle := ext_length a1
        have hdone1 : kidsOk L v1.st.stash.length (c :: v1.done) = true := by
          rw [a5]; exact kidsOk_cons.2 ⟨a3, kidsOk_mono hle _ hdone⟩
        have htodo1 : kidsOk L v1.st.stash.length
            ((tr.map (fun n => (n, (none : Option Nat))) ++ todo).map Prod.fst) = true := by
          rw [List.map_append, map_fst_map_none]
          exact kidsOk_append.2 ⟨a4, kidsOk_mono hle _ htodo.2⟩
        have hinv1 : ∀ pm, VInv L ⟨c :: v1.done, pm, v1.pushes, v1.st⟩ := by
          intro pm
          refine ⟨?_, ?_⟩
          · intro d hd
            rcases List.mem_cons.1 hd with rfl | hd
            · exact ⟨a7, a8⟩
            · rw [a5] at hd; exact hinv.good d hd
          · intro j d hj r m hg hdk
            simp only [List.reverse_cons, a5] at hj
            by_cases hjl : j < v.done.reverse.length
            · rw [List.getElem?_append_left hjl] at hj
              obtain ⟨x, hx, hxp⟩ := hinv.cov j d hj r m hg hdk
              exact ⟨x, a10 x hx, hxp⟩
            · rw [List.getElem?_append_right (by omega)] at hj
              have hj0 : j = v.done.reverse.length := by
                cases hjj : j - v.done.reverse.length with
                | zero => omega
                | succ k => rw [hjj] at hj; simp at hj
              rw [hj0, Nat.sub_self] at hj
              simp only [List.getElem?_cons_zero, Option.some.injEq] at hj
              subst hj
              rw [hj0, List.length_reverse]
              exact a11 r m hg hdk
        have hta1 : kidsAtomOk L ((tr.map (fun n => (n, (none : Option Nat))) ++ todo).map Prod.fst) = true := by
          rw [List.map_append, map_fst_map_none]
          exact kidsAtomOk_append.2 ⟨kidsAtomOk_of_forall (fun r hr => (a9 r hr).2), hta.2⟩
        obtain ⟨b1, b2, b3, b4, b5, bhh⟩ := ih _ ⟨c :: v1.done, _, v1.pushes, v1.st⟩ _ a2 hdone1 htodo1 (hinv1 _) hta1 h
        obtain ⟨x1, hx1⟩ := a1
        obtain ⟨x2, hx2⟩ := b1
        refine ⟨⟨x1 ++ x2, by rw [hx2]; simp only []; rw [hx1, List.append_assoc]⟩, b2, b3, ?_, b5, by rw [bhh]; exact ahh⟩
        rw [b4]
        simp only [List.map_append, map_fst_map_none, List.reverse_cons, List.map_cons, a5, lettersK_append,
          List.append_assoc]
        have hd' : kidsOk L v.st.stash.length v.done.reverse = true := kidsOk_reverse.2 hdone
        rw [lettersK_ext ⟨x1, hx1⟩ hd', lettersK_ext ⟨x1, hx1⟩ htodo.2]
        have e : lettersK L v1.st.stash [c] ++ lettersK L v1.st.stash tr = lettersK L v.st.stash [child] := by
          rw [← lettersK_append]; exact a6
        have e2 : lettersK L v.st.stash (child :: List.map Prod.fst todo)
            = lettersK L v.st.stash [child] ++ lettersK L v.st.stash (List.map Prod.fst todo) := by
          rw [← lettersK_append]; rfl
        rw [e2, ← e]
        simp only [List.append_assoc]

/-! ### paths -/

theorem map_fst_withIdx (l : List Node) (i : Nat) : (withIdx l i).map Prod.fst = l := by
  induction l generalizing i with
  | nil => rfl
  | cons a r ih => simp [withIdx, ih]

theorem lettersN_ext {st st' : St} (h : ∃ e, st'.stash = st.stash ++ e) {nd : Node}
    (hs : nodeOk L st.stash.length nd = true) : lettersN L st'.stash nd = lettersN L st.stash nd := by
  obtain ⟨e, he⟩ := h
  simp only [lettersN, he, nodeFlat_table_ext hs]

/-- replacing the element at a path by one with the same visible letters -/
theorem setAt_spec {st st' : St} (hext : ∃ e, st'.stash = st.stash ++ e) :
    ∀ (p : Path) (root cur new : Node), getAt root p = some cur → nodeOk L st.stash.length root = true →
      nodeOk L st'.stash.length new = true → new.tail = cur.tail →
      lettersN L st'.stash new = lettersN L st.stash cur →
      nodeOk L st'.stash.length (setAt root p new) = true ∧ (setAt root p new).tail = root.tail ∧
        lettersN L st'.stash (setAt root p new) = lettersN L st.stash root := by
  intro p
  induction p with
  | nil =>
    intro root cur new hg _ hnew htail hlet
    simp only [getAt, Option.some.injEq] at hg
    subst hg
    exact ⟨hnew, htail, hlet⟩
  | cons i p ih =>
    intro root cur new hg hroot hnew htail hlet
    have hle := ext_length hext
    have hr := nodeOk_iff.1 hroot
    simp only [getAt] at hg
    split at hg
    · rename_i c hc
      have hsa : setAt root (i :: p) new = { root with children := root.children.set i (setAt c p new) } := by
        simp only [setAt, hc]
      rw [hsa]
      obtain ⟨hlt, hget⟩ := List.getElem?_eq_some_iff.1 hc
      obtain ⟨A, B, hsplit, hA⟩ : ∃ A B, root.children = A ++ c :: B ∧ A.length = i :=
        ⟨root.children.take i, root.children.drop (i + 1),
          by rw [← hget, ← List.drop_eq_getElem_cons hlt, List.take_append_drop],
          by rw [List.length_take]; omega⟩
      have hk := hr.2.2
      rw [hsplit, kidsOk_append, kidsOk_cons] at hk
      obtain ⟨r1, r2, r3⟩ := ih c cur new hg hk.2.1 hnew htail hlet
      have hset : root.children.set i (setAt c p new) = A ++ setAt c p new :: B := by
        rw [hsplit, List.set_append_right _ _ (by omega), hA, Nat.sub_self]
        rfl
      have hctail := (nodeOk_iff.1 hk.2.1).2.1
      have e1 : ∀ (stash : List StashItem) (x : Node) (xs : List Node), lettersK L stash (x :: xs)
          = lettersN L stash x ++ lettersF L stash (x.tail.getD []) ++ lettersK L stash xs := by
        intro stash x xs
        simp only [lettersK, lettersN, lettersF, flat, kidsFlat_cons, letters_append]
      refine ⟨?_, rfl, ?_⟩
      · rw [nodeOk_iff]
        simp only [hset]
        exact ⟨ok_mono hle hr.1, ok_mono hle hr.2.1,
          kidsOk_append.2 ⟨kidsOk_mono hle _ hk.1, kidsOk_cons.2 ⟨r1, kidsOk_mono hle _ hk.2.2⟩⟩⟩
      · rw [lettersN_eq, lettersN_eq]
        simp only [hset]
        rw [hsplit, lettersK_append, lettersK_append, lettersF_ext hext hr.1, lettersK_ext hext hk.1, e1, e1, r3, r2,
          lettersF_ext hext hctail, lettersK_ext hext hk.2.2]
    · simp at hg

theorem getAt_nodeOk {n : Nat} : ∀ (p : Path) (root cur : Node), getAt root p = some cur →
    nodeOk L n root = true → nodeOk L n cur = true := by
  intro p
  induction p with
  | nil => intro root cur h hr; simp only [getAt, Option.some.injEq] at h; subst h; exact hr
  | cons i p ih =>
    intro root cur h hr
    rw [getAt_cons] at h
    split at h
    · rename_i c hc
      have hk := (nodeOk_iff.1 hr).2.2
      obtain ⟨hlt, hget⟩ := List.getElem?_eq_some_iff.1 hc
      have hsplit : root.children = root.children.take i ++ c :: root.children.drop (i + 1) := by
        rw [← hget, ← List.drop_eq_getElem_cons hlt, List.take_append_drop]
      rw [hsplit, kidsOk_append, kidsOk_cons] at hk
      exact ih c cur h hk.2.1
    · simp at h

theorem getAt_atomOk : ∀ (p : Path) (root cur : Node), getAt root p = some cur →
    atomOk L root = true → atomOk L cur = true := by
  intro p
  induction p with
  | nil => intro root cur h hr; simp only [getAt, Option.some.injEq] at h; subst h; exact hr
  | cons i p ih =>
    intro root cur h hr
    rw [getAt_cons] at h
    split at h
    · rename_i c hc
      exact ih c cur h (atomOk_of_mem (atomOk_iff.1 hr).2.2 c (List.mem_of_getElem? hc))
    · simp at h

theorem runLoop_spec (hL : LetterClass L) (hE : EscNotLetter L cfg) (g2 : Nat) :
    ∀ (g : Nat) (root : Node) (stack : List Path) (st : St) (root' : Node) (st' : St),
      stashOk L st.stash = true → nodeOk L st.stash.length root = true →
      atomOk L root = true → Covered L root stack → topClean L root = true →
      runLoop cfg g2 g root stack st = some (root', st') →
      stashOk L st'.stash = true ∧ nodeOk L st'.stash.length root' = true ∧
        lettersN L st'.stash root' = lettersN L st.stash root ∧ Covered L root' [] ∧ topClean L root' = true ∧
        atomOk L root' = true ∧ st'.html = st.html := by
  intro g
  induction g with
  | zero => intro root stack st root' st' _ _ _ _ _ h; simp [runLoop] at h
  | succ g ih =>
    intro root stack st root' st' hs hroot hatom hcov htop h
    cases stack with
    | nil =>
      simp only [runLoop, Option.some.injEq, Prod.mk.injEq] at h
      obtain ⟨e1, e2⟩ := h
      subst e1; subst e2
      exact ⟨hs, hroot, rfl, hcov, htop, hatom, rfl⟩
    | cons p stack =>
      simp only [runLoop] at h
      split at h
      · rename_i hnone
        -- a path that is not in the tree covers nothing
        refine ih _ _ _ _ _ hs hroot hatom ?_ htop h
        intro q m hq hd
        obtain ⟨q', hq', hpre⟩ := hcov q m hq hd
        rcases List.mem_cons.1 hq' with rfl | hq'
        · obtain ⟨r, rfl⟩ := hpre
          obtain ⟨c, hc⟩ := getAt_prefix hq
          rw [hc] at hnone; cases hnone
        · exact ⟨q', hq', hpre⟩
      · rename_i cur hcur
        split at h
        · simp at h
        · rename_i v hv
          have hcurok : nodeOk L st.stash.length cur = true := getAt_nodeOk p root cur hcur hroot
          have hcurat : atomOk L cur = true := getAt_atomOk p root cur hcur hatom
          have hc' := nodeOk_iff.1 hcurok
          have hinv0 : VInv L ({ st := st } : Visit) :=
            ⟨fun d hd => (by cases hd), fun j d hj => (by simp at hj)⟩
          obtain ⟨a1, a2, a3, a4, a5, avh⟩ := visitLoop_spec hL hE g2 (withIdx cur.children 0) { st := st } v hs rfl
            (by rw [map_fst_withIdx]; exact hc'.2.2) hinv0
            (by rw [map_fst_withIdx]; exact (atomOk_iff.1 hcurat).2.2) hv
          simp only [List.reverse_nil, List.nil_append, map_fst_withIdx] at a4
          have a1' : ∃ e, v.st.stash = st.stash ++ e := a1
          have hle := ext_length a1'
          have hnew : nodeOk L v.st.stash.length { cur with children := v.done.reverse } = true := by
            rw [nodeOk_iff]
            exact ⟨ok_mono hle hc'.1, ok_mono hle hc'.2.1, kidsOk_reverse.2 a3⟩
          have hlet : lettersN L v.st.stash { cur with children := v.done.reverse } = lettersN L st.stash cur := by
            rw [lettersN_eq, lettersN_eq]
            simp only []
            rw [a4, lettersF_ext a1' hc'.1]
          obtain ⟨b1, _, b3⟩ := setAt_spec a1' p root cur _ hcur hroot hnew rfl hlet
          have hatom' : atomOk L (setAt root p { cur with children := v.done.reverse }) = true :=
            atomOk_setAt (new := { cur with children := v.done.reverse }) (cur := cur) rfl rfl rfl
              (kidsAtomOk_of_forall (fun r hr => (a5.good r (List.mem_reverse.1 hr)).2)) p root hcur hatom
          have hcov' : Covered L (setAt root p { cur with children := v.done.reverse })
              (v.pushes.map (p ++ ·) ++ stack.map (remap p v.posmap)) := by
            intro q m' hq hd
            by_cases hpq : p <+: q
            · obtain ⟨r, rfl⟩ := hpq
              rw [getAt_setAt_under hcur] at hq
              cases r with
              | nil =>
                simp only [getAt, Option.some.injEq] at hq
                subst hq
                obtain ⟨x, hx, hxd⟩ := hd
                rw [(a5.good x (List.mem_reverse.1 hx)).1] at hxd; cases hxd
              | cons j r' =>
                rw [getAt_cons] at hq
                simp only [] at hq
                cases hdj : v.done.reverse[j]? with
                | none => simp [hdj] at hq
                | some d =>
                  simp only [hdj] at hq
                  obtain ⟨x, hx, hxp⟩ := a5.cov j d hdj r' m' hq hd
                  refine ⟨p ++ x, List.mem_append_left _ (List.mem_map.2 ⟨x, hx, rfl⟩), ?_⟩
                  obtain ⟨t, ht⟩ := hxp
                  exact ⟨t, by rw [List.append_assoc, ht]⟩
            · obtain ⟨m, hm, hdm⟩ := getAt_setAt_other (L := L) (new := { cur with children := v.done.reverse })
                (cur := cur) rfl rfl q p root m' hpq hcur hq
              obtain ⟨q', hq', hpre⟩ := hcov q m hm (hdm hd)
              rcases List.mem_cons.1 hq' with rfl | hq'
              · exact absurd hpre hpq
              · refine ⟨q', List.mem_append_right _ (List.mem_map.2 ⟨q', hq', ?_⟩), hpre⟩
                exact remap_of_not_prefix _ (fun hpp => hpq (List.IsPrefix.trans hpp hpre))
          have htop' : topClean L (setAt root p { cur with children := v.done.reverse }) = true := by
            rw [setAt_top (L := L) (new := { cur with children := v.done.reverse }) hcur rfl rfl]; exact htop
          obtain ⟨c1, c2, c3, c4, c5, c6, c7⟩ := ih _ _ _ _ _ a2 b1 hatom' hcov' htop' h
          exact ⟨c1, c2, by rw [c3, b3], c4, c5, c6, by rw [c7]; exact avh⟩

end

end MdVerif.Flat
