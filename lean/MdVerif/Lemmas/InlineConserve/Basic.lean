/-
Helper lemmas for C06, inline half: the placeholder-expanded view (`Spec/Flat.lean`) is conserved by the inline
patterns, by `handleInline`, by `processPlaceholders` and by the tree walk of `Inline.run`.  Core Lean only.
-/
import MdVerif.Spec.Flat
import MdVerif.Lemmas.PyBasic

namespace MdVerif.Flat
open Py Inline

/-! ### letters -/

theorem letters_nil (L : Char → Bool) : letters L [] = [] := rfl

theorem letters_append (L : Char → Bool) (a b : Str) : letters L (a ++ b) = letters L a ++ letters L b := by
  simp [letters]

theorem letters_cons (L : Char → Bool) (c : Char) (s : Str) :
    letters L (c :: s) = if L c then c :: letters L s else letters L s := by
  simp only [letters, List.filter_cons]

theorem letters_cons_of_not (L : Char → Bool) {c : Char} (h : L c = false) (s : Str) :
    letters L (c :: s) = letters L s := by
  simp [letters, h]

theorem letters_eq_nil_of_all (L : Char → Bool) {s : Str} (h : ∀ c ∈ s, L c = false) : letters L s = [] := by
  simp only [letters, List.filter_eq_nil_iff]
  intro c hc; simp [h c hc]

theorem letters_replicate (L : Char → Bool) {c : Char} (h : L c = false) (n : Nat) :
    letters L (List.replicate n c) = [] :=
  letters_eq_nil_of_all L (by intro x hx; rw [List.eq_of_mem_replicate hx]; exact h)

/-! ### characters -/

theorem stx_ne_etx : STX ≠ ETX := by decide

theorem stx_not_digit : isAsciiDigit STX = false := by decide
theorem etx_not_digit : isAsciiDigit ETX = false := by decide

/-- a character that cannot continue a token: not a digit, not `ETX`, not in `klzzwxh:` -/
def brk (c : Char) : Bool := !isAsciiDigit c && c != ETX && !(['k', 'l', 'z', 'w', 'x', 'h', ':'].contains c)

theorem brk_stx : brk STX = true := by decide

/-! ### `spanLen`, `phAt` -/

theorem spanLen_append_lt {p : Char → Bool} {a : Str} (h : spanLen p a < a.length) (b : Str) :
    spanLen p (a ++ b) = spanLen p a := by
  induction a with
  | nil => simp at h
  | cons c r ih =>
    simp only [List.cons_append, spanLen]
    by_cases hc : p c = true
    · simp only [spanLen, hc, if_true, List.length_cons] at h ⊢
      rw [ih (by omega)]
    · simp [hc]

theorem spanLen_append_all {p : Char → Bool} {a : Str} (h : spanLen p a = a.length) (b : Str) :
    spanLen p (a ++ b) = a.length + spanLen p b := by
  induction a with
  | nil => simp
  | cons c r ih =>
    simp only [List.cons_append, spanLen] at h ⊢
    by_cases hc : p c = true
    · simp only [hc, if_true, List.length_cons] at h ⊢
      rw [ih (by omega)]; omega
    · simp [hc] at h

theorem phAt_some {r id : Str} {l : Nat} (h : phAt r = some (id, l)) :
    l = id.length + 1 ∧ 0 < id.length ∧ (∀ c ∈ id, isAsciiDigit c = true) ∧ ∃ rest, r = id ++ ETX :: rest := by
  unfold phAt at h
  simp only [] at h
  split at h
  · rename_i hc
    simp only [Bool.and_eq_true, decide_eq_true_eq, beq_iff_eq] at hc
    simp only [Option.some.injEq, Prod.mk.injEq] at h
    obtain ⟨hid, hl⟩ := h
    have hlen : id.length = spanLen isAsciiDigit r := by
      rw [← hid, List.length_take]; exact Nat.min_eq_left (spanLen_le _ _)
    refine ⟨by omega, by omega, ?_, ?_⟩
    · rw [← hid]; exact spanLen_prefix_all _ _
    · refine ⟨r.drop (spanLen isAsciiDigit r + 1), ?_⟩
      have h2 := hc.2
      have : r.drop (spanLen isAsciiDigit r) = ETX :: r.drop (spanLen isAsciiDigit r + 1) := by
        rw [List.getElem?_eq_some_iff] at h2
        obtain ⟨hlt, hget⟩ := h2
        rw [← hget]; exact List.drop_eq_getElem_cons hlt
      rw [← hid, ← this, List.take_append_drop]
  · simp at h

theorem phAt_digits {id : Str} (hpos : 0 < id.length) (hd : ∀ c ∈ id, isAsciiDigit c = true) (rest : Str) :
    phAt (id ++ ETX :: rest) = some (id, id.length + 1) := by
  have hall : id.all isAsciiDigit = true := by simpa using hd
  have hs : spanLen isAsciiDigit (id ++ ETX :: rest) = id.length := by
    rw [spanLen_append_all ((spanLen_eq_length_iff _ _).2 hall)]
    simp [spanLen, etx_not_digit]
  unfold phAt
  simp only [hs]
  have h1 : (id ++ ETX :: rest)[id.length]? = some ETX := by simp
  simp [hpos]

theorem phAt_append {r : Str} {x : Str × Nat} (h : phAt r = some x) (b : Str) : phAt (r ++ b) = some x := by
  obtain ⟨id, l⟩ := x
  obtain ⟨hl, hpos, hd, rest, hr⟩ := phAt_some h
  subst hr
  rw [List.append_assoc, List.cons_append, phAt_digits hpos hd, hl]

theorem prefix_of_append_brk {id a b rest : Str} {c : Char} (hd : ∀ x ∈ id, isAsciiDigit x = true)
    (hc1 : isAsciiDigit c = false) (hc2 : c ≠ ETX) (hr : a ++ c :: b = id ++ ETX :: rest) :
    ∃ rest', a = id ++ ETX :: rest' := by
  induction id generalizing a with
  | nil =>
    cases a with
    | nil => simp only [List.nil_append, List.cons.injEq] at hr; exact absurd hr.1 hc2
    | cons a0 a' =>
      simp only [List.cons_append, List.nil_append, List.cons.injEq] at hr
      exact ⟨a', by rw [hr.1]; rfl⟩
  | cons d ds ih =>
    cases a with
    | nil =>
      simp only [List.nil_append, List.cons_append, List.cons.injEq] at hr
      have := hd d (by simp)
      rw [← hr.1, hc1] at this; simp at this
    | cons a0 a' =>
      simp only [List.cons_append, List.cons.injEq] at hr
      obtain ⟨rest', hrest⟩ := ih (fun x hx => hd x (List.mem_cons_of_mem _ hx)) hr.2
      exact ⟨rest', by rw [hr.1, hrest]; rfl⟩

theorem phAt_of_append_brk {a b : Str} {c : Char} {x : Str × Nat} (hc : brk c = true)
    (h : phAt (a ++ c :: b) = some x) : phAt a = some x := by
  obtain ⟨id, l⟩ := x
  obtain ⟨hl, hpos, hd, rest, hr⟩ := phAt_some h
  simp only [brk, Bool.and_eq_true, Bool.not_eq_true', bne_iff_ne, ne_eq] at hc
  obtain ⟨rest', ha⟩ := prefix_of_append_brk hd hc.1.1 hc.1.2 hr
  rw [ha, phAt_digits hpos hd, hl]

end MdVerif.Flat
